import CCVerif.Lemmas.CheckerComplete
/-!
Completeness of the checker model (C03 `check_complete_partial1`), part 2: projections, tuples,
×, enumerations, declaration patterns, the binders (quantifiers, D{}, I{}).
-/
namespace CCVerif.Checker
open CCVerif.Syntax CCVerif.Types CCVerif.Spec

/-! ## projections -/

theorem pickComponents_of_pick (cs : List Ty) : ∀ (idx : List Int) (comps : List Ty),
    pick cs idx = some comps → pickComponents cs idx = some comps
  | [], comps, h => by simpa [pickComponents, pick] using h
  | i :: is, comps, h => by
    unfold pick at h
    by_cases hi : 1 ≤ i ∧ i ≤ cs.length
    · simp only [hi, and_self, if_true] at h
      have ht : Ty.testIndex cs i = true := by simp [Ty.testIndex]; omega
      have hc : Ty.component? cs i = cs[(i - 1).toNat]? := by
        unfold Ty.component?; simp [hi.1]
      unfold pickComponents
      simp only [ht, if_true, hc]
      generalize cs[(i - 1).toNat]? = oc at h ⊢
      cases oc with
      | none => simp at h
      | some c =>
        cases h2 : pick cs is with
        | none => simp [h2] at h
        | some rest =>
          simp only [h2] at h
          rw [pickComponents_of_pick cs is rest h2]; exact h
    · simp [hi] at h

theorem mkTuple_fwd (site : String) {cs : List Ty} (h : cs ≠ []) (s : St) :
    mkTuple site cs s = (.ok (Ty.tupleOf cs), s) := by
  cases cs with
  | nil => exact absurd rfl h
  | cons c cs => rfl

theorem bigpr_c {Γ : Ctx} {n : Nat} {idx : List Int} {lo hi : Int} {a : Ast} (ha : CV Γ n .S a) :
    CV0 Γ (n+1) .S (.node .BIGPR (.tuple idx) lo hi [a]) := by
  intro p s Δ τ ht hg hr hp1 hp2
  cases ht with
  | bigpr hne h1 hdb hpick hcne =>
    change ∃ s', viProjectSet (visit Γ n) (.node .BIGPR (.tuple idx) lo hi [a]) s = _ ∧ _
    unfold viProjectSet
    obtain ⟨s1, r1, m1⟩ := childTypeDebool_cv (eid := EID.invalidProjectionSet) (tok := true) kid0 ha h1 hdb hg hr
      (fun _ => hne)
    refine bind_ex r1 ?_
    simp only [Ty.isAny, Bool.false_eq_true, ↓reduceIte]
    refine bind_ex (tupleOfData_fwd _) ?_
    simp only [pickComponents_of_pick _ _ _ hpick]
    exact bind_ex (mkTuple_fwd _ hcne _) ⟨_, rfl, rfl⟩
  | bigprAny hne h1 hdb =>
    change ∃ s', viProjectSet (visit Γ n) (.node .BIGPR (.tuple idx) lo hi [a]) s = _ ∧ _
    unfold viProjectSet
    obtain ⟨s1, r1, m1⟩ := childTypeDebool_cv (eid := EID.invalidProjectionSet) (tok := true) kid0 ha h1 hdb hg hr
      (fun _ => hne)
    refine bind_ex r1 ?_
    have : Ty.R0.isAny = true := by decide
    simp only [this, if_true]
    exact ⟨_, rfl, rfl⟩
  | _ => exfalso; simp_all

theorem smallpr_c {Γ : Ctx} {n : Nat} {idx : List Int} {lo hi : Int} {a : Ast} (ha : CV Γ n .S a) :
    CV0 Γ (n+1) .S (.node .SMALLPR (.tuple idx) lo hi [a]) := by
  intro p s Δ τ ht hg hr hp1 hp2
  cases ht with
  | smallpr hne h1 hpick hcne =>
    change ∃ s', viProjectTuple (visit Γ n) (.node .SMALLPR (.tuple idx) lo hi [a]) s = _ ∧ _
    unfold viProjectTuple
    obtain ⟨s1, r1, m1⟩ := childType_cv kid0 ha h1 hg hr (fun _ _ => ⟨_, rfl⟩) (fun _ => hne)
    refine bind_ex r1 (bind_ex (expectTy_fwd _ _ _) ?_)
    simp only [Ty.isAny, Bool.false_eq_true, ↓reduceIte]
    refine bind_ex (tupleOfData_fwd _) ?_
    simp only [pickComponents_of_pick _ _ _ hpick]
    exact bind_ex (mkTuple_fwd _ hcne _) ⟨_, rfl, rfl⟩
  | smallprAny hne h1 =>
    change ∃ s', viProjectTuple (visit Γ n) (.node .SMALLPR (.tuple idx) lo hi [a]) s = _ ∧ _
    unfold viProjectTuple
    obtain ⟨s1, r1, m1⟩ := childType_cv kid0 ha h1 hg hr (fun _ _ => ⟨_, rfl⟩) (fun _ => hne)
    refine bind_ex r1 (bind_ex (expectTy_fwd _ _ _) ?_)
    have : Ty.R0.isAny = true := by decide
    simp only [this, if_true]
    exact ⟨_, rfl, rfl⟩
  | _ => exfalso; simp_all

/-! ## lists of children -/

theorem typesAll_c {Γ : Ctx} {n : Nat} {a : Ast} {site : String} {Δ : Env}
    (hk : ∀ k ∈ a.kids, CV Γ n .S k) (hnm : emptySetInvalidParents.contains a.id = false) :
    ∀ (m i : Nat) (s : St) (ts : List Ty), HasTypes Γ Δ (a.kids.drop i) ts →
      i + m = a.kids.length → GoodSt s → RelC Γ s Δ →
      ∃ s', typesAll (visit Γ n) a site m i s = (.ok ts, s') ∧ Same s s'
  | 0, i, s, ts, h, hl, hg, hr => by
    rw [List.drop_eq_nil_of_le (by omega)] at h
    cases h
    exact ⟨s, rfl, Same.refl s⟩
  | m+1, i, s, ts, h, hl, hg, hr => by
    have hi : i < a.kids.length := by omega
    have hki : a.kid i = some a.kids[i] := by simp [Ast.kid, hi]
    rw [drop_of_getElem? a.kids i _ hki] at h
    cases h with
    | cons h1 h2 =>
      obtain ⟨s1, r1, m1⟩ := childType_cv hki (hk _ (List.getElem_mem hi)) h1 hg hr (fun _ _ => ⟨_, rfl⟩) (nomis hnm)
      obtain ⟨s2, r2, m2⟩ := typesAll_c hk hnm m (i+1) s1 _ h2 (by omega) (hg.of_same m1) (hr.of_same m1)
      refine ⟨s2, ?_, m1.trans m2⟩
      unfold typesAll
      rw [bind_eq r1, bind_eq (expectTy_fwd _ _ _), bind_eq r2]; rfl

theorem deboolAll_c {Γ : Ctx} {n : Nat} {a : Ast} {eid : Nat} {Δ : Env}
    (hk : ∀ k ∈ a.kids, CV Γ n .S k) (hnm : emptySetInvalidParents.contains a.id = false) :
    ∀ (m i : Nat) (s : St) (ts : List Ty), HasSets Γ Δ (a.kids.drop i) ts →
      i + m = a.kids.length → GoodSt s → RelC Γ s Δ →
      ∃ s', deboolAll (visit Γ n) a eid m i s = (.ok ts, s') ∧ Same s s'
  | 0, i, s, ts, h, hl, hg, hr => by
    rw [List.drop_eq_nil_of_le (by omega)] at h
    cases h
    exact ⟨s, rfl, Same.refl s⟩
  | m+1, i, s, ts, h, hl, hg, hr => by
    have hi : i < a.kids.length := by omega
    have hki : a.kid i = some a.kids[i] := by simp [Ast.kid, hi]
    rw [drop_of_getElem? a.kids i _ hki] at h
    cases h with
    | cons h1 hdb h2 =>
      obtain ⟨s1, r1, m1⟩ := childTypeDebool_cv (eid := eid) (tok := false) hki (hk _ (List.getElem_mem hi)) h1 hdb hg hr
        (nomis hnm)
      obtain ⟨s2, r2, m2⟩ := deboolAll_c hk hnm m (i+1) s1 _ h2 (by omega) (hg.of_same m1) (hr.of_same m1)
      refine ⟨s2, ?_, m1.trans m2⟩
      unfold deboolAll
      rw [bind_eq r1, bind_eq r2]; rfl

theorem enumGo_c {Γ : Ctx} {n : Nat} {a : Ast} {Δ : Env}
    (hk : ∀ k ∈ a.kids, CV Γ n .S k) (hnm : emptySetInvalidParents.contains a.id = false) :
    ∀ (m i : Nat) (t r : Ty) (s : St) (ts : List Ty), HasTypes Γ Δ (a.kids.drop i) ts →
      mergeAll Γ.traits t ts = some r → i + m = a.kids.length → GoodSt s → RelC Γ s Δ →
      ∃ s', enumGo Γ (visit Γ n) a m i t s = (.ok r, s') ∧ Same s s'
  | 0, i, t, r, s, ts, h, hm, hl, hg, hr => by
    rw [List.drop_eq_nil_of_le (by omega)] at h
    cases h
    simp only [mergeAll, Option.some.injEq] at hm
    subst hm
    exact ⟨s, rfl, Same.refl s⟩
  | m+1, i, t, r, s, ts, h, hm, hl, hg, hr => by
    have hi : i < a.kids.length := by omega
    have hki : a.kid i = some a.kids[i] := by simp [Ast.kid, hi]
    rw [drop_of_getElem? a.kids i _ hki] at h
    cases h with
    | cons h1 h2 =>
      rename_i ct ts'
      obtain ⟨s1, r1, m1⟩ := childType_cv hki (hk _ (List.getElem_mem hi)) h1 hg hr (fun _ _ => ⟨_, rfl⟩) (nomis hnm)
      simp only [mergeAll] at hm
      cases hmm : merge Γ.traits t ct with
      | none => simp [hmm] at hm
      | some mt =>
        simp only [hmm] at hm
        obtain ⟨s2, r2, m2⟩ := enumGo_c hk hnm m (i+1) mt r s1 _ h2 hm (by omega) (hg.of_same m1) (hr.of_same m1)
        refine ⟨s2, ?_, m1.trans m2⟩
        unfold enumGo
        rw [bind_eq r1, bind_eq (expectTy_fwd _ _ _)]
        simp only [hmm]
        exact r2

theorem tuple_c {Γ : Ctx} {n : Nat} {d : TokData} {lo hi : Int} {a b : Ast} {ks : List Ast}
    (hk : ∀ k ∈ a :: b :: ks, CV Γ n .S k) : CV0 Γ (n+1) .S (.node .NT_TUPLE d lo hi (a :: b :: ks)) := by
  intro p s Δ τ ht hg hr hp1 hp2
  cases ht with
  | tuple hts =>
    rename_i ts
    change ∃ s', viTuple (visit Γ n) (.node .NT_TUPLE d lo hi (a :: b :: ks)) s = _ ∧ _
    unfold viTuple
    obtain ⟨s1, r1, m1⟩ := typesAll_c (a := .node .NT_TUPLE d lo hi (a :: b :: ks)) (site := "ViTuple") hk
      (show emptySetInvalidParents.contains Tok.NT_TUPLE = false by decide)
      (ks.length + 2) 0 s ts (by simpa [Ast.kids] using hts) (by simp [Ast.kids]) hg hr
    refine bind_ex r1 ?_
    have hne : ts ≠ [] := by cases hts; simp
    exact bind_ex (mkTuple_fwd _ hne _) ⟨_, rfl, by
      cases hts with
      | cons _ h2 => cases h2 with
        | cons _ _ => rfl⟩
  | _ => exfalso; simp_all

theorem decart_c {Γ : Ctx} {n : Nat} {d : TokData} {lo hi : Int} {a b : Ast} {ks : List Ast}
    (hk : ∀ k ∈ a :: b :: ks, CV Γ n .S k) : CV0 Γ (n+1) .S (.node .DECART d lo hi (a :: b :: ks)) := by
  intro p s Δ τ ht hg hr hp1 hp2
  cases ht with
  | decart hts =>
    rename_i ts
    change ∃ s', viDecart (visit Γ n) (.node .DECART d lo hi (a :: b :: ks)) s = _ ∧ _
    unfold viDecart
    obtain ⟨s1, r1, m1⟩ := deboolAll_c (a := .node .DECART d lo hi (a :: b :: ks)) (eid := EID.invalidDecart) hk
      (show emptySetInvalidParents.contains Tok.DECART = false by decide)
      (ks.length + 2) 0 s ts (by simpa [Ast.kids] using hts) (by simp [Ast.kids]) hg hr
    refine bind_ex r1 ?_
    have hne : ts ≠ [] := by cases hts; simp
    exact bind_ex (mkTuple_fwd _ hne _) ⟨_, rfl, by
      cases hts with
      | cons _ _ h2 => cases h2 with
        | cons _ _ _ => rfl⟩
  | _ => exfalso; simp_all

theorem inv_enumeration {Γ : Ctx} {Δ : Env} {tok : Tok} {d : TokData} {lo hi : Int} {a : Ast} {ks : List Ast} {τ : ExprTy}
    (htok : tok = .NT_ENUMERATION ∨ tok = .BOOL)
    (ht : HasType Γ Δ (.node tok d lo hi (a :: ks)) τ) :
    ∃ t ts m, HasTypes Γ Δ (a :: ks) (t :: ts) ∧ mergeAll Γ.traits t ts = some m ∧ τ = .ty (.coll m) := by
  rcases htok with rfl | rfl <;> cases ht <;>
    first
    | exact ⟨_, _, _, ‹_›, ‹_›, rfl⟩
    | (exfalso; simp_all)

theorem enumeration_c {Γ : Ctx} {n : Nat} {tok : Tok} {d : TokData} {lo hi : Int} {a : Ast} {ks : List Ast}
    (htok : tok = .NT_ENUMERATION ∨ tok = .BOOL)
    (hk : ∀ k ∈ a :: ks, CV Γ n .S k) : CV0 Γ (n+1) .S (.node tok d lo hi (a :: ks)) := by
  intro p s Δ τ ht hg hr hp1 hp2
  obtain ⟨t, ts, m, hts, hm, rfl⟩ := inv_enumeration htok ht
  have hd : visit Γ (n+1) p (.node tok d lo hi (a :: ks)) = viEnumeration Γ (visit Γ n) (.node tok d lo hi (a :: ks)) := by
    rcases htok with rfl | rfl <;> rfl
  have hnm : emptySetInvalidParents.contains tok = false := by rcases htok with rfl | rfl <;> decide
  rw [hd]; unfold viEnumeration
  cases hts with
  | cons h1 h2 =>
    obtain ⟨s1, r1, m1⟩ := childType_cv kid0 (hk a (by simp)) h1 hg hr (fun _ _ => ⟨_, rfl⟩) (nomis hnm)
    refine bind_ex r1 (bind_ex (expectTy_fwd _ _ _) ?_)
    obtain ⟨s2, r2, m2⟩ := enumGo_c (a := .node tok d lo hi (a :: ks)) hk hnm (ks.length) 1 t m s1 ts
      (by simpa [Ast.kids] using h2) hm (by simp [Ast.kids]; omega) (hg.of_same m1) (hr.of_same m1)
    have e : (Ast.node tok d lo hi (a :: ks)).kids.length - 1 = ks.length := by simp [Ast.kids]
    rw [e]
    exact bind_ex r2 ⟨_, rfl, rfl⟩

/-! ## declaration patterns -/

theorem RelC.of_eq {Γ : Ctx} {s s' : St} {Δ : Env} (hr : RelC Γ s Δ) (hl : s'.locals = s.locals)
    (hf : s'.funcDecl = s.funcDecl) : RelC Γ s' Δ :=
  ⟨⟨fun x => by rw [hl]; exact hr.rel.vars x, fun hne => hr.rel.fd (by rw [← hf]; exact hne), hr.rel.clean⟩,
   fun e => by rw [hf]; exact hr.fd e⟩

/-- declaration pattern visited in declaration mode with `currentType = t` -/
def CD (Γ : Ctx) (n : Nat) (c : Cat) (pat : Ast) : Prop :=
  ∀ (p : Option Tok) (s : St) (Δ Δ' : Env) (t : Ty), Binds Δ pat t Δ' → s.cur = .ty t → DeclMode s →
    RelC Γ s Δ → (CtxOk Γ → CleanTy Γ t) →
    ∃ s', visit Γ n p pat s = (.ok (), s') ∧ RelC Γ s' Δ' ∧ Ext s s' ∧ (c = .D → s'.cur = .ty t)

theorem addLocal_fwd {x : String} {t : Ty} {pos : Int} {s : St} (h : view s.locals x = none) :
    ∃ s', addLocal x t pos s = (.ok (), s') := by
  unfold view at h
  unfold addLocal
  cases hf : findLocal x s.locals with
  | none => exact ⟨_, rfl⟩
  | some q =>
    obtain ⟨i, v⟩ := q
    rw [hf] at h
    by_cases he : v.enabled = true
    · simp [he] at h
    · simp only [he, Bool.false_eq_true, if_false]
      exact ⟨_, rfl⟩

theorem dlocal_c {Γ : Ctx} {n : Nat} {c : Cat} {x : String} {lo hi : Int} {ks : List Ast} :
    CD Γ (n+1) c (.node .ID_LOCAL (.text x) lo hi ks) := by
  intro p s Δ Δ' t hb hc hl hr hct
  cases hb with
  | var hhas =>
    have hnone : view s.locals x = none := by
      have h1 := hr.rel.vars x
      have h2 : Δ.get? x = none := by
        have := Env.has_eq Δ x; rw [hhas] at this
        cases hg : Δ.get? x with
        | none => rfl
        | some v => rw [hg] at this; cases this
      rw [h2] at h1
      cases hv : view s.locals x with
      | none => rfl
      | some q => rw [hv] at h1; cases h1
    obtain ⟨s1, h1⟩ := addLocal_fwd (t := t) (pos := (Ast.node Tok.ID_LOCAL (TokData.text x) lo hi ks).lo) hnone
    have hrun : visit Γ (n+1) p (.node .ID_LOCAL (.text x) lo hi ks) s = (.ok (), s1) := by
      change viLocal (.node .ID_LOCAL (.text x) lo hi ks) s = _
      unfold viLocal
      rw [bind_eq (textOf_fwd s), bind_eq (getSt_fwd s)]
      have hcond : (decide (s.localDecl > 0) || decide (s.argDecl > 0)) = true := by
        simp only [Bool.or_eq_true, decide_eq_true_eq]
        rcases hl with hl | hl
        · left; omega
        · right; omega
      simp only [hcond, if_true, hc]
      rw [bind_eq (expectTy_fwd _ _ _)]
      exact h1
    obtain ⟨Δ'', b, r, e, hcur⟩ := dlocal_ok (Γ := Γ) (n := n) p s s1 Δ t hrun hc hl hr.rel hct
    cases b with
    | var _ =>
      exact ⟨s1, hrun, ⟨r, fun hfd => by rw [e.2.funcDecl]; exact hr.fd hfd⟩, e, fun _ => hcur⟩

theorem bindsEach_length : ∀ {Δ Δ' : Env} {ks : List Ast} {cs : List Ty}, BindsEach Δ ks cs Δ' → ks.length = cs.length
  | _, _, [], _, h => by cases h; rfl
  | _, _, _ :: _, _, h => by
    cases h with
    | cons _ h2 => simp [bindsEach_length h2]

theorem tupleDeclGo_c {Γ : Ctx} {n : Nat} {par : Tok} : ∀ (ks : List Ast) (cs : List Ty) (s : St) (Δ Δ' : Env),
    (∀ k ∈ ks, CD Γ n .D k) → BindsEach Δ ks cs Δ' → DeclMode s → RelC Γ s Δ →
    (CtxOk Γ → IdsInL (CleanId Γ) cs) →
    ∃ s', tupleDeclGo (visit Γ n) par ks cs s = (.ok (), s') ∧ RelC Γ s' Δ' ∧ Ext s s'
  | [], cs, s, Δ, Δ', _, hb, _, hr, _ => by
    cases hb
    exact ⟨s, rfl, hr, Ext.refl s⟩
  | k :: ks, cs, s, Δ, Δ', hk, hb, hd, hr, hct => by
    cases hb with
    | cons b1 b2 =>
      rename_i Δ1 c cs'
      have m1 : Same s { s with cur := .ty c } := same_cur s _
      obtain ⟨s2, r2, rc2, e2, _⟩ := hk k (by simp) (some par) { s with cur := .ty c } Δ Δ1 c b1 rfl
        (hd.of_sameF m1.2) (hr.of_same m1) (fun hx => (idsInL_cons.mp (hct hx)).1)
      obtain ⟨s3, r3, rc3, e3⟩ := tupleDeclGo_c ks cs' s2 Δ1 Δ' (fun k' hk' => hk k' (by simp [hk'])) b2
        ((hd.of_sameF m1.2).of_sameF e2.2) rc2 (fun hx => (idsInL_cons.mp (hct hx)).2)
      refine ⟨s3, ?_, rc3, (m1.ext.trans e2).trans e3⟩
      unfold tupleDeclGo
      rw [bind_eq (setCur_fwd _ _), bind_eq r2]; exact r3

theorem dtuple_c {Γ : Ctx} {n : Nat} {c : Cat} {d : TokData} {lo hi : Int} {ks : List Ast}
    (hk : ∀ k ∈ ks, CD Γ n .D k) : CD Γ (n+1) c (.node .NT_TUPLE_DECL d lo hi ks) := by
  intro p s Δ Δ' t hb hc hl hr hct
  cases hb with
  | tuple hbe =>
    rename_i cs
    obtain ⟨s1, r1, rc1, e1⟩ := tupleDeclGo_c (par := .NT_TUPLE_DECL) ks cs s Δ Δ' hk hbe hl hr
      (fun hx => idsIn_tuple.mp (hct hx))
    refine ⟨{ s1 with cur := .ty (.tuple cs) }, ?_, rc1.of_same (same_cur _ _), e1.trans (same_cur _ _).ext, fun _ => rfl⟩
    change viTupleDeclaration (visit Γ n) (.node .NT_TUPLE_DECL d lo hi ks) s = _
    unfold viTupleDeclaration
    rw [bind_eq (getSt_fwd s)]
    simp only [hc]
    rw [bind_eq (expectTy_fwd _ _ _)]
    have hlen : (cs.length != (Ast.node Tok.NT_TUPLE_DECL d lo hi ks).kids.length) = false := by
      simp [Ast.kids, bindsEach_length hbe]
    simp only [hlen, Bool.false_eq_true, if_false]
    rw [bind_eq (show tupleDeclGo (visit Γ n) (Ast.node Tok.NT_TUPLE_DECL d lo hi ks).id
      (Ast.node Tok.NT_TUPLE_DECL d lo hi ks).kids cs s = (.ok (), s1) from r1)]
    rfl

theorem visitAll_decl_c {Γ : Ctx} {n : Nat} {par : Tok} {t : Ty} : ∀ (ks : List Ast) (s : St) (Δ Δ' : Env),
    (∀ k ∈ ks, CD Γ n .D k) → BindsAll Δ ks t Δ' → s.cur = .ty t → DeclMode s → RelC Γ s Δ →
    (CtxOk Γ → CleanTy Γ t) →
    ∃ s', visitAll (visit Γ n) par ks s = (.ok (), s') ∧ RelC Γ s' Δ' ∧ Ext s s'
  | [], s, Δ, Δ', _, hb, _, _, hr, _ => by
    cases hb
    exact ⟨s, rfl, hr, Ext.refl s⟩
  | k :: ks, s, Δ, Δ', hk, hb, hc, hd, hr, hct => by
    cases hb with
    | cons b1 b2 =>
      rename_i Δ1
      obtain ⟨s2, r2, rc2, e2, c2⟩ := hk k (by simp) (some par) s Δ Δ1 t b1 hc hd hr hct
      obtain ⟨s3, r3, rc3, e3⟩ := visitAll_decl_c ks s2 Δ1 Δ' (fun k' hk' => hk k' (by simp [hk'])) b2 (c2 rfl)
        (hd.of_sameF e2.2) rc2 hct
      refine ⟨s3, ?_, rc3, e2.trans e3⟩
      unfold visitAll
      rw [bind_eq r2]; exact r3

theorem deenum_c {Γ : Ctx} {n : Nat} {d : TokData} {lo hi : Int} {ks : List Ast}
    (hk : ∀ k ∈ ks, CD Γ n .D k) : CD Γ (n+1) .DE (.node .NT_ENUM_DECL d lo hi ks) := by
  intro p s Δ Δ' t hb hc hl hr hct
  cases hb with
  | enum hba =>
    obtain ⟨s1, r1, rc1, e1⟩ := visitAll_decl_c (par := .NT_ENUM_DECL) ks s Δ Δ' hk hba hc hl hr hct
    refine ⟨{ s1 with cur := .logic }, ?_, rc1.of_same (same_cur _ _), e1.trans (same_cur _ _).ext, fun e => by cases e⟩
    change viAllLogic (visit Γ n) (.node .NT_ENUM_DECL d lo hi ks) s = _
    unfold viAllLogic
    rw [bind_eq (show visitAll (visit Γ n) (Ast.node Tok.NT_ENUM_DECL d lo hi ks).id
      (Ast.node Tok.NT_ENUM_DECL d lo hi ks).kids s = (.ok (), s1) from r1)]
    rfl

theorem CD.toDE {Γ : Ctx} {n : Nat} {pat : Ast} (h : CD Γ n .D pat) : CD Γ n .DE pat := by
  intro p s Δ Δ' t hb hc hl hr hct
  obtain ⟨s', a, b, c, _⟩ := h p s Δ Δ' t hb hc hl hr hct
  exact ⟨s', a, b, c, fun e => by cases e⟩

/-! ## binders -/

theorem visitChildDecl_c {Γ : Ctx} {n : Nat} {c : Cat} {a pat : Ast} {i : Nat} {dom : Ty} {s : St} {Δ Δ' : Env}
    (hk : a.kid i = some pat) (hp : CD Γ n c pat) (hps : DEOk Γ n pat) (hb : Binds Δ pat dom Δ')
    (hr : RelC Γ s Δ) (hct : CtxOk Γ → CleanTy Γ dom) :
    ∃ s', visitChildDecl (visit Γ n) a i dom s = (.ok (), s') ∧ RelC Γ s' Δ' ∧ Ext s s' := by
  let s2 : St := { s with cur := .ty dom, localDecl := s.localDecl + 1 }
  have hr2 : RelC Γ s2 Δ := hr.of_eq rfl rfl
  obtain ⟨s3, r3, rc3, e3, _⟩ := hp (some a.id) s2 Δ Δ' dom hb rfl (Or.inl (by show s.localDecl + 1 ≠ 0; omega)) hr2 hct
  have hrun : visitChildDecl (visit Γ n) a i dom s =
      (.ok (), { s3 with localDecl := s3.localDecl - 1, cur := .logic }) := by
    unfold visitChildDecl
    rw [bind_eq (setCur_fwd _ _), bind_eq (modifySt_fwd _ _), bind_eq (visitChild_fwd hk r3),
      bind_eq (modifySt_fwd _ _)]
    rfl
  refine ⟨_, hrun, rc3.of_eq rfl rfl, ?_⟩
  obtain ⟨_, _, _, e⟩ := visitChildDecl_spec hk hps hrun hr.rel hct
  exact e

theorem startScope_c {Γ : Ctx} {s : St} {Δ : Env} (hg : GoodSt s) (hr : RelC Γ s Δ) :
    ∃ s0, startScope s = (.ok (), s0) ∧ GoodSt s0 ∧ RelC Γ s0 Δ := by
  refine ⟨_, rfl, ?_⟩
  obtain ⟨g, r⟩ := startScope_spec (Γ := Γ) (s := s) (Δ := Δ) rfl hg hr.rel
  exact ⟨g, r, hr.fd⟩

theorem binder_c {Γ : Ctx} {n : Nat} {cp : Cat} {tok : Tok} {d : TokData} {lo hi : Int} {pat dom body : Ast}
    {fin : Ty → M Unit} {s : St} {Δ Δ' : Env} {t e : Ty} {τ : ExprTy}
    (hnm : emptySetInvalidParents.contains tok = false)
    (hp : CD Γ n cp pat) (hps : DEOk Γ n pat) (hd : CV Γ n .S dom) (hds : VOk Γ n .S dom) (hb : CV Γ n .L body)
    (h1 : HasType Γ Δ dom (.ty t)) (hdb : Debool t e) (hbi : Binds Δ pat e Δ') (h3 : HasType Γ Δ' body .logic)
    (hfin : ∀ s, ∃ s', fin e s = (.ok (), s') ∧ s'.cur = τ)
    (hg : GoodSt s) (hr : RelC Γ s Δ) :
    ∃ s', binderM (visit Γ n) (.node tok d lo hi [pat, dom, body]) fin s = (.ok (), s') ∧ s'.cur = τ := by
  unfold binderM
  obtain ⟨s0, r0, hg0, hr0⟩ := startScope_c hg hr
  refine bind_ex r0 ?_
  obtain ⟨s1, r1, m1⟩ := childTypeDebool_cv (eid := EID.invalidTypeOperation) (tok := false) kid1 hd h1 hdb hg0 hr0 (nomis hnm)
  refine bind_ex r1 ?_
  obtain ⟨_, _, _, _, _, hct⟩ := childTypeDebool_spec kid1 hds r1 hg0 hr0.rel
  obtain ⟨s2, r2, rc2, e2⟩ := visitChildDecl_c kid0 hp hps hbi (hr0.of_same m1) hct
  refine bind_ex r2 ?_
  obtain ⟨s3, r3, _, m3⟩ := hb (some tok) s2 Δ' .logic h3 ((hg0.of_same m1).of_ext e2) rc2 (fun e => by cases e) (nomis hnm)
  refine bind_ex (visitChild_fwd kid2 r3) ?_
  refine bind_ex (modifySt_fwd _ _) ?_
  exact hfin _

theorem inv_quant {Γ : Ctx} {Δ : Env} {tok : Tok} {d : TokData} {lo hi : Int} {p dom body : Ast} {τ : ExprTy}
    (htok : tok = .FORALL ∨ tok = .EXISTS)
    (ht : HasType Γ Δ (.node tok d lo hi [p, dom, body]) τ) :
    ∃ Δ' t e, HasType Γ Δ dom (.ty t) ∧ Debool t e ∧ Binds Δ p e Δ' ∧ HasType Γ Δ' body .logic ∧ τ = .logic := by
  rcases htok with rfl | rfl <;> cases ht <;>
    first
    | exact ⟨_, _, _, ‹_›, ‹_›, ‹_›, ‹_›, rfl⟩
    | (exfalso; simp_all)

theorem quant_c {Γ : Ctx} {n : Nat} {cp : Cat} {tok : Tok} {d : TokData} {lo hi : Int} {pat dom body : Ast}
    (htok : tok = .FORALL ∨ tok = .EXISTS)
    (hp : CD Γ n cp pat) (hps : DEOk Γ n pat) (hd : CV Γ n .S dom) (hds : VOk Γ n .S dom) (hb : CV Γ n .L body) :
    CV0 Γ (n+1) .L (.node tok d lo hi [pat, dom, body]) := by
  intro p s Δ τ ht hg hr hp1 hp2
  obtain ⟨Δ', t, e, h1, hdb, hbi, h3, rfl⟩ := inv_quant htok ht
  have hdisp : visit Γ (n+1) p (.node tok d lo hi [pat, dom, body]) =
      viQuantifier (visit Γ n) (.node tok d lo hi [pat, dom, body]) := by
    rcases htok with rfl | rfl <;> rfl
  have hnm : emptySetInvalidParents.contains tok = false := by rcases htok with rfl | rfl <;> decide
  rw [hdisp, viQuantifier_eq]
  exact binder_c hnm hp hps hd hds hb h1 hdb hbi h3 (fun s => ⟨_, rfl, rfl⟩) hg hr

theorem declarative_c {Γ : Ctx} {n : Nat} {cp : Cat} {d : TokData} {lo hi : Int} {pat dom body : Ast}
    (hp : CD Γ n cp pat) (hps : DEOk Γ n pat) (hd : CV Γ n .S dom) (hds : VOk Γ n .S dom) (hb : CV Γ n .L body) :
    CV0 Γ (n+1) .S (.node .NT_DECLARATIVE_EXPR d lo hi [pat, dom, body]) := by
  intro p s Δ τ ht hg hr hp1 hp2
  cases ht with
  | declarative h1 hdb hbi h3 =>
    change ∃ s', viDeclarative (visit Γ n) (.node .NT_DECLARATIVE_EXPR d lo hi [pat, dom, body]) s = _ ∧ _
    rw [viDeclarative_eq]
    exact binder_c (show emptySetInvalidParents.contains Tok.NT_DECLARATIVE_EXPR = false by decide)
      hp hps hd hds hb h1 hdb hbi h3 (fun s => ⟨_, rfl, rfl⟩) hg hr
  | _ => exfalso; simp_all

/-! ## imperative terms -/

/-- one block of an imperative term: the run succeeds and the rest of the blocks is typed in the
environment the state describes afterwards -/
def CB (Γ : Ctx) (n : Nat) (b : Ast) : Prop :=
  ∀ (p : Option Tok) (s : St) (Δ Δ2 : Env) (bs : List Ast), Blocks Γ Δ (b :: bs) Δ2 → GoodSt s → RelC Γ s Δ →
    (emptySetMisused p = true → notEmptyLit b) →
    ∃ s' Δ1, visit Γ n p b s = (.ok (), s') ∧ Blocks Γ Δ1 bs Δ2 ∧ RelC Γ s' Δ1 ∧ Ext s s'

theorem iterate_c {Γ : Ctx} {n : Nat} {cp : Cat} {d : TokData} {lo hi : Int} {pat dom : Ast}
    (hp : CD Γ n cp pat) (hps : DEOk Γ n pat) (hd : CV Γ n .S dom) (hds : VOk Γ n .S dom) :
    CB Γ (n+1) (.node .ITERATE d lo hi [pat, dom]) := by
  intro p s Δ Δ2 bs hB hg hr _
  cases hB with
  | iterate h1 hdb hbi hrest =>
    rename_i Δ1 t e
    obtain ⟨s1, r1, m1⟩ := childTypeDebool_cv (eid := EID.invalidTypeOperation) (tok := false) kid1 hd h1 hdb hg hr
      (nomis (t := .ITERATE) (by decide))
    obtain ⟨_, _, _, _, _, hct⟩ := childTypeDebool_spec kid1 hds r1 hg hr.rel
    obtain ⟨s2, r2, rc2, e2⟩ := visitChildDecl_c kid0 hp hps hbi (hr.of_same m1) hct
    refine ⟨s2, Δ1, ?_, hrest, rc2, m1.ext.trans e2⟩
    change viIterate (visit Γ n) (.node .ITERATE d lo hi [pat, dom]) s = _
    unfold viIterate
    rw [bind_eq r1]; exact r2
  | cond h1 _ _ _ => exact absurd rfl h1

theorem assign_c {Γ : Ctx} {n : Nat} {cp : Cat} {d : TokData} {lo hi : Int} {pat ex : Ast}
    (hp : CD Γ n cp pat) (hps : DEOk Γ n pat) (hd : CV Γ n .S ex) (hds : VOk Γ n .S ex) :
    CB Γ (n+1) (.node .ASSIGN d lo hi [pat, ex]) := by
  intro p s Δ Δ2 bs hB hg hr _
  cases hB with
  | assign h1 hbi hrest =>
    rename_i Δ1 t
    obtain ⟨s1, r1, m1⟩ := childType_cv kid1 hd h1 hg hr (fun _ _ => ⟨_, rfl⟩) (nomis (t := .ASSIGN) (by decide))
    obtain ⟨_, _, _, _, _, hct⟩ := childType_spec kid1 hds r1 hg hr.rel
    obtain ⟨s2, r2, rc2, e2⟩ := visitChildDecl_c kid0 hp hps hbi (hr.of_same m1) (fun hx => hct hx)
    refine ⟨s2, Δ1, ?_, hrest, rc2, m1.ext.trans e2⟩
    change viAssign (visit Γ n) (.node .ASSIGN d lo hi [pat, ex]) s = _
    unfold viAssign
    rw [bind_eq r1, bind_eq (expectTy_fwd _ _ _)]; exact r2
  | cond _ h2 _ _ => exact absurd rfl h2

theorem cond_c {Γ : Ctx} {n : Nat} {b : Ast} (hb : CV Γ n .L b) (h1 : b.id ≠ .ITERATE) (h2 : b.id ≠ .ASSIGN) :
    CB Γ n b := by
  intro p s Δ Δ2 bs hB hg hr hp2
  cases hB with
  | iterate _ _ _ _ => exact absurd rfl h1
  | assign _ _ _ => exact absurd rfl h2
  | cond _ _ hl hrest =>
    obtain ⟨s1, r1, _, m1⟩ := hb p s Δ .logic hl hg hr (fun e => by cases e) hp2
    exact ⟨s1, Δ, r1, hrest, hr.of_same m1, m1.ext⟩

theorem blocks_c {Γ : Ctx} {n : Nat} {par : Tok} (hpar : emptySetInvalidParents.contains par = false) :
    ∀ (bs : List Ast) (s : St) (Δ Δ' : Env), (∀ b ∈ bs, CB Γ n b) → Blocks Γ Δ bs Δ' → GoodSt s → RelC Γ s Δ →
    ∃ s', visitAll (visit Γ n) par bs s = (.ok (), s') ∧ RelC Γ s' Δ' ∧ Ext s s'
  | [], s, Δ, Δ', _, hB, _, hr => by
    cases hB
    exact ⟨s, rfl, hr, Ext.refl s⟩
  | b :: bs, s, Δ, Δ', hk, hB, hg, hr => by
    obtain ⟨s1, Δ1, r1, hrest, rc1, e1⟩ := hk b (by simp) (some par) s Δ Δ' bs hB hg hr (nomis hpar)
    obtain ⟨s2, r2, rc2, e2⟩ := blocks_c hpar bs s1 Δ1 Δ' (fun b' hb' => hk b' (by simp [hb'])) hrest
      (hg.of_ext e1) rc1
    refine ⟨s2, ?_, rc2, e1.trans e2⟩
    unfold visitAll
    rw [bind_eq r1]; exact r2

theorem imperative_c {Γ : Ctx} {n : Nat} {d : TokData} {lo hi : Int} {value : Ast} {blocks : List Ast}
    (hv : CV Γ n .S value) (hb : ∀ b ∈ blocks, CB Γ n b) :
    CV0 Γ (n+1) .S (.node .NT_IMPERATIVE_EXPR d lo hi (value :: blocks)) := by
  intro p s Δ τ ht hg hr hp1 hp2
  cases ht with
  | imperative hB hval =>
    rename_i Δ' t
    change ∃ s', viImperative (visit Γ n) (.node .NT_IMPERATIVE_EXPR d lo hi (value :: blocks)) s = _ ∧ _
    unfold viImperative
    obtain ⟨s0, r0, hg0, hr0⟩ := startScope_c hg hr
    refine bind_ex r0 ?_
    have hnm : emptySetInvalidParents.contains Tok.NT_IMPERATIVE_EXPR = false := by decide
    obtain ⟨s1, r1, rc1, e1⟩ := blocks_c hnm blocks s0 Δ Δ' hb hB hg0 hr0
    have r1' : visitFrom (visit Γ n) (Ast.node Tok.NT_IMPERATIVE_EXPR d lo hi (value :: blocks)).id
        ((Ast.node Tok.NT_IMPERATIVE_EXPR d lo hi (value :: blocks)).kids.drop 1) s0 = (.ok (), s1) := r1
    refine bind_ex r1' ?_
    obtain ⟨s2, r2, m2⟩ := childType_cv kid0 hv hval (hg0.of_ext e1) rc1 (fun _ _ => ⟨_, rfl⟩) (nomis hnm)
    refine bind_ex r2 (bind_ex (modifySt_fwd _ _) (bind_ex (expectTy_fwd _ _ _) ?_))
    exact ⟨_, rfl, rfl⟩
  | _ => exfalso; simp_all

end CCVerif.Checker
