import CCVerif.Model.EntryPoints
import CCVerif.Lemmas.AnalysisParser
import CCVerif.Lemmas.TokBEq
/-!
# The composed entry points (C04): where the parser's own errors are positioned, and what `parseStream` guarantees

`Model/EntryPoints.lean` runs the real parser's LALR automaton (tables regenerated from RSParserImpl.cpp). Nothing is
proved ABOUT the tables; what is proved is the reporting logic around the automaton, for EVERY outcome it can have:
whatever the automaton does, the log `parseStream` assembles is critical exactly when the status is `failed`, is empty
when the status is `ok`, and every position in it is the start of a pulled token, the start of a node of the
recursive-descent tree of a slice of the token list, or 0.
-/
namespace CCVerif.Entry
open CCVerif.Syntax CCVerif.Lexer CCVerif.Parser CCVerif.Analysis CCVerif.Checker CCVerif.Gen

variable {P : Int → Prop}

/-! ## positions of `TupleDeclaration` / `SemanticCheck` errors -/

mutual
theorem tupleErr_ranged : ∀ (a : Ast) (p : Int), Ranged P P a → tupleErr a = some p → P p
  | .node id d lo hi kids, p, hr, h => by
    unfold tupleErr at h
    split at h
    · exact tupleErrList_ranged kids p hr.kid h
    · cases h; exact hr.plo
theorem tupleErrList_ranged : ∀ (l : List Ast) (p : Int), AllRanged P P l → tupleErrList l = some p → P p
  | [], p, _, h => by simp [tupleErrList] at h
  | k :: ks, p, hr, h => by
    unfold tupleErrList at h
    split at h
    next _ q hq =>
      have hpq := Option.some.inj h
      subst hpq
      exact tupleErrList_ranged ks _ (fun x hx => hr x (List.mem_cons_of_mem _ hx)) hq
    next => exact tupleErr_ranged k p (hr k (List.mem_cons_self ..)) h
end

mutual
theorem semErr_ranged : ∀ (par : Option Tok) (a : Ast) (p : Int), Ranged P P a → semErr par a = some p → P p
  | par, .node id d lo hi kids, p, hr, h => by
    unfold semErr at h
    split at h
    · cases h; exact hr.plo
    · exact semErrList_ranged (some id) kids p hr.kid h
theorem semErrList_ranged : ∀ (par : Option Tok) (l : List Ast) (p : Int), AllRanged P P l → semErrList par l = some p → P p
  | _, [], p, _, h => by simp [semErrList] at h
  | par, k :: ks, p, hr, h => by
    unfold semErrList at h
    split at h
    next _ q hq =>
      have hpq := Option.some.inj h
      subst hpq
      exact semErrList_ranged par ks _ (fun x hx => hr x (List.mem_cons_of_mem _ hx)) hq
    next => exact semErr_ranged par k p (hr k (List.mem_cons_self ..)) h
end

theorem tokInv_take (n : Nat) {ts : Toks} (h : TokInv P P ts) : TokInv P P (ts.take n) :=
  fun t ht => h t (List.mem_of_mem_take ht)

theorem tupleCheck_pos {ts : Toks} (ht : TokInv P P ts) (first last : Nat) (eid : Nat) (p : Int)
    (h : tupleCheck ts first last = some (.posErr eid p)) : P p := by
  unfold tupleCheck at h
  simp only [] at h
  split at h
  · rename_i k e heq
    split at h
    · rename_i q hq
      cases h
      have hti : TokInv P P ((ts.drop first).take (last - first)) := tokInv_take _ (tokInv_drop _ ht)
      exact tupleErr_ranged e p ((parserInv (Plo := P) (Phi := P) _).primary _ _ _ _ hti heq).1 hq
    · cases h
  · cases h

theorem finalizeCheck_pos {ts : Toks} (ht : TokInv P P ts) (shifted : Nat) (eid : Nat) (p : Int)
    (h : finalizeCheck ts shifted = some (.posErr eid p)) : P p := by
  unfold finalizeCheck at h
  simp only [] at h
  split at h
  · rename_i raw heq
    split at h
    · rename_i q hq
      cases h
      exact semErr_ranged none raw p (ranged_expression _ _ raw (tokInv_take _ ht) heq) hq
    · cases h
  · cases h

/-! ## the automaton: a `posErr` outcome is positioned at a node's start -/

theorem onError_pos (s : LRState) (eid : Nat) (p : Int) (rd : Nat) : onError s ≠ .done (.posErr eid p) rd := by
  unfold onError
  split
  · simp
  · simp only []
    cases popToError s.stack with
    | none => simp
    | some o =>
      cases o with
      | none => simp
      | some x => obtain ⟨v, st⟩ := x; simp

theorem reduce_pos {ts : Toks} (ht : TokInv P P ts) (s : LRState) (n : Nat) (eid : Nat) (p : Int) (rd : Nat)
    (h : reduce ts s n = .done (.posErr eid p) rd) : P p := by
  unfold reduce at h
  split at h
  · simp only [] at h
    split at h
    · -- the action ended the parse
      rename_i o hact
      simp only [Step.done.injEq] at h
      obtain ⟨ho, _⟩ := h
      subst ho
      split at hact
      · simp at hact
      · exact tupleCheck_pos ht _ _ _ _ hact
      · exact finalizeCheck_pos ht _ _ _ hact
      · simp at hact
      · simp at hact
    · split at h
      · split at h <;> simp at h
      · simp at h
  · simp at h

theorem default_pos {ts : Toks} (ht : TokInv P P ts) (s : LRState) (st : Int) (eid : Nat) (p : Int) (rd : Nat)
    (h : default ts s st = .done (.posErr eid p) rd) : P p := by
  unfold default at h
  split at h
  · simp at h
  · split at h
    · exact absurd h (onError_pos _ _ _ _)
    · exact reduce_pos ht _ _ _ _ _ h

theorem step_pos {ts : Toks} (ht : TokInv P P ts) (s : LRState) (eid : Nat) (p : Int) (rd : Nat)
    (h : step ts s = .done (.posErr eid p) rd) : P p := by
  unfold step at h
  split at h
  · simp at h
  · split at h
    · simp at h
    · split at h
      · simp at h
      · split at h
        · exact default_pos ht _ _ _ _ _ h
        · simp only [] at h
          split at h
          · simp at h
          · split at h
            · exact default_pos ht _ _ _ _ _ h
            · split at h
              · simp at h
              · split at h
                · split at h
                  · exact absurd h (onError_pos _ _ _ _)
                  · exact reduce_pos ht _ _ _ _ _ h
                · simp at h

theorem lrLoop_pos {ts : Toks} (ht : TokInv P P ts) : ∀ (fuel : Nat) (s : LRState) (eid : Nat) (p : Int) (rd : Nat),
    lrLoop ts fuel s = (.posErr eid p, rd) → P p
  | 0, s, eid, p, rd, h => by simp [lrLoop] at h
  | fuel + 1, s, eid, p, rd, h => by
    unfold lrLoop at h
    split at h
    · rename_i o r hs
      simp only [Prod.mk.injEq] at h
      obtain ⟨ho, hr⟩ := h
      subst ho; subst hr
      exact step_pos ht s _ _ _ hs
    · exact lrLoop_pos ht fuel _ _ _ _ h

theorem lrRun_pos {ts : Toks} (ht : TokInv P P ts) (eid : Nat) (p : Int) (rd : Nat)
    (h : lrRun ts = (.posErr eid p, rd)) : P p :=
  lrLoop_pos ht _ _ _ _ _ h

/-! ## the log of `parseStream` -/

theorem curPos_inv {ts : Toks} (ht : TokInv P P ts) (h0 : P 0) (read : Nat) : P (curPos ts read) := by
  unfold curPos
  split
  · exact h0
  · split
    · rename_i t hget
      exact (ht t (List.mem_of_getElem? hget)).1
    · exact h0

theorem lexErrs_inv {ts : Toks} (ht : TokInv P P ts) (read : Nat) :
    ∀ e ∈ lexErrs ts read, e.1 = eidUnknownSymbol ∧ P e.2 ∧
      ∃ t ∈ ts, t.id = .INTERRUPT ∧ e.2 = t.lo := by
  intro e he
  unfold lexErrs at he
  obtain ⟨t, htm, rfl⟩ := List.mem_map.1 he
  have hf := List.mem_filter.1 htm
  have hmem : t ∈ ts := List.mem_of_mem_take hf.1
  refine ⟨rfl, (ht t hmem).1, t, hmem, ?_, rfl⟩
  exact tok_beq_eq _ _ hf.2

theorem lexErrs_critical (ts : Toks) (read : Nat) : ∀ e ∈ lexErrs ts read, isCritical e.1 = true := by
  intro e he
  unfold lexErrs at he
  obtain ⟨t, _, rfl⟩ := List.mem_map.1 he
  rfl

/-- what the log assembled by `parseStream` satisfies, for EVERY outcome of the automaton -/
structure StreamFacts (P : Int → Prop) (ts : Toks) (r : ParseRes) : Prop where
  /-- success: empty log, the tree is the recursive-descent model's -/
  ok : r.status = .ok → r.errors = [] ∧ r.tree = parseToks ts ∧ (parseToks ts).isSome = true
  /-- failure: a critical error was logged; no tree; the recursive-descent model rejects too -/
  failed : r.status = .failed → (∃ e ∈ r.errors, isCritical e.1 = true) ∧ r.tree = none ∧ parseToks ts = none
  /-- the parser never logs a warning -/
  critical : ∀ e ∈ r.errors, isCritical e.1 = true
  /-- every position is one the predicate holds of -/
  pos : ∀ e ∈ r.errors, P e.2
  /-- a tree is delivered only on success -/
  tree : r.tree.isSome = true → r.status = .ok

theorem isEmpty_false_exists {α : Type} {l : List α} (h : l.isEmpty = false) : ∃ x, x ∈ l := by
  cases l with
  | nil => simp at h
  | cons a l => exact ⟨a, List.mem_cons_self ..⟩

theorem parseStream_facts (syn : Syn) (units : List Nat) {ts : Toks} (ht : TokInv P P ts) (h0 : P 0) :
    StreamFacts P ts (parseStream syn units ts) := by
  have hlxc := lexErrs_critical ts
  have hlxp : ∀ rd, ∀ e ∈ lexErrs ts rd, P e.2 := fun rd e he => (lexErrs_inv ht rd e he).2.1
  have hcur := curPos_inv ht h0
  -- the shape shared by every failing branch
  have failedWith : ∀ (errs : List Err), (∃ e ∈ errs, isCritical e.1 = true) → (∀ e ∈ errs, isCritical e.1 = true) →
      (∀ e ∈ errs, P e.2) →
      StreamFacts P ts (match parseToks ts with
        | none => (⟨syn, units, .failed, errs, none⟩ : ParseRes)
        | some _ => ⟨syn, units, .gap "automaton rejects, recursive descent accepts", errs, none⟩) := by
    intro errs hex hc hp
    cases hrd : parseToks ts with
    | none => exact ⟨by simp, fun _ => ⟨hex, rfl, hrd⟩, hc, hp, by simp⟩
    | some t => exact ⟨by simp, by simp, hc, hp, by simp⟩
  unfold parseStream
  cases hrun : lrRun ts with
  | mk out read =>
    simp only []
    cases out with
    | accept =>
      simp only []
      split
      · cases hrd : parseToks ts with
        | some t => exact ⟨fun _ => ⟨rfl, hrd.symm, by rw [hrd]; rfl⟩, by simp, by simp, by simp, fun _ => rfl⟩
        | none => exact ⟨by simp, by simp, by simp, by simp, by simp⟩
      · rename_i hne
        obtain ⟨x, hx⟩ := isEmpty_false_exists (by simpa using hne)
        exact failedWith _ ⟨x, hx, hlxc read x hx⟩ (hlxc read) (hlxp read)
    | abort =>
      simp only []
      split
      · exact failedWith _ ⟨_, List.mem_singleton.2 rfl, rfl⟩
          (by intro e he; rw [List.mem_singleton.1 he]; rfl)
          (by intro e he; rw [List.mem_singleton.1 he]; exact hcur read)
      · rename_i hne
        obtain ⟨x, hx⟩ := isEmpty_false_exists (by simpa using hne)
        exact failedWith _ ⟨x, hx, hlxc read x hx⟩ (hlxc read) (hlxp read)
    | errProd eid =>
      simp only []
      split
      · rename_i hcrit
        refine failedWith _ ⟨(eid, curPos ts read), by simp, hcrit⟩ ?_ ?_
        · intro e he
          rcases List.mem_append.1 he with h | h
          · exact hlxc read e h
          · rw [List.mem_singleton.1 h]; exact hcrit
        · intro e he
          rcases List.mem_append.1 he with h | h
          · exact hlxp read e h
          · rw [List.mem_singleton.1 h]; exact hcur read
      · exact ⟨by simp, by simp, hlxc read, hlxp read, by simp⟩
    | posErr eid pos =>
      simp only []
      have hpos : P pos := lrRun_pos ht eid pos read hrun
      split
      · rename_i hcrit
        refine failedWith _ ⟨(eid, pos), by simp, hcrit⟩ ?_ ?_
        · intro e he
          rcases List.mem_append.1 he with h | h
          · exact hlxc read e h
          · rw [List.mem_singleton.1 h]; exact hcrit
        · intro e he
          rcases List.mem_append.1 he with h | h
          · exact hlxp read e h
          · rw [List.mem_singleton.1 h]; exact hpos
      · exact ⟨by simp, by simp, hlxc read, hlxp read, by simp⟩
    | gap why => exact ⟨by simp, by simp, hlxc read, hlxp read, by simp⟩
    | outOfFuel => exact ⟨by simp, by simp, hlxc read, hlxp read, by simp⟩

end CCVerif.Entry

namespace CCVerif.Entry
open CCVerif.Syntax CCVerif.Lexer CCVerif.Parser

theorem parseStream_syn_units (syn : Syn) (units : List Nat) (ts : Toks) :
    (parseStream syn units ts).syn = syn ∧ (parseStream syn units ts).units = units := by
  unfold parseStream
  cases lrRun ts with
  | mk out read =>
    cases out <;> simp only [] <;> (repeat' split) <;> first | exact ⟨rfl, rfl⟩ | simp

end CCVerif.Entry
