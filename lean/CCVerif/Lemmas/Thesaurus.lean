import CCVerif.Model.Thesaurus
import CCVerif.Lemmas.SchemaGen
/-!
Lemmas for the text layer of C07 (`Model/Thesaurus.lean`): incremental re-resolution of terms and
definition texts = resolution from scratch, wherever term references are well-founded.

* §1 store look-ups, the two views of the store as stores of the generic schema machine (so that
  `GraphCur`, `graphCur_build`, `graphCur_setDef`, `graphCur_erase`, `mem_expansion`, `topo_before`
  of `Lemmas/SchemaGen.lean` / `Lemmas/Schema.lean` apply to `termGraph` and `defGraph`)
* §2 the specification: `TVal L s u w` — `w` is THE resolved term of `u` (least solution; exists iff
  no reference cycle reaches `u`), `Lawful L` — the frame law of the resolver
* §3 folding `updTerm` / `updDef`      * §4 `UpdateState`      * §5 `OnTermChange`
* §6 the invariant `WF` over histories
-/
set_option linter.unusedSectionVars false
namespace CCVerif.Thesaurus
open CCVerif CCVerif.Graph
open CCVerif.Schema (sortDedup lookup mem_sortDedup sortDedup_nodup topo_before mem_topologicalOrder
  acyclic_of_inputs before_filter)
open CCVerif.SchemaGen (GraphCur buildStep Cst Analysis)

variable {T F : Type} [DecidableEq T] [DecidableEq F] {L : Lang T F}

/-! ## §1 store look-ups and views -/

/-- the graph updaters only need `mentions`; the rest of the generic analysis is not used -/
def gA (L : Lang T F) : Analysis T Unit :=
  { mentions := L.mentions, rename := L.translate, reset := (), ok := fun _ => true, analyse := fun _ _ _ => () }

def tv (c : TCst T F) : Cst T := ⟨c.uid, c.alias, .term, c.termRaw⟩
def dv (c : TCst T F) : Cst T := ⟨c.uid, c.alias, .term, c.defRaw⟩
def tView (s : List (TCst T F)) : List (Cst T) := s.map tv
def dView (s : List (TCst T F)) : List (Cst T) := s.map dv
def uids (s : List (TCst T F)) : List Nat := s.map (·.uid)

theorem uids_tView (s : List (TCst T F)) : SchemaGen.uids (tView s) = uids s := by
  simp [SchemaGen.uids, tView, uids, tv]
theorem uids_dView (s : List (TCst T F)) : SchemaGen.uids (dView s) = uids s := by
  simp [SchemaGen.uids, dView, uids, dv]

theorem findAliasL_tView (s : List (TCst T F)) (a : String) :
    SchemaGen.findAliasL (tView s) a = findAliasL s a := by
  unfold SchemaGen.findAliasL findAliasL findC tView
  rw [List.find?_map, Option.map_map, ]
  rfl
theorem findAliasL_dView (s : List (TCst T F)) (a : String) :
    SchemaGen.findAliasL (dView s) a = findAliasL s a := by
  unfold SchemaGen.findAliasL findAliasL findC dView
  rw [List.find?_map, Option.map_map]
  rfl

theorem inputsOfL_tView (s : List (TCst T F)) (c : TCst T F) :
    SchemaGen.inputsOfL (gA L) (tView s) (tv c) = inputsT L s c := by
  unfold SchemaGen.inputsOfL inputsT
  congr 2
  funext m
  exact findAliasL_tView s m
theorem inputsOfL_dView (s : List (TCst T F)) (c : TCst T F) :
    SchemaGen.inputsOfL (gA L) (dView s) (dv c) = inputsD L s c := by
  unfold SchemaGen.inputsOfL inputsD
  congr 2
  funext m
  exact findAliasL_dView s m

theorem mem_uids {s : List (TCst T F)} {u : Nat} : u ∈ uids s ↔ ∃ c ∈ s, c.uid = u := by
  simp [uids]

theorem eq_of_uid_eq {s : List (TCst T F)} (hn : (uids s).Nodup) {c d : TCst T F} (hc : c ∈ s) (hd : d ∈ s)
    (h : c.uid = d.uid) : c = d := by
  induction s with
  | nil => cases hc
  | cons x xs ih =>
    simp only [uids, List.map_cons, List.nodup_cons] at hn
    obtain ⟨h1, h2⟩ := hn
    rcases List.mem_cons.1 hc with e1 | hc <;> rcases List.mem_cons.1 hd with e2 | hd
    · rw [e1, e2]
    · exact absurd (List.mem_map.2 ⟨d, hd, by rw [← h, e1]⟩) h1
    · exact absurd (List.mem_map.2 ⟨c, hc, by rw [h, e2]⟩) h1
    · exact ih h2 hc hd

theorem at_of_mem {st : St T F} (hn : (uids st.store).Nodup) {c : TCst T F} (hc : c ∈ st.store) :
    st.at c.uid = some c := by
  unfold St.at
  cases hf : st.store.find? (·.uid == c.uid) with
  | none =>
    have := List.find?_eq_none.1 hf c hc
    simp at this
  | some d =>
    have hd := List.mem_of_find?_eq_some hf
    have hu : d.uid = c.uid := by simpa using List.find?_some hf
    rw [eq_of_uid_eq hn hd hc hu]

theorem mem_of_at {st : St T F} {u : Nat} {c : TCst T F} (h : st.at u = some c) : c ∈ st.store ∧ c.uid = u := by
  unfold St.at at h
  exact ⟨List.mem_of_find?_eq_some h, by simpa using List.find?_some h⟩

theorem at_none {st : St T F} {u : Nat} (h : st.at u = none) : u ∉ uids st.store := by
  unfold St.at at h
  intro hu
  obtain ⟨c, hc, rfl⟩ := mem_uids.1 hu
  have := List.find?_eq_none.1 h c hc
  simp at this

theorem at_of_uid {st : St T F} (hn : (uids st.store).Nodup) {u : Nat} (hu : u ∈ uids st.store) :
    ∃ c, c ∈ st.store ∧ c.uid = u ∧ st.at u = some c := by
  obtain ⟨c, hc, rfl⟩ := mem_uids.1 hu
  exact ⟨c, hc, rfl, at_of_mem hn hc⟩

theorem contains_iff {st : St T F} {u : Nat} : st.contains u = true ↔ u ∈ uids st.store := by
  unfold St.contains
  cases h : st.at u with
  | none => simpa using at_none h
  | some c =>
    obtain ⟨h1, h2⟩ := mem_of_at h
    simpa using mem_uids.2 ⟨c, h1, h2⟩

theorem findC_mem {s : List (TCst T F)} {a : String} {d : TCst T F} (h : findC s a = some d) :
    d ∈ s ∧ d.alias = a := by
  unfold findC at h
  exact ⟨List.mem_of_find?_eq_some h, by simpa using List.find?_some h⟩

theorem findAliasL_some {s : List (TCst T F)} {a : String} {u : Nat} (h : findAliasL s a = some u) :
    ∃ d, findC s a = some d ∧ d.uid = u := by
  unfold findAliasL at h
  cases hf : findC s a with
  | none => rw [hf] at h; cases h
  | some d => rw [hf] at h; exact ⟨d, rfl, by simpa using h⟩

theorem findAliasL_uids {s : List (TCst T F)} {a : String} {u : Nat} (h : findAliasL s a = some u) :
    u ∈ uids s := by
  obtain ⟨d, hd, hu⟩ := findAliasL_some h
  exact mem_uids.2 ⟨d, (findC_mem hd).1, hu⟩

theorem mem_inputsT {s : List (TCst T F)} {c : TCst T F} {a : Nat} :
    a ∈ inputsT L s c ↔ ∃ m ∈ L.mentions c.termRaw, findAliasL s m = some a := by
  unfold inputsT
  rw [mem_sortDedup, List.mem_filterMap]
theorem mem_inputsD {s : List (TCst T F)} {c : TCst T F} {a : Nat} :
    a ∈ inputsD L s c ↔ ∃ m ∈ L.mentions c.defRaw, findAliasL s m = some a := by
  unfold inputsD
  rw [mem_sortDedup, List.mem_filterMap]

/-! ### graph status -/

/-- `termGraph` is marked broken or represents exactly the term-reference relation of the store -/
def TGraphOK (L : Lang T F) (st : St T F) : Prop :=
  st.tInvalid = true ∨ (st.tInvalid = false ∧ GraphCur (gA L) (tView st.store) st.tGraph)
def DGraphOK (L : Lang T F) (st : St T F) : Prop :=
  st.dInvalid = true ∨ (st.dInvalid = false ∧ GraphCur (gA L) (dView st.store) st.dGraph)

theorem tUpdateFor_of_mem {st : St T F} (hn : (uids st.store).Nodup) (hv : st.tInvalid = false)
    {c : TCst T F} (hc : c ∈ st.store) :
    st.tUpdateFor L c.uid = { st with tGraph := buildStep (gA L) (tView st.store) st.tGraph (tv c) } := by
  unfold St.tUpdateFor
  rw [hv, at_of_mem hn hc]
  simp only [Bool.false_eq_true, if_false]
  unfold buildStep
  rw [inputsOfL_tView]
  rfl

theorem dUpdateFor_of_mem {st : St T F} (hn : (uids st.store).Nodup) (hv : st.dInvalid = false)
    {c : TCst T F} (hc : c ∈ st.store) :
    st.dUpdateFor L c.uid = { st with dGraph := buildStep (gA L) (dView st.store) st.dGraph (dv c) } := by
  unfold St.dUpdateFor
  rw [hv, at_of_mem hn hc]
  simp only [Bool.false_eq_true, if_false]
  unfold buildStep
  rw [inputsOfL_dView]
  rfl

theorem tUpdateFor_invalid {st : St T F} (hv : st.tInvalid = true) (u : Nat) : st.tUpdateFor L u = st := by
  unfold St.tUpdateFor; rw [hv]; rfl
theorem dUpdateFor_invalid {st : St T F} (hv : st.dInvalid = true) (u : Nat) : st.dUpdateFor L u = st := by
  unfold St.dUpdateFor; rw [hv]; rfl

theorem rebuild_foldT (l : List (TCst T F)) : ∀ (st : St T F), (uids st.store).Nodup → st.tInvalid = false →
    (∀ c ∈ l, c ∈ st.store) →
    l.foldl (fun s c => s.tUpdateFor L c.uid) st =
      { st with tGraph := (l.map tv).foldl (buildStep (gA L) (tView st.store)) st.tGraph } := by
  induction l with
  | nil => intro st _ _ _; rfl
  | cons c l ih =>
    intro st hn hv hl
    rw [List.foldl_cons, List.map_cons, List.foldl_cons, tUpdateFor_of_mem hn hv (hl c (by simp))]
    exact ih { st with tGraph := buildStep (gA L) (tView st.store) st.tGraph (tv c) } hn hv
      (fun d hd => hl d (List.mem_cons_of_mem _ hd))

theorem rebuild_foldD (l : List (TCst T F)) : ∀ (st : St T F), (uids st.store).Nodup → st.dInvalid = false →
    (∀ c ∈ l, c ∈ st.store) →
    l.foldl (fun s c => s.dUpdateFor L c.uid) st =
      { st with dGraph := (l.map dv).foldl (buildStep (gA L) (dView st.store)) st.dGraph } := by
  induction l with
  | nil => intro st _ _ _; rfl
  | cons c l ih =>
    intro st hn hv hl
    rw [List.foldl_cons, List.map_cons, List.foldl_cons, dUpdateFor_of_mem hn hv (hl c (by simp))]
    exact ih { st with dGraph := buildStep (gA L) (dView st.store) st.dGraph (dv c) } hn hv
      (fun d hd => hl d (List.mem_cons_of_mem _ hd))

/-- `TermGraph()` establishes "graph current" and touches nothing else -/
theorem ensureT_spec {st : St T F} (hn : (uids st.store).Nodup) (h : TGraphOK L st) :
    ∃ g, st.ensureT L = { st with tGraph := g, tInvalid := false } ∧ GraphCur (gA L) (tView st.store) g := by
  rcases h with h | ⟨h, hg⟩
  · refine ⟨(tView st.store).foldl (buildStep (gA L) (tView st.store)) [], ?_,
      SchemaGen.graphCur_build (by rw [uids_tView]; exact hn)⟩
    unfold St.ensureT
    rw [h]
    simp only [if_true]
    exact rebuild_foldT st.store { st with tGraph := [], tInvalid := false } hn rfl (fun c hc => hc)
  · refine ⟨st.tGraph, ?_, hg⟩
    unfold St.ensureT
    rw [h]
    simp only [Bool.false_eq_true, if_false]
    cases st; simp_all

theorem ensureD_spec {st : St T F} (hn : (uids st.store).Nodup) (h : DGraphOK L st) :
    ∃ g, st.ensureD L = { st with dGraph := g, dInvalid := false } ∧ GraphCur (gA L) (dView st.store) g := by
  rcases h with h | ⟨h, hg⟩
  · refine ⟨(dView st.store).foldl (buildStep (gA L) (dView st.store)) [], ?_,
      SchemaGen.graphCur_build (by rw [uids_dView]; exact hn)⟩
    unfold St.ensureD
    rw [h]
    simp only [if_true]
    exact rebuild_foldD st.store { st with dGraph := [], dInvalid := false } hn rfl (fun c hc => hc)
  · refine ⟨st.dGraph, ?_, hg⟩
    unfold St.ensureD
    rw [h]
    simp only [Bool.false_eq_true, if_false]
    cases st; simp_all

/-- the edges of a current term graph are the term references of the store -/
theorem tEdge_iff {s : List (TCst T F)} {g : G} (hg : GraphCur (gA L) (tView s) g) (_hn : (uids s).Nodup)
    (a b : Nat) : (a, b) ∈ Graph.edges g ↔
      ∃ c ∈ s, c.uid = b ∧ ∃ m ∈ L.mentions c.termRaw, findAliasL s m = some a := by
  rw [hg.edges]
  constructor
  · rintro ⟨c', hc', hu, hin⟩
    obtain ⟨c, hc, rfl⟩ := List.mem_map.1 hc'
    rw [inputsOfL_tView] at hin
    exact ⟨c, hc, hu, mem_inputsT.1 hin⟩
  · rintro ⟨c, hc, hu, hin⟩
    exact ⟨tv c, List.mem_map.2 ⟨c, hc, rfl⟩, hu, by rw [inputsOfL_tView]; exact mem_inputsT.2 hin⟩

theorem dEdge_iff {s : List (TCst T F)} {g : G} (hg : GraphCur (gA L) (dView s) g) (_hn : (uids s).Nodup)
    (a b : Nat) : (a, b) ∈ Graph.edges g ↔
      ∃ c ∈ s, c.uid = b ∧ ∃ m ∈ L.mentions c.defRaw, findAliasL s m = some a := by
  rw [hg.edges]
  constructor
  · rintro ⟨c', hc', hu, hin⟩
    obtain ⟨c, hc, rfl⟩ := List.mem_map.1 hc'
    rw [inputsOfL_dView] at hin
    exact ⟨c, hc, hu, mem_inputsD.1 hin⟩
  · rintro ⟨c, hc, hu, hin⟩
    exact ⟨dv c, List.mem_map.2 ⟨c, hc, rfl⟩, hu, by rw [inputsOfL_dView]; exact mem_inputsD.2 hin⟩

theorem tLive_iff {s : List (TCst T F)} {g : G} (hg : GraphCur (gA L) (tView s) g) (x : Nat) :
    x ∈ liveUids g ↔ x ∈ uids s := by rw [hg.live, uids_tView]
theorem dLive_iff {s : List (TCst T F)} {g : G} (hg : GraphCur (gA L) (dView s) g) (x : Nat) :
    x ∈ liveUids g ↔ x ∈ uids s := by rw [hg.live, uids_dView]

/-! ## §2 the specification -/

/-- FRAME law of the resolver: `Resolve(raw)` reads the context only at the names `Referals()` lists -/
structure Lawful (L : Lang T F) : Prop where
  frame : ∀ (raw : T) (ctx ctx' : String → Option (TermView T F)),
    (∀ m ∈ L.mentions raw, ctx m = ctx' m) → L.resolve raw ctx = L.resolve raw ctx'

/-- `TVal L s u w`: `w` is the resolved text (cache) of the term of `u` — least solution of "the term of `u`
is its raw text resolved against the resolved terms of the entities it mentions". Depends on the
content only; derivable iff no reference cycle reaches `u`. -/
inductive TVal (L : Lang T F) (s : List (TCst T F)) : Nat → T → Prop
  | mk {c : TCst T F} (jf : Nat → T) : c ∈ s →
      (∀ m ∈ L.mentions c.termRaw, ∀ v, findAliasL s m = some v → TVal L s v (jf v)) →
      TVal L s c.uid (L.resolve c.termRaw (ctxOfL L s jf))

theorem TVal.inv {s : List (TCst T F)} {u : Nat} {w : T} (h : TVal L s u w) :
    ∃ c ∈ s, c.uid = u ∧ ∃ jf : Nat → T,
      (∀ m ∈ L.mentions c.termRaw, ∀ v, findAliasL s m = some v → TVal L s v (jf v)) ∧
      w = L.resolve c.termRaw (ctxOfL L s jf) := by
  cases h with
  | mk jf hc hd => exact ⟨_, hc, rfl, jf, hd, rfl⟩

theorem TVal.mem {s : List (TCst T F)} {u : Nat} {w : T} (h : TVal L s u w) : u ∈ uids s := by
  obtain ⟨c, hc, hu, _⟩ := h.inv
  exact mem_uids.2 ⟨c, hc, hu⟩

theorem ctxOfL_congr {s : List (TCst T F)} {jf jf' : Nat → T} {m : String}
    (h : ∀ v, findAliasL s m = some v → jf v = jf' v) : ctxOfL L s jf m = ctxOfL L s jf' m := by
  unfold ctxOfL
  cases hf : findC s m with
  | none => rfl
  | some d =>
    simp only [Option.map_some]
    rw [h d.uid (by unfold findAliasL; rw [hf]; rfl)]

theorem TVal.unique (hL : Lawful L) {s : List (TCst T F)} (hn : (uids s).Nodup) {u : Nat} {w w' : T}
    (h1 : TVal L s u w) (h2 : TVal L s u w') : w = w' := by
  induction h1 generalizing w' with
  | @mk c jf hc hd ih =>
    obtain ⟨c', hc', hu, jf', hd', rfl⟩ := h2.inv
    have := eq_of_uid_eq hn hc' hc hu
    subst this
    apply hL.frame
    intro m hm
    exact ctxOfL_congr (fun v hv => ih m hm v hv (hd' m hm v hv))

/-- an entity with a `TVal` is neither on a reference cycle nor downstream of one -/
theorem TVal.acyclic {s : List (TCst T F)} {g : G} (hg : GraphCur (gA L) (tView s) g) (hn : (uids s).Nodup)
    {u : Nat} {w : T} (h : TVal L s u w) :
    ∀ x, Reach (Graph.edges g) x u → ¬ ReachPlus (Graph.edges g) x x := by
  induction h with
  | @mk c jf hc hd ih =>
    apply acyclic_of_inputs
    intro a ha
    obtain ⟨c', hc', hu, m, hm, hfa⟩ := (tEdge_iff hg hn a c.uid).1 ha
    have := eq_of_uid_eq hn hc' hc hu
    subst this
    exact ih m hm a hfa

/-- a derivation only looks at the part `Q` of the store that is closed under references -/
theorem TVal.transfer (hL : Lawful L) {s s' : List (TCst T F)} (Q : Nat → Prop)
    (hQ : ∀ c ∈ s, Q c.uid → ∀ m ∈ L.mentions c.termRaw, ∀ a, findAliasL s m = some a → Q a)
    (hmem : ∀ c ∈ s, Q c.uid → ∃ c' ∈ s', c'.uid = c.uid ∧ c'.termRaw = c.termRaw)
    (hctx : ∀ c ∈ s, Q c.uid → ∀ m ∈ L.mentions c.termRaw, ∀ jf, ctxOfL L s' jf m = ctxOfL L s jf m)
    (hfa : ∀ c ∈ s, Q c.uid → ∀ m ∈ L.mentions c.termRaw, findAliasL s' m = findAliasL s m)
    {u : Nat} {w : T} (h : TVal L s u w) (hq : Q u) : TVal L s' u w := by
  induction h with
  | @mk c jf hc hd ih =>
    obtain ⟨c', hc', hcu, hct⟩ := hmem c hc hq
    have e : L.resolve c.termRaw (ctxOfL L s jf) = L.resolve c'.termRaw (ctxOfL L s' jf) := by
      rw [hct]
      apply hL.frame
      intro m hm
      exact (hctx c hc hq m hm jf).symm
    rw [e, ← hcu]
    refine TVal.mk jf hc' ?_
    intro m hm v hv
    rw [hct] at hm
    have hv' : findAliasL s m = some v := by rw [← hfa c hc hq m hm]; exact hv
    exact ih m hm v hv' (hQ c hc hq m hm v hv')

/-! ## §3 folding `updTerm` / `updDef` -/

/-- the term caches of the entities in `P` that have a `TVal` hold it -/
def TOk (L : Lang T F) (st : St T F) (P : Nat → Prop) : Prop :=
  ∀ u w, P u → TVal L st.store u w → st.tCache u = w

/-- the definition caches of the entities in `P` whose mentions all have a `TVal` hold the resolution
against these -/
def DOk (L : Lang T F) (st : St T F) (P : Nat → Prop) : Prop :=
  ∀ c ∈ st.store, P c.uid → ∀ jf : Nat → T,
    (∀ m ∈ L.mentions c.defRaw, ∀ a, findAliasL st.store m = some a → TVal L st.store a (jf a)) →
    st.dCache c.uid = L.resolve c.defRaw (ctxOfL L st.store jf)

def DepsIn (L : Lang T F) (s : List (TCst T F)) (P : Nat → Prop) (b : Nat) : Prop :=
  ∀ c ∈ s, c.uid = b → ∀ m ∈ L.mentions c.termRaw, ∀ a, findAliasL s m = some a →
    (∃ w, TVal L s a w) → P a

/-- an order of resolution along which every well-founded reference has been resolved before it is read -/
def OrderOk (L : Lang T F) (s : List (TCst T F)) : (Nat → Prop) → List Nat → Prop
  | _, [] => True
  | P, b :: q => DepsIn L s P b ∧ OrderOk L s (fun x => P x ∨ x = b) q

theorem OrderOk.of_splits {s : List (TCst T F)} {l : List Nat} :
    ∀ {P : Nat → Prop}, (∀ p b q, l = p ++ b :: q → DepsIn L s (fun x => P x ∨ x ∈ p) b) →
      OrderOk L s P l := by
  induction l with
  | nil => intro P _; trivial
  | cons b q ih =>
    intro P h
    refine ⟨?_, ih ?_⟩
    · have := h [] b q rfl
      intro c hc hu m hm a ha ht
      rcases this c hc hu m hm a ha ht with h1 | h1
      · exact h1
      · cases h1
    · intro p b' q' e
      have := h (b :: p) b' q' (by rw [e]; rfl)
      intro c hc hu m hm a ha ht
      rcases this c hc hu m hm a ha ht with h1 | h1
      · exact Or.inl (Or.inl h1)
      · rcases List.mem_cons.1 h1 with h2 | h2
        · exact Or.inl (Or.inr h2)
        · exact Or.inr h2

theorem updTerm_of_at {st : St T F} {b : Nat} {c : TCst T F} (h : st.at b = some c) :
    st.updTerm L b = { st with tCache := setCache st.tCache b (L.resolve c.termRaw (st.ctx L)) } := by
  unfold St.updTerm; rw [h]
theorem updDef_of_at {st : St T F} {b : Nat} {c : TCst T F} (h : st.at b = some c) :
    st.updDef L b = { st with dCache := setCache st.dCache b (L.resolve c.defRaw (st.ctx L)) } := by
  unfold St.updDef; rw [h]

/-- the context read now agrees with the specified one on every mention whose entity is settled -/
theorem ctx_agree {st : St T F} {jf : Nat → T} {P : Nat → Prop} (hP : TOk L st P) {m : String}
    (h : ∀ v, findAliasL st.store m = some v → P v ∧ TVal L st.store v (jf v)) :
    st.ctx L m = ctxOfL L st.store jf m := by
  unfold St.ctx
  exact ctxOfL_congr (fun v hv => hP v (jf v) (h v hv).1 (h v hv).2)

theorem fold_terms (hL : Lawful L) (l : List Nat) : ∀ (st : St T F) (P : Nat → Prop),
    (uids st.store).Nodup → TOk L st P → (∀ b ∈ l, b ∈ uids st.store) → OrderOk L st.store P l →
    TOk L (l.foldl (St.updTerm L) st) (fun x => P x ∨ x ∈ l) ∧
    (l.foldl (St.updTerm L) st) = { st with tCache := (l.foldl (St.updTerm L) st).tCache } ∧
    (∀ u, u ∉ l → (l.foldl (St.updTerm L) st).tCache u = st.tCache u) := by
  induction l with
  | nil =>
    intro st P _ hP _ _
    refine ⟨fun u w hu hv => hP u w (hu.resolve_right (by simp)) hv, rfl, fun _ _ => rfl⟩
  | cons b q ih =>
    intro st P hn hP hl ho
    obtain ⟨hd, ho'⟩ := ho
    obtain ⟨c, hc, hcu, hat⟩ := at_of_uid hn (hl b (by simp))
    rw [List.foldl_cons, updTerm_of_at hat]
    have hP' : TOk L { st with tCache := setCache st.tCache b (L.resolve c.termRaw (st.ctx L)) }
        (fun x => P x ∨ x = b) := by
      intro u w hu hv
      by_cases hub : u = b
      · subst hub
        show setCache st.tCache u _ u = w
        simp only [setCache, if_true]
        obtain ⟨c', hc', hu', jf, hd', rfl⟩ := hv.inv
        have := eq_of_uid_eq hn hc' hc (by rw [hu', hcu])
        subst this
        apply hL.frame
        intro m hm
        exact ctx_agree hP (fun v hv' => ⟨hd c' hc' hu' m hm v hv' ⟨_, hd' m hm v hv'⟩, hd' m hm v hv'⟩)
      · show setCache st.tCache b _ u = w
        simp only [setCache, if_neg hub]
        exact hP u w (hu.resolve_right hub) hv
    obtain ⟨i1, i2, i3⟩ := ih { st with tCache := setCache st.tCache b (L.resolve c.termRaw (st.ctx L)) }
      (fun x => P x ∨ x = b) hn hP' (fun x hx => hl x (List.mem_cons_of_mem _ hx)) ho'
    refine ⟨?_, ?_, ?_⟩
    · intro u w hu hv
      apply i1 u w ?_ hv
      rcases hu with h | h
      · exact Or.inl (Or.inl h)
      · rcases List.mem_cons.1 h with h | h
        · exact Or.inl (Or.inr h)
        · exact Or.inr h
    · rw [i2]
    · intro u hu
      rw [i3 u (fun h => hu (List.mem_cons_of_mem _ h))]
      show setCache st.tCache b _ u = _
      simp only [setCache]
      rw [if_neg (fun h => hu (by rw [h]; simp))]

theorem fold_defs (hL : Lawful L) (l : List Nat) : ∀ (st : St T F) (P : Nat → Prop),
    (uids st.store).Nodup → TOk L st (fun _ => True) → (∀ b ∈ l, b ∈ uids st.store) → DOk L st P →
    DOk L (l.foldl (St.updDef L) st) (fun x => P x ∨ x ∈ l) ∧
    (l.foldl (St.updDef L) st) = { st with dCache := (l.foldl (St.updDef L) st).dCache } ∧
    (∀ u, u ∉ l → (l.foldl (St.updDef L) st).dCache u = st.dCache u) := by
  induction l with
  | nil =>
    intro st P _ _ _ hP
    refine ⟨fun c hc hu => hP c hc (hu.resolve_right (by simp)), rfl, fun _ _ => rfl⟩
  | cons b q ih =>
    intro st P hn hT hl hP
    obtain ⟨c, hc, hcu, hat⟩ := at_of_uid hn (hl b (by simp))
    rw [List.foldl_cons, updDef_of_at hat]
    have hP' : DOk L { st with dCache := setCache st.dCache b (L.resolve c.defRaw (st.ctx L)) }
        (fun x => P x ∨ x = b) := by
      intro c' hc' hu jf hd
      by_cases hub : c'.uid = b
      · have := eq_of_uid_eq hn hc' hc (by rw [hub, hcu])
        subst this
        show setCache st.dCache b _ c'.uid = _
        simp only [setCache, if_pos hub]
        apply hL.frame
        intro m hm
        exact ctx_agree hT (fun v hv' => ⟨trivial, hd m hm v hv'⟩)
      · show setCache st.dCache b _ c'.uid = _
        simp only [setCache, if_neg hub]
        exact hP c' hc' (hu.resolve_right hub) jf hd
    obtain ⟨i1, i2, i3⟩ := ih { st with dCache := setCache st.dCache b (L.resolve c.defRaw (st.ctx L)) }
      (fun x => P x ∨ x = b) hn hT (fun x hx => hl x (List.mem_cons_of_mem _ hx)) hP'
    refine ⟨?_, ?_, ?_⟩
    · intro c' hc' hu jf hd
      apply i1 c' hc' ?_ jf hd
      rcases hu with h | h
      · exact Or.inl (Or.inl h)
      · rcases List.mem_cons.1 h with h | h
        · exact Or.inl (Or.inr h)
        · exact Or.inr h
    · rw [i2]
    · intro u hu
      rw [i3 u (fun h => hu (List.mem_cons_of_mem _ h))]
      show setCache st.dCache b _ u = _
      simp only [setCache]
      rw [if_neg (fun h => hu (by rw [h]; simp))]

theorem TOk_congr {st st' : St T F} {P : Nat → Prop} (h1 : st'.store = st.store) (h2 : st'.tCache = st.tCache)
    (h : TOk L st P) : TOk L st' P := by
  intro u w hu hv
  rw [h2]
  rw [h1] at hv
  exact h u w hu hv

theorem DOk_congr {st st' : St T F} {P : Nat → Prop} (h1 : st'.store = st.store) (h2 : st'.dCache = st.dCache)
    (h : DOk L st P) : DOk L st' P := by
  intro c hc hu jf hd
  rw [h2, h1]
  rw [h1] at hc hd
  exact h c hc hu jf hd

theorem fields_tc {st st' : St T F} {tc : Nat → T} (h : st' = { st with tCache := tc }) :
    st'.store = st.store ∧ st'.dCache = st.dCache ∧ st'.tGraph = st.tGraph ∧ st'.tInvalid = st.tInvalid ∧
    st'.dGraph = st.dGraph ∧ st'.dInvalid = st.dInvalid ∧ st'.stuck = st.stuck := by
  subst h; exact ⟨rfl, rfl, rfl, rfl, rfl, rfl, rfl⟩
theorem fields_dc {st st' : St T F} {dc : Nat → T} (h : st' = { st with dCache := dc }) :
    st'.store = st.store ∧ st'.tCache = st.tCache ∧ st'.tGraph = st.tGraph ∧ st'.tInvalid = st.tInvalid ∧
    st'.dGraph = st.dGraph ∧ st'.dInvalid = st.dInvalid ∧ st'.stuck = st.stuck := by
  subst h; exact ⟨rfl, rfl, rfl, rfl, rfl, rfl, rfl⟩

/-! ## §4 `UpdateState` resolves everything that is well-founded -/

theorem updateState_spec (hL : Lawful L) {st : St T F} (hn : (uids st.store).Nodup) (htg : TGraphOK L st) :
    (st.updateState L).store = st.store ∧ (st.updateState L).tInvalid = false ∧
    GraphCur (gA L) (tView st.store) (st.updateState L).tGraph ∧
    (st.updateState L).dGraph = st.dGraph ∧ (st.updateState L).dInvalid = st.dInvalid ∧
    (st.updateState L).stuck = st.stuck ∧
    TOk L (st.updateState L) (fun _ => True) ∧ DOk L (st.updateState L) (fun _ => True) := by
  obtain ⟨g, he, hg⟩ := ensureT_spec hn htg
  have hmem : ∀ b ∈ topologicalOrder g, b ∈ uids st.store :=
    fun b hb => (tLive_iff hg b).1 ((mem_topologicalOrder hg.inv b).1 hb)
  have hall : ∀ u ∈ uids st.store, u ∈ topologicalOrder g :=
    fun u hu => (mem_topologicalOrder hg.inv u).2 ((tLive_iff hg u).2 hu)
  have ho : OrderOk L st.store (fun _ => False) (topologicalOrder g) := by
    apply OrderOk.of_splits
    intro p b q e c hc hu m hm a ha ht
    right
    obtain ⟨w, hw⟩ := ht
    have hedge : (a, b) ∈ Graph.edges g := (tEdge_iff hg hn a b).2 ⟨c, hc, hu, m, hm, ha⟩
    exact topo_before hg.inv hedge (hw.acyclic hg hn a (Reach.refl _)) p q e
  obtain ⟨i1, i2, i3⟩ := fold_terms hL (topologicalOrder g) { st with tGraph := g, tInvalid := false }
    (fun _ => False) hn (fun u w hu _ => hu.elim) hmem ho
  have hfin : st.updateState L = (topologicalOrder g).foldl (St.updDef L)
      ((topologicalOrder g).foldl (St.updTerm L) { st with tGraph := g, tInvalid := false }) := by
    unfold St.updateState
    simp only
    rw [he]
  generalize hst1 : (topologicalOrder g).foldl (St.updTerm L) { st with tGraph := g, tInvalid := false } = st1
    at i1 i2 i3 hfin
  obtain ⟨a1, a2, a3, a4, a5, a6, a7⟩ := fields_tc i2
  have hs1 : st1.store = st.store := a1
  have hT1 : TOk L st1 (fun _ => True) := by
    intro u w _ hv
    refine i1 u w (Or.inr (hall u ?_)) hv
    rw [hs1] at hv
    exact hv.mem
  obtain ⟨j1, j2, j3⟩ := fold_defs hL (topologicalOrder g) st1 (fun _ => False) (by rw [hs1]; exact hn) hT1
    (by rw [hs1]; exact hmem) (fun c _ hu => hu.elim)
  generalize hst2 : (topologicalOrder g).foldl (St.updDef L) st1 = st2 at j1 j2 j3 hfin
  obtain ⟨b1, b2, b3, b4, b5, b6, b7⟩ := fields_dc j2
  have hs2 : st2.store = st.store := b1.trans hs1
  rw [hfin]
  refine ⟨hs2, b4.trans a4, ?_, b5.trans a5, b6.trans a6, b7.trans a7, TOk_congr b1 b2 hT1, ?_⟩
  · have : st2.tGraph = g := b3.trans a3
    rw [this]; exact hg
  · intro c hc _ jf hd
    refine j1 c hc (Or.inr (hall c.uid ?_)) jf hd
    rw [hs2] at hc
    exact mem_uids.2 ⟨c, hc, rfl⟩

/-! ## §6 the invariant -/

structure WF (L : Lang T F) (st : St T F) : Prop where
  nodup : (uids st.store).Nodup
  tg : TGraphOK L st
  dg : DGraphOK L st
  tsync : TOk L st (fun _ => True)
  dsync : DOk L st (fun _ => True)
  ok : st.stuck = false

/-- any state with distinct uids, acceptable graphs and no fault becomes well-formed by `UpdateState` -/
theorem WF.of_updateState (hL : Lawful L) {st : St T F} (hn : (uids st.store).Nodup) (htg : TGraphOK L st)
    (hdg : DGraphOK L st) (hok : st.stuck = false) :
    WF L (st.updateState L) ∧ (st.updateState L).store = st.store := by
  obtain ⟨h1, h2, h3, h4, h5, h6, h7, h8⟩ := updateState_spec hL hn htg
  refine ⟨⟨by rw [h1]; exact hn, Or.inr ⟨h2, by rw [h1]; exact h3⟩, ?_, h7, h8, by rw [h6]; exact hok⟩, h1⟩
  unfold DGraphOK
  rw [h5, h4, h1]
  exact hdg

theorem WF_init : WF L (St.init L) := by
  refine ⟨List.nodup_nil, Or.inr ⟨rfl, ?_⟩, Or.inr ⟨rfl, ?_⟩, ?_, ?_, rfl⟩
  · exact SchemaGen.graphCur_build (s := ([] : List (Cst T))) List.nodup_nil
  · exact SchemaGen.graphCur_build (s := ([] : List (Cst T))) List.nodup_nil
  · intro u w _ hv; exact absurd hv.mem (by simp [St.init, uids])
  · intro c hc; simp [St.init] at hc

theorem uids_insertC {c : TCst T F} {s : List (TCst T F)} (h : c.uid ∉ uids s) :
    (uids s).Nodup → (uids (insertC c s)).Nodup := by
  induction s with
  | nil => intro _; simp [insertC, uids]
  | cons d ds ih =>
    intro hn
    have hne : c.uid ≠ d.uid := fun e => h (by simp [uids, e])
    have hnd : c.uid ∉ uids ds := fun e => h (by simp only [uids, List.map_cons]; exact List.mem_cons_of_mem _ e)
    simp only [uids, List.map_cons, List.nodup_cons] at hn
    unfold insertC
    by_cases h1 : c.uid < d.uid
    · rw [if_pos h1]
      simp only [uids, List.map_cons, List.nodup_cons]
      exact ⟨by simpa [uids] using h, hn⟩
    · rw [if_neg h1, if_neg hne]
      have ih' := ih hnd hn.2
      simp only [uids, List.map_cons, List.nodup_cons]
      refine ⟨?_, ih'⟩
      intro hm
      obtain ⟨x, hx, hxu⟩ := List.mem_map.1 hm
      have : x = c ∨ x ∈ ds := by
        clear ih ih' hm hn h hnd
        induction ds with
        | nil => simp [insertC] at hx; exact Or.inl hx
        | cons e es ihe =>
          unfold insertC at hx
          split at hx
          · rcases List.mem_cons.1 hx with h | h
            · exact Or.inl h
            · exact Or.inr h
          · split at hx
            · exact Or.inr hx
            · rcases List.mem_cons.1 hx with h | h
              · exact Or.inr (by rw [h]; simp)
              · rcases ihe h with h | h
                · exact Or.inl h
                · exact Or.inr (List.mem_cons_of_mem _ h)
      rcases this with rfl | hx'
      · exact hne hxu
      · exact hn.1 (List.mem_map.2 ⟨x, hx', hxu⟩)

theorem WF.insert (hL : Lawful L) {st : St T F} (h : WF L st) (c : TCst T F) : WF L (step L st (.insert c)) := by
  show WF L (if st.contains c.uid = true then st else
    ({ st with store := insertC c st.store, dInvalid := true, tInvalid := true } : St T F).updateState L)
  by_cases hc : st.contains c.uid = true
  · rw [if_pos hc]; exact h
  · rw [if_neg hc]
    have hnotin : c.uid ∉ uids st.store := fun hm => hc (contains_iff.2 hm)
    exact (WF.of_updateState hL (st := { st with store := insertC c st.store, dInvalid := true, tInvalid := true })
      (uids_insertC hnotin h.nodup) (Or.inl rfl) (Or.inl rfl) h.ok).1

theorem WF.updateState (hL : Lawful L) {st : St T F} (h : WF L st) : WF L (step L st .updateState) :=
  (WF.of_updateState hL h.nodup h.tg h.dg h.ok).1

/-! ## §5 `OnTermChange` -/

theorem sort_eq (g : G) (X : List Nat) : Graph.sort g X = (topologicalOrder g).filter (X.contains ·) := by
  unfold Graph.sort
  cases X with
  | nil => simp
  | cons x xs => simp

/-- where a definition text may be left alone by `OnTermChange(target)`: neither the entity nor anything
its definition mentions is downstream of `target` in the term graph -/
def DefFar (L : Lang T F) (s : List (TCst T F)) (g : G) (target u : Nat) : Prop :=
  ¬ Reach (Graph.edges g) target u ∧
  ∀ c ∈ s, c.uid = u → ∀ m ∈ L.mentions c.defRaw, ∀ a, findAliasL s m = some a →
    ¬ Reach (Graph.edges g) target a

/-- `OnTermChange(target)`: if terms are settled outside the expansion of `target` and definitions
are settled far from it, everything is settled afterwards -/
theorem onTermChange_spec (hL : Lawful L) {st : St T F} (hn : (uids st.store).Nodup) (htg : TGraphOK L st)
    (hdg : DGraphOK L st) (hok : st.stuck = false) {target : Nat} (ht : target ∈ uids st.store)
    (hT : ∀ g, GraphCur (gA L) (tView st.store) g → TOk L st (fun u => ¬ Reach (Graph.edges g) target u))
    (hD : ∀ g, GraphCur (gA L) (tView st.store) g → DOk L st (DefFar L st.store g target)) :
    WF L (st.onTermChange L target) ∧ (st.onTermChange L target).store = st.store := by
  obtain ⟨g, he, hg⟩ := ensureT_spec hn htg
  have hexp : ∀ x, x ∈ sortDedup (expandOutputs g [target]) ↔ Reach (Graph.edges g) target x := by
    intro x
    rw [mem_sortDedup]
    exact SchemaGen.mem_expansion hg (by rw [uids_tView]; exact ht) x
  generalize hX : sortDedup (expandOutputs g [target]) = X at hexp
  have hXn : X.Nodup := by rw [← hX]; exact sortDedup_nodup _
  have hmemT : ∀ b ∈ topologicalOrder g, b ∈ uids st.store :=
    fun b hb => (tLive_iff hg b).1 ((mem_topologicalOrder hg.inv b).1 hb)
  have hall : ∀ u ∈ uids st.store, u ∈ topologicalOrder g :=
    fun u hu => (mem_topologicalOrder hg.inv u).2 ((tLive_iff hg u).2 hu)
  have hmem : ∀ b ∈ Graph.sort g X, b ∈ uids st.store := by
    intro b hb
    rw [sort_eq] at hb
    exact hmemT b (List.mem_filter.1 hb).1
  have ho : OrderOk L st.store (fun u => u ∉ X) (Graph.sort g X) := by
    apply OrderOk.of_splits
    intro p b q e c hc hu m hm a ha hv
    by_cases hax : a ∈ X
    · right
      obtain ⟨w, hw⟩ := hv
      have hedge : (a, b) ∈ Graph.edges g := (tEdge_iff hg hn a b).2 ⟨c, hc, hu, m, hm, ha⟩
      rw [sort_eq] at e
      exact before_filter (X.contains ·) (topo_before hg.inv hedge (hw.acyclic hg hn a (Reach.refl _)))
        (by simpa using hax) p q e
    · exact Or.inl hax
  have hT0 : TOk L ({ st with tGraph := g, tInvalid := false } : St T F) (fun u => u ∉ X) := by
    intro u w hu hv
    exact hT g hg u w (fun hr => hu ((hexp u).2 hr)) hv
  obtain ⟨i1, i2, i3⟩ := fold_terms hL (Graph.sort g X) { st with tGraph := g, tInvalid := false }
    (fun u => u ∉ X) hn hT0 hmem ho
  generalize hst1 : (Graph.sort g X).foldl (St.updTerm L) { st with tGraph := g, tInvalid := false } = st1
    at i1 i2 i3
  obtain ⟨a1, a2, a3, a4, a5, a6, a7⟩ := fields_tc i2
  have hs1 : st1.store = st.store := a1
  have hT1 : TOk L st1 (fun _ => True) := by
    intro u w _ hv
    refine i1 u w ?_ hv
    by_cases hux : u ∈ X
    · right
      rw [sort_eq]
      refine List.mem_filter.2 ⟨hall u ?_, by simpa using hux⟩
      rw [hs1] at hv; exact hv.mem
    · exact Or.inl hux
  have hdg1 : DGraphOK L st1 := by
    unfold DGraphOK
    rw [a6, a5, a1]
    exact hdg
  have hn1 : (uids st1.store).Nodup := by rw [hs1]; exact hn
  obtain ⟨g2, he2, hg2⟩ := ensureD_spec hn1 hdg1
  rw [hs1] at hg2
  have hexp2 : ∀ x, x ∈ sortDedup (expandOutputs g2 X) ↔
      ∃ y ∈ X, y ∈ liveUids g2 ∧ Reach (Graph.edges g2) y x := by
    intro x
    rw [mem_sortDedup]
    exact expandOutputs_spec g2 hg2.inv hXn x
  generalize hX2 : sortDedup (expandOutputs g2 X) = X2 at hexp2
  have hmem2 : ∀ b ∈ X2, b ∈ uids st.store := by
    intro b hb
    obtain ⟨y, _, hy, hr⟩ := (hexp2 b).1 hb
    have := SchemaGen.reach_live_uid hg2 (by rw [uids_dView]; exact (dLive_iff hg2 y).1 hy) hr
    rw [uids_dView] at this
    exact this
  have hT2 : TOk L ({ st1 with dGraph := g2, dInvalid := false } : St T F) (fun _ => True) :=
    TOk_congr rfl rfl hT1
  have hD2 : DOk L ({ st1 with dGraph := g2, dInvalid := false } : St T F) (fun u => u ∉ X2) := by
    refine DOk_congr (st := st) (st' := { st1 with dGraph := g2, dInvalid := false }) hs1 a2 ?_
    intro c hc hu jf hd
    refine hD g hg c hc ⟨?_, ?_⟩ jf hd
    · intro hr
      apply hu
      exact (hexp2 c.uid).2 ⟨c.uid, (hexp c.uid).2 hr, (dLive_iff hg2 c.uid).2 (mem_uids.2 ⟨c, hc, rfl⟩), Reach.refl _⟩
    · intro c' hc' hcu m hm a ha hr
      apply hu
      have hedge : (a, c.uid) ∈ Graph.edges g2 := (dEdge_iff hg2 hn a c.uid).2 ⟨c', hc', hcu, m, hm, ha⟩
      exact (hexp2 c.uid).2 ⟨a, (hexp a).2 hr, (dLive_iff hg2 a).2 (findAliasL_uids ha), Reach.single hedge⟩
  obtain ⟨j1, j2, j3⟩ := fold_defs hL X2 { st1 with dGraph := g2, dInvalid := false } (fun u => u ∉ X2)
    hn1 hT2 (by intro b hb; show b ∈ uids st1.store; rw [hs1]; exact hmem2 b hb) hD2
  have hfin : st.onTermChange L target = X2.foldl (St.updDef L) { st1 with dGraph := g2, dInvalid := false } := by
    unfold St.onTermChange
    simp only
    rw [he]
    show List.foldl _ (St.ensureD L (List.foldl _ _ (Graph.sort g (sortDedup (expandOutputs g [target])))))
      (sortDedup (expandOutputs (St.ensureD L (List.foldl _ _ (Graph.sort g (sortDedup (expandOutputs g [target]))))).dGraph
        (sortDedup (expandOutputs g [target])))) = _
    rw [hX, hst1, he2]
    show List.foldl _ _ (sortDedup (expandOutputs g2 X)) = _
    rw [hX2]
  generalize hst3 : X2.foldl (St.updDef L) { st1 with dGraph := g2, dInvalid := false } = st3 at j1 j2 j3 hfin
  obtain ⟨b1, b2, b3, b4, b5, b6, b7⟩ := fields_dc j2
  have hs3 : st3.store = st.store := b1.trans hs1
  rw [hfin]
  refine ⟨⟨by rw [hs3]; exact hn, Or.inr ⟨b4.trans a4, ?_⟩, Or.inr ⟨b6, ?_⟩, TOk_congr b1 b2 hT2, ?_,
    b7.trans (a7.trans hok)⟩, hs3⟩
  · rw [hs3, b3.trans a3]; exact hg
  · rw [hs3, b5]; exact hg2
  · intro c hc _ jf hd
    refine j1 c hc ?_ jf hd
    by_cases hcx : c.uid ∈ X2
    · exact Or.inr hcx
    · exact Or.inl hcx

/-! ### editing one entity -/

theorem uids_modifyAt (s : List (TCst T F)) (u : Nat) (f : TCst T F → TCst T F) (hf : ∀ x, (f x).uid = x.uid) :
    uids (modifyAt s u f) = uids s := by
  unfold uids modifyAt
  rw [List.map_map]
  apply List.map_congr_left
  intro x _
  simp only [Function.comp]
  split
  · exact hf x
  · rfl

theorem findC_modifyAt (s : List (TCst T F)) (u : Nat) (f : TCst T F → TCst T F)
    (hf : ∀ x, (f x).alias = x.alias) (m : String) :
    findC (modifyAt s u f) m = (findC s m).map (fun d => if d.uid == u then f d else d) := by
  unfold findC modifyAt
  induction s with
  | nil => rfl
  | cons x xs ih =>
    rw [List.map_cons, List.find?_cons, List.find?_cons]
    have e1 : (if x.uid == u then f x else x).alias = x.alias := by
      split
      · exact hf x
      · rfl
    rw [e1]
    cases hx : (x.alias == m) with
    | true => rfl
    | false => exact ih

theorem findAliasL_modifyAt (s : List (TCst T F)) (u : Nat) (f : TCst T F → TCst T F)
    (hf : ∀ x, (f x).uid = x.uid ∧ (f x).alias = x.alias) (m : String) :
    findAliasL (modifyAt s u f) m = findAliasL s m := by
  unfold findAliasL
  rw [findC_modifyAt s u f (fun x => (hf x).2), Option.map_map]
  congr 1
  funext d
  simp only [Function.comp]
  split
  · exact (hf d).1
  · rfl

theorem mem_modifyAt_ne {s : List (TCst T F)} {u : Nat} {f : TCst T F → TCst T F} (hf : ∀ x, (f x).uid = x.uid)
    {c : TCst T F} (hc : c ∈ modifyAt s u f) (hne : c.uid ≠ u) : c ∈ s := by
  obtain ⟨x, hx, e⟩ := List.mem_map.1 hc
  by_cases hxu : x.uid = u
  · have : (x.uid == u) = true := by simpa using hxu
    simp only [this, if_true] at e
    rw [← e, hf x] at hne
    exact absurd hxu hne
  · have : (x.uid == u) = false := by simpa using hxu
    simp only [this] at e
    rw [← e]
    exact hx

theorem mem_modifyAt_of_ne {s : List (TCst T F)} {u : Nat} {f : TCst T F → TCst T F}
    {c : TCst T F} (hc : c ∈ s) (hne : c.uid ≠ u) : c ∈ modifyAt s u f := by
  refine List.mem_map.2 ⟨c, hc, ?_⟩
  have : (c.uid == u) = false := by simpa using hne
  simp [this]

theorem mem_modifyAt_self {s : List (TCst T F)} {f : TCst T F → TCst T F} {c : TCst T F} (hc : c ∈ s) :
    f c ∈ modifyAt s c.uid f := by
  refine List.mem_map.2 ⟨c, hc, ?_⟩
  simp

theorem mem_modifyAt_cases {s : List (TCst T F)} {u : Nat} {f : TCst T F → TCst T F}
    {c : TCst T F} (hc : c ∈ modifyAt s u f) : (∃ x ∈ s, x.uid = u ∧ c = f x) ∨ (c ∈ s ∧ c.uid ≠ u) := by
  obtain ⟨x, hx, e⟩ := List.mem_map.1 hc
  by_cases hxu : x.uid = u
  · have : (x.uid == u) = true := by simpa using hxu
    simp only [this, if_true] at e
    exact Or.inl ⟨x, hx, hxu, e.symm⟩
  · have : (x.uid == u) = false := by simpa using hxu
    simp only [this] at e
    rw [← e]
    exact Or.inr ⟨hx, hxu⟩

theorem modifyAt_modifyAt (s : List (TCst T F)) (u : Nat) (f1 f2 : TCst T F → TCst T F)
    (hf : ∀ x, (f1 x).uid = x.uid) : modifyAt (modifyAt s u f1) u f2 = modifyAt s u (fun x => f2 (f1 x)) := by
  unfold modifyAt
  rw [List.map_map]
  apply List.map_congr_left
  intro x _
  simp only [Function.comp]
  by_cases hxu : x.uid = u
  · simp [hxu, hf x]
  · simp [hxu]

theorem modifyAt_congr {s : List (TCst T F)} {u : Nat} {f f' : TCst T F → TCst T F}
    (h : ∀ x ∈ s, x.uid = u → f x = f' x) : modifyAt s u f = modifyAt s u f' := by
  unfold modifyAt
  apply List.map_congr_left
  intro x hx
  by_cases hxu : x.uid = u
  · have : (x.uid == u) = true := by simpa using hxu
    simp only [this, if_true]
    exact h x hx hxu
  · have : (x.uid == u) = false := by simpa using hxu
    simp only [this]
    simp

theorem tView_modifyAt (s : List (TCst T F)) (u : Nat) (f : TCst T F → TCst T F) (t : T)
    (hf : ∀ x, (f x).uid = x.uid ∧ (f x).alias = x.alias ∧ (f x).termRaw = t) :
    tView (modifyAt s u f) = SchemaGen.setDefL (tView s) u t := by
  unfold tView modifyAt SchemaGen.setDefL
  rw [List.map_map, List.map_map]
  apply List.map_congr_left
  intro x _
  obtain ⟨h1, h2, h3⟩ := hf x
  by_cases hxu : x.uid = u
  · simp [Function.comp, tv, hxu, h1, h2, h3]
  · simp [Function.comp, tv, hxu]

theorem tView_modifyAt_same (s : List (TCst T F)) (u : Nat) (f : TCst T F → TCst T F)
    (hf : ∀ x, (f x).uid = x.uid ∧ (f x).alias = x.alias ∧ (f x).termRaw = x.termRaw) :
    tView (modifyAt s u f) = tView s := by
  unfold tView modifyAt
  rw [List.map_map]
  apply List.map_congr_left
  intro x _
  obtain ⟨h1, h2, h3⟩ := hf x
  by_cases hxu : x.uid = u
  · simp [Function.comp, tv, hxu, h1, h2, h3]
  · simp [Function.comp, tv, hxu]

theorem dView_modifyAt (s : List (TCst T F)) (u : Nat) (f : TCst T F → TCst T F) (t : T)
    (hf : ∀ x, (f x).uid = x.uid ∧ (f x).alias = x.alias ∧ (f x).defRaw = t) :
    dView (modifyAt s u f) = SchemaGen.setDefL (dView s) u t := by
  unfold dView modifyAt SchemaGen.setDefL
  rw [List.map_map, List.map_map]
  apply List.map_congr_left
  intro x _
  obtain ⟨h1, h2, h3⟩ := hf x
  by_cases hxu : x.uid = u
  · simp [Function.comp, dv, hxu, h1, h2, h3]
  · simp [Function.comp, dv, hxu]

theorem dView_modifyAt_same (s : List (TCst T F)) (u : Nat) (f : TCst T F → TCst T F)
    (hf : ∀ x, (f x).uid = x.uid ∧ (f x).alias = x.alias ∧ (f x).defRaw = x.defRaw) :
    dView (modifyAt s u f) = dView s := by
  unfold dView modifyAt
  rw [List.map_map]
  apply List.map_congr_left
  intro x _
  obtain ⟨h1, h2, h3⟩ := hf x
  by_cases hxu : x.uid = u
  · simp [Function.comp, dv, hxu, h1, h2, h3]
  · simp [Function.comp, dv, hxu]

/-- the term graph after `termGraph.UpdateFor(u)` following an edit of the raw term of `u` -/
theorem tGraph_edit {so : St T F} (hso : WF L so) {c : TCst T F} (hc : c ∈ so.store)
    (f : TCst T F → TCst T F) (t : T)
    (hf : ∀ x, (f x).uid = x.uid ∧ (f x).alias = x.alias ∧ (f x).termRaw = t)
    {st : St T F} (hs : st.store = modifyAt so.store c.uid f) (hg : st.tGraph = so.tGraph)
    (hi : st.tInvalid = so.tInvalid) :
    TGraphOK L (st.tUpdateFor L c.uid) ∧ (st.tUpdateFor L c.uid).store = st.store ∧
    (st.tUpdateFor L c.uid).tCache = st.tCache ∧ (st.tUpdateFor L c.uid).dCache = st.dCache ∧
    (st.tUpdateFor L c.uid).dGraph = st.dGraph ∧ (st.tUpdateFor L c.uid).dInvalid = st.dInvalid ∧
    (st.tUpdateFor L c.uid).stuck = st.stuck := by
  have hn : (uids st.store).Nodup := by rw [hs, uids_modifyAt _ _ _ (fun x => (hf x).1)]; exact hso.nodup
  rcases hso.tg with h | ⟨h, hgc⟩
  · rw [tUpdateFor_invalid (by rw [hi]; exact h)]
    exact ⟨Or.inl (by rw [hi]; exact h), rfl, rfl, rfl, rfl, rfl, rfl⟩
  · have hfc : f c ∈ st.store := by rw [hs]; exact mem_modifyAt_self hc
    have hfu : (f c).uid = c.uid := (hf c).1
    have := tUpdateFor_of_mem (L := L) hn (by rw [hi]; exact h) hfc
    rw [hfu] at this
    rw [this]
    refine ⟨Or.inr ⟨by rw [← h, ← hi], ?_⟩, rfl, rfl, rfl, rfl, rfl, rfl⟩
    show GraphCur (gA L) (tView st.store) (buildStep (gA L) (tView st.store) st.tGraph (tv (f c)))
    rw [hs, hg, tView_modifyAt _ _ _ t hf]
    have hc' : tv c ∈ tView so.store := List.mem_map.2 ⟨c, hc, rfl⟩
    have := SchemaGen.graphCur_setDef (A := gA L) (by rw [uids_tView]; exact hso.nodup) hgc hc' t
    have e : tv (f c) = ({ tv c with defn := t } : Cst T) := by
      obtain ⟨h1, h2, h3⟩ := hf c
      simp only [tv, h1, h2, h3]
    rw [e]
    exact this

theorem dGraph_edit {so : St T F} (hso : WF L so) {c : TCst T F} (hc : c ∈ so.store)
    (f : TCst T F → TCst T F) (t : T)
    (hf : ∀ x, (f x).uid = x.uid ∧ (f x).alias = x.alias ∧ (f x).defRaw = t)
    {st : St T F} (hs : st.store = modifyAt so.store c.uid f) (hg : st.dGraph = so.dGraph)
    (hi : st.dInvalid = so.dInvalid) :
    DGraphOK L (st.dUpdateFor L c.uid) ∧ (st.dUpdateFor L c.uid).store = st.store ∧
    (st.dUpdateFor L c.uid).tCache = st.tCache ∧ (st.dUpdateFor L c.uid).dCache = st.dCache ∧
    (st.dUpdateFor L c.uid).tGraph = st.tGraph ∧ (st.dUpdateFor L c.uid).tInvalid = st.tInvalid ∧
    (st.dUpdateFor L c.uid).stuck = st.stuck := by
  have hn : (uids st.store).Nodup := by rw [hs, uids_modifyAt _ _ _ (fun x => (hf x).1)]; exact hso.nodup
  rcases hso.dg with h | ⟨h, hgc⟩
  · rw [dUpdateFor_invalid (by rw [hi]; exact h)]
    exact ⟨Or.inl (by rw [hi]; exact h), rfl, rfl, rfl, rfl, rfl, rfl⟩
  · have hfc : f c ∈ st.store := by rw [hs]; exact mem_modifyAt_self hc
    have hfu : (f c).uid = c.uid := (hf c).1
    have := dUpdateFor_of_mem (L := L) hn (by rw [hi]; exact h) hfc
    rw [hfu] at this
    rw [this]
    refine ⟨Or.inr ⟨by rw [← h, ← hi], ?_⟩, rfl, rfl, rfl, rfl, rfl, rfl⟩
    show GraphCur (gA L) (dView st.store) (buildStep (gA L) (dView st.store) st.dGraph (dv (f c)))
    rw [hs, hg, dView_modifyAt _ _ _ t hf]
    have hc' : dv c ∈ dView so.store := List.mem_map.2 ⟨c, hc, rfl⟩
    have := SchemaGen.graphCur_setDef (A := gA L) (by rw [uids_dView]; exact hso.nodup) hgc hc' t
    have e : dv (f c) = ({ dv c with defn := t } : Cst T) := by
      obtain ⟨h1, h2, h3⟩ := hf c
      simp only [dv, h1, h2, h3]
    rw [e]
    exact this

theorem ctxOfL_modifyAt_far (s : List (TCst T F)) (u : Nat) (f : TCst T F → TCst T F)
    (hf : ∀ x, (f x).uid = x.uid ∧ (f x).alias = x.alias) (jf : Nat → T) (m : String)
    (h : ∀ a, findAliasL s m = some a → a ≠ u) : ctxOfL L (modifyAt s u f) jf m = ctxOfL L s jf m := by
  unfold ctxOfL
  rw [findC_modifyAt s u f (fun x => (hf x).2)]
  cases hfc : findC s m with
  | none => rfl
  | some d =>
    have : d.uid ≠ u := h d.uid (by unfold findAliasL; rw [hfc]; rfl)
    simp [this]

/-- after an edit of the TERM side of `target` (raw text and / or manual forms; aliases, uids, definition
texts and every other entity untouched), terms are still settled outside the expansion of `target`
and definitions far from it -/
theorem edit_sync (hL : Lawful L) {so st : St T F} {target : Nat} (hso : WF L so)
    (f : TCst T F → TCst T F) (hf : ∀ x, (f x).uid = x.uid ∧ (f x).alias = x.alias ∧ (f x).defRaw = x.defRaw)
    (hs : st.store = modifyAt so.store target f)
    (hc1 : ∀ u, u ≠ target → st.tCache u = so.tCache u)
    (hc2 : st.dCache = so.dCache) :
    ∀ g, GraphCur (gA L) (tView st.store) g →
      TOk L st (fun u => ¬ Reach (Graph.edges g) target u) ∧ DOk L st (DefFar L st.store g target) := by
  intro g hg
  have hf' : ∀ x, (f x).uid = x.uid ∧ (f x).alias = x.alias := fun x => ⟨(hf x).1, (hf x).2.1⟩
  have hn : (uids st.store).Nodup := by rw [hs, uids_modifyAt _ _ _ (fun x => (hf x).1)]; exact hso.nodup
  have hfa : ∀ m, findAliasL st.store m = findAliasL so.store m := by
    intro m; rw [hs]; exact findAliasL_modifyAt _ _ _ hf' m
  -- transfer of derivations from the new content to the old one, away from `target`
  have htr : ∀ u w, ¬ Reach (Graph.edges g) target u → TVal L st.store u w → TVal L so.store u w := by
    intro u w hq hv
    refine TVal.transfer hL (fun x => ¬ Reach (Graph.edges g) target x) ?_ ?_ ?_ ?_ hv hq
    · intro c hc hqc m hm a ha hr
      exact hqc (hr.tail ((tEdge_iff hg hn a c.uid).2 ⟨c, hc, rfl, m, hm, ha⟩))
    · intro c hc hqc
      have hne : c.uid ≠ target := fun e => hqc (by rw [e]; exact Reach.refl _)
      rw [hs] at hc
      exact ⟨c, mem_modifyAt_ne (fun x => (hf x).1) hc hne, rfl, rfl⟩
    · intro c hc hqc m hm jf
      rw [hs]
      refine (ctxOfL_modifyAt_far _ _ _ hf' jf m ?_).symm
      intro a ha e
      rw [← hfa] at ha
      apply hqc
      rw [← e]
      exact Reach.single ((tEdge_iff hg hn a c.uid).2 ⟨c, hc, rfl, m, hm, ha⟩)
    · intro c hc hqc m hm
      exact (hfa m).symm
  refine ⟨?_, ?_⟩
  · intro u w hq hv
    have hne : u ≠ target := fun e => hq (by rw [e]; exact Reach.refl _)
    rw [hc1 u hne]
    exact hso.tsync u w trivial (htr u w hq hv)
  · intro c hc hfar jf hd
    obtain ⟨hq, hdeps⟩ := hfar
    have hne : c.uid ≠ target := fun e => hq (by rw [e]; exact Reach.refl _)
    have hco : c ∈ so.store := by rw [hs] at hc; exact mem_modifyAt_ne (fun x => (hf x).1) hc hne
    rw [hc2]
    have := hso.dsync c hco trivial jf (by
      intro m hm a ha
      rw [← hfa] at ha
      exact htr a (jf a) (hdeps c hc rfl m hm a ha) (hd m hm a ha))
    rw [this]
    apply hL.frame
    intro m hm
    rw [hs]
    refine (ctxOfL_modifyAt_far _ _ _ hf' jf m ?_).symm
    intro a ha e
    rw [← hfa] at ha
    exact hdeps c hc rfl m hm a ha (by rw [e]; exact Reach.refl _)

theorem WF.setTerm (hL : Lawful L) {st : St T F} (h : WF L st) (u : Nat) (t : T) :
    WF L (step L st (.setTerm u t)) := by
  simp only [step]
  split
  · exact h
  · rename_i c hat
    split
    · exact h
    · obtain ⟨hc, hcu⟩ := mem_of_at hat
      subst hcu
      rw [modifyAt_modifyAt st.store c.uid (fun x => { x with termRaw := t }) (fun x => { x with manual := [] }) (fun _ => rfl)]
      let f : TCst T F → TCst T F := fun x => { x with termRaw := t, manual := [] }
      let st1 : St T F := { st with store := modifyAt st.store c.uid (fun x => { x with termRaw := t }) }
      let st3 : St T F := { st with store := modifyAt st.store c.uid f,
                                    tCache := setCache st.tCache c.uid (L.resolve t (St.ctx L st1)) }
      show WF L (St.onTermChange L (St.tUpdateFor L st3 c.uid) c.uid)
      obtain ⟨g1, g2, g3, g4, g5, g6, g7⟩ := tGraph_edit (L := L) h hc f t (fun _ => ⟨rfl, rfl, rfl⟩)
        (st := st3) rfl rfl rfl
      have hn : (uids (St.tUpdateFor L st3 c.uid).store).Nodup := by
        rw [g2]; show (uids (modifyAt st.store c.uid f)).Nodup
        rw [uids_modifyAt _ _ f (fun _ => rfl)]; exact h.nodup
      have hdg : DGraphOK L (St.tUpdateFor L st3 c.uid) := by
        unfold DGraphOK
        rw [g6, g5, g2]
        show (st.dInvalid = true ∨ st.dInvalid = false ∧ GraphCur (gA L) (dView (modifyAt st.store c.uid f)) st.dGraph)
        rw [dView_modifyAt_same _ _ f (fun _ => ⟨rfl, rfl, rfl⟩)]
        exact h.dg
      have hsync := edit_sync hL h f (fun _ => ⟨rfl, rfl, rfl⟩) (st := St.tUpdateFor L st3 c.uid) (target := c.uid) g2
        (by intro v hv; rw [g3]; show setCache st.tCache c.uid _ v = _; simp [setCache, hv]) g4
      exact (onTermChange_spec hL hn g1 hdg (by rw [g7]; exact h.ok)
        (by rw [g2]; show c.uid ∈ uids (modifyAt st.store c.uid f); rw [uids_modifyAt _ _ f (fun _ => rfl)]; exact mem_uids.2 ⟨c, hc, rfl⟩)
        (fun g hg => (hsync g hg).1) (fun g hg => (hsync g hg).2)).1

theorem WF.setTermForm (hL : Lawful L) {st : St T F} (h : WF L st) (u : Nat) (t : T) (fm : F) :
    WF L (step L st (.setTermForm u t fm)) := by
  simp only [step]
  split
  · exact h
  · rename_i c hat
    split
    · exact h
    · obtain ⟨hc, hcu⟩ := mem_of_at hat
      subst hcu
      let f : TCst T F → TCst T F := fun x => { x with manual := setForm x.manual fm t }
      have hn : (uids (modifyAt st.store c.uid f)).Nodup := by
        rw [uids_modifyAt _ _ f (fun _ => rfl)]; exact h.nodup
      have htg : TGraphOK L ({ st with store := modifyAt st.store c.uid f } : St T F) := by
        unfold TGraphOK
        show (st.tInvalid = true ∨ st.tInvalid = false ∧ GraphCur (gA L) (tView (modifyAt st.store c.uid f)) st.tGraph)
        rw [tView_modifyAt_same _ _ f (fun _ => ⟨rfl, rfl, rfl⟩)]
        exact h.tg
      have hdg : DGraphOK L ({ st with store := modifyAt st.store c.uid f } : St T F) := by
        unfold DGraphOK
        show (st.dInvalid = true ∨ st.dInvalid = false ∧ GraphCur (gA L) (dView (modifyAt st.store c.uid f)) st.dGraph)
        rw [dView_modifyAt_same _ _ f (fun _ => ⟨rfl, rfl, rfl⟩)]
        exact h.dg
      have hsync := edit_sync hL h f (fun _ => ⟨rfl, rfl, rfl⟩)
        (st := { st with store := modifyAt st.store c.uid f }) (target := c.uid) rfl (fun _ _ => rfl) rfl
      exact (onTermChange_spec hL hn htg hdg h.ok
        (by show c.uid ∈ uids (modifyAt st.store c.uid f); rw [uids_modifyAt _ _ f (fun _ => rfl)]; exact mem_uids.2 ⟨c, hc, rfl⟩)
        (fun g hg => (hsync g hg).1) (fun g hg => (hsync g hg).2)).1

theorem ctxOfL_modifyAt_def (s : List (TCst T F)) (u : Nat) (f : TCst T F → TCst T F)
    (hf : ∀ x, (f x).uid = x.uid ∧ (f x).alias = x.alias ∧ (f x).termRaw = x.termRaw ∧ (f x).manual = x.manual)
    (jf : Nat → T) (m : String) : ctxOfL L (modifyAt s u f) jf m = ctxOfL L s jf m := by
  unfold ctxOfL
  rw [findC_modifyAt s u f (fun x => (hf x).2.1)]
  cases hfc : findC s m with
  | none => rfl
  | some d =>
    obtain ⟨h1, h2, h3, h4⟩ := hf d
    by_cases hd : d.uid = u
    · simp [hd, h1, h3, h4]
    · simp [hd]

theorem WF.setDef (hL : Lawful L) {st : St T F} (h : WF L st) (u : Nat) (t : T) :
    WF L (step L st (.setDef u t)) := by
  simp only [step]
  split
  · exact h
  · rename_i c hat
    split
    · exact h
    · obtain ⟨hc, hcu⟩ := mem_of_at hat
      subst hcu
      let f : TCst T F → TCst T F := fun x => { x with defRaw := t }
      let st1 : St T F := { st with store := modifyAt st.store c.uid f }
      let st2 : St T F := { st with store := modifyAt st.store c.uid f,
                                    dCache := setCache st.dCache c.uid (L.resolve t (St.ctx L st1)) }
      show WF L (St.dUpdateFor L st2 c.uid)
      obtain ⟨g1, g2, g3, g4, g5, g6, g7⟩ := dGraph_edit (L := L) h hc f t (fun _ => ⟨rfl, rfl, rfl⟩)
        (st := st2) rfl rfl rfl
      have hf4 : ∀ x, (f x).uid = x.uid ∧ (f x).alias = x.alias ∧ (f x).termRaw = x.termRaw ∧ (f x).manual = x.manual :=
        fun _ => ⟨rfl, rfl, rfl, rfl⟩
      have hfa : ∀ m, findAliasL (modifyAt st.store c.uid f) m = findAliasL st.store m :=
        fun m => findAliasL_modifyAt _ _ f (fun _ => ⟨rfl, rfl⟩) m
      have hn : (uids (modifyAt st.store c.uid f)).Nodup := by
        rw [uids_modifyAt _ _ f (fun _ => rfl)]; exact h.nodup
      have htr : ∀ v w, TVal L (modifyAt st.store c.uid f) v w → TVal L st.store v w := by
        intro v w hv
        refine TVal.transfer hL (fun _ => True) (fun _ _ _ _ _ _ _ => trivial) ?_ ?_ ?_ hv trivial
        · intro x hx _
          rcases mem_modifyAt_cases hx with ⟨y, hy, _, rfl⟩ | ⟨hx', _⟩
          · exact ⟨y, hy, rfl, rfl⟩
          · exact ⟨x, hx', rfl, rfl⟩
        · intro x _ _ m _ jf
          exact (ctxOfL_modifyAt_def _ _ f hf4 jf m).symm
        · intro x _ _ m _
          exact (hfa m).symm
      have hT : TOk L (St.dUpdateFor L st2 c.uid) (fun _ => True) := by
        intro v w _ hv
        rw [g2] at hv
        rw [g3]
        exact h.tsync v w trivial (htr v w hv)
      refine ⟨by rw [g2]; exact hn, ?_, g1, hT, ?_, by rw [g7]; exact h.ok⟩
      · unfold TGraphOK
        rw [g6, g5, g2]
        show (st.tInvalid = true ∨ st.tInvalid = false ∧ GraphCur (gA L) (tView (modifyAt st.store c.uid f)) st.tGraph)
        rw [tView_modifyAt_same _ _ f (fun _ => ⟨rfl, rfl, rfl⟩)]
        exact h.tg
      · intro x hx _ jf hd
        rw [g2] at hx hd ⊢
        rw [g4]
        show setCache st.dCache c.uid (L.resolve t (St.ctx L st1)) x.uid = L.resolve x.defRaw (ctxOfL L (modifyAt st.store c.uid f) jf)
        rcases mem_modifyAt_cases hx with ⟨y, hy, hyu, rfl⟩ | ⟨hx', hne⟩
        · have : (f y).uid = c.uid := hyu
          simp only [setCache, this, if_true]
          show L.resolve t (St.ctx L st1) = L.resolve t _
          apply hL.frame
          intro m hm
          have hT1 : TOk L st1 (fun _ => True) := fun v w _ hv => h.tsync v w trivial (htr v w hv)
          exact ctx_agree hT1 (fun v hv' => ⟨trivial, hd m hm v hv'⟩)
        · simp only [setCache, if_neg hne]
          rw [h.dsync x hx' trivial jf (fun m hm a ha => htr a (jf a) (hd m hm a (by rw [hfa]; exact ha)))]
          apply hL.frame
          intro m _
          exact (ctxOfL_modifyAt_def _ _ f hf4 jf m).symm

/-- the alias of the erased entity is not shared (the identity manager of `RSCore` issues unique aliases) -/
def EraseOk (s : List (TCst T F)) (u : Nat) : Prop :=
  ∀ c ∈ s, c.uid = u → ∀ d ∈ s, d.alias = c.alias → d.uid = u

theorem WF.erase (hL : Lawful L) {st : St T F} (h : WF L st) (u : Nat) (hok : EraseOk st.store u) :
    WF L (step L st (.erase u)) := by
  simp only [step]
  split
  · exact h
  · have hn : (uids (st.store.filter (·.uid != u))).Nodup := by
      unfold uids
      exact (List.filter_sublist.map _).nodup h.nodup
    have hokT : SchemaGen.EraseOk (tView st.store) u := by
      intro c hc hcu d hd hda
      obtain ⟨c', hc', rfl⟩ := List.mem_map.1 hc
      obtain ⟨d', hd', rfl⟩ := List.mem_map.1 hd
      exact hok c' hc' hcu d' hd' hda
    have hokD : SchemaGen.EraseOk (dView st.store) u := by
      intro c hc hcu d hd hda
      obtain ⟨c', hc', rfl⟩ := List.mem_map.1 hc
      obtain ⟨d', hd', rfl⟩ := List.mem_map.1 hd
      exact hok c' hc' hcu d' hd' hda
    have eT : tView (st.store.filter (·.uid != u)) = (tView st.store).filter (·.uid != u) := by
      unfold tView; rw [List.filter_map]; rfl
    have eD : dView (st.store.filter (·.uid != u)) = (dView st.store).filter (·.uid != u) := by
      unfold dView; rw [List.filter_map]; rfl
    let st1 : St T F := ⟨st.store.filter (·.uid != u), st.tCache, st.dCache, Graph.eraseItem st.tGraph u,
      st.tInvalid, Graph.eraseItem st.dGraph u, st.dInvalid, st.stuck⟩
    refine (WF.of_updateState hL (st := st1) hn ?_ ?_ h.ok).1
    · rcases h.tg with ht | ⟨ht, hg⟩
      · exact Or.inl ht
      · refine Or.inr ⟨ht, ?_⟩
        show GraphCur (gA L) (tView (st.store.filter (·.uid != u))) (Graph.eraseItem st.tGraph u)
        rw [eT]; exact SchemaGen.graphCur_erase hg hokT
    · rcases h.dg with ht | ⟨ht, hg⟩
      · exact Or.inl ht
      · refine Or.inr ⟨ht, ?_⟩
        show GraphCur (gA L) (dView (st.store.filter (·.uid != u))) (Graph.eraseItem st.dGraph u)
        rw [eD]; exact SchemaGen.graphCur_erase hg hokD

theorem WF.setAlias_plain (hL : Lawful L) {st : St T F} (h : WF L st) (u : Nat) (a : String) :
    WF L (step L st (.setAlias u a false)) := by
  simp only [step]
  split
  · exact h
  · split
    · exact h
    · simp only [Bool.false_eq_true, if_false]
      let f : TCst T F → TCst T F := fun x => { x with alias := a }
      let st1 : St T F := ⟨modifyAt st.store u f, st.tCache, st.dCache, st.tGraph, true, st.dGraph, true, st.stuck⟩
      refine (WF.of_updateState hL (st := st1) ?_ (Or.inl rfl) (Or.inl rfl) h.ok).1
      show (uids (modifyAt st.store u f)).Nodup
      rw [uids_modifyAt _ _ f (fun _ => rfl)]; exact h.nodup

/-! ### histories -/

/-- admissible operation in a state: the alias of an erased entity is not shared with another entity
(`RSCore`'s identity manager issues unique aliases). NOT covered by the proof (left out, not refuted):
renaming WITH substitution of the mentions and the `Translate*` family (`TranslateAll` loop). -/
def Admissible (st : St T F) : Op T F → Prop
  | .erase u => EraseOk st.store u
  | .setAlias _ _ subst => subst = false
  | .substitute _ => False
  | .translate _ _ => False
  | .translateTerm _ _ => False
  | .translateDef _ _ => False
  | .translateAll _ => False
  | _ => True

def AdmissibleFrom (L : Lang T F) : St T F → List (Op T F) → Prop
  | _, [] => True
  | st, op :: ops => Admissible st op ∧ AdmissibleFrom L (step L st op) ops

theorem WF.step (hL : Lawful L) {st : St T F} (h : WF L st) {op : Op T F} (ha : Admissible st op) :
    WF L (step L st op) := by
  cases op with
  | insert c => exact h.insert hL c
  | erase u => exact h.erase hL u ha
  | setAlias u a sb =>
    have : sb = false := ha
    subst this
    exact h.setAlias_plain hL u a
  | setTerm u t => exact h.setTerm hL u t
  | setTermForm u t f => exact h.setTermForm hL u t f
  | setDef u t => exact h.setDef hL u t
  | substitute m => exact ha.elim
  | translate u m => exact ha.elim
  | translateTerm u m => exact ha.elim
  | translateDef u m => exact ha.elim
  | translateAll m => exact ha.elim
  | updateState => exact h.updateState hL

theorem WF.foldl (hL : Lawful L) (ops : List (Op T F)) : ∀ st : St T F, WF L st → AdmissibleFrom L st ops →
    WF L (ops.foldl (Thesaurus.step L) st) := by
  induction ops with
  | nil => intro st h _; exact h
  | cons op ops ih => intro st h ha; exact ih _ (h.step hL ha.1) ha.2

theorem WF.run (hL : Lawful L) {ops : List (Op T F)} (ha : AdmissibleFrom L (St.init L) ops) : WF L (run L ops) :=
  WF.foldl hL ops _ WF_init ha

/-- the scratch state is well-formed, with the same content -/
theorem WF.scratch (hL : Lawful L) {st : St T F} (h : WF L st) :
    WF L (st.scratch L) ∧ (st.scratch L).store = st.store :=
  WF.of_updateState hL (st := { St.init L with store := st.store, tInvalid := true, dInvalid := true })
    h.nodup (Or.inl rfl) (Or.inl rfl) rfl

/-- term references are acyclic: they decrease a rank -/
def Acyclic (L : Lang T F) (s : List (TCst T F)) : Prop :=
  ∃ rank : Nat → Nat, ∀ c ∈ s, ∀ m ∈ L.mentions c.termRaw, ∀ a, findAliasL s m = some a → rank a < rank c.uid

/-- under acyclicity every entity has a `TVal` -/
theorem exists_TVal {s : List (TCst T F)} (_hn : (uids s).Nodup) (ha : Acyclic L s) :
    ∀ c ∈ s, ∃ w, TVal L s c.uid w := by
  obtain ⟨rank, hr⟩ := ha
  have : ∀ n, ∀ c ∈ s, rank c.uid < n → ∃ w, TVal L s c.uid w := by
    intro n
    induction n with
    | zero => intro c _ h; exact absurd h (Nat.not_lt_zero _)
    | succ n ih =>
      intro c hc _
      have hdep : ∀ a, (∃ m ∈ L.mentions c.termRaw, findAliasL s m = some a) → ∃ w, TVal L s a w := by
        rintro a ⟨m, hm, ha⟩
        obtain ⟨d, hd, hdu⟩ := findAliasL_some ha
        have hlt := hr c hc m hm a ha
        have := ih d (findC_mem hd).1 (by rw [hdu]; omega)
        rw [hdu] at this
        exact this
      classical
      let jf : Nat → T := fun a => if h : ∃ w, TVal L s a w then Classical.choose h else c.termRaw
      refine ⟨_, TVal.mk jf hc ?_⟩
      intro m hm v hv
      have hex := hdep v ⟨m, hm, hv⟩
      show TVal L s v (jf v)
      simp only [jf, dif_pos hex]
      exact Classical.choose_spec hex
  intro c hc
  exact this (rank c.uid + 1) c hc (Nat.lt_succ_self _)

/-- two well-formed states with the same content report the same wherever terms are acyclic -/
theorem report_eq (_hL : Lawful L) {st st' : St T F} (h : WF L st) (h' : WF L st') (hs : st'.store = st.store)
    (ha : Acyclic L st.store) : st.report L = st'.report L := by
  unfold St.report
  rw [hs]
  apply List.map_congr_left
  intro c hc
  have hex := exists_TVal h.nodup ha
  obtain ⟨w, hw⟩ := hex c hc
  have e1 : st.tCache c.uid = st'.tCache c.uid := by
    rw [h.tsync c.uid w trivial hw, h'.tsync c.uid w trivial (by rw [hs]; exact hw)]
  classical
  let jf : Nat → T := fun a => if h : ∃ w, TVal L st.store a w then Classical.choose h else c.termRaw
  have hjf : ∀ m ∈ L.mentions c.defRaw, ∀ a, findAliasL st.store m = some a → TVal L st.store a (jf a) := by
    intro m _ a ha'
    obtain ⟨d, hd, hdu⟩ := findAliasL_some ha'
    have hex' : ∃ w, TVal L st.store a w := by rw [← hdu]; exact hex d (findC_mem hd).1
    show TVal L st.store a (jf a)
    simp only [jf, dif_pos hex']
    exact Classical.choose_spec hex'
  have e2 : st.dCache c.uid = st'.dCache c.uid := by
    rw [h.dsync c hc trivial jf hjf, h'.dsync c (by rw [hs]; exact hc) trivial jf (by rw [hs]; exact hjf), hs]
  rw [e1, e2]

/-! ### the resolver of `Model/Refs.lean` satisfies the frame law -/

open CCVerif.Refs in
theorem resolveAll_frame (c1 c2 : Ctx) (refs : List Ref)
    (h : ∀ r ∈ refs, ∀ n f, r.data = .entity n f → c1 n = c2 n) : resolveAll c1 refs = resolveAll c2 refs := by
  have e1 : refs.map (pass1 c1) = refs.map (pass1 c2) := by
    apply List.map_congr_left
    intro r hr
    unfold pass1
    cases hd : r.data with
    | entity n f =>
      simp only
      unfold resolveEntity
      rw [h r hr n f hd]
    | collab a b => rfl
  unfold resolveAll
  rw [e1]
  apply List.map_congr_left
  intro p _
  unfold pass2
  cases hd : p.2.data with
  | entity n f => rfl
  | collab a b =>
    simp only
    unfold resolveOne
    rw [hd]

open CCVerif.Refs in
theorem refsLang_lawful : Lawful refsLang := by
  constructor
  intro raw ctx ctx' h
  show (match resolve Variant.current (fun n => (ctx (nameStr n)).map toTerm) raw with
        | .ok r => r.1 | .stuck _ => raw) =
       (match resolve Variant.current (fun n => (ctx' (nameStr n)).map toTerm) raw with
        | .ok r => r.1 | .stuck _ => raw)
  have hm : ∀ m ∈ (match referals Variant.current raw with | .ok l => l.map nameStr | .stuck _ => []),
      ctx m = ctx' m := h
  unfold resolve
  unfold referals at hm
  cases hx : extractAll Variant.current raw with
  | stuck f => rfl
  | ok refs =>
    rw [hx] at hm
    simp only at hm ⊢
    rw [resolveAll_frame _ _ refs]
    intro r hr n f hd
    have : nameStr n ∈ (refs.filterMap (fun r => match r.data with | .entity n _ => some n | .collab .. => none)).map nameStr := by
      refine List.mem_map.2 ⟨n, List.mem_filterMap.2 ⟨r, hr, ?_⟩, rfl⟩
      rw [hd]
    rw [hm _ this]

/-- executable acyclicity certificate -/
def acyclicCheck (L : Lang T F) (s : List (TCst T F)) (rank : Nat → Nat) : Bool :=
  s.all (fun c => (L.mentions c.termRaw).all (fun m =>
    match findAliasL s m with
    | some a => decide (rank a < rank c.uid)
    | none => true))

theorem acyclic_of_check {s : List (TCst T F)} {rank : Nat → Nat} (h : acyclicCheck L s rank = true) :
    Acyclic L s := by
  refine ⟨rank, ?_⟩
  intro c hc m hm a ha
  unfold acyclicCheck at h
  have := List.all_eq_true.1 (List.all_eq_true.1 h c hc) m hm
  rw [ha] at this
  simpa using this

end CCVerif.Thesaurus
