import CCVerif.Lemmas.EvalBlocksPatFilterTop
import CCVerif.Lemmas.EvalExamples8
/-! Non-vacuity witness of stage 11 (filters inside expressions with tuple patterns), shared by `Properties/C01.lean`
and `Properties/C02.lean`; no globals, `S = {1,2}×{1,2}`:
`I{(a,b) | (a,b):∈S; (a,b)∈Fi1[{1}](S)} = {(1,1),(1,2)}` - a pattern on the left of `:∈` (not of stage 8), a filter in its
scope, tested on the leaves (not of stage 10). -/
namespace CCVerif.Eval
open CCVerif.Syntax CCVerif.Spec CCVerif.Norm
open Ty

namespace Examples11
open Examples

def ZZ : Ty := .tuple [Z, Z]
def w : Ast := loc "@ab"
def patAB : Ast := nd .NT_TUPLE_DECL [loc "a", loc "b"]
/-- `(a,b)∈Fi1[{1}](S)` -/
def cond11 : Ast := nd .IN [nd .NT_TUPLE [loc "a", loc "b"], e8v]
def cond11s : Ast := nd .IN [nd .NT_TUPLE [pr1 1 w, pr1 2 w], e8v]

/-- `I{(a,b) | (a,b):∈S; (a,b)∈Fi1[{1}](S)}` -/
def i11 : Ast := nd .NT_IMPERATIVE_EXPR [nd .NT_TUPLE [loc "a", loc "b"], nd .ITERATE [patAB, sq], cond11]
/-- over the generated local (its own normal form) -/
def i11s : Ast := nd .NT_IMPERATIVE_EXPR [nd .NT_TUPLE [pr1 1 w, pr1 2 w], nd .ITERATE [w, sq], cond11s]

theorem i11_normalizes : normalizeTree env0.funcs 10 i11 = some i11s := by rfl

theorem w_frag (Γ : TCtx) (τ : Ty) (h : lookup "@ab" Γ = some τ) : FragF env0 [] 6 [] Γ w w (.ty τ) :=
  .loc _ "@ab" 0 0 (by decide) h rfl

theorem prw_frag (Γ : TCtx) (k : Int) (h : lookup "@ab" Γ = some ZZ) (hk : k = 1 ∨ k = 2) :
    FragF env0 [] 6 [] Γ (pr1 k w) (pr1 k w) (.ty Z) := by
  refine .smallpr (ts := [Z, Z]) [k] 0 0 (w_frag Γ _ h) ?_
  rcases hk with rfl | rfl <;> rfl

theorem tup_frag (Γ : TCtx) (h : lookup "@ab" Γ = some ZZ) :
    FragF env0 [] 6 [] Γ (nd .NT_TUPLE [pr1 1 w, pr1 2 w]) (nd .NT_TUPLE [pr1 1 w, pr1 2 w]) (.ty ZZ) := by
  refine FragF.tuple _ _ _ [pr1 1 w, pr1 2 w] [pr1 1 w, pr1 2 w] [Z, Z] (by decide) rfl rfl ?_
  intro p hp
  simp only [List.zip_cons_cons, List.zip_nil_right, List.mem_cons, List.not_mem_nil, or_false] at hp
  rcases hp with rfl | rfl
  · exact prw_frag _ 1 h (Or.inl rfl)
  · exact prw_frag _ 2 h (Or.inr rfl)

def impBlocks11 : List Blk := [.iter "@ab" sq sq ZZ .none 0 0 0 0, .guard cond11s cond11s]

theorem i11s_frag : FragF env0 [] 6 [] [] i11s i11s (.ty (.coll ZZ)) := by
  refine FragF.imp _ _ _ impBlocks11 (by decide) (by simp [impBlocks11]) rfl ?_ ?_ ?_
  · exact split_cons (P := fun pre b => b.side env0 [] (ctxAfter [] pre)) ⟨rfl, rfl, by simp⟩
      (split_cons ⟨by decide, by decide, by decide, by decide⟩ split_nil)
  · refine split_cons (P := fun pre b => FragF env0 [] 6 [] (ctxAfter [] pre) b.expr b.expr' b.ety)
      (sq_frag _ _) (split_cons ?_ split_nil)
    exact .mem (τ := ZZ) _ _ _ (Or.inl rfl) (by decide) (by decide) (tup_frag _ rfl) (e8v_frag _ _)
  · exact tup_frag _ rfl

/-! ### the pattern-elimination derivation -/

abbrev S0 : SEnv := senvOf env0

theorem lit_pe (Γ : TCtx) (Δ : NCtx) (n : Int) : PE2 S0 Γ Δ (lit n) (lit n) := .lit n 0 0 0 0

theorem enum_pe (Γ : TCtx) (Δ : NCtx) (ks : List Int) :
    PE2 S0 Γ Δ (nd .NT_ENUMERATION (ks.map lit)) (nd .NT_ENUMERATION (ks.map lit)) := by
  refine .nary _ 0 0 0 0 _ _ (Or.inl rfl) rfl ?_
  intro q hq
  obtain ⟨h1, h2⟩ := mem_zip_self hq
  obtain ⟨n, _, hn⟩ := List.mem_map.mp h2
  obtain ⟨q1, q2⟩ := q
  simp only at h1 hn; subst h1; subst hn
  exact lit_pe _ _ n

theorem sq_pe (Γ : TCtx) (Δ : NCtx) : PE2 S0 Γ Δ sq sq := by
  refine .nary _ 0 0 0 0 _ _ (Or.inr (Or.inr rfl)) rfl ?_
  intro q hq
  simp only [List.zip_cons_cons, List.zip_nil_right, List.mem_cons, List.not_mem_nil, or_false] at hq
  rcases hq with rfl | rfl <;> exact enum_pe _ _ [1, 2]

theorem e8v_pe (Γ : TCtx) (Δ : NCtx) : PE2 S0 Γ Δ e8v e8v := by
  refine PE2.filterT [1] 0 0 0 0 [enum1] [enum1] sq sq rfl rfl ?_ (sq_pe _ _)
  intro q hq
  simp only [List.zip_cons_cons, List.zip_nil_right, List.mem_cons, List.not_mem_nil, or_false] at hq
  subst hq
  exact enum_pe _ _ [1]

theorem sq_dt (Γ : TCtx) : DT S0 Γ sq (.coll ZZ) := by
  refine .decart _ _ _ _ [Z, Z] rfl ?_
  intro q hq
  simp only [List.zip_cons_cons, List.zip_nil_right, List.mem_cons, List.not_mem_nil, or_false] at hq
  rcases hq with rfl | rfl <;>
  · refine DT.enum _ _ _ _ Z ?_
    intro k hk
    simp only [List.mem_cons, List.not_mem_nil, or_false] at hk
    rcases hk with rfl | rfl <;> exact .lit ..

def Δ11 : NCtx := [("a", ("@ab", [1])), ("b", ("@ab", [2]))]
theorem delta11 : leafDelta patAB "@ab" ++ [] = Δ11 := by decide

theorem declOK11 : DeclOK [] patAB "@ab" ZZ :=
  ⟨by decide, by decide, by intro x r hl; simp [lookup] at hl⟩

theorem ab_pe (Γ : TCtx) : PE2 S0 Γ Δ11 (nd .NT_TUPLE [loc "a", loc "b"]) (nd .NT_TUPLE [pr1 1 w, pr1 2 w]) := by
  refine .nary _ 0 0 0 0 _ _ (Or.inr (Or.inl rfl)) rfl ?_
  intro q hq
  simp only [List.zip_cons_cons, List.zip_nil_right, List.mem_cons, List.not_mem_nil, or_false] at hq
  rcases hq with rfl | rfl
  · exact PE2.loc "a" "@ab" [1] 0 0 0 0 rfl
  · exact PE2.loc "b" "@ab" [2] 0 0 0 0 rfl

def bl11 : List BSpec := [.iter patAB ("@ab", 0, 0) ZZ sq sq {} {}, .cond cond11 cond11s]

theorem i11_pe : PE2 S0 [] [] i11 i11s := by
  refine PE2.imp (S := S0) (Γ := []) (Δ := []) .none .none 0 0 0 0 (nd .NT_TUPLE [loc "a", loc "b"])
    (nd .NT_TUPLE [pr1 1 w, pr1 2 w]) bl11 ?_ ?_
  · exact ⟨(sq_dt _).domTy, declOK11, by decide, by decide, by decide, by decide, trivial⟩
  · intro q hq
    simp only [bl11, impObl, List.mem_cons, List.not_mem_nil, or_false] at hq
    rcases hq with rfl | rfl | rfl
    · exact sq_pe _ _
    · simp only [delta11]
      exact .mem _ 0 0 0 0 (Or.inl rfl) (by decide) (by decide) (ab_pe _) (e8v_pe _ _)
    · simp only [delta11]
      exact ab_pe _

/-- the filter really is not in `PE` : sanity of the example is the evaluation below -/
theorem i11_value : (evaluate 30 env0 i11).1 = .ok (.s [.t [.e 1, .e 1], .t [.e 1, .e 2]]) ∧
    denote (senvOf env0) 30 .nil i11 = some (.val (.s [.t [.e 1, .e 1], .t [.e 1, .e 2]])) := by decide

end Examples11

end CCVerif.Eval
