import CCVerif.Model.Oss
import CCVerif.Lemmas.Oss
import CCVerif.Lemmas.OssRel
import CCVerif.Lemmas.OssInv
import CCVerif.Lemmas.OssTop
import CCVerif.Lemmas.OssExec
import CCVerif.Lemmas.OssStep
import CCVerif.Lemmas.OssFuel
/-!
C19, fuel sufficiency, part 2: every piece of the API (repaired variant), started in a state that
satisfies the invariant between calls (`DInv`) and has no fault, never produces the fault "fuel";
started in a faulty state it keeps the fault (`DS`).

Why the constant `fuelOf d = 8 * (#documents + 2)` is enough: by `HInv.uniq` no two stored
pictograms stand for one document, so at most `#documents` pictograms are stale
(`staleCount_le_env`); the chain needs at most `5 * stale + 5` frames (`reactions_fuel`). Where a
call of the chain starts from a state that differs from an invariant state in one handle
(`ConnectInternal`), one more pictogram may be stale — the slack of the constant covers it.

`Execute` recurses into a parent; the pictograms on the recursion stack are pairwise different
stored pictograms (the parent relation decreases a rank), so `storage.length + 1` levels suffice
(`execute_ds`).
-/
namespace CCVerif.Oss

/-- the first fault is kept -/
def Sticky (d d' : Dyn) : Prop := ∀ w, d.fault = some w → d'.fault = some w

theorem Sticky.refl (d : Dyn) : Sticky d d := fun _ h => h
theorem Sticky.trans {a b c : Dyn} (h1 : Sticky a b) (h2 : Sticky b c) : Sticky a c := fun w h => h2 w (h1 w h)
theorem Sticky.of_eq {d d' : Dyn} (e : d'.fault = d.fault) : Sticky d d' := fun w h => by rw [e]; exact h
theorem Sticky.stuck (d : Dyn) (w : String) : Sticky d (d.stuck w) := (FRel.stuck d w).sticky
theorem FRel.st {d d' : Dyn} (r : FRel d d') : Sticky d d' := r.sticky
theorem Sticky.none_of {d d' : Dyn} (h : Sticky d d') (hf : d'.fault = none) : d.fault = none := by
  cases hd : d.fault with
  | none => rfl
  | some w => rw [h w hd] at hf; cases hf

/-- from a state without fuel fault: either it is faulty and the fault is kept, or it is not -/
theorem nf_step {b c : Dyn} (hb : NF b) (st : Sticky b c) (h : b.fault = none → NF c) : NF c := by
  cases hf : b.fault with
  | none => exact h hf
  | some w => unfold NF at *; rw [st w hf, ← hf]; exact hb

theorem fuelOf_enough {s : Struct} {d : Dyn} (h : depthOf s d ≤ d.env.length + 2) : 5 * depthOf s d + 5 ≤ fuelOf d := by
  unfold fuelOf; omega

theorem DInv.depth_le {s : Struct} {d : Dyn} (i : DInv s d) (hn : s.storage.Nodup) : depthOf s d ≤ d.env.length :=
  depthOf_le_env hn i.h.uniq

/-! ## pieces -/

/-- a piece of an API call: keeps the first fault; from an invariant state, a fault-free result is
an invariant state; from a fault-free invariant state, the result has no fuel fault -/
structure DS (s : Struct) (d d' : Dyn) : Prop where
  sticky : Sticky d d'
  inv : DInv s d → d'.fault = none → DInv s d'
  nf : DInv s d → d.fault = none → NF d'

theorem DS.refl (s : Struct) (d : Dyn) : DS s d d := ⟨Sticky.refl d, fun i _ => i, fun _ h => NF.of_none h⟩

theorem DS.trans {s : Struct} {a b c : Dyn} (h1 : DS s a b) (h2 : DS s b c) : DS s a c := by
  refine ⟨h1.sticky.trans h2.sticky, fun i hf => h2.inv (h1.inv i (h2.sticky.none_of hf)) hf, fun i hf => ?_⟩
  exact nf_step (h1.nf i hf) h2.sticky (fun hb => h2.nf (h1.inv i hb) hb)

theorem DS.stuck (s : Struct) (d : Dyn) {w : String} (hw : w ≠ "fuel") : DS s d (d.stuck w) :=
  ⟨Sticky.stuck d w, fun _ h => absurd h (Dyn.fault_stuck_ne _ _), fun _ h => (NF.of_none h).stuck hw⟩

theorem DS.stuckIf (s : Struct) (d : Dyn) (c : Bool) {w : String} (hw : w ≠ "fuel") :
    DS s d (if c = true then d.stuck w else d) := by
  split
  · exact DS.stuck s d hw
  · exact DS.refl s d

theorem DS.setOp (s : Struct) (d : Dyn) (p : Pid) (x : OpHandle) : DS s d (d.setOp p x) :=
  ⟨Sticky.of_eq rfl, fun i _ => i.setOp p x, fun _ h => NF.of_none h⟩

theorem DS.foldl {s : Struct} {α} (g : Dyn → α → Dyn) (hg : ∀ d x, DS s d (g d x)) : ∀ (l : List α) (d : Dyn), DS s d (l.foldl g d)
  | [], d => DS.refl s d
  | x :: l, d => (hg d x).trans (DS.foldl g hg l (g d x))

/-- a call of the chain with the model's fuel from an invariant state -/
theorem DS.of_chain {s : Struct} (hn : s.storage.Nodup) {d d' : Dyn} (r : FRel d d') (gd : Good s noEx d d')
    (hnf : NF d → 5 * depthOf s d + 5 ≤ fuelOf d → NF d') : DS s d d' :=
  ⟨r.st, fun i hf => (gd.post i hf).1,
   fun i hf => hnf (NF.of_none hf) (fuelOf_enough (Nat.le_trans (i.depth_le hn) (Nat.le_add_right _ _)))⟩

theorem announce_ds {s : Struct} (g : GraphOk s) (hn : s.storage.Nodup) (o : Oracle) (d : Dyn) (n : SrcName) :
    DS s d (announce s o (fuelOf d) d n) :=
  DS.of_chain hn ((reactions_frel s o _).1 d n) (announce_good g o _ d n)
    (fun h hb => (reactions_fuel s o _).1 d n h (by omega))

theorem coreChange_ds {s : Struct} (g : GraphOk s) (hn : s.storage.Nodup) (o : Oracle) (d : Dyn) (p : Pid) :
    DS s d (coreChange s o (fuelOf d) d p) :=
  DS.of_chain hn ((reactions_frel s o _).2.2.1 d p) (coreChange_good g o _ d p)
    (fun h hb => (reactions_fuel s o _).2.2.1 d p h (by omega))

theorem updateSync_ds {s : Struct} (g : GraphOk s) (hn : s.storage.Nodup) (o : Oracle) (d : Dyn) (p : Pid) :
    DS s d (updateSync s o (fuelOf d) d p) :=
  DS.of_chain hn ((reactions_frel s o _).2.2.2.1 d p) (updateSync_good g o _ d p)
    (fun h hb => (reactions_fuel s o _).2.2.2.1 d p h (by omega))

theorem dataFor_ds {s : Struct} (g : GraphOk s) (hn : s.storage.Nodup) (o : Oracle) (d : Dyn) (p : Pid) :
    DS s d (dataFor s o (fuelOf d) d p).1 :=
  DS.of_chain hn ((reactions_frel s o _).2.2.2.2.1 d p) (dataFor_good g o _ d p)
    (fun h hb => (reactions_fuel s o _).2.2.2.2.1 d p h (by omega))

theorem checkOp_ds {s : Struct} (g : GraphOk s) (hn : s.storage.Nodup) (o : Oracle) (d : Dyn) (p : Pid) :
    DS s d (checkOp s o (fuelOf d) d p) :=
  DS.of_chain hn ((reactions_frel s o _).2.2.2.2.2 d p) (checkOp_good g o _ d p)
    (fun h hb => (reactions_fuel s o _).2.2.2.2.2 d p h (by omega))

/-! ## the events of the source manager -/

theorem evClose_fault (s : Struct) (d : Dyn) (n : SrcName) : (evClose s d n).fault = d.fault := by
  unfold evClose
  cases d.source n with
  | none => rfl
  | some x =>
    dsimp only
    split
    · rfl
    · split <;> rfl

theorem evClose_ds (s : Struct) (d : Dyn) (n : SrcName) : DS s d (evClose s d n) :=
  ⟨Sticky.of_eq (evClose_fault s d n), fun i hf => ((evClose_good s d n).post i hf).1,
   fun _ h => NF.of_none (by rw [evClose_fault]; exact h)⟩

theorem mgrClose_ds {s : Struct} (g : GraphOk s) (hn : s.storage.Nodup) (o : Oracle) (d : Dyn) (n : SrcName) :
    DS s d (mgrClose s o d n) :=
  (announce_ds g hn o d n).trans (evClose_ds s _ n)

theorem connectInternal_eq (s : Struct) (o : Oracle) (d : Dyn) (p : Pid) (n : SrcName) :
    connectInternal s o d p n =
      syncPict s o (fuelOf ((announce s o (fuelOf d) d n).setHandle p { (announce s o (fuelOf d) d n).handle p with src := some n }))
        ((announce s o (fuelOf d) d n).setHandle p { (announce s o (fuelOf d) d n).handle p with src := some n }) p := rfl

theorem connectInternal_sticky (s : Struct) (o : Oracle) (d : Dyn) (p : Pid) (n : SrcName) :
    Sticky d (connectInternal s o d p n) := by
  rw [connectInternal_eq]
  have h1 : Sticky d (announce s o (fuelOf d) d n) := ((reactions_frel s o _).1 d n).st
  generalize announce s o (fuelOf d) d n = d1 at h1
  have h2 : Sticky d1 (d1.setHandle p { d1.handle p with src := some n }) := Sticky.of_eq rfl
  exact (h1.trans h2).trans ((reactions_frel s o _).2.1 _ p).st

/-- `ConnectInternal` from a state with at most one stale pictogram more than documents -/
theorem connectInternal_nf {s : Struct} (hn : s.storage.Nodup) (o : Oracle) (d : Dyn) (p : Pid) (n : SrcName)
    (hp : p ∈ s.storage) (hb : depthOf s d ≤ d.env.length + 1) (h : NF d) : NF (connectInternal s o d p n) := by
  rw [connectInternal_eq]
  have r1 := (reactions_frel s o (fuelOf d)).1 d n
  have h1 : NF (announce s o (fuelOf d) d n) := (reactions_fuel s o _).1 d n h (by unfold fuelOf; omega)
  have hb1 := r1.depth_le (s := s)
  have he1 := r1.env
  generalize announce s o (fuelOf d) d n = d1 at r1 h1 hb1 he1
  have hb2 := depthOf_setHandle_le hn d1 p { d1.handle p with src := some n }
  have he2 : (d1.setHandle p { d1.handle p with src := some n }).env.length = d1.env.length := rfl
  have h2 : NF (d1.setHandle p { d1.handle p with src := some n }) := h1.of_eq rfl
  generalize d1.setHandle p { d1.handle p with src := some n } = d2 at hb2 he2 h2
  exact (reactions_fuel s o (fuelOf d2)).2.1 d2 p hp h2 (by unfold fuelOf; omega)

theorem evOpen_ds {s : Struct} (g : GraphOk s) (hn : s.storage.Nodup) (o : Oracle) (d : Dyn) (n : SrcName)
    (hadm : ∀ x, d.source n = some x → x.opened = false) : DS s d (evOpen s o d n) := by
  refine ⟨?_, fun i hf => ((evOpen_good g o d n hadm).post i hf).1, ?_⟩
  · rw [evOpen_eq]
    cases d.source n with
    | none => exact Sticky.refl d
    | some x =>
      dsimp only
      split
      · exact Sticky.of_eq rfl
      · split
        · exact Sticky.of_eq rfl
        · exact (Sticky.of_eq (d := d) (d' := d.setSource (openSource x)) rfl).trans (connectInternal_sticky s o _ _ n)
  · intro i hf
    rw [evOpen_eq]
    cases hx : d.source n with
    | none => exact NF.of_none hf
    | some x =>
      dsimp only
      split
      · exact NF.of_none hf
      · cases hfind : s.storage.find? (fun p => !(d.handle p).empty && (d.handle p).src.isNone && (d.handle p).desc == some n) with
        | none => exact NF.of_none hf
        | some p =>
          dsimp only
          have hps : p ∈ s.storage := List.mem_of_find?_eq_some hfind
          apply connectInternal_nf hn o (d.setSource (openSource x)) p n hps _ (NF.of_none (d := d.setSource (openSource x)) hf)
          have hu : UniqEd s (d.setSource (openSource x)) := UniqEd.of_ed_eq (d := d) i.h.uniq (fun _ => rfl)
          have := depthOf_le_env hn hu
          omega

theorem connectPict2Src_ds {s : Struct} (g : GraphOk s) (hn : s.storage.Nodup) (o : Oracle) (d : Dyn) (p : Pid) (n : SrcName) :
    DS s d (connectPict2Src s o d p n).1 := by
  refine ⟨?_, fun i hf => ((connectPict2Src_good g o d p n).post i hf).1, ?_⟩
  · unfold connectPict2Src
    split
    · exact Sticky.refl d
    · cases d.source n with
      | none => exact Sticky.refl d
      | some x =>
        dsimp only
        split
        · exact ((reactions_frel s o _).2.2.2.1 d p).st
        · split
          · exact Sticky.refl d
          · split
            · exact Sticky.refl d
            · cases (d.handle p).src with
              | none => exact ((announce_ds g hn o d n).sticky).trans (connectInternal_sticky s o _ p n)
              | some old =>
                exact (((announce_ds g hn o d n).trans (mgrClose_ds g hn o _ old)).sticky).trans (connectInternal_sticky s o _ p n)
  · intro i hf
    unfold connectPict2Src
    split
    · exact NF.of_none hf
    · rename_i hcont
      have hp : p ∈ s.storage := by simpa [Struct.contains] using hcont
      cases d.source n with
      | none => exact NF.of_none hf
      | some x =>
        dsimp only
        split
        · exact (updateSync_ds g hn o d p).nf i hf
        · split
          · exact NF.of_none hf
          · split
            · exact NF.of_none hf
            · have tail : ∀ d2, DS s d d2 → NF (connectInternal s o d2 p n) := by
                intro d2 h2
                refine nf_step (h2.nf i hf) (connectInternal_sticky s o d2 p n) (fun hf2 => ?_)
                have i2 := h2.inv i hf2
                exact connectInternal_nf hn o d2 p n hp (Nat.le_trans (i2.depth_le hn) (Nat.le_add_right _ _)) (NF.of_none hf2)
              cases (d.handle p).src with
              | none => exact tail _ (announce_ds g hn o d n)
              | some old => exact tail _ ((announce_ds g hn o d n).trans (mgrClose_ds g hn o _ old))

/-! ## `Discard`, `InitFor` -/

theorem clear_ds (s : Struct) (d : Dyn) (p : Pid) : DS s d (d.setHandle p {}) :=
  ⟨Sticky.of_eq rfl, fun i _ => (clear_spec d p i).1, fun _ h => NF.of_none h⟩

theorem discard_ds {s : Struct} (g : GraphOk s) (hn : s.storage.Nodup) (o : Oracle) (d : Dyn) (p : Pid) :
    DS s d (discard s o d p) := by
  rw [discard_eq]
  split
  · exact DS.refl s d
  · have h1 := updateSync_ds g hn o d p
    generalize updateSync s o (fuelOf d) d p = d1 at h1
    split
    · exact h1
    · cases (d1.handle p).desc.bind d1.source with
      | none => exact h1.trans (clear_ds s d1 p)
      | some x =>
        dsimp only
        split
        · exact (h1.trans (clear_ds s d1 p)).trans (mgrClose_ds g hn o _ x.name)
        · exact h1.trans (clear_ds s d1 p)

theorem initFor_ds {s : Struct} (g : GraphOk s) (hn : s.storage.Nodup) (o : Oracle) (d : Dyn) (p : Pid) (t : OpType)
    (opts : Opts) (same : Bool) : DS s d (initFor s Variant.repaired o d p t opts same).1 := by
  unfold initFor
  split
  · exact DS.refl s d
  · split
    · exact DS.refl s d
    · dsimp only
      split
      · exact DS.refl s d
      · simp only [Variant.repaired, if_true]
        exact (((DS.setOp s d p _).trans (discard_ds g hn o _ p)).trans (checkOp_ds g hn o _ p)).trans (coreChange_ds g hn o _ p)

/-! ## `SaveOperationResult` -/

theorem updStep_ds {s : Struct} (g : GraphOk s) (hn : s.storage.Nodup) (o : Oracle) (p : Pid) (ch : Bool) (d : Dyn) (c : Pid) :
    DS s d (updStep s o p ch d c) := by
  unfold updStep
  have h1 : DS s d (if (s.graph.parentIndex p c).isNone = true then d.stuck "ParentIndex.value()" else d) :=
    DS.stuckIf s d _ (by decide)
  generalize (if (s.graph.parentIndex p c).isNone = true then d.stuck "ParentIndex.value()" else d) = d1 at h1
  have h2 := checkOp_ds g hn o d1 c
  dsimp only
  generalize checkOp s o (fuelOf d1) d1 c = d2 at h2
  split
  · exact (h1.trans h2).trans (DS.setOp s d2 c _)
  · exact h1.trans h2

theorem updateChildren_ds {s : Struct} (g : GraphOk s) (hn : s.storage.Nodup) (o : Oracle) (d : Dyn) (p : Pid) (ch : Bool) :
    DS s d (updateChildren s Variant.repaired o d p ch) := by
  rw [updateChildren_repaired]
  exact DS.foldl _ (updStep_ds g hn o p ch) _ d

theorem inputTarget_fault_eq (d : Dyn) (p : Pid) : (inputTarget d p).1.fault = d.fault := by
  unfold inputTarget
  split <;> rfl

theorem writeData_sticky (d : Dyn) (n : SrcName) (c : Content) : Sticky d (writeData d n c) := by
  unfold writeData
  split
  · exact Sticky.of_eq rfl
  · exact Sticky.stuck _ _

theorem winState_sticky (s : Struct) (o : Oracle) (d : Dyn) (p : Pid) (c : Content) : Sticky d (winState s o d p c) := by
  unfold winState
  have h1 : Sticky d (inputTarget { d with dnd := d.dnd + 1 } p).1 := Sticky.of_eq (inputTarget_fault_eq _ p)
  have h2 := writeData_sticky (inputTarget { d with dnd := d.dnd + 1 } p).1 (inputTarget { d with dnd := d.dnd + 1 } p).2 c
  have h3 := connectInternal_sticky s o (writeData (inputTarget { d with dnd := d.dnd + 1 } p).1 (inputTarget { d with dnd := d.dnd + 1 } p).2 c) p
    (inputTarget { d with dnd := d.dnd + 1 } p).2
  exact ((h1.trans h2).trans h3).trans (Sticky.of_eq rfl)

theorem saveResult_ds {s : Struct} (g : GraphOk s) (hn : s.storage.Nodup) (o : Oracle) (d : Dyn) (p : Pid) (c : Content)
    (built : Option Content × Option Content) (hps : p ∈ s.storage) :
    DS s d (saveResult s Variant.repaired o d p c built).1 := by
  rw [saveResult_repaired]
  dsimp only
  have hu := updateChildren_ds g hn o ((winState s o d p c).setOp p (doneOp ((winState s o d p c).op p) built)) p
    (((winState s o d p c).handle p).coreHash != (d.handle p).coreHash)
  have hw : DInv s d → DInv s (winState s o d p c) ∧ (winState s o d p c).fault = d.fault := by
    intro i
    obtain ⟨iw, _, _, _, wf, _, _⟩ := window_spec o i hps (winPre_of i hps c)
    exact ⟨iw, wf⟩
  have hst := winState_sticky s o d p c
  generalize winState s o d p c = W at hu hw hst
  have hW' : DS s d (W.setOp p (doneOp (W.op p) built)) := by
    refine ⟨hst.trans (Sticky.of_eq rfl), fun i _ => (hw i).1.setOp _ _, fun i hf => NF.of_none ?_⟩
    show W.fault = none
    rw [(hw i).2]; exact hf
  exact hW'.trans hu

/-! ## `RunOperation`, `Execute` -/

theorem readOne_ds {s : Struct} (g : GraphOk s) (hn : s.storage.Nodup) (o : Oracle) (d : Dyn) (q : Pid) :
    DS s d (readOne s o d q).1 := by
  unfold readOne
  exact (updateSync_ds g hn o d q).trans (dataFor_ds g hn o _ q)

theorem runTail_ds {s : Struct} (g : GraphOk s) (hn : s.storage.Nodup) (o : Oracle) (d : Dyn) (p : Pid) (a : Bool) (c1 c2 : Content)
    (hps : p ∈ s.storage) : DS s d (runTail s Variant.repaired o d p a c1 c2).1 := by
  rw [runTail_repaired]
  have hA := dataFor_ds g hn o d p
  cases (dataFor s o (fuelOf d) d p).2 with
  | none =>
    dsimp only
    exact hA.trans (saveResult_ds g hn o _ p _ _ hps)
  | some _ =>
    dsimp only
    generalize (dataFor s o (fuelOf d) d p).1 = dA at hA
    have hB := updateSync_ds g hn o dA p
    generalize updateSync s o (fuelOf dA) dA p = dB at hB
    split
    · exact (hA.trans hB).trans (saveResult_ds g hn o _ p _ _ hps)
    · split
      · exact hA.trans hB
      · exact ((hA.trans hB).trans (discard_ds g hn o dB p)).trans (saveResult_ds g hn o _ p _ _ hps)

theorem runOperation_ds {s : Struct} (g : GraphOk s) (hn : s.storage.Nodup) (o : Oracle) (d : Dyn) (p p1 p2 : Pid) (a : Bool)
    (hps : p ∈ s.storage) (hpar : s.graph.parentsOf p = [p1, p2]) :
    DS s d (runOperation s Variant.repaired o d p a).1 := by
  rw [runOperation_two s Variant.repaired o d p p1 p2 a hpar]
  have h1 := readOne_ds g hn o d p1
  generalize (readOne s o d p1).2 = v1
  generalize (readOne s o d p1).1 = d1 at h1
  have h2 := readOne_ds g hn o d1 p2
  generalize (readOne s o d1 p2).2 = v2
  generalize (readOne s o d1 p2).1 = d2 at h2
  have h12 := h1.trans h2
  cases v1 with
  | none => exact h12.trans (DS.stuck s d2 (by decide))
  | some c1 =>
    cases v2 with
    | none => exact h12.trans (DS.stuck s d2 (by decide))
    | some c2 => exact h12.trans (runTail_ds g hn o d2 p a c1 c2 hps)

theorem finishExecute_ds {s : Struct} (k : StructOk s) (hn : s.storage.Nodup) (o : Oracle) (p p1 p2 : Pid) (a : Bool)
    (pre : Dyn × Bool) (hpo : p ∈ s.opKeys) (hpar : s.graph.parentsOf p = [p1, p2]) :
    DS s pre.1 (finishExecute s Variant.repaired o p a pre).1 := by
  unfold finishExecute
  split
  · exact DS.refl s _
  · dsimp only
    have hK := checkOp_ds k.g hn { o with check := fun q => if q == p then o.execCheck p else o.check q } pre.1 p
    generalize checkOp s { o with check := fun q => if q == p then o.execCheck p else o.check q } (fuelOf pre.1) pre.1 p = dK at hK
    split
    · exact hK
    · exact hK.trans (runOperation_ds k.g hn o dK p p1 p2 a (k.opSub p hpo) hpar)

/-- **`Execute` never runs out of its own fuel**: `vis` = the pictograms on the recursion stack,
pairwise different stored pictograms of larger rank than `p` -/
theorem execute_ds {s : Struct} (k : StructOk s) (hn : s.storage.Nodup) (o : Oracle) (rank : Pid → Nat)
    (hr : ∀ c p, p ∈ s.graph.parentsOf c → rank p < rank c) :
    ∀ (f : Nat) (d : Dyn) (p : Pid) (a : Bool) (vis : List Pid), vis.Nodup →
      (∀ x ∈ vis, x ∈ s.storage ∧ rank p < rank x) → s.storage.length < vis.length + f →
      DS s d (execute s Variant.repaired o f d p a).1
  | 0, d, p, a, vis, hv, hvis, hlen => by
    exfalso
    have := nodup_length_le_of_subset vis s.storage hv (fun x hx => (hvis x hx).1)
    omega
  | f + 1, d, p, a, vis, hv, hvis, hlen => by
    rw [execute_succ]
    split
    · exact DS.refl s d
    · rename_i hop
      have hpo : p ∈ s.opKeys := by simpa [Struct.isOperable] using hop
      obtain ⟨p1, p2, hpar, _, _⟩ := k.opPar p hpo
      have hpv : p ∉ vis := fun h => Nat.lt_irrefl _ (hvis p h).2
      have hprep : ∀ (l : List Pid), (∀ q ∈ l, q ∈ s.graph.parentsOf p) → ∀ (acc : Dyn × Bool),
          DS s acc.1 (l.foldl (prepStep s Variant.repaired o f) acc).1 := by
        intro l
        induction l with
        | nil => intro _ acc; exact DS.refl s _
        | cons q l ih =>
          intro hl acc
          simp only [List.foldl_cons]
          refine DS.trans ?_ (ih (fun x hx => hl x (List.mem_cons_of_mem _ hx)) _)
          unfold prepStep
          split
          · exact DS.refl s _
          · split
            · exact DS.refl s _
            · split
              · exact DS.refl s _
              · split
                · have hq := hr p q (hl q List.mem_cons_self)
                  refine execute_ds k hn o rank hr f acc.1 q false (p :: vis) (List.nodup_cons.2 ⟨hpv, hv⟩) ?_ ?_
                  · intro x hx
                    rcases List.mem_cons.1 hx with rfl | hx'
                    · exact ⟨k.opSub _ hpo, hq⟩
                    · exact ⟨(hvis x hx').1, Nat.lt_trans hq (hvis x hx').2⟩
                  · simp only [List.length_cons]; omega
                · exact DS.refl s _
      have hpre := hprep (s.graph.parentsOf p) (fun _ h => h) (d, true)
      generalize (s.graph.parentsOf p).foldl (prepStep s Variant.repaired o f) (d, true) = pre at hpre
      exact hpre.trans (finishExecute_ds k hn o p p1 p2 a pre hpo hpar)

theorem execute_top_ds {s : Struct} (k : StructOk s) (hn : s.storage.Nodup) (o : Oracle) (rank : Pid → Nat)
    (hr : ∀ c p, p ∈ s.graph.parentsOf c → rank p < rank c) (d : Dyn) (p : Pid) (a : Bool) :
    DS s d (execute s Variant.repaired o (s.storage.length + 2) d p a).1 :=
  execute_ds k hn o rank hr _ d p a [] List.nodup_nil (fun _ h => by cases h) (by simp)

theorem executeAll_ds {s : Struct} (k : StructOk s) (hn : s.storage.Nodup) (o : Oracle) (rank : Pid → Nat)
    (hr : ∀ c p, p ∈ s.graph.parentsOf c → rank p < rank c) (d : Dyn) :
    DS s d (executeAll s Variant.repaired o d) := by
  unfold executeAll
  apply DS.foldl
  intro d p
  split
  · exact execute_top_ds k hn o rank hr d p true
  · exact DS.refl s d

theorem foldl_congr_mem {α β} (g g' : β → α → β) : ∀ (l : List α) (b : β), (∀ b, ∀ x ∈ l, g b x = g' b x) →
    l.foldl g b = l.foldl g' b
  | [], _, _ => rfl
  | x :: l, b, h => by
    simp only [List.foldl_cons]
    rw [h b x List.mem_cons_self]
    exact foldl_congr_mem g g' l _ (fun b y hy => h b y (List.mem_cons_of_mem _ hy))

/-- **`Execute` does not depend on its fuel** above the number of stored pictograms not yet on the
recursion stack: its `0` case is not reached (any variant, any oracle, any dynamic state) -/
theorem execute_fuel_indep {s : Struct} (v : Variant) (o : Oracle) (opSub : ∀ p ∈ s.opKeys, p ∈ s.storage)
    (rank : Pid → Nat) (hr : ∀ c p, p ∈ s.graph.parentsOf c → rank p < rank c) :
    ∀ (f f' : Nat) (d : Dyn) (p : Pid) (a : Bool) (vis : List Pid), vis.Nodup →
      (∀ x ∈ vis, x ∈ s.storage ∧ rank p < rank x) → s.storage.length < vis.length + f → s.storage.length < vis.length + f' →
      execute s v o f d p a = execute s v o f' d p a
  | 0, _, d, p, a, vis, hv, hvis, hlen, _ => by
    exfalso
    have := nodup_length_le_of_subset vis s.storage hv (fun x hx => (hvis x hx).1)
    omega
  | _ + 1, 0, d, p, a, vis, hv, hvis, _, hlen => by
    exfalso
    have := nodup_length_le_of_subset vis s.storage hv (fun x hx => (hvis x hx).1)
    omega
  | f + 1, f' + 1, d, p, a, vis, hv, hvis, hlen, hlen' => by
    rw [execute_succ, execute_succ]
    split
    · rfl
    · rename_i hop
      have hpo : p ∈ s.opKeys := by simpa [Struct.isOperable] using hop
      have hpv : p ∉ vis := fun h => Nat.lt_irrefl _ (hvis p h).2
      congr 1
      apply foldl_congr_mem
      intro acc q hqm
      have hq := hr p q hqm
      have e : execute s v o f acc.1 q false = execute s v o f' acc.1 q false := by
        refine execute_fuel_indep v o opSub rank hr f f' acc.1 q false (p :: vis) (List.nodup_cons.2 ⟨hpv, hv⟩) ?_ ?_ ?_
        · intro x hx
          rcases List.mem_cons.1 hx with rfl | hx'
          · exact ⟨opSub _ hpo, hq⟩
          · exact ⟨(hvis x hx').1, Nat.lt_trans hq (hvis x hx').2⟩
        · simp only [List.length_cons]; omega
        · simp only [List.length_cons]; omega
      unfold prepStep
      rw [e]

/-! ## "save all" before a reload -/

theorem saveAll_ds {s : Struct} (g : GraphOk s) (hn : s.storage.Nodup) (o : Oracle) (l : List Pid) (d : Dyn) :
    DS s d (l.foldl (fun d p => updateSync s o (fuelOf d) d p) d) :=
  DS.foldl _ (fun d p => updateSync_ds g hn o d p) l d

end CCVerif.Oss
