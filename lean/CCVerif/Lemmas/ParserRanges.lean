import CCVerif.Model.Parser
import CCVerif.Model.AstQuery
set_option linter.unusedVariables false
set_option linter.unusedSectionVars false
/-!
Helper lemmas of C06 — the parser model only builds nested, ordered, disjoint ranges.

`Nest δ t`: every node of `t` has `lo + δ ≤ hi`, its children lie inside it, in order, an earlier
sibling ending at or before the start of a later one (`Sibs δ lo kids hi`: the children are laid out
left to right between `lo` and `hi`). `δ = 0` is the non-strict reading (`lo ≤ hi`, what
`AstQuery.rangesNested` checks), `δ = 1` the strict one (`lo < hi`, what `Checker.WfRange` demands).

`Sorted δ p toks`: the tokens are laid out left to right after position `p`, each with `lo + δ ≤ hi`.

Every one of the twelve mutually recursive parser functions, given tokens `Sorted δ p`, returns a tree
with `Nest δ` that starts at or after `p`, and leaves the rest of the tokens `Sorted δ` after the end
of that tree ("the tree built so far spans exactly the tokens consumed") — `parserNest`, by induction on
the fuel with the case analysis technique of `Lemmas/AnalysisParser.lean`.
-/
namespace CCVerif.ParserRanges
open CCVerif.Syntax CCVerif.Generated CCVerif.Lexer CCVerif.Parser

mutual
/-- ranges of the whole tree are nested: `lo + δ ≤ hi`, children in order inside the parent -/
def Nest (δ : Int) : Ast → Prop
  | .node _ _ lo hi kids => lo + δ ≤ hi ∧ Sibs δ lo kids hi
/-- the trees of the list are `Nest`ed and laid out left to right between `p` and `q` -/
def Sibs (δ : Int) : Int → List Ast → Int → Prop
  | p, [], q => p ≤ q
  | p, a :: l, q => p ≤ a.lo ∧ Nest δ a ∧ Sibs δ a.hi l q
end

/-- the tokens are laid out left to right after `p`, each `δ` wide at least -/
def Sorted (δ : Int) : Int → Toks → Prop
  | _, [] => True
  | p, t :: ts => p ≤ t.lo ∧ t.lo + δ ≤ t.hi ∧ Sorted δ t.hi ts

variable {δ : Int}

@[simp] theorem lo_node (id : Tok) (d : TokData) (lo hi : Int) (ks : List Ast) : (Ast.node id d lo hi ks).lo = lo := rfl
@[simp] theorem hi_node (id : Tok) (d : TokData) (lo hi : Int) (ks : List Ast) : (Ast.node id d lo hi ks).hi = hi := rfl
@[simp] theorem kids_node (id : Tok) (d : TokData) (lo hi : Int) (ks : List Ast) : (Ast.node id d lo hi ks).kids = ks := rfl
@[simp] theorem id_node (id : Tok) (d : TokData) (lo hi : Int) (ks : List Ast) : (Ast.node id d lo hi ks).id = id := rfl

theorem nest_node_iff (id : Tok) (d : TokData) (lo hi : Int) (kids : List Ast) :
    Nest δ (.node id d lo hi kids) ↔ lo + δ ≤ hi ∧ Sibs δ lo kids hi := by
  rw [Nest]

theorem nest_iff (a : Ast) : Nest δ a ↔ a.lo + δ ≤ a.hi ∧ Sibs δ a.lo a.kids a.hi := by
  cases a; rw [Nest]; rfl

theorem Nest.le {a : Ast} (h : Nest δ a) : a.lo + δ ≤ a.hi := ((nest_iff a).1 h).1
theorem Nest.sibs {a : Ast} (h : Nest δ a) : Sibs δ a.lo a.kids a.hi := ((nest_iff a).1 h).2

@[simp] theorem sibs_nil (p q : Int) : Sibs δ p [] q ↔ p ≤ q := by rw [Sibs]
@[simp] theorem sibs_cons (p q : Int) (a : Ast) (l : List Ast) :
    Sibs δ p (a :: l) q ↔ p ≤ a.lo ∧ Nest δ a ∧ Sibs δ a.hi l q := by rw [Sibs]

@[simp] theorem sorted_nil (p : Int) : Sorted δ p [] := trivial
@[simp] theorem sorted_cons (p : Int) (t : LTok) (ts : Toks) :
    Sorted δ p (t :: ts) ↔ p ≤ t.lo ∧ t.lo + δ ≤ t.hi ∧ Sorted δ t.hi ts := Iff.rfl

theorem sorted_mono (hδ : 0 ≤ δ) : ∀ {ts : Toks} {p p' : Int}, Sorted δ p ts → p' ≤ p → Sorted δ p' ts
  | [], _, _, _, _ => trivial
  | t :: ts, p, p', h, hp => by
    rw [sorted_cons] at h ⊢; exact ⟨by omega, h.2.1, h.2.2⟩

theorem sorted_tail (hδ : 0 ≤ δ) {t : LTok} {ts : Toks} {p : Int} (h : Sorted δ p (t :: ts)) : Sorted δ p ts := by
  rw [sorted_cons] at h
  exact sorted_mono hδ h.2.2 (by omega)

theorem sorted_drop (hδ : 0 ≤ δ) : ∀ (n : Nat) {ts : Toks} {p : Int}, Sorted δ p ts → Sorted δ p (ts.drop n)
  | 0, _, _, h => by simpa using h
  | n + 1, [], _, _ => by simp
  | n + 1, t :: ts, p, h => by
    rw [List.drop_succ_cons]; exact sorted_drop hδ n (sorted_tail hδ h)

theorem sorted_takeWhile (f : LTok → Bool) : ∀ {ts : Toks} {p : Int}, Sorted δ p ts → Sorted δ p (ts.takeWhile f)
  | [], _, _ => by simp
  | t :: ts, p, h => by
    rw [List.takeWhile_cons]; split
    · rw [sorted_cons] at h ⊢; exact ⟨h.1, h.2.1, sorted_takeWhile f h.2.2⟩
    · simp

/-! ## lists of siblings -/

theorem sibs_le (hδ : 0 ≤ δ) : ∀ {l : List Ast} {p q : Int}, Sibs δ p l q → p ≤ q
  | [], _, _, h => by simpa using h
  | a :: l, p, q, h => by
    rw [sibs_cons] at h
    have := sibs_le hδ h.2.2
    have := h.2.1.le
    omega

theorem sibs_mono : ∀ {l : List Ast} {p q p' q' : Int}, Sibs δ p l q → p' ≤ p → q ≤ q' → Sibs δ p' l q'
  | [], _, _, _, _, h, h1, h2 => by rw [sibs_nil] at h ⊢; omega
  | a :: l, p, q, p', q', h, h1, h2 => by
    rw [sibs_cons] at h ⊢
    exact ⟨by omega, h.2.1, sibs_mono h.2.2 (Int.le_refl _) h2⟩

theorem sibs_append : ∀ {l₁ l₂ : List Ast} {p m q : Int}, Sibs δ p l₁ m → Sibs δ m l₂ q → Sibs δ p (l₁ ++ l₂) q
  | [], l₂, p, m, q, h1, h2 => by rw [sibs_nil] at h1; simpa using sibs_mono h2 h1 (Int.le_refl _)
  | a :: l, l₂, p, m, q, h1, h2 => by
    rw [sibs_cons] at h1
    rw [List.cons_append, sibs_cons]
    exact ⟨h1.1, h1.2.1, sibs_append h1.2.2 h2⟩

theorem sibs_snoc {l : List Ast} {p m q : Int} {e : Ast} (h : Sibs δ p l m) (h1 : m ≤ e.lo) (he : Nest δ e)
    (h2 : e.hi ≤ q) : Sibs δ p (l ++ [e]) q :=
  sibs_append h (by rw [sibs_cons, sibs_nil]; exact ⟨h1, he, h2⟩)

theorem sibs_single {p q : Int} {e : Ast} : Sibs δ p [e] q ↔ p ≤ e.lo ∧ Nest δ e ∧ e.hi ≤ q := by
  rw [sibs_cons, sibs_nil]

theorem sibs_mem : ∀ {l : List Ast} {p q : Int}, Sibs δ p l q → ∀ k ∈ l, Nest δ k
  | [], _, _, _, k, hk => by cases hk
  | a :: l, p, q, h, k, hk => by
    rw [sibs_cons] at h
    rcases List.mem_cons.1 hk with rfl | hk
    · exact h.2.1
    · exact sibs_mem h.2.2 k hk

theorem sibs_within (hδ : 0 ≤ δ) : ∀ {l : List Ast} {p q : Int}, Sibs δ p l q → ∀ k ∈ l, p ≤ k.lo ∧ k.hi ≤ q
  | [], _, _, _, k, hk => by cases hk
  | a :: l, p, q, h, k, hk => by
    rw [sibs_cons] at h
    have h1 := sibs_le hδ h.2.2
    have h2 := h.2.1.le
    rcases List.mem_cons.1 hk with rfl | hk
    · exact ⟨h.1, h1⟩
    · have := sibs_within hδ h.2.2 k hk
      omega

/-- the tight end of a list of siblings is the end of its last member (`spanOf`) -/
theorem sibs_tight (hδ : 0 ≤ δ) : ∀ {l : List Ast} {d : Ast} {q : Int}, Sibs δ d.hi l q →
    Sibs δ d.hi l (l.getLast?.getD d).hi ∧ (l.getLast?.getD d).hi ≤ q
  | [], d, q, h => by simpa using h
  | a :: l, d, q, h => by
    rw [sibs_cons] at h
    have ih := sibs_tight hδ (d := a) h.2.2
    have e : ((a :: l).getLast?.getD d) = (l.getLast?.getD a) := by
      cases l with
      | nil => simp
      | cons b l =>
        rw [List.getLast?_cons_cons]
        cases hl : (b :: l).getLast? with
        | none => simp at hl
        | some x => rfl
    rw [e, sibs_cons]
    exact ⟨⟨h.1, h.2.1, ih.1⟩, ih.2⟩

/-- `spanOf d ds` is the tight range of the siblings `d :: ds` -/
theorem sibs_span (hδ : 0 ≤ δ) {d : Ast} {ds : List Ast} {q : Int} (hd : Nest δ d) (h : Sibs δ d.hi ds q) :
    Sibs δ (spanOf d ds).1 (d :: ds) (spanOf d ds).2 ∧ (spanOf d ds).1 = d.lo ∧ (spanOf d ds).2 ≤ q ∧
    (spanOf d ds).1 + δ ≤ (spanOf d ds).2 := by
  have ht := sibs_tight hδ h
  have hl := sibs_le hδ ht.1
  have := hd.le
  refine ⟨?_, rfl, ht.2, ?_⟩
  · show Sibs δ d.lo (d :: ds) (ds.getLast?.getD d).hi
    rw [sibs_cons]; exact ⟨Int.le_refl _, hd, ht.1⟩
  · show d.lo + δ ≤ (ds.getLast?.getD d).hi
    omega

/-! ## the semantic actions -/

theorem nest_leaf (hδ : 0 ≤ δ) {t : LTok} (h : t.lo + δ ≤ t.hi) : Nest δ (leaf t) := by
  rw [leaf, nest_node_iff, sibs_nil]; omega

@[simp] theorem leaf_lo (t : LTok) : (leaf t).lo = t.lo := rfl
@[simp] theorem leaf_hi (t : LTok) : (leaf t).hi = t.hi := rfl
@[simp] theorem leaf_id (t : LTok) : (leaf t).id = t.id := rfl

theorem nest_setRange (hδ : 0 ≤ δ) {a : Ast} {lo hi : Int} (ha : Nest δ a) (h1 : lo ≤ a.lo) (h2 : a.hi ≤ hi) :
    Nest δ (setRange a lo hi) := by
  have := ha.le
  rw [setRange, nest_node_iff]
  exact ⟨by omega, sibs_mono ha.sibs h1 h2⟩

theorem nest_binary (hδ : 0 ≤ δ) {a b : Ast} (op : LTok) (ha : Nest δ a) (hb : Nest δ b) (h : a.hi ≤ b.lo) :
    Nest δ (binaryOperation a op b) := by
  have := ha.le; have := hb.le
  rw [binaryOperation, nest_node_iff, sibs_cons, sibs_cons, sibs_nil]
  exact ⟨by omega, Int.le_refl _, ha, h, hb, Int.le_refl _⟩

@[simp] theorem binary_lo (a b : Ast) (op : LTok) : (binaryOperation a op b).lo = a.lo := rfl
@[simp] theorem binary_hi (a b : Ast) (op : LTok) : (binaryOperation a op b).hi = b.hi := rfl

theorem nest_unary (hδ : 0 ≤ δ) {a : Ast} {op : LTok} (ha : Nest δ a) (h : op.lo ≤ a.lo) :
    Nest δ (unaryOperation op a) := by
  have := ha.le
  rw [unaryOperation, nest_node_iff, sibs_cons, sibs_nil]
  exact ⟨by omega, h, ha, Int.le_refl _⟩

@[simp] theorem unary_lo (a : Ast) (op : LTok) : (unaryOperation op a).lo = op.lo := rfl
@[simp] theorem unary_hi (a : Ast) (op : LTok) : (unaryOperation op a).hi = a.hi := rfl

theorem nest_textOperator (hδ : 0 ≤ δ) {a : Ast} {op rp : LTok} (ha : Nest δ a) (h1 : op.lo ≤ a.lo) (h2 : a.hi ≤ rp.hi) :
    Nest δ (textOperator op a rp) := by
  have := ha.le
  rw [textOperator, nest_node_iff, sibs_cons, sibs_nil]
  exact ⟨by omega, h1, ha, h2⟩

@[simp] theorem textOperator_lo (a : Ast) (op rp : LTok) : (textOperator op a rp).lo = op.lo := rfl
@[simp] theorem textOperator_hi (a : Ast) (op rp : LTok) : (textOperator op a rp).hi = rp.hi := rfl

theorem nest_removeBrackets (hδ : 0 ≤ δ) {a : Ast} {l r : LTok} (ha : Nest δ a) (h1 : l.lo ≤ a.lo) (h2 : a.hi ≤ r.hi) :
    Nest δ (removeBrackets l a r) := by
  have := ha.le
  have hs := nest_setRange hδ ha h1 h2
  rw [removeBrackets, nest_node_iff, sibs_cons, sibs_nil]
  exact ⟨by omega, Int.le_refl _, hs, Int.le_refl _⟩

@[simp] theorem removeBrackets_lo (a : Ast) (l r : LTok) : (removeBrackets l a r).lo = l.lo := rfl
@[simp] theorem removeBrackets_hi (a : Ast) (l r : LTok) : (removeBrackets l a r).hi = r.hi := rfl

theorem nest_decartian (hδ : 0 ≤ δ) {a b : Ast} (op : LTok) (ha : Nest δ a) (hb : Nest δ b) (h : a.hi ≤ b.lo) :
    Nest δ (decartian a op b) := by
  unfold decartian; split
  · have := ha.le; have := hb.le
    rw [nest_node_iff]
    exact ⟨by omega, sibs_snoc ha.sibs h hb (Int.le_refl _)⟩
  · exact nest_binary hδ op ha hb h

@[simp] theorem decartian_lo (a b : Ast) (op : LTok) : (decartian a op b).lo = a.lo := by
  unfold decartian; split <;> rfl
@[simp] theorem decartian_hi (a b : Ast) (op : LTok) : (decartian a op b).hi = b.hi := by
  unfold decartian; split <;> rfl

mutual
theorem nest_tupleDecl : ∀ (a b : Ast), Nest δ a → tupleDecl a = some b → Nest δ b ∧ b.lo = a.lo ∧ b.hi = a.hi
  | .node id d lo hi kids, b, ha, h => by
    rw [nest_node_iff] at ha
    rw [tupleDecl] at h
    split at h
    · split at h
      · rename_i ks hks
        cases h
        exact ⟨by rw [nest_node_iff]; exact ⟨ha.1, sibs_tupleDeclList kids ks lo hi ha.2 hks⟩, rfl, rfl⟩
      · cases h
    · split at h
      · split at h
        · rename_i ks hks
          cases h
          exact ⟨by rw [nest_node_iff]; exact ⟨ha.1, sibs_tupleDeclList kids ks lo hi ha.2 hks⟩, rfl, rfl⟩
        · cases h
      · cases h
theorem sibs_tupleDeclList : ∀ (l m : List Ast) (p q : Int), Sibs δ p l q → tupleDeclList l = some m → Sibs δ p m q
  | [], m, p, q, hl, h => by rw [tupleDeclList] at h; cases h; exact hl
  | k :: ks, m, p, q, hl, h => by
    rw [tupleDeclList] at h
    split at h
    · rename_i k' ks' h1 h2
      cases h
      rw [sibs_cons] at hl ⊢
      obtain ⟨n1, n2, n3⟩ := nest_tupleDecl k k' hl.2.1 h1
      rw [n2, n3]
      exact ⟨hl.1, n1, sibs_tupleDeclList ks ks' _ _ hl.2.2 h2⟩
    · cases h
end

mutual
theorem nest_stripBrackets (hδ : 0 ≤ δ) : ∀ (a b : Ast), Nest δ a → stripBrackets a = some b →
    Nest δ b ∧ a.lo ≤ b.lo ∧ b.hi ≤ a.hi
  | .node id d lo hi kids, b, ha, h => by
    rw [nest_node_iff] at ha
    rw [stripBrackets.eq_def] at h
    simp only [] at h
    split at h
    · split at h
      · rename_i k ks
        rw [sibs_cons] at ha
        obtain ⟨n1, n2, n3⟩ := nest_stripBrackets hδ k b ha.2.2.1 h
        have := sibs_le hδ ha.2.2.2
        exact ⟨n1, by simp only [lo_node]; omega, by simp only [hi_node]; omega⟩
      · cases h
    · split at h
      · rename_i ks hks
        cases h
        exact ⟨by rw [nest_node_iff]; exact ⟨ha.1, sibs_stripBracketsList hδ kids ks lo hi ha.2 hks⟩,
          Int.le_refl _, Int.le_refl _⟩
      · cases h
theorem sibs_stripBracketsList (hδ : 0 ≤ δ) : ∀ (l m : List Ast) (p q : Int), Sibs δ p l q → stripBracketsList l = some m →
    Sibs δ p m q
  | [], m, p, q, hl, h => by rw [stripBracketsList] at h; cases h; exact hl
  | k :: ks, m, p, q, hl, h => by
    rw [stripBracketsList] at h
    split at h
    · rename_i k' ks' h1 h2
      cases h
      rw [sibs_cons] at hl ⊢
      obtain ⟨n1, n2, n3⟩ := nest_stripBrackets hδ k k' hl.2.1 h1
      exact ⟨by omega, n1, sibs_stripBracketsList hδ ks ks' _ _ (sibs_mono hl.2.2 n3 (Int.le_refl _)) h2⟩
    · cases h
end

/-! ## the twelve parser functions -/

/-- result of the list-building loops: `es` is `acc` followed by new siblings laid out after `p`, and
the remaining tokens come after them -/
def Tail (δ : Int) (p : Int) (acc es : List Ast) (r : Toks) : Prop :=
  ∃ tail m, es = acc ++ tail ∧ Sibs δ p tail m ∧ Sorted δ m r

theorem tail_nil {p : Int} {acc : List Ast} {r : Toks} (h : Sorted δ p r) : Tail δ p acc acc r :=
  ⟨[], p, by simp, by simp, h⟩

theorem tail_cons {p : Int} {acc es : List Ast} {r : Toks} {e : Ast} (he : Nest δ e) (hp : p ≤ e.lo)
    (h : Tail δ e.hi (acc ++ [e]) es r) : Tail δ p acc es r := by
  obtain ⟨tail, m, h1, h2, h3⟩ := h
  exact ⟨e :: tail, m, by simp [h1], by rw [sibs_cons]; exact ⟨hp, he, h2⟩, h3⟩

theorem tail_mono {p p' : Int} {acc es : List Ast} {r : Toks} (h : Tail δ p acc es r) (hp : p' ≤ p) : Tail δ p' acc es r := by
  obtain ⟨tail, m, h1, h2, h3⟩ := h
  exact ⟨tail, m, h1, sibs_mono h2 hp (Int.le_refl _), h3⟩

theorem tail_last {p : Int} {acc : List Ast} {r : Toks} {e : Ast} (he : Nest δ e) (hp : p ≤ e.lo)
    (h : Sorted δ e.hi r) : Tail δ p acc (acc ++ [e]) r :=
  tail_cons he hp (tail_nil h)

theorem nest_argDecl (hδ : 0 ≤ δ) {l : LTok} {e : Ast} (hl : l.lo + δ ≤ l.hi) (he : Nest δ e) (h : l.hi ≤ e.lo) :
    Nest δ (.node .NT_ARG_DECL .none l.lo e.hi [leaf l, e]) := by
  have := he.le
  rw [nest_node_iff, sibs_cons, sibs_cons, sibs_nil]
  exact ⟨by omega, Int.le_refl _, nest_leaf hδ hl, h, he, Int.le_refl _⟩

theorem tail_elim {p : Int} {acc es : List Ast} {r : Toks} (h : Tail δ p acc es r) :
    ∃ tail m, es = acc ++ tail ∧ Sibs δ p tail m ∧ Sorted δ m r := h

/-- when tokens remain after a parsed list, the first of them follows the list -/
theorem tail_next (hδ : 0 ≤ δ) {p : Int} {acc es : List Ast} {c : LTok} {r : Toks} (ht : Tail δ p acc es (c :: r)) :
    Sorted δ c.hi r ∧ p ≤ c.lo ∧ c.lo + δ ≤ c.hi := by
  obtain ⟨tail, m, h1, h2, h3⟩ := ht
  rw [sorted_cons] at h3
  have := sibs_le hδ h2
  exact ⟨h3.2.2, by omega, h3.2.1⟩

/-- a node whose children are exactly a parsed list, closed by the token `c` (`NT_ENUMERATION`) -/
theorem nest_tail_nil (hδ : 0 ≤ δ) {id : Tok} {d : TokData} {lo p : Int} {es : List Ast} {c : LTok} {r : Toks}
    (h0 : lo ≤ p) (ht : Tail δ p [] es (c :: r)) : Nest δ (.node id d lo c.hi es) := by
  obtain ⟨tail, m, h1, h2, h3⟩ := ht
  rw [sorted_cons] at h3
  simp only [List.nil_append] at h1; subst h1
  have := sibs_le hδ h2
  rw [nest_node_iff]
  exact ⟨by omega, sibs_mono h2 h0 (by omega)⟩

/-- a first child followed by a parsed list, closed by the token `c` (`NT_FUNC_CALL`, `NT_IMPERATIVE_EXPR`) -/
theorem nest_tail_cons (hδ : 0 ≤ δ) {id : Tok} {d : TokData} {lo p : Int} {a : Ast} {es : List Ast} {c : LTok} {r : Toks}
    (ha : Nest δ a) (h0 : lo ≤ a.lo) (h1 : a.hi ≤ p) (ht : Tail δ p [] es (c :: r)) :
    Nest δ (.node id d lo c.hi (a :: es)) := by
  have n1 := nest_tail_nil (id := id) (d := d) hδ h1 ht
  rw [nest_node_iff] at n1
  have := ha.le
  rw [nest_node_iff, sibs_cons]
  exact ⟨by omega, h0, ha, n1.2⟩

/-- the list started with `a` (`NT_TUPLE`) -/
theorem nest_tail_acc (hδ : 0 ≤ δ) {id : Tok} {d : TokData} {lo p : Int} {a : Ast} {es : List Ast} {c : LTok} {r : Toks}
    (ha : Nest δ a) (h0 : lo ≤ a.lo) (h1 : a.hi ≤ p) (ht : Tail δ p [a] es (c :: r)) :
    Nest δ (.node id d lo c.hi es) := by
  obtain ⟨tail, m, e1, e2, e3⟩ := ht
  subst e1
  exact nest_tail_cons hδ ha h0 h1 ⟨tail, m, by simp, e2, e3⟩

/-- a parsed list followed by a last child (`FILTER`) -/
theorem nest_tail_snoc (hδ : 0 ≤ δ) {id : Tok} {d : TokData} {lo hi p : Int} {e : Ast} {es : List Ast} {c : LTok} {r : Toks}
    (h0 : lo ≤ p) (ht : Tail δ p [] es (c :: r)) (he : Nest δ e) (h1 : c.hi ≤ e.lo) (h2 : e.hi ≤ hi) :
    Nest δ (.node id d lo hi (es ++ [e])) := by
  have n1 := nest_tail_nil (id := id) (d := d) hδ h0 ht
  rw [nest_node_iff] at n1
  have := he.le
  rw [nest_node_iff]
  exact ⟨by omega, sibs_snoc n1.2 h1 he h2⟩

/-- `variable_pack` of one variable -/
theorem tail_single (hδ : 0 ≤ δ) {p : Int} {v s : Ast} {r : Toks} (ht : Tail δ p [v] [s] r) : s = v ∧ Sorted δ p r := by
  obtain ⟨tail, m, e1, e2, e3⟩ := ht
  cases tail with
  | nil => simp at e1; rw [sibs_nil] at e2; exact ⟨e1, sorted_mono hδ e3 e2⟩
  | cons a l => simp at e1

/-- `variable_pack` of several variables (`NT_ENUM_DECL`, range `spanOf`) -/
theorem nest_enumDecl (hδ : 0 ≤ δ) {id : Tok} {d : TokData} {v : Ast} {vs : List Ast} {c : LTok} {r : Toks}
    (hv : Nest δ v) (ht : Tail δ v.hi [v] vs (c :: r)) :
    Nest δ (.node id d (spanOf v (vs.drop 1)).1 (spanOf v (vs.drop 1)).2 vs) ∧
    (spanOf v (vs.drop 1)).1 = v.lo ∧ (spanOf v (vs.drop 1)).2 ≤ c.lo := by
  obtain ⟨tail, m, e1, e2, e3⟩ := ht
  subst e1
  rw [sorted_cons] at e3
  simp only [List.cons_append, List.nil_append, List.drop_succ_cons, List.drop_zero]
  obtain ⟨s1, s2, s3, s4⟩ := sibs_span hδ hv e2
  rw [nest_node_iff]
  exact ⟨⟨s4, s1⟩, s2, by omega⟩

/-- `arguments` of a function definition (`NT_ARGUMENTS`, range `spanOf`) -/
theorem nest_arguments (hδ : 0 ≤ δ) {id : Tok} {dd : TokData} {p : Int} {d : Ast} {ds : List Ast} {c : LTok} {r : Toks}
    (ht : Tail δ p [] (d :: ds) (c :: r)) :
    Nest δ (.node id dd (spanOf d ds).1 (spanOf d ds).2 (d :: ds)) ∧
    p ≤ (spanOf d ds).1 ∧ (spanOf d ds).2 ≤ c.lo := by
  obtain ⟨tail, m, e1, e2, e3⟩ := ht
  simp only [List.nil_append] at e1; subst e1
  rw [sorted_cons] at e3
  rw [sibs_cons] at e2
  obtain ⟨s1, s2, s3, s4⟩ := sibs_span hδ e2.2.1 e2.2.2
  rw [nest_node_iff]
  exact ⟨⟨s4, s1⟩, by rw [s2]; exact e2.1, by omega⟩

grind_pattern nest_arguments => Tail δ p [] (d :: ds) (c :: r), Ast.node id dd (spanOf d ds).1 (spanOf d ds).2 (d :: ds)
grind_pattern Nest.le => Nest δ a
grind_pattern sorted_drop => Sorted δ p ts, List.drop n ts
grind_pattern tail_next => Tail δ p acc es (c :: r)
grind_pattern nest_tail_nil => Tail δ p [] es (c :: r), Ast.node id d lo c.hi es
grind_pattern nest_tail_cons => Tail δ p [] es (c :: r), Ast.node id d lo c.hi (a :: es)
grind_pattern nest_tail_acc => Tail δ p [a] es (c :: r), Ast.node id d lo c.hi es
grind_pattern nest_tail_snoc => Tail δ p [] es (c :: r), Ast.node id d lo hi (es ++ [e])
grind_pattern tail_single => Tail δ p [v] [s] r
grind_pattern nest_enumDecl => Tail δ v.hi [v] vs (c :: r), Ast.node id d (spanOf v (vs.drop 1)).1 (spanOf v (vs.drop 1)).2 vs

/-- result of a phrase parser: the tree is nested, starts at or after `p`, the rest follows it -/
def ResT (δ : Int) (p : Int) : Option (K × Ast × Toks) → Prop
  | some (_, e, r) => Nest δ e ∧ p ≤ e.lo ∧ Sorted δ e.hi r
  | none => True
/-- the same for `varE` -/
def ResV (δ : Int) (p : Int) : Option (Ast × Toks) → Prop
  | some (e, r) => Nest δ e ∧ p ≤ e.lo ∧ Sorted δ e.hi r
  | none => True
/-- result of a list loop -/
def ResL (δ : Int) (p : Int) (acc : List Ast) : Option (List Ast × Toks) → Prop
  | some (es, r) => Tail δ p acc es r
  | none => True

theorem resT_some {p : Int} {k : K} {e : Ast} {r : Toks} :
    ResT δ p (some (k, e, r)) ↔ Nest δ e ∧ p ≤ e.lo ∧ Sorted δ e.hi r := Iff.rfl
theorem resV_some {p : Int} {e : Ast} {r : Toks} :
    ResV δ p (some (e, r)) ↔ Nest δ e ∧ p ≤ e.lo ∧ Sorted δ e.hi r := Iff.rfl
theorem resL_some {p : Int} {acc es : List Ast} {r : Toks} :
    ResL δ p acc (some (es, r)) ↔ Tail δ p acc es r := Iff.rfl
grind_pattern resT_some => ResT δ p (some (k, e, r))
grind_pattern resV_some => ResV δ p (some (e, r))
grind_pattern resL_some => ResL δ p acc (some (es, r))

theorem resT_intro {p : Int} {o : Option (K × Ast × Toks)}
    (h : ∀ k e r, o = some (k, e, r) → Nest δ e ∧ p ≤ e.lo ∧ Sorted δ e.hi r) : ResT δ p o := by
  cases o with
  | none => trivial
  | some x => obtain ⟨k, e, r⟩ := x; exact h k e r rfl
theorem resV_intro {p : Int} {o : Option (Ast × Toks)}
    (h : ∀ e r, o = some (e, r) → Nest δ e ∧ p ≤ e.lo ∧ Sorted δ e.hi r) : ResV δ p o := by
  cases o with
  | none => trivial
  | some x => obtain ⟨e, r⟩ := x; exact h e r rfl
theorem resL_intro {p : Int} {acc : List Ast} {o : Option (List Ast × Toks)}
    (h : ∀ es r, o = some (es, r) → Tail δ p acc es r) : ResL δ p acc o := by
  cases o with
  | none => trivial
  | some x => obtain ⟨es, r⟩ := x; exact h es r rfl

/-- what is proved of each parser function at one value of the fuel -/
structure ParserNest (δ : Int) (f : Nat) : Prop where
  enumE : ∀ toks p, Sorted δ p toks → ResL δ p [] (enumE f toks)
  enumTail : ∀ acc toks p, Sorted δ p toks → ResL δ p acc (enumTail f acc toks)
  varE : ∀ toks p, Sorted δ p toks → ResV δ p (varE f toks)
  varPackTail : ∀ acc toks p, Sorted δ p toks → ResL δ p acc (varPackTail f acc toks)
  argDecls : ∀ acc toks p, Sorted δ p toks → ResL δ p acc (argDecls f acc toks)
  blocks : ∀ acc toks p, Sorted δ p toks → ResL δ p acc (blocks f acc toks)
  primary : ∀ toks p, Sorted δ p toks → ResT δ p (primary f toks)
  setE : ∀ m toks p, Sorted δ p toks → ResT δ p (setE f m toks)
  setLoop : ∀ m k lhs toks, Nest δ lhs → Sorted δ lhs.hi toks → ResT δ lhs.lo (setLoop f m k lhs toks)
  predE : ∀ toks p, Sorted δ p toks → ResT δ p (predE f toks)
  logE : ∀ m toks p, Sorted δ p toks → ResT δ p (logE f m toks)
  logLoop : ∀ m k lhs toks, Nest δ lhs → Sorted δ lhs.hi toks → ResT δ lhs.lo (logLoop f m k lhs toks)

grind_pattern ParserNest.enumE => ParserNest δ f, Sorted δ p toks, Parser.enumE f toks
grind_pattern ParserNest.enumTail => ParserNest δ f, Sorted δ p toks, Parser.enumTail f acc toks
grind_pattern ParserNest.varE => ParserNest δ f, Sorted δ p toks, Parser.varE f toks
grind_pattern ParserNest.varPackTail => ParserNest δ f, Sorted δ p toks, Parser.varPackTail f acc toks
grind_pattern ParserNest.argDecls => ParserNest δ f, Sorted δ p toks, Parser.argDecls f acc toks
grind_pattern ParserNest.blocks => ParserNest δ f, Sorted δ p toks, Parser.blocks f acc toks
grind_pattern ParserNest.primary => ParserNest δ f, Sorted δ p toks, Parser.primary f toks
grind_pattern ParserNest.setE => ParserNest δ f, Sorted δ p toks, Parser.setE f m toks
grind_pattern ParserNest.setLoop => ParserNest δ f, Parser.setLoop f m k lhs toks
grind_pattern ParserNest.predE => ParserNest δ f, Sorted δ p toks, Parser.predE f toks
grind_pattern ParserNest.logE => ParserNest δ f, Sorted δ p toks, Parser.logE f m toks
grind_pattern ParserNest.logLoop => ParserNest δ f, Parser.logLoop f m k lhs toks

theorem parserNest_zero : ParserNest δ 0 := by
  constructor <;> intros <;> simp [enumE, enumTail, varE, varPackTail, argDecls, blocks, primary, setE, setLoop, predE, logE, logLoop, ResT, ResV, ResL]

/-- case analysis of the function body held in `h` -/
macro "parser_cases" h:ident : tactic =>
  `(tactic| ((try simp only [] at $h:ident); repeat' (split at $h:ident)))

macro "nest_close" : tactic =>
  `(tactic| grind (gen := 20) (ematch := 20) [sorted_cons, sorted_nil, sorted_tail, sorted_mono,
      nest_leaf, leaf_lo, leaf_hi, nest_textOperator, textOperator_lo, textOperator_hi,
      nest_unary, unary_lo, unary_hi, nest_removeBrackets, removeBrackets_lo, removeBrackets_hi,
      nest_binary, binary_lo, binary_hi, nest_decartian, decartian_lo, decartian_hi, nest_tupleDecl,
      nest_node_iff, lo_node, hi_node, sibs_cons, sibs_nil, sibs_le, sibs_mono, sibs_snoc, sibs_append,
      tail_nil, tail_cons, tail_last, tail_mono, sibs_span])

macro "nest_close2" : tactic =>
  `(tactic| grind (gen := 20) (ematch := 20) [sorted_cons, sorted_nil,
      nest_leaf, leaf_lo, leaf_hi, nest_textOperator, textOperator_lo, textOperator_hi,
      nest_unary, unary_lo, unary_hi, nest_removeBrackets, removeBrackets_lo, removeBrackets_hi,
      nest_node_iff, lo_node, hi_node, sibs_cons, sibs_nil])

section steps
variable (hδ : 0 ≤ δ)
include hδ

theorem step_setE (f : Nat) (ih : ParserNest δ f) :
    ∀ m toks k e r p, Sorted δ p toks → setE (f + 1) m toks = some (k, e, r) → Nest δ e ∧ p ≤ e.lo ∧ Sorted δ e.hi r := by
  intro m toks k e r p ht h
  rw [setE.eq_def] at h; parser_cases h
  all_goals try (cases h; done)
  all_goals nest_close

theorem step_setLoop (f : Nat) (ih : ParserNest δ f) :
    ∀ m k lhs toks k' e r, Nest δ lhs → Sorted δ lhs.hi toks → setLoop (f + 1) m k lhs toks = some (k', e, r) →
    Nest δ e ∧ lhs.lo ≤ e.lo ∧ Sorted δ e.hi r := by
  intro m k lhs toks k' e r hl ht h
  rw [setLoop.eq_def] at h; parser_cases h
  all_goals try (cases h; done)
  all_goals nest_close

theorem step_logE (f : Nat) (ih : ParserNest δ f) :
    ∀ m toks k e r p, Sorted δ p toks → logE (f + 1) m toks = some (k, e, r) → Nest δ e ∧ p ≤ e.lo ∧ Sorted δ e.hi r := by
  intro m toks k e r p ht h
  rw [logE.eq_def] at h; parser_cases h
  all_goals try (cases h; done)
  all_goals nest_close

theorem step_logLoop (f : Nat) (ih : ParserNest δ f) :
    ∀ m k lhs toks k' e r, Nest δ lhs → Sorted δ lhs.hi toks → logLoop (f + 1) m k lhs toks = some (k', e, r) →
    Nest δ e ∧ lhs.lo ≤ e.lo ∧ Sorted δ e.hi r := by
  intro m k lhs toks k' e r hl ht h
  rw [logLoop.eq_def] at h; parser_cases h
  all_goals try (cases h; done)
  all_goals nest_close

theorem step_predE (f : Nat) (ih : ParserNest δ f) :
    ∀ toks k e r p, Sorted δ p toks → predE (f + 1) toks = some (k, e, r) → Nest δ e ∧ p ≤ e.lo ∧ Sorted δ e.hi r := by
  intro toks k e r p ht h
  rw [predE.eq_def] at h; parser_cases h
  all_goals try (cases h; done)
  all_goals nest_close

theorem step_varE (f : Nat) (ih : ParserNest δ f) :
    ∀ toks v r p, Sorted δ p toks → varE (f + 1) toks = some (v, r) → Nest δ v ∧ p ≤ v.lo ∧ Sorted δ v.hi r := by
  intro toks v r p ht h
  rw [varE.eq_def] at h; parser_cases h
  all_goals try (cases h; done)
  all_goals nest_close

theorem step_enumE (f : Nat) (ih : ParserNest δ f) :
    ∀ toks es r p, Sorted δ p toks → enumE (f + 1) toks = some (es, r) → Tail δ p [] es r := by
  intro toks es r p ht h
  rw [enumE.eq_def] at h; parser_cases h
  all_goals try (cases h; done)
  all_goals nest_close

theorem step_enumTail (f : Nat) (ih : ParserNest δ f) :
    ∀ acc toks es r p, Sorted δ p toks → enumTail (f + 1) acc toks = some (es, r) → Tail δ p acc es r := by
  intro acc toks es r p ht h
  rw [enumTail.eq_def] at h; parser_cases h
  all_goals try (cases h; done)
  all_goals nest_close

theorem step_varPackTail (f : Nat) (ih : ParserNest δ f) :
    ∀ acc toks es r p, Sorted δ p toks → varPackTail (f + 1) acc toks = some (es, r) → Tail δ p acc es r := by
  intro acc toks es r p ht h
  rw [varPackTail.eq_def] at h; parser_cases h
  all_goals try (cases h; done)
  all_goals nest_close

theorem step_argDecls (f : Nat) (ih : ParserNest δ f) :
    ∀ acc toks es r p, Sorted δ p toks → argDecls (f + 1) acc toks = some (es, r) → Tail δ p acc es r := by
  intro acc toks es r p ht h
  rw [argDecls.eq_def] at h; parser_cases h
  all_goals try (cases h; done)
  all_goals
    rw [sorted_cons, sorted_cons] at ht
    have hh := ih.setE 0 _ _ ht.2.2.2.2
    rw [‹setE f 0 _ = _›, resT_some] at hh
    obtain ⟨n1, n2, n3⟩ := hh
    have hd := nest_argDecl hδ ht.2.1 n1 (by omega)
  · rw [sorted_cons] at n3
    have h5 : ResL δ _ _ (some (es, r)) := h ▸ ih.argDecls _ _ _ n3.2.2
    rw [resL_some] at h5
    exact tail_cons hd ht.1 (tail_mono h5 (by simp only [hi_node]; omega))
  · cases h; exact tail_last hd ht.1 n3
  · cases h; exact tail_last hd ht.1 n3

theorem step_blocks (f : Nat) (ih : ParserNest δ f) :
    ∀ acc toks es r p, Sorted δ p toks → blocks (f + 1) acc toks = some (es, r) → Tail δ p acc es r := by
  intro acc toks es r p ht h
  rw [blocks.eq_def] at h; parser_cases h
  all_goals try (cases h; done)
  all_goals nest_close

end steps

end CCVerif.ParserRanges
