import CCVerif.Lemmas.SynthCorrect
import CCVerif.Lemmas.SynthExact
/-!
C12, the SEMANTIC clause: the bridge between the token-level schema content of the C12 models
(`Model/Dedup.lean`: a definition is a sequence of mention / symbol tokens) and the generic analysis
machine (`Model/SchemaGen.lean`).

* `View D` — how an analysis sees a C12 constituent: the kind, and the definition READ from its token
  sequence (`read`: the parser); `View.Compatible`: reading commutes with a renaming of the mention
  tokens (`TranslateRS` on the text = renaming of the tree, C08) and the analysis mentions only names
  that are mention tokens;
* `tokNames`, `ActsLike` — an admissible renaming of the analysis acts like a function on the names of
  a schema; `NoCapture` — the proviso of merge; `NoCaptureReset`;
* `mergeOf_view` — a merged C12 schema, viewed, is a `MergeOf` of the viewed operands;
* `store_substAliases` — `ResetAliases`, viewed, is a renamed store;
* `FragView` (in `Lemmas/SynthCorrectFrag.lean`) is the instance for the definition fragment.
-/
namespace CCVerif.SynthCorrect
open CCVerif.Translation CCVerif.Dedup CCVerif.Merge CCVerif.Synth
open CCVerif.SchemaGen (Analysis Equivariance Lawful ContentOnly entryOf FullyCorrect MergeOf findAliasL)
open CCVerif.Schema (Kind)

/-- how an analysis sees the token-level content -/
structure View (D : Type) where
  kindOf : Nat → Kind
  read : List Tok → D

variable {D I : Type} {A : Analysis D I}

def View.cst (V : View D) (c : Dedup.Cst) : SchemaGen.Cst D :=
  ⟨c.uid, c.alias, V.kindOf c.kind, V.read c.definition⟩

def View.store (V : View D) (l : Schema) : List (SchemaGen.Cst D) := l.map V.cst

/-- the names of the mention tokens of a token sequence -/
def mentionNames (d : List Tok) : List String :=
  d.filterMap fun t => match t with
    | .mention a => some a
    | .sym _ => none

theorem mem_mentionNames {d : List Tok} {n : String} : n ∈ mentionNames d ↔ Tok.mention n ∈ d := by
  unfold mentionNames
  rw [List.mem_filterMap]
  constructor
  · rintro ⟨t, ht, e⟩
    cases t with
    | mention a => simp only [Option.some.injEq] at e; subst e; exact ht
    | sym _ => cases e
  · intro h
    exact ⟨_, h, rfl⟩

/-- reading commutes with renaming, the analysis mentions only mention tokens -/
structure View.Compatible (V : View D) (A : Analysis D I) (Q : Equivariance A) : Prop where
  read_ren : ∀ (r : Q.Ren) (f : String → String) (d : List Tok),
    (∀ n ∈ mentionNames d, f n = Q.app r n) → V.read (d.map (renTok f)) = Q.renD r (V.read d)
  mentions_sub : ∀ (d : List Tok), ∀ n ∈ A.mentions (V.read d), n ∈ mentionNames d

/-- every name of a schema: the aliases and the mention tokens of the definitions -/
def tokNames (l : Schema) : List String := aliases l ++ l.flatMap (fun c => mentionNames c.definition)

theorem alias_mem_tokNames {l : Schema} {c : Dedup.Cst} (hc : c ∈ l) : c.alias ∈ tokNames l :=
  List.mem_append_left _ (List.mem_map.2 ⟨c, hc, rfl⟩)

theorem mention_mem_tokNames {l : Schema} {c : Dedup.Cst} (hc : c ∈ l) {n : String}
    (hn : n ∈ mentionNames c.definition) : n ∈ tokNames l :=
  List.mem_append_right _ (List.mem_flatMap.2 ⟨c, hc, hn⟩)

/-- the admissible renaming `r` acts like `f` on the names of `l` and satisfies the side condition of
the analysis for its constituents -/
structure ActsLike (V : View D) (Q : Equivariance A) (r : Q.Ren) (f : String → String) (l : Schema) : Prop where
  agree : ∀ n ∈ tokNames l, Q.app r n = f n
  good : ∀ c ∈ l, Q.Good r (V.cst c)

/-- `n` is mentioned in `l` (as the analysis sees it) and is no alias of `l` -/
def Dangling (V : View D) (A : Analysis D I) (l : Schema) (n : String) : Prop :=
  n ∉ aliases l ∧ ∃ c ∈ l, n ∈ A.mentions (V.read c.definition)

/-- PROVISO of merge: no name that an operand mentions without resolving it is an alias of the merged
schema (an alias of the other operand, or an alias re-issued to a copy) -/
def NoCapture (V : View D) (A : Analysis D I) (a b mr : Schema) : Prop :=
  ∀ n, Dangling V A a n ∨ Dangling V A b n → n ∉ aliases mr

theorem uids_store (V : View D) (l : Schema) : SchemaGen.uids (V.store l) = Dedup.uids l := by
  unfold SchemaGen.uids View.store Dedup.uids
  rw [List.map_map]; rfl

theorem aliases_store (V : View D) (l : Schema) : (V.store l).map (·.alias) = aliases l := by
  unfold View.store aliases
  rw [List.map_map]; rfl

theorem findAliasL_store_none (V : View D) {l : Schema} {n : String} :
    findAliasL (V.store l) n = none ↔ n ∉ aliases l := by
  rw [SchemaGen.findAliasL_none_iff]
  unfold View.store aliases
  constructor
  · intro h hn
    obtain ⟨c, hc, rfl⟩ := List.mem_map.1 hn
    exact h (V.cst c) (List.mem_map.2 ⟨c, hc, rfl⟩) rfl
  · intro h c' hc' e
    obtain ⟨c, hc, rfl⟩ := List.mem_map.1 hc'
    exact h (List.mem_map.2 ⟨c, hc, e⟩)

theorem image_of_lookup' {t : Tr} {k v : Nat} (h : lookup t k = some v) : image t k = v := by
  unfold image; rw [h]; rfl

/-- **a merged C12 schema, viewed, is a merged store.** -/
theorem mergeOf_view (V : View D) (Q : Equivariance A) (hV : V.Compatible A Q)
    {a b mr : Schema} {tr : Tr} {m : String → String} (r : Q.Ren)
    (hmrU : (uids mr).Nodup) (hmrA : (aliases mr).Nodup) (hsub : ∀ s ∈ a, s ∈ mr)
    (hcopy : ∀ c2 ∈ b, ∃ s ∈ mr, lookup tr c2.uid = some s.uid ∧ s.alias = m c2.alias ∧ s.kind = c2.kind ∧
      s.definition = c2.definition.map (renTok m))
    (hoff : ∀ x, x ∉ aliases b → m x = x)
    (hr : ActsLike V Q r m b) (hcap : NoCapture V A a b mr) :
    MergeOf A Q r (image tr) (V.store a) (V.store b) (V.store mr) where
  nodupU := by rw [uids_store]; exact hmrU
  nodupA := by rw [aliases_store]; exact hmrA
  left := by
    intro c' hc'
    obtain ⟨c, hc, rfl⟩ := List.mem_map.1 hc'
    exact List.mem_map.2 ⟨c, hsub c hc, rfl⟩
  right := by
    intro c' hc'
    obtain ⟨c2, hc2, rfl⟩ := List.mem_map.1 hc'
    obtain ⟨s, hs, hl, hal, hk, hd⟩ := hcopy c2 hc2
    refine List.mem_map.2 ⟨s, hs, ?_⟩
    unfold View.cst
    simp only
    rw [image_of_lookup' hl, hal, hk, hd, hr.agree _ (alias_mem_tokNames hc2),
      hV.read_ren r m c2.definition (fun n hn => (hr.agree n (mention_mem_tokNames hc2 hn)).symm)]
  good := by
    intro c' hc'
    obtain ⟨c2, hc2, rfl⟩ := List.mem_map.1 hc'
    exact hr.good c2 hc2
  noCapture1 := by
    intro c' hc' n hn hnone
    obtain ⟨c, hc, rfl⟩ := List.mem_map.1 hc'
    rw [findAliasL_store_none] at hnone ⊢
    exact hcap n (Or.inl ⟨hnone, c, hc, hn⟩)
  noCapture2 := by
    intro c' hc' n hn hnone
    obtain ⟨c2, hc2, rfl⟩ := List.mem_map.1 hc'
    rw [findAliasL_store_none] at hnone ⊢
    have hn' : n ∈ mentionNames c2.definition := hV.mentions_sub _ n hn
    rw [hr.agree n (mention_mem_tokNames hc2 hn'), hoff n hnone]
    exact hcap n (Or.inr ⟨hnone, c2, hc2, hn⟩)

/-- **`ResetAliases`, viewed, is a renamed store** -/
theorem store_substAliases (V : View D) (Q : Equivariance A) (hV : V.Compatible A Q) {l : Schema}
    {ρ : String → String} (r : Q.Ren) (hr : ActsLike V Q r ρ l) :
    V.store (l.map (substAliases ρ)) = (V.store l).map (Q.renC r) := by
  unfold View.store
  rw [List.map_map, List.map_map]
  apply List.map_congr_left
  intro c hc
  simp only [Function.comp]
  unfold View.cst Equivariance.renC substAliases Cst.rename
  simp only
  rw [hr.agree _ (alias_mem_tokNames hc),
    hV.read_ren r ρ c.definition (fun n hn => (hr.agree n (mention_mem_tokNames hc hn)).symm)]

end CCVerif.SynthCorrect
