import CCVerif.Lemmas.EvaluatorRenameTop
import CCVerif.Lemmas.Analysis
/-!
C11, the last carrier condition of the evaluator law: `normLocalsOK` FOLLOWS from `cstShaped`
(`normLocals_statement`, prover-C06f).

* `LocB B a` — every local spelling of the tree (`Norm.collectLocals`) satisfies `B`;
* the normaliser with an empty `SyntaxTreeContext` only ADDS the names `processTupleDecl` generates, and those
  start with `@` (`freshTupleName_at`): `normalize_locB` (all of `Model/Normalize.lean`: tuple patterns of
  quantifiers, enumerated declarations, `D{}`, `R{}`, `I{}` blocks; the call branch is dead, `inlineCall_nil`);
* a grammar-shaped tree (`Wf.wf c a`) has only local tokens whose text lexes (MATH) as ONE `ID_LOCAL` token
  (`wf_locB`);
* a text that starts with an upper-case letter never lexes as one `ID_LOCAL` token (`lexesAs_local_not_upper`:
  the rules with the actions skip / newline / `ID_LOCAL` / `END` are `{local_id}`, blanks, `\n`, `<<EOF>>`, and none
  of them matches at an upper-case letter), so it is not a name in the sense of `GoodName`;
* `normLocalsOK_of_shaped`.
-/
namespace CCVerif.Norm
open CCVerif CCVerif.Syntax

/-- the spelling `collectLocals` records for a node -/
def ownLocal (t : Tok) (d : TokData) : List String :=
  if t == .ID_LOCAL then [match d with | .text s => s | _ => ""] else []

theorem collectLocals_node (t : Tok) (d : TokData) (lo hi : Int) (ks : List Ast) :
    collectLocals (.node t d lo hi ks) = ownLocal t d ++ collectLocalsKids ks := by
  cases d <;> simp [collectLocals, ownLocal]

theorem mem_collectLocalsKids {s : String} : ∀ {ks : List Ast}, s ∈ collectLocalsKids ks ↔ ∃ k ∈ ks, s ∈ collectLocals k
  | [] => by simp [collectLocalsKids]
  | k :: ks => by
    rw [collectLocalsKids, List.mem_append, mem_collectLocalsKids (ks := ks)]
    simp

section
variable (B : String → Prop)

/-- every local spelling of the tree satisfies `B` -/
def LocB (a : Ast) : Prop := ∀ s ∈ collectLocals a, B s

variable {B}

theorem locB_node {t : Tok} {d : TokData} {lo hi : Int} {ks : List Ast} :
    LocB B (.node t d lo hi ks) ↔ (∀ s ∈ ownLocal t d, B s) ∧ ∀ k ∈ ks, LocB B k := by
  unfold LocB
  rw [collectLocals_node]
  constructor
  · intro h
    refine ⟨fun s hs => h s (List.mem_append.2 (Or.inl hs)), fun k hk s hs => ?_⟩
    exact h s (List.mem_append.2 (Or.inr (mem_collectLocalsKids.2 ⟨k, hk, hs⟩)))
  · rintro ⟨h1, h2⟩ s hs
    rcases List.mem_append.1 hs with h | h
    · exact h1 s h
    · obtain ⟨k, hk, hs'⟩ := mem_collectLocalsKids.1 h
      exact h2 k hk s hs'

theorem locB_kids {a : Ast} (h : LocB B a) : ∀ k ∈ a.kids, LocB B k := by
  cases a; exact (locB_node.1 h).2

theorem locB_setKids {a : Ast} {ks : List Ast} (ha : LocB B a) (hk : ∀ k ∈ ks, LocB B k) : LocB B (setKids a ks) := by
  cases a
  exact locB_node.2 ⟨(locB_node.1 ha).1, hk⟩

theorem locB_local {nn : String} {lo hi : Int} {ks : List Ast} (hn : B nn) (hk : ∀ k ∈ ks, LocB B k) :
    LocB B (.node .ID_LOCAL (.text nn) lo hi ks) := by
  refine locB_node.2 ⟨?_, hk⟩
  intro s hs
  have hs' : s ∈ [nn] := hs
  rw [List.mem_singleton.1 hs']; exact hn

theorem locB_wrapPr {lo hi : Int} : ∀ (path : List Int) {inner : Ast}, LocB B inner → LocB B (wrapPr path lo hi inner)
  | [], _, h => h
  | i :: path, inner, h => by
    have h1 : LocB B (.node .SMALLPR (.tuple [i]) lo hi [inner]) := by
      refine locB_node.2 ⟨by intro s hs; exact absurd (show s ∈ ([] : List String) from hs) (by simp), ?_⟩
      intro k hk
      rw [List.mem_singleton.1 hk]; exact h
    have := locB_wrapPr (lo := lo) (hi := hi) path h1
    unfold wrapPr at this ⊢
    simpa only [List.foldl_cons] using this

mutual
theorem locB_substTuple (subs : List (String × List Int)) {nn : String} (hn : B nn) :
    ∀ a : Ast, LocB B a → LocB B (substTuple subs nn a)
  | .node t d lo hi ks, h => by
    rw [substTuple]
    exact locB_node.2 ⟨(locB_node.1 h).1, locB_substTupleKids subs hn ks (locB_node.1 h).2⟩
theorem locB_substTupleKids (subs : List (String × List Int)) {nn : String} (hn : B nn) :
    ∀ ks : List Ast, (∀ k ∈ ks, LocB B k) → ∀ k ∈ substTupleKids subs nn ks, LocB B k
  | [], _ => by intro k hk; rw [substTupleKids] at hk; cases hk
  | k :: ks, h => by
    intro x hx
    rw [substTupleKids] at hx
    rcases List.mem_cons.1 hx with rfl | hx
    · have hk := h k (List.mem_cons_self ..)
      split
      · split
        · exact locB_wrapPr _ (locB_local hn (locB_kids hk))
        · exact hk
      · exact locB_substTuple subs hn k hk
    · exact locB_substTupleKids subs hn ks (fun k' hk' => h k' (List.mem_cons_of_mem _ hk')) x hx
end

/-- the names of the state are good for `B` -/
def StOK (B : String → Prop) (st : NState) : Prop := ∀ p ∈ st.tupleNames, B p.2

theorem lookup_mem {α} {k : String} {v : α} : ∀ {l : List (String × α)}, lookup k l = some v → (k, v) ∈ l
  | [], h => by cases h
  | (k', v') :: r, h => by
    rw [lookup] at h
    split at h
    · rename_i hk
      cases h
      have : k = k' := by simpa using hk
      rw [this]; exact List.mem_cons_self ..
    · exact List.mem_cons_of_mem _ (lookup_mem h)

theorem freshTupleName_at (used : List String) : ∀ (k : Nat) (x : String), ∃ y, freshTupleName used k ("@" ++ x) = "@" ++ y
  | 0, x => ⟨x, rfl⟩
  | k + 1, x => by
    rw [freshTupleName]
    split
    · rw [String.append_assoc]; exact freshTupleName_at used k _
    · exact ⟨x, rfl⟩

theorem processTupleDecl_ok (hB : ∀ x : String, B ("@" ++ x)) (decl : Ast) (st : NState) (hst : StOK B st) :
    B (processTupleDecl decl st).1 ∧ LocB B (processTupleDecl decl st).2.2.1 ∧ StOK B (processTupleDecl decl st).2.2.2 := by
  unfold processTupleDecl
  dsimp only
  split
  · rename_i n hn
    have hb : B n := hst _ (lookup_mem hn)
    exact ⟨hb, locB_local hb (by intro k hk; cases hk), hst⟩
  · obtain ⟨y, hy⟩ := freshTupleName_at st.usedTupleNames (st.usedTupleNames.length + 1)
      (String.join ((declPaths [] decl).map (·.1)))
    have hb := hB y
    rw [← hy] at hb
    refine ⟨hb, locB_local hb (by intro k hk; cases hk), ?_⟩
    intro p hp
    rcases List.mem_cons.1 hp with rfl | hp
    · exact hb
    · exact hst p hp

section
variable (hB : ∀ x : String, B ("@" ++ x))
include hB

theorem quantTuple_ok (q : Ast) (st : NState) (hq : LocB B q) (hst : StOK B st) :
    LocB B (quantTuple q st).1 ∧ StOK B (quantTuple q st).2 := by
  obtain ⟨t, d, lo, hi, ks⟩ := q
  rcases ks with _ | ⟨a, _ | ⟨b, _ | ⟨c, _ | ⟨e, r⟩⟩⟩⟩ <;> try exact ⟨hq, hst⟩
  have hk := (locB_node.1 hq).2
  obtain ⟨h1, h2, h3⟩ := processTupleDecl_ok hB a st hst
  simp only [quantTuple, Ast.kids]
  refine ⟨locB_setKids hq ?_, h3⟩
  intro k hk'
  simp only [List.mem_cons, List.not_mem_nil, or_false] at hk'
  rcases hk' with rfl | rfl | rfl
  · exact h2
  · exact hk _ (by simp)
  · exact locB_substTuple _ h1 _ (hk _ (by simp))

theorem quantTupleEnum_ok (q : Ast) (st : NState) (hq : LocB B q) (hst : StOK B st) :
    LocB B (quantTupleEnum q st).1 ∧ StOK B (quantTupleEnum q st).2 := by
  have h0 := quantTuple_ok hB q st hq hst
  obtain ⟨t, d, lo, hi, ks⟩ := q
  rcases ks with _ | ⟨a, _ | ⟨b, _ | ⟨c, _ | ⟨e, r⟩⟩⟩⟩ <;> try exact ⟨hq, hst⟩
  obtain ⟨t2, d2, lo2, hi2, ks2⟩ := c
  rcases ks2 with _ | ⟨a2, _ | ⟨b2, _ | ⟨c2, _ | ⟨e2, r2⟩⟩⟩⟩ <;>
    try (simp only [quantTupleEnum, Ast.kids] at h0 ⊢; exact h0)
  have hk := (locB_node.1 hq).2
  have hc := hk (.node t2 d2 lo2 hi2 [a2, b2, c2]) (by simp)
  have hck := (locB_node.1 hc).2
  obtain ⟨h1, h2, h3⟩ := processTupleDecl_ok hB a st hst
  simp only [quantTupleEnum, Ast.kids]
  refine ⟨locB_setKids hq ?_, h3⟩
  intro k hk'
  simp only [List.mem_cons, List.not_mem_nil, or_false] at hk'
  rcases hk' with rfl | rfl | rfl
  · exact h2
  · exact hk _ (by simp)
  · refine locB_setKids hc ?_
    intro k hk''
    simp only [List.mem_cons, List.not_mem_nil, or_false] at hk''
    rcases hk'' with rfl | rfl | rfl
    · exact hck _ (by simp)
    · exact hck _ (by simp)
    · exact locB_substTuple _ h1 _ (hck _ (by simp))

omit hB in
theorem enumDecl_ok (q : Ast) (hq : LocB B q) : LocB B (enumDecl q) := by
  obtain ⟨t, d, lo, hi, ks⟩ := q
  rcases ks with _ | ⟨a, _ | ⟨b, _ | ⟨c, _ | ⟨e, r⟩⟩⟩⟩ <;> try exact hq
  have hown := (locB_node.1 hq).1
  have hk := (locB_node.1 hq).2
  have ha := hk a (by simp)
  have hb := hk b (by simp)
  have hc := hk c (by simp)
  unfold enumDecl
  simp only
  split
  · rename_i d0 d1 rest hd
    have hak := locB_kids ha
    rw [hd] at hak
    refine locB_node.2 ⟨hown, ?_⟩
    intro k hk'
    simp only [List.mem_cons, List.not_mem_nil, or_false] at hk'
    rcases hk' with rfl | rfl | rfl
    · exact hak _ (by simp)
    · exact hb
    · refine locB_node.2 ⟨hown, ?_⟩
      intro k hk''
      simp only [List.mem_cons, List.not_mem_nil, or_false] at hk''
      rcases hk'' with rfl | rfl | rfl
      · split
        · exact hak _ (by simp)
        · exact locB_setKids ha (fun k hk3 => hak k (List.mem_cons_of_mem _ hk3))
      · exact hb
      · exact hc
  · exact hq

theorem declarative_ok (q : Ast) (st : NState) (hq : LocB B q) (hst : StOK B st) :
    LocB B (declarative q st).1 ∧ StOK B (declarative q st).2 := by
  obtain ⟨t, d, lo, hi, ks⟩ := q
  rcases ks with _ | ⟨a, _ | ⟨b, _ | ⟨c, _ | ⟨e, r⟩⟩⟩⟩ <;> try exact ⟨hq, hst⟩
  have hk := (locB_node.1 hq).2
  obtain ⟨h1, h2, h3⟩ := processTupleDecl_ok hB a st hst
  simp only [declarative, Ast.kids]
  split
  · exact ⟨hq, hst⟩
  · refine ⟨locB_setKids hq ?_, h3⟩
    intro k hk'
    simp only [List.mem_cons, List.not_mem_nil, or_false] at hk'
    rcases hk' with rfl | rfl | rfl
    · exact h2
    · exact hk _ (by simp)
    · exact locB_substTuple _ h1 _ (hk _ (by simp))

theorem recursion_ok (q : Ast) (st : NState) (hq : LocB B q) (hst : StOK B st) :
    LocB B (recursion q st).1 ∧ StOK B (recursion q st).2 := by
  obtain ⟨t, d, lo, hi, ks⟩ := q
  rcases ks with _ | ⟨a, _ | ⟨b, _ | ⟨c, _ | ⟨e, _ | ⟨f, r⟩⟩⟩⟩⟩ <;> try exact ⟨hq, hst⟩
  · have hk := (locB_node.1 hq).2
    obtain ⟨h1, h2, h3⟩ := processTupleDecl_ok hB a st hst
    simp only [recursion, Ast.kids]
    split
    · exact ⟨hq, hst⟩
    · refine ⟨locB_setKids hq ?_, h3⟩
      intro k hk'
      simp only [List.mem_cons, List.not_mem_nil, or_false] at hk'
      rcases hk' with rfl | rfl | rfl
      · exact h2
      · exact hk _ (by simp)
      · exact locB_substTuple _ h1 _ (hk _ (by simp))
  · have hk := (locB_node.1 hq).2
    obtain ⟨h1, h2, h3⟩ := processTupleDecl_ok hB a st hst
    simp only [recursion, Ast.kids]
    split
    · exact ⟨hq, hst⟩
    · refine ⟨locB_setKids hq ?_, h3⟩
      intro k hk'
      simp only [List.mem_cons, List.not_mem_nil, or_false] at hk'
      rcases hk' with rfl | rfl | rfl | rfl
      · exact h2
      · exact hk _ (by simp)
      · exact locB_substTuple _ h1 _ (hk _ (by simp))
      · exact locB_substTuple _ h1 _ (hk _ (by simp))

omit hB in
theorem mem_mapIdx {α β} {F : Nat → α → β} {l : List α} {y : β} (h : y ∈ mapIdx F l) : ∃ i, ∃ k ∈ l, y = F i k := by
  unfold mapIdx at h
  obtain ⟨p, hp, rfl⟩ := List.mem_map.1 h
  exact ⟨p.2, p.1, by rw [(List.mem_zipIdx' hp).2]; exact List.getElem_mem _, rfl⟩

theorem imperativeStep_ok (r : Ast) (child : Nat) (st : NState) (hr : LocB B r) (hst : StOK B st) :
    LocB B (imperativeStep r child st).1 ∧ StOK B (imperativeStep r child st).2 := by
  unfold imperativeStep
  cases hb : r.kids[child]? with
  | none => exact ⟨hr, hst⟩
  | some blk =>
    simp only
    have hblk : LocB B blk := locB_kids hr blk (List.mem_of_getElem? hb)
    split
    · exact ⟨hr, hst⟩
    · cases hbk : blk.kids with
      | nil => exact ⟨hr, hst⟩
      | cons decl brest =>
        simp only
        split
        · exact ⟨hr, hst⟩
        · obtain ⟨h1, h2, h3⟩ := processTupleDecl_ok hB decl st hst
          refine ⟨locB_setKids hr ?_, h3⟩
          intro y hy
          obtain ⟨i, k, hk, rfl⟩ := mem_mapIdx hy
          have hkB := locB_kids hr k hk
          split
          · refine locB_setKids hblk ?_
            intro z hz
            rcases List.mem_cons.1 hz with rfl | hz
            · exact h2
            · have := locB_kids hblk
              rw [hbk] at this
              exact this z (List.mem_cons_of_mem _ hz)
          · split
            · have hs := locB_substTupleKids (processTupleDecl decl st).2.1 h1 [k]
                (by intro k' hk'; rw [List.mem_singleton.1 hk']; exact hkB)
              split
              · rename_i k' hk'
                exact hs k' (by rw [hk']; exact List.mem_cons_self ..)
              · exact hkB
            · exact hkB

theorem imperative_ok (r : Ast) (st : NState) (hr : LocB B r) (hst : StOK B st) :
    LocB B (imperative r st).1 ∧ StOK B (imperative r st).2 := by
  unfold imperative
  generalize List.range r.kids.length = l
  suffices ∀ (acc : Ast × NState), LocB B acc.1 ∧ StOK B acc.2 →
      LocB B (l.foldl (fun (acc : Ast × NState) i => if i == 0 then acc else imperativeStep acc.1 i acc.2) acc).1 ∧
      StOK B (l.foldl (fun (acc : Ast × NState) i => if i == 0 then acc else imperativeStep acc.1 i acc.2) acc).2 from
    this (r, st) ⟨hr, hst⟩
  induction l with
  | nil => intro acc h; exact h
  | cons i l ih =>
    intro acc h
    simp only [List.foldl_cons]
    split
    · exact ih acc h
    · exact ih _ (imperativeStep_ok hB acc.1 i acc.2 h.1 h.2)

open CCVerif.Eval (normKids normStep normF normalize_succ normKids_none inlineCall_nil)

omit hB in
theorem normKids_ok {N : Ast → NState → Option (Ast × NState)} : ∀ (ks done : List Ast) (b : NState) (r : List Ast × NState),
    (∀ k ∈ ks, ∀ st y, LocB B k → StOK B st → N k st = some y → LocB B y.1 ∧ StOK B y.2) →
    (∀ k ∈ ks, LocB B k) → (∀ k ∈ done, LocB B k) → StOK B b →
    normKids N ks (some (done, b)) = some r → (∀ k ∈ r.1, LocB B k) ∧ StOK B r.2
  | [], done, b, r, _, _, hd, hb, h => by
    have : r = (done, b) := by simpa [normKids] using h.symm
    rw [this]; exact ⟨hd, hb⟩
  | k :: ks, done, b, r, hN, hks, hd, hb, h => by
    simp only [normKids, List.foldl_cons] at h
    cases hk : N k b with
    | none =>
      rw [hk] at h
      have := normKids_none N ks
      unfold normKids at this
      rw [this] at h; cases h
    | some y =>
      rw [hk] at h
      obtain ⟨y1, y2⟩ := hN k (List.mem_cons_self ..) b y (hks k (List.mem_cons_self ..)) hb hk
      refine normKids_ok ks (done ++ [y.1]) y.2 r (fun k' hk' => hN k' (List.mem_cons_of_mem _ hk'))
        (fun k' hk' => hks k' (List.mem_cons_of_mem _ hk')) ?_ y2 h
      intro x hx
      rcases List.mem_append.1 hx with hx | hx
      · exact hd x hx
      · rw [List.mem_singleton.1 hx]; exact y1

theorem normStep_ok {N : Ast → NState → Option (Ast × NState)} (root : Ast) (st : NState) (y : Ast × NState)
    (hr : LocB B root) (hst : StOK B st) (h : normStep [] N root st = some y) : LocB B y.1 ∧ StOK B y.2 := by
  have hquant : (match root.kids.head? with
      | some (decl : Ast) =>
        let r1 := if decl.id == Tok.NT_ENUM_DECL then enumDecl root else root
        match r1.kids.head? with
        | some d1 =>
          if d1.id == Tok.NT_TUPLE_DECL then
            some (if decl.id == Tok.NT_ENUM_DECL then quantTupleEnum r1 st else quantTuple r1 st)
          else some (r1, st)
        | none => some (r1, st)
      | none => some (root, st)) = some y → LocB B y.1 ∧ StOK B y.2 := by
    intro h
    cases hd : root.kids.head? with
    | none => rw [hd] at h; cases h; exact ⟨hr, hst⟩
    | some decl =>
      rw [hd] at h
      simp only at h
      have hr1 : LocB B (if (decl.id == Tok.NT_ENUM_DECL) = true then enumDecl root else root) := by
        split
        · exact enumDecl_ok root hr
        · exact hr
      generalize (if (decl.id == Tok.NT_ENUM_DECL) = true then enumDecl root else root) = r1 at h hr1
      cases hd1 : r1.kids.head? with
      | none => rw [hd1] at h; cases h; exact ⟨hr1, hst⟩
      | some d1 =>
        rw [hd1] at h
        simp only at h
        split at h
        · cases h
          split
          · exact quantTupleEnum_ok hB r1 st hr1 hst
          · exact quantTuple_ok hB r1 st hr1 hst
        · cases h; exact ⟨hr1, hst⟩
  unfold normStep at h
  split at h
  · exact hquant h
  · exact hquant h
  · cases h; exact recursion_ok hB root st hr hst
  · cases h; exact recursion_ok hB root st hr hst
  · cases h; exact declarative_ok hB root st hr hst
  · cases h; exact imperative_ok hB root st hr hst
  · rw [inlineCall_nil] at h; cases h; exact ⟨hr, hst⟩
  · cases h; exact ⟨hr, hst⟩

/-- **the normaliser (empty `SyntaxTreeContext`) adds `@`-names only**: local spellings and generated names of the
state stay in `B` when every `@`-prefixed string is in `B` -/
theorem normalize_locB : ∀ (fuel : Nat) (root : Ast) (st : NState) (y : Ast × NState),
    LocB B root → StOK B st → normalize [] fuel root st = some y → LocB B y.1 ∧ StOK B y.2
  | 0, _, _, _, _, _, h => by simp [normalize] at h
  | fuel + 1, root, st, y, hr, hst, h => by
    rw [normalize_succ] at h
    unfold normF at h
    cases hs : normStep [] (normalize [] fuel) root st with
    | none => rw [hs] at h; cases h
    | some z =>
      rw [hs] at h
      simp only at h
      obtain ⟨z1, z2⟩ := normStep_ok hB root st z hr hst hs
      cases hk : normKids (normalize [] fuel) z.1.kids (some ([], z.2)) with
      | none => rw [hk] at h; cases h
      | some w =>
        rw [hk] at h
        cases h
        obtain ⟨w1, w2⟩ := normKids_ok z.1.kids [] z.2 w
          (fun k _ st' y' hk' hst' hy' => normalize_locB fuel k st' y' hk' hst' hy')
          (locB_kids z1) (by intro k hk'; cases hk') z2 hk
        exact ⟨locB_setKids z1 w1, w2⟩

theorem normalizeTree_locB (fuel : Nat) (root nt : Ast) (hr : LocB B root) (h : normalizeTree [] fuel root = some nt) :
    LocB B nt := by
  unfold normalizeTree at h
  cases hn : normalize [] fuel root { userLocals := collectLocals root } with
  | none => rw [hn] at h; cases h
  | some y =>
    rw [hn] at h
    cases h
    exact (normalize_locB hB fuel root _ y hr (by intro p hp; cases hp) hn).1

end
end

/-! ## grammar-shaped trees: every local token lexes as one `ID_LOCAL` token -/

theorem shape_local (c : Wf.Cat) : Wf.shape c .ID_LOCAL = none ∨ Wf.shape c .ID_LOCAL = some .leaf := by
  cases c <;> decide

mutual
theorem wf_locB {B : String → Prop} (hL : ∀ s, Wf.lexesAs .ID_LOCAL s = true → B s) :
    ∀ (c : Wf.Cat) (a : Ast), Wf.wf c a = true → LocB B a
  | c, .node id data lo hi kids, h => by
    rw [Wf.wf] at h
    refine locB_node.2 ⟨?_, ?_⟩
    · intro s hs
      unfold ownLocal at hs
      split at hs
      · rename_i hid
        have hid' : id = .ID_LOCAL := tok_beq_eq _ _ hid
        subst hid'
        rcases shape_local c with hsh | hsh
        · rw [hsh] at h; cases h
        · rw [hsh] at h
          simp only [Bool.and_eq_true] at h
          have hl := h.2
          cases data with
          | text x =>
            have : s = x := by simpa using hs
            rw [this]; exact hL x hl
          | none => cases hl
          | int _ => cases hl
          | tuple _ => cases hl
      · cases hs
    · cases hsh : Wf.shape c id with
      | none => rw [hsh] at h; cases h
      | some sh =>
        rw [hsh] at h
        cases sh with
        | leaf =>
          simp only [Bool.and_eq_true, List.isEmpty_iff] at h
          rw [h.1]; intro k hk; cases hk
        | seq cs => simp only [Bool.and_eq_true] at h; exact wfSeq_locB hL cs kids h.2
        | seqIdx cs => simp only [Bool.and_eq_true] at h; exact wfSeq_locB hL cs kids h.2
        | all min k => simp only [Bool.and_eq_true] at h; exact wfAll_locB hL k kids h.2
        | allIdx min k => simp only [Bool.and_eq_true] at h; exact wfAll_locB hL k kids h.2
        | headAll hd min k => simp only [Bool.and_eq_true] at h; exact wfHead_locB hL hd min k kids h.2
theorem wfSeq_locB {B : String → Prop} (hL : ∀ s, Wf.lexesAs .ID_LOCAL s = true → B s) :
    ∀ (cs : List Wf.Cat) (ks : List Ast), Wf.wfSeq cs ks = true → ∀ k ∈ ks, LocB B k
  | [], [], _ => by intro k hk; cases hk
  | c :: cs, k :: ks, h => by
    rw [Wf.wfSeq] at h
    simp only [Bool.and_eq_true] at h
    intro x hx
    rcases List.mem_cons.1 hx with e | hx
    · rw [e]; exact wf_locB hL c k h.1
    · exact wfSeq_locB hL cs ks h.2 x hx
  | [], _ :: _, h => by simp [Wf.wfSeq] at h
  | _ :: _, [], h => by simp [Wf.wfSeq] at h
theorem wfAll_locB {B : String → Prop} (hL : ∀ s, Wf.lexesAs .ID_LOCAL s = true → B s) :
    ∀ (c : Wf.Cat) (ks : List Ast), Wf.wfAll c ks = true → ∀ k ∈ ks, LocB B k
  | _, [], _ => by intro k hk; cases hk
  | c, k :: ks, h => by
    rw [Wf.wfAll] at h
    simp only [Bool.and_eq_true] at h
    intro x hx
    rcases List.mem_cons.1 hx with e | hx
    · rw [e]; exact wf_locB hL c k h.1
    · exact wfAll_locB hL c ks h.2 x hx
theorem wfHead_locB {B : String → Prop} (hL : ∀ s, Wf.lexesAs .ID_LOCAL s = true → B s) :
    ∀ (hd : Wf.Cat) (min : Nat) (c : Wf.Cat) (ks : List Ast), Wf.wfHead hd min c ks = true → ∀ k ∈ ks, LocB B k
  | _, _, _, [], h => by rw [Wf.wfHead] at h; cases h
  | hd, min, c, k :: ks, h => by
    rw [Wf.wfHead] at h
    simp only [Bool.and_eq_true] at h
    intro x hx
    rcases List.mem_cons.1 hx with e | hx
    · rw [e]; exact wf_locB hL hd k h.1.1
    · exact wfAll_locB hL c ks h.2 x hx
end

end CCVerif.Norm

/-! ## a text that starts with an upper-case letter does not lex as one `ID_LOCAL` token -/
namespace CCVerif.Norm
open CCVerif CCVerif.Syntax CCVerif.Lexer CCVerif.Generated

/-- patterns that cannot match at an upper-case letter -/
def noUpperPat : LexPat → Bool
  | .localId | .blanks | .ws | .newline | .eof => true
  | _ => false

/-- actions that do not put a token other than `ID_LOCAL` / `END` at the head of the stream -/
def quietAct : LexAct → Bool
  | .skip | .newline => true
  | .tok t => t == .ID_LOCAL || t == .END

/-- in the MATH table the quiet actions belong to `{local_id}`, blanks, `\n` and `<<EOF>>` only -/
theorem math_quiet_rules : ∀ r ∈ mathRules, quietAct r.act = true → noUpperPat r.pat = true := by decide +kernel

theorem noUpperPat_none (c : Nat) (r : List Nat) (hc : Lexer.isUpper c = true) (p : LexPat) (hp : noUpperPat p = true) :
    matchPat .math (c :: r) p = none := by
  have h : 65 ≤ c ∧ c ≤ 90 := by simpa [Lexer.isUpper] using hc
  have n95 : (c == 95) = false := by simp; omega
  have n32 : (c == 32) = false := by simp; omega
  have n9 : (c == 9) = false := by simp; omega
  have n13 : (c == 13) = false := by simp; omega
  have n10 : (c == 10) = false := by simp; omega
  cases p with
  | localId =>
    have : isLocalStart .math c = false := by
      simp only [isLocalStart, isLower, n95, Bool.false_or, Bool.or_eq_false_iff, Bool.and_eq_false_imp]
      simp; omega
    simp only [matchPat, this]
    rfl
  | blanks => simp [matchPat, spanLen, n32, n9]
  | ws => simp [matchPat, spanLen, n32, n9, n13, n10]
  | newline =>
    simp only [matchPat]
    split
    · rename_i h10; cases h10; omega
    · rfl
  | eof => rfl
  | lit _ => cases hp
  | withIndex _ => cases hp
  | withNumber _ => cases hp
  | number => cases hp
  | globalId => cases hp
  | any => cases hp

/-- the first token of a text that starts with an upper-case letter is neither `ID_LOCAL` nor `END` -/
theorem lexRaw_upper_head (c : Nat) (r : List Nat) (hc : Lexer.isUpper c = true) (ts : List RawTok)
    (h : lexRaw .math (c :: r) = some ts) : ∃ t rest, ts = t :: rest ∧ t.id ≠ .ID_LOCAL ∧ t.id ≠ .END := by
  unfold lexRaw at h
  simp only [List.length_cons, lexGo] at h
  cases hb : bestRule .math (c :: r) (rulesOf .math) none with
  | none => rw [hb] at h; cases h
  | some na =>
    obtain ⟨n, act⟩ := na
    rw [hb] at h
    cases n with
    | zero => simp at h
    | succ n =>
      simp only at h
      rcases Analysis.bestRule_origin .math (c :: r) _ none _ _ hb with h' | ⟨rule, hr, ha, hp⟩
      · cases h'
      have hq : quietAct act = false := by
        cases hq : quietAct act with
        | false => rfl
        | true =>
          rw [noUpperPat_none c r hc rule.pat (math_quiet_rules rule hr (ha ▸ hq))] at hp
          cases hp
      cases act with
      | tok t =>
        simp only at h
        simp only [quietAct, Bool.or_eq_false_iff] at hq
        split at h
        · cases h
          refine ⟨_, _, rfl, ?_, ?_⟩
          · intro e; simp only at e; rw [e] at hq; exact absurd hq.1 (by decide)
          · intro e; simp only at e; rw [e] at hq; exact absurd hq.2 (by decide)
        · cases h
      | skip => cases hq
      | newline => cases hq

theorem lexesAs_local_not_upper (s : String) (c : Char) (t : List Char) (hs : s.toList = c :: t)
    (hc : Lexer.isUpper c.toNat = true) : Wf.lexesAs .ID_LOCAL s = false := by
  unfold Wf.lexesAs Wf.stringUnits lexKinds
  rw [hs, List.map_cons]
  cases hl : lexRaw .math (c.toNat :: t.map Char.toNat) with
  | none => rfl
  | some ts =>
    obtain ⟨t0, rest, rfl, h1, h2⟩ := lexRaw_upper_head _ _ hc ts hl
    simp only [Option.map_some, List.map_cons]
    have hne : (t0.id != Tok.END) = true := by
      cases hb : (t0.id == Tok.END) with
      | true => exact absurd (tok_beq_eq _ _ hb) h2
      | false => show (!(t0.id == Tok.END)) = true; rw [hb]; rfl
    rw [List.filter_cons_of_pos (p := fun x => x != Tok.END) hne]
    have hl1 : (t0.id == Tok.ID_LOCAL) = false := by
      cases hb : (t0.id == Tok.ID_LOCAL) with
      | true => exact absurd (tok_beq_eq _ _ hb) h1
      | false => rfl
    show (t0.id == Tok.ID_LOCAL && _) = false
    rw [hl1]; rfl

theorem char_upper (c : Char) (h : Blocks.up c = true) : Lexer.isUpper c.toNat = true := by
  unfold Blocks.up Char.isUpper at h
  simp only [decide_eq_true_eq] at h
  have h1 : 65 ≤ c.val.toNat := by have := h.1; exact UInt32.le_iff_toNat_le.1 this
  have h2 : c.val.toNat ≤ 90 := by have := h.2; exact UInt32.le_iff_toNat_le.1 this
  simp only [Lexer.isUpper, Char.toNat, Bool.and_eq_true, decide_eq_true_eq]
  exact ⟨h1, h2⟩

/-- **a text that lexes as ONE `ID_LOCAL` token is not a name** (`GoodName`: an upper-case letter first) -/
theorem lexesAs_local_not_good (s : String) (h : Wf.lexesAs .ID_LOCAL s = true) : ¬ Checker.GoodName s := by
  intro hg
  have hn := hg.name
  unfold Blocks.isName at hn
  match hl : s.toList, hn with
  | u :: d :: t, hn =>
    simp only [Blocks.isNameL, Bool.and_eq_true] at hn
    rw [lexesAs_local_not_upper s u (d :: t) hl (char_upper u hn.1.1)] at h
    cases h

theorem at_not_good (x : String) : ¬ Checker.GoodName ("@" ++ x) := by
  intro hg
  have hn := hg.name
  unfold Blocks.isName at hn
  rw [String.toList_append] at hn
  have e : ("@" : String).toList = ['@'] := rfl
  rw [e] at hn
  cases hx : x.toList with
  | nil => rw [hx] at hn; cases hn
  | cons d t => rw [hx] at hn; simp [Blocks.isNameL, Blocks.up] at hn

end CCVerif.Norm

namespace CCVerif.RSModelGen
open CCVerif CCVerif.Syntax CCVerif.SchemaGen CCVerif.Checker CCVerif.Norm

/-- **`normLocals_statement`** (the carrier condition of C11 `fresh_checker_evaluator_partial3` follows from the
grammar shape): for a constituent with a grammar-shaped definition no local variable of the NORMALISED definition
tree is spelled like a good global name — the local tokens of a `Wf.wf` tree lex as `ID_LOCAL`, so they do not start
with an upper-case letter; the names the normaliser generates start with `@`. -/
theorem normLocalsOK_of_shaped (fuel : Nat) (c : Cst CDef) (hs : defShaped c.defn = true) : normLocalsOK fuel c = true := by
  unfold normLocalsOK
  cases htr : cstTree c with
  | none => rfl
  | some tr =>
    simp only
    cases hn : normalizeTree [] fuel tr with
    | none => rfl
    | some nt =>
      simp only [List.all_eq_true, Bool.not_eq_true', decide_eq_false_iff_not]
      have hhead : LocB (fun s => ¬ GoodName s) (headNode c.alias) :=
        locB_node.2 ⟨by intro s h; exact absurd (show s ∈ ([] : List String) from h) (by simp), by intro k hk; cases hk⟩
      have htree : LocB (fun s => ¬ GoodName s) tr := by
        unfold cstTree at htr
        split at htr
        · cases htr
          refine locB_node.2 ⟨by intro s h; exact absurd (show s ∈ ([] : List String) from h) (by simp), ?_⟩
          intro k hk
          rw [List.mem_singleton.1 hk]; exact hhead
        · rename_i body hk hd
          cases htr
          rw [hd] at hs
          simp only [defShaped, Bool.and_eq_true] at hs
          refine locB_node.2 ⟨by intro s h; exact absurd (show s ∈ ([] : List String) from h) (by simp), ?_⟩
          intro k hk
          simp only [List.mem_cons, List.not_mem_nil, or_false] at hk
          rcases hk with rfl | rfl
          · exact hhead
          · exact wf_locB lexesAs_local_not_good .ND _ hs.1
        · cases htr
      exact normalizeTree_locB at_not_good fuel tr nt htree hn

end CCVerif.RSModelGen
