import CCVerif.Lemmas.RelexRun
/-!
Lemmas for C08: the word-level specification (`scan` / `translateWords` of `Model/TranslateSpec.lean`,
written without the lexer and its rule table) agrees with the token-level one (`weaveToks`,
`changed` over the MATH token stream) on every text.

The scan is stateless, so it suffices to show that every piece of the scanning loop (token, blanks,
newline) is passed by `scan` exactly up to its end: an identifier token as ONE word classified as a
global / local name, any other piece as verbatim pieces only.
-/
namespace CCVerif.Translate
open CCVerif.Syntax CCVerif.Generated CCVerif.Lexer CCVerif.Strings CCVerif.Translate.Spec

/-! ## character classes of the word-level specification -/

theorem isDigitC_eq (c : Nat) : isDigitC c = Lexer.isDigit c := rfl

theorem isWordC_eq (c : Nat) : isWordC c = isAlnum .math c := by
  unfold isWordC isAlnum isAlpha isUpperC isLowerC isUpper isLower isDigitC Lexer.isDigit
  simp only [beq_self_eq_true, Bool.true_and, Bool.or_assoc]

theorem isUpperC_eq (c : Nat) : isUpperC c = isUpper c := rfl

theorem takeWhile_length (p : Nat → Bool) : ∀ s : List Nat, (s.takeWhile p).length = spanLen p s
  | [] => rfl
  | a :: r => by
    rw [List.takeWhile_cons, spanLen_cons]
    by_cases h : p a = true
    · simp [h, takeWhile_length p r]
    · simp [h]

theorem takeWhile_digitC (s : List Nat) : (s.takeWhile isDigitC).length = spanLen Lexer.isDigit s :=
  takeWhile_length _ s

theorem takeWhile_wordC (s : List Nat) : (s.takeWhile isWordC).length = spanLen (isAlnum .math) s := by
  have : isWordC = isAlnum .math := funext isWordC_eq
  rw [this]; exact takeWhile_length _ s

/-! ## the scan does not depend on its fuel -/

theorem scan_fuel : ∀ (fuel fuel' : Nat) (s : List Nat), s.length < fuel → s.length < fuel' → scan fuel s = scan fuel' s := by
  intro fuel
  induction fuel with
  | zero => intro fuel' s h; omega
  | succ fuel ih =>
    intro fuel' s h h'
    cases fuel' with
    | zero => omega
    | succ fuel' =>
      cases s with
      | nil => simp [scan]
      | cons c r =>
        simp only [scan]
        have hk1 : 1 ≤ spanLen Lexer.isDigit (c :: r) → ((c :: r).drop (spanLen Lexer.isDigit (c :: r))).length < fuel ∧
            ((c :: r).drop (spanLen Lexer.isDigit (c :: r))).length < fuel' := by
          intro hk; simp only [List.length_drop, List.length_cons] at h h' ⊢; omega
        have hk2 : 1 ≤ spanLen (isAlnum .math) (c :: r) → ((c :: r).drop (spanLen (isAlnum .math) (c :: r))).length < fuel ∧
            ((c :: r).drop (spanLen (isAlnum .math) (c :: r))).length < fuel' := by
          intro hk; simp only [List.length_drop, List.length_cons] at h h' ⊢; omega
        simp only [List.length_cons] at h h'
        split
        · next hd =>
          rw [takeWhile_digitC]
          have : 1 ≤ spanLen Lexer.isDigit (c :: r) := by rw [spanLen_cons, ← isDigitC_eq, hd]; simp
          rw [ih fuel' _ (hk1 this).1 (hk1 this).2]
        · split
          · rw [ih fuel' r (by omega) (by omega)]
          · split
            · next hw =>
              rw [takeWhile_wordC]
              have : 1 ≤ spanLen (isAlnum .math) (c :: r) := by rw [spanLen_cons, ← isWordC_eq, hw]; simp
              rw [ih fuel' _ (hk2 this).1 (hk2 this).2]
            · rw [ih fuel' r (by omega) (by omega)]

/-! ## the equations of `pieces` -/

theorem pieces_nil : pieces [] = [] := rfl

theorem pieces_digit (c : Nat) (r : List Nat) (hd : Lexer.isDigit c = true) :
    pieces (c :: r) = .raw ((c :: r).take (spanLen Lexer.isDigit (c :: r))) :: pieces ((c :: r).drop (spanLen Lexer.isDigit (c :: r))) := by
  unfold pieces
  simp only [scan, List.length_cons]
  rw [if_pos (by rw [isDigitC_eq]; exact hd), takeWhile_digitC]
  congr 1
  apply scan_fuel
  · have : 1 ≤ spanLen Lexer.isDigit (c :: r) := by rw [spanLen_cons, hd]; simp
    simp only [List.length_drop, List.length_cons]; omega
  · omega

theorem pieces_B (r : List Nat) : pieces (66 :: r) = .raw [66] :: pieces r := by
  unfold pieces
  simp only [scan, List.length_cons]
  rw [if_neg (by decide), if_pos (by decide)]

theorem pieces_word (c : Nat) (r : List Nat) (hd : Lexer.isDigit c = false) (hb : c ≠ 66) (hw : isAlnum .math c = true) :
    pieces (c :: r) = classify ((c :: r).take (spanLen (isAlnum .math) (c :: r))) ::
      pieces ((c :: r).drop (spanLen (isAlnum .math) (c :: r))) := by
  unfold pieces
  simp only [scan, List.length_cons]
  rw [if_neg (by rw [isDigitC_eq, hd]; simp), if_neg (by simpa using hb), if_pos (by rw [isWordC_eq]; exact hw), takeWhile_wordC]
  congr 1
  apply scan_fuel
  · have : 1 ≤ spanLen (isAlnum .math) (c :: r) := by rw [spanLen_cons, hw]; simp
    simp only [List.length_drop, List.length_cons]; omega
  · omega

theorem pieces_other (c : Nat) (r : List Nat) (hw : isAlnum .math c = false) : pieces (c :: r) = .raw [c] :: pieces r := by
  have hd : Lexer.isDigit c = false := (not_alnum_facts c hw).1
  have hb : c ≠ 66 := by intro e; rw [e] at hw; revert hw; decide
  unfold pieces
  simp only [scan, List.length_cons]
  rw [if_neg (by rw [isDigitC_eq, hd]; simp), if_neg (by simpa using hb), if_neg (by rw [isWordC_eq, hw]; simp)]

/-! ## stretches that the scan passes as verbatim pieces -/

/-- the scan passes `q` (followed by `rest`) as verbatim pieces whose contents make up `q`, and is
then at `rest` -/
def RawScan (q rest : List Nat) : Prop :=
  ∃ ws : List (List Nat), pieces (q ++ rest) = ws.map Piece.raw ++ pieces rest ∧ ws.flatten = q

theorem RawScan.nil (rest : List Nat) : RawScan [] rest := ⟨[], rfl, rfl⟩

theorem RawScan.append {q1 q2 rest : List Nat} (h1 : RawScan q1 (q2 ++ rest)) (h2 : RawScan q2 rest) : RawScan (q1 ++ q2) rest := by
  obtain ⟨w1, e1, f1⟩ := h1
  obtain ⟨w2, e2, f2⟩ := h2
  refine ⟨w1 ++ w2, ?_, by rw [List.flatten_append, f1, f2]⟩
  rw [List.append_assoc, e1, e2, List.map_append, List.append_assoc]

theorem RawScan.other (c : Nat) (rest : List Nat) (hw : isAlnum .math c = false) : RawScan [c] rest :=
  ⟨[[c]], by simpa using pieces_other c rest hw, rfl⟩

theorem RawScan.letterB (rest : List Nat) : RawScan [66] rest := ⟨[[66]], by simpa using pieces_B rest, rfl⟩

/-- a run of symbols none of which is an identifier symbol -/
theorem RawScan.others : ∀ (l rest : List Nat), (∀ c ∈ l, isAlnum .math c = false) → RawScan l rest
  | [], rest, _ => RawScan.nil rest
  | c :: l, rest, h => by
    have h1 := RawScan.other c (l ++ rest) (h c (by simp))
    have h2 := RawScan.others l rest (fun x hx => h x (List.mem_cons_of_mem _ hx))
    exact RawScan.append (q1 := [c]) h1 h2

/-- a maximal run of digits -/
theorem RawScan.digits (q rest : List Nat) (hq : q ≠ []) (hall : ∀ c ∈ q, Lexer.isDigit c = true)
    (hstop : ∀ z, rest.head? = some z → Lexer.isDigit z = false) : RawScan q rest := by
  cases q with
  | nil => exact absurd rfl hq
  | cons c t =>
    have hk : spanLen Lexer.isDigit ((c :: t) ++ rest) = (c :: t).length := by
      have h1 : spanLen Lexer.isDigit (c :: t) = (c :: t).length := by
        have := spanLen_ge_take Lexer.isDigit (c :: t) (c :: t).length (Nat.le_refl _) (by simpa using hall)
        have := spanLen_le Lexer.isDigit (c :: t)
        omega
      rw [spanLen_append_all _ _ _ h1]
      cases rest with
      | nil => simp [spanLen]
      | cons z w => rw [spanLen_cons_false _ z w (hstop z rfl)]; rfl
    have := pieces_digit c (t ++ rest) (hall c (by simp))
    rw [← List.cons_append, hk] at this
    refine ⟨[c :: t], ?_, by simp⟩
    rw [this]
    simp

/-- a whole word (maximal run of identifier symbols that starts like an identifier) that is reserved -/
theorem RawScan.reservedWord (a : Nat) (t rest : List Nat) (ha : idStartB a = true)
    (hall : ∀ c ∈ t, isAlnum .math c = true) (hstop : ∀ z, rest.head? = some z → isAlnum .math z = false)
    (hres : reserved (a :: t) = true) : RawScan (a :: t) rest := by
  obtain ⟨ad, _, aa, _, _, _, _⟩ := idStartB_facts a ha
  have hb : a ≠ 66 := by
    intro e; rw [e] at ha; revert ha; decide
  have hk : spanLen (isAlnum .math) ((a :: t) ++ rest) = (a :: t).length := by
    have h1 : spanLen (isAlnum .math) (a :: t) = (a :: t).length := by
      have := spanLen_ge_take (isAlnum .math) (a :: t) (a :: t).length (Nat.le_refl _) (by
        intro c hc
        simp only [List.take_length, List.mem_cons] at hc
        rcases hc with rfl | hc
        · exact aa
        · exact hall c hc)
      have := spanLen_le (isAlnum .math) (a :: t)
      omega
    rw [spanLen_append_all _ _ _ h1]
    cases rest with
    | nil => simp [spanLen]
    | cons z w => rw [spanLen_cons_false _ z w (hstop z rfl)]; rfl
  have := pieces_word a (t ++ rest) ad hb aa
  rw [← List.cons_append, hk] at this
  refine ⟨[a :: t], ?_, by simp⟩
  rw [this]
  simp [classify, hres]

/-! ## `{number}(,{number})*` is passed as verbatim pieces -/

theorem comma_not_alnum : isAlnum .math 44 = false := by decide

theorem digit_run (r : List Nat) (hk : spanLen Lexer.isDigit r ≠ 0) :
    RawScan (r.take (spanLen Lexer.isDigit r)) (r.drop (spanLen Lexer.isDigit r)) := by
  apply RawScan.digits
  · intro e
    have := congrArg List.length e
    have h2 := spanLen_le Lexer.isDigit r
    simp only [List.length_take, List.length_nil] at this
    omega
  · intro c hc
    obtain ⟨i, hi, e⟩ := List.mem_iff_getElem.1 hc
    simp only [List.length_take] at hi
    obtain ⟨c', h1, h2⟩ := spanLen_get Lexer.isDigit r i (by omega)
    rw [List.getElem_take] at e
    rw [List.getElem?_eq_getElem (by have := spanLen_le Lexer.isDigit r; omega), e] at h1
    cases h1; exact h2
  · intro z hz
    exact spanLen_stop Lexer.isDigit r z hz

theorem indexTail_raw : ∀ (fuel : Nat) (s : List Nat), RawScan (s.take (indexTail fuel s)) (s.drop (indexTail fuel s))
  | 0, s => by simp [indexTail]; exact RawScan.nil s
  | fuel + 1, s => by
    unfold indexTail
    split
    · next r =>
      simp only
      split
      · simp; exact RawScan.nil _
      · next hk =>
        have hk' : spanLen Lexer.isDigit r ≠ 0 := by simpa using hk
        have ih := indexTail_raw fuel (r.drop (spanLen Lexer.isDigit r))
        have hd := digit_run r hk'
        generalize spanLen Lexer.isDigit r = kd at *
        generalize indexTail fuel (r.drop kd) = k' at *
        have e1 : (44 :: r).take (1 + kd + k') = [44] ++ (r.take kd ++ (r.drop kd).take k') := by
          rw [show 1 + kd + k' = (kd + k') + 1 by omega, List.take_succ_cons, List.take_add]; rfl
        have e2 : (44 :: r).drop (1 + kd + k') = (r.drop kd).drop k' := by
          rw [show 1 + kd + k' = (kd + k') + 1 by omega, List.drop_succ_cons, List.drop_drop]
        rw [e1, e2]
        apply RawScan.append (q1 := [44])
        · exact RawScan.other 44 _ comma_not_alnum
        · apply RawScan.append
          · rw [List.take_append_drop]; exact hd
          · exact ih
    · simp; exact RawScan.nil _

/-! ## table facts used by the comparison -/

def isIdPat : LexPat → Bool
  | .globalId => true
  | .localId => true
  | _ => false

/-- what the word-level specification assumes about the table: a literal made of identifier-start
symbols is a reserved word; the indexed keywords are `Pr pr Fi`; a numbered keyword that is not a
name is `R`; the identifier patterns produce names -/
def patActOk (r : LexRule) : Bool :=
  match r.pat with
  | .lit l => !(l.all idStartB) || reserved l
  | .withIndex pre => pre == [80, 114] || pre == [112, 114] || pre == [70, 105]
  | .withNumber pre => isIdAct r.act || pre == [82]
  | .globalId => isIdAct r.act
  | .localId => isIdAct r.act
  | _ => true

theorem math_pat_act : ∀ r ∈ mathRules, patActOk r = true := by decide +kernel

/-- no `A`-rule stands before a `B`-rule -/
def noBefore (A B : LexRule → Bool) : List LexRule → Bool
  | [] => true
  | r :: rs => (!(A r) || rs.all (fun r' => !(B r'))) && noBefore A B rs

theorem noBefore_split (A B : LexRule → Bool) : ∀ (pre : List LexRule) (r : LexRule) (post : List LexRule),
    noBefore A B (pre ++ r :: post) = true → A r = true → ∀ r' ∈ post, B r' = false
  | [], r, post, h, ha => by
    simp only [List.nil_append, noBefore, Bool.and_eq_true, Bool.or_eq_true, Bool.not_eq_true', List.all_eq_true] at h
    rcases h.1 with h1 | h1
    · rw [ha] at h1; cases h1
    · exact h1
  | _ :: pre, r, post, h, ha => by
    simp only [List.cons_append, noBefore, Bool.and_eq_true] at h
    exact noBefore_split A B pre r post h.2 ha

/-- the catch-all rule stands after the identifier rules -/
theorem math_any_last : noBefore (fun r => r.pat == .any) (fun r => isIdPat r.pat) mathRules = true := by decide +kernel

theorem reserved_numbered (pre w : List Nat) (hpre : pre = [80, 114] ∨ pre = [112, 114] ∨ pre = [70, 105] ∨ pre = [82])
    (h : isNumbered pre w = true) : reserved w = true := by
  unfold reserved
  rcases hpre with rfl | rfl | rfl | rfl <;> simp [h]

theorem mem_take_span (p : Nat → Bool) (r : List Nat) : ∀ c ∈ r.take (spanLen p r), p c = true := by
  intro c hc
  obtain ⟨i, hi, e⟩ := List.mem_iff_getElem.1 hc
  simp only [List.length_take] at hi
  obtain ⟨c', h1, h2⟩ := spanLen_get p r i (by omega)
  rw [List.getElem_take] at e
  rw [List.getElem?_eq_getElem (by have := spanLen_le p r; omega), e] at h1
  cases h1; exact h2

theorem math_has_number : (⟨.number, .tok .LIT_INTEGER⟩ : LexRule) ∈ mathRules := by decide +kernel

theorem isNumbered_append (pre d : List Nat) (hd : d ≠ []) (hall : ∀ c ∈ d, Lexer.isDigit c = true) :
    isNumbered pre (pre ++ d) = true := by
  unfold isNumbered
  simp only [List.take_left', List.drop_left', beq_self_eq_true, Bool.true_and, Bool.and_eq_true, Bool.not_eq_true',
    List.isEmpty_eq_false_iff, List.all_eq_true]
  exact ⟨hd, fun c hc => by rw [isDigitC_eq]; exact hall c hc⟩

theorem blank_not_alnum (c : Nat) (h : (c == 32 || c == 9 || c == 13 || c == 10) = true) : isAlnum .math c = false := by
  simp only [Bool.or_eq_true, beq_iff_eq] at h
  rcases h with ((h | h) | h) | h <;> subst h <;> decide

/-- an identifier rule matches at every identifier-start symbol -/
theorem idrule_at (c : Nat) (t : List Nat) (hc : idStartB c = true) :
    ∃ r ∈ mathRules, isIdPat r.pat = true ∧ matchPat .math (c :: t) r.pat = some (1 + spanLen (isAlnum .math) t) := by
  by_cases hg : isGlobalStart c = true
  · exact ⟨_, math_has_globalId, rfl, by simp only [matchPat]; rw [if_pos hg]⟩
  · have hl : isLocalStart .math c = true := by
      unfold idStartB at hc
      simp only [Bool.or_eq_true] at hc
      rcases hc with h1 | h1
      · exact absurd h1 hg
      · exact h1
    exact ⟨_, math_has_localId, rfl, by simp only [matchPat]; rw [if_pos hl]⟩

theorem take_split3 (pre s' : List Nat) (kd kt : Nat) :
    (pre ++ s').take (pre.length + (kd + kt)) = (pre ++ s'.take kd) ++ (s'.drop kd).take kt := by
  rw [List.take_append, List.take_of_length_le (by omega), show pre.length + (kd + kt) - pre.length = kd + kt by omega,
    List.take_add, List.append_assoc]

theorem drop_split3 (pre s' : List Nat) (kd kt : Nat) :
    (pre ++ s').drop (pre.length + (kd + kt)) = (s'.drop kd).drop kt := by
  rw [List.drop_append, List.drop_of_length_le (by omega), show pre.length + (kd + kt) - pre.length = kd + kt by omega,
    List.nil_append, List.drop_drop]

/-- **a piece that is not an identifier token is passed by the scan as verbatim pieces** -/
theorem piece_raw (s : List Nat) (n : Nat) (act : LexAct)
    (hb : bestRule .math s mathRules none = some (n + 1, act)) (hact : isIdAct act = false) :
    RawScan (s.take (n + 1)) (s.drop (n + 1)) := by
  rcases bestRule_first .math s mathRules none _ _ hb with h' | ⟨pre, r, post, e, ha, hp, hpre, _⟩
  · cases h'
  have hr : r ∈ mathRules := by rw [e]; simp
  have hge := (bestRule_ge .math s mathRules none _ _ hb).2
  have hok := math_pats_ok r hr
  have hpa := math_pat_act r hr
  have hle := bestRule_le s _ _ hb
  have hidr : isIdAct r.act = false := by rw [ha]; exact hact
  -- after a piece made of identifier symbols that starts like an identifier no identifier symbol follows
  have ext : ∀ a t, s = a :: t → idStartB a = true → (∀ c ∈ s.take (n + 1), isAlnum .math c = true) →
      ∀ z, (s.drop (n + 1)).head? = some z → isAlnum .math z = false := by
    intro a t es has hall z hz
    cases hza : isAlnum .math z with
    | false => rfl
    | true =>
      exfalso
      have hz' : s[n + 1]? = some z := by rw [List.head?_drop] at hz; exact hz
      have hlen : n + 2 ≤ s.length := by have := (List.getElem?_eq_some_iff.1 hz').1; omega
      obtain ⟨r', hr', m, hm1, hm2⟩ := idrule_extends s (n + 2) (by omega) hlen ⟨a, t, es, has⟩ (by
        intro x hx
        rw [List.take_succ, hz'] at hx
        simp only [Option.toList_some, List.mem_append, List.mem_singleton] at hx
        rcases hx with hx | hx
        · exact hall x hx
        · rw [hx]; exact hza)
      have := hge r' hr' m hm2
      omega
  cases hpat : r.pat with
  | lit l =>
    rw [hpat] at hp hok
    unfold patActOk at hpa
    rw [hpat] at hpa
    simp only [matchPat] at hp
    split at hp
    · next hcond =>
      simp only [Bool.and_eq_true] at hcond
      have hl : l.length = n + 1 := by simpa using hp
      have htk := isPrefix_take l s hcond.2
      rw [hl] at htk
      rw [htk]
      simp only [patOk] at hok
      rcases Bool.or_eq_true_iff.1 hok with hall | hall
      · -- a reserved word
        have hres : reserved l = true := by
          simp only [hall, Bool.not_true, Bool.false_or] at hpa; exact hpa
        cases l with
        | nil => simp at hl
        | cons a t =>
          have hall' := List.all_eq_true.1 hall
          cases s with
          | nil => simp at hle
          | cons b t'' =>
            have hab : b = a := by
              simp only [List.take_succ_cons, List.cons.injEq] at htk; exact htk.1
            subst hab
            apply RawScan.reservedWord b t _ (hall' b (by simp)) (fun c hc => idStartB_alnum c (hall' c (List.mem_cons_of_mem _ hc)))
            · refine ext b t'' rfl (hall' b (by simp)) ?_
              rw [htk]
              intro c hc
              exact idStartB_alnum c (hall' c hc)
            · exact hres
      · apply RawScan.others
        intro c hc
        have := List.all_eq_true.1 hall c hc
        simpa using this
    · cases hp
  | withIndex pre0 =>
    rw [hpat] at hp hok
    unfold patActOk at hpa
    rw [hpat] at hpa
    simp only [patOk, Bool.and_eq_true, beq_iff_eq] at hok
    simp only [matchPat] at hp
    split at hp
    · next hpre =>
      split at hp
      · cases hp
      · next hk0 =>
        have hk : pre0.length + indexLen (s.drop pre0.length) = n + 1 := by simpa using hp
        have htk := isPrefix_take pre0 s hpre
        have hpre3 : pre0 = [80, 114] ∨ pre0 = [112, 114] ∨ pre0 = [70, 105] ∨ pre0 = [82] := by
          simp only [Bool.or_eq_true, beq_iff_eq] at hpa
          rcases hpa with (h | h) | h
          · exact Or.inl h
          · exact Or.inr (Or.inl h)
          · exact Or.inr (Or.inr (Or.inl h))
        have es : s = pre0 ++ s.drop pre0.length := by
          conv => lhs; rw [← List.take_append_drop pre0.length s, htk]
        generalize hs' : s.drop pre0.length = s' at hk hk0 es
        -- the index
        unfold indexLen at hk hk0
        simp only at hk hk0
        have hkd : spanLen Lexer.isDigit s' ≠ 0 := by
          intro h0; simp [h0] at hk0
        have hkd' : (spanLen Lexer.isDigit s' == 0) = false := by simpa using hkd
        simp only [hkd', Bool.false_eq_true, if_false] at hk
        have hdr := digit_run s' hkd
        have hdig := mem_take_span Lexer.isDigit s'
        have hstopd := spanLen_stop Lexer.isDigit s'
        have htail := indexTail_raw s'.length (s'.drop (spanLen Lexer.isDigit s'))
        have htail0 : ∀ z w, s'.drop (spanLen Lexer.isDigit s') = z :: w → z ≠ 44 →
            indexTail s'.length (s'.drop (spanLen Lexer.isDigit s')) = 0 := by
          intro z w ez hz
          rw [ez]
          cases s'.length with
          | zero => rfl
          | succ fl =>
            unfold indexTail
            split
            · next r' heq => simp at heq; exact absurd heq.1 hz
            · rfl
        generalize spanLen Lexer.isDigit s' = kd at *
        generalize indexTail s'.length (s'.drop kd) = kt at *
        have hne : s'.take kd ≠ [] := by
          intro e0
          have := congrArg List.length e0
          have hl2 : pre0.length + (kd + kt) ≤ (pre0 ++ s').length := by rw [← es, hk]; exact hle
          simp only [List.length_take, List.length_nil, List.length_append] at this hl2
          omega
        rw [← hk, es, take_split3, drop_split3]
        apply RawScan.append
        · rw [List.take_append_drop]
          -- the keyword with its first number is one reserved word
          obtain ⟨a, b, rfl⟩ : ∃ a b, pre0 = [a, b] := by
            match pre0, hok.1 with
            | [a, b], _ => exact ⟨a, b, rfl⟩
          have hall' := List.all_eq_true.1 hok.2
          have hword : ∀ c ∈ [a, b] ++ s'.take kd, isAlnum .math c = true := by
            intro c hc
            rcases List.mem_append.1 hc with hc | hc
            · exact idStartB_alnum c (hall' c hc)
            · exact isDigit_isAlnum c (hdig c hc)
          apply RawScan.reservedWord a (b :: s'.take kd) _ (hall' a (by simp))
            (fun c hc => hword c (by simp at hc ⊢; rcases hc with h | h <;> simp [h]))
          · intro z hz
            cases hza : isAlnum .math z with
            | false => rfl
            | true =>
              -- then the index ends here, and an identifier rule would reach further
              obtain ⟨w, ez⟩ : ∃ w, s'.drop kd = z :: w := by
                cases hdd : s'.drop kd with
                | nil => rw [hdd] at hz; cases hz
                | cons z' w => rw [hdd] at hz; cases hz; exact ⟨w, rfl⟩
              have hz4 : z ≠ 44 := by intro e4; rw [e4] at hza; revert hza; decide
              have hkt : kt = 0 := htail0 z w ez hz4
              subst hkt
              have hcontra := ext a (b :: s') (by rw [es]; rfl) (hall' a (by simp)) (by
                rw [← hk, es, take_split3]
                simp only [List.take_zero, List.append_nil]
                exact hword) z (by rw [← hk, es, drop_split3, List.drop_zero]; exact hz)
              rw [hza] at hcontra; cases hcontra
          · apply reserved_numbered [a, b] _ hpre3
            exact isNumbered_append [a, b] _ hne hdig
        · exact htail
    · cases hp
  | withNumber pre0 =>
    rw [hpat] at hp hok
    unfold patActOk at hpa
    rw [hpat] at hpa
    simp only [patOk, Bool.and_eq_true, beq_iff_eq] at hok
    simp only [hidr, Bool.false_or, beq_iff_eq] at hpa
    subst hpa
    simp only [matchPat] at hp
    split at hp
    · next hpre =>
      split at hp
      · cases hp
      · next hk0 =>
        cases s with
        | nil => simp at hle
        | cons a t =>
          simp only [isPrefix, Bool.and_true, beq_iff_eq] at hpre
          subst hpre
          simp only [List.length_cons, List.length_nil, List.drop_succ_cons, List.drop_zero] at hp hk0
          have hk : 1 + spanLen Lexer.isDigit t = n + 1 := by simpa using hp
          have hkd : spanLen Lexer.isDigit t ≠ 0 := by simpa using hk0
          have hdig := mem_take_span Lexer.isDigit t
          have hn : n = spanLen Lexer.isDigit t := by omega
          have hword : ∀ c ∈ (82 :: t).take (n + 1), isAlnum .math c = true := by
            intro c hc
            rw [List.take_succ_cons, hn] at hc
            rcases List.mem_cons.1 hc with rfl | hc
            · decide
            · exact isDigit_isAlnum c (hdig c hc)
          have hstop := ext 82 t rfl (by decide) hword
          rw [List.drop_succ_cons] at hstop
          rw [List.take_succ_cons, List.drop_succ_cons]
          rw [hn] at hstop ⊢
          apply RawScan.reservedWord 82 _ _ (by decide) (fun c hc => isDigit_isAlnum c (hdig c hc)) hstop
          apply reserved_numbered [82] _ (Or.inr (Or.inr (Or.inr rfl)))
          apply isNumbered_append [82] _ _ hdig
          intro e0
          have := congrArg List.length e0
          have h2 := spanLen_le Lexer.isDigit t
          simp only [List.length_take, List.length_nil] at this
          omega
    · cases hp
  | number =>
    rw [hpat] at hp
    simp only [matchPat] at hp
    split at hp
    · cases hp
    · next hk0 =>
      have hk : spanLen Lexer.isDigit s = n + 1 := by simpa using hp
      rw [← hk]
      exact digit_run s (by omega)
  | globalId =>
    unfold patActOk at hpa
    rw [hpat, hidr] at hpa
    cases hpa
  | localId =>
    unfold patActOk at hpa
    rw [hpat, hidr] at hpa
    cases hpa
  | newline =>
    rw [hpat] at hp
    cases s with
    | nil => simp at hle
    | cons a t =>
      rw [matchPat_newline_cons] at hp
      split at hp
      · next h10 =>
        have : n = 0 := by simpa using hp.symm
        subst this h10
        simp only [Nat.zero_add, List.take_succ_cons, List.take_zero, List.drop_succ_cons, List.drop_zero]
        exact RawScan.other 10 t (by decide)
      · cases hp
  | blanks =>
    rw [hpat] at hp
    simp only [matchPat] at hp
    split at hp
    · cases hp
    · have hk : spanLen (fun c => c == 32 || c == 9) s = n + 1 := by simpa using hp
      rw [← hk]
      apply RawScan.others
      intro c hc
      have := mem_take_span _ s c hc
      apply blank_not_alnum
      simp only [Bool.or_eq_true] at this ⊢
      exact Or.inl (Or.inl this)
  | ws =>
    rw [hpat] at hp
    simp only [matchPat] at hp
    split at hp
    · cases hp
    · have hk : spanLen (fun c => c == 32 || c == 9 || c == 13 || c == 10) s = n + 1 := by simpa using hp
      rw [← hk]
      apply RawScan.others
      intro c hc
      exact blank_not_alnum c (mem_take_span _ s c hc)
  | any =>
    rw [hpat] at hp
    cases s with
    | nil => simp at hle
    | cons c t =>
      simp only [matchPat] at hp
      split at hp
      · cases hp
      · have : n = 0 := by simpa using hp.symm
        subst this
        simp only [Nat.zero_add, List.take_succ_cons, List.take_zero, List.drop_succ_cons, List.drop_zero]
        cases hca : isAlnum .math c with
        | false => exact RawScan.other c t hca
        | true =>
          rcases alnum_cases c hca with hd | h66 | hst
          · -- a single digit: the next symbol is not a digit
            apply RawScan.digits [c] t (by simp) (by intro x hx; simp at hx; rw [hx]; exact hd)
            intro z hz
            cases hzd : Lexer.isDigit z with
            | false => rfl
            | true =>
              exfalso
              cases t with
              | nil => cases hz
              | cons z' w =>
                cases hz
                have hm : matchPat .math (c :: z :: w) .number = some (spanLen Lexer.isDigit (c :: z :: w)) := by
                  simp only [matchPat]
                  have : spanLen Lexer.isDigit (c :: z :: w) ≠ 0 := by rw [spanLen_cons, hd]; simp
                  simp [this]
                have h2 : 2 ≤ spanLen Lexer.isDigit (c :: z :: w) := by
                  rw [spanLen_cons, hd, spanLen_cons, hzd]; simp
                have := hge _ math_has_number _ hm
                omega
          · subst h66; exact RawScan.letterB t
          · -- an identifier rule matches here and stands before the catch-all rule
            exfalso
            obtain ⟨r', hr', hip, hm⟩ := idrule_at c t hst
            rw [e] at hr'
            rcases List.mem_append.1 hr' with hin | hin
            · have := hpre r' hin _ hm; omega
            · rcases List.mem_cons.1 hin with rfl | hin
              · rw [hpat] at hip; cases hip
              · have := noBefore_split _ _ pre r post (e ▸ math_any_last) (by simp [hpat]) r' hin
                rw [hip] at this; cases this
  | eof =>
    rw [hpat] at hp
    simp [matchPat] at hp

/-! ## an identifier token is one word of the scan, classified as a name -/

/-- keyword patterns: the rules whose match can be a reserved word -/
def isKwPat : LexPat → Bool
  | .lit l => l.all idStartB
  | .withIndex _ => true
  | .withNumber pre => pre == [82]
  | _ => false

/-- the general identifier rules stand after every keyword rule -/
theorem math_kw_first : noBefore (fun r => isIdPat r.pat) (fun r => isKwPat r.pat) mathRules = true := by decide +kernel

theorem math_kw_lits : ∀ l ∈ [[68], [82], [73], [90], [99, 97, 114, 100], [98, 111, 111, 108], [114, 101, 100],
    [100, 101, 98, 111, 111, 108]], l.all idStartB = true ∧ l ≠ [] ∧ mathRules.any (fun r => r.pat == .lit l) = true := by
  decide +kernel

theorem math_kw_index : ∀ pre ∈ [[80, 114], [112, 114], [70, 105]],
    mathRules.any (fun r => r.pat == .withIndex pre) = true := by decide +kernel

theorem math_kw_radical : mathRules.any (fun r => r.pat == .withNumber [82]) = true := by decide +kernel

theorem isPrefix_self_append : ∀ (l r : List Nat), isPrefix l (l ++ r) = true
  | [], _ => rfl
  | a :: l, r => by simp [isPrefix, isPrefix_self_append l r]

theorem isNumbered_split (pre w : List Nat) (h : isNumbered pre w = true) :
    ∃ d, w = pre ++ d ∧ d ≠ [] ∧ ∀ c ∈ d, Lexer.isDigit c = true := by
  unfold isNumbered at h
  simp only [Bool.and_eq_true, beq_iff_eq, Bool.not_eq_true', List.isEmpty_eq_false_iff, List.all_eq_true] at h
  refine ⟨w.drop pre.length, ?_, h.1.2, fun c hc => by rw [← isDigitC_eq]; exact h.2 c hc⟩
  conv => lhs; rw [← List.take_append_drop pre.length w, h.1.1]

/-- a reserved word is matched, at least as far, by a keyword rule of the table -/
theorem reserved_kw (p rest : List Nat) (hres : reserved p = true) :
    ∃ r ∈ mathRules, isKwPat r.pat = true ∧ ∃ m, p.length ≤ m ∧ matchPat .math (p ++ rest) r.pat = some m := by
  have lit : ∀ l ∈ [[68], [82], [73], [90], [99, 97, 114, 100], [98, 111, 111, 108], [114, 101, 100],
      [100, 101, 98, 111, 111, 108]], p = l →
      ∃ r ∈ mathRules, isKwPat r.pat = true ∧ ∃ m, p.length ≤ m ∧ matchPat .math (p ++ rest) r.pat = some m := by
    intro l hl e
    obtain ⟨h1, h2, h3⟩ := math_kw_lits l hl
    obtain ⟨r, hr, hrp⟩ := List.any_eq_true.1 h3
    have hrp' : r.pat = .lit l := by simpa using hrp
    refine ⟨r, hr, by rw [hrp']; exact h1, l.length, by rw [e]; exact Nat.le_refl _, ?_⟩
    rw [hrp', e]
    simp only [matchPat]
    rw [isPrefix_self_append]
    have : l.isEmpty = false := by simpa using h2
    simp [this]
  have idx : ∀ pre ∈ [[80, 114], [112, 114], [70, 105]], isNumbered pre p = true →
      ∃ r ∈ mathRules, isKwPat r.pat = true ∧ ∃ m, p.length ≤ m ∧ matchPat .math (p ++ rest) r.pat = some m := by
    intro pre hpre hnum
    obtain ⟨r, hr, hrp⟩ := List.any_eq_true.1 (math_kw_index pre hpre)
    have hrp' : r.pat = .withIndex pre := by simpa using hrp
    obtain ⟨d, e, hd, hall⟩ := isNumbered_split pre p hnum
    have hkd : d.length ≤ spanLen Lexer.isDigit (d ++ rest) :=
      spanLen_ge_take Lexer.isDigit (d ++ rest) d.length (by simp) (by simpa using hall)
    have hdl : 0 < d.length := List.length_pos_iff.2 hd
    refine ⟨r, hr, by rw [hrp']; rfl, pre.length + indexLen (d ++ rest), ?_, ?_⟩
    · rw [e, List.length_append]
      unfold indexLen
      simp only
      split
      · next h0 => simp at h0; omega
      · omega
    · rw [hrp', e, List.append_assoc]
      simp only [matchPat]
      rw [isPrefix_self_append, List.drop_left]
      simp only [if_true]
      have : indexLen (d ++ rest) ≠ 0 := by
        unfold indexLen
        simp only
        split
        · next h0 => simp at h0; omega
        · omega
      simp [this]
  unfold reserved at hres
  simp only [Bool.or_eq_true, beq_iff_eq] at hres
  rcases hres with ((((((((((( h | h) | h) | h) | h) | h) | h) | h) | h) | h) | h) | h)
  · exact lit _ (by simp) h
  · exact lit _ (by simp) h
  · exact lit _ (by simp) h
  · exact lit _ (by simp) h
  · exact lit _ (by simp) h
  · exact lit _ (by simp) h
  · exact lit _ (by simp) h
  · exact lit _ (by simp) h
  · exact idx _ (by simp) h
  · exact idx _ (by simp) h
  · exact idx _ (by simp) h
  · obtain ⟨r, hr, hrp⟩ := List.any_eq_true.1 math_kw_radical
    have hrp' : r.pat = .withNumber [82] := by simpa using hrp
    obtain ⟨d, e, hd, hall⟩ := isNumbered_split [82] p h
    have hkd : d.length ≤ spanLen Lexer.isDigit (d ++ rest) :=
      spanLen_ge_take Lexer.isDigit (d ++ rest) d.length (by simp) (by simpa using hall)
    have hdl : 0 < d.length := List.length_pos_iff.2 hd
    refine ⟨r, hr, by rw [hrp']; rfl, 1 + spanLen Lexer.isDigit (d ++ rest), ?_, ?_⟩
    · rw [e]; simp; omega
    · rw [hrp', e]
      simp only [matchPat, List.cons_append, List.nil_append, isPrefix, beq_self_eq_true, Bool.and_true, List.length_cons,
        List.length_nil, List.drop_succ_cons, List.drop_zero, if_true]
      have : spanLen Lexer.isDigit (d ++ rest) ≠ 0 := by omega
      simp [this]

theorem fp_not_reserved (c0 d0 : Nat) (d' : List Nat) (hc : c0 = 70 ∨ c0 = 80) (hd : Lexer.isDigit d0 = true) :
    reserved (c0 :: d0 :: d') = false := by
  have h1 : d0 ≠ 105 ∧ d0 ≠ 114 := by
    unfold Lexer.isDigit at hd
    simp only [Bool.and_eq_true, decide_eq_true_eq] at hd
    omega
  rcases hc with rfl | rfl <;> simp [reserved, isNumbered, h1.1, h1.2]

/-- the piece of the word-level specification that stands for an identifier token -/
def idPiece (k : Tok) (w : List Nat) : Piece := if k = .ID_LOCAL then .loc w else .glob w

/-- **an identifier token is passed by the scan as one word, classified as a global name (global,
function, predicate) or a local name** -/
theorem piece_id (s : List Nat) (n : Nat) (k : Tok) (hk : filterIdentifiers k = true)
    (hb : bestRule .math s mathRules none = some (n + 1, .tok k)) :
    pieces s = idPiece k (s.take (n + 1)) :: pieces (s.drop (n + 1)) := by
  obtain ⟨a, t, es, ha, _⟩ := id_best_shape s _ k hk hb
  subst es
  obtain ⟨ad, _, aa, _, _, _, _⟩ := idStartB_facts a ha
  have hb66 : a ≠ 66 := by intro e; rw [e] at ha; revert ha; decide
  rcases bestRule_first .math (a :: t) mathRules none _ _ hb with h' | ⟨pre, r, post, e, hact, hp, hpre, _⟩
  · cases h'
  have hr : r ∈ mathRules := by rw [e]; simp
  have hge := (bestRule_ge .math (a :: t) mathRules none _ _ hb).2
  have hle := bestRule_le _ _ _ hb
  obtain ⟨g1, g2, g3, g4⟩ := math_id_rules r hr
  -- the token is the whole word
  have hlow : 1 + spanLen (isAlnum .math) t ≤ n + 1 := by
    obtain ⟨r', hr', _, hm⟩ := idrule_at a t ha
    exact hge r' hr' _ hm
  have numlen : ∀ c0, matchPat .math (a :: t) (.withNumber [c0]) = some (n + 1) →
      a = c0 ∧ n + 1 = 1 + spanLen Lexer.isDigit t ∧ spanLen Lexer.isDigit t ≠ 0 := by
    intro c0 hm
    simp only [matchPat, isPrefix, Bool.and_true, List.length_cons, List.length_nil, List.drop_succ_cons, List.drop_zero] at hm
    split at hm
    · next hpre0 =>
      split at hm
      · cases hm
      · next hk0 =>
        refine ⟨(by simpa using hpre0 : c0 = a).symm, ?_, by simpa using hk0⟩
        simp at hm; omega
    · cases hm
  -- length, case of the first letter, and not a reserved word
  have key : n + 1 = 1 + spanLen (isAlnum .math) t ∧ (isUpper a = true ↔ k ≠ .ID_LOCAL) ∧
      reserved ((a :: t).take (n + 1)) = false := by
    have viaIdPat : isIdPat r.pat = true → reserved ((a :: t).take (n + 1)) = false := by
      intro hip
      cases hres : reserved ((a :: t).take (n + 1)) with
      | false => rfl
      | true =>
        exfalso
        obtain ⟨rk, hrk, hkw, m, hm1, hm2⟩ := reserved_kw _ ((a :: t).drop (n + 1)) hres
        rw [List.take_append_drop] at hm2
        have hm3 := hge rk hrk m hm2
        have hm4 : m = n + 1 := by
          rw [List.length_take] at hm1; omega
        subst hm4
        rw [e] at hrk
        rcases List.mem_append.1 hrk with hin | hin
        · have := hpre rk hin _ hm2; omega
        · rcases List.mem_cons.1 hin with rfl | hin
          · cases hpat : rk.pat <;> rw [hpat] at hip hkw <;> simp [isIdPat, isKwPat] at hip hkw
          · have := noBefore_split _ _ pre r post (e ▸ math_kw_first) hip rk hin
            rw [hkw] at this; cases this
    have viaNum : ∀ c0, (c0 = 70 ∨ c0 = 80) → matchPat .math (a :: t) (.withNumber [c0]) = some (n + 1) → k ≠ .ID_LOCAL →
        n + 1 = 1 + spanLen (isAlnum .math) t ∧ (isUpper a = true ↔ k ≠ .ID_LOCAL) ∧
          reserved ((a :: t).take (n + 1)) = false := by
      intro c0 hc0 hm hkl
      obtain ⟨e1, e2, e3⟩ := numlen c0 hm
      have h1 := spanLen_mono Lexer.isDigit (isAlnum .math) isDigit_isAlnum t
      refine ⟨by omega, ⟨fun _ => hkl, fun _ => by rw [e1]; rcases hc0 with rfl | rfl <;> decide⟩, ?_⟩
      rw [List.take_succ_cons]
      have hn : n = spanLen Lexer.isDigit t := by omega
      cases t with
      | nil => simp [spanLen] at e3
      | cons d0 d' =>
        rw [hn]
        have hd0 : Lexer.isDigit d0 = true := by
          cases hd : Lexer.isDigit d0 with
          | true => rfl
          | false => rw [spanLen_cons, hd] at e3; simp at e3
        rw [spanLen_cons, hd0]
        simp only [if_true, List.take_succ_cons]
        exact fp_not_reserved a d0 _ (e1 ▸ hc0) hd0
    unfold filterIdentifiers at hk
    simp only [Bool.or_eq_true, decide_eq_true_eq] at hk
    rcases hk with ((hk | hk) | hk) | hk
    · subst hk
      have hpat := g1 hact
      rw [hpat] at hp
      simp only [matchPat] at hp
      split at hp
      · next hgs =>
        refine ⟨by simpa using hp.symm, ⟨fun _ => by decide, fun _ => ?_⟩, viaIdPat (by rw [hpat]; rfl)⟩
        unfold isGlobalStart at hgs
        simp only [Bool.and_eq_true] at hgs
        exact hgs.1
      · cases hp
    · subst hk
      rw [g3 hact] at hp
      exact viaNum 70 (Or.inl rfl) hp (by decide)
    · subst hk
      rw [g4 hact] at hp
      exact viaNum 80 (Or.inr rfl) hp (by decide)
    · subst hk
      have hpat := g2 hact
      rw [hpat] at hp
      simp only [matchPat] at hp
      split at hp
      · next hls =>
        refine ⟨by simpa using hp.symm, ⟨fun hu => ?_, fun h => absurd rfl h⟩, viaIdPat (by rw [hpat]; rfl)⟩
        exfalso
        unfold isLocalStart isLower at hls
        unfold isUpper at hu
        simp only [Bool.or_eq_true, Bool.and_eq_true, decide_eq_true_eq, beq_iff_eq] at hls hu
        omega
      · cases hp
  obtain ⟨k1, k2, k3⟩ := key
  have hsp : spanLen (isAlnum .math) (a :: t) = n + 1 := by rw [spanLen_cons, aa]; simp; omega
  rw [pieces_word a t ad hb66 aa, hsp]
  congr 1
  unfold classify idPiece
  rw [k3]
  simp only [Bool.false_eq_true, if_false, List.take_succ_cons]
  rw [isUpperC_eq]
  by_cases hkl : k = .ID_LOCAL
  · rw [if_pos hkl]
    have : isUpper a = false := by
      cases hu : isUpper a with
      | false => rfl
      | true => exact absurd hkl (k2.1 hu)
    rw [this]; rfl
  · rw [if_neg hkl, k2.2 hkl]; rfl

/-! ## the outputs -/

/-- the filter that corresponds to the `locals` flag of the word-level specification -/
def filterOf (locals : Bool) : Tok → Bool := if locals then filterIdentifiers else filterGlobals

theorem filterOf_id (locals : Bool) (k : Tok) (h : filterOf locals k = true) : filterIdentifiers k = true := by
  cases locals
  · exact C08aux k h
  · exact h
where
  C08aux (k : Tok) (h : filterGlobals k = true) : filterIdentifiers k = true := by
    unfold filterGlobals at h
    unfold filterIdentifiers
    rw [h]; rfl

/-- output of the word-level translation over a list of pieces, without accumulator -/
def outP (locals : Bool) (tr : Translator) : List Piece → Bytes × Nat
  | [] => ([], 0)
  | p :: ps => ((translatePiece locals tr p).1 ++ (outP locals tr ps).1, (translatePiece locals tr p).2 + (outP locals tr ps).2)

theorem foldl_outP (locals : Bool) (tr : Translator) : ∀ (ps : List Piece) (acc : Bytes × Nat),
    ps.foldl (fun acc p => let r := translatePiece locals tr p; (acc.1 ++ r.1, acc.2 + r.2)) acc =
      (acc.1 ++ (outP locals tr ps).1, acc.2 + (outP locals tr ps).2)
  | [], acc => by simp [outP]
  | p :: ps, acc => by
    rw [List.foldl_cons, foldl_outP locals tr ps]
    simp only [outP, List.append_assoc, Nat.add_assoc]

theorem translateWords_outP (locals : Bool) (tr : Translator) (cps : List Nat) :
    translateWords locals tr cps = outP locals tr (pieces cps) := by
  unfold translateWords
  rw [foldl_outP]
  simp

theorem outP_raws (locals : Bool) (tr : Translator) : ∀ (ws : List (List Nat)) (ps : List Piece),
    outP locals tr (ws.map Piece.raw ++ ps) = (encode ws.flatten ++ (outP locals tr ps).1, (outP locals tr ps).2)
  | [], ps => by simp [encode]
  | w :: ws, ps => by
    rw [List.map_cons, List.cons_append, outP, outP_raws locals tr ws ps]
    simp [translatePiece, accepts, pieceBytes, encode_append]

theorem outP_rawScan (locals : Bool) (tr : Translator) (q rest : List Nat) (h : RawScan q rest) :
    outP locals tr (pieces (q ++ rest)) = (encode q ++ (outP locals tr (pieces rest)).1, (outP locals tr (pieces rest)).2) := by
  obtain ⟨ws, e, f⟩ := h
  rw [e, outP_raws, f]

/-- what the word-level specification does with the piece of an identifier token is what the
token-level one does with the token -/
theorem translatePiece_id (locals : Bool) (tr : Translator) (t : RawTok) (hk : filterIdentifiers t.id = true) :
    translatePiece locals tr (idPiece t.id t.text) =
      (newText (filterOf locals) tr t, if isChanged (filterOf locals) tr t then 1 else 0) := by
  have hacc : accepts locals (idPiece t.id t.text) = if filterOf locals t.id then some t.text else none := by
    unfold idPiece filterOf
    by_cases hl : t.id = .ID_LOCAL
    · rw [if_pos hl, hl]
      cases locals <;> simp [accepts, filterGlobals, filterIdentifiers]
    · rw [if_neg hl]
      have hg : filterGlobals t.id = true := by
        unfold filterIdentifiers at hk
        unfold filterGlobals
        simp only [Bool.or_eq_true, decide_eq_true_eq] at hk ⊢
        rcases hk with h | h
        · exact h
        · exact absurd h hl
      cases locals <;> simp [accepts, hg, hk]
  unfold translatePiece
  rw [hacc]
  unfold newText isChanged
  cases hf : filterOf locals t.id with
  | false =>
    simp only [Bool.false_eq_true, if_false, Bool.false_and]
    unfold idPiece
    split <;> rfl
  | true =>
    simp only [if_true, Bool.true_and]
    cases tr (encode t.text) with
    | none => rfl
    | some n =>
      simp only [Option.getD_some]
      by_cases hne : n = encode t.text
      · simp [hne]
      · simp [hne]

theorem weaveToks_shift (f : Tok → Bool) (tr : Translator) (cps : List Nat) {cur cur' : Nat} (h : cur ≤ cur') :
    ∀ (ts : List RawTok), LaidOn cps cur' ts →
      weaveToks f tr cps cur ts = encode (slice cps cur cur') ++ weaveToks f tr cps cur' ts
  | [], _ => by
    unfold weaveToks slice
    have e : cps.drop cur' = (cps.drop cur).drop (cur' - cur) := by rw [List.drop_drop]; congr 1; omega
    rw [e, ← encode_append, List.take_append_drop]
  | t :: ts, hl => by
    unfold weaveToks
    rw [slice_split cps h hl.1, encode_append]
    simp only [List.append_assoc]

/-- **the induction along the scanning loop**: the word-level translation of the text from a piece
boundary on is the token-level weave from there on -/
theorem words_run (locals : Bool) (tr : Translator) (cps : List Nat) :
    ∀ (fuel : Nat) (s : List Nat) (lb col : Nat) (ts : List RawTok),
      lexGo .math mathRules fuel s lb col = some ts → cps.drop (lb + col) = s →
      outP locals tr (pieces s) =
        (weaveToks (filterOf locals) tr cps (lb + col) (untilEnd ts), changed (filterOf locals) tr (untilEnd ts)) := by
  intro fuel
  induction fuel with
  | zero => intro s lb col ts h; simp [lexGo] at h
  | succ fuel ih =>
    intro s lb col ts h hs
    cases s with
    | nil =>
      simp only [lexGo] at h
      rw [math_eof] at h
      have h := Option.some.inj h
      subst h
      have hu : untilEnd [(⟨.END, lb + col, lb + col, []⟩ : RawTok)] = [] := by simp [Translate.untilEnd]
      rw [hu]
      simp [pieces_nil, outP, weaveToks, hs, encode, changed]
    | cons c r =>
      simp only [lexGo] at h
      cases hb : bestRule .math (c :: r) mathRules none with
      | none => rw [hb] at h; cases h
      | some na =>
        obtain ⟨n, act⟩ := na
        rw [hb] at h
        cases n with
        | zero => simp at h
        | succ n =>
          simp only at h
          have hle := bestRule_le _ _ _ hb
          have htl : ((c :: r).take (n + 1)).length = n + 1 := by rw [List.length_take]; omega
          have hnext : cps.drop (lb + (col + (n + 1))) = (c :: r).drop (n + 1) := by
            rw [← hs, List.drop_drop]; congr 1; omega
          have hslice : slice cps (lb + col) (lb + (col + (n + 1))) = (c :: r).take (n + 1) := by
            unfold slice; rw [hs]; congr 1; omega
          have hsplit : c :: r = (c :: r).take (n + 1) ++ (c :: r).drop (n + 1) := (List.take_append_drop _ _).symm
          cases act with
          | tok k =>
            simp only at h
            cases hr : lexGo .math mathRules fuel ((c :: r).drop (n + 1)) lb (col + (n + 1)) with
            | none => rw [hr] at h; cases h
            | some rest =>
              rw [hr] at h
              have h := Option.some.inj h
              subst h
              have hkne := best_ne_end _ _ k hb
              rw [untilEnd_cons_ne _ _ hkne]
              have ihr := ih _ _ _ _ hr hnext
              rw [changed_cons, weaveToks]
              have hs0 : slice cps (lb + col) (lb + col) = [] := by simp [slice]
              simp only [htl, hs0, List.nil_append, Nat.add_assoc lb col (n + 1)]
              have he0 : encode ([] : List Nat) = [] := rfl
              rw [he0, List.nil_append]
              cases hki : filterIdentifiers k with
              | true =>
                rw [piece_id _ n k hki hb, outP, ihr]
                have := translatePiece_id locals tr ⟨k, lb + col, lb + col + width .math ((c :: r).take (n + 1)), (c :: r).take (n + 1)⟩ hki
                simp only at this
                rw [this]
              | false =>
                have hraw := piece_raw (c :: r) n (.tok k) hb hki
                have hout := outP_rawScan locals tr _ _ hraw
                rw [← hsplit] at hout
                rw [hout, ihr]
                have hfk : filterOf locals k = false := by
                  cases hfo : filterOf locals k with
                  | false => rfl
                  | true => rw [filterOf_id locals k hfo] at hki; cases hki
                simp [newText, isChanged, hfk]
          | skip =>
            have ihr := ih _ _ _ _ h hnext
            have hlaid := (lexGo_laid cps _ _ _ _ _ h hnext).untilEnd
            have hW := weaveToks_shift (filterOf locals) tr cps (show lb + col ≤ lb + (col + (n + 1)) by omega) _ hlaid
            rw [hslice] at hW
            have hraw := piece_raw (c :: r) n .skip hb rfl
            have hout := outP_rawScan locals tr _ _ hraw
            rw [← hsplit] at hout
            rw [hout, ihr, hW]
          | newline =>
            have hn1 : n + 1 = 1 := by
              rcases bestRule_origin .math (c :: r) mathRules none (n + 1) .newline hb with h' | ⟨r', hr', ha, hp⟩
              · cases h'
              · have := math_newline_rules r' hr' ha
                rw [this] at hp
                simp only [matchPat] at hp
                split at hp <;> simp at hp
                omega
            have hnext' : cps.drop (lb + (col + 1) + 0) = (c :: r).drop (n + 1) := by
              rw [← hnext]; congr 1; omega
            have ihr := ih _ _ _ _ h hnext'
            have hlaid := (lexGo_laid cps _ _ _ _ _ h hnext').untilEnd
            have hW := weaveToks_shift (filterOf locals) tr cps (show lb + col ≤ lb + (col + 1) + 0 by omega) _ hlaid
            have hslice' : slice cps (lb + col) (lb + (col + 1) + 0) = (c :: r).take (n + 1) := by
              rw [← hslice]; congr 1; omega
            rw [hslice'] at hW
            have hraw := piece_raw (c :: r) n .newline hb rfl
            have hout := outP_rawScan locals tr _ _ hraw
            rw [← hsplit] at hout
            rw [hout, ihr, hW]

/-- **the word-level specification agrees with the token-level one**, on every text -/
theorem words_eq_tokens (locals : Bool) (tr : Translator) (cps : List Nat) (toks : List RawTok) (hl : lexMath cps = some toks) :
    translateWords locals tr cps = (weaveToks (filterOf locals) tr cps 0 toks, changed (filterOf locals) tr toks) := by
  rw [translateWords_outP]
  unfold lexMath at hl
  cases hr : lexRaw .math cps with
  | none => rw [hr] at hl; cases hl
  | some ts =>
    rw [hr] at hl
    have hl := Option.some.inj hl
    subst hl
    unfold lexRaw at hr
    have := words_run locals tr cps _ cps 0 0 ts hr (by simp)
    simpa using this

end CCVerif.Translate
