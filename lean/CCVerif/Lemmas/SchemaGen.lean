import CCVerif.Model.SchemaGen
import CCVerif.Lemmas.Schema
/-!
Lemmas for the generic form of C07 (`Model/SchemaGen.lean`: incremental schema re-analysis =
analysis from scratch, for ANY per-constituent analysis that satisfies the frame laws `Lawful`).

The development follows `Lemmas/Schema.lean`; what was specific to the definition fragment there
(the typing derivations `Typed`) is replaced by

* `Val A s u i` — the least solution of "the entry of `u` is the successful result `i` of the
  analysis of `u` against the successful entries of everything it mentions",
* `Final A s u i` — the entry every complete analysis assigns to `u`: the analysis of `u` against a
  context in which every mentioned constituent with a `Val` shows it and every other one shows some
  unsuccessful entry. By the laws it is a function of the store.

* §2 store look-ups      * §3 laws, `Val`, `Final`      * §4 folding `parseCst`
* §5 the dependency graph is current      * §7 `updateState`      * §8 `triggerParse`
* §9 the invariant over histories
(§1 `sortDedup` and §6 `TopologicalOrder` are those of `Lemmas/Schema.lean`.)
-/
namespace CCVerif.SchemaGen
open CCVerif CCVerif.Graph
open CCVerif.Schema (Kind sortDedup lookup mem_sortDedup sortDedup_sorted sortDedup_nodup sorted_ext
  sortDedup_congr topo_before mem_topologicalOrder acyclic_of_inputs before_filter flatMap_congr'
  find_filter_of_imp)

variable {D I : Type} {A : Analysis D I}

/-! ## §2 store look-ups -/

def uids (s : List (Cst D)) : List Nat := s.map (·.uid)
def findAliasL (s : List (Cst D)) (a : String) : Option Nat := (s.find? (·.alias == a)).map (·.uid)
def inputsOfL (A : Analysis D I) (s : List (Cst D)) (c : Cst D) : List Nat :=
  sortDedup ((A.mentions c.defn).filterMap (findAliasL s))

theorem findAlias_eq (st : St D I) (a : String) : st.findAlias a = findAliasL st.store a := rfl
theorem inputsOf_eq (st : St D I) (c : Cst D) : st.inputsOf A c = inputsOfL A st.store c := rfl

theorem mem_uids {s : List (Cst D)} {u : Nat} : u ∈ uids s ↔ ∃ c ∈ s, c.uid = u := by
  simp [uids]

theorem eq_of_uid_eq {s : List (Cst D)} (hn : (uids s).Nodup) {c d : Cst D} (hc : c ∈ s) (hd : d ∈ s)
    (h : c.uid = d.uid) : c = d := by
  induction s with
  | nil => cases hc
  | cons x xs ih =>
    simp only [uids, List.map_cons, List.nodup_cons] at hn
    obtain ⟨h1, h2⟩ := hn
    rcases List.mem_cons.1 hc with e1 | hc <;> rcases List.mem_cons.1 hd with e2 | hd
    · rw [e1, e2]
    · exact absurd (List.mem_map.2 ⟨d, hd, by rw [← h, e1]⟩) h1
    · exact absurd (List.mem_map.2 ⟨c, hc, by rw [h, e2]⟩) h1
    · exact ih h2 hc hd

theorem find_uid_of_mem {s : List (Cst D)} (hn : (uids s).Nodup) {c : Cst D} (hc : c ∈ s) :
    s.find? (·.uid == c.uid) = some c := by
  cases hf : s.find? (·.uid == c.uid) with
  | none =>
    have := List.find?_eq_none.1 hf c hc
    simp at this
  | some d =>
    have hd := List.mem_of_find?_eq_some hf
    have hu : d.uid = c.uid := by simpa using List.find?_some hf
    rw [eq_of_uid_eq hn hd hc hu]

theorem at_of_mem {st : St D I} (hn : (uids st.store).Nodup) {c : Cst D} (hc : c ∈ st.store) :
    st.at c.uid = some c := find_uid_of_mem hn hc

theorem mem_of_at {st : St D I} {u : Nat} {c : Cst D} (h : st.at u = some c) : c ∈ st.store ∧ c.uid = u := by
  unfold St.at at h
  exact ⟨List.mem_of_find?_eq_some h, by simpa using List.find?_some h⟩

theorem at_none {st : St D I} {u : Nat} (h : st.at u = none) : u ∉ uids st.store := by
  unfold St.at at h
  intro hu
  obtain ⟨c, hc, rfl⟩ := mem_uids.1 hu
  have := List.find?_eq_none.1 h c hc
  simp at this

theorem contains_iff {st : St D I} {u : Nat} : st.contains u = true ↔ u ∈ uids st.store := by
  unfold St.contains
  cases h : st.at u with
  | none => simpa using at_none h
  | some c =>
    obtain ⟨h1, h2⟩ := mem_of_at h
    simpa using mem_uids.2 ⟨c, h1, h2⟩

theorem findAliasL_mem {s : List (Cst D)} {a : String} {u : Nat} (h : findAliasL s a = some u) :
    ∃ c ∈ s, c.uid = u ∧ c.alias = a := by
  unfold findAliasL at h
  cases hf : s.find? (·.alias == a) with
  | none => rw [hf] at h; cases h
  | some c =>
    rw [hf] at h
    refine ⟨c, List.mem_of_find?_eq_some hf, by simpa using h, by simpa using List.find?_some hf⟩

theorem findAliasL_uids {s : List (Cst D)} {a : String} {u : Nat} (h : findAliasL s a = some u) :
    u ∈ uids s := by
  obtain ⟨c, hc, hu, _⟩ := findAliasL_mem h
  exact mem_uids.2 ⟨c, hc, hu⟩

theorem mem_inputsOfL {s : List (Cst D)} {c : Cst D} {a : Nat} :
    a ∈ inputsOfL A s c ↔ ∃ m ∈ A.mentions c.defn, findAliasL s m = some a := by
  unfold inputsOfL
  rw [mem_sortDedup, List.mem_filterMap]

theorem inputsOfL_nodup (s : List (Cst D)) (c : Cst D) : (inputsOfL A s c).Nodup := sortDedup_nodup _

theorem inputsOfL_uids {s : List (Cst D)} {c : Cst D} {a : Nat} (h : a ∈ inputsOfL A s c) : a ∈ uids s := by
  obtain ⟨m, _, hm⟩ := mem_inputsOfL.1 h
  exact findAliasL_uids hm

/-! ### `info` look-ups -/

theorem find_map_set_ne (l : List (Nat × I)) (u v : Nat) (i : I) (h : v ≠ u) :
    (l.map (fun p => if p.1 == u then (u, i) else p)).find? (·.1 == v) = l.find? (·.1 == v) := by
  induction l with
  | nil => rfl
  | cons p ps ih =>
    rw [List.map_cons, List.find?_cons, List.find?_cons, ih]
    by_cases hp : p.1 = u
    · have h1 : (p.1 == u) = true := by simpa using hp
      have h2 : (u == v) = false := by simpa using fun e => h e.symm
      have h3 : (p.1 == v) = false := by simpa [hp] using fun e => h e.symm
      simp [h1, h2, h3]
    · have h1 : (p.1 == u) = false := by simpa using hp
      simp [h1]

theorem find_map_set_self (l : List (Nat × I)) (u : Nat) (i : I)
    (h : l.any (·.1 == u) = true) :
    (l.map (fun p => if p.1 == u then (u, i) else p)).find? (·.1 == u) = some (u, i) := by
  induction l with
  | nil => simp at h
  | cons p ps ih =>
    rw [List.map_cons, List.find?_cons]
    by_cases hp : p.1 = u
    · simp [hp]
    · have h1 : (p.1 == u) = false := by simpa using hp
      rw [List.any_cons, h1, Bool.false_or] at h
      simp only [h1, Bool.false_eq_true, if_false]
      exact ih h

theorem any_map_set (l : List (Nat × I)) (u v : Nat) (i : I) :
    (l.map (fun p => if p.1 == u then (u, i) else p)).any (·.1 == v) = l.any (·.1 == v) := by
  induction l with
  | nil => rfl
  | cons p ps ih =>
    rw [List.map_cons, List.any_cons, List.any_cons, ih]
    congr 1
    by_cases hp : p.1 = u
    · simp [hp]
    · have h1 : (p.1 == u) = false := by simpa using hp
      simp [h1]

theorem infoFor_setInfo_ne {st : St D I} {u v : Nat} (i : I) (h : v ≠ u) :
    (st.setInfo u i).infoFor A v = st.infoFor A v := by
  unfold St.infoFor St.setInfo
  simp only
  rw [find_map_set_ne _ _ _ _ h]

theorem hasInfo_setInfo {st : St D I} {u v : Nat} (i : I) :
    (st.setInfo u i).hasInfo v = st.hasInfo v := any_map_set _ _ _ _

theorem infoFor_setInfo_self {st : St D I} {u : Nat} (i : I) (h : st.hasInfo u = true) :
    (st.setInfo u i).infoFor A u = i := by
  unfold St.infoFor St.setInfo
  simp only
  rw [find_map_set_self _ _ _ h]
  rfl

theorem setInfo_store (st : St D I) (u : Nat) (i : I) : (st.setInfo u i).store = st.store := rfl
theorem setInfo_graph (st : St D I) (u : Nat) (i : I) : (st.setInfo u i).graph = st.graph := rfl
theorem setInfo_invalid (st : St D I) (u : Nat) (i : I) : (st.setInfo u i).invalid = st.invalid := rfl

/-! ## §3 the laws of an analysis, the intended entries -/

/-- two context entries the analysis may not tell apart: equal, or both unsuccessful entries of
existing constituents (`TypeFor`, `FunctionArgsFor`, `VCContext`, `ASTContext` read only fields that
`Reset` clears and that are filled only after a successful analysis; `status` is not read) -/
def Sim (A : Analysis D I) (o o' : Option I) : Prop :=
  o = o' ∨ ∃ i j, o = some i ∧ o' = some j ∧ A.ok i = false ∧ A.ok j = false

/-- the FRAME hypotheses on the analysis -/
structure Lawful (A : Analysis D I) : Prop where
  /-- a reset entry is not a successful one -/
  reset_not_ok : A.ok A.reset = false
  /-- frame: the analysis reads the context only at the names the graph updater extracts, and only
  up to `Sim` (a name that denotes nothing IS told apart from a name whose constituent has no
  successful entry) -/
  frame : ∀ (sk : Skel) (ctx ctx' : String → Option I) (c : Cst D),
    (∀ m ∈ A.mentions c.defn, Sim A (ctx m) (ctx' m)) → A.analyse sk ctx c = A.analyse sk ctx' c
  /-- strictness: a mentioned constituent without a successful entry makes the analysis fail -/
  strict : ∀ (sk : Skel) (ctx : String → Option I) (c : Cst D) (m : String) (i : I),
    m ∈ A.mentions c.defn → ctx m = some i → A.ok i = false → A.ok (A.analyse sk ctx c) = false

/-- the context in which the constituent with uid `v` shows the entry `jf v` -/
def ctxOf (s : List (Cst D)) (jf : Nat → I) : String → Option I := fun m => (findAliasL s m).map jf

theorem ctx_eq (st : St D I) : st.ctx A = ctxOf st.store (st.infoFor A) := rfl

/-- `Val A s u i`: `i` is the successful entry of `u` — least solution. Depends on the store only. -/
inductive Val (A : Analysis D I) (s : List (Cst D)) : Nat → I → Prop
  | mk {c : Cst D} (jf : Nat → I) : c ∈ s →
      (∀ m ∈ A.mentions c.defn, ∀ v, findAliasL s m = some v → Val A s v (jf v)) →
      A.ok (A.analyse (skelOf s) (ctxOf s jf) c) = true →
      Val A s c.uid (A.analyse (skelOf s) (ctxOf s jf) c)

theorem Val.inv {s : List (Cst D)} {u : Nat} {i : I} (h : Val A s u i) :
    ∃ c ∈ s, c.uid = u ∧ ∃ jf : Nat → I,
      (∀ m ∈ A.mentions c.defn, ∀ v, findAliasL s m = some v → Val A s v (jf v)) ∧
      A.ok i = true ∧ i = A.analyse (skelOf s) (ctxOf s jf) c := by
  cases h with
  | mk jf hc hd hok => exact ⟨_, hc, rfl, jf, hd, hok, rfl⟩

theorem Val.ok {s : List (Cst D)} {u : Nat} {i : I} (h : Val A s u i) : A.ok i = true := by
  obtain ⟨_, _, _, _, _, h, _⟩ := h.inv
  exact h

theorem Val.mem {s : List (Cst D)} {u : Nat} {i : I} (h : Val A s u i) : u ∈ uids s := by
  obtain ⟨c, hc, hu, _⟩ := h.inv
  exact mem_uids.2 ⟨c, hc, hu⟩

theorem ctxOf_congr {s : List (Cst D)} {jf jf' : Nat → I} {m : String}
    (h : ∀ v, findAliasL s m = some v → jf v = jf' v) : ctxOf s jf m = ctxOf s jf' m := by
  unfold ctxOf
  cases hf : findAliasL s m with
  | none => rfl
  | some v => simp only [Option.map_some]; rw [h v hf]

theorem Val.unique (hA : Lawful A) {s : List (Cst D)} (hn : (uids s).Nodup) {u : Nat} {i j : I}
    (h1 : Val A s u i) (h2 : Val A s u j) : i = j := by
  induction h1 generalizing j with
  | @mk c jf hc hd hok ih =>
    obtain ⟨c', hc', hu, jf', hd', _, rfl⟩ := h2.inv
    have := eq_of_uid_eq hn hc' hc hu
    subst this
    apply hA.frame
    intro m hm
    left
    exact ctxOf_congr (fun v hv => ih m hm v hv (hd' m hm v hv))

/-- what a mentioned constituent shows in a complete analysis: its successful entry if it has one,
some unsuccessful entry otherwise -/
def DepOk (A : Analysis D I) (s : List (Cst D)) (v : Nat) (j : I) : Prop :=
  Val A s v j ∨ (A.ok j = false ∧ ∀ j', ¬ Val A s v j')

/-- `Final A s u i`: `i` is the entry of `u` in a complete analysis of the store `s` -/
def Final (A : Analysis D I) (s : List (Cst D)) (u : Nat) (i : I) : Prop :=
  ∃ c ∈ s, c.uid = u ∧ ∃ jf : Nat → I,
    (∀ m ∈ A.mentions c.defn, ∀ v, findAliasL s m = some v → DepOk A s v (jf v)) ∧
    i = A.analyse (skelOf s) (ctxOf s jf) c

theorem Val.final {s : List (Cst D)} {u : Nat} {i : I} (h : Val A s u i) : Final A s u i := by
  obtain ⟨c, hc, hu, jf, hd, _, e⟩ := h.inv
  exact ⟨c, hc, hu, jf, fun m hm v hv => Or.inl (hd m hm v hv), e⟩

theorem DepOk.sim (hA : Lawful A) {s : List (Cst D)} (hn : (uids s).Nodup) {v : Nat} {j j' : I}
    (h : DepOk A s v j) (h' : DepOk A s v j') : j = j' ∨ (A.ok j = false ∧ A.ok j' = false) := by
  rcases h with h | ⟨h1, h2⟩ <;> rcases h' with h' | ⟨h1', h2'⟩
  · exact Or.inl (h.unique hA hn h')
  · exact absurd h (h2' j)
  · exact absurd h' (h2 j')
  · exact Or.inr ⟨h1, h1'⟩

theorem Final.unique (hA : Lawful A) {s : List (Cst D)} (hn : (uids s).Nodup) {u : Nat} {i j : I}
    (h1 : Final A s u i) (h2 : Final A s u j) : i = j := by
  obtain ⟨c, hc, hu, jf, hd, rfl⟩ := h1
  obtain ⟨c', hc', hu', jf', hd', rfl⟩ := h2
  have := eq_of_uid_eq hn hc' hc (hu'.trans hu.symm)
  subst this
  apply hA.frame
  intro m hm
  unfold ctxOf
  cases hf : findAliasL s m with
  | none => exact Or.inl rfl
  | some v =>
    rcases (hd m hm v hf).sim hA hn (hd' m hm v hf) with e | ⟨e1, e2⟩
    · left; simp only [Option.map_some]; rw [e]
    · right; exact ⟨jf v, jf' v, rfl, rfl, e1, e2⟩

/-- a successful final entry is the `Val` -/
theorem Final.val (hA : Lawful A) {s : List (Cst D)} {u : Nat} {i : I} (h : Final A s u i)
    (hok : A.ok i = true) : Val A s u i := by
  obtain ⟨c, hc, hu, jf, hd, rfl⟩ := h
  rw [← hu]
  refine Val.mk jf hc (fun m hm v hv => ?_) hok
  rcases hd m hm v hv with h | ⟨h1, _⟩
  · exact h
  · have := hA.strict (skelOf s) (ctxOf s jf) c m (jf v) hm (by unfold ctxOf; rw [hv]; rfl) h1
    rw [this] at hok
    cases hok

theorem Final.eq_val (hA : Lawful A) {s : List (Cst D)} (hn : (uids s).Nodup) {u : Nat} {i j : I}
    (h : Final A s u i) (hv : Val A s u j) : i = j := h.unique hA hn hv.final

/-- a final entry is what a mentioning constituent may see -/
theorem Final.depOk (hA : Lawful A) {s : List (Cst D)} (hn : (uids s).Nodup) {u : Nat} {i : I}
    (h : Final A s u i) : DepOk A s u i := by
  cases hok : A.ok i with
  | true => exact Or.inl (h.val hA hok)
  | false =>
    refine Or.inr ⟨hok, fun j' hj' => ?_⟩
    have := h.eq_val hA hn hj'
    rw [this, hj'.ok] at hok
    cases hok

theorem Val.transfer {s s' : List (Cst D)} (Q : Nat → Prop) (hmem : ∀ c ∈ s, Q c.uid → c ∈ s')
    (hfa : ∀ m, findAliasL s' m = findAliasL s m) (hsk : skelOf s' = skelOf s)
    (hcl : ∀ c ∈ s, Q c.uid → ∀ m ∈ A.mentions c.defn, ∀ v, findAliasL s m = some v → Q v)
    {u : Nat} {i : I} (h : Val A s u i) : Q u → Val A s' u i := by
  have hctx : ∀ jf : Nat → I, ctxOf s' jf = ctxOf s jf := by
    intro jf; funext m; unfold ctxOf; rw [hfa]
  induction h with
  | @mk c jf hc hd hok ih =>
    intro hq
    have := Val.mk (A := A) (s := s') jf (hmem c hc hq)
      (fun m hm v hv => ih m hm v (by rw [← hfa]; exact hv) (hcl c hc hq m hm v (by rw [← hfa]; exact hv)))
      (by rw [hsk, hctx]; exact hok)
    rw [hsk, hctx] at this
    exact this

/-- the final entry of `u` only depends on the constituents `u` reaches backwards (a set `Q`
closed under resolved mentions) -/
theorem Final.transfer {s s' : List (Cst D)} (Q : Nat → Prop) (hmem : ∀ c ∈ s, Q c.uid → c ∈ s')
    (hmem' : ∀ c ∈ s', Q c.uid → c ∈ s)
    (hfa : ∀ m, findAliasL s' m = findAliasL s m) (hsk : skelOf s' = skelOf s)
    (hcl : ∀ c ∈ s, Q c.uid → ∀ m ∈ A.mentions c.defn, ∀ v, findAliasL s m = some v → Q v)
    {u : Nat} {i : I} (h : Final A s u i) (hq : Q u) : Final A s' u i := by
  have hctx : ∀ jf : Nat → I, ctxOf s' jf = ctxOf s jf := by
    intro jf; funext m; unfold ctxOf; rw [hfa]
  have hcl' : ∀ c ∈ s', Q c.uid → ∀ m ∈ A.mentions c.defn, ∀ v, findAliasL s' m = some v → Q v :=
    fun c hc hqc m hm v hv => hcl c (hmem' c hc hqc) hqc m hm v (by rw [← hfa]; exact hv)
  obtain ⟨c, hc, hu, jf, hd, rfl⟩ := h
  subst hu
  refine ⟨c, hmem c hc hq, rfl, jf, fun m hm v hv => ?_, by rw [hsk, hctx]⟩
  rw [hfa] at hv
  have hqv := hcl c hc hq m hm v hv
  rcases hd m hm v hv with h | ⟨h1, h2⟩
  · exact Or.inl (h.transfer Q hmem hfa hsk hcl hqv)
  · refine Or.inr ⟨h1, fun j' hj' => h2 j' ?_⟩
    exact hj'.transfer Q hmem' (fun m => (hfa m).symm) hsk.symm hcl' hqv

/-! ## §4 folding `parseCst` -/

/-- the entries of the constituents in `P` are final -/
def SettledOn (A : Analysis D I) (st : St D I) (P : Nat → Prop) : Prop :=
  ∀ u, P u → u ∈ uids st.store → Final A st.store u (st.infoFor A u)
/-- the entries outside `P` are unsuccessful ones (reset, in the algorithms) -/
def BadOff (A : Analysis D I) (st : St D I) (P : Nat → Prop) : Prop :=
  ∀ u, ¬ P u → A.ok (st.infoFor A u) = false

/-- the mentioned constituents of `b` that have a successful entry all belong to `P` -/
def DepsIn (A : Analysis D I) (s : List (Cst D)) (P : Nat → Prop) (b : Nat) : Prop :=
  ∀ c ∈ s, c.uid = b → ∀ m ∈ A.mentions c.defn, ∀ a, findAliasL s m = some a →
    (∃ j, Val A s a j) → P a

/-- an order of analysis along which every dependency with a successful entry has been settled
before it is read -/
def OrderOk (A : Analysis D I) (s : List (Cst D)) : (Nat → Prop) → List Nat → Prop
  | _, [] => True
  | P, b :: q => DepsIn A s P b ∧ OrderOk A s (fun x => P x ∨ x = b) q

theorem OrderOk.of_splits {s : List (Cst D)} {L : List Nat} :
    ∀ {P : Nat → Prop}, (∀ p b q, L = p ++ b :: q → DepsIn A s (fun x => P x ∨ x ∈ p) b) →
      OrderOk A s P L := by
  induction L with
  | nil => intro P _; trivial
  | cons b q ih =>
    intro P h
    refine ⟨?_, ih ?_⟩
    · have := h [] b q rfl
      intro c hc hu m hm a ha ht
      rcases this c hc hu m hm a ha ht with h1 | h1
      · exact h1
      · cases h1
    · intro p b' q' e
      have := h (b :: p) b' q' (by rw [e]; rfl)
      intro c hc hu m hm a ha ht
      rcases this c hc hu m hm a ha ht with h1 | h1
      · exact Or.inl (Or.inl h1)
      · rcases List.mem_cons.1 h1 with h2 | h2
        · exact Or.inl (Or.inr h2)
        · exact Or.inr h2

theorem parseCst_of_at {st : St D I} {b : Nat} {c : Cst D} (h : st.at b = some c) :
    st.parseCst A b = st.setInfo b (A.analyse (skelOf st.store) (st.ctx A) c) := by
  unfold St.parseCst
  rw [h]

theorem parseCst_of_none {st : St D I} {b : Nat} (h : st.at b = none) : st.parseCst A b = st := by
  unfold St.parseCst
  rw [h]

theorem parseCst_store (st : St D I) (b : Nat) : (st.parseCst A b).store = st.store := by
  cases h : st.at b with
  | none => rw [parseCst_of_none h]
  | some c => rw [parseCst_of_at h]; rfl

theorem parseCst_graph (st : St D I) (b : Nat) : (st.parseCst A b).graph = st.graph := by
  cases h : st.at b with
  | none => rw [parseCst_of_none h]
  | some c => rw [parseCst_of_at h]; rfl

theorem parseCst_invalid (st : St D I) (b : Nat) : (st.parseCst A b).invalid = st.invalid := by
  cases h : st.at b with
  | none => rw [parseCst_of_none h]
  | some c => rw [parseCst_of_at h]; rfl

theorem parseCst_hasInfo (st : St D I) (b v : Nat) : (st.parseCst A b).hasInfo v = st.hasInfo v := by
  cases h : st.at b with
  | none => rw [parseCst_of_none h]
  | some c => rw [parseCst_of_at h]; exact hasInfo_setInfo _

theorem parseCst_infoFor_ne (st : St D I) {b v : Nat} (h : v ≠ b) :
    (st.parseCst A b).infoFor A v = st.infoFor A v := by
  cases h' : st.at b with
  | none => rw [parseCst_of_none h']
  | some c => rw [parseCst_of_at h']; exact infoFor_setInfo_ne _ h

theorem parseCst_infoFor_self {st : St D I} (hn : (uids st.store).Nodup)
    (hk : ∀ c ∈ st.store, st.hasInfo c.uid = true) {c : Cst D} (hc : c ∈ st.store) :
    (st.parseCst A c.uid).infoFor A c.uid = A.analyse (skelOf st.store) (st.ctx A) c := by
  rw [parseCst_of_at (at_of_mem hn hc)]
  exact infoFor_setInfo_self _ (hk c hc)

/-- what `ParseCst` computes is the final entry, provided everything settled is final, everything
else shows an unsuccessful entry, and the successful dependencies are settled -/
theorem analyse_final (hA : Lawful A) {st : St D I} (hn : (uids st.store).Nodup) {P : Nat → Prop}
    (hS : SettledOn A st P) (hB : BadOff A st P) {c : Cst D} (hc : c ∈ st.store)
    (hD : DepsIn A st.store P c.uid) :
    Final A st.store c.uid (A.analyse (skelOf st.store) (st.ctx A) c) := by
  refine ⟨c, hc, rfl, st.infoFor A, fun m hm v hv => ?_, by rw [ctx_eq]⟩
  by_cases hP : P v
  · exact (hS v hP (findAliasL_uids hv)).depOk hA hn
  · exact Or.inr ⟨hB v hP, fun j' hj' => hP (hD c hc rfl m hm v hv ⟨j', hj'⟩)⟩

theorem parseCst_step (hA : Lawful A) {st : St D I} (hn : (uids st.store).Nodup)
    (hk : ∀ c ∈ st.store, st.hasInfo c.uid = true) {P : Nat → Prop}
    (hS : SettledOn A st P) (hB : BadOff A st P) (b : Nat) (hD : DepsIn A st.store P b) :
    SettledOn A (st.parseCst A b) (fun x => P x ∨ x = b) ∧
    BadOff A (st.parseCst A b) (fun x => P x ∨ x = b) := by
  refine ⟨?_, ?_⟩
  · intro u hP hu
    rw [parseCst_store] at hu ⊢
    by_cases hub : u = b
    · subst hub
      obtain ⟨c, hc, rfl⟩ := mem_uids.1 hu
      rw [parseCst_infoFor_self hn hk hc]
      exact analyse_final hA hn hS hB hc hD
    · rw [parseCst_infoFor_ne st hub]
      rcases hP with hP | hP
      · exact hS u hP hu
      · exact absurd hP hub
  · intro u hP
    have hub : u ≠ b := fun e => hP (Or.inr e)
    rw [parseCst_infoFor_ne st hub]
    exact hB u (fun h => hP (Or.inl h))

theorem fold_parse (hA : Lawful A) (L : List Nat) : ∀ (st : St D I) (P : Nat → Prop),
    (uids st.store).Nodup → (∀ c ∈ st.store, st.hasInfo c.uid = true) →
    SettledOn A st P → BadOff A st P → OrderOk A st.store P L →
    (L.foldl (St.parseCst A) st).store = st.store ∧ (L.foldl (St.parseCst A) st).graph = st.graph ∧
    (L.foldl (St.parseCst A) st).invalid = st.invalid ∧
    (∀ v, (L.foldl (St.parseCst A) st).hasInfo v = st.hasInfo v) ∧
    SettledOn A (L.foldl (St.parseCst A) st) (fun x => P x ∨ x ∈ L) ∧
    BadOff A (L.foldl (St.parseCst A) st) (fun x => P x ∨ x ∈ L) ∧
    (∀ v, v ∉ L → (L.foldl (St.parseCst A) st).infoFor A v = st.infoFor A v) := by
  induction L with
  | nil =>
    intro st P _ _ hS hB _
    refine ⟨rfl, rfl, rfl, fun _ => rfl, ?_, ?_, fun _ _ => rfl⟩
    · intro u hP hu
      rcases hP with hP | hP
      · exact hS u hP hu
      · cases hP
    · intro u hP
      exact hB u (fun h => hP (Or.inl h))
  | cons b q ih =>
    intro st P hn hk hS hB hO
    obtain ⟨hD, hO'⟩ := hO
    obtain ⟨s1, s2⟩ := parseCst_step hA hn hk hS hB b hD
    have hst : (st.parseCst A b).store = st.store := parseCst_store st b
    obtain ⟨r1, r2, r3, r4, r5, r6, r7⟩ := ih (st.parseCst A b) (fun x => P x ∨ x = b)
      (by rw [hst]; exact hn)
      (by rw [hst]; intro c hc; rw [parseCst_hasInfo]; exact hk c hc) s1 s2
      (by rw [hst]; exact hO')
    rw [List.foldl_cons]
    refine ⟨r1.trans hst, r2.trans (parseCst_graph st b), r3.trans (parseCst_invalid st b),
      fun v => (r4 v).trans (parseCst_hasInfo st b v), ?_, ?_, ?_⟩
    · intro u hP hu
      apply r5 u ?_ hu
      rcases hP with hP | hP
      · exact Or.inl (Or.inl hP)
      · rcases List.mem_cons.1 hP with hP | hP
        · exact Or.inl (Or.inr hP)
        · exact Or.inr hP
    · intro u hP
      apply r6 u
      rintro ((h | h) | h)
      · exact hP (Or.inl h)
      · exact hP (Or.inr (by rw [h]; simp))
      · exact hP (Or.inr (List.mem_cons_of_mem _ h))
    · intro v hv
      rw [r7 v (fun h => hv (List.mem_cons_of_mem _ h))]
      exact parseCst_infoFor_ne st (fun h => hv (by rw [h]; simp))

/-! ## §5 the dependency graph is current -/

/-- `g` represents exactly the dependency relation of the store `s` -/
structure GraphCur (A : Analysis D I) (s : List (Cst D)) (g : Graph.G) : Prop where
  inv : Graph.Inv g
  live : ∀ x, x ∈ liveUids g ↔ x ∈ uids s
  edges : ∀ a b, (a, b) ∈ Graph.edges g ↔ ∃ c ∈ s, c.uid = b ∧ a ∈ inputsOfL A s c

def buildStep (A : Analysis D I) (s : List (Cst D)) (g : Graph.G) (c : Cst D) : Graph.G :=
  setItemInputs g c.uid (inputsOfL A s c)

theorem graphUpdateFor_of_mem {st : St D I} (hn : (uids st.store).Nodup) (hv : st.invalid = false)
    {c : Cst D} (hc : c ∈ st.store) :
    st.graphUpdateFor A c.uid = { st with graph := buildStep A st.store st.graph c } := by
  unfold St.graphUpdateFor
  rw [hv, at_of_mem hn hc]
  rfl

theorem graphUpdateFor_invalid {st : St D I} (hv : st.invalid = true) (u : Nat) :
    st.graphUpdateFor A u = st := by
  unfold St.graphUpdateFor
  rw [hv]
  rfl

theorem rebuild_fold (l : List (Cst D)) : ∀ (st : St D I), (uids st.store).Nodup → st.invalid = false →
    (∀ c ∈ l, c ∈ st.store) →
    l.foldl (fun s c => s.graphUpdateFor A c.uid) st =
      { st with graph := l.foldl (buildStep A st.store) st.graph } := by
  induction l with
  | nil => intro st _ _ _; rfl
  | cons c l ih =>
    intro st hn hv hl
    rw [List.foldl_cons, List.foldl_cons, graphUpdateFor_of_mem hn hv (hl c (by simp))]
    exact ih { st with graph := buildStep A st.store st.graph c } hn hv
      (fun d hd => hl d (List.mem_cons_of_mem _ hd))

theorem build_spec (s : List (Cst D)) (l : List (Cst D)) : ∀ (g : Graph.G), (uids l).Nodup → Graph.Inv g →
    (∀ a b, (a, b) ∈ Graph.edges g → b ∉ uids l) →
    Graph.Inv (l.foldl (buildStep A s) g) ∧
    (∀ x, x ∈ liveUids (l.foldl (buildStep A s) g) ↔
      x ∈ liveUids g ∨ x ∈ uids l ∨ ∃ c ∈ l, x ∈ inputsOfL A s c) ∧
    (∀ a b, (a, b) ∈ Graph.edges (l.foldl (buildStep A s) g) ↔
      (a, b) ∈ Graph.edges g ∨ ∃ c ∈ l, c.uid = b ∧ a ∈ inputsOfL A s c) := by
  induction l with
  | nil =>
    intro g _ hg _
    refine ⟨hg, fun x => ?_, fun a b => ?_⟩ <;> simp [uids]
  | cons c l ih =>
    intro g hn hg he
    simp only [uids, List.map_cons, List.nodup_cons] at hn
    obtain ⟨hn1, hn2⟩ := hn
    obtain ⟨i1, i2, i3⟩ := setItemInputs_spec hg c.uid (sortDedup_nodup ((A.mentions c.defn).filterMap (findAliasL s)))
    have he1 : ∀ a b, (a, b) ∈ Graph.edges (buildStep A s g c) → b ∉ uids l := by
      intro a b hab
      rcases (i3 (a, b)).1 hab with h | ⟨h, _⟩
      · obtain ⟨x, _, hx⟩ := List.mem_map.1 h
        cases hx
        exact hn1
      · exact fun hb => he a b h (by simp only [uids, List.map_cons]; exact List.mem_cons_of_mem _ hb)
    obtain ⟨j1, j2, j3⟩ := ih (buildStep A s g c) hn2 i1 he1
    rw [List.foldl_cons]
    refine ⟨j1, fun x => ?_, fun a b => ?_⟩
    · rw [j2 x]
      have := i2 x
      unfold buildStep inputsOfL
      rw [this]
      simp only [uids, List.map_cons, List.mem_cons, exists_eq_or_imp]
      constructor
      · rintro ((h | h | h) | h | h)
        · exact Or.inr (Or.inl (Or.inl h))
        · exact Or.inr (Or.inr (Or.inl h))
        · exact Or.inl h
        · exact Or.inr (Or.inl (Or.inr h))
        · exact Or.inr (Or.inr (Or.inr h))
      · rintro (h | (h | h) | h | h)
        · exact Or.inl (Or.inr (Or.inr h))
        · exact Or.inl (Or.inl h)
        · exact Or.inr (Or.inl h)
        · exact Or.inl (Or.inr (Or.inl h))
        · exact Or.inr (Or.inr h)
    · rw [j3 a b]
      have := i3 (a, b)
      unfold buildStep inputsOfL
      rw [this]
      simp only [List.mem_cons, exists_eq_or_imp, List.mem_map, Prod.mk.injEq]
      constructor
      · rintro ((⟨x, hx, rfl, rfl⟩ | ⟨h, _⟩) | h)
        · exact Or.inr (Or.inl ⟨rfl, hx⟩)
        · exact Or.inl h
        · exact Or.inr (Or.inr h)
      · rintro (h | ⟨rfl, h⟩ | h)
        · refine Or.inl (Or.inr ⟨h, fun hb => he a b h ?_⟩)
          rw [hb]; simp [uids]
        · exact Or.inl (Or.inl ⟨a, h, rfl, rfl⟩)
        · exact Or.inr h

theorem graphCur_build {s : List (Cst D)} (hn : (uids s).Nodup) :
    GraphCur A s (s.foldl (buildStep A s) []) := by
  obtain ⟨h1, h2, h3⟩ := build_spec s s [] hn inv_empty (by intro a b h; simp [Graph.edges] at h)
  refine ⟨h1, fun x => ?_, fun a b => ?_⟩
  · rw [h2]
    constructor
    · rintro (h | h | ⟨c, _, h⟩)
      · simp [liveUids] at h
      · exact h
      · exact inputsOfL_uids h
    · intro h; exact Or.inr (Or.inl h)
  · rw [h3]
    constructor
    · rintro (h | h)
      · simp [Graph.edges] at h
      · exact h
    · intro h; exact Or.inr h

theorem ensureGraph_valid {st : St D I} (hv : st.invalid = false) : (st.ensureGraph A) = st := by
  unfold St.ensureGraph
  rw [hv]
  rfl

theorem ensureGraph_invalid {st : St D I} (hn : (uids st.store).Nodup) (hv : st.invalid = true) :
    (st.ensureGraph A) = { st with graph := st.store.foldl (buildStep A st.store) [], invalid := false } := by
  unfold St.ensureGraph
  rw [hv]
  simp only [if_true]
  exact rebuild_fold st.store { st with graph := [], invalid := false } hn rfl (fun c hc => hc)

/-- `Graph()` establishes "graph current" -/
theorem ensureGraph_spec {st : St D I} (hn : (uids st.store).Nodup)
    (h : st.invalid = true ∨ (st.invalid = false ∧ GraphCur A st.store st.graph)) :
    (st.ensureGraph A).store = st.store ∧ (st.ensureGraph A).info = st.info ∧
    (st.ensureGraph A).invalid = false ∧ GraphCur A st.store (st.ensureGraph A).graph := by
  rcases h with h | ⟨h, hg⟩
  · rw [ensureGraph_invalid hn h]
    exact ⟨rfl, rfl, rfl, graphCur_build hn⟩
  · rw [ensureGraph_valid h]
    exact ⟨rfl, rfl, h, hg⟩

/-! ## §6 a constituent with a successful entry is neither on a cycle nor downstream of one -/

theorem Val.acyclic {s : List (Cst D)} {g : G} (hg : GraphCur A s g) (hn : (uids s).Nodup)
    {u : Nat} {i : I} (h : Val A s u i) :
    ∀ w, Reach (Graph.edges g) w u → ¬ ReachPlus (Graph.edges g) w w := by
  induction h with
  | @mk c jf hc hd hok ih =>
    apply acyclic_of_inputs
    intro a ha
    obtain ⟨c', hc', hu, hin⟩ := (hg.edges a c.uid).1 ha
    have := eq_of_uid_eq hn hc' hc hu
    subst this
    obtain ⟨m, hm, hfa⟩ := mem_inputsOfL.1 hin
    exact ih m hm a hfa

/-! ## §7 `updateState` computes the final entries -/

/-- the store has distinct uids and `info` has exactly its keys -/
structure Base (st : St D I) : Prop where
  nodup : (uids st.store).Nodup
  keys : ∀ u, st.hasInfo u = true ↔ u ∈ uids st.store

/-- `info` is the complete analysis of the store -/
def Sync (A : Analysis D I) (st : St D I) : Prop :=
  ∀ u ∈ uids st.store, Final A st.store u (st.infoFor A u)

/-- invariant of the states reachable without `load` -/
structure WF (A : Analysis D I) (st : St D I) : Prop where
  base : Base st
  valid : st.invalid = false
  cur : GraphCur A st.store st.graph
  sync : Sync A st

theorem infoFor_congr {st st' : St D I} (h : st.info = st'.info) (u : Nat) :
    st.infoFor A u = st'.infoFor A u := by
  unfold St.infoFor; rw [h]

theorem hasInfo_congr {st st' : St D I} (h : st.info = st'.info) (u : Nat) :
    st.hasInfo u = st'.hasInfo u := by
  unfold St.hasInfo; rw [h]

theorem infoFor_resetInfo (st : St D I) (u : Nat) : (st.resetInfo A).infoFor A u = A.reset := by
  unfold St.infoFor St.resetInfo
  simp only
  induction st.info with
  | nil => rfl
  | cons p ps ih =>
    rw [List.map_cons, List.find?_cons]
    split
    · rfl
    · exact ih

theorem hasInfo_resetInfo (st : St D I) (u : Nat) : (st.resetInfo A).hasInfo u = st.hasInfo u := by
  unfold St.hasInfo St.resetInfo
  simp only
  induction st.info with
  | nil => rfl
  | cons p ps ih => rw [List.map_cons, List.any_cons, List.any_cons, ih]

theorem Base.hk {st : St D I} (h : Base st) : ∀ c ∈ st.store, st.hasInfo c.uid = true :=
  fun c hc => (h.keys c.uid).2 (mem_uids.2 ⟨c, hc, rfl⟩)

theorem orderOk_topo {s : List (Cst D)} {g : G} (hn : (uids s).Nodup) (hg : GraphCur A s g) :
    OrderOk A s (fun _ => False) (topologicalOrder g) := by
  apply OrderOk.of_splits
  intro p b q e c hc hu m hm a ha ht
  right
  obtain ⟨t, ht⟩ := ht
  have hedge : (a, b) ∈ Graph.edges g := (hg.edges a b).2 ⟨c, hc, hu, mem_inputsOfL.2 ⟨m, hm, ha⟩⟩
  exact topo_before hg.inv hedge (ht.acyclic hg hn a (Reach.refl _)) p q e

theorem updateState_spec (hA : Lawful A) {st : St D I} (hb : Base st)
    (hg : st.invalid = true ∨ (st.invalid = false ∧ GraphCur A st.store st.graph)) :
    WF A (st.updateState A) ∧ (st.updateState A).store = st.store := by
  have hn1 : (uids (st.resetInfo A).store).Nodup := hb.nodup
  obtain ⟨e1, e2, e3, e4⟩ := ensureGraph_spec (st := (st.resetInfo A)) hn1 hg
  have e1' : ((st.resetInfo A).ensureGraph A).store = st.store := e1
  have hinfo : ∀ u, ((st.resetInfo A).ensureGraph A).infoFor A u = A.reset := fun u => by
    rw [infoFor_congr e2, infoFor_resetInfo]
  have hhas : ∀ u, ((st.resetInfo A).ensureGraph A).hasInfo u = st.hasInfo u := fun u => by
    rw [hasInfo_congr e2, hasInfo_resetInfo]
  have hS : SettledOn A ((st.resetInfo A).ensureGraph A) (fun _ => False) := fun _ h _ => h.elim
  have hB : BadOff A ((st.resetInfo A).ensureGraph A) (fun _ => False) := by
    intro u _
    rw [hinfo u]
    exact hA.reset_not_ok
  have hcur : GraphCur A st.store ((st.resetInfo A).ensureGraph A).graph := e4
  obtain ⟨r1, r2, r3, r4, r5, _, _⟩ := fold_parse hA (topologicalOrder ((st.resetInfo A).ensureGraph A).graph)
    ((st.resetInfo A).ensureGraph A) (fun _ => False) (by rw [e1']; exact hb.nodup)
    (by rw [e1']; intro c hc; rw [hhas]; exact hb.hk c hc) hS hB
    (by rw [e1']; exact orderOk_topo hb.nodup hcur)
  have hst : (st.updateState A).store = st.store := r1.trans e1'
  have hall : ∀ u ∈ uids st.store, u ∈ topologicalOrder ((st.resetInfo A).ensureGraph A).graph :=
    fun u hu => (mem_topologicalOrder hcur.inv u).2 ((hcur.live u).2 hu)
  refine ⟨⟨⟨?_, ?_⟩, ?_, ?_, ?_⟩, hst⟩
  · rw [hst]; exact hb.nodup
  · intro u
    rw [hst]
    show (List.foldl (St.parseCst A) _ _).hasInfo u = true ↔ _
    rw [r4, hhas]
    exact hb.keys u
  · exact r3.trans e3
  · rw [hst]
    show GraphCur A st.store (List.foldl (St.parseCst A) _ _).graph
    rw [r2]
    exact hcur
  · intro u hu
    have hu' : u ∈ uids st.store := by rw [hst] at hu; exact hu
    exact r5 u (Or.inr (hall u hu')) (by rw [r1]; rw [e1']; exact hu')

/-! ## §8 `triggerParse` -/

def resetStep (A : Analysis D I) (s : St D I) (v : Nat) : St D I :=
  if s.hasInfo v then s.setInfo v A.reset else s

theorem resetStep_hasInfo (st : St D I) (x v : Nat) : (resetStep A st x).hasInfo v = st.hasInfo v := by
  unfold resetStep
  split
  · exact hasInfo_setInfo _
  · rfl

theorem resetStep_infoFor_ne (st : St D I) {x v : Nat} (h : v ≠ x) :
    (resetStep A st x).infoFor A v = st.infoFor A v := by
  unfold resetStep
  split
  · exact infoFor_setInfo_ne _ h
  · rfl

theorem reset_fold (X : List Nat) : ∀ (st : St D I),
    (X.foldl (resetStep A) st).store = st.store ∧ (X.foldl (resetStep A) st).graph = st.graph ∧
    (X.foldl (resetStep A) st).invalid = st.invalid ∧
    (∀ v, (X.foldl (resetStep A) st).hasInfo v = st.hasInfo v) ∧
    (∀ v, v ∉ X → (X.foldl (resetStep A) st).infoFor A v = st.infoFor A v) ∧
    (∀ v, v ∈ X → st.hasInfo v = true → (X.foldl (resetStep A) st).infoFor A v = A.reset) := by
  induction X with
  | nil =>
    intro st
    refine ⟨rfl, rfl, rfl, fun _ => rfl, fun _ _ => rfl, fun v hv => by cases hv⟩
  | cons x xs ih =>
    intro st
    obtain ⟨r1, r2, r3, r4, r5, r6⟩ := ih (resetStep A st x)
    have q1 : (resetStep A st x).store = st.store := by unfold resetStep; split <;> rfl
    have q2 : (resetStep A st x).graph = st.graph := by unfold resetStep; split <;> rfl
    have q3 : (resetStep A st x).invalid = st.invalid := by unfold resetStep; split <;> rfl
    rw [List.foldl_cons]
    refine ⟨r1.trans q1, r2.trans q2, r3.trans q3, fun v => (r4 v).trans (resetStep_hasInfo st x v),
      ?_, ?_⟩
    · intro v hv
      rw [r5 v (fun h => hv (List.mem_cons_of_mem _ h))]
      exact resetStep_infoFor_ne st (fun h => hv (by rw [h]; simp))
    · intro v hv hh
      by_cases hvx : v ∈ xs
      · exact r6 v hvx (by rw [resetStep_hasInfo]; exact hh)
      · rw [r5 v hvx]
        have : v = x := by
          rcases List.mem_cons.1 hv with h | h
          · exact h
          · exact absurd h hvx
        subst this
        unfold resetStep
        rw [if_pos hh]
        exact infoFor_setInfo_self _ hh

theorem triggerParse_eq {st : St D I} (hv : st.invalid = false) (u : Nat) :
    st.triggerParse A u =
      (u :: (Graph.sort st.graph (expandOutputs st.graph [u])).filter (· != u)).foldl (St.parseCst A)
        ((expandOutputs st.graph [u]).foldl (resetStep A) st) := by
  unfold St.triggerParse
  rw [ensureGraph_valid hv]
  simp only [List.foldl_cons]
  rw [parseCst_graph]
  have := (reset_fold (A := A) (expandOutputs st.graph [u]) st).2.1
  unfold resetStep at this
  rw [this]
  rfl

theorem mem_expansion {s : List (Cst D)} {g : G} (hg : GraphCur A s g) {u : Nat} (hu : u ∈ uids s) (v : Nat) :
    v ∈ expandOutputs g [u] ↔ Reach (Graph.edges g) u v := by
  rw [expandOutputs_spec g hg.inv (by simp)]
  constructor
  · rintro ⟨x, hx, _, hr⟩
    simp only [List.mem_singleton] at hx
    subst hx
    exact hr
  · intro hr
    exact ⟨u, by simp, (hg.live u).2 hu, hr⟩

theorem reach_live_uid {s : List (Cst D)} {g : G} (hg : GraphCur A s g) {u v : Nat} (hu : u ∈ uids s)
    (hr : Reach (Graph.edges g) u v) : v ∈ uids s := by
  induction hr with
  | refl => exact hu
  | step he _ ih =>
    apply ih
    obtain ⟨c, hc, hcu, _⟩ := (hg.edges _ _).1 he
    exact mem_uids.2 ⟨c, hc, hcu⟩

/-- `TriggerParse(u)`: if `info` is final outside the expansion of `u`, it is final everywhere
afterwards -/
theorem triggerParse_spec (hA : Lawful A) {st : St D I} (hb : Base st) (hv : st.invalid = false)
    (hg : GraphCur A st.store st.graph) {u : Nat} (hu : u ∈ uids st.store)
    (hS : ∀ v ∈ uids st.store, v ∉ expandOutputs st.graph [u] → Final A st.store v (st.infoFor A v)) :
    WF A (st.triggerParse A u) ∧ (st.triggerParse A u).store = st.store := by
  rw [triggerParse_eq hv]
  generalize hX : expandOutputs st.graph [u] = X at hS ⊢
  have hXm : ∀ v, v ∈ X ↔ Reach (Graph.edges st.graph) u v := fun v => by
    rw [← hX]; exact mem_expansion hg hu v
  have hXu : ∀ v ∈ X, v ∈ uids st.store := fun v hv' => reach_live_uid hg hu ((hXm v).1 hv')
  have huX : u ∈ X := (hXm u).2 (Reach.refl _)
  obtain ⟨q1, q2, q3, q4, q5, q6⟩ := reset_fold (A := A) X st
  generalize X.foldl (resetStep A) st = st3 at q1 q2 q3 q4 q5 q6 ⊢
  have hsort : Graph.sort st.graph X = (topologicalOrder st.graph).filter (X.contains ·) := by
    unfold Graph.sort
    cases X with
    | nil => cases huX
    | cons _ _ => rfl
  rw [hsort, List.filter_filter]
  generalize hrest : (topologicalOrder st.graph).filter (fun a => (a != u) && X.contains a) = rest
  have hrest_mem : ∀ v, v ∈ rest ↔ v ∈ uids st.store ∧ v ≠ u ∧ v ∈ X := by
    intro v
    rw [← hrest, List.mem_filter, mem_topologicalOrder hg.inv, hg.live]
    simp
  -- hypotheses of `fold_parse`
  have hS3 : SettledOn A st3 (fun v => v ∉ X) := by
    intro v hvX hvu
    rw [q1] at hvu ⊢
    rw [q5 v hvX]
    exact hS v hvu hvX
  have hB3 : BadOff A st3 (fun v => v ∉ X) := by
    intro v hvX
    have hvX' : v ∈ X := Classical.not_not.1 hvX
    rw [q6 v hvX' ((hb.keys v).2 (hXu v hvX'))]
    exact hA.reset_not_ok
  have hedge : ∀ c ∈ st.store, ∀ m ∈ A.mentions c.defn, ∀ a, findAliasL st.store m = some a →
      (a, c.uid) ∈ Graph.edges st.graph := fun c hc m hm a ha =>
    (hg.edges a c.uid).2 ⟨c, hc, rfl, mem_inputsOfL.2 ⟨m, hm, ha⟩⟩
  have hO : OrderOk A st.store (fun v => v ∉ X) (u :: rest) := by
    refine ⟨?_, OrderOk.of_splits ?_⟩
    · intro c hc hcu m hm a ha ⟨t, ht⟩ haX
      have he := hedge c hc m hm a ha
      rw [hcu] at he
      have hr := (hXm a).1 haX
      exact ht.acyclic hg hb.nodup a (Reach.refl _) ⟨u, he, hr⟩
    · intro p b q e c hc hcu m hm a ha ⟨t, ht⟩
      by_cases haX : a ∈ X
      · by_cases hau : a = u
        · exact Or.inl (Or.inr hau)
        · right
          have he := hedge c hc m hm a ha
          rw [hcu] at he
          have hbef := topo_before hg.inv he (ht.acyclic hg hb.nodup a (Reach.refl _))
          rw [← hrest] at e
          exact before_filter _ hbef (by simp [hau, haX]) p q e
      · exact Or.inl (Or.inl haX)
  obtain ⟨r1, r2, r3, r4, r5, _, _⟩ := fold_parse hA (u :: rest) st3 (fun v => v ∉ X)
    (by rw [q1]; exact hb.nodup)
    (by rw [q1]; intro c hc; rw [q4]; exact hb.hk c hc) hS3 hB3
    (by rw [q1]; exact hO)
  have hst := r1.trans q1
  have hcover : ∀ v ∈ uids st.store, v ∉ X ∨ v ∈ u :: rest := by
    intro v hvu
    by_cases hvX : v ∈ X
    · right
      by_cases hvu' : v = u
      · rw [hvu']; simp
      · exact List.mem_cons_of_mem _ ((hrest_mem v).2 ⟨hvu, hvu', hvX⟩)
    · exact Or.inl hvX
  refine ⟨⟨⟨?_, ?_⟩, ?_, ?_, ?_⟩, hst⟩
  · rw [hst]; exact hb.nodup
  · intro v
    rw [hst, r4, q4]
    exact hb.keys v
  · exact r3.trans (q3.trans hv)
  · rw [hst, r2, q2]; exact hg
  · intro v hvu
    have hvu' : v ∈ uids st.store := by rw [hst] at hvu; exact hvu
    exact r5 v (hcover v hvu') (by rw [r1, q1]; exact hvu')

/-! ## §9 every editing step preserves the invariant -/


theorem WF_init : WF A ({} : St D I) := by
  refine ⟨⟨?_, ?_⟩, rfl, ⟨inv_empty, ?_, ?_⟩, ?_⟩
  · exact List.nodup_nil
  · intro u
    constructor
    · intro h; cases h
    · intro h; cases h
  · intro x
    constructor
    · intro h; cases h
    · intro h; cases h
  · intro a b
    constructor
    · intro h; cases h
    · rintro ⟨c, hc, _⟩; cases hc
  · intro u hu
    cases hu

/-! ### observables are determined by the store -/

/-- the entries of a complete analysis are a function of the store -/
theorem Sync.infoFor_eq (hA : Lawful A) {st st' : St D I} (hn : (uids st.store).Nodup)
    (hs : st.store = st'.store) (h : Sync A st) (h' : Sync A st') {u : Nat} (hu : u ∈ uids st.store) :
    st.infoFor A u = st'.infoFor A u := by
  have h1 := h u hu
  have h2 := h' u (hs ▸ hu)
  rw [← hs] at h2
  exact h1.unique hA hn h2

theorem report_eq (hA : Lawful A) {st st' : St D I} (hn : (uids st.store).Nodup)
    (hs : st.store = st'.store) (h : Sync A st) (h' : Sync A st') :
    st.report A = st'.report A := by
  unfold St.report
  rw [← hs]
  apply List.map_congr_left
  intro c hc
  rw [Sync.infoFor_eq hA hn hs h h' (mem_uids.2 ⟨c, hc, rfl⟩)]

theorem depEdges_eq_store {st : St D I} (h : WF A st) :
    st.depEdges A = st.store.flatMap (fun c => (inputsOfL A st.store c).map (·, c.uid)) := by
  unfold St.depEdges
  simp only
  rw [ensureGraph_valid h.valid]
  apply flatMap_congr'
  intro c hc
  congr 1
  apply sorted_ext (sortDedup_sorted _) (sortDedup_sorted _)
  intro x
  rw [mem_sortDedup, mem_inputsFor h.cur.inv, h.cur.edges]
  constructor
  · rintro ⟨c', hc', hu, hin⟩
    rw [eq_of_uid_eq h.base.nodup hc' hc hu] at hin
    exact hin
  · intro hin
    exact ⟨c, hc, rfl, hin⟩

theorem WF.scratch (hA : Lawful A) {st : St D I} (h : WF A st) : WF A (st.scratch A) ∧ (st.scratch A).store = st.store := by
  unfold St.scratch
  exact updateState_spec hA (st := { st with invalid := true, graph := [] }) ⟨h.base.nodup, h.base.keys⟩
    (Or.inl rfl)

/-- the observable results of a well-formed state are those of the analysis from scratch -/
theorem WF.observables (hA : Lawful A) {st : St D I} (h : WF A st) :
    st.report A = (st.scratch A).report A ∧ st.depEdges A = (st.scratch A).depEdges A := by
  obtain ⟨h', hs⟩ := h.scratch hA
  refine ⟨report_eq hA h.base.nodup hs.symm h.sync h'.sync, ?_⟩
  rw [depEdges_eq_store h, depEdges_eq_store h', hs]

/-! ### `insert` -/

theorem uids_insertCst {c : Cst D} {s : List (Cst D)} (h : c.uid ∉ uids s) :
    (uids (insertCst c s)).Perm (c.uid :: uids s) := by
  induction s with
  | nil => exact List.Perm.refl _
  | cons d ds ih =>
    unfold insertCst
    split
    · exact List.Perm.refl _
    · split
      · next h2 => exact absurd (by simp [uids, h2]) h
      · have : c.uid ∉ uids ds := fun hh => h (by simp only [uids, List.map_cons]; exact List.mem_cons_of_mem _ hh)
        simp only [uids, List.map_cons]
        exact ((ih this).cons d.uid).trans (List.Perm.swap _ _ _)

theorem hasInfo_append (st : St D I) (u v : Nat) (i : I) :
    ({ st with info := st.info ++ [(u, i)] } : St D I).hasInfo v = (st.hasInfo v || u == v) := by
  unfold St.hasInfo
  simp [List.any_append]

theorem WF.insert [DecidableEq D] (hA : Lawful A) {st : St D I} (h : WF A st) (c : Cst D) : WF A (step A st (.insert c)) := by
  unfold step
  simp only
  split
  · exact h
  · next hh =>
    have hnot : c.uid ∉ uids st.store := fun hu => hh ((h.base.keys c.uid).2 hu)
    have hp := uids_insertCst hnot
    refine (updateState_spec hA ⟨?_, ?_⟩ (Or.inl rfl)).1
    · show (uids (insertCst c st.store)).Nodup
      rw [hp.nodup_iff]
      exact List.nodup_cons.2 ⟨hnot, h.base.nodup⟩
    · intro u
      show ({ st with info := st.info ++ [(c.uid, A.reset)] } : St D I).hasInfo u = true ↔ u ∈ uids (insertCst c st.store)
      rw [hasInfo_append, hp.mem_iff, Bool.or_eq_true, h.base.keys u, List.mem_cons]
      constructor
      · rintro (h1 | h1)
        · exact Or.inr h1
        · exact Or.inl (Eq.symm (by simpa using h1))
      · rintro (h1 | h1)
        · exact Or.inr (by simpa using h1.symm)
        · exact Or.inl h1

theorem WF.updateState [DecidableEq D] (hA : Lawful A) {st : St D I} (h : WF A st) : WF A (step A st .updateState) :=
  (updateState_spec hA h.base (Or.inr ⟨h.valid, h.cur⟩)).1

/-! ### `setAlias`, `substitute` -/

theorem uids_map_pres (f : Cst D → Cst D) (hf : ∀ x, (f x).uid = x.uid) (s : List (Cst D)) :
    uids (s.map f) = uids s := by
  unfold uids
  rw [List.map_map]
  apply List.map_congr_left
  intro x _
  exact hf x

theorem fold_preserve {α : Type} (F : St D I → α → St D I)
    (hF : ∀ s c, s.invalid = true →
      uids (F s c).store = uids s.store ∧ (F s c).info = s.info ∧ (F s c).invalid = true)
    (l : List α) : ∀ st : St D I, st.invalid = true →
      uids (l.foldl F st).store = uids st.store ∧ (l.foldl F st).info = st.info ∧
      (l.foldl F st).invalid = true := by
  induction l with
  | nil => intro st h; exact ⟨rfl, rfl, h⟩
  | cons c l ih =>
    intro st h
    obtain ⟨h1, h2, h3⟩ := hF st c h
    obtain ⟨r1, r2, r3⟩ := ih (F st c) h3
    rw [List.foldl_cons]
    exact ⟨r1.trans h1, r2.trans h2, r3⟩

theorem Base.of_eq {st st' : St D I} (h : Base st) (h1 : uids st'.store = uids st.store)
    (h2 : st'.info = st.info) : Base st' := by
  refine ⟨by rw [h1]; exact h.nodup, fun u => ?_⟩
  rw [h1, hasInfo_congr h2]
  exact h.keys u

theorem translateAll_WF (hA : Lawful A) {st : St D I} (hb : Base st) (hv : st.invalid = true) (f : String → Option String) :
    WF A (st.translateAll A f) := by
  unfold St.translateAll
  simp only
  have := fold_preserve (fun (s : St D I) (c : Cst D) =>
      St.graphUpdateFor A { s with store := s.store.map (fun (x : Cst D) =>
        if x.uid == c.uid then { x with defn := A.rename f x.defn } else x) } c.uid)
    (by
      intro s c hs
      rw [graphUpdateFor_invalid (by exact hs)]
      refine ⟨uids_map_pres _ (fun x => ?_) _, rfl, hs⟩
      split <;> rfl) st.store st hv
  obtain ⟨r1, r2, r3⟩ := this
  exact (updateState_spec hA (hb.of_eq r1 r2) (Or.inl r3)).1

theorem WF.setAlias [DecidableEq D] (hA : Lawful A) {st : St D I} (h : WF A st) (u : Nat) (a : String) (subst : Bool) :
    WF A (step A st (.setAlias u a subst)) := by
  unfold step
  simp only
  split
  · exact h
  · next c hc =>
    split
    · exact h
    · have hb : Base ({ st with invalid := true, store := st.store.map (fun (x : Cst D) =>
          if x.uid == u then { x with alias := a } else x) } : St D I) :=
        h.base.of_eq (uids_map_pres _ (fun x => by split <;> rfl) _) rfl
      split
      · exact translateAll_WF hA hb rfl _
      · exact (updateState_spec hA hb (Or.inl rfl)).1

theorem WF.substitute [DecidableEq D] (hA : Lawful A) {st : St D I} (h : WF A st) (m : List (String × String)) :
    WF A (step A st (.substitute m)) := by
  unfold step
  simp only
  have hb : Base ({ st with invalid := true, store := st.store.map (fun (x : Cst D) =>
      { x with alias := (lookup m x.alias).getD x.alias }) } : St D I) :=
    h.base.of_eq (uids_map_pres (fun (x : Cst D) =>
      { x with alias := (lookup m x.alias).getD x.alias }) (fun x => rfl) st.store) rfl
  exact translateAll_WF hA hb rfl _

/-! ### `erase` -/

/-- the alias of the erased constituent is not shared -/
def EraseOk (s : List (Cst D)) (u : Nat) : Prop :=
  ∀ c ∈ s, c.uid = u → ∀ d ∈ s, d.alias = c.alias → d.uid = u

theorem findAliasL_erase {s : List (Cst D)} {u : Nat} (hok : EraseOk s u) (m : String) (a : Nat) :
    findAliasL (s.filter (·.uid != u)) m = some a ↔ findAliasL s m = some a ∧ a ≠ u := by
  by_cases hB : ∃ y ∈ s, y.alias = m ∧ y.uid = u
  · obtain ⟨y, hy, hym, hyu⟩ := hB
    have hall : ∀ d ∈ s, d.alias = m → d.uid = u := fun d hd hdm => hok y hy hyu d hd (hdm.trans hym.symm)
    constructor
    · intro h
      obtain ⟨c, hc, _, hcm⟩ := findAliasL_mem h
      obtain ⟨hc1, hc2⟩ := List.mem_filter.1 hc
      exact absurd (hall c hc1 hcm) (by simpa using hc2)
    · rintro ⟨h, hne⟩
      obtain ⟨c, hc, hcu, hcm⟩ := findAliasL_mem h
      exact absurd (hcu.symm.trans (hall c hc hcm)) hne
  · have hall : ∀ y ∈ s, (y.alias == m) = true → (y.uid != u) = true := by
      intro y hy hym
      have : y.alias = m := by simpa using hym
      have : y.uid ≠ u := fun hyu => hB ⟨y, hy, this, hyu⟩
      simpa using this
    have e : findAliasL (s.filter (·.uid != u)) m = findAliasL s m := by
      unfold findAliasL
      rw [find_filter_of_imp _ _ s hall]
    rw [e]
    constructor
    · intro h
      refine ⟨h, ?_⟩
      obtain ⟨c, hc, hcu, hcm⟩ := findAliasL_mem h
      have := hall c hc (by simpa using hcm)
      rw [← hcu]
      simpa using this
    · exact And.left

theorem mem_inputsOfL_erase {s : List (Cst D)} {u : Nat} (hok : EraseOk s u) (c : Cst D) (a : Nat) :
    a ∈ inputsOfL A (s.filter (·.uid != u)) c ↔ a ∈ inputsOfL A s c ∧ a ≠ u := by
  rw [mem_inputsOfL, mem_inputsOfL]
  constructor
  · rintro ⟨m, hm, h⟩
    obtain ⟨h1, h2⟩ := (findAliasL_erase hok m a).1 h
    exact ⟨⟨m, hm, h1⟩, h2⟩
  · rintro ⟨⟨m, hm, h1⟩, h2⟩
    exact ⟨m, hm, (findAliasL_erase hok m a).2 ⟨h1, h2⟩⟩

theorem mem_uids_filter {s : List (Cst D)} {u x : Nat} :
    x ∈ uids (s.filter (·.uid != u)) ↔ x ∈ uids s ∧ x ≠ u := by
  rw [mem_uids, mem_uids]
  constructor
  · rintro ⟨c, hc, rfl⟩
    obtain ⟨h1, h2⟩ := List.mem_filter.1 hc
    exact ⟨⟨c, h1, rfl⟩, by simpa using h2⟩
  · rintro ⟨⟨c, hc, rfl⟩, h⟩
    exact ⟨c, List.mem_filter.2 ⟨hc, by simpa using h⟩, rfl⟩

theorem graphCur_erase {s : List (Cst D)} {g : G} (hg : GraphCur A s g) {u : Nat} (hok : EraseOk s u) :
    GraphCur A (s.filter (·.uid != u)) (eraseItem g u) := by
  obtain ⟨i1, i2, i3⟩ := eraseItem_spec hg.inv u
  refine ⟨i1, fun x => ?_, fun a b => ?_⟩
  · rw [i2, hg.live, mem_uids_filter]
  · rw [i3, hg.edges]
    constructor
    · rintro ⟨⟨c, hc, hcu, hin⟩, ha, hb⟩
      simp only at ha hb
      refine ⟨c, List.mem_filter.2 ⟨hc, ?_⟩, hcu, (mem_inputsOfL_erase hok c a).2 ⟨hin, ha⟩⟩
      rw [hcu]; simpa using hb
    · rintro ⟨c, hc, hcu, hin⟩
      obtain ⟨h1, h2⟩ := List.mem_filter.1 hc
      obtain ⟨h3, h4⟩ := (mem_inputsOfL_erase hok c a).1 hin
      refine ⟨⟨c, h1, hcu, h3⟩, h4, ?_⟩
      simp only
      rw [← hcu]; simpa using h2

theorem hasInfo_filter (st : St D I) (u v : Nat) :
    ({ st with info := st.info.filter (·.1 != u) } : St D I).hasInfo v = true ↔
      st.hasInfo v = true ∧ v ≠ u := by
  unfold St.hasInfo
  simp only [List.any_eq_true, List.mem_filter]
  constructor
  · rintro ⟨p, ⟨hp, h1⟩, h2⟩
    have e : p.1 = v := by simpa using h2
    exact ⟨⟨p, hp, h2⟩, by rw [← e]; simpa using h1⟩
  · rintro ⟨⟨p, hp, h2⟩, h⟩
    have e : p.1 = v := by simpa using h2
    exact ⟨p, ⟨hp, by rw [e]; simpa using h⟩, h2⟩

def eraseSt (st : St D I) (u : Nat) : St D I :=
  { st with info := st.info.filter (·.1 != u),
            graph := if st.invalid then st.graph else eraseItem st.graph u,
            store := st.store.filter (·.uid != u) }

theorem erase_core (hA : Lawful A) {st : St D I} (hb : Base st) (hv : st.invalid = false)
    (hg : GraphCur A st.store st.graph) {u : Nat} (hok : EraseOk st.store u) :
    WF A ((eraseSt st u).updateState A) := by
  refine (updateState_spec hA (st := eraseSt st u) ⟨?_, ?_⟩ (Or.inr ⟨hv, ?_⟩)).1
  · show (uids (st.store.filter (·.uid != u))).Nodup
    exact hb.nodup.sublist (List.Sublist.map _ List.filter_sublist)
  · intro v
    show ({ st with info := st.info.filter (·.1 != u) } : St D I).hasInfo v = true ↔
      v ∈ uids (st.store.filter (·.uid != u))
    rw [hasInfo_filter, mem_uids_filter, hb.keys]
  · show GraphCur A (st.store.filter (·.uid != u)) (if st.invalid then st.graph else eraseItem st.graph u)
    rw [hv]
    exact graphCur_erase hg hok

theorem WF.erase [DecidableEq D] (hA : Lawful A) {st : St D I} (h : WF A st) (u : Nat) (hok : EraseOk st.store u) :
    WF A (step A st (.erase u)) := by
  unfold step
  simp only
  split
  · exact h
  · rw [ensureGraph_valid h.valid]
    obtain ⟨q1, q2, q3, q4, _, _⟩ := reset_fold (A := A) (expandOutputs st.graph [u]) st
    have hb : Base ((expandOutputs st.graph [u]).foldl (resetStep A) st) :=
      ⟨by rw [q1]; exact h.base.nodup, fun v => by rw [q1, q4]; exact h.base.keys v⟩
    exact erase_core hA hb (q3.trans h.valid) (by rw [q1, q2]; exact h.cur) (by rw [q1]; exact hok)

/-! ### `setDef` -/

def setDefL (s : List (Cst D)) (u : Nat) (d : D) : List (Cst D) :=
  s.map (fun (x : Cst D) => if x.uid == u then { x with defn := d } else x)

theorem uids_setDefL (s : List (Cst D)) (u : Nat) (d : D) : uids (setDefL s u d) = uids s :=
  uids_map_pres _ (fun x => by split <;> rfl) s

theorem findAliasL_setDefL (s : List (Cst D)) (u : Nat) (d : D) (m : String) :
    findAliasL (setDefL s u d) m = findAliasL s m := by
  unfold findAliasL setDefL
  induction s with
  | nil => rfl
  | cons x xs ih =>
    rw [List.map_cons, List.find?_cons, List.find?_cons]
    have e1 : (if x.uid == u then { x with defn := d } else x).alias = x.alias := by split <;> rfl
    have e2 : (if x.uid == u then { x with defn := d } else x).uid = x.uid := by split <;> rfl
    rw [e1]
    cases hx : (x.alias == m) with
    | true => simp only [Option.map_some, e2]
    | false => exact ih

theorem inputsOfL_setDefL (s : List (Cst D)) (u : Nat) (d : D) (c : Cst D) :
    inputsOfL A (setDefL s u d) c = inputsOfL A s c := by
  unfold inputsOfL
  congr 2
  funext m
  exact findAliasL_setDefL s u d m

theorem mem_setDefL_of_ne {s : List (Cst D)} {u : Nat} {d : D} {c : Cst D} (hc : c ∈ s) (hne : c.uid ≠ u) :
    c ∈ setDefL s u d := by
  refine List.mem_map.2 ⟨c, hc, ?_⟩
  have : (c.uid == u) = false := by simpa using hne
  simp [this]

theorem mem_of_mem_setDefL {s : List (Cst D)} {u : Nat} {d : D} {c : Cst D} (hc : c ∈ setDefL s u d)
    (hne : c.uid ≠ u) : c ∈ s := by
  obtain ⟨x, hx, e⟩ := List.mem_map.1 hc
  by_cases hxu : x.uid = u
  · have : (x.uid == u) = true := by simpa using hxu
    simp only [this, if_true] at e
    rw [← e] at hne
    exact absurd hxu hne
  · have : (x.uid == u) = false := by simpa using hxu
    simp only [this] at e
    rw [← e]
    exact hx

theorem mem_setDefL_self {s : List (Cst D)} {d : D} {c : Cst D} (hc : c ∈ s) :
    ({ c with defn := d } : Cst D) ∈ setDefL s c.uid d := by
  refine List.mem_map.2 ⟨c, hc, ?_⟩
  simp

theorem skelOf_setDefL (s : List (Cst D)) (u : Nat) (d : D) : skelOf (setDefL s u d) = skelOf s := by
  unfold skelOf setDefL
  rw [List.map_map]
  apply List.map_congr_left
  intro x _
  simp only [Function.comp]
  split <;> rfl

theorem graphCur_setDef {s : List (Cst D)} {g : G} (hn : (uids s).Nodup) (hg : GraphCur A s g) {c : Cst D}
    (hc : c ∈ s) (d : D) :
    GraphCur A (setDefL s c.uid d)
      (buildStep A (setDefL s c.uid d) g ({ c with defn := d } : Cst D)) := by
  have hn' : (uids (setDefL s c.uid d)).Nodup := by rw [uids_setDefL]; exact hn
  have hc1 := mem_setDefL_self (d := d) hc
  obtain ⟨i1, i2, i3⟩ := setItemInputs_spec hg.inv c.uid
    (inputsOfL_nodup (setDefL s c.uid d) ({ c with defn := d } : Cst D))
  refine ⟨i1, fun x => ?_, fun a b => ?_⟩
  · have := i2 x
    unfold buildStep
    rw [this, uids_setDefL, hg.live]
    constructor
    · rintro (h | h | h)
      · rw [h]; exact mem_uids.2 ⟨c, hc, rfl⟩
      · have := inputsOfL_uids (s := setDefL s c.uid d) (c := ({ c with defn := d } : Cst D)) h
        rw [uids_setDefL] at this
        exact this
      · exact h
    · intro h; exact Or.inr (Or.inr h)
  · have := i3 (a, b)
    unfold buildStep
    rw [this]
    simp only [List.mem_map, Prod.mk.injEq]
    constructor
    · rintro (⟨x, hx, rfl, rfl⟩ | ⟨he, hb⟩)
      · exact ⟨_, hc1, rfl, hx⟩
      · obtain ⟨c', hc', hcu, hin⟩ := (hg.edges a b).1 he
        refine ⟨c', mem_setDefL_of_ne hc' (by rw [hcu]; exact hb), hcu, ?_⟩
        rw [inputsOfL_setDefL]; exact hin
    · rintro ⟨c', hc', hcu, hin⟩
      by_cases hb : b = c.uid
      · left
        have : c' = ({ c with defn := d } : Cst D) := eq_of_uid_eq hn' hc' hc1 (by rw [hcu, hb])
        rw [this] at hin
        exact ⟨a, hin, rfl, hb.symm⟩
      · right
        refine ⟨(hg.edges a b).2 ⟨c', mem_of_mem_setDefL hc' (by rw [hcu]; exact hb), hcu, ?_⟩, hb⟩
        rw [inputsOfL_setDefL] at hin; exact hin

/-- `FindExpr` cannot return the target itself once the new text differs from the old one
(the short-cut `realChange = false` is dead in the model) -/
theorem realChange_true [DecidableEq D] {s : List (Cst D)} (hn : (uids s).Nodup) {c : Cst D} (hc : c ∈ s) {d : D}
    (hne : ¬ d = c.defn) :
    ((s.find? (·.defn == d)).map (·.uid) != some c.uid) = true := by
  cases hf : s.find? (·.defn == d) with
  | none => rfl
  | some x =>
    have hx := List.mem_of_find?_eq_some hf
    have hxd : x.defn = d := by simpa using List.find?_some hf
    have : x.uid ≠ c.uid := by
      intro e
      rw [eq_of_uid_eq hn hx hc e] at hxd
      exact hne hxd.symm
    simpa using this

theorem setDef_core (hA : Lawful A) {st : St D I} (h : WF A st) {c : Cst D} (hc : c ∈ st.store) (d : D) :
    WF A (St.triggerParse A { st with store := setDefL st.store c.uid d,
                                      graph := buildStep A (setDefL st.store c.uid d) st.graph
                                        ({ c with defn := d } : Cst D) } c.uid) := by
  have hg1 := graphCur_setDef h.base.nodup h.cur hc d
  have hu : c.uid ∈ uids (setDefL st.store c.uid d) := by
    rw [uids_setDefL]; exact mem_uids.2 ⟨c, hc, rfl⟩
  have hb : Base ({ st with store := setDefL st.store c.uid d,
                            graph := buildStep A (setDefL st.store c.uid d) st.graph
                              ({ c with defn := d } : Cst D) } : St D I) :=
    h.base.of_eq (uids_setDefL _ _ _) rfl
  -- the expansion is closed under the new edges
  have hclosed : ∀ c' ∈ setDefL st.store c.uid d,
      c'.uid ∉ expandOutputs (buildStep A (setDefL st.store c.uid d) st.graph ({ c with defn := d } : Cst D)) [c.uid] →
      ∀ m ∈ A.mentions c'.defn, ∀ v, findAliasL (setDefL st.store c.uid d) m = some v →
      v ∉ expandOutputs (buildStep A (setDefL st.store c.uid d) st.graph ({ c with defn := d } : Cst D)) [c.uid] := by
    intro c' hc' hnot m hm v hv hvX
    apply hnot
    rw [mem_expansion hg1 hu] at hvX ⊢
    exact hvX.tail ((hg1.edges v c'.uid).2 ⟨c', hc', rfl, mem_inputsOfL.2 ⟨m, hm, hv⟩⟩)
  have hself : c.uid ∈ expandOutputs (buildStep A (setDefL st.store c.uid d) st.graph ({ c with defn := d } : Cst D)) [c.uid] :=
    (mem_expansion hg1 hu _).2 (Reach.refl _)
  refine (triggerParse_spec hA hb h.valid hg1 hu ?_).1
  intro v hv hvX
  have hv' : v ∈ uids st.store := by rw [← uids_setDefL st.store c.uid d]; exact hv
  have h0 : Final A st.store v (st.infoFor A v) := h.sync v hv'
  refine Final.transfer (fun x => x ∉ expandOutputs _ [c.uid]) ?_ ?_ (findAliasL_setDefL _ _ _)
    (skelOf_setDefL _ _ _) ?_ h0 hvX
  · intro c' hc' hq
    exact mem_setDefL_of_ne hc' (fun e => hq (e ▸ hself))
  · intro c' hc' hq
    exact mem_of_mem_setDefL hc' (fun e => hq (e ▸ hself))
  · intro c' hc' hq m hm v' hv'
    rw [← findAliasL_setDefL st.store c.uid d] at hv'
    exact hclosed c' (mem_setDefL_of_ne hc' (fun e => hq (e ▸ hself))) hq m hm v' hv'

theorem WF.setDef [DecidableEq D] (hA : Lawful A) {st : St D I} (h : WF A st) (u : Nat) (d : D) : WF A (step A st (.setDef u d)) := by
  unfold step
  simp only
  split
  · exact h
  · next c hat =>
    obtain ⟨hc, hcu⟩ := mem_of_at hat
    split
    · exact h
    · next hne =>
      subst hcu
      rw [if_pos (realChange_true h.base.nodup hc hne)]
      have hn' : (uids (setDefL st.store c.uid d)).Nodup := by rw [uids_setDefL]; exact h.base.nodup
      have e := graphUpdateFor_of_mem (A := A) (st := { st with store := setDefL st.store c.uid d }) hn' h.valid
        (c := ({ c with defn := d } : Cst D)) (mem_setDefL_self hc)
      have e' : St.graphUpdateFor A { st with store := setDefL st.store c.uid d } c.uid = _ := e
      unfold setDefL at e'
      rw [e']
      exact setDef_core hA h hc d

/-! ### histories -/

/-- admissible operation in a state: no `load`; the alias of an erased constituent is not shared
with another constituent (the identity manager of `RSCore` issues unique aliases) -/
def Admissible (st : St D I) : Op D → Prop
  | .load _ => False
  | .erase u => EraseOk st.store u
  | _ => True

def AdmissibleFrom [DecidableEq D] (A : Analysis D I) : St D I → List (Op D) → Prop
  | _, [] => True
  | st, op :: ops => Admissible st op ∧ AdmissibleFrom A (step A st op) ops

instance (s : List (Cst D)) (u : Nat) : Decidable (EraseOk s u) := by
  unfold EraseOk; infer_instance

instance (st : St D I) (op : Op D) : Decidable (Admissible st op) := by
  cases op <;> unfold Admissible <;> infer_instance

instance instDecidableAdmissibleFrom [DecidableEq D] (A : Analysis D I) :
    ∀ (ops : List (Op D)) (st : St D I), Decidable (AdmissibleFrom A st ops)
  | [], _ => isTrue trivial
  | op :: ops, st =>
    have := instDecidableAdmissibleFrom A ops (step A st op)
    inferInstanceAs (Decidable (Admissible st op ∧ AdmissibleFrom A (step A st op) ops))

theorem WF.step [DecidableEq D] (hA : Lawful A) {st : St D I} (h : WF A st) {op : Op D} (ha : Admissible st op) :
    WF A (step A st op) := by
  cases op with
  | insert c => exact h.insert hA c
  | load c => exact ha.elim
  | updateState => exact h.updateState hA
  | erase u => exact h.erase hA u ha
  | setDef u d => exact h.setDef hA u d
  | setAlias u a sb => exact h.setAlias hA u a sb
  | substitute m => exact h.substitute hA m

theorem WF.foldl [DecidableEq D] (hA : Lawful A) (ops : List (Op D)) : ∀ st : St D I, WF A st → AdmissibleFrom A st ops →
    WF A (ops.foldl (SchemaGen.step A) st) := by
  induction ops with
  | nil => intro st h _; exact h
  | cons op ops ih =>
    intro st h ha
    rw [List.foldl_cons]
    exact ih _ (h.step hA ha.1) ha.2

theorem WF.run [DecidableEq D] (hA : Lawful A) {ops : List (Op D)} (ha : AdmissibleFrom A {} ops) : WF A (run A ops) :=
  WF.foldl hA ops {} WF_init ha

/-- aliases of the stored constituents are pairwise distinct -/
def AliasesDistinct (st : St D I) : Prop := (st.store.map (·.alias)).Nodup

instance (st : St D I) : Decidable (AliasesDistinct st) := by
  unfold AliasesDistinct; infer_instance

theorem eq_of_alias_eq {s : List (Cst D)} (hn : (s.map (·.alias)).Nodup) {c d : Cst D} (hc : c ∈ s)
    (hd : d ∈ s) (h : c.alias = d.alias) : c = d := by
  induction s with
  | nil => cases hc
  | cons x xs ih =>
    simp only [List.map_cons, List.nodup_cons] at hn
    obtain ⟨h1, h2⟩ := hn
    rcases List.mem_cons.1 hc with e1 | hc <;> rcases List.mem_cons.1 hd with e2 | hd
    · rw [e1, e2]
    · exact absurd (List.mem_map.2 ⟨d, hd, by rw [← h, e1]⟩) h1
    · exact absurd (List.mem_map.2 ⟨c, hc, by rw [h, e2]⟩) h1
    · exact ih h2 hc hd

theorem admissibleFrom_of_distinct [DecidableEq D] (ops : List (Op D)) : ∀ st : St D I,
    (∀ op ∈ ops, ∀ c, op ≠ .load c) →
    (∀ k, AliasesDistinct ((ops.take k).foldl (step A) st)) → AdmissibleFrom A st ops := by
  induction ops with
  | nil => intro _ _ _; trivial
  | cons op ops ih =>
    intro st hl hd
    refine ⟨?_, ih _ (fun o ho => hl o (List.mem_cons_of_mem _ ho)) (fun k => ?_)⟩
    · cases op with
      | load c => exact absurd rfl (hl (.load c) (by simp) c)
      | erase u =>
        intro c hc hcu d' hd' hal
        have h0 : AliasesDistinct st := hd 0
        rw [eq_of_alias_eq h0 hd' hc hal]
        exact hcu
      | _ => trivial
    · have := hd (k + 1)
      rw [List.take_succ_cons, List.foldl_cons] at this
      exact this

end CCVerif.SchemaGen
