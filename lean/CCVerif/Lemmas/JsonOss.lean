import CCVerif.Model.JsonOss
/-!
Lemmas for the OSS document (C10): `LoadParent` on the connections the writer emits reproduces the
edge list; codec round trips of the pictogram fields; `LoadPict` on distinct identifiers / cells.
-/
namespace CCVerif.JsonOss
open CCVerif.Json CCVerif.Translation
open CCVerif.Oss (Pos Pid OpType)

/-! ## graph facet -/

def keysOf (g : Rows) : List Pid := g.map (·.1)

theorem edgeList_append (a b : Rows) : edgeList (a ++ b) = edgeList a ++ edgeList b := by simp [edgeList]

theorem edgeList_cons (r : Pid × List Pid) (g : Rows) :
    edgeList (r :: g) = r.2.map (fun p => (r.1, p)) ++ edgeList g := by simp [edgeList]

theorem edgeList_empty_rows (b : Rows) (h : ∀ r ∈ b, r.2 = []) : edgeList b = [] := by
  induction b with
  | nil => rfl
  | cons r b ih =>
    rw [edgeList_cons, h r (by simp), ih (fun r hr => h r (by simp [hr]))]; rfl

theorem rowOf_mem {g : Rows} {p q : Pid} (h : q ∈ rowOf g p) : ∃ r ∈ g, r.1 = p ∧ q ∈ r.2 := by
  unfold rowOf at h
  cases hf : g.find? (·.1 == p) with
  | none => rw [hf] at h; simp at h
  | some r =>
    rw [hf] at h
    exact ⟨r, List.mem_of_find?_eq_some hf, by simpa using List.find?_some hf, by simpa using h⟩

theorem rowOf_not_key {g : Rows} {p : Pid} (h : p ∉ keysOf g) : rowOf g p = [] := by
  unfold rowOf
  have : g.find? (·.1 == p) = none := by
    rw [List.find?_eq_none]; intro r hr
    simp only [beq_iff_eq]; rintro rfl; exact h (List.mem_map.2 ⟨r, hr, rfl⟩)
  rw [this]; rfl

theorem any_key {g : Rows} {p : Pid} : g.any (·.1 == p) = true ↔ p ∈ keysOf g := by
  simp [keysOf, List.any_eq_true]

theorem item2ID_of_key {g : Rows} {p : Pid} (h : p ∈ keysOf g) : item2ID g p = g := by
  unfold item2ID; rw [if_pos (any_key.2 h)]

theorem item2ID_of_not_key {g : Rows} {p : Pid} (h : p ∉ keysOf g) : item2ID g p = g ++ [(p, [])] := by
  unfold item2ID; rw [if_neg (fun hh => h (any_key.1 hh))]

/-- the graph `a ++ (c, row) :: b` where `c` is the LAST item with connections -/
structure Shape (g : Rows) (c : Pid) (row : List Pid) (a b : Rows) : Prop where
  eq : g = a ++ (c, row) :: b
  ca : c ∉ keysOf a
  bE : ∀ r ∈ b, r.2 = []

theorem Shape.rowOf_self {g c row a b} (s : Shape g c row a b) : rowOf g c = row := by
  rw [s.eq]; unfold rowOf
  rw [List.find?_append]
  have : a.find? (·.1 == c) = none := by
    rw [List.find?_eq_none]; intro r hr
    simp only [beq_iff_eq]; rintro rfl; exact s.ca (List.mem_map.2 ⟨r, hr, rfl⟩)
  simp [this]

theorem Shape.edgeList {g c row a b} (s : Shape g c row a b) :
    edgeList g = edgeList a ++ row.map (fun p => (c, p)) := by
  rw [s.eq, edgeList_append, edgeList_cons, edgeList_empty_rows b s.bE]; simp

theorem Shape.keys {g c row a b} (s : Shape g c row a b) : keysOf g = keysOf a ++ c :: keysOf b := by
  rw [s.eq]; simp [keysOf]

/-- one `LoadParent(c, p)` when `c` is the last item with connections -/
theorem loadParent_shape {g a b : Rows} {c p : Pid} {row : List Pid} (hk : (keysOf g).Nodup)
    (s : Shape g c row a b) (hcp : c ≠ p) (h1 : p ∉ row) (ha : ∀ r ∈ a, c ∉ r.2) :
    ∃ b', Shape (loadParent g c p) c (row ++ [p]) a b' ∧ (keysOf (loadParent g c p)).Nodup ∧
      (∀ k, k ∈ keysOf (loadParent g c p) ↔ k ∈ keysOf g ∨ k = p) := by
  have hcg : c ∈ keysOf g := by rw [s.keys]; simp
  -- the graph after the two `Item2ID`s
  obtain ⟨b2, s2, hk2, hkeys2⟩ : ∃ b2, Shape (item2ID (item2ID g c) p) c row a b2 ∧
      (keysOf (item2ID (item2ID g c) p)).Nodup ∧
      (∀ k, k ∈ keysOf (item2ID (item2ID g c) p) ↔ k ∈ keysOf g ∨ k = p) := by
    rw [item2ID_of_key hcg]
    by_cases hp : p ∈ keysOf g
    · rw [item2ID_of_key hp]
      exact ⟨b, s, hk, fun k => ⟨Or.inl, fun h => h.elim id (fun e => e ▸ hp)⟩⟩
    · rw [item2ID_of_not_key hp]
      refine ⟨b ++ [(p, [])], ⟨by rw [s.eq]; simp, s.ca, ?_⟩, ?_, ?_⟩
      · intro r hr
        rcases List.mem_append.1 hr with hr | hr
        · exact s.bE r hr
        · simp at hr; rw [hr]
      · simp only [keysOf, List.map_append, List.map_cons, List.map_nil]
        rw [List.nodup_append]
        refine ⟨hk, by simp, ?_⟩
        intro x hx y hy; simp at hy; subst hy; rintro rfl; exact hp hx
      · intro k; simp [keysOf]
  have hrow2 : rowOf (item2ID (item2ID g c) p) c = row := s2.rowOf_self
  have hn1 : (rowOf (item2ID (item2ID g c) p) c).contains p = false := by
    rw [hrow2]; simpa using h1
  have hn2 : (rowOf (item2ID (item2ID g c) p) p).contains c = false := by
    rw [Bool.eq_false_iff]; intro hcon
    obtain ⟨r, hr, hr1, hr2⟩ := rowOf_mem (by simpa using hcon : c ∈ rowOf (item2ID (item2ID g c) p) p)
    rw [s2.eq] at hr
    rcases List.mem_append.1 hr with hr | hr
    · exact ha r hr hr2
    · rcases List.mem_cons.1 hr with rfl | hr
      · exact hcp hr1
      · rw [s2.bE r hr] at hr2; simp at hr2
  have hb : (c == p) = false := by simpa using hcp
  have hunf : loadParent g c p =
      (item2ID (item2ID g c) p).map fun r => if r.1 == c then (r.1, r.2 ++ [p]) else r := by
    unfold loadParent
    simp only [hb, Bool.false_eq_true, if_false, hn1, hn2, Bool.or_self]
  have hcb2 : c ∉ keysOf b2 := by
    have := hk2; rw [s2.keys] at this
    have h3 := (List.nodup_append.1 this).2.1
    exact (List.nodup_cons.1 h3).1
  have hmapa : ∀ (l : Rows), c ∉ keysOf l →
      l.map (fun r => if r.1 == c then (r.1, r.2 ++ [p]) else r) = l := by
    intro l hl
    induction l with
    | nil => rfl
    | cons r l ih =>
      have hr : (r.1 == c) = false := by
        simp only [keysOf, List.map_cons, List.mem_cons, not_or] at hl
        simpa using (Ne.symm hl.1)
      simp only [List.map_cons, hr, Bool.false_eq_true, if_false]
      rw [ih (by simp only [keysOf, List.map_cons, List.mem_cons, not_or] at hl; exact hl.2)]
  have hres : loadParent g c p = a ++ (c, row ++ [p]) :: b2 := by
    rw [hunf, s2.eq, List.map_append, List.map_cons, hmapa a s.ca, hmapa b2 hcb2]
    simp
  have hkeq : keysOf (loadParent g c p) = keysOf (item2ID (item2ID g c) p) := by
    rw [hres, s2.eq]; simp [keysOf]
  refine ⟨b2, ⟨hres, s.ca, s2.bE⟩, by rw [hkeq]; exact hk2, fun k => by rw [hkeq]; exact hkeys2 k⟩

/-- the connections `(c, p)` for `p ∈ ps`, loaded in order, when `c` is the last item with connections -/
theorem loadRow_shape (c : Pid) (a : Rows) (ha : ∀ r ∈ a, c ∉ r.2) : ∀ (ps : List Pid) (g : Rows) (row : List Pid) (b : Rows),
    (keysOf g).Nodup → Shape g c row a b → c ∉ ps → (row ++ ps).Nodup →
    ∃ b', Shape (loadEdges g (ps.map fun p => (c, p))) c (row ++ ps) a b' ∧
      (keysOf (loadEdges g (ps.map fun p => (c, p)))).Nodup ∧
      (∀ k, k ∈ keysOf (loadEdges g (ps.map fun p => (c, p))) ↔ k ∈ keysOf g ∨ k ∈ ps)
  | [], g, row, b, hk, s, _, _ => ⟨b, by simpa [loadEdges] using s, by simpa [loadEdges] using hk, by simp [loadEdges]⟩
  | p :: ps, g, row, b, hk, s, hc, hnd => by
    have hcp : c ≠ p := by intro e; exact hc (e ▸ List.mem_cons_self)
    have h1 : p ∉ row := by
      intro hm
      have := (List.nodup_append.1 hnd).2.2 p hm p List.mem_cons_self
      exact this rfl
    obtain ⟨b1, s1, hk1, hkeys1⟩ := loadParent_shape hk s hcp h1 ha
    have hnd' : ((row ++ [p]) ++ ps).Nodup := by simpa using hnd
    obtain ⟨b2, s2, hk2, hkeys2⟩ := loadRow_shape c a ha ps _ (row ++ [p]) b1 hk1 s1
      (fun hm => hc (List.mem_cons_of_mem _ hm)) hnd'
    have hfold : loadEdges g ((p :: ps).map fun p => (c, p)) = loadEdges (loadParent g c p) (ps.map fun p => (c, p)) := rfl
    rw [hfold]
    refine ⟨b2, by simpa using s2, hk2, ?_⟩
    intro k; rw [hkeys2 k, hkeys1 k]; simp only [List.mem_cons]
    constructor
    · rintro ((h | h) | h)
      · exact Or.inl h
      · exact Or.inr (Or.inl h)
      · exact Or.inr (Or.inr h)
    · rintro (h | h | h)
      · exact Or.inl (Or.inl h)
      · exact Or.inl (Or.inr h)
      · exact Or.inr h

/-- every parent mentioned in a row is an item -/
def Closed (g : Rows) : Prop := ∀ r ∈ g, ∀ q ∈ r.2, q ∈ keysOf g

/-- a whole row `(c, ps)` for a new item `c` -/
theorem loadRow_new (g : Rows) (c : Pid) (ps : List Pid) (hk : (keysOf g).Nodup) (hcl : Closed g)
    (hc : ps ≠ [] → c ∉ keysOf g) (hcp : c ∉ ps) (hnd : ps.Nodup) :
    (keysOf (loadEdges g (ps.map fun p => (c, p)))).Nodup ∧ Closed (loadEdges g (ps.map fun p => (c, p))) ∧
    edgeList (loadEdges g (ps.map fun p => (c, p))) = edgeList g ++ ps.map (fun p => (c, p)) ∧
    (∀ k, k ∈ keysOf (loadEdges g (ps.map fun p => (c, p))) ↔ k ∈ keysOf g ∨ (ps ≠ [] ∧ (k = c ∨ k ∈ ps))) := by
  cases ps with
  | nil => simp [loadEdges]; exact ⟨hk, hcl⟩
  | cons p ps =>
    have hcg : c ∉ keysOf g := hc (by simp)
    have hfirst : loadEdges g ((p :: ps).map fun p => (c, p)) = loadEdges (item2ID g c) ((p :: ps).map fun p => (c, p)) := by
      show loadEdges (loadParent g c p) _ = loadEdges (loadParent (item2ID g c) c p) _
      congr 1
      have hin : c ∈ keysOf (item2ID g c) := by rw [item2ID_of_not_key hcg]; simp [keysOf]
      have hb : (c == p) = false := by
        have : c ≠ p := fun e => hcp (e ▸ List.mem_cons_self)
        simpa using this
      unfold loadParent
      simp only [hb, Bool.false_eq_true, if_false]
      rw [item2ID_of_key (g := item2ID g c) hin]
    have s0 : Shape (item2ID g c) c [] g [] := ⟨by rw [item2ID_of_not_key hcg], hcg, by simp⟩
    have hk0 : (keysOf (item2ID g c)).Nodup := by
      rw [item2ID_of_not_key hcg]
      simp only [keysOf, List.map_append, List.map_cons, List.map_nil]
      rw [List.nodup_append]
      refine ⟨hk, by simp, ?_⟩
      intro x hx y hy; simp at hy; subst hy; rintro rfl; exact hcg hx
    have ha : ∀ r ∈ g, c ∉ r.2 := fun r hr hm => hcg (hcl r hr c hm)
    obtain ⟨b', s, hk', hkeys⟩ := loadRow_shape c g ha (p :: ps) _ [] [] hk0 s0 hcp (by simpa using hnd)
    rw [hfirst]
    have hkeys' : ∀ k, k ∈ keysOf (loadEdges (item2ID g c) ((p :: ps).map fun p => (c, p))) ↔
        k ∈ keysOf g ∨ (k = c ∨ k ∈ p :: ps) := by
      intro k; rw [hkeys k, item2ID_of_not_key hcg]; simp [keysOf]
      constructor
      · rintro ((h | h) | h)
        · exact Or.inl h
        · exact Or.inr (Or.inl h)
        · exact Or.inr (Or.inr h)
      · rintro (h | h | h)
        · exact Or.inl (Or.inl h)
        · exact Or.inl (Or.inr h)
        · exact Or.inr h
    refine ⟨hk', ?_, ?_, ?_⟩
    · intro r hr q hq
      rw [hkeys' q]
      rw [s.eq] at hr
      rcases List.mem_append.1 hr with hr | hr
      · exact Or.inl (hcl r hr q hq)
      · rcases List.mem_cons.1 hr with rfl | hr
        · exact Or.inr (Or.inr (by simpa using hq))
        · rw [s.bE r hr] at hq; simp at hq
    · rw [s.edgeList]; simp
    · intro k; rw [hkeys' k]; simp

/-- the rows in the writer's order: distinct items, parents without repetition and different from the
item, and no item is mentioned as a parent in its own or an earlier row (parents are listed first) -/
def RowsCanon (g : Rows) : Prop :=
  g.Pairwise (fun r s => r.1 ≠ s.1 ∧ s.1 ∉ r.2) ∧ ∀ r ∈ g, r.1 ∉ r.2 ∧ r.2.Nodup

theorem loadEdges_append (g : Rows) (a b : List (Pid × Pid)) : loadEdges g (a ++ b) = loadEdges (loadEdges g a) b := by
  simp [loadEdges]

theorem loadEdges_rows : ∀ (g g0 : Rows), (keysOf g0).Nodup → Closed g0 → RowsCanon g →
    (∀ r ∈ g, r.2 ≠ [] → r.1 ∉ keysOf g0) →
    edgeList (loadEdges g0 (edgeList g)) = edgeList g0 ++ edgeList g ∧
    (keysOf (loadEdges g0 (edgeList g))).Nodup ∧ Closed (loadEdges g0 (edgeList g))
  | [], g0, hk, hcl, _, _ => by simp [edgeList, loadEdges]; exact ⟨hk, hcl⟩
  | r :: g, g0, hk, hcl, hc, hnew => by
    obtain ⟨hpw, hrow⟩ := hc
    rw [List.pairwise_cons] at hpw
    have hr := hrow r (by simp)
    obtain ⟨hk1, hcl1, he1, hkeys1⟩ := loadRow_new g0 r.1 r.2 hk hcl (hnew r (by simp)) hr.1 hr.2
    have hc' : RowsCanon g := ⟨hpw.2, fun s hs => hrow s (by simp [hs])⟩
    have hnew' : ∀ s ∈ g, s.2 ≠ [] → s.1 ∉ keysOf (loadEdges g0 (r.2.map fun p => (r.1, p))) := by
      intro s hs hne hm
      rcases (hkeys1 s.1).1 hm with h | ⟨_, h | h⟩
      · exact hnew s (by simp [hs]) hne h
      · exact (hpw.1 s hs).1 h.symm
      · exact (hpw.1 s hs).2 h
    obtain ⟨he2, hk2, hcl2⟩ := loadEdges_rows g _ hk1 hcl1 hc' hnew'
    rw [edgeList_cons, loadEdges_append]
    refine ⟨?_, hk2, hcl2⟩
    rw [he2, he1]; simp

/-- **the connections the writer emits are reproduced by `LoadParent` in order** -/
theorem loadEdges_edgeList (g : Rows) (h : RowsCanon g) : edgeList (loadEdges [] (edgeList g)) = edgeList g := by
  have := (loadEdges_rows g [] (by simp [keysOf]) (by intro r hr; simp at hr) h (by intro r _ _; simp [keysOf])).1
  simpa [edgeList] using this

/-! ## codecs -/

theorem mapM_ok {α β : Type} (f : β → R α) (g : α → β) : ∀ l : List α, (∀ x ∈ l, f (g x) = .ok x) →
    (l.map g).mapM f = .ok l
  | [], _ => rfl
  | x :: l, h => by
    rw [List.map_cons, List.mapM_cons, h x (by simp), mapM_ok f g l (fun y hy => h y (by simp [hy]))]
    rfl

theorem foldl_insertRow (rows : EqRows) : ∀ (acc : EqRows), ((acc ++ rows).map (·.1)).Nodup →
    rows.foldl insertRow acc = acc ++ rows := by
  induction rows with
  | nil => simp
  | cons r rows ih =>
    intro acc hnd
    have hfresh : acc.any (·.1 == r.1) = false := by
      rw [Bool.eq_false_iff]; intro h
      simp only [List.any_eq_true, beq_iff_eq] at h
      obtain ⟨x, hx, hxe⟩ := h
      simp only [List.map_append, List.map_cons] at hnd
      have := (List.nodup_append.1 hnd).2.2 x.1 (List.mem_map.2 ⟨x, hx, rfl⟩) r.1 List.mem_cons_self
      exact this hxe
    rw [List.foldl_cons]
    have : insertRow acc r = acc ++ [r] := by unfold insertRow; simp [hfresh]
    rw [this, ih (acc ++ [r]) (by simpa using hnd)]; simp

theorem foldl_insert (ps : Tr) : ∀ (acc : Tr), ((acc ++ ps).map (·.1)).Nodup →
    ps.foldl (fun acc p => Translation.insert acc p.1 p.2) acc = acc ++ ps := by
  induction ps with
  | nil => simp
  | cons r ps ih =>
    intro acc hnd
    have hfresh : containsKey acc r.1 = false := by
      rw [Bool.eq_false_iff]; intro h
      unfold containsKey lookup at h
      cases hf : acc.find? (·.1 == r.1) with
      | none => rw [hf] at h; simp at h
      | some x =>
        have hx := List.mem_of_find?_eq_some hf
        have hxe : x.1 = r.1 := by simpa using List.find?_some hf
        simp only [List.map_append, List.map_cons] at hnd
        have := (List.nodup_append.1 hnd).2.2 x.1 (List.mem_map.2 ⟨x, hx, rfl⟩) r.1 List.mem_cons_self
        exact this hxe
    rw [List.foldl_cons]
    have : Translation.insert acc r.1 r.2 = acc ++ [r] := by unfold Translation.insert; simp [hfresh]
    rw [this, ih (acc ++ [r]) (by simpa using hnd)]; simp

/-- distinct keys in the stored equations and in every stored translation -/
def OpWf (h : OpHandle) : Prop :=
  (∀ t, h.options = some t → (t.map (·.1)).Nodup) ∧
  (∀ ts, h.translations = some ts → ∀ t ∈ ts, (t.map (·.1)).Nodup)

/-- a stored pictogram has a source handle -/
def PictWf (p : Pict) : Prop := p.src.isSome = true ∧ ∀ h, p.op = some h → OpWf h

theorem equation_rt (e : Equation) : Equation.fromJson e.toJson = .ok e := by
  cases e with
  | mk m a => cases m <;> rfl

theorem eqRows_rt (t : EqRows) (h : (t.map (·.1)).Nodup) : eqRowsFromJson (eqRowsToJson t) = .ok t := by
  unfold eqRowsFromJson eqRowsToJson
  have hm : List.mapM eqRowFromJson (t.map fun (x : Nat × Nat × Equation) =>
      Json.obj [("operand1", .num x.1), ("operand2", .num x.2.1), ("parameters", x.2.2.toJson)]) = .ok t := by
    apply mapM_ok
    intro x _
    obtain ⟨k, v, e⟩ := x
    simp [eqRowFromJson, at', Json.get, getNat, equation_rt, bind, Except.bind, pure, Except.pure]
  simp only [getArr, bind, Except.bind, hm, pure, Except.pure]
  rw [foldl_insertRow t [] (by simpa using h)]; simp

theorem tr_rt (t : Tr) (h : (t.map (·.1)).Nodup) : trFromJson' (trToJson t) = .ok t := by
  unfold trFromJson' trToJson
  have hm : List.mapM pairFromJson' (t.map fun (p : Nat × Nat) => Json.arr [Json.num p.1, Json.num p.2]) = .ok t := by
    apply mapM_ok
    intro x _
    simp [pairFromJson', getNat, bind, Except.bind, pure, Except.pure]
  simp only [getArr, bind, Except.bind, hm, pure, Except.pure]
  rw [foldl_insert t [] (by simpa using h)]; simp

theorem opHandle_rt (h : OpHandle) (w : OpWf h) : OpHandle.fromJson h.toJson = .ok h := by
  obtain ⟨ty, br, od, opts, trs⟩ := h
  have hty : opTypeOfJson (.str (opTypeName ty)) = ty := by cases ty <;> rfl
  have htr : ∀ ts : List Tr, (∀ t ∈ ts, (t.map (·.1)).Nodup) → (ts.map trToJson).mapM trFromJson' = .ok ts :=
    fun ts hts => mapM_ok trFromJson' trToJson ts (fun t ht => tr_rt t (hts t ht))
  cases opts with
  | none =>
    cases trs with
    | none => simp [OpHandle.toJson, OpHandle.fromJson, at', Json.get, getBool, bind, Except.bind, pure, Except.pure, hty]
    | some ts =>
      have := htr ts (w.2 ts rfl)
      simp [OpHandle.toJson, OpHandle.fromJson, at', Json.get, getBool, bind, Except.bind, pure, Except.pure, hty, this]
  | some t =>
    have ht := eqRows_rt t (w.1 t rfl)
    cases trs with
    | none => simp [OpHandle.toJson, OpHandle.fromJson, at', Json.get, getBool, bind, Except.bind, pure, Except.pure, hty, ht]
    | some ts =>
      have := htr ts (w.2 ts rfl)
      simp [OpHandle.toJson, OpHandle.fromJson, at', Json.get, getBool, bind, Except.bind, pure, Except.pure, hty, ht, this]

theorem srcHandle_rt (h : SrcHandle) : SrcHandle.fromJson h.toJson = .ok h := by
  obtain ⟨n, t, c, f⟩ := h
  have ht : srcTypeOfJson (.str t.name) = t := by cases t <;> rfl
  simp [SrcHandle.toJson, SrcHandle.fromJson, at', Json.get, getStr, getNat, bind, Except.bind, pure, Except.pure, ht]

theorem pict_rt (p : Pict) (w : PictWf p) : Pict.fromJson p.toJson = .ok p := by
  obtain ⟨uid, dt, title, alias, comment, link, src, op, pos⟩ := p
  have hdt : dataTypeOfJson (.str dt.name) = dt := by cases dt <;> rfl
  obtain ⟨la, ls⟩ := link
  obtain ⟨pr, pc⟩ := pos
  cases src with
  | none => exact absurd w.1 (by simp)
  | some sh =>
    have hs := srcHandle_rt sh
    cases op with
    | none =>
      simp [Pict.toJson, Pict.fromJson, at', Json.get, getStr, getNat, getInt, MediaLink.toJson, MediaLink.fromJson,
        Pos.toJson, Pos.fromJson, bind, Except.bind, pure, Except.pure, hdt, hs]
    | some oh =>
      have ho := opHandle_rt oh (w.2 oh rfl)
      simp [Pict.toJson, Pict.fromJson, at', Json.get, getStr, getNat, getInt, MediaLink.toJson, MediaLink.fromJson,
        Pos.toJson, Pos.fromJson, bind, Except.bind, pure, Except.pure, hdt, hs, ho, Except.map]

/-! ## `LoadPict` -/

theorem loadPicts_distinct (env : Env) : ∀ (ps loaded : List Pict),
    ((loaded ++ ps).map (·.uid)).Nodup → ((loaded ++ ps).map (·.pos)).Nodup →
    loadPicts env loaded ps = .ok (loaded ++ ps)
  | [], loaded, _, _ => by simp [loadPicts, pure, Except.pure]
  | p :: ps, loaded, hu, hc => by
    have hcell : ((gridOf loaded).cell p.pos).isSome = false := by
      rw [Bool.eq_false_iff]; intro h
      unfold CCVerif.Oss.Grid.cell gridOf at h
      cases hf : (loaded.map fun q => (q.pos, q.uid)).find? (·.1 == p.pos) with
      | none => rw [hf] at h; simp at h
      | some x =>
        have hx := List.mem_of_find?_eq_some hf
        have hxe : x.1 = p.pos := by simpa using List.find?_some hf
        obtain ⟨q, hq, rfl⟩ := List.mem_map.1 hx
        simp only [List.map_append, List.map_cons] at hc
        exact (List.nodup_append.1 hc).2.2 q.pos (List.mem_map.2 ⟨q, hq, rfl⟩) p.pos List.mem_cons_self hxe
    have huid : (loaded.map (·.uid)).contains p.uid = false := by
      rw [Bool.eq_false_iff]; intro h
      simp only [List.contains_iff_mem] at h
      simp only [List.map_append, List.map_cons] at hu
      exact (List.nodup_append.1 hu).2.2 p.uid h p.uid List.mem_cons_self rfl
    have hstep : loadPict env loaded p = .ok (loaded ++ [p]) := by
      unfold loadPict
      simp [hcell, bind, Except.bind, pure, Except.pure]
      intro x hx he
      exact absurd (by simpa using huid : ∀ x ∈ loaded, ¬ x.uid = p.uid) (fun h => h x hx he)
    unfold loadPicts
    simp only [hstep, bind, Except.bind]
    rw [loadPicts_distinct env ps (loaded ++ [p]) (by simpa using hu) (by simpa using hc)]
    simp

theorem edges_rt (es : List (Pid × Pid)) : (es.map fun e => Json.arr [.num e.1, .num e.2]).mapM edgeFromJson = .ok es := by
  apply mapM_ok
  intro x _
  simp [edgeFromJson, getNat, bind, Except.bind, pure, Except.pure]

/-- well-formed content as far as the round trip needs it -/
structure CodecWf (c : Oss) : Prop where
  uids : (c.items.map (·.uid)).Nodup
  cells : (c.items.map (·.pos)).Nodup
  picts : ∀ p ∈ c.items, PictWf p
  rows : RowsCanon c.rows

theorem ossFromJson_toJson (env : Env) (c : Oss) (w : CodecWf c) :
    ossFromJson env (ossToJson c) = .ok { c with rows := loadEdges [] (edgeList c.rows) } := by
  have h1 : (c.items.map Pict.toJson).mapM Pict.fromJson = .ok c.items :=
    mapM_ok Pict.fromJson Pict.toJson c.items (fun p hp => pict_rt p (w.picts p hp))
  have h2 := loadPicts_distinct env c.items [] (by simpa using w.uids) (by simpa using w.cells)
  have h3 := edges_rt (edgeList c.rows)
  simp only [List.nil_append] at h2
  simp [ossFromJson, ossToJson, edgesToJson, at', Json.get, getStr, getArr, bind, Except.bind, pure, Except.pure, h1, h2, h3]

/-! ## parents of one pictogram -/

theorem edgeList_fibre : ∀ (g : Rows), (keysOf g).Nodup → ∀ p,
    ((edgeList g).filter (·.1 == p)).map (·.2) = rowOf g p
  | [], _, p => by simp [edgeList, rowOf]
  | r :: g, hk, p => by
    have hk' : (keysOf g).Nodup := by simp only [keysOf, List.map_cons, List.nodup_cons] at hk; exact hk.2
    have hr : r.1 ∉ keysOf g := by simp only [keysOf, List.map_cons, List.nodup_cons] at hk; exact hk.1
    rw [edgeList_cons, List.filter_append, List.map_append, edgeList_fibre g hk' p]
    by_cases h : r.1 = p
    · subst h
      rw [rowOf_not_key hr]
      have : (r.2.map fun q => (r.1, q)).filter (·.1 == r.1) = r.2.map fun q => (r.1, q) := by
        rw [List.filter_eq_self]; intro e he; obtain ⟨q, _, rfl⟩ := List.mem_map.1 he; simp
      rw [this]; simp [rowOf, Function.comp_def]
    · have : (r.2.map fun q => (r.1, q)).filter (·.1 == p) = [] := by
        rw [List.filter_eq_nil_iff]; intro e he; obtain ⟨q, _, rfl⟩ := List.mem_map.1 he; simpa using h
      have hb : (r.1 == p) = false := by simpa using h
      rw [this]; simp [rowOf, hb]

theorem RowsCanon.keys_nodup {g : Rows} (h : RowsCanon g) : (keysOf g).Nodup := by
  unfold keysOf
  rw [List.nodup_iff_pairwise_ne, List.pairwise_map]
  exact h.1.imp (fun hh => hh.1)

/-- the loaded graph gives every pictogram the parents it had, in the same order -/
theorem rowOf_loadEdges (g : Rows) (h : RowsCanon g) (p : Pid) :
    rowOf (loadEdges [] (edgeList g)) p = rowOf g p := by
  have hl := loadEdges_rows g [] (by simp [keysOf]) (by intro r hr; simp at hr) h (by intro r _ _; simp [keysOf])
  rw [← edgeList_fibre _ hl.2.1 p, ← edgeList_fibre g h.keys_nodup p, loadEdges_edgeList g h]

end CCVerif.JsonOss
