import CCVerif.Lemmas.EvalBlocksPatTop
import CCVerif.Lemmas.EvalNestedExamples
/-! Non-vacuity witnesses of stage 10 (tuple patterns in `I{}` blocks, in `R{}`, inside enumerated declarations), shared
by `Properties/C01.lean` and `Properties/C02.lean`, over `X1 = {1,2}`:
`I{(a,b) | (a,b):∈X1×X1; a=b}`, `R{(a,b):=(0,0) | a<3 | (a+1,b+a)}`, `∀(a,b),c∈X1×X1 a=a`. -/
namespace CCVerif.Eval
open CCVerif.Syntax CCVerif.Spec CCVerif.Norm
open Ty

namespace Examples10
open Examples Examples7 Examples9

/-- `X1×X1` -/
def sq : Ast := nd .DECART [glob "X1", glob "X1"]
/-- `(a,b)` -/
def patAB : Ast := nd .NT_TUPLE_DECL [loc "a", loc "b"]
def XX : Ty := .tuple [X, X]
def ZZ : Ty := .tuple [Z, Z]
def w : Ast := loc "@ab"

/-- `I{(a,b) | (a,b):∈X1×X1; a=b}` -/
def i10 : Ast := nd .NT_IMPERATIVE_EXPR [nd .NT_TUPLE [loc "a", loc "b"], nd .ITERATE [patAB, sq], nd .EQUAL [loc "a", loc "b"]]
/-- over the generated local: `I{(pr1(@ab),pr2(@ab)) | @ab:∈X1×X1; pr1(@ab)=pr2(@ab)}` (its own normal form) -/
def i10s : Ast :=
  nd .NT_IMPERATIVE_EXPR [nd .NT_TUPLE [pr1 1 w, pr1 2 w], nd .ITERATE [w, sq], nd .EQUAL [pr1 1 w, pr1 2 w]]

/-- `R{(a,b):=(0,0) | a<3 | (a+1,b+a)}` -/
def r10 : Ast :=
  nd .NT_RECURSIVE_FULL [patAB, nd .NT_TUPLE [lit 0, lit 0], nd .LESSER [loc "a", lit 3],
    nd .NT_TUPLE [nd .PLUS [loc "a", lit 1], nd .PLUS [loc "b", loc "a"]]]
def r10s : Ast :=
  nd .NT_RECURSIVE_FULL [w, nd .NT_TUPLE [lit 0, lit 0], nd .LESSER [pr1 1 w, lit 3],
    nd .NT_TUPLE [nd .PLUS [pr1 1 w, lit 1], nd .PLUS [pr1 2 w, pr1 1 w]]]

/-- `∀(a,b),c∈X1×X1 a=a` -/
def q10 : Ast := nd .FORALL [nd .NT_ENUM_DECL [patAB, loc "c"], sq, nd .EQUAL [loc "a", loc "a"]]
/-- `∀@ab,c∈X1×X1 pr1(@ab)=pr1(@ab)` -/
def q10s : Ast := nd .FORALL [nd .NT_ENUM_DECL [w, loc "c"], sq, nd .EQUAL [pr1 1 w, pr1 1 w]]
/-- the normal form of both: nested quantifiers -/
def q10n : Ast := nd .FORALL [w, sq, nd .FORALL [loc "c", sq, nd .EQUAL [pr1 1 w, pr1 1 w]]]

theorem i10_normalizes : normalizeTree env7.funcs 10 i10 = some i10s := by rfl
theorem r10_normalizes : normalizeTree env7.funcs 10 r10 = some r10s := by rfl
theorem q10_normalizes : normalizeTree env7.funcs 10 q10 = some q10n := by rfl

/-! ### the forms over plain variables lie in the typed fragment -/

theorem sq_frag (Γ : TCtx) : Frag env7 G7 6 Γ sq (.ty (.coll XX)) := by
  refine Frag.decart _ _ _ _ [X, X] (by simp) rfl ?_
  intro q hq
  simp only [List.zip_cons_cons, List.zip_nil_right, List.mem_cons, List.not_mem_nil, or_false] at hq
  rcases hq with rfl | rfl <;> exact x1_frag7 _

theorem w_frag (Γ : TCtx) (τ : Ty) (h : lookup "@ab" Γ = some τ) : Frag env7 G7 6 Γ w (.ty τ) :=
  .loc _ "@ab" 0 0 (by decide) h rfl

theorem prw_frag (Γ : TCtx) (σ : Ty) (k : Int) (h : lookup "@ab" Γ = some (.tuple [σ, σ])) (hk : k = 1 ∨ k = 2) :
    Frag env7 G7 6 Γ (pr1 k w) (.ty σ) := by
  refine .smallpr (ts := [σ, σ]) [k] 0 0 (w_frag Γ _ h) ?_
  rcases hk with rfl | rfl <;> rfl

def impBlocks10 : List Blk :=
  [.iter "@ab" sq sq XX .none 0 0 0 0,
   .guard (nd .EQUAL [pr1 1 w, pr1 2 w]) (nd .EQUAL [pr1 1 w, pr1 2 w])]

theorem i10s_frag : Frag env7 G7 6 [] i10s (.ty (.coll XX)) := by
  refine FragR.imp _ _ _ impBlocks10 (by decide) (by simp [impBlocks10]) rfl ?_ ?_ ?_
  · exact split_cons (P := fun pre b => b.side env7 [] (ctxAfter [] pre)) ⟨rfl, rfl, by simp⟩
      (split_cons ⟨by decide, by decide, by decide, by decide⟩ split_nil)
  · refine split_cons (P := fun pre b => FragR env7 G7 6 [] (ctxAfter [] pre) b.expr b.expr' b.ety)
      (sq_frag _) (split_cons ?_ split_nil)
    exact .eq (τ := X) _ _ _ (Or.inl rfl) (prw_frag _ X 1 rfl (Or.inl rfl)) (prw_frag _ X 2 rfl (Or.inr rfl))
  · refine Frag.tuple _ _ _ [pr1 1 w, pr1 2 w] [X, X] (by decide) rfl ?_
    intro p hp
    simp only [List.zip_cons_cons, List.zip_nil_right, List.mem_cons, List.not_mem_nil, or_false] at hp
    rcases hp with rfl | rfl
    · exact prw_frag _ X 1 rfl (Or.inl rfl)
    · exact prw_frag _ X 2 rfl (Or.inr rfl)

theorem r10s_frag : Frag env7 G7 6 [] r10s (.ty ZZ) := by
  refine .recFull _ _ _ "@ab" 0 0 (by decide) rfl rfl (by simp) ?_ ?_ ?_
  · refine Frag.tuple _ _ _ [lit 0, lit 0] [Z, Z] (by decide) rfl ?_
    intro p hp
    simp only [List.zip_cons_cons, List.zip_nil_right, List.mem_cons, List.not_mem_nil, or_false] at hp
    rcases hp with rfl | rfl <;> exact .lit ..
  · exact .cmp _ _ _ (Or.inr (Or.inl rfl)) (prw_frag _ Z 1 rfl (Or.inl rfl)) (.lit ..)
  · refine Frag.tuple _ _ _ [nd .PLUS [pr1 1 w, lit 1], nd .PLUS [pr1 2 w, pr1 1 w]] [Z, Z] (by decide) rfl ?_
    intro p hp
    simp only [List.zip_cons_cons, List.zip_nil_right, List.mem_cons, List.not_mem_nil, or_false] at hp
    rcases hp with rfl | rfl
    · exact .arith _ _ _ (Or.inl rfl) (prw_frag _ Z 1 rfl (Or.inl rfl)) (.lit ..)
    · exact .arith _ _ _ (Or.inl rfl) (prw_frag _ Z 2 rfl (Or.inr rfl)) (prw_frag _ Z 1 rfl (Or.inl rfl))

theorem q10s_frag : FragR env7 G7 6 [] [] q10s q10n .logic := by
  refine FragR.quantEnum (τ := XX) _ _ _ _ _ _ [("@ab", 0, 0), ("c", 0, 0)] (by decide) (Or.inl rfl) (by decide) (by decide)
    (by intro q hq; simp at hq; rcases hq with rfl | rfl <;> exact ⟨rfl, rfl, by simp⟩) (sq_frag _) ?_
  exact .eq (τ := X) _ _ _ (Or.inl rfl) (prw_frag _ X 1 rfl (Or.inl rfl)) (prw_frag _ X 1 rfl (Or.inl rfl))

/-! ### the pattern-elimination derivations -/

abbrev S7 : SEnv := senvOf env7

theorem sq_dt (Γ : TCtx) : DT S7 Γ sq (.coll XX) := by
  refine .decart _ _ _ _ [X, X] rfl ?_
  intro q hq
  simp only [List.zip_cons_cons, List.zip_nil_right, List.mem_cons, List.not_mem_nil, or_false] at hq
  rcases hq with rfl | rfl <;> exact x1_dt _

theorem sq_pe (Γ : TCtx) (Δ : NCtx) : PE S7 Γ Δ sq sq := by
  refine .nary _ 0 0 0 0 _ _ (Or.inr (Or.inr rfl)) rfl ?_
  intro q hq
  simp only [List.zip_cons_cons, List.zip_nil_right, List.mem_cons, List.not_mem_nil, or_false] at hq
  rcases hq with rfl | rfl <;> exact .glob "X1" 0 0 0 0

def Δ10 : NCtx := [("a", ("@ab", [1])), ("b", ("@ab", [2]))]
theorem delta10 : leafDelta patAB "@ab" ++ [] = Δ10 := by decide

theorem declOK10 (τ : Ty) (h : patOK patAB τ = true) : DeclOK [] patAB "@ab" τ :=
  ⟨h, by decide, by intro x r hl; simp [lookup] at hl⟩

theorem a_pe (Γ : TCtx) : PE S7 Γ Δ10 (loc "a") (pr1 1 w) := PE.loc "a" "@ab" [1] 0 0 0 0 rfl
theorem b_pe (Γ : TCtx) : PE S7 Γ Δ10 (loc "b") (pr1 2 w) := PE.loc "b" "@ab" [2] 0 0 0 0 rfl

theorem lit_pe (Γ : TCtx) (Δ : NCtx) (n : Int) : PE S7 Γ Δ (lit n) (lit n) := .lit n 0 0 0 0

def bl10 : List BSpec :=
  [.iter patAB ("@ab", 0, 0) XX sq sq {} {}, .cond (nd .EQUAL [loc "a", loc "b"]) (nd .EQUAL [pr1 1 w, pr1 2 w])]

theorem i10_pe : PE S7 [] [] i10 i10s := by
  refine PE.imp (S := S7) (Γ := []) (Δ := []) .none .none 0 0 0 0 (nd .NT_TUPLE [loc "a", loc "b"])
    (nd .NT_TUPLE [pr1 1 w, pr1 2 w]) bl10 ?_ ?_
  · exact ⟨(sq_dt _).domTy, declOK10 XX (by decide), by decide, by decide, by decide, by decide, trivial⟩
  · intro q hq
    simp only [bl10, impObl, List.mem_cons, List.not_mem_nil, or_false] at hq
    rcases hq with rfl | rfl | rfl
    · exact sq_pe _ _
    · simp only [delta10]
      exact .bin _ 0 0 0 0 (Or.inr (Or.inr (Or.inl (Or.inl rfl)))) (a_pe _) (b_pe _)
    · simp only [delta10]
      refine .nary _ 0 0 0 0 _ _ (Or.inr (Or.inl rfl)) rfl ?_
      intro q hq
      simp only [List.zip_cons_cons, List.zip_nil_right, List.mem_cons, List.not_mem_nil, or_false] at hq
      rcases hq with rfl | rfl
      · exact a_pe _
      · exact b_pe _

theorem zero2_valTy (Γ : TCtx) : ValTy S7 Γ (nd .NT_TUPLE [lit 0, lit 0]) ZZ := by
  refine ValTy.tuple _ 0 0 _ [Z, Z] rfl ?_
  intro q hq
  simp only [List.zip_cons_cons, List.zip_nil_right, List.mem_cons, List.not_mem_nil, or_false] at hq
  rcases hq with rfl | rfl <;> exact (DT.lit 0 0 0).valTy

theorem step_valTy (Γ : TCtx) : ValTy S7 Γ (nd .NT_TUPLE [nd .PLUS [pr1 1 w, lit 1], nd .PLUS [pr1 2 w, pr1 1 w]]) ZZ := by
  refine ValTy.tuple _ 0 0 _ [Z, Z] rfl ?_
  intro q hq
  simp only [List.zip_cons_cons, List.zip_nil_right, List.mem_cons, List.not_mem_nil, or_false] at hq
  rcases hq with rfl | rfl <;> exact ValTy.arith (Or.inl rfl) _ _ _ 0 0 "Z"

theorem r10_pe : PE S7 [] [] r10 r10s := by
  refine PE.recFull (S := S7) (Γ := []) (Δ := []) (τ := ZZ) .none 0 0 0 0 ("@ab", 0, 0) (declOK10 ZZ (by decide))
    (zero2_valTy _) (step_valTy _) ?_ ?_ ?_
  · refine .nary _ 0 0 0 0 _ _ (Or.inr (Or.inl rfl)) rfl ?_
    intro q hq
    simp only [List.zip_cons_cons, List.zip_nil_right, List.mem_cons, List.not_mem_nil, or_false] at hq
    rcases hq with rfl | rfl <;> exact lit_pe _ _ 0
  · simp only [delta10]
    exact .bin _ 0 0 0 0 (Or.inr (Or.inl (Or.inr (Or.inl rfl)))) (a_pe _) (lit_pe _ _ 3)
  · simp only [delta10]
    refine .nary _ 0 0 0 0 _ _ (Or.inr (Or.inl rfl)) rfl ?_
    intro q hq
    simp only [List.zip_cons_cons, List.zip_nil_right, List.mem_cons, List.not_mem_nil, or_false] at hq
    rcases hq with rfl | rfl
    · exact .bin _ 0 0 0 0 (Or.inl (Or.inl rfl)) (a_pe _) (lit_pe _ _ 1)
    · exact .bin _ 0 0 0 0 (Or.inl (Or.inl rfl)) (b_pe _) (a_pe _)

def dl10 : DeclList := [(patAB, ("@ab", 0, 0)), (loc "c", ("c", 0, 0))]
def Δ10c : NCtx := [("c", ("c", [])), ("a", ("@ab", [1])), ("b", ("@ab", [2]))]
theorem delta10c : declsDelta dl10 [] = Δ10c := by decide

theorem q10_pe : PE S7 [] [] q10 q10s := by
  refine PE.quantE (S := S7) (Γ := []) (Δ := []) (t := .FORALL) (τ := XX) .none 0 0 0 0 {} {} dl10 (Or.inl rfl) ?_
    (sq_dt _).domTy (sq_pe _ _) ?_
  · refine ⟨declOK10 XX (by decide), ⟨by decide, by decide, ?_⟩, trivial⟩
    intro x r hl hn
    rw [show leafDelta patAB "@ab" ++ [] = Δ10 from delta10] at hl
    by_cases e1 : x = "a"
    · subst e1; simp [Δ10, lookup] at hl; subst hl; decide
    · by_cases e2 : x = "b"
      · subst e2; simp [Δ10, lookup] at hl; subst hl; decide
      · simp [Δ10, lookup, e1, e2] at hl
  · simp only [delta10c]
    exact .bin _ 0 0 0 0 (Or.inr (Or.inr (Or.inl (Or.inl rfl)))) (PE.loc "a" "@ab" [1] 0 0 0 0 rfl)
      (PE.loc "a" "@ab" [1] 0 0 0 0 rfl)

end Examples10

end CCVerif.Eval
