import CCVerif.Lemmas.ParserRanges
import CCVerif.Lemmas.TokBEq
set_option linter.unusedVariables false
set_option linter.unusedSectionVars false
/-!
Helper lemmas of C06 — `range_exact`: the parser model tiles every node's range EXACTLY with the tokens of
its own production and the ranges of its children.

Positions are abstracted to token indices (`Idx o toks`: the `k`-th token of `toks` has `lo = hi = o + k`;
by `Lemmas/ParsePosMap.lean` the parser commutes with every map of positions, so the index stream stands
for every positioned stream with the same tokens, whatever the gaps between them).

`Tight t` (on the RAW tree, bracket nodes `PUNC_PL` kept): at every node `[lo, hi]` (first and last token
index of the node) the children are laid out as the production of the node's kind says —
`Sep s kids e`: the first child starts at token `s`, exactly ONE token lies between two neighbours, the last
child ends at token `e`; e.g. a binary operator: `Sep lo kids hi`; `{a, b}`: `Sep (lo+1) kids (hi-1)`;
`F1[a, b]`: `Sep lo kids (hi-1)`; `pr1(a)`: `Sep (lo+2) kids (hi-1)`; a quantifier `∀v∈d p`: `v` at `lo+1`, `d`
two after the end of `v`, `p` directly after `d`, ending at `hi`; a leaf: `lo = hi`. A bracket node
`( x )` over `[lo, hi]`: its operand carries the range `[lo, hi]` of the brackets (`RemoveBrackets`) and is
itself laid out over `[lo+1, hi-1]`.

Every one of the twelve mutually recursive parser functions, given tokens `Idx o`, returns a `Tight` tree that
starts at token `o` and leaves the tokens `Idx (hi + 1)` (`parserTight`, by induction on the fuel, technique
of `Lemmas/ParserRanges.lean`).
-/
namespace CCVerif.RangeExact
open CCVerif.Syntax CCVerif.Generated CCVerif.Lexer CCVerif.Parser CCVerif.ParserRanges

/-- the `k`-th token of the list has `lo = hi = o + k` -/
def Idx : Int → Toks → Prop
  | _, [] => True
  | o, t :: ts => t.lo = o ∧ t.hi = o ∧ Idx (o + 1) ts

/-- the siblings are laid out from token `s` to token `e` with exactly one token between neighbours -/
def Sep : Int → List Ast → Int → Prop
  | _, [], _ => False
  | s, [k], e => k.lo = s ∧ k.hi = e
  | s, k :: k2 :: ks, e => k.lo = s ∧ Sep (k.hi + 2) (k2 :: ks) e

/-- node kinds built by `BinaryOperation` / `Decartian` -/
def isBlkOp : Tok → Bool
  | .ITERATE | .ASSIGN => true
  | _ => false

def isBinId (id : Tok) : Bool :=
  isSetOp id || isPredOp id || isLogicOp id || isBlkOp id

/-- leaf kinds (`yylex` makes the node) -/
def isLeafId : Tok → Bool
  | .LIT_INTEGER | .LIT_EMPTYSET | .LIT_INTSET | .ID_GLOBAL | .ID_LOCAL | .ID_RADICAL | .ID_FUNCTION
  | .ID_PREDICATE => true
  | _ => false

/-- the layout of the children of a node of kind `id` that occupies the tokens `a … b` -/
def Local (a b : Int) (id : Tok) (kids : List Ast) : Prop :=
  if isBinId id then Sep a kids b
  else if isTextFn id then Sep (a + 2) kids (b - 1)
  else match id with
    | .PUNC_PL => True
    | .BOOLEAN => Sep (a + 2) kids (b - 1) ∨ Sep (a + 1) kids b
    | .NOT => Sep (a + 1) kids b
    | .NT_ENUMERATION | .NT_TUPLE | .NT_TUPLE_DECL => Sep (a + 1) kids (b - 1)
    | .NT_ENUM_DECL | .NT_ARGUMENTS | .NT_ARG_DECL => Sep a kids b
    | .NT_FUNC_CALL => Sep a kids (b - 1)
    | .FORALL | .EXISTS =>
      match kids with
      | [v, d, p] => v.lo = a + 1 ∧ d.lo = v.hi + 2 ∧ p.lo = d.hi + 1 ∧ p.hi = b
      | _ => False
    | .NT_DECLARATIVE_EXPR => Sep (a + 2) kids (b - 1) ∨ Sep (a + 1) kids (b - 1)
    | .NT_RECURSIVE_FULL | .NT_RECURSIVE_SHORT | .NT_IMPERATIVE_EXPR => Sep (a + 2) kids (b - 1)
    | .FILTER => ∃ ps x q, kids = ps ++ [x] ∧ Sep (a + 2) ps q ∧ x.lo = q + 3 ∧ x.hi = b - 1
    | .NT_FUNC_DEFINITION => Sep (a + 1) kids b
    | .PUNC_DEFINE | .PUNC_STRUCT => Sep a kids b ∨ Sep a kids (b - 1)
    | _ => a = b

mutual
/-- the tree is tiled exactly, its root taken to occupy the tokens `a … b` -/
def TA (a b : Int) : Ast → Prop
  | .node id _ _ _ kids => if id = .PUNC_PL then TB a b kids else Local a b id kids ∧ TL kids
/-- content of a bracket node over `a … b` -/
def TB (a b : Int) : List Ast → Prop
  | [] => False
  | k :: ks => ks = [] ∧ k.lo = a ∧ k.hi = b ∧ TA (a + 1) (b - 1) k
def TL : List Ast → Prop
  | [] => True
  | k :: ks => TA k.lo k.hi k ∧ TL ks
end

/-- every node of the raw tree is tiled exactly by its own tokens and its children -/
def Tight (k : Ast) : Prop := TA k.lo k.hi k

/-! ## basic facts -/

@[simp] theorem idx_nil (o : Int) : Idx o [] := trivial
@[simp] theorem idx_cons (o : Int) (t : LTok) (ts : Toks) :
    Idx o (t :: ts) ↔ t.lo = o ∧ t.hi = o ∧ Idx (o + 1) ts := Iff.rfl

theorem idx_cast {a b : Int} {r : Toks} (h : a = b) (hi : Idx a r) : Idx b r := h ▸ hi

theorem idx_drop1 {o : Int} {ts : Toks} (h : Idx o ts) : Idx (o + 1) (ts.drop 1) := by
  cases ts with
  | nil => simp
  | cons t r => simpa using h.2.2

theorem idx_takeWhile (f : LTok → Bool) : ∀ {ts : Toks} {o : Int}, Idx o ts → Idx o (ts.takeWhile f)
  | [], _, _ => by simp
  | t :: ts, o, h => by
    rw [List.takeWhile_cons]; split
    · rw [idx_cons] at h ⊢; exact ⟨h.1, h.2.1, idx_takeWhile f h.2.2⟩
    · simp

@[simp] theorem sep_nil (s e : Int) : Sep s [] e ↔ False := by rw [Sep]
@[simp] theorem sep_single (s e : Int) (k : Ast) : Sep s [k] e ↔ k.lo = s ∧ k.hi = e := by rw [Sep]
@[simp] theorem sep_cons2 (s e : Int) (k k2 : Ast) (ks : List Ast) :
    Sep s (k :: k2 :: ks) e ↔ k.lo = s ∧ Sep (k.hi + 2) (k2 :: ks) e := by rw [Sep]

theorem sep_cons {s e : Int} {k : Ast} {ks : List Ast} (h1 : k.lo = s) (h2 : Sep (k.hi + 2) ks e) : Sep s (k :: ks) e := by
  cases ks with
  | nil => simp at h2
  | cons a l => rw [sep_cons2]; exact ⟨h1, h2⟩

theorem sep_snoc : ∀ {ks : List Ast} {s e : Int} {x : Ast}, Sep s ks e → x.lo = e + 2 → Sep s (ks ++ [x]) x.hi
  | [], _, _, _, h, _ => by simp at h
  | [k], s, e, x, h, hx => by
    rw [sep_single] at h
    simp only [List.cons_append, List.nil_append, sep_cons2, sep_single]
    exact ⟨h.1, by omega, trivial⟩
  | k :: k2 :: ks, s, e, x, h, hx => by
    rw [sep_cons2] at h
    simp only [List.cons_append, sep_cons2]
    exact ⟨h.1, by simpa using sep_snoc (ks := k2 :: ks) h.2 hx⟩

theorem sep_lo : ∀ {ks : List Ast} {s e : Int}, Sep s ks e → ∃ k r, ks = k :: r ∧ k.lo = s
  | [], _, _, h => by simp at h
  | [k], _, _, h => by rw [sep_single] at h; exact ⟨k, [], rfl, h.1⟩
  | k :: k2 :: ks, _, _, h => by rw [sep_cons2] at h; exact ⟨k, _, rfl, h.1⟩

/-- the end of a laid-out list is the end of its last member -/
theorem sep_last : ∀ {ks : List Ast} {s e : Int} (d : Ast), Sep s ks e → (ks.getLast?.getD d).hi = e
  | [], _, _, _, h => by simp at h
  | [k], _, _, _, h => by rw [sep_single] at h; simpa using h.2
  | k :: k2 :: ks, _, _, d, h => by
    rw [sep_cons2] at h
    rw [List.getLast?_cons_cons]
    exact sep_last d h.2

/-- only the ranges of the members matter -/
def SameR : List Ast → List Ast → Prop
  | [], [] => True
  | a :: l, b :: m => b.lo = a.lo ∧ b.hi = a.hi ∧ SameR l m
  | _, _ => False

theorem sep_congr : ∀ {ks ks' : List Ast} {s e : Int}, Sep s ks e → SameR ks ks' → Sep s ks' e
  | [], _, _, _, h, _ => by simp at h
  | [k], [], s, e, h, hf => by simp [SameR] at hf
  | [k], [k'], s, e, h, hf => by simp only [SameR] at hf; rw [sep_single] at h ⊢; omega
  | [k], _ :: _ :: _, s, e, h, hf => by simp [SameR] at hf
  | k :: k2 :: ks, [], s, e, h, hf => by simp [SameR] at hf
  | k :: k2 :: ks, [_], s, e, h, hf => by simp [SameR] at hf
  | k :: k2 :: ks, k' :: k2' :: ks', s, e, h, hf => by
    rw [SameR] at hf
    rw [sep_cons2] at h ⊢
    refine ⟨by omega, ?_⟩
    have := sep_congr h.2 hf.2.2
    rw [hf.2.1]; exact this

@[simp] theorem tl_nil : TL [] := by rw [TL]; trivial
@[simp] theorem tl_cons (k : Ast) (ks : List Ast) : TL (k :: ks) ↔ Tight k ∧ TL ks := by rw [TL]; rfl

theorem tl_append : ∀ {l₁ l₂ : List Ast}, TL l₁ → TL l₂ → TL (l₁ ++ l₂)
  | [], _, _, h => by simpa using h
  | k :: l, _, h1, h2 => by
    rw [tl_cons] at h1
    rw [List.cons_append, tl_cons]; exact ⟨h1.1, tl_append h1.2 h2⟩

theorem tl_snoc {l : List Ast} {x : Ast} (h : TL l) (hx : Tight x) : TL (l ++ [x]) :=
  tl_append h (by rw [tl_cons]; exact ⟨hx, tl_nil⟩)

theorem ta_node (a b : Int) (id : Tok) (d : TokData) (lo hi : Int) (kids : List Ast) :
    TA a b (.node id d lo hi kids) ↔ (if id = .PUNC_PL then TB a b kids else Local a b id kids ∧ TL kids) := by
  rw [TA]

theorem tight_node (id : Tok) (d : TokData) (lo hi : Int) (kids : List Ast) :
    Tight (.node id d lo hi kids) ↔ (if id = .PUNC_PL then TB lo hi kids else Local lo hi id kids ∧ TL kids) := by
  rw [Tight, ta_node]; rfl

/-- a node that is no bracket node -/
theorem tight_intro {id : Tok} {d : TokData} {lo hi : Int} {kids : List Ast} (hid : id ≠ .PUNC_PL)
    (h1 : Local lo hi id kids) (h2 : TL kids) : Tight (.node id d lo hi kids) := by
  rw [tight_node, if_neg hid]; exact ⟨h1, h2⟩

theorem ta_setRange (a b lo hi : Int) (x : Ast) : TA a b (setRange x lo hi) ↔ TA a b x := by
  cases x; rw [setRange, ta_node, ta_node]; rfl

/-! ## the semantic actions -/

theorem tight_leaf {t : LTok} (hid : isLeafId t.id = true) (h : t.lo = t.hi) : Tight (leaf t) := by
  obtain ⟨id, d, lo, hi⟩ := t
  simp only at h hid
  subst h
  cases id <;> simp [isLeafId] at hid <;>
    simp [leaf, tight_node, Local, isBinId, isSetOp, isPredOp, isLogicOp, isBlkOp, isTextFn]

theorem tight_leaf_local {t : LTok} (hid : (t.id == .ID_LOCAL) = true) (h : t.lo = t.hi) : Tight (leaf t) :=
  tight_leaf (by rw [tok_beq_eq _ _ hid]; rfl) h

theorem tight_brackets {l r : LTok} {x : Ast} (hx : Tight x) (h1 : x.lo = l.lo + 1) (h2 : x.hi + 1 = r.hi) :
    Tight (removeBrackets l x r) := by
  rw [removeBrackets, tight_node, if_pos rfl, TB]
  refine ⟨rfl, ?_, ?_, ?_⟩
  · cases x; rfl
  · cases x; rfl
  · rw [ta_setRange]
    have e1 : l.lo + 1 = x.lo := by omega
    have e2 : r.hi - 1 = x.hi := by omega
    rw [e1, e2]; exact hx

theorem binId_ne {id : Tok} (h : isBinId id = true) : id ≠ .PUNC_PL := by
  intro e; subst e; simp [isBinId, isSetOp, isPredOp, isLogicOp, isBlkOp] at h

theorem tight_binary {a b : Ast} {op : LTok} (hop : isBinId op.id = true) (ha : Tight a) (hb : Tight b)
    (h : b.lo = a.hi + 2) : Tight (binaryOperation a op b) := by
  rw [binaryOperation]
  refine tight_intro (binId_ne hop) ?_ (by simp [ha, hb])
  simp only [Local, hop, if_true, sep_cons2, sep_single]
  exact ⟨trivial, by simpa using h, trivial⟩

theorem tight_decartian {a b : Ast} {op : LTok} (hop : op.id = .DECART) (ha : Tight a) (hb : Tight b)
    (h : b.lo = a.hi + 2) : Tight (decartian a op b) := by
  unfold decartian; split
  · rename_i hd
    obtain ⟨id, d, lo, hi, kids⟩ := a
    have hid : id = .DECART := tok_beq_eq _ _ hd
    subst hid
    rw [tight_node, if_neg (by decide)] at ha
    have hl : Sep lo kids hi := by simpa [Local, isBinId, isSetOp, isBlkOp] using ha.1
    show Tight (Ast.node Tok.DECART d lo b.hi (kids ++ [b]))
    refine tight_intro (by decide) ?_ (tl_snoc ha.2 hb)
    have := sep_snoc hl (x := b) (by simpa using h)
    simpa [Local, isBinId, isSetOp, isBlkOp] using this
  · exact tight_binary (by rw [hop]; rfl) ha hb h

theorem tight_unary_not {op : LTok} {x : Ast} (hop : op.id = .NOT) (hx : Tight x) (h : x.lo = op.lo + 1) :
    Tight (unaryOperation op x) := by
  rw [unaryOperation, hop]
  refine tight_intro (by decide) ?_ (by simp [hx])
  simp [Local, isBinId, isSetOp, isPredOp, isLogicOp, isBlkOp, isTextFn, h]

theorem tight_unary_boolean {op : LTok} {x : Ast} (hop : op.id = .BOOLEAN) (hx : Tight x) (h : x.lo = op.lo + 1) :
    Tight (unaryOperation op x) := by
  rw [unaryOperation, hop]
  refine tight_intro (by decide) ?_ (by simp [hx])
  simp [Local, isBinId, isSetOp, isPredOp, isLogicOp, isBlkOp, isTextFn, h]

theorem tight_text {op rp : LTok} {x : Ast} (hop : isTextFn op.id = true ∨ op.id = .BOOLEAN) (hx : Tight x)
    (h1 : x.lo = op.lo + 2) (h2 : x.hi + 1 = rp.hi) : Tight (textOperator op x rp) := by
  rw [textOperator]
  obtain ⟨id, d, lo, hi⟩ := op
  simp only at hop h1 ⊢
  have e : x.hi = rp.hi - 1 := by omega
  rcases hop with hop | hop
  · cases id <;> simp [isTextFn] at hop <;>
      exact tight_intro (by decide) (by simp [Local, isBinId, isSetOp, isPredOp, isLogicOp, isBlkOp, isTextFn, h1, e]) (by simp [hx])
  · subst hop
    exact tight_intro (by decide) (by simp [Local, isBinId, isSetOp, isPredOp, isLogicOp, isBlkOp, isTextFn, h1, e]) (by simp [hx])

theorem tight_setnode {a b : Ast} {op : LTok} (hop : isSetOp op.id = true) (ha : Tight a) (hb : Tight b)
    (h : b.lo = a.hi + 2) :
    Tight (if op.id == .DECART then decartian a op b else binaryOperation a op b) := by
  split
  · rename_i hd; exact tight_decartian (tok_beq_eq _ _ hd) ha hb h
  · exact tight_binary (by simp [isBinId, hop]) ha hb h

@[simp] theorem setnode_lo (a b : Ast) (op : LTok) :
    (if op.id == .DECART then decartian a op b else binaryOperation a op b).lo = a.lo := by split <;> simp
@[simp] theorem setnode_hi (a b : Ast) (op : LTok) :
    (if op.id == .DECART then decartian a op b else binaryOperation a op b).hi = b.hi := by split <;> simp

theorem tight_binary_set {a b : Ast} {op : LTok} (hop : isSetOp op.id = true) (ha : Tight a) (hb : Tight b)
    (h : b.lo = a.hi + 2) : Tight (binaryOperation a op b) := tight_binary (by simp [isBinId, hop]) ha hb h
theorem tight_decartian' {a b : Ast} {op : LTok} (hop : (op.id == .DECART) = true) (ha : Tight a) (hb : Tight b)
    (h : b.lo = a.hi + 2) : Tight (decartian a op b) := tight_decartian (tok_beq_eq _ _ hop) ha hb h
theorem tight_binary_pred {a b : Ast} {op : LTok} (hop : isPredOp op.id = true) (ha : Tight a) (hb : Tight b)
    (h : b.lo = a.hi + 2) : Tight (binaryOperation a op b) := tight_binary (by simp [isBinId, hop]) ha hb h
theorem tight_binary_logic {a b : Ast} {op : LTok} (hop : isLogicOp op.id = true) (ha : Tight a) (hb : Tight b)
    (h : b.lo = a.hi + 2) : Tight (binaryOperation a op b) := tight_binary (by simp [isBinId, hop]) ha hb h
theorem tight_binary_blk {a b : Ast} {op : LTok} (hop : (op.id == .ITERATE || op.id == .ASSIGN) = true) (ha : Tight a)
    (hb : Tight b) (h : b.lo = a.hi + 2) : Tight (binaryOperation a op b) := by
  refine tight_binary ?_ ha hb h
  rw [Bool.or_eq_true] at hop
  rcases hop with h1 | h1 <;> rw [tok_beq_eq _ _ h1] <;> rfl

mutual
theorem tight_tupleDecl : ∀ (a b : Ast), Tight a → tupleDecl a = some b → Tight b ∧ b.lo = a.lo ∧ b.hi = a.hi
  | .node id d lo hi kids, b, ha, h => by
    rw [tupleDecl] at h
    split at h
    · rename_i hid
      have hid := tok_beq_eq _ _ hid
      subst hid
      split at h
      · rename_i ks hks
        cases h
        rw [tight_node, if_neg (by decide)] at ha
        obtain ⟨t1, t2⟩ := tl_tupleDeclList kids ks ha.2 hks
        refine ⟨tight_intro (by decide) ?_ t1, rfl, rfl⟩
        have hl : Sep (lo + 1) kids (hi - 1) := by simpa [Local, isBinId, isSetOp, isPredOp, isLogicOp, isBlkOp, isTextFn] using ha.1
        simpa [Local, isBinId, isSetOp, isPredOp, isLogicOp, isBlkOp, isTextFn] using sep_congr hl t2
      · cases h
    · split at h
      · rename_i hid
        have hid := tok_beq_eq _ _ hid
        subst hid
        split at h
        · rename_i ks hks
          cases h
          rw [tight_node, if_neg (by decide)] at ha
          obtain ⟨t1, t2⟩ := tl_tupleDeclList kids ks ha.2 hks
          refine ⟨tight_intro (by decide) ?_ t1, rfl, rfl⟩
          simpa [Local, isBinId, isSetOp, isPredOp, isLogicOp, isBlkOp, isTextFn] using ha.1
        · cases h
      · cases h
theorem tl_tupleDeclList : ∀ (l m : List Ast), TL l → tupleDeclList l = some m → TL m ∧ SameR l m
  | [], m, hl, h => by rw [tupleDeclList] at h; cases h; exact ⟨hl, trivial⟩
  | k :: ks, m, hl, h => by
    rw [tupleDeclList] at h
    split at h
    · rename_i k' ks' h1 h2
      cases h
      rw [tl_cons] at hl
      obtain ⟨n1, n2, n3⟩ := tight_tupleDecl k k' hl.1 h1
      obtain ⟨m1, m2⟩ := tl_tupleDeclList ks ks' hl.2 h2
      exact ⟨by rw [tl_cons]; exact ⟨n1, m1⟩, by rw [SameR]; exact ⟨n2, n3, m2⟩⟩
    · cases h
end

/-! ## the twelve parser functions -/

def ResT (o : Int) : Option (K × Ast × Toks) → Prop
  | some (_, e, r) => Tight e ∧ e.lo = o ∧ Idx (e.hi + 1) r
  | none => True
def ResV (o : Int) : Option (Ast × Toks) → Prop
  | some (e, r) => Tight e ∧ e.lo = o ∧ Idx (e.hi + 1) r
  | none => True
/-- result of a list loop: the members are tiled, laid out from `s` with one token between neighbours, the rest
of the tokens follows the last one -/
def ResL (s : Int) : Option (List Ast × Toks) → Prop
  | some (es, r) => TL es ∧ ∃ q, Sep s es q ∧ Idx (q + 1) r
  | none => True
/-- the accumulator of a loop that is entered after the separator: nothing yet, or a list ending two tokens back -/
def Pre (s : Int) (acc : List Ast) (o : Int) : Prop := (acc = [] ∧ o = s) ∨ ∃ q, Sep s acc q ∧ o = q + 2

theorem resT_some {o : Int} {k : K} {e : Ast} {r : Toks} :
    ResT o (some (k, e, r)) ↔ Tight e ∧ e.lo = o ∧ Idx (e.hi + 1) r := Iff.rfl
theorem resV_some {o : Int} {e : Ast} {r : Toks} :
    ResV o (some (e, r)) ↔ Tight e ∧ e.lo = o ∧ Idx (e.hi + 1) r := Iff.rfl
theorem resL_some {s : Int} {es : List Ast} {r : Toks} :
    ResL s (some (es, r)) ↔ TL es ∧ ∃ q, Sep s es q ∧ Idx (q + 1) r := Iff.rfl

theorem resT_intro {o : Int} {x : Option (K × Ast × Toks)}
    (h : ∀ k e r, x = some (k, e, r) → Tight e ∧ e.lo = o ∧ Idx (e.hi + 1) r) : ResT o x := by
  cases x with
  | none => trivial
  | some x => obtain ⟨k, e, r⟩ := x; exact h k e r rfl
theorem resV_intro {o : Int} {x : Option (Ast × Toks)}
    (h : ∀ e r, x = some (e, r) → Tight e ∧ e.lo = o ∧ Idx (e.hi + 1) r) : ResV o x := by
  cases x with
  | none => trivial
  | some x => obtain ⟨e, r⟩ := x; exact h e r rfl
theorem resL_intro {s : Int} {x : Option (List Ast × Toks)}
    (h : ∀ es r, x = some (es, r) → TL es ∧ ∃ q, Sep s es q ∧ Idx (q + 1) r) : ResL s x := by
  cases x with
  | none => trivial
  | some x => obtain ⟨es, r⟩ := x; exact h es r rfl

theorem pre_snoc {s o : Int} {acc : List Ast} {x : Ast} (h : Pre s acc o) (hx : x.lo = o) : Sep s (acc ++ [x]) x.hi := by
  rcases h with ⟨h1, h2⟩ | ⟨q, h1, h2⟩
  · subst h1; simp; omega
  · exact sep_snoc h1 (by omega)

theorem pre_next {s o : Int} {acc : List Ast} {x : Ast} (h : Pre s acc o) (hx : x.lo = o) :
    Pre s (acc ++ [x]) (x.hi + 2) := Or.inr ⟨x.hi, pre_snoc h hx, rfl⟩

/-- what is proved of each parser function at one value of the fuel -/
structure ParserTight (f : Nat) : Prop where
  enumE : ∀ toks o, Idx o toks → ResL o (enumE f toks)
  enumTail : ∀ acc toks s q, TL acc → Sep s acc q → Idx (q + 1) toks → ResL s (enumTail f acc toks)
  varE : ∀ toks o, Idx o toks → ResV o (varE f toks)
  varPackTail : ∀ acc toks s q, TL acc → Sep s acc q → Idx (q + 1) toks → ResL s (varPackTail f acc toks)
  argDecls : ∀ acc toks s o, TL acc → Pre s acc o → Idx o toks → ResL s (argDecls f acc toks)
  blocks : ∀ acc toks s o, TL acc → Pre s acc o → Idx o toks → ResL s (blocks f acc toks)
  primary : ∀ toks o, Idx o toks → ResT o (primary f toks)
  setE : ∀ m toks o, Idx o toks → ResT o (setE f m toks)
  setLoop : ∀ m k lhs toks, Tight lhs → Idx (lhs.hi + 1) toks → ResT lhs.lo (setLoop f m k lhs toks)
  predE : ∀ toks o, Idx o toks → ResT o (predE f toks)
  logE : ∀ m toks o, Idx o toks → ResT o (logE f m toks)
  logLoop : ∀ m k lhs toks, Tight lhs → Idx (lhs.hi + 1) toks → ResT lhs.lo (logLoop f m k lhs toks)

theorem parserTight_zero : ParserTight 0 := by
  constructor <;> intros <;> simp [enumE, enumTail, varE, varPackTail, argDecls, blocks, primary, setE, setLoop, predE, logE, logLoop, ResT, ResV, ResL]

theorem step_setE (f : Nat) (ih : ParserTight f) :
    ∀ m toks k e r o, Idx o toks → setE (f + 1) m toks = some (k, e, r) → Tight e ∧ e.lo = o ∧ Idx (e.hi + 1) r := by
  intro m toks k e r o ht h
  rw [setE.eq_def] at h; parser_cases h
  · rename_i k1 e1 r1 hp
    have h1 := ih.primary toks o ht
    rw [hp, resT_some] at h1
    have h2 := ih.setLoop m k1 e1 r1 h1.1 h1.2.2
    rw [h, resT_some] at h2
    exact ⟨h2.1, by omega, h2.2.2⟩
  · cases h

theorem step_logE (f : Nat) (ih : ParserTight f) :
    ∀ m toks k e r o, Idx o toks → logE (f + 1) m toks = some (k, e, r) → Tight e ∧ e.lo = o ∧ Idx (e.hi + 1) r := by
  intro m toks k e r o ht h
  rw [logE.eq_def] at h; parser_cases h
  · rename_i k1 e1 r1 hp
    have h1 := ih.predE toks o ht
    rw [hp, resT_some] at h1
    have h2 := ih.logLoop m k1 e1 r1 h1.1 h1.2.2
    rw [h, resT_some] at h2
    exact ⟨h2.1, by omega, h2.2.2⟩
  · cases h

grind_pattern resT_some => ResT o (some (k, e, r))
grind_pattern resV_some => ResV o (some (e, r))
grind_pattern resL_some => ResL s (some (es, r))
grind_pattern ParserTight.enumE => ParserTight f, Idx o toks, Parser.enumE f toks
grind_pattern ParserTight.enumTail => ParserTight f, Sep s acc q, Parser.enumTail f acc toks
grind_pattern ParserTight.varE => ParserTight f, Idx o toks, Parser.varE f toks
grind_pattern ParserTight.varPackTail => ParserTight f, Sep s acc q, Parser.varPackTail f acc toks
grind_pattern ParserTight.argDecls => ParserTight f, Pre s acc o, Parser.argDecls f acc toks
grind_pattern ParserTight.blocks => ParserTight f, Pre s acc o, Parser.blocks f acc toks
grind_pattern ParserTight.primary => ParserTight f, Idx o toks, Parser.primary f toks
grind_pattern ParserTight.setE => ParserTight f, Idx o toks, Parser.setE f m toks
grind_pattern ParserTight.setLoop => ParserTight f, Parser.setLoop f m k lhs toks
grind_pattern ParserTight.predE => ParserTight f, Idx o toks, Parser.predE f toks
grind_pattern ParserTight.logE => ParserTight f, Idx o toks, Parser.logE f m toks
grind_pattern ParserTight.logLoop => ParserTight f, Parser.logLoop f m k lhs toks

macro "tight_close" : tactic =>
  `(tactic| grind (gen := 20) (ematch := 20) [idx_cons, idx_nil, tight_binary_set, tight_decartian', decartian_lo, decartian_hi,
      tight_binary_pred, tight_binary_logic, tight_binary_blk, binary_lo, binary_hi,
      lo_node, hi_node, tl_cons, tl_nil, tl_snoc, sep_single, sep_snoc, pre_snoc, pre_next])

theorem step_setLoop (f : Nat) (ih : ParserTight f) :
    ∀ m k lhs toks k' e r, Tight lhs → Idx (lhs.hi + 1) toks → setLoop (f + 1) m k lhs toks = some (k', e, r) →
    Tight e ∧ e.lo = lhs.lo ∧ Idx (e.hi + 1) r := by
  intro m k lhs toks k' e r hl ht h
  rw [setLoop.eq_def] at h; parser_cases h
  all_goals try (cases h; done)
  all_goals tight_close

theorem step_logLoop (f : Nat) (ih : ParserTight f) :
    ∀ m k lhs toks k' e r, Tight lhs → Idx (lhs.hi + 1) toks → logLoop (f + 1) m k lhs toks = some (k', e, r) →
    Tight e ∧ e.lo = lhs.lo ∧ Idx (e.hi + 1) r := by
  intro m k lhs toks k' e r hl ht h
  rw [logLoop.eq_def] at h; parser_cases h
  all_goals try (cases h; done)
  all_goals tight_close

macro "tight_close_td" : tactic =>
  `(tactic| grind (gen := 20) (ematch := 20) [idx_cons, idx_nil, tight_tupleDecl,
      tight_binary_pred, tight_binary_blk, binary_lo, binary_hi, tight_leaf_local, leaf_lo, leaf_hi,
      lo_node, hi_node, tl_cons, tl_nil, tl_snoc, sep_single, sep_snoc, pre_snoc, pre_next])

theorem step_predE (f : Nat) (ih : ParserTight f) :
    ∀ toks k e r o, Idx o toks → predE (f + 1) toks = some (k, e, r) → Tight e ∧ e.lo = o ∧ Idx (e.hi + 1) r := by
  intro toks k e r o ht h
  rw [predE.eq_def] at h; parser_cases h
  all_goals try (cases h; done)
  all_goals tight_close_td

theorem step_varE (f : Nat) (ih : ParserTight f) :
    ∀ toks v r o, Idx o toks → varE (f + 1) toks = some (v, r) → Tight v ∧ v.lo = o ∧ Idx (v.hi + 1) r := by
  intro toks v r o ht h
  rw [varE.eq_def] at h; parser_cases h
  all_goals try (cases h; done)
  all_goals tight_close_td

theorem tight_argDecl {l : LTok} {e : Ast} (hl : (l.id == .ID_LOCAL) = true) (h0 : l.lo = l.hi) (he : Tight e)
    (h : e.lo = l.hi + 2) : Tight (.node .NT_ARG_DECL .none l.lo e.hi [leaf l, e]) := by
  refine tight_intro (by decide) ?_ (by simp [he, tight_leaf_local hl h0])
  simp [Local, isBinId, isSetOp, isPredOp, isLogicOp, isBlkOp, isTextFn, h]

theorem argDecl_facts {l : LTok} {e : Ast} {s o : Int} {acc : List Ast} (hl : (l.id == .ID_LOCAL) = true)
    (h0 : l.lo = l.hi) (he : Tight e) (h : e.lo = l.hi + 2) (hs : Pre s acc o) (hlo : l.lo = o) (ha : TL acc) :
    TL (acc ++ [.node .NT_ARG_DECL .none l.lo e.hi [leaf l, e]]) ∧
    Sep s (acc ++ [.node .NT_ARG_DECL .none l.lo e.hi [leaf l, e]]) e.hi ∧
    Pre s (acc ++ [.node .NT_ARG_DECL .none l.lo e.hi [leaf l, e]]) (e.hi + 2) := by
  have hd := tight_argDecl hl h0 he h
  have hp := pre_snoc (x := Ast.node .NT_ARG_DECL .none l.lo e.hi [leaf l, e]) hs hlo
  have hp2 := pre_next (x := Ast.node .NT_ARG_DECL .none l.lo e.hi [leaf l, e]) hs hlo
  exact ⟨tl_snoc ha hd, hp, hp2⟩

theorem step_enumE (f : Nat) (ih : ParserTight f) :
    ∀ toks es r o, Idx o toks → enumE (f + 1) toks = some (es, r) → TL es ∧ ∃ q, Sep o es q ∧ Idx (q + 1) r := by
  intro toks es r o ht h
  rw [enumE.eq_def] at h; parser_cases h
  all_goals try (cases h; done)
  have h1 := ih.setE 0 toks o ht
  rw [‹setE f 0 _ = _›, resT_some] at h1
  have h2 := ih.enumTail [_] _ o _ ((tl_cons _ _).2 ⟨h1.1, tl_nil⟩) ((sep_single _ _ _).2 ⟨h1.2.1, rfl⟩) h1.2.2
  rw [h, resL_some] at h2
  exact h2

theorem step_enumTail (f : Nat) (ih : ParserTight f) :
    ∀ acc toks es r s q, TL acc → Sep s acc q → Idx (q + 1) toks → enumTail (f + 1) acc toks = some (es, r) →
    TL es ∧ ∃ q, Sep s es q ∧ Idx (q + 1) r := by
  intro acc toks es r s q ha hs ht h
  rw [enumTail.eq_def] at h; parser_cases h
  all_goals try (cases h; done)
  · rw [idx_cons] at ht
    have h1 := ih.setE 0 _ _ ht.2.2
    rw [‹setE f 0 _ = _›, resT_some] at h1
    have h2 := ih.enumTail _ _ s _ (tl_snoc ha h1.1) (sep_snoc hs (by omega)) h1.2.2
    rw [h, resL_some] at h2
    exact h2
  · cases h; exact ⟨ha, q, hs, ht⟩
  · cases h; exact ⟨ha, q, hs, ht⟩

theorem step_varPackTail (f : Nat) (ih : ParserTight f) :
    ∀ acc toks es r s q, TL acc → Sep s acc q → Idx (q + 1) toks → varPackTail (f + 1) acc toks = some (es, r) →
    TL es ∧ ∃ q, Sep s es q ∧ Idx (q + 1) r := by
  intro acc toks es r s q ha hs ht h
  rw [varPackTail.eq_def] at h; parser_cases h
  all_goals try (cases h; done)
  · rw [idx_cons] at ht
    have h1 := ih.varE _ _ ht.2.2
    rw [‹varE f _ = _›, resV_some] at h1
    have h2 := ih.varPackTail _ _ s _ (tl_snoc ha h1.1) (sep_snoc hs (by omega)) h1.2.2
    rw [h, resL_some] at h2
    exact h2
  · cases h; exact ⟨ha, q, hs, ht⟩
  · cases h; exact ⟨ha, q, hs, ht⟩

theorem step_argDecls (f : Nat) (ih : ParserTight f) :
    ∀ acc toks es r s o, TL acc → Pre s acc o → Idx o toks → argDecls (f + 1) acc toks = some (es, r) →
    TL es ∧ ∃ q, Sep s es q ∧ Idx (q + 1) r := by
  intro acc toks es r s o ha hs ht h
  rw [argDecls.eq_def] at h; parser_cases h
  all_goals try (cases h; done)
  all_goals
    rw [idx_cons, idx_cons] at ht
    have hli := ‹(_ && _) = true›
    rw [Bool.and_eq_true] at hli
    have h1 := ih.setE 0 _ _ ht.2.2.2.2
    rw [‹setE f 0 _ = _›, resT_some] at h1
    obtain ⟨hd, hp, hp2⟩ := argDecl_facts hli.1 (by omega) h1.1 (by omega) hs ht.1 ha
  · have h2 := ih.argDecls _ _ s _ hd hp2 (by
      have := h1.2.2; rw [idx_cons] at this; exact idx_cast (by omega) this.2.2)
    rw [h, resL_some] at h2
    exact h2
  · cases h; exact ⟨hd, _, hp, h1.2.2⟩
  · cases h; exact ⟨hd, _, hp, h1.2.2⟩

theorem step_blocks (f : Nat) (ih : ParserTight f) :
    ∀ acc toks es r s o, TL acc → Pre s acc o → Idx o toks → blocks (f + 1) acc toks = some (es, r) →
    TL es ∧ ∃ q, Sep s es q ∧ Idx (q + 1) r := by
  intro acc toks es r s o ha hs ht h
  rw [blocks.eq_def] at h; parser_cases h
  all_goals try (cases h; done)
  all_goals
    have h1 := ih.logE 0 _ _ ht
    rw [‹logE f 0 _ = _›, resT_some] at h1
    have hp := pre_snoc hs h1.2.1
    have hp2 := pre_next hs h1.2.1
  · have h2 := ih.blocks _ _ s _ (tl_snoc ha h1.1) hp2 (by
      have := h1.2.2; rw [idx_cons] at this; exact idx_cast (by omega) this.2.2)
    rw [h, resL_some] at h2
    exact h2
  · cases h; exact ⟨tl_snoc ha h1.1, _, hp, h1.2.2⟩
  · cases h; exact ⟨tl_snoc ha h1.1, _, hp, h1.2.2⟩

end CCVerif.RangeExact
