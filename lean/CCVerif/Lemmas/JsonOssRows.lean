import CCVerif.Lemmas.JsonOssOrder
import CCVerif.Lemmas.JsonOssGraph
/-!
`RowsOk` (hypothesis of `oss_roundtrip_ordered` / `oss_stable_ordered`: an item WITH connections is never
mentioned as a parent in an earlier row) at the level of the graph facet of the C19 machine, and its
preservation by the three operations that change the facet:

* `ItemsOk g` — the same condition stated on `Graph.items` / `Graph.parentsOf` (`rowsOk_rowsOf`);
* `AddItem` with two operands and a new item (`InsertOperation`) keeps it (`itemsOk_addItem`);
* `Erase` of a leaf keeps it (`itemsOk_erase`);
* a reload of the connections AS WRITTEN keeps it: `rowsOk_reload` (rows level), and the rows of the
  projected facet are the rows (`rowsOf_toGraph`).
-/
namespace CCVerif.JsonOss
open CCVerif.Oss (Pid Graph)

/-! ## the rows the writer reads are the items with their `ParentsOf` -/

theorem rowsOf_eq_map {g : Graph} (w : g.Wf) : rowsOf g = g.items.map fun x => (x, g.parentsOf x) := by
  apply List.ext_getElem
  · simp [rowsOf, w.len]
  · intro i h1 h2
    have hi : i < g.items.length := by simpa using h2
    have ha : i < g.adj.length := by rw [w.len]; exact hi
    simp only [rowsOf, List.getElem_zip, List.getElem_map]
    congr 1
    unfold Graph.parentsOf
    rw [Graph.findItemIndex_of_getElem? w.nodup (List.getElem?_eq_getElem hi)]
    simp [Graph.row, List.getD_eq_getElem?_getD, List.getElem?_eq_getElem ha]

/-- `RowsOk` on the graph facet: an item with parents never follows one of its children -/
def ItemsOk (g : Graph) : Prop := g.items.Pairwise fun x y => g.parentsOf y ≠ [] → y ∉ g.parentsOf x

theorem rowsOk_rowsOf {g : Graph} (w : g.Wf) :
    RowsOk (rowsOf g) ↔ (∀ x ∈ g.items, x ∉ g.parentsOf x ∧ (g.parentsOf x).Nodup) ∧ ItemsOk g := by
  unfold RowsOk ItemsOk
  rw [keysOf_rowsOf w, rowsOf_eq_map w, List.pairwise_map]
  constructor
  · rintro ⟨_, h2, h3⟩
    exact ⟨fun x hx => h2 (x, g.parentsOf x) (List.mem_map.2 ⟨x, hx, rfl⟩), h3⟩
  · rintro ⟨h2, h3⟩
    refine ⟨w.nodup, ?_, h3⟩
    intro r hr
    obtain ⟨x, hx, rfl⟩ := List.mem_map.1 hr
    exact h2 x hx

theorem parentsOf_mem_items' {g : Graph} (w : g.Wf) {c p : Pid} (h : p ∈ g.parentsOf c) : p ∈ g.items := by
  obtain ⟨i, k, _, hk, _⟩ := (Graph.mem_parentsOf w).1 h
  exact List.mem_of_getElem? hk

theorem parentsOf_not_item {g : Graph} {c : Pid} (h : c ∉ g.items) : g.parentsOf c = [] := by
  unfold Graph.parentsOf
  rw [Graph.findItemIndex_eq_none.2 h]

/-! ## `AddItem` -/

theorem item2ID_items (g : Graph) (p : Pid) :
    (g.item2ID p).1.items = if p ∈ g.items then g.items else g.items ++ [p] := by
  unfold Graph.item2ID
  cases hf : g.findItemIndex p with
  | some i =>
    have : p ∈ g.items := Graph.findItemIndex_isSome.1 ⟨i, hf⟩
    simp [this]
  | none =>
    have := Graph.findItemIndex_eq_none.1 hf
    simp [this]

/-- the items after `AddItem(item, {a, b})` for a new `item`: the old ones, then the operands that were not
items yet, then `item` -/
theorem addItem_items (g : Graph) {item a b : Pid} (hi : item ∉ g.items) (hia : item ≠ a) (hib : item ≠ b) :
    ∃ ex, (g.addItem item [a, b]).items = g.items ++ ex ++ [item] ∧ ∀ y ∈ ex, y ∉ g.items ∧ y ≠ item := by
  have hunf : (g.addItem item [a, b]).items = (((g.item2ID a).1.item2ID b).1.item2ID item).1.items := by
    simp [Graph.addItem, Graph.items2ID]
  rw [hunf, item2ID_items, item2ID_items, item2ID_items]
  by_cases ha : a ∈ g.items
  · by_cases hb : b ∈ g.items
    · refine ⟨[], ?_, by simp⟩
      simp [ha, hb, hi]
    · refine ⟨[b], ?_, by simpa using ⟨hb, Ne.symm hib⟩⟩
      simp [ha, hb, hi, hib]
  · by_cases hb : b ∈ g.items
    · refine ⟨[a], ?_, by simpa using ⟨ha, Ne.symm hia⟩⟩
      simp [ha, hb, hi, hia]
    · by_cases hab : b = a
      · subst hab
        refine ⟨[b], ?_, by simpa using ⟨hb, Ne.symm hib⟩⟩
        simp [hb, hi, hib]
      · refine ⟨[a, b], ?_, ?_⟩
        · simp [ha, hb, hi, hia, hib, hab]
        · intro y hy
          simp only [List.mem_cons, List.not_mem_nil, or_false] at hy
          rcases hy with rfl | rfl
          · exact ⟨ha, Ne.symm hia⟩
          · exact ⟨hb, Ne.symm hib⟩

theorem itemsOk_addItem {g : Graph} (w : g.Wf) (h : ItemsOk g) {item a b : Pid}
    (hi : item ∉ g.items) (hia : item ≠ a) (hib : item ≠ b) : ItemsOk (g.addItem item [a, b]) := by
  obtain ⟨_, _, hother, _⟩ := Graph.addItem_spec g w item a b
  obtain ⟨ex, hitems, hex⟩ := addItem_items g hi hia hib
  unfold ItemsOk
  rw [hitems]
  have hold : ∀ x ∈ g.items, (g.addItem item [a, b]).parentsOf x = g.parentsOf x :=
    fun x hx => hother x (fun e => hi (e ▸ hx))
  have hexp : ∀ y ∈ ex, (g.addItem item [a, b]).parentsOf y = [] := by
    intro y hy
    rw [hother y (hex y hy).2]
    exact parentsOf_not_item (hex y hy).1
  have hlast : ∀ x ∈ g.items ++ ex, item ∉ (g.addItem item [a, b]).parentsOf x := by
    intro x hx hm
    rcases List.mem_append.1 hx with hx | hx
    · rw [hold x hx] at hm
      exact hi (parentsOf_mem_items' w hm)
    · rw [hexp x hx] at hm; cases hm
  rw [List.pairwise_append]
  refine ⟨?_, List.pairwise_singleton _ _, ?_⟩
  · rw [List.pairwise_append]
    refine ⟨?_, ?_, ?_⟩
    · refine h.imp_of_mem ?_
      intro x y hx hy hR
      rw [hold x hx, hold y hy]; exact hR
    · exact List.pairwise_of_forall_mem_list (fun _ _ y hy hne => absurd (hexp y hy) hne)
    · intro x _ y hy hne
      exact absurd (hexp y hy) hne
  · intro x hx y hy _
    simp only [List.mem_cons, List.not_mem_nil, or_false] at hy
    subst hy
    exact hlast x hx

/-! ## `Erase` -/

theorem erase_items_sublist (g : Graph) (p : Pid) : (g.erase p).items.Sublist g.items := by
  unfold Graph.erase
  cases g.findItemIndex p with
  | none => exact List.Sublist.refl _
  | some k => exact List.eraseIdx_sublist _ _

theorem itemsOk_erase {g : Graph} (h : ItemsOk g) {p : Pid}
    (hother : ∀ q, q ≠ p → (g.erase p).parentsOf q = g.parentsOf q)
    (hitems : ∀ q, q ∈ (g.erase p).items → q ≠ p) : ItemsOk (g.erase p) := by
  unfold ItemsOk
  refine (h.sublist (erase_items_sublist g p)).imp_of_mem ?_
  intro x y hx hy hR
  rw [hother x (hitems x hx), hother y (hitems y hy)]
  exact hR

/-! ## the rows of the projected facet -/

theorem index2PIDs_map_idxOf (l : List Pid) (G : Graph) (hG : G.items = l) : ∀ (row : List Pid), (∀ q ∈ row, q ∈ l) →
    G.index2PIDs (row.map fun q => l.idxOf q) = row
  | [], _ => rfl
  | q :: row, h => by
    have hq : q ∈ l := h q List.mem_cons_self
    have hlt : l.idxOf q < l.length := List.idxOf_lt_length_iff.2 hq
    have : G.items[l.idxOf q]? = some q := by
      rw [hG, List.getElem?_eq_getElem hlt, List.getElem_idxOf hlt]
    have ih := index2PIDs_map_idxOf l G hG row (fun x hx => h x (List.mem_cons_of_mem _ hx))
    unfold Graph.index2PIDs at ih ⊢
    simp only [List.map_cons, List.filterMap_cons, this, ih]

theorem rowsOf_toGraph {R : Rows} (h : RInv R) : rowsOf (toGraph R) = R := by
  have hrow : ∀ r ∈ R, (toGraph R).index2PIDs (r.2.map fun p => (keysOf R).idxOf p) = r.2 := by
    intro r hr
    exact index2PIDs_map_idxOf (keysOf R) (toGraph R) rfl r.2 (fun q hq => h.2 r hr q hq)
  show (keysOf R).zip ((R.map fun r => r.2.map fun p => (keysOf R).idxOf p).map (toGraph R).index2PIDs) = R
  rw [List.map_map]
  have : R.map ((toGraph R).index2PIDs ∘ fun r => r.2.map fun p => (keysOf R).idxOf p) = R.map Prod.snd :=
    List.map_congr_left (fun r hr => hrow r hr)
  rw [this]
  exact (List.zip_of_prod rfl rfl).symm

/-! ## a reload of the connections as written -/

/-- a whole row `(c, ps)`, `ps ≠ []`, for a new item `c`: the row table gets the row and then the parents that
were not items yet, with empty rows -/
theorem loadRow_new_eq (g : Rows) (c : Pid) (ps : List Pid) (hk : (keysOf g).Nodup) (hcl : Closed g)
    (hcg : c ∉ keysOf g) (hne : ps ≠ []) (hcp : c ∉ ps) (hnd : ps.Nodup) :
    ∃ b', loadEdges g (ps.map fun p => (c, p)) = g ++ (c, ps) :: b' ∧ ∀ r ∈ b', r.2 = [] := by
  cases ps with
  | nil => exact absurd rfl hne
  | cons p ps =>
    have hfirst : loadEdges g ((p :: ps).map fun p => (c, p)) = loadEdges (item2ID g c) ((p :: ps).map fun p => (c, p)) := by
      show loadEdges (loadParent g c p) _ = loadEdges (loadParent (item2ID g c) c p) _
      congr 1
      have hin : c ∈ keysOf (item2ID g c) := by rw [item2ID_of_not_key hcg]; simp [keysOf]
      have hb : (c == p) = false := by
        have : c ≠ p := fun e => hcp (e ▸ List.mem_cons_self)
        simpa using this
      unfold loadParent
      simp only [hb, Bool.false_eq_true, if_false]
      rw [item2ID_of_key (g := item2ID g c) hin]
    have s0 : Shape (item2ID g c) c [] g [] := ⟨by rw [item2ID_of_not_key hcg], hcg, by simp⟩
    have hk0 : (keysOf (item2ID g c)).Nodup := by
      rw [item2ID_of_not_key hcg]
      simp only [keysOf, List.map_append, List.map_cons, List.map_nil]
      rw [List.nodup_append]
      refine ⟨hk, by simp, ?_⟩
      intro x hx y hy; simp at hy; subst hy; rintro rfl; exact hcg hx
    have ha : ∀ r ∈ g, c ∉ r.2 := fun r hr hm => hcg (hcl r hr c hm)
    obtain ⟨b', s, _, _⟩ := loadRow_shape c g ha (p :: ps) _ [] [] hk0 s0 hcp (by simpa using hnd)
    rw [hfirst]
    exact ⟨b', by simpa using s.eq, s.bE⟩

theorem rowsOk_loadRow (g : Rows) (c : Pid) (ps : List Pid) (h : RowsOk g) (hcl : Closed g)
    (hc : ps ≠ [] → c ∉ keysOf g) (hcp : c ∉ ps) (hnd : ps.Nodup) :
    RowsOk (loadEdges g (ps.map fun p => (c, p))) := by
  by_cases hne : ps = []
  · subst hne; exact h
  · have hcg := hc hne
    obtain ⟨b', he, hb⟩ := loadRow_new_eq g c ps h.1 hcl hcg hne hcp hnd
    have hkk := (loadRow_new g c ps h.1 hcl hc hcp hnd).1
    refine ⟨hkk, ?_, ?_⟩
    · intro r hr
      rw [he] at hr
      rcases List.mem_append.1 hr with hr | hr
      · exact h.2.1 r hr
      · rcases List.mem_cons.1 hr with rfl | hr
        · exact ⟨hcp, hnd⟩
        · rw [hb r hr]; exact ⟨by simp, List.nodup_nil⟩
    · rw [he, List.pairwise_append]
      refine ⟨h.2.2, ?_, ?_⟩
      · rw [List.pairwise_cons]
        refine ⟨fun s hs hne => absurd (hb s hs) hne, ?_⟩
        exact List.pairwise_of_forall_mem_list (fun _ _ y hy hne => absurd (hb y hy) hne)
      · intro r hr s hs hsne
        rcases List.mem_cons.1 hs with rfl | hs
        · exact fun hm => hcg (hcl r hr _ hm)
        · exact absurd (hb s hs) hsne

/-- `loadEdges_rowsOk` with `RowsOk` of the RESULT: the loaded rows satisfy the condition again -/
theorem loadEdges_rowsOk_ok : ∀ (g g0 : Rows), RowsOk g0 → Closed g0 → RowsOk g →
    (∀ r ∈ g, r.2 ≠ [] → r.1 ∉ keysOf g0) → RowsOk (loadEdges g0 (edgeList g))
  | [], g0, h0, _, _, _ => by simpa [edgeList, loadEdges] using h0
  | r :: g, g0, h0, hcl, hc, hnew => by
    have hc' : RowsOk g := hc.tail
    obtain ⟨hkk, hrow, hpw⟩ := hc
    rw [List.pairwise_cons] at hpw
    have hrg : r.1 ∉ keysOf g := by
      simp only [keysOf, List.map_cons, List.nodup_cons] at hkk
      exact hkk.1
    have hr := hrow r (by simp)
    obtain ⟨_, hcl1, _, hkeys1⟩ := loadRow_new g0 r.1 r.2 h0.1 hcl (hnew r (by simp)) hr.1 hr.2
    have h1 := rowsOk_loadRow g0 r.1 r.2 h0 hcl (hnew r (by simp)) hr.1 hr.2
    have hnew' : ∀ s ∈ g, s.2 ≠ [] → s.1 ∉ keysOf (loadEdges g0 (r.2.map fun p => (r.1, p))) := by
      intro s hs hne hm
      rcases (hkeys1 s.1).1 hm with h | ⟨_, h | h⟩
      · exact hnew s (by simp [hs]) hne h
      · exact hrg (h ▸ List.mem_map.2 ⟨s, hs, rfl⟩)
      · exact hpw.1 s hs hne h
    rw [edgeList_cons, loadEdges_append]
    exact loadEdges_rowsOk_ok g _ h1 hcl1 hc' hnew'

/-- **the rows loaded from the connections as written satisfy `RowsOk` again** -/
theorem rowsOk_reload (g : Rows) (h : RowsOk g) : RowsOk (loadEdges [] (edgeList g)) :=
  loadEdges_rowsOk_ok g [] ⟨by simp [keysOf], (by intro r hr; cases hr), List.Pairwise.nil⟩
    (by intro r hr; cases hr) h (by intro r _ _; simp [keysOf])

/-! ## the writer model's `connections` array is `EdgeList` of the C19 model -/

theorem flatMap_eq_range {α β} (f : α → List β) : ∀ l : List α,
    l.flatMap f = (List.range l.length).flatMap (fun i => (l[i]?.map f).getD [])
  | [] => rfl
  | x :: l => by
    rw [List.length_cons, List.range_succ_eq_map, List.flatMap_cons, List.flatMap_cons, List.flatMap_map, flatMap_eq_range f l]
    simp

theorem flatMap_congr_mem {α β} {f g : α → List β} : ∀ {l : List α}, (∀ a ∈ l, f a = g a) → l.flatMap f = l.flatMap g
  | [], _ => rfl
  | a :: l, h => by
    rw [List.flatMap_cons, List.flatMap_cons, h a List.mem_cons_self,
      flatMap_congr_mem (fun b hb => h b (List.mem_cons_of_mem _ hb))]

/-- `edgeList` of the rows the writer reads = `ossGraphFacet::EdgeList` as the C19 machine models it -/
theorem edgeList_rowsOf {g : Graph} (w : g.Wf) : edgeList (rowsOf g) = g.edgeList := by
  rw [rowsOf_eq_map w, Graph.edgeList_eq, w.len]
  unfold edgeList
  rw [List.flatMap_map, flatMap_eq_range]
  apply flatMap_congr_mem
  intro i hi
  have hi' := List.mem_range.1 hi
  simp only [List.getElem?_eq_getElem hi', Option.map_some, Option.getD_some]
  unfold Graph.parentsOf
  rw [Graph.findItemIndex_of_getElem? w.nodup (List.getElem?_eq_getElem hi')]
  simp only [Graph.rowEdges, Graph.index2PIDs, List.map_filterMap, List.getElem?_eq_getElem hi']
  apply CCVerif.Oss.filterMap_congr'
  intro j _
  cases g.items[j]? <;> rfl

end CCVerif.JsonOss
