import CCVerif.Lemmas.EvalFuelTop
import CCVerif.Lemmas.EvalFuelLoops
/-!
Fuel of the evaluator model, part 7: `Interpreter::Evaluate` on trees with `R{}` / `I{}` / filters (`matFree`: the only
constructs excluded are the two with a materialisation limit of the model, `ℬ` and `×`).
-/
namespace CCVerif.Eval
open CCVerif.Syntax CCVerif.Norm

/-- the two passes after the normaliser on a `matFree` tree: never `outOfFuel` from the depth of the tree on -/
theorem evalNorm_fuel_sufficient2 (env : Env) (n : Ast) (he : matFree n = true) (f : Nat) (hf : evDepth n ≤ f) :
    (evalNorm f env n).1 ≠ .outOfFuel := by
  unfold evalNorm
  have hc := collect_fuel_sufficient env f n {} hf
  cases hcr : collect env f n {} with
  | fail fl =>
    rw [hcr] at hc
    cases fl with
    | outOfFuel => exact absurd rfl hc
    | err e p => intro h; cases h
    | quiet => intro h; cases h
    | stuck s => intro h; cases h
  | ok vs al nc =>
    dsimp only
    have hev := (ev_fuel_sufficient2 { ids := nc.ids } f n none { data := nc.data, iters := 0 } he hf).1
    cases hr : ev { ids := nc.ids } f n none { data := nc.data, iters := 0 } with
    | ok v st => cases v <;> (intro h; cases h)
    | fail fl k =>
      rw [hr] at hev
      cases fl with
      | outOfFuel => exact absurd rfl (hev k)
      | err e p => intro h; cases h
      | quiet => intro h; cases h
      | stuck s => intro h; cases h

/-- **evaluate_fuel_sufficient2**: if the normalised tree has no `ℬ` and no `×` (it may have `R{}`, `I{}`, filters), the
outcome from `fuelBound f0 n` on is not `outOfFuel` -/
theorem evaluate_fuel_sufficient2' {env : Env} {e n : Ast} {f0 : Nat} (hn : normalizeTree env.funcs f0 e = some n)
    (he : matFree n = true) (f : Nat) (hf : fuelBound f0 n ≤ f) : (evaluate f env e).1 ≠ .outOfFuel := by
  unfold fuelBound at hf
  unfold evaluate
  rw [normalizeTree_le hn (by omega)]
  exact evalNorm_fuel_sufficient2 env n he f (by omega)

end CCVerif.Eval
