import CCVerif.Lemmas.VClassSound
/-!
C03, value-class audit: whole inputs (`WfTop`: expression, function definition, `X:==`, `X:==e`,
`X:==[args] e`, `S::=dom`) — soundness with the log discipline, and completeness, of `vcheck`
for `Spec.HasVClassTop`.
-/
namespace CCVerif.Checker
open CCVerif.Syntax CCVerif.Types CCVerif.Spec

theorem vbind_pure_right (m : VM Unit) : VM.bind m (fun _ => VM.pure ()) = m := by
  funext s
  simp only [VM.bind]
  generalize m s = r
  obtain ⟨r, s1⟩ := r
  cases r <;> rfl

theorem vt_visitAllP {report : Bool} {lo hi : Int} {v : VVisitor} {Q : Ast → Prop} : ∀ (ks : List Ast),
    (∀ k ∈ ks, VT report lo hi (fun (_ : Unit) _ => Q k) (v k)) →
    VT report lo hi (fun (_ : Unit) _ => ∀ k ∈ ks, Q k) (vVisitAll v ks)
  | [], _ => vt_pure () (fun _ _ hk => by simp at hk)
  | k :: ks, h => by
    simp only [vVisitAll]
    refine vt_bind (h k (by simp)) (fun _ _ hk => ?_)
    refine vt_post (vt_visitAllP ks (fun k' hk' => h k' (by simp [hk']))) (fun _ _ hks k' hk' => ?_)
    rcases List.mem_cons.mp hk' with rfl | h'
    · exact hk
    · exact hks k' h'

/-! ## soundness -/

section sound
variable {Γ : Ctx} (hΓ : AstsWf Γ)
include hΓ

/-- one argument declaration `x ∈ dom` -/
theorem argdecl_sound (n : Nat) {x : String} {d : Ast} (hw : WfArg Γ x d) (hr : WfRange d) :
    VT true d.lo d.hi (fun (_ : Unit) _ => ArgDomains Γ [d]) (vVisit Γ n true [] d) := by
  cases n with
  | zero => exact vt_stuck _
  | succ n =>
    match hw with
    | @WfArg.mk _ x dd lo hi ll hl kl dom wd =>
      have ih := vsound_all hΓ n
      have hrr : true = true → WfRange (Ast.node .NT_ARG_DECL dd lo hi [.node .ID_LOCAL (.text x) ll hl kl, dom]) :=
        fun _ => hr
      have hK : ∀ k ∈ (Ast.node .NT_ARG_DECL dd lo hi [.node .ID_LOCAL (.text x) ll hl kl, dom]).kids,
          KidSpec Γ true [] (vVisit Γ n true []) lo hi k := by
        intro k hk
        have hk' := hk
        simp only [Ast.kids, List.mem_cons, List.not_mem_nil, or_false] at hk'
        rcases hk' with rfl | rfl
        · exact kidSpec_of ih hrr (.sLocal) (by decide) hk
        · exact kidSpec_of ih hrr wd (by decide) hk
      simp only [vVisit, vDispatch, Ast.id]
      refine vt_post (vt_visitAll _ hK) (fun _ _ h => ?_)
      obtain ⟨cs, hcs, _⟩ := h
      cases hcs with | cons h1 r => cases r with | cons h2 _ => exact .cons h2 .nil

omit hΓ in
theorem argDomains_of_all : ∀ {ds : List Ast}, (∀ d ∈ ds, ArgDomains Γ [d]) → ArgDomains Γ ds
  | [], _ => .nil
  | d :: ds, h => by
    have h1 := h d (by simp)
    cases h1 with
    | cons hd _ => exact .cons hd (argDomains_of_all (fun d' hd' => h d' (by simp [hd'])))

omit hΓ in
theorem wfArgs_mem {xs : List String} {ds : List Ast} (hw : WfArgs Γ xs ds) : ∀ d ∈ ds, ∃ x, WfArg Γ x d := by
  induction hw with
  | nil => intro d hd; simp at hd
  | cons h _ ih =>
    intro d hd
    rcases List.mem_cons.mp hd with rfl | h'
    · exact ⟨_, h⟩
    · exact ih d h'

/-- an expression or a function definition -/
theorem def_sound (n : Nat) {xs : List String} {e : Ast} (hw : WfDef Γ xs e) (hr : WfRange e) :
    VT true e.lo e.hi (fun (_ : Unit) c => HasVClassDef Γ e c) (vVisit Γ n true [] e) := by
  cases hw with
  | expr h =>
    rcases h with h | h
    · exact vt_post (vsound_all hΓ n true [] _ e h (by decide) (fun _ => hr)) (fun _ c hc => .expr hc)
    · exact vt_post (vsound_all hΓ n true [] _ e h (by decide) (fun _ => hr)) (fun _ c hc => .expr hc)
  | @funcdef xs d da lo hi la ha decls body wargs wbody =>
    cases n with
    | zero => exact vt_stuck _
    | succ n =>
      have hra := hr.kid (k := .node .NT_ARGUMENTS da la ha decls) (by simp [Ast.kids])
      have hrb := hr.kid (k := body) (by simp [Ast.kids])
      obtain ⟨hra0, hra1, hra2⟩ := hra
      change lo ≤ la at hra1
      change ha ≤ hi at hra2
      change WfRange body ∧ lo ≤ body.lo ∧ body.hi ≤ hi at hrb
      have hargs : VT true lo hi (fun (_ : Unit) _ => ArgDomains Γ decls)
          (vVisit Γ n true [] (.node .NT_ARGUMENTS da la ha decls)) := by
        cases n with
        | zero => exact vt_stuck _
        | succ n =>
          simp only [vVisit, vDispatch, Ast.id, Ast.kids]
          refine vt_post (vt_visitAllP (Q := fun d => ArgDomains Γ [d]) decls (fun d hd => ?_))
            (fun _ _ h => argDomains_of_all h)
          obtain ⟨x, wx⟩ := wfArgs_mem wargs d hd
          obtain ⟨hrd0, hrd1, hrd2⟩ := hra0.kid (k := d) (by simpa [Ast.kids] using hd)
          change la ≤ d.lo at hrd1
          change d.hi ≤ ha at hrd2
          exact vt_mono (argdecl_sound hΓ n wx hrd0) (fun _ => ⟨by omega, by omega⟩) (fun _ _ h => h)
      have hbody : VT true lo hi (fun (_ : Unit) c => HasVClass Γ [] body c) (vVisit Γ n true [] body) := by
        rcases wbody with h | h
        · exact vt_mono (vsound_all hΓ n true [] _ body h (by decide) (fun _ => hrb.1)) (fun _ => hrb.2) (fun _ _ h => h)
        · exact vt_mono (vsound_all hΓ n true [] _ body h (by decide) (fun _ => hrb.1)) (fun _ => hrb.2) (fun _ _ h => h)
      simp only [vVisit, vDispatch, Ast.id, Ast.kids, vVisitAll, vbind_pure_right]
      exact vt_bind hargs (fun _ _ ha => vt_post hbody (fun _ c hb => .funcdef ha hb))

/-- the whole input -/
theorem top_sound (n : Nat) {xs : List String} {e : Ast} (hw : WfTop Γ xs e) (hr : WfRange e) :
    VT true e.lo e.hi (fun (_ : Unit) c => HasVClassTop Γ e c) (vVisit Γ n true [] e) := by
  cases hw with
  | ofDef h => exact vt_post (def_sound hΓ n h hr) (fun _ c hc => .ofDef hc)
  | define1 =>
    cases n with
    | zero => exact vt_stuck _
    | succ n =>
      simp only [vVisit, vDispatch, Ast.id]
      exact vt_set _ .define1
  | @define2 xs d lo hi nm ex h =>
    cases n with
    | zero => exact vt_stuck _
    | succ n =>
      have hre := hr.kid (k := ex) (by simp [Ast.kids])
      simp only [vVisit, vDispatch, Ast.id]
      have hk : (Ast.node .PUNC_DEFINE d lo hi [nm, ex]).kid 1 = some ex := rfl
      have hlen : ((Ast.node .PUNC_DEFINE d lo hi [nm, ex]).kids.length == 1) = false := rfl
      simp only [vVisitChild, vKid, hk, vbind_pure, hlen]
      exact vt_mono (def_sound hΓ n h hre.1) (fun _ => hre.2) (fun _ c hc => .define2 hc)
  | @struct d lo hi nm ex h =>
    cases n with
    | zero => exact vt_stuck _
    | succ n =>
      have hre := hr.kid (k := ex) (by simp [Ast.kids])
      simp only [vVisit, vDispatch, Ast.id]
      have hk : (Ast.node .PUNC_STRUCT d lo hi [nm, ex]).kid 1 = some ex := rfl
      simp only [vVisitChild, vKid, hk, vbind_pure]
      refine vt_bind (vt_mono (vsound_all hΓ n true [] _ ex h (by decide) (fun _ => hre.1)) (fun _ => hre.2)
        (fun _ _ h => h)) (fun _ c hc => vt_set _ (.struct hc))

end sound

/-! ## completeness -/

theorem argDomains_conv {Γ : Ctx} : ∀ {ds : List Ast}, ArgDomains Γ ds →
    ∃ cs N, ∀ n, N ≤ n → ∀ report, OkRuns (vVisit Γ n report []) ds cs
  | _, .nil => ⟨[], 0, fun _ _ _ => trivial⟩
  | _, .cons (c := c) hd hds => by
    obtain ⟨cs, N, h⟩ := argDomains_conv hds
    obtain ⟨N1, h1⟩ := conv_of_has hd
    refine ⟨c :: cs, N + N1 + 2, fun n hn report => ⟨?_, h n (by omega) report⟩⟩
    obtain ⟨m, rfl⟩ : ∃ m, n = m + 1 := ⟨n - 1, by omega⟩
    have h1 := h1 m (by omega) report
    have hloc : ∀ (x : String) (ll hl : Int) (kl : List Ast),
        vVisit Γ m report [] (.node .ID_LOCAL (.text x) ll hl kl) = vSet .value := by
      intro x ll hl kl
      obtain ⟨m', rfl⟩ : ∃ m', m = m' + 1 := ⟨m - 1, by omega⟩
      funext s
      simp [vVisit, vDispatch, VM.bind, VM.pure, vSet, Ast.id, Ast.data, vText]
    funext s
    simp [vVisit, vDispatch, vVisitAll, VM.bind, VM.pure, vSet, h1, hloc, Ast.id, Ast.kids]

theorem conv_def {Γ : Ctx} {e : Ast} {c : VClass} (h : HasVClassDef Γ e c) : Conv Γ [] e c := by
  cases h with
  | expr h => exact conv_of_has h
  | funcdef ha hb =>
    obtain ⟨cs, N, ha⟩ := argDomains_conv ha
    obtain ⟨Nb, hb⟩ := conv_of_has hb
    refine ⟨N + Nb + 2, fun n hn report => ?_⟩
    obtain ⟨m, rfl⟩ : ∃ m, n = m + 1 := ⟨n - 1, by omega⟩
    have hb := hb m (by omega) report
    have hargs : ∀ (da : TokData) (la ha' : Int) (decls' : List Ast),
        (∀ n, N ≤ n → ∀ report, OkRuns (vVisit Γ n report []) decls' cs) →
        vVisit Γ m report [] (.node .NT_ARGUMENTS da la ha' decls') =
          fun s => (.ok (), { s with cur := cs.getLast?.getD s.cur }) := by
      intro da la ha' decls' hr
      obtain ⟨m', rfl⟩ : ∃ m', m = m' + 1 := ⟨m - 1, by omega⟩
      have := vVisitAll_ok (hr m' (by omega) report)
      funext s
      simp [vVisit, vDispatch, Ast.id, Ast.kids, this]
    have hargs := fun da la ha' => hargs da la ha' _ ha
    funext s
    simp [vVisit, vDispatch, vVisitAll, VM.bind, VM.pure, vSet, Ast.id, Ast.kids, hb, hargs]

theorem conv_top {Γ : Ctx} {e : Ast} {c : VClass} (h : HasVClassTop Γ e c) : Conv Γ [] e c := by
  cases h with
  | ofDef h => exact conv_def h
  | define1 =>
    refine ⟨1, fun n hn report => ?_⟩
    obtain ⟨m, rfl⟩ : ∃ m, n = m + 1 := ⟨n - 1, by omega⟩
    have hne : (Tok.PUNC_DEFINE == Tok.PUNC_STRUCT) = false := by decide
    funext s
    simp [vVisit, vDispatch, Ast.id, Ast.kids, vSet, hne]
  | define2 h =>
    obtain ⟨N, h⟩ := conv_def h
    refine ⟨N + 1, fun n hn report => ?_⟩
    obtain ⟨m, rfl⟩ : ∃ m, n = m + 1 := ⟨n - 1, by omega⟩
    have h := h m (by omega) report
    have hne : (Tok.PUNC_DEFINE == Tok.PUNC_STRUCT) = false := by decide
    funext s
    simp [vVisit, vDispatch, vVisitChild, vKid, VM.bind, VM.pure, Ast.id, Ast.kids, Ast.kid, vSet, h, hne]
  | struct h =>
    obtain ⟨N, h⟩ := conv_of_has h
    refine ⟨N + 1, fun n hn report => ?_⟩
    obtain ⟨m, rfl⟩ : ∃ m, n = m + 1 := ⟨n - 1, by omega⟩
    have h := h m (by omega) report
    have hne : (Tok.PUNC_STRUCT == Tok.PUNC_STRUCT) = true := by decide
    funext s
    simp [vVisit, vDispatch, vVisitChild, vKid, VM.bind, VM.pure, Ast.id, Ast.kids, Ast.kid, vSet, h, hne]

end CCVerif.Checker
