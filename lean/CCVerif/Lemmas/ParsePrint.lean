import CCVerif.Model.Parser
import CCVerif.Model.Printer
import CCVerif.Model.PPFragment
/-!
Helper development for `parse_print_partial` (C05): a first-order copy `E` of the fragment of
syntax trees the theorem covers, its token-level printing `toks` (with the bracket decisions of
`GeneratorImplAST` computed from the generated `CompareOperations` tables) and the proof that
the parser model maps these tokens back to the tree.

Fragment: identifiers (local, global, radical) and literals (integer, `Z`, `∅`); the unary text
operators `bool debool red card Pr… pr…`; the binary arithmetic / set operators `+ - * ∪ ∩ \ ∆`;
n-ary products `k1×…×kn` (flattened when unbracketed, a product factor kept as a node);
the eleven binary predicates; `¬`; the binary connectives `⇔ ⇒ ∨ &`.
Results: `parseToks_toks` (under the bracket hypothesis `E.ok`), `ok_of_wf` (the hypothesis holds
for every tree of the fragment, from `bracket_tables`), `parseToks_toks_wf`.
-/
namespace CCVerif.PP
open CCVerif.Syntax CCVerif.Generated CCVerif.Lexer CCVerif.Parser CCVerif.Printer

/-! ## one-step lemmas of the parser functions -/

theorem primary_atom (f : Nat) (id : Tok) (d : TokData) (rest : Toks) (h : isAtomId id = true) :
    primary (f + 1) (tk id d :: rest) = some (.set, .node id d 0 0 [], rest) := by
  cases id <;> simp [isAtomId] at h <;> (rw [primary.eq_def]; simp only [tk]; rfl)

theorem primary_text (f : Nat) (id : Tok) (d : TokData) (r1 : Toks) (h : isTextFn id = true) :
    primary (f + 1) (tk id d :: tk .PUNC_PL :: r1) =
      match setE f 0 r1 with
      | some (k, e, rp :: r2) =>
        if (k.isSet && rp.id == .PUNC_PR) = true then some (.set, textOperator (tk id d) e rp, r2) else none
      | _ => none := by
  cases id <;> simp [isTextFn] at h <;> (rw [primary.eq_def]; simp only [tk]; rfl)

theorem primary_lp (f : Nat) (rest : Toks) :
    primary (f + 1) (tk .PUNC_PL :: rest) =
      match logE f 0 rest with
      | some (k, e, nx :: r1) =>
        if nx.id == .PUNC_PR then
          match k with
          | .setBin => some (.setBin, removeBrackets (tk .PUNC_PL) e nx, r1)
          | .lbin | .pred => some (.lpar, removeBrackets (tk .PUNC_PL) e nx, r1)
          | _ => none
        else if nx.id == .PUNC_COMMA && k.isSet then
          match enumTail f [e] (nx :: r1) with
          | some (items, rp :: r2) =>
            if rp.id == .PUNC_PR then some (.set, .node .NT_TUPLE .none (tk .PUNC_PL).lo rp.hi items, r2) else none
          | _ => none
        else none
      | _ => none := by
  rw [primary.eq_def]; simp only [tk]; rfl

theorem primary_not (f : Nat) (rest : Toks) :
    primary (f + 1) (tk .NOT :: rest) =
      match predE f rest with
      | some (k, e, r) => if k.isNoBinary then some (.unary, unaryOperation (tk .NOT) e, r) else none
      | none => none := by
  rw [primary.eq_def]; simp only [tk]; rfl

theorem setE_succ (f m : Nat) (toks : Toks) : setE (f + 1) m toks =
    match primary f toks with
    | some (k, e, r) => setLoop f m k e r
    | none => none := by rw [setE]; rfl

theorem logE_succ (f m : Nat) (toks : Toks) : logE (f + 1) m toks =
    match predE f toks with
    | some (k, e, r) => logLoop f m k e r
    | none => none := by rw [logE]; rfl

theorem setLoop_nil (f m : Nat) (k : K) (lhs : Ast) : setLoop (f + 1) m k lhs [] = some (k, lhs, []) := by
  rw [setLoop]

theorem setLoop_cons (f m : Nat) (k : K) (lhs : Ast) (op : LTok) (r : Toks) :
    setLoop (f + 1) m k lhs (op :: r) =
      if isSetOp op.id && k.isSet then
        match precOf op.id with
        | some (p, assoc) =>
          if p ≥ m then
            match setE f (if assoc == .left then p + 1 else p) r with
            | some (k2, rhs, r') =>
              if k2.isSet then
                setLoop f m .setBin (if op.id == .DECART then decartian lhs op rhs else binaryOperation lhs op rhs) r'
              else none
            | none => none
          else some (k, lhs, op :: r)
        | none => none
      else some (k, lhs, op :: r) := by rw [setLoop]; rfl

theorem logLoop_nil (f m : Nat) (k : K) (lhs : Ast) : logLoop (f + 1) m k lhs [] = some (k, lhs, []) := by
  rw [logLoop]

theorem logLoop_cons (f m : Nat) (k : K) (lhs : Ast) (op : LTok) (r : Toks) :
    logLoop (f + 1) m k lhs (op :: r) =
      if isLogicOp op.id && k.isLogicAll then
        match precOf op.id with
        | some (p, assoc) =>
          if p ≥ m then
            match logE f (if assoc == .left then p + 1 else p) r with
            | some (k2, rhs, r') =>
              if k2.isLogicAll then logLoop f m .lbin (binaryOperation lhs op rhs) r' else none
            | none => none
          else some (k, lhs, op :: r)
        | none => none
      else some (k, lhs, op :: r) := by rw [logLoop]; rfl

theorem predE_succ (f : Nat) (toks : Toks) : predE (f + 1) toks =
    match setE f 0 toks with
    | some (k, lhs, op :: r) =>
      if isPredOp op.id && k.isSet then
        match setE f 0 r with
        | some (k2, rhs, r') => if k2.isSet then some (.pred, binaryOperation lhs op rhs, r') else none
        | none => none
      else if (op.id == .ITERATE || op.id == .ASSIGN) && (lhs.id == .ID_LOCAL || lhs.id == .NT_TUPLE) then
        let v := if lhs.id == .NT_TUPLE then tupleDecl lhs else some lhs
        match v, setE f 0 r with
        | some v', some (k2, rhs, r') => if k2.isSet then some (.pred, binaryOperation v' op rhs, r') else none
        | _, _ => none
      else some (k, lhs, op :: r)
    | other => other := by rw [predE]; rfl


/-! ## facts read off the generated precedence lines -/

theorem precOf_set7 (op : Tok) (h : isSetOp7 op = true) :
    precOf op = some (prec op, .left) ∧ isSetOp op = true ∧ (op == .DECART) = false ∧ prec op ≤ 10 := by
  cases op <;> simp [isSetOp7] at h <;> decide +kernel

theorem precOf_setOp (op : Tok) (h : isSetOp op = true) : precOf op = some (prec op, .left) := by
  cases op <;> simp [isSetOp] at h <;> decide +kernel

theorem precOf_logic (op : Tok) (h : isLogicOp op = true) :
    precOf op = some (prec op, .left) ∧ prec op ≤ 10 := by
  cases op <;> simp [isLogicOp] at h <;> decide +kernel

/-! ## set level -/

/-- the rest does not continue a `setexpr_binary` at precedence `m` or above -/
def stopS (m : Nat) (rest : Toks) : Prop :=
  ∀ t r, rest = t :: r → isSetOp t.id = true → prec t.id < m

theorem stopS_mono {m m' : Nat} {rest : Toks} (h : stopS m rest) (hm : m ≤ m') : stopS m' rest :=
  fun t r e hs => Nat.lt_of_lt_of_le (h t r e hs) hm

theorem setLoop_stop (f m : Nat) (k : K) (lhs : Ast) (rest : Toks) (h : stopS m rest) :
    setLoop (f + 1) m k lhs rest = some (k, lhs, rest) := by
  cases rest with
  | nil => exact setLoop_nil f m k lhs
  | cons op r =>
    rw [setLoop_cons]
    by_cases hs : isSetOp op.id = true
    · have hp := precOf_setOp op.id hs
      have hlt := h op r rfl hs
      rw [hp]
      by_cases hk : k.isSet = true
      · simp only [hs, hk, Bool.and_self, if_true]
        have : ¬ (prec op.id ≥ m) := by omega
        simp only [this, if_false]
      · simp [hk]
    · simp [hs]

def E.spine : E → Nat
  | .sbin op l _ => (if brSet op l.top .left then 1 else l.spine) + 1
  | .prod2 a _ => (if brProd true a.top then 1 else a.spine) + 1
  | .prodN p _ => p.spine + 1
  | .lbin op l _ => (if brLogic op l.top .left then 1 else l.spine) + 1
  | _ => 1

theorem spine_le_sz : ∀ e : E, e.spine ≤ e.sz ∧ 4 ≤ e.sz
  | .atom .. => by simp only [E.spine, E.sz]; omega
  | .text _ _ a => by have := spine_le_sz a; simp only [E.spine, E.sz]; omega
  | .sbin op l r => by
    have := spine_le_sz l; have := spine_le_sz r
    simp only [E.spine, E.sz]; split <;> omega
  | .prod2 a b => by
    have := spine_le_sz a; have := spine_le_sz b
    simp only [E.spine, E.sz]; split <;> omega
  | .prodN p k => by
    have := spine_le_sz p; have := spine_le_sz k
    simp only [E.spine, E.sz]; omega
  | .pred _ l r => by have := spine_le_sz l; have := spine_le_sz r; simp only [E.spine, E.sz]; omega
  | .neg x => by have := spine_le_sz x; simp only [E.spine, E.sz]; omega
  | .lbin op l r => by
    have := spine_le_sz l; have := spine_le_sz r
    simp only [E.spine, E.sz]; split <;> omega

theorem raw_range : ∀ e : E, e.raw.lo = 0 ∧ e.raw.hi = 0
  | .atom .. | .text .. | .sbin .. | .prod2 .. | .prodN .. | .pred .. | .neg _ | .lbin .. => ⟨rfl, rfl⟩

theorem raw_id : ∀ e : E, e.raw.id = e.top
  | .atom .. | .text .. | .sbin .. | .prod2 .. | .prodN .. | .pred .. | .neg _ | .lbin .. => rfl

theorem setRange_raw (e : E) : setRange e.raw 0 0 = e.raw := by
  cases e <;> rfl

/-- a product node as the parser holds it -/
theorem raw_prod {p : E} (h : p.isProd = true) : p.raw = .node .DECART .none 0 0 p.raw.kids := by
  cases p <;> simp [E.isProd] at h <;> rfl

theorem ast_prod {p : E} (h : p.isProd = true) : p.ast = .node .DECART .none 0 0 p.ast.kids := by
  cases p <;> simp [E.isProd] at h <;> rfl

theorem kind_isSet {e : E} (h : e.isS = true) : e.kind.isSet = true := by
  cases e <;> simp [E.isS] at h <;> rfl

/-- the parse of a set phrase continues the precedence loop with the phrase as left operand -/
def SetContP (e : E) : Prop :=
  ∀ (F m : Nat) (rest : Toks), 2 * e.sz ≤ F → m ≤ e.low → stopS (e.low + 1) rest →
    setE F m (e.toks ++ rest) = setLoop (F - e.spine) m e.kind e.raw rest

theorem setDone {e : E} (h : SetContP e) (F m : Nat) (rest : Toks) (hF : 2 * e.sz ≤ F) (hm : m ≤ e.low)
    (hs : stopS m rest) : setE F m (e.toks ++ rest) = some (e.kind, e.raw, rest) := by
  rw [h F m rest hF hm (stopS_mono hs (by omega))]
  have := spine_le_sz e
  obtain ⟨g, hg⟩ : ∃ g, F - e.spine = g + 1 := ⟨F - e.spine - 1, by omega⟩
  rw [hg, setLoop_stop g m _ _ _ hs]

theorem stopS_rp (m : Nat) (rest : Toks) : stopS m (tk .PUNC_PR :: rest) := by
  intro t r e hs; cases e; simp [tk, isSetOp] at hs

/-- `predE` hands a phrase through when the next token starts no predicate -/
theorem predE_pass (f : Nat) (toks : Toks) (k : K) (lhs : Ast) (op : LTok) (r : Toks)
    (h : setE f 0 toks = some (k, lhs, op :: r)) (h1 : isPredOp op.id = false)
    (h2 : (op.id == .ITERATE || op.id == .ASSIGN) = false) : predE (f + 1) toks = some (k, lhs, op :: r) := by
  rw [predE_succ, h]; simp [h1, h2]

theorem predE_pass_nil (f : Nat) (toks : Toks) (k : K) (lhs : Ast)
    (h : setE f 0 toks = some (k, lhs, [])) : predE (f + 1) toks = some (k, lhs, []) := by
  rw [predE_succ, h]

/-- `logLoop` stops at a token that is no connective -/
theorem logLoop_pass (f m : Nat) (k : K) (lhs : Ast) (op : LTok) (r : Toks) (h : isLogicOp op.id = false) :
    logLoop (f + 1) m k lhs (op :: r) = some (k, lhs, op :: r) := by
  rw [logLoop_cons]; simp [h]

/-- a set phrase followed by `)` passes unchanged through the predicate and the logic level -/
theorem logPassS {e : E} (h : SetContP e) (F : Nat) (rest : Toks) (hF : 2 * e.sz + 4 ≤ F) :
    logE F 0 (e.toks ++ tk .PUNC_PR :: rest) = some (e.kind, e.raw, tk .PUNC_PR :: rest) := by
  obtain ⟨g, hg⟩ : ∃ g, F = g + 1 + 1 := ⟨F - 2, by omega⟩
  subst hg
  have h1 := setDone h g 0 (tk .PUNC_PR :: rest) (by omega) (Nat.zero_le _) (stopS_rp 0 rest)
  rw [logE_succ, predE_pass g _ _ _ _ _ h1 (by rfl) (by rfl)]
  exact logLoop_pass g 0 _ _ _ _ (by rfl)

/-- `( e )` around a binary set phrase is one primary -/
theorem primary_bracketS {e : E} (h : SetContP e) (hk : e.kind = .setBin) (F : Nat) (rest : Toks)
    (hF : 2 * e.sz + 6 ≤ F) :
    primary F (tk .PUNC_PL :: (e.toks ++ [tk .PUNC_PR]) ++ rest) = some (.setBin, wrapRaw true e.raw, rest) := by
  obtain ⟨g, hg⟩ : ∃ g, F = g + 1 := ⟨F - 1, by omega⟩
  subst hg
  have : tk .PUNC_PL :: (e.toks ++ [tk .PUNC_PR]) ++ rest = tk .PUNC_PL :: (e.toks ++ tk .PUNC_PR :: rest) := by simp
  rw [this, primary_lp, logPassS h g rest (by omega), hk]
  have e1 : (Tok.PUNC_PR == Tok.PUNC_PR) = true := rfl
  simp [tk, removeBrackets, wrapRaw, setRange_raw, e1]

theorem wrapRaw_range (b : Bool) (e : E) : (wrapRaw b e.raw).lo = 0 ∧ (wrapRaw b e.raw).hi = 0 := by
  cases b
  · exact raw_range e
  · exact ⟨rfl, rfl⟩

theorem wrapKind_isSet (b : Bool) {c : E} (hS : c.isS = true) (hb : b = true → c.kind = .setBin) :
    (wrapKind b c.kind).isSet = true := by
  cases b
  · exact kind_isSet hS
  · simp only [wrapKind, if_true]; rw [hb rfl]; rfl

/-- an operand printed with or without brackets, parsed to the end as RIGHT operand at level `m'` -/
theorem wrapDone {c : E} (hc : SetContP c) (b : Bool) (hb : b = true → c.kind = .setBin) (m' : Nat)
    (hlow : b = false → m' ≤ c.low) (G : Nat) (rest : Toks) (hG : 2 * c.sz + 8 ≤ G) (hs : stopS m' rest) :
    setE G m' (wrap b c.toks ++ rest) = some (wrapKind b c.kind, wrapRaw b c.raw, rest) := by
  cases b with
  | true =>
    have hk := hb rfl
    obtain ⟨g, hg⟩ : ∃ g, G = g + 1 + 1 := ⟨G - 2, by omega⟩
    subst hg
    simp only [wrap, if_true]
    rw [setE_succ, primary_bracketS hc hk (g + 1) rest (by omega)]
    show setLoop (g + 1) m' K.setBin (wrapRaw true c.raw) rest = _
    rw [setLoop_stop g _ _ _ _ hs, hk]
    rfl
  | false =>
    simp only [wrap, wrapKind, wrapRaw, Bool.false_eq_true, if_false]
    exact setDone hc G m' rest (by omega) (hlow rfl) hs

/-- the same as LEFT operand: the loop goes on -/
theorem wrapCont {c : E} (hc : SetContP c) (b : Bool) (hb : b = true → c.kind = .setBin) (F m : Nat) (rest : Toks)
    (hF : 2 * c.sz + 8 ≤ F) (hlow : b = false → m ≤ c.low ∧ stopS (c.low + 1) rest) :
    setE F m (wrap b c.toks ++ rest) =
      setLoop (F - (if b then 1 else c.spine)) m (wrapKind b c.kind) (wrapRaw b c.raw) rest := by
  cases b with
  | true =>
    have hk := hb rfl
    obtain ⟨g, hg⟩ : ∃ g, F = g + 1 := ⟨F - 1, by omega⟩
    subst hg
    simp only [wrap, if_true]
    rw [setE_succ, primary_bracketS hc hk g rest (by omega), hk]
    rfl
  | false =>
    simp only [wrap, wrapKind, wrapRaw, Bool.false_eq_true, if_false]
    exact hc F m rest (by omega) (hlow rfl).1 (hlow rfl).2

/-- one operator step of the precedence loop -/
theorem setStep (op : Tok) (hop : isSetOp op = true) (g m : Nat) (k : K) (lhs : Ast) (R rest : Toks) (rk : K)
    (rraw : Ast) (hk : k.isSet = true) (hm : m ≤ prec op)
    (hr : setE g (prec op + 1) (R ++ rest) = some (rk, rraw, rest)) (hrk : rk.isSet = true) :
    setLoop (g + 1) m k lhs (tk op :: (R ++ rest)) =
      setLoop g m .setBin (if op == .DECART then decartian lhs (tk op) rraw else binaryOperation lhs (tk op) rraw) rest := by
  rw [setLoop_cons]
  have hge : prec op ≥ m := hm
  have e1 : (Assoc.left == Assoc.left) = true := rfl
  simp only [tk, hop, hk, Bool.and_self, if_true, precOf_setOp op hop, hge, e1]
  rw [hr]
  simp only [hrk, if_true]
  rfl

theorem precOf_decart : isSetOp .DECART = true ∧ prec .DECART ≤ 10 ∧ (Tok.DECART == Tok.DECART) = true := by
  decide +kernel

theorem brProd_decart (first : Bool) : brProd first .DECART = true := by
  cases first <;> decide +kernel

/-- an unbracketed binary operand binds as tightly as the grammar needs -/
theorem low_of_okChildS {p : Tok} {c : E} {side : Side} (hS : c.isS = true) (hp : prec p ≤ 10)
    (hok : okChildS p c side = true) (hb : brSet p c.top side = false) :
    (match side with | .left => prec p ≤ c.low | .right => prec p + 1 ≤ c.low) := by
  cases c with
  | sbin cop a b =>
    simp only [okChildS, E.binTop?, E.top] at hok hb
    rw [hb] at hok
    cases side <;> simp [condOK, E.low] at hok ⊢ <;> omega
  | prod2 a b =>
    simp only [okChildS, E.binTop?, E.top] at hok hb
    rw [hb] at hok
    cases side <;> simp [condOK, E.low] at hok ⊢ <;> omega
  | prodN q k =>
    simp only [okChildS, E.binTop?, E.top] at hok hb
    rw [hb] at hok
    cases side <;> simp [condOK, E.low] at hok ⊢ <;> omega
  | atom id d => cases side <;> simp only [E.low] <;> omega
  | text f d a => cases side <;> simp only [E.low] <;> omega
  | _ => simp [E.isS] at hS

theorem kind_of_okChildS {p : Tok} {c : E} {side : Side} (hS : c.isS = true)
    (hok : okChildS p c side = true) (hb : brSet p c.top side = true) : c.kind = .setBin := by
  cases c with
  | sbin => rfl
  | prod2 => rfl
  | prodN => rfl
  | atom id d => simp only [okChildS, E.binTop?, E.top] at hok hb; rw [hb] at hok; cases hok
  | text f d a => simp only [okChildS, E.binTop?, E.top] at hok hb; rw [hb] at hok; cases hok
  | _ => simp [E.isS] at hS

theorem low_of_okFactor {first : Bool} {c : E} (hS : c.isS = true)
    (hok : okFactor first c = true) (hb : brProd first c.top = false) :
    (if first then prec .DECART ≤ c.low else prec .DECART + 1 ≤ c.low) := by
  have h10 := precOf_decart.2.1
  cases c with
  | sbin cop a b =>
    simp only [okFactor, E.binTop?, E.top] at hok hb
    rw [hb] at hok
    cases first <;> simp [condOK, E.low] at hok ⊢ <;> omega
  | prod2 a b => simp only [E.top] at hb; rw [brProd_decart] at hb; cases hb
  | prodN q k => simp only [E.top] at hb; rw [brProd_decart] at hb; cases hb
  | atom id d => cases first <;> simp only [E.low] <;> simp <;> omega
  | text f d a => cases first <;> simp only [E.low] <;> simp <;> omega
  | _ => simp [E.isS] at hS

theorem kind_of_okFactor {first : Bool} {c : E} (hS : c.isS = true)
    (hok : okFactor first c = true) (hb : brProd first c.top = true) : c.kind = .setBin := by
  cases c with
  | sbin => rfl
  | prod2 => rfl
  | prodN => rfl
  | atom id d => simp only [okFactor, E.binTop?, E.top] at hok hb; rw [hb] at hok; cases hok
  | text f d a => simp only [okFactor, E.binTop?, E.top] at hok hb; rw [hb] at hok; cases hok
  | _ => simp [E.isS] at hS

/-- the set-level claim for every set phrase of the fragment -/
theorem setCont : ∀ e : E, e.isS = true → e.wf = true → e.ok = true → SetContP e
  | .atom id d, _, hw, _ => by
    intro F m rest hF hm hs
    simp only [E.wf] at hw
    simp only [E.sz] at hF
    obtain ⟨g, hg⟩ : ∃ g, F = g + 1 + 1 := ⟨F - 2, by omega⟩
    subst hg
    show setE (g + 1 + 1) m (tk id d :: rest) = _
    rw [setE_succ, primary_atom g id d rest hw]
    rfl
  | .text f d a, _, hw, hok => by
    intro F m rest hF hm hs
    simp only [E.wf, Bool.and_eq_true] at hw
    simp only [E.ok] at hok
    simp only [E.sz] at hF
    have iha := setCont a hw.1.2 hw.2 hok
    obtain ⟨g, hg⟩ : ∃ g, F = g + 1 + 1 := ⟨F - 2, by omega⟩
    subst hg
    have : (E.text f d a).toks ++ rest = tk f d :: tk .PUNC_PL :: (a.toks ++ tk .PUNC_PR :: rest) := by
      simp [E.toks]
    rw [this, setE_succ, primary_text g f d _ hw.1.1,
      setDone iha g 0 _ (by omega) (Nat.zero_le _) (stopS_rp 0 rest)]
    have e1 : (Tok.PUNC_PR == Tok.PUNC_PR) = true := rfl
    have hk := kind_isSet hw.1.2
    simp only [hk, tk, e1, Bool.and_self, if_true, textOperator]
    rfl
  | .sbin op l r, _, hw, hok => by
    intro F m rest hF hm hs
    simp only [E.wf, Bool.and_eq_true] at hw
    simp only [E.ok, Bool.and_eq_true] at hok
    obtain ⟨⟨⟨⟨hop, hlS⟩, hrS⟩, hlw⟩, hrw⟩ := hw
    obtain ⟨⟨⟨hokl, hokr⟩, hlok⟩, hrok⟩ := hok
    have ihl := setCont l hlS hlw hlok
    have ihr := setCont r hrS hrw hrok
    obtain ⟨_, hisop, hnd, hp10⟩ := precOf_set7 op hop
    have szl := spine_le_sz l; have szr := spine_le_sz r
    simp only [E.sz] at hF; simp only [E.low] at hm hs
    have hbl : brSet op l.top .left = true → l.kind = .setBin := kind_of_okChildS hlS hokl
    have hbr : brSet op r.top .right = true → r.kind = .setBin := kind_of_okChildS hrS hokr
    have htoks : (E.sbin op l r).toks ++ rest =
        wrap (brSet op l.top .left) l.toks ++ tk op :: (wrap (brSet op r.top .right) r.toks ++ rest) := by
      simp [E.toks]
    rw [htoks, wrapCont ihl _ hbl F m _ (by omega) (fun hb => by
      have hl := low_of_okChildS hlS hp10 hokl hb
      refine ⟨by omega, ?_⟩
      intro t r' e _; cases e; show prec op < l.low + 1; omega)]
    have hsp : (if brSet op l.top .left then 1 else l.spine) ≤ l.sz := by split <;> omega
    obtain ⟨g, hg⟩ : ∃ g, F - (if brSet op l.top .left then 1 else l.spine) = g + 1 :=
      ⟨F - (if brSet op l.top .left then 1 else l.spine) - 1, by omega⟩
    rw [hg, setStep op hisop g m _ _ _ rest _ _ (wrapKind_isSet _ hlS hbl) hm
      (wrapDone ihr _ hbr (prec op + 1) (fun hb => low_of_okChildS hrS hp10 hokr hb) g rest (by omega) hs)
      (wrapKind_isSet _ hrS hbr)]
    have hlo := (wrapRaw_range (brSet op l.top .left) l).1
    have hhi := (wrapRaw_range (brSet op r.top .right) r).2
    have hg' : F - (E.sbin op l r).spine = g := by simp only [E.spine]; omega
    rw [hg']
    simp only [hnd, Bool.false_eq_true, if_false, binaryOperation, hlo, hhi]
    rfl
  | .prod2 a b, _, hw, hok => by
    intro F m rest hF hm hs
    simp only [E.wf, Bool.and_eq_true] at hw
    simp only [E.ok, Bool.and_eq_true] at hok
    obtain ⟨⟨⟨haS, hbS⟩, haw⟩, hbw⟩ := hw
    obtain ⟨⟨⟨hoka, hokb⟩, haok⟩, hbok⟩ := hok
    have iha := setCont a haS haw haok
    have ihb := setCont b hbS hbw hbok
    obtain ⟨hisop, hp10, hdd⟩ := precOf_decart
    have sza := spine_le_sz a; have szb := spine_le_sz b
    simp only [E.sz] at hF; simp only [E.low] at hm hs
    have hba : brProd true a.top = true → a.kind = .setBin := kind_of_okFactor haS hoka
    have hbb : brProd false b.top = true → b.kind = .setBin := kind_of_okFactor hbS hokb
    have htoks : (E.prod2 a b).toks ++ rest =
        wrap (brProd true a.top) a.toks ++ tk .DECART :: (wrap (brProd false b.top) b.toks ++ rest) := by
      simp [E.toks]
    rw [htoks, wrapCont iha _ hba F m _ (by omega) (fun hb => by
      have hl := low_of_okFactor haS hoka hb
      simp only [if_true] at hl
      refine ⟨by omega, ?_⟩
      intro t r' e _; cases e; show prec .DECART < a.low + 1; omega)]
    have hsp : (if brProd true a.top then 1 else a.spine) ≤ a.sz := by split <;> omega
    obtain ⟨g, hg⟩ : ∃ g, F - (if brProd true a.top then 1 else a.spine) = g + 1 :=
      ⟨F - (if brProd true a.top then 1 else a.spine) - 1, by omega⟩
    rw [hg, setStep .DECART hisop g m _ _ _ rest _ _ (wrapKind_isSet _ haS hba) hm
      (wrapDone ihb _ hbb (prec .DECART + 1) (fun hb => by
        have hl := low_of_okFactor hbS hokb hb
        simpa using hl) g rest (by omega) hs)
      (wrapKind_isSet _ hbS hbb)]
    have hlo := (wrapRaw_range (brProd true a.top) a).1
    have hhi := (wrapRaw_range (brProd false b.top) b).2
    have hg' : F - (E.prod2 a b).spine = g := by simp only [E.spine]; omega
    -- the left operand is not a raw product node: a product factor is always bracketed
    have hid : ((wrapRaw (brProd true a.top) a.raw).id == .DECART) = false := by
      cases hb : brProd true a.top with
      | true => rfl
      | false =>
        simp only [wrapRaw, Bool.false_eq_true, if_false, raw_id]
        cases ht : a.top <;> first | rfl | (rw [ht, brProd_decart] at hb; cases hb)
    rw [hg']
    simp only [hdd, if_true, decartian, hid, Bool.false_eq_true, if_false, binaryOperation, hlo, hhi]
    rfl
  | .prodN p k, _, hw, hok => by
    intro F m rest hF hm hs
    simp only [E.wf, Bool.and_eq_true] at hw
    simp only [E.ok, Bool.and_eq_true] at hok
    obtain ⟨⟨⟨hpP, hkS⟩, hpw⟩, hkw⟩ := hw
    obtain ⟨⟨hokk, hpok⟩, hkok⟩ := hok
    have hpS : p.isS = true := by cases p <;> simp [E.isProd] at hpP <;> rfl
    have ihp := setCont p hpS hpw hpok
    have ihk := setCont k hkS hkw hkok
    obtain ⟨hisop, hp10, hdd⟩ := precOf_decart
    have szp := spine_le_sz p; have szk := spine_le_sz k
    simp only [E.sz] at hF; simp only [E.low] at hm hs
    have hplow : p.low = prec .DECART := by cases p <;> simp [E.isProd] at hpP <;> rfl
    have hpk : p.kind = .setBin := by cases p <;> simp [E.isProd] at hpP <;> rfl
    have hbk : brProd false k.top = true → k.kind = .setBin := kind_of_okFactor hkS hokk
    have htoks : (E.prodN p k).toks ++ rest =
        p.toks ++ tk .DECART :: (wrap (brProd false k.top) k.toks ++ rest) := by
      simp [E.toks]
    rw [htoks, ihp F m _ (by omega) (by omega) (by
      intro t r' e _; cases e; show prec .DECART < p.low + 1; omega)]
    obtain ⟨g, hg⟩ : ∃ g, F - p.spine = g + 1 := ⟨F - p.spine - 1, by omega⟩
    rw [hg, setStep .DECART hisop g m _ _ _ rest _ _ (by rw [hpk]; rfl) hm
      (wrapDone ihk _ hbk (prec .DECART + 1) (fun hb => by
        have hl := low_of_okFactor hkS hokk hb
        simpa using hl) g rest (by omega) hs)
      (wrapKind_isSet _ hkS hbk)]
    have hhi := (wrapRaw_range (brProd false k.top) k).2
    have hg' : F - (E.prodN p k).spine = g := by simp only [E.spine]; omega
    rw [hg', raw_prod hpP]
    simp only [hdd, if_true, decartian, Ast.id, Ast.data, Ast.lo, Ast.kids, hhi]
    rfl
  | .pred .., h, _, _ => by simp [E.isS] at h
  | .neg _, h, _, _ => by simp [E.isS] at h
  | .lbin .., h, _, _ => by simp [E.isS] at h

/-! ## predicate and logic level -/

/-- what may follow a formula of the fragment: nothing, `)` or a connective -/
def endOK (rest : Toks) : Prop :=
  ∀ t r, rest = t :: r → (t.id = .PUNC_PR ∨ isLogicOp t.id = true)

def stopLg (m : Nat) (rest : Toks) : Prop :=
  ∀ t r, rest = t :: r → isLogicOp t.id = true → prec t.id < m

theorem stopLg_mono {m m' : Nat} {rest : Toks} (h : stopLg m rest) (hm : m ≤ m') : stopLg m' rest :=
  fun t r e hs => Nat.lt_of_lt_of_le (h t r e hs) hm

theorem logicOp_facts (t : Tok) (h : isLogicOp t = true) :
    isSetOp t = false ∧ isPredOp t = false ∧ (t == .ITERATE || t == .ASSIGN) = false := by
  cases t <;> simp [isLogicOp] at h <;> exact ⟨rfl, rfl, rfl⟩

theorem endOK_stopS {rest : Toks} (h : endOK rest) (m : Nat) : stopS m rest := by
  intro t r e hs
  rcases h t r e with h1 | h1
  · rw [h1] at hs; simp [isSetOp] at hs
  · rw [(logicOp_facts t.id h1).1] at hs; cases hs

theorem endOK_rp (rest : Toks) : endOK (tk .PUNC_PR :: rest) := by
  intro t r e; cases e; exact Or.inl rfl

theorem endOK_op (op : Tok) (rest : Toks) (h : isLogicOp op = true) : endOK (tk op :: rest) := by
  intro t r e; cases e; exact Or.inr h

theorem stopLg_rp (m : Nat) (rest : Toks) : stopLg m (tk .PUNC_PR :: rest) := by
  intro t r e hs; cases e; simp [tk, isLogicOp] at hs

theorem setLoop_nonset (f m : Nat) (k : K) (lhs : Ast) (rest : Toks) (hk : k.isSet = false) :
    setLoop (f + 1) m k lhs rest = some (k, lhs, rest) := by
  cases rest with
  | nil => exact setLoop_nil f m k lhs
  | cons op r => rw [setLoop_cons]; simp [hk]

theorem logLoop_stop (f m : Nat) (k : K) (lhs : Ast) (rest : Toks) (h : stopLg m rest) :
    logLoop (f + 1) m k lhs rest = some (k, lhs, rest) := by
  cases rest with
  | nil => exact logLoop_nil f m k lhs
  | cons op r =>
    rw [logLoop_cons]
    by_cases hs : isLogicOp op.id = true
    · have hp := (precOf_logic op.id hs).1
      have hlt := h op r rfl hs
      rw [hp]
      by_cases hk : k.isLogicAll = true
      · simp only [hs, hk, Bool.and_self, if_true]
        have : ¬ (prec op.id ≥ m) := by omega
        simp only [this, if_false]
      · simp [hk]
    · simp [hs]

/-- `predE` on a phrase that is not a set expression: handed through whatever follows -/
theorem predE_nonset (f : Nat) (toks : Toks) (k : K) (lhs : Ast) (rest : Toks)
    (h : setE f 0 toks = some (k, lhs, rest)) (hk : k.isSet = false)
    (hid : (lhs.id == .ID_LOCAL || lhs.id == .NT_TUPLE) = false) : predE (f + 1) toks = some (k, lhs, rest) := by
  rw [predE_succ, h]
  cases rest with
  | nil => rfl
  | cons op r => simp [hk, hid]

/-- a formula that is not a binary connective, parsed at the predicate level -/
def NBP (x : E) : Prop :=
  ∀ (F : Nat) (rest : Toks), 2 * x.sz ≤ F + 2 → endOK rest → predE F (x.toks ++ rest) = some (x.kind, x.raw, rest)

def LogContP (x : E) : Prop :=
  ∀ (F m : Nat) (rest : Toks), 2 * x.sz ≤ F → m ≤ x.low → endOK rest → stopLg (x.low + 1) rest →
    logE F m (x.toks ++ rest) = logLoop (F - x.spine) m x.kind x.raw rest

theorem logDone {x : E} (h : LogContP x) (F m : Nat) (rest : Toks) (hF : 2 * x.sz ≤ F) (hm : m ≤ x.low)
    (he : endOK rest) (hs : stopLg m rest) : logE F m (x.toks ++ rest) = some (x.kind, x.raw, rest) := by
  rw [h F m rest hF hm he (stopLg_mono hs (by omega))]
  have := spine_le_sz x
  obtain ⟨g, hg⟩ : ∃ g, F - x.spine = g + 1 := ⟨F - x.spine - 1, by omega⟩
  rw [hg, logLoop_stop g m _ _ _ hs]

/-- `( x )` around a predicate or a binary connective, parsed at the predicate level -/
theorem predE_bracketL {x : E} (h : LogContP x) (hk : x.kind = .lbin ∨ x.kind = .pred) (F : Nat) (rest : Toks)
    (hF : 2 * x.sz + 8 ≤ F) (he : endOK rest) :
    predE F (tk .PUNC_PL :: (x.toks ++ [tk .PUNC_PR]) ++ rest) = some (.lpar, wrapRaw true x.raw, rest) := by
  obtain ⟨g, hg⟩ : ∃ g, F = g + 1 + 1 + 1 + 1 := ⟨F - 4, by omega⟩
  subst hg
  have hts : tk .PUNC_PL :: (x.toks ++ [tk .PUNC_PR]) ++ rest = tk .PUNC_PL :: (x.toks ++ tk .PUNC_PR :: rest) := by simp
  have hlog := logDone h (g + 1) 0 (tk .PUNC_PR :: rest) (by omega) (Nat.zero_le _) (endOK_rp rest) (stopLg_rp 0 rest)
  have hprim : primary (g + 1 + 1) (tk .PUNC_PL :: (x.toks ++ tk .PUNC_PR :: rest)) =
      some (.lpar, wrapRaw true x.raw, rest) := by
    rw [primary_lp, hlog]
    have e1 : (Tok.PUNC_PR == Tok.PUNC_PR) = true := rfl
    have hx : setRange x.raw 0 0 = x.raw := setRange_raw x
    rcases hk with hk | hk <;> simp [hk, tk, removeBrackets, wrapRaw, hx, e1]
  have hset : setE (g + 1 + 1 + 1) 0 (tk .PUNC_PL :: (x.toks ++ tk .PUNC_PR :: rest)) =
      some (.lpar, wrapRaw true x.raw, rest) := by
    rw [setE_succ, hprim]
    exact setLoop_nonset (g + 1) 0 _ _ _ rfl
  rw [hts]
  exact predE_nonset _ _ _ _ _ hset rfl rfl

theorem predOp_not_setOp (t : Tok) (h : isPredOp t = true) : isSetOp t = false := by
  cases t <;> simp [isPredOp] at h <;> rfl

theorem kindL_logicAll {x : E} (h : x.isS = false) : x.kind.isLogicAll = true ∧ x.kind.isSet = false := by
  cases x <;> simp [E.isS] at h <;> exact ⟨rfl, rfl⟩

/-- a phrase parsed at the predicate level continues the connective loop -/
theorem logCont_of_NB {x : E} (h : NBP x) (hsp : x.spine = 1) : LogContP x := by
  intro F m rest hF _ he _
  have := spine_le_sz x
  obtain ⟨g, hg⟩ : ∃ g, F = g + 1 := ⟨F - 1, by omega⟩
  subst hg
  rw [logE_succ, h g rest (by omega) he, hsp]
  rfl

/-- the logic-level claims for every formula of the fragment -/
theorem logCont : ∀ x : E, x.isS = false → x.wf = true → x.ok = true → LogContP x ∧ (x.kind ≠ .lbin → NBP x)
  | .atom .., h, _, _ => by simp [E.isS] at h
  | .text .., h, _, _ => by simp [E.isS] at h
  | .sbin .., h, _, _ => by simp [E.isS] at h
  | .prod2 .., h, _, _ => by simp [E.isS] at h
  | .prodN .., h, _, _ => by simp [E.isS] at h
  | .pred op a b, _, hw, hok => by
    simp only [E.wf, Bool.and_eq_true] at hw
    simp only [E.ok, Bool.and_eq_true] at hok
    obtain ⟨⟨⟨⟨hop, haS⟩, hbS⟩, haw⟩, hbw⟩ := hw
    have ca := setCont a haS haw hok.1
    have cb := setCont b hbS hbw hok.2
    have hnb : NBP (.pred op a b) := by
      intro F rest hF he
      simp only [E.sz] at hF
      have := spine_le_sz a; have := spine_le_sz b
      obtain ⟨g, hg⟩ : ∃ g, F = g + 1 := ⟨F - 1, by omega⟩
      subst hg
      have hts : (E.pred op a b).toks ++ rest = a.toks ++ tk op :: (b.toks ++ rest) := by simp [E.toks]
      have hsa : stopS 0 (tk op :: (b.toks ++ rest)) := by
        intro t r e hs; cases e
        have := predOp_not_setOp op hop
        simp [tk, this] at hs
      rw [hts, predE_succ, setDone ca g 0 _ (by omega) (Nat.zero_le _) hsa]
      have hka := kind_isSet haS
      have hkb := kind_isSet hbS
      simp only [tk, hop, hka, Bool.and_self, if_true]
      rw [setDone cb g 0 rest (by omega) (Nat.zero_le _) (endOK_stopS he 0)]
      simp only [hkb, if_true, binaryOperation, (raw_range a).1, (raw_range b).2]
      rfl
    exact ⟨logCont_of_NB hnb rfl, fun _ => hnb⟩
  | .neg y, _, hw, hok => by
    simp only [E.wf, Bool.and_eq_true, Bool.not_eq_true'] at hw
    simp only [E.ok, Bool.and_eq_true] at hok
    obtain ⟨hyL, hyw⟩ := hw
    obtain ⟨hoky, hyok⟩ := hok
    obtain ⟨cy, nby⟩ := logCont y hyL hyw hyok
    have hnb : NBP (.neg y) := by
      intro F rest hF he
      simp only [E.sz] at hF
      have := spine_le_sz y
      obtain ⟨g, hg⟩ : ∃ g, F = g + 1 + 1 + 1 := ⟨F - 3, by omega⟩
      subst hg
      -- the operand at the predicate level
      have hinner : predE g (wrap (brNot y.top) y.toks ++ rest) =
          some (wrapKind (brNot y.top) y.kind, wrapRaw (brNot y.top) y.raw, rest) ∧
          (wrapKind (brNot y.top) y.kind).isNoBinary = true := by
        cases hb : brNot y.top with
        | true =>
          have hk : y.kind = .lbin ∨ y.kind = .pred := by
            cases y with
            | lbin => exact Or.inl rfl
            | pred => exact Or.inr rfl
            | neg z => simp only [okNot, E.top] at hoky hb; rw [hb] at hoky; cases hoky
            | _ => simp [E.isS] at hyL
          simp only [wrap, if_true]
          refine ⟨?_, ?_⟩
          · rw [predE_bracketL cy hk g rest (by omega) he]
            rcases hk with hk | hk <;> simp [wrapKind, hk]
          · rcases hk with hk | hk <;> simp [wrapKind, hk, K.isNoBinary]
        | false =>
          have hk : y.kind ≠ .lbin := by
            cases y with
            | lbin cop a b => simp only [okNot, E.top] at hoky hb; rw [hb] at hoky; cases hoky
            | pred => simp [E.kind]
            | neg z => simp [E.kind]
            | _ => simp [E.isS] at hyL
          simp only [wrap, wrapKind, wrapRaw, Bool.false_eq_true, if_false]
          refine ⟨nby hk g rest (by omega) he, ?_⟩
          cases y <;> simp [E.isS] at hyL <;> simp [E.kind, K.isNoBinary] at hk ⊢
      have hprim : primary (g + 1) (tk .NOT :: (wrap (brNot y.top) y.toks ++ rest)) =
          some (.unary, (E.neg y).raw, rest) := by
        rw [primary_not, hinner.1]
        simp only [hinner.2, if_true, unaryOperation, tk]
        have hhi : (wrapRaw (brNot y.top) y.raw).hi = 0 := (wrapRaw_range _ y).2
        rw [hhi]; rfl
      have hset : setE (g + 1 + 1) 0 (tk .NOT :: (wrap (brNot y.top) y.toks ++ rest)) =
          some (.unary, (E.neg y).raw, rest) := by
        rw [setE_succ, hprim]
        exact setLoop_nonset g 0 _ _ _ rfl
      have hts : (E.neg y).toks ++ rest = tk .NOT :: (wrap (brNot y.top) y.toks ++ rest) := by simp [E.toks]
      rw [hts]
      exact predE_nonset _ _ _ _ _ hset rfl rfl
    exact ⟨logCont_of_NB hnb rfl, fun _ => hnb⟩
  | .lbin op l r, _, hw, hok => by
    refine ⟨?_, fun h => absurd rfl h⟩
    intro F m rest hF hm he hs
    simp only [E.wf, Bool.and_eq_true, Bool.not_eq_true'] at hw
    simp only [E.ok, Bool.and_eq_true] at hok
    obtain ⟨⟨⟨⟨hop, hlL⟩, hrL⟩, hlw⟩, hrw⟩ := hw
    obtain ⟨⟨⟨hokl, hokr⟩, hlok⟩, hrok⟩ := hok
    obtain ⟨cl, _⟩ := logCont l hlL hlw hlok
    obtain ⟨cr, _⟩ := logCont r hrL hrw hrok
    obtain ⟨hprec, hp10⟩ := precOf_logic op hop
    have szl := spine_le_sz l; have szr := spine_le_sz r
    simp only [E.sz] at hF; simp only [E.low] at hm hs
    have hlkB : brLogic op l.top .left = true → (l.kind = .lbin ∨ l.kind = .pred) := by
      intro hb
      cases l with
      | lbin => exact Or.inl rfl
      | pred => exact Or.inr rfl
      | neg z => simp only [okChildL, E.top] at hokl hb; rw [hb] at hokl; cases hokl
      | _ => simp [E.isS] at hlL
    have hrkB : brLogic op r.top .right = true → (r.kind = .lbin ∨ r.kind = .pred) := by
      intro hb
      cases r with
      | lbin => exact Or.inl rfl
      | pred => exact Or.inr rfl
      | neg z => simp only [okChildL, E.top] at hokr hb; rw [hb] at hokr; cases hokr
      | _ => simp [E.isS] at hrL
    have hlowl : brLogic op l.top .left = false → prec op ≤ l.low := by
      intro hb
      cases l with
      | lbin cop a b =>
        simp only [okChildL, E.top] at hokl hb
        rw [hb] at hokl
        simp only [Bool.false_or, condOK, decide_eq_true_eq] at hokl
        simp only [E.low]; omega
      | pred => simp only [E.low]; omega
      | neg z => simp only [E.low]; omega
      | _ => simp [E.isS] at hlL
    have hlowr : brLogic op r.top .right = false → prec op + 1 ≤ r.low := by
      intro hb
      cases r with
      | lbin cop a b =>
        simp only [okChildL, E.top] at hokr hb
        rw [hb] at hokr
        simp only [Bool.false_or, condOK, decide_eq_true_eq] at hokr
        simp only [E.low]; omega
      | pred => simp only [E.low]; omega
      | neg z => simp only [E.low]; omega
      | _ => simp [E.isS] at hrL
    have hkl : (wrapKind (brLogic op l.top .left) l.kind).isLogicAll = true := by
      unfold wrapKind; split
      · rename_i hb; rcases hlkB hb with hk | hk <;> rw [hk] <;> rfl
      · exact (kindL_logicAll hlL).1
    have hkr : (wrapKind (brLogic op r.top .right) r.kind).isLogicAll = true := by
      unfold wrapKind; split
      · rename_i hb; rcases hrkB hb with hk | hk <;> rw [hk] <;> rfl
      · exact (kindL_logicAll hrL).1
    have hright : ∀ G, 2 * r.sz + 10 ≤ G →
        logE G (prec op + 1) (wrap (brLogic op r.top .right) r.toks ++ rest) =
          some (wrapKind (brLogic op r.top .right) r.kind, wrapRaw (brLogic op r.top .right) r.raw, rest) := by
      intro G hG
      cases hb : brLogic op r.top .right with
      | true =>
        obtain ⟨g, hg⟩ : ∃ g, G = g + 1 + 1 := ⟨G - 2, by omega⟩
        subst hg
        simp only [wrap, if_true]
        rw [logE_succ, predE_bracketL cr (hrkB hb) (g + 1) rest (by omega) he]
        show logLoop (g + 1) (prec op + 1) K.lpar (wrapRaw true r.raw) rest = _
        rw [logLoop_stop g _ _ _ _ hs]
        rcases hrkB hb with hk | hk <;> simp [wrapKind, hk]
      | false =>
        simp only [wrap, wrapKind, wrapRaw, Bool.false_eq_true, if_false]
        exact logDone cr G (prec op + 1) rest (by omega) (hlowr hb) he hs
    have hleft : ∀ restR, logE F m (wrap (brLogic op l.top .left) l.toks ++ tk op :: restR) =
        logLoop (F - (if brLogic op l.top .left then 1 else l.spine)) m (wrapKind (brLogic op l.top .left) l.kind)
          (wrapRaw (brLogic op l.top .left) l.raw) (tk op :: restR) := by
      intro restR
      cases hb : brLogic op l.top .left with
      | true =>
        obtain ⟨g, hg⟩ : ∃ g, F = g + 1 := ⟨F - 1, by omega⟩
        subst hg
        simp only [wrap, if_true]
        rw [logE_succ]
        have := predE_bracketL cl (hlkB hb) g (tk op :: restR) (by omega) (endOK_op op restR hop)
        simp only [List.cons_append, List.append_assoc] at this ⊢
        rw [this]
        rcases hlkB hb with hk | hk <;> simp [wrapKind, hk]
      | false =>
        simp only [wrap, wrapKind, wrapRaw, Bool.false_eq_true, if_false]
        refine cl F m (tk op :: restR) (by omega) (by have := hlowl hb; omega) (endOK_op op restR hop) ?_
        intro t r' e _
        cases e
        show prec op < l.low + 1
        have := hlowl hb; omega
    have htoks : (E.lbin op l r).toks ++ rest =
        wrap (brLogic op l.top .left) l.toks ++ tk op :: (wrap (brLogic op r.top .right) r.toks ++ rest) := by
      simp [E.toks]
    rw [htoks, hleft]
    have hsp : (if brLogic op l.top .left then 1 else l.spine) ≤ l.sz := by split <;> omega
    obtain ⟨g, hg⟩ : ∃ g, F - (if brLogic op l.top .left then 1 else l.spine) = g + 1 :=
      ⟨F - (if brLogic op l.top .left then 1 else l.spine) - 1, by omega⟩
    rw [hg, logLoop_cons]
    have hge : prec op ≥ m := hm
    have e1 : (Assoc.left == Assoc.left) = true := rfl
    simp only [tk, hop, hkl, Bool.and_self, if_true, hprec, hge, e1]
    rw [hright g (by omega)]
    simp only [hkr, if_true]
    have hlo := (wrapRaw_range (brLogic op l.top .left) l).1
    have hhi := (wrapRaw_range (brLogic op r.top .right) r).2
    have hg' : F - (E.lbin op l r).spine = g := by simp only [E.spine]; omega
    rw [hg']
    simp only [binaryOperation, hlo, hhi]
    rfl

/-! ## top level -/

/-- token kinds that occur in the token sequence of a fragment phrase -/
def fragTok (t : Tok) : Bool :=
  isAtomId t || isTextFn t || isSetOp7 t || t == .DECART || isPredOp t || isLogicOp t || t == .NOT || t == .PUNC_PL ||
    t == .PUNC_PR

theorem fragTok_facts (t : Tok) (h : fragTok t = true) :
    (t != .END && t != .INTERRUPT) = true ∧ (t == .INTERRUPT) = false ∧
    (t == .PUNC_DEFINE || t == .PUNC_STRUCT) = false ∧ (t == .PUNC_SL) = false ∧
    (t == .ASSIGN || t == .ITERATE) = false := by
  cases t <;> first | exact ⟨rfl, rfl, rfl, rfl, rfl⟩ | (revert h; decide)

theorem wrap_frag (b : Bool) (ts : Toks) (h : ∀ t ∈ ts, fragTok t.id = true) : ∀ t ∈ wrap b ts, fragTok t.id = true := by
  intro t ht
  unfold wrap at ht
  split at ht
  · simp at ht
    rcases ht with rfl | ht | rfl
    · rfl
    · exact h t ht
    · rfl
  · exact h t ht

theorem toks_frag : ∀ e : E, e.wf = true → ∀ t ∈ e.toks, fragTok t.id = true
  | .atom id d, hw, t, ht => by
    simp [E.toks] at ht; subst ht
    simp only [E.wf] at hw
    simp [fragTok, tk, hw]
  | .text f d a, hw, t, ht => by
    simp only [E.wf, Bool.and_eq_true] at hw
    simp [E.toks] at ht
    rcases ht with rfl | rfl | ht | rfl
    · simp [fragTok, tk, hw.1.1]
    · rfl
    · exact toks_frag a hw.2 t ht
    · rfl
  | .sbin op l r, hw, t, ht => by
    simp only [E.wf, Bool.and_eq_true] at hw
    simp only [E.toks, List.mem_append, List.mem_cons] at ht
    rcases ht with ht | rfl | ht
    · exact wrap_frag _ _ (toks_frag l hw.1.2) t ht
    · simp [fragTok, tk, hw.1.1.1.1]
    · exact wrap_frag _ _ (toks_frag r hw.2) t ht
  | .prod2 a b, hw, t, ht => by
    simp only [E.wf, Bool.and_eq_true] at hw
    simp only [E.toks, List.mem_append, List.mem_cons] at ht
    rcases ht with ht | rfl | ht
    · exact wrap_frag _ _ (toks_frag a hw.1.2) t ht
    · rfl
    · exact wrap_frag _ _ (toks_frag b hw.2) t ht
  | .prodN p k, hw, t, ht => by
    simp only [E.wf, Bool.and_eq_true] at hw
    simp only [E.toks, List.mem_append, List.mem_cons] at ht
    rcases ht with ht | rfl | ht
    · exact toks_frag p hw.1.2 t ht
    · rfl
    · exact wrap_frag _ _ (toks_frag k hw.2) t ht
  | .pred op l r, hw, t, ht => by
    simp only [E.wf, Bool.and_eq_true] at hw
    simp only [E.toks, List.mem_append, List.mem_cons] at ht
    rcases ht with ht | rfl | ht
    · exact toks_frag l hw.1.2 t ht
    · simp [fragTok, tk, hw.1.1.1.1]
    · exact toks_frag r hw.2 t ht
  | .neg x, hw, t, ht => by
    simp only [E.wf, Bool.and_eq_true] at hw
    simp only [E.toks, List.mem_cons] at ht
    rcases ht with rfl | ht
    · rfl
    · exact wrap_frag _ _ (toks_frag x hw.2) t ht
  | .lbin op l r, hw, t, ht => by
    simp only [E.wf, Bool.and_eq_true] at hw
    simp only [E.toks, List.mem_append, List.mem_cons] at ht
    rcases ht with ht | rfl | ht
    · exact wrap_frag _ _ (toks_frag l hw.1.2) t ht
    · simp [fragTok, tk, hw.1.1.1.1]
    · exact wrap_frag _ _ (toks_frag r hw.2) t ht

theorem wrap_length (b : Bool) (ts : Toks) : ts.length ≤ (wrap b ts).length := by
  unfold wrap; split <;> simp <;> omega

theorem sz_le_toks : ∀ e : E, e.sz ≤ 16 * e.toks.length ∧ 1 ≤ e.toks.length
  | .atom .. => by simp [E.sz, E.toks]
  | .text _ _ a => by have := sz_le_toks a; simp [E.sz, E.toks]; omega
  | .sbin op l r => by
    have := sz_le_toks l; have := sz_le_toks r
    have := wrap_length (brSet op l.top .left) l.toks; have := wrap_length (brSet op r.top .right) r.toks
    simp only [E.sz, E.toks, List.length_append, List.length_cons]; omega
  | .prod2 a b => by
    have := sz_le_toks a; have := sz_le_toks b
    have := wrap_length (brProd true a.top) a.toks; have := wrap_length (brProd false b.top) b.toks
    simp only [E.sz, E.toks, List.length_append, List.length_cons]; omega
  | .prodN p k => by
    have := sz_le_toks p; have := sz_le_toks k
    have := wrap_length (brProd false k.top) k.toks
    simp only [E.sz, E.toks, List.length_append, List.length_cons]; omega
  | .pred _ l r => by
    have := sz_le_toks l; have := sz_le_toks r
    simp only [E.sz, E.toks, List.length_append, List.length_cons]; omega
  | .neg x => by
    have := sz_le_toks x; have := wrap_length (brNot x.top) x.toks
    simp only [E.sz, E.toks, List.length_cons]; omega
  | .lbin op l r => by
    have := sz_le_toks l; have := sz_le_toks r
    have := wrap_length (brLogic op l.top .left) l.toks; have := wrap_length (brLogic op r.top .right) r.toks
    simp only [E.sz, E.toks, List.length_append, List.length_cons]; omega

/-- the whole phrase at the top of `logic_or_setexpr` -/
theorem logE_top (e : E) (hw : e.wf = true) (hok : e.ok = true) (F : Nat) (hF : 2 * e.sz + 4 ≤ F) :
    logE F 0 e.toks = some (e.kind, e.raw, []) ∧ (e.kind.isLogic || e.kind.isSet) = true := by
  have hnil : e.toks = e.toks ++ [] := by simp
  cases hS : e.isS with
  | true =>
    have c := setCont e hS hw hok
    obtain ⟨g, hg⟩ : ∃ g, F = g + 1 + 1 := ⟨F - 2, by omega⟩
    subst hg
    have h1 := setDone c g 0 [] (by omega) (Nat.zero_le _) (fun t r e => by cases e)
    refine ⟨?_, by rw [kind_isSet hS]; simp⟩
    rw [hnil, logE_succ, predE_pass_nil g _ _ _ h1]
    exact logLoop_nil g 0 _ _
  | false =>
    obtain ⟨c, _⟩ := logCont e hS hw hok
    refine ⟨?_, ?_⟩
    · rw [hnil]
      exact logDone c F 0 [] (by omega) (Nat.zero_le _) (fun t r e => by cases e) (fun t r e => by cases e)
    · cases e <;> simp [E.isS] at hS <;> rfl

/-- token kinds of the nodes of a fragment tree -/
def nodeTok (t : Tok) : Bool :=
  isAtomId t || isTextFn t || isSetOp7 t || t == .DECART || isPredOp t || isLogicOp t || t == .NOT

theorem nodeTok_facts (t : Tok) (h : nodeTok t = true) :
    (t == .PUNC_PL) = false ∧ (t == .ASSIGN || t == .ITERATE) = false := by
  cases t <;> first | exact ⟨rfl, rfl⟩ | (revert h; decide)

theorem top_nodeTok : ∀ e : E, e.wf = true → nodeTok e.top = true
  | .atom id d, hw => by simp only [E.wf] at hw; simp [nodeTok, E.top, hw]
  | .text f d a, hw => by simp only [E.wf, Bool.and_eq_true] at hw; simp [nodeTok, E.top, hw.1.1]
  | .sbin op l r, hw => by simp only [E.wf, Bool.and_eq_true] at hw; simp [nodeTok, E.top, hw.1.1.1.1]
  | .prod2 .., _ => rfl
  | .prodN .., _ => rfl
  | .pred op l r, hw => by simp only [E.wf, Bool.and_eq_true] at hw; simp [nodeTok, E.top, hw.1.1.1.1]
  | .neg x, _ => rfl
  | .lbin op l r, hw => by simp only [E.wf, Bool.and_eq_true] at hw; simp [nodeTok, E.top, hw.1.1.1.1]

theorem semantic_node (id : Tok) (d : TokData) (kids : List Ast) (p : Option Tok) (h : nodeTok id = true)
    (hk : semanticCheckList (some id) kids = true) : semanticCheck p (.node id d 0 0 kids) = true := by
  rw [semanticCheck]; simp [(nodeTok_facts id h).2, hk]

theorem semantic_wrap (b : Bool) (x : Ast) (h : ∀ p, semanticCheck p x = true) (p : Option Tok) :
    semanticCheck p (wrapRaw b x) = true := by
  cases b
  · exact h p
  · show semanticCheck p (.node .PUNC_PL .none 0 0 [x]) = true
    rw [semanticCheck, semanticCheckList, semanticCheckList, h]
    rfl

theorem semanticCheckList_append (q : Option Tok) : ∀ xs ys : List Ast,
    semanticCheckList q (xs ++ ys) = (semanticCheckList q xs && semanticCheckList q ys)
  | [], ys => by rw [semanticCheckList]; rfl
  | x :: xs, ys => by
    rw [List.cons_append, semanticCheckList, semanticCheckList, semanticCheckList_append q xs ys, Bool.and_assoc]

theorem semantic_kids (d : TokData) (kids : List Ast) (p : Option Tok)
    (h : semanticCheck p (.node .DECART d 0 0 kids) = true) : semanticCheckList (some .DECART) kids = true := by
  rw [semanticCheck] at h
  simp only [Bool.and_eq_true] at h
  exact h.2

theorem semantic_raw : ∀ (e : E), e.wf = true → ∀ p : Option Tok, semanticCheck p e.raw = true
  | .atom id d, hw, p => by
    refine semantic_node id d [] p (top_nodeTok _ hw) ?_
    rw [semanticCheckList]
  | .text f d a, hw, p => by
    have hn := top_nodeTok _ hw
    simp only [E.wf, Bool.and_eq_true] at hw
    refine semantic_node f d [a.raw] p hn ?_
    rw [semanticCheckList, semanticCheckList, semantic_raw a hw.2]; rfl
  | .sbin op l r, hw, p => by
    have hn := top_nodeTok _ hw
    simp only [E.wf, Bool.and_eq_true] at hw
    refine semantic_node op .none _ p hn ?_
    rw [semanticCheckList, semanticCheckList, semanticCheckList,
      semantic_wrap _ _ (semantic_raw l hw.1.2), semantic_wrap _ _ (semantic_raw r hw.2)]; rfl
  | .prod2 a b, hw, p => by
    have hn := top_nodeTok _ hw
    simp only [E.wf, Bool.and_eq_true] at hw
    refine semantic_node .DECART .none _ p hn ?_
    rw [semanticCheckList, semanticCheckList, semanticCheckList,
      semantic_wrap _ _ (semantic_raw a hw.1.2), semantic_wrap _ _ (semantic_raw b hw.2)]; rfl
  | .prodN q k, hw, p => by
    have hn := top_nodeTok _ hw
    simp only [E.wf, Bool.and_eq_true] at hw
    refine semantic_node .DECART .none _ p hn ?_
    have hq := semantic_raw q hw.1.2 none
    rw [raw_prod hw.1.1.1] at hq
    rw [semanticCheckList_append, semantic_kids _ _ _ hq, semanticCheckList, semanticCheckList,
      semantic_wrap _ _ (semantic_raw k hw.2)]; rfl
  | .pred op l r, hw, p => by
    have hn := top_nodeTok _ hw
    simp only [E.wf, Bool.and_eq_true] at hw
    refine semantic_node op .none _ p hn ?_
    rw [semanticCheckList, semanticCheckList, semanticCheckList, semantic_raw l hw.1.2, semantic_raw r hw.2]; rfl
  | .neg x, hw, p => by
    have hn := top_nodeTok _ hw
    simp only [E.wf, Bool.and_eq_true] at hw
    refine semantic_node .NOT .none _ p hn ?_
    rw [semanticCheckList, semanticCheckList, semantic_wrap _ _ (semantic_raw x hw.2)]; rfl
  | .lbin op l r, hw, p => by
    have hn := top_nodeTok _ hw
    simp only [E.wf, Bool.and_eq_true] at hw
    refine semantic_node op .none _ p hn ?_
    rw [semanticCheckList, semanticCheckList, semanticCheckList,
      semantic_wrap _ _ (semantic_raw l hw.1.2), semantic_wrap _ _ (semantic_raw r hw.2)]; rfl

theorem strip_node (id : Tok) (d : TokData) (kids kids' : List Ast) (h : nodeTok id = true)
    (hk : stripBracketsList kids = some kids') : stripBrackets (.node id d 0 0 kids) = some (.node id d 0 0 kids') := by
  rw [stripBrackets.eq_def]; simp [(nodeTok_facts id h).1, hk]

theorem strip_wrap (b : Bool) (x y : Ast) (h : stripBrackets x = some y) : stripBrackets (wrapRaw b x) = some y := by
  cases b
  · exact h
  · show stripBrackets (.node .PUNC_PL .none 0 0 [x]) = some y
    have e1 : (Tok.PUNC_PL == Tok.PUNC_PL) = true := rfl
    rw [stripBrackets]; simpa [e1] using h

theorem stripList_snoc : ∀ (xs ys : List Ast) (w z : Ast), stripBracketsList xs = some ys → stripBrackets w = some z →
    stripBracketsList (xs ++ [w]) = some (ys ++ [z])
  | [], ys, w, z, h, hw => by
    rw [stripBracketsList] at h; cases h
    rw [List.nil_append, stripBracketsList, stripBracketsList, hw]; rfl
  | x :: xs, ys, w, z, h, hw => by
    rw [stripBracketsList] at h
    cases hx : stripBrackets x with
    | none => rw [hx] at h; cases h
    | some x' =>
      cases hxs : stripBracketsList xs with
      | none => rw [hx, hxs] at h; cases h
      | some xs' =>
        rw [hx, hxs] at h; cases h
        rw [List.cons_append, stripBracketsList, hx, stripList_snoc xs xs' w z hxs hw]; rfl

theorem strip_kids (d : TokData) (kids kids' : List Ast)
    (h : stripBrackets (.node .DECART d 0 0 kids) = some (.node .DECART d 0 0 kids')) :
    stripBracketsList kids = some kids' := by
  rw [stripBrackets.eq_def] at h
  have e1 : (Tok.DECART == Tok.PUNC_PL) = false := rfl
  simp only [e1, Bool.false_eq_true, if_false] at h
  cases hk : stripBracketsList kids with
  | none => rw [hk] at h; cases h
  | some ks => rw [hk] at h; simp at h; rw [h]

theorem strip_raw : ∀ e : E, e.wf = true → stripBrackets e.raw = some e.ast
  | .atom id d, hw => strip_node id d [] [] (top_nodeTok _ hw) (by rw [stripBracketsList])
  | .text f d a, hw => by
    have hn := top_nodeTok _ hw
    simp only [E.wf, Bool.and_eq_true] at hw
    refine strip_node f d [a.raw] [a.ast] hn ?_
    rw [stripBracketsList, stripBracketsList, strip_raw a hw.2]
  | .sbin op l r, hw => by
    have hn := top_nodeTok _ hw
    simp only [E.wf, Bool.and_eq_true] at hw
    refine strip_node op .none _ [l.ast, r.ast] hn ?_
    rw [stripBracketsList, stripBracketsList, stripBracketsList,
      strip_wrap _ _ _ (strip_raw l hw.1.2), strip_wrap _ _ _ (strip_raw r hw.2)]
  | .prod2 a b, hw => by
    have hn := top_nodeTok _ hw
    simp only [E.wf, Bool.and_eq_true] at hw
    refine strip_node .DECART .none _ [a.ast, b.ast] hn ?_
    rw [stripBracketsList, stripBracketsList, stripBracketsList,
      strip_wrap _ _ _ (strip_raw a hw.1.2), strip_wrap _ _ _ (strip_raw b hw.2)]
  | .prodN q k, hw => by
    have hn := top_nodeTok _ hw
    simp only [E.wf, Bool.and_eq_true] at hw
    refine strip_node .DECART .none _ (q.ast.kids ++ [k.ast]) hn ?_
    have hq := strip_raw q hw.1.2
    rw [raw_prod hw.1.1.1, ast_prod hw.1.1.1] at hq
    exact stripList_snoc _ _ _ _ (strip_kids _ _ _ hq) (strip_wrap _ _ _ (strip_raw k hw.2))
  | .pred op l r, hw => by
    have hn := top_nodeTok _ hw
    simp only [E.wf, Bool.and_eq_true] at hw
    refine strip_node op .none _ [l.ast, r.ast] hn ?_
    rw [stripBracketsList, stripBracketsList, stripBracketsList, strip_raw l hw.1.2, strip_raw r hw.2]
  | .neg x, hw => by
    have hn := top_nodeTok _ hw
    simp only [E.wf, Bool.and_eq_true] at hw
    refine strip_node .NOT .none _ [x.ast] hn ?_
    rw [stripBracketsList, stripBracketsList, strip_wrap _ _ _ (strip_raw x hw.2)]
  | .lbin op l r, hw => by
    have hn := top_nodeTok _ hw
    simp only [E.wf, Bool.and_eq_true] at hw
    refine strip_node op .none _ [l.ast, r.ast] hn ?_
    rw [stripBracketsList, stripBracketsList, stripBracketsList,
      strip_wrap _ _ _ (strip_raw l hw.1.2), strip_wrap _ _ _ (strip_raw r hw.2)]

theorem takeWhile_snoc {α : Type} (p : α → Bool) (x : α) : ∀ l : List α, (∀ t ∈ l, p t = true) → p x = false →
    (l ++ [x]).takeWhile p = l
  | [], _, hx => by simp [List.takeWhile, hx]
  | a :: l, h, hx => by
    have ha := h a (by simp)
    simp only [List.cons_append, List.takeWhile_cons, ha, if_true]
    rw [takeWhile_snoc p x l (fun t ht => h t (List.mem_cons_of_mem _ ht)) hx]

theorem expression_frag (f : Nat) (toks : Toks) (h : ∀ t ∈ toks, fragTok t.id = true) :
    expression f toks = (match noDeclaration f toks with | some (e, []) => some e | _ => none) := by
  unfold expression
  cases toks with
  | nil => rfl
  | cons g r =>
    cases r with
    | nil => rfl
    | cons m rest =>
      have hm := (fragTok_facts m.id (h m (by simp))).2.2.1
      simp only [hm, Bool.and_false, Bool.false_eq_true, if_false]
      rfl

theorem noDeclaration_frag (f : Nat) (t : LTok) (toks : Toks) (h : fragTok t.id = true) :
    noDeclaration f (t :: toks) = logicOrSet f (t :: toks) := by
  unfold noDeclaration
  simp only [(fragTok_facts t.id h).2.2.2.1, Bool.false_eq_true, if_false]

/-- **the parser gives back the tree**: for every well-formed phrase of the fragment whose bracket
decisions satisfy the grammar's needs (`E.ok`), parsing its printed token sequence returns it -/
theorem parseToks_toks (e : E) (hw : e.wf = true) (hok : e.ok = true) :
    parseToks (e.toks ++ [tk .END]) = some e.ast := by
  have hfrag := toks_frag e hw
  have hbody : (e.toks ++ [tk .END]).takeWhile (fun t => t.id != .END && t.id != .INTERRUPT) = e.toks :=
    takeWhile_snoc _ _ _ (fun t ht => (fragTok_facts t.id (hfrag t ht)).1) rfl
  have hany : (e.toks ++ [tk .END]).any (fun t => t.id == .INTERRUPT) = false := by
    rw [List.any_append]
    have : e.toks.any (fun t => t.id == .INTERRUPT) = false := by
      rw [List.any_eq_false]
      intro t ht
      simp [(fragTok_facts t.id (hfrag t ht)).2.1]
    rw [this]; rfl
  have hsz := sz_le_toks e
  have hlog := logE_top e hw hok (fuelFor e.toks.length) (by unfold fuelFor; omega)
  unfold parseToks
  simp only [hbody, hany, Bool.false_eq_true, if_false]
  rw [expression_frag _ _ hfrag]
  obtain ⟨t, ts, hts⟩ : ∃ t ts, e.toks = t :: ts := by
    cases hc : e.toks with
    | nil => rw [hc] at hsz; simp at hsz
    | cons t ts => exact ⟨t, ts, rfl⟩
  have hnd : noDeclaration (fuelFor e.toks.length) e.toks = some (e.raw, []) := by
    rw [hts, noDeclaration_frag _ t ts (hfrag t (by rw [hts]; simp)), ← hts]
    unfold logicOrSet
    rw [hlog.1]
    simp only [hlog.2, if_true]
  rw [hnd]
  simp only [semantic_raw e hw none, if_true]
  exact strip_raw e hw

/-! ## the printer's brackets suffice at every node of a fragment tree -/

def set7L : List Tok := [.PLUS, .MINUS, .MULTIPLY, .UNION, .INTERSECTION, .SET_MINUS, .SYMMINUS]
def set8L : List Tok := set7L ++ [.DECART]
def logic4L : List Tok := [.EQUIVALENT, .IMPLICATION, .OR, .AND]
def leafL : List Tok := [.ID_LOCAL, .ID_GLOBAL, .ID_RADICAL, .LIT_INTEGER, .LIT_INTSET, .LIT_EMPTYSET,
  .BOOL, .DEBOOL, .REDUCE, .CARD, .BIGPR, .SMALLPR]
def sides : List Side := [.left, .right]

/-- read off the generated `CompareOperations` tables and `%left` lines (re-proved on every run):
every operand that the grammar would attach differently is bracketed — under `+ - * ∪ ∩ \ ∆` and as a
factor of `×`; leaves and text operators never are; `¬` brackets every connective and nothing else -/
theorem bracket_tables :
    (∀ p ∈ set7L, ∀ c ∈ set8L, ∀ s ∈ sides, (brSet p c s || condOK p c s) = true) ∧
    (∀ p ∈ set7L, ∀ c ∈ leafL, ∀ s ∈ sides, brSet p c s = false) ∧
    (∀ c ∈ set7L, (brProd true c || condOK .DECART c .left) = true ∧ (brProd false c || condOK .DECART c .right) = true) ∧
    (∀ c ∈ leafL, brProd true c = false ∧ brProd false c = false) ∧
    (∀ p ∈ logic4L, ∀ c ∈ logic4L, ∀ s ∈ sides, (brLogic p c s || condOK p c s) = true) ∧
    (∀ p ∈ logic4L, ∀ s ∈ sides, brLogic p .NOT s = false) ∧
    (∀ c ∈ logic4L, brNot c = true) ∧ brNot .NOT = false := by
  decide +kernel

theorem mem_set7L (t : Tok) (h : isSetOp7 t = true) : t ∈ set7L := by
  cases t <;> first | (simp [set7L]; done) | (exact absurd h (by decide))
theorem set7_ne_decart (t : Tok) (h : isSetOp7 t = true) : (t != .DECART) = true := by
  cases t <;> first | rfl | (exact absurd h (by decide))
theorem mem_set8L (t : Tok) (h : t ∈ set7L) : t ∈ set8L := List.mem_append_left _ h
theorem mem_logic4L (t : Tok) (h : isLogicOp t = true) : t ∈ logic4L := by
  cases t <;> first | (simp [logic4L]; done) | (exact absurd h (by decide))
theorem mem_leafL (t : Tok) (h : (isAtomId t || isTextFn t) = true) : t ∈ leafL := by
  cases t <;> first | (simp [leafL]; done) | (exact absurd h (by decide))
theorem mem_sides (s : Side) : s ∈ sides := by cases s <;> simp [sides]

theorem okChildS_of_wf (p : Tok) (c : E) (s : Side) (hp : isSetOp7 p = true) (hS : c.isS = true) (hw : c.wf = true) :
    okChildS p c s = true := by
  have hd : Tok.DECART ∈ set8L := by simp [set8L]
  cases c with
  | sbin cop a b =>
    simp only [E.wf, Bool.and_eq_true] at hw
    exact bracket_tables.1 p (mem_set7L p hp) cop (mem_set8L _ (mem_set7L cop hw.1.1.1.1)) s (mem_sides s)
  | prod2 a b => exact bracket_tables.1 p (mem_set7L p hp) .DECART hd s (mem_sides s)
  | prodN q k => exact bracket_tables.1 p (mem_set7L p hp) .DECART hd s (mem_sides s)
  | atom id d =>
    simp only [E.wf] at hw
    have := bracket_tables.2.1 p (mem_set7L p hp) id (mem_leafL id (by simp [hw])) s (mem_sides s)
    simp only [okChildS, E.binTop?, E.top, this]; rfl
  | text f d a =>
    simp only [E.wf, Bool.and_eq_true] at hw
    have := bracket_tables.2.1 p (mem_set7L p hp) f (mem_leafL f (by simp [hw.1.1])) s (mem_sides s)
    simp only [okChildS, E.binTop?, E.top, this]; rfl
  | _ => simp [E.isS] at hS

theorem okFactor_of_wf (first : Bool) (c : E) (hS : c.isS = true) (hw : c.wf = true) : okFactor first c = true := by
  cases c with
  | sbin cop a b =>
    simp only [E.wf, Bool.and_eq_true] at hw
    have ht := bracket_tables.2.2.1 cop (mem_set7L cop hw.1.1.1.1)
    have hne := set7_ne_decart cop hw.1.1.1.1
    cases first
    · have := ht.2
      simp only [okFactor, E.binTop?, hne, Bool.true_and, Bool.false_eq_true, if_false]; exact this
    · have := ht.1
      simp only [okFactor, E.binTop?, hne, Bool.true_and, if_true]; exact this
  | prod2 a b => simp only [okFactor, E.binTop?, brProd_decart, Bool.true_or]
  | prodN q k => simp only [okFactor, E.binTop?, brProd_decart, Bool.true_or]
  | atom id d =>
    simp only [E.wf] at hw
    have := bracket_tables.2.2.2.1 id (mem_leafL id (by simp [hw]))
    cases first <;> simp only [okFactor, E.binTop?, E.top, this.1, this.2] <;> rfl
  | text f d a =>
    simp only [E.wf, Bool.and_eq_true] at hw
    have := bracket_tables.2.2.2.1 f (mem_leafL f (by simp [hw.1.1]))
    cases first <;> simp only [okFactor, E.binTop?, E.top, this.1, this.2] <;> rfl
  | _ => simp [E.isS] at hS

theorem okChildL_of_wf (p : Tok) (c : E) (s : Side) (hp : isLogicOp p = true) (hS : c.isS = false) (hw : c.wf = true) :
    okChildL p c s = true := by
  cases c with
  | lbin cop a b =>
    simp only [E.wf, Bool.and_eq_true] at hw
    exact bracket_tables.2.2.2.2.1 p (mem_logic4L p hp) cop (mem_logic4L cop hw.1.1.1.1) s (mem_sides s)
  | pred => rfl
  | neg x =>
    have := bracket_tables.2.2.2.2.2.1 p (mem_logic4L p hp) s (mem_sides s)
    simp only [okChildL, E.top, this]; rfl
  | _ => simp [E.isS] at hS

theorem okNot_of_wf (c : E) (hS : c.isS = false) (hw : c.wf = true) : okNot c = true := by
  cases c with
  | lbin cop a b =>
    simp only [E.wf, Bool.and_eq_true] at hw
    exact bracket_tables.2.2.2.2.2.2.1 cop (mem_logic4L cop hw.1.1.1.1)
  | pred => rfl
  | neg x => simp only [okNot, E.top, bracket_tables.2.2.2.2.2.2.2]; rfl
  | _ => simp [E.isS] at hS

theorem isS_of_isProd {p : E} (h : p.isProd = true) : p.isS = true := by
  cases p <;> simp [E.isProd] at h <;> rfl

/-- **the bracket hypothesis holds for every tree of the fragment** (with the current tables) -/
theorem ok_of_wf : ∀ e : E, e.wf = true → e.ok = true
  | .atom .., _ => rfl
  | .text f d a, hw => by
    simp only [E.wf, Bool.and_eq_true] at hw
    simpa [E.ok] using ok_of_wf a hw.2
  | .sbin op l r, hw => by
    simp only [E.wf, Bool.and_eq_true] at hw
    obtain ⟨⟨⟨⟨hop, hlS⟩, hrS⟩, hlw⟩, hrw⟩ := hw
    simp [E.ok, okChildS_of_wf op l .left hop hlS hlw, okChildS_of_wf op r .right hop hrS hrw,
      ok_of_wf l hlw, ok_of_wf r hrw]
  | .prod2 a b, hw => by
    simp only [E.wf, Bool.and_eq_true] at hw
    obtain ⟨⟨⟨haS, hbS⟩, haw⟩, hbw⟩ := hw
    simp [E.ok, okFactor_of_wf true a haS haw, okFactor_of_wf false b hbS hbw, ok_of_wf a haw, ok_of_wf b hbw]
  | .prodN p k, hw => by
    simp only [E.wf, Bool.and_eq_true] at hw
    obtain ⟨⟨⟨_, hkS⟩, hpw⟩, hkw⟩ := hw
    simp [E.ok, okFactor_of_wf false k hkS hkw, ok_of_wf p hpw, ok_of_wf k hkw]
  | .pred op l r, hw => by
    simp only [E.wf, Bool.and_eq_true] at hw
    simp [E.ok, ok_of_wf l hw.1.2, ok_of_wf r hw.2]
  | .neg x, hw => by
    simp only [E.wf, Bool.and_eq_true, Bool.not_eq_true'] at hw
    simp [E.ok, okNot_of_wf x hw.1 hw.2, ok_of_wf x hw.2]
  | .lbin op l r, hw => by
    simp only [E.wf, Bool.and_eq_true, Bool.not_eq_true'] at hw
    obtain ⟨⟨⟨⟨hop, hlS⟩, hrS⟩, hlw⟩, hrw⟩ := hw
    simp [E.ok, okChildL_of_wf op l .left hop hlS hlw, okChildL_of_wf op r .right hop hrS hrw,
      ok_of_wf l hlw, ok_of_wf r hrw]

/-- **the parser gives back the tree**, for every well-formed phrase of the fragment -/
theorem parseToks_toks_wf (e : E) (hw : e.wf = true) : parseToks (e.toks ++ [tk .END]) = some e.ast :=
  parseToks_toks e hw (ok_of_wf e hw)

end CCVerif.PP
