import CCVerif.Lemmas.EvalNestedTy
import CCVerif.Lemmas.EvalEnum
import CCVerif.Lemmas.EvalUnfold4
/-! Stage 10, reference side (helpers): tuple patterns in the blocks of `I{}`, in the variable position of `R{}` and
inside enumerated declarations.

`Normalizer::ProcessTupleDeclaration` replaces a pattern - wherever it stands: binder of `∀ ∃ D{}`, variable of `R{}`,
left side of an `:∈` / `:=` block of `I{}`, member of an enumerated declaration - by ONE generated local and every leaf
in the scope by a chain of projections of that local.  The result has PLAIN variables only; it is an expression of
stages 4 / 5 / 8 (for which the simulation of the evaluator - `recLoop`, `impLoop`, nested quantifiers - is proved) and
the normaliser is the identity on it.  What is left is a statement about the reference semantics alone:

  the value of the expression with the pattern replaced by a plain variable `w` and the leaves by `pr…(w)`
  is the value of the expression with the pattern (bound by recursive projection, `bindPat`).

This file has the declaration-level facts (`bind_relW`) and the loop-level facts (`recSem_mono`, `quantSem_rel`,
`impList_rel`: the pattern case of the loops of stage 4 / 5 on the reference side); `EvalBlocksPatSound.lean` has the
relation `PE` and its soundness. -/
namespace CCVerif.Eval
open CCVerif.Syntax CCVerif.Spec CCVerif.Norm
open Val Ty

/-! ## one declaration -/

/-- what the leaves of the declaration `p` stand for when `p` is realised by the plain variable `w` -/
def leafDelta (p : Ast) (w : String) : NCtx := (patLeaves p).map fun en => (en.1, (w, en.2))

/-- `w` is not the carrier of a source variable that is still visible under the leaves of `p` -/
def FreshFor (Δ : NCtx) (p : Ast) (w : String) : Prop :=
  ∀ x r, lookup x Δ = some r → lookup x (patLeaves p) = none → r.1 ≠ w

/-- the declaration `p` (a plain variable or a tuple pattern of any depth) fits the type `τ`, its leaves are distinct,
and `w` may carry it -/
structure DeclOK (Δ : NCtx) (p : Ast) (w : String) (τ : Ty) : Prop where
  ok : patOK p τ = true
  nd : ((patLeaves p).map (·.1)).Nodup
  fresh : FreshFor Δ p w

theorem patOK_notEnum {p : Ast} {τ : Ty} (h : patOK p τ = true) : (p.id == Tok.NT_ENUM_DECL) = false := by
  cases p with
  | node tk d lo hi ks =>
    unfold patOK at h
    simp only [Ast.id]
    by_cases h1 : (tk == Tok.ID_LOCAL) = true
    · have : tk = Tok.ID_LOCAL := by simpa [tok_beq] using h1
      subst this; decide
    · simp only [h1, Bool.false_eq_true, if_false] at h
      by_cases h2 : (tk == Tok.NT_TUPLE_DECL) = true
      · have : tk = Tok.NT_TUPLE_DECL := by simpa [tok_beq] using h2
        subst this; decide
      · simp [h2] at h

/-- **binding through the pattern and through the plain variable that carries it** on a value of the type of the
pattern: the source binding is defined and the environments agree along the extended context -/
theorem bind_relW {Γ : TCtx} {Δ : NCtx} {ρ ρs : LEnv} (hr : URel Δ ρ ρs) (he : EnvTy Γ ρs) {p : Ast} {w : String} {τ : Ty}
    (hd : DeclOK Δ p w τ) (v : Val) (hv : hasTy v τ = true) :
    ∃ ρ', bindPat p v ρ = some ρ' ∧ URel (leafDelta p w ++ Δ) ρ' (.val w v ρs) ∧ EnvTy ((w, τ) :: Γ) (.val w v ρs) := by
  refine ⟨_, bindPat_leaves p τ v ρ hd.ok hv, ?_, he.bind1 w v τ hv⟩
  intro x q path hl
  rw [lookup_append] at hl
  unfold leafDelta at hl
  rw [lookup_map_snd (fun pth => (w, pth)) x (patLeaves p)] at hl
  cases h0 : lookup x (patLeaves p) with
  | some pth =>
    rw [h0] at hl
    simp only [Option.map_some, Option.some.injEq, Prod.mk.injEq] at hl
    obtain ⟨rfl, rfl⟩ := hl
    obtain ⟨u, hu⟩ := projPath_defined p τ v hd.ok hv _ (lookup_mem h0)
    refine ⟨u, v, ?_, find_val_self _ _ _, hu⟩
    rw [find_bindLeaves _ _ _ _ hd.nd, h0]; simp [hu]
  | none =>
    rw [h0] at hl
    simp only [Option.map_none] at hl
    obtain ⟨v0, w0, b1, b2, b3⟩ := hr x q path hl
    have hne : q ≠ w := hd.fresh x _ hl h0
    refine ⟨v0, w0, ?_, ?_, b3⟩
    · rw [find_bindLeaves _ _ _ _ hd.nd, h0]; exact b1
    · rw [find_val_ne _ _ hne]; exact b2

/-- the reference value of an expression has the type `τ` (side condition of `R{}` / `:=` with a pattern: binding
through a pattern is defined on values of the shape of the pattern only) -/
def ValTy (S : SEnv) (Γ : TCtx) (a : Ast) (τ : Ty) : Prop :=
  ∀ f ρs v, EnvTy Γ ρs → denote S f ρs a = some (.val v) → hasTy v τ = true

theorem DT.valTy {S : SEnv} {Γ : TCtx} {a : Ast} {τ : Ty} (h : DT S Γ a τ) : ValTy S Γ a τ :=
  fun f ρs v he hd => h.sound f ρs v he hd

/-- integer arithmetic has an integer value -/
theorem ValTy.arith {S : SEnv} {Γ : TCtx} {t : Tok} (ht : isArith t) (a b : Ast) (d : TokData) (lo hi : Int) (nm : String) :
    ValTy S Γ (.node t d lo hi [a, b]) (.base nm) := by
  intro f ρs v _ hv
  cases f with
  | zero => rw [denote_zero] at hv; cases hv
  | succ f =>
    rw [denote_arith ht] at hv
    cases h1 : dInt (denote S f ρs a) with
    | none => simp [h1] at hv
    | some x =>
      cases h2 : dInt (denote S f ρs b) with
      | none => simp [h1, h2] at hv
      | some y =>
        simp only [h1, h2, Option.bind_some, Option.map_some, Option.some.injEq, SemVal.val.injEq] at hv
        subst hv; simp [hasTy]

/-- a tuple of typed components -/
theorem ValTy.tuple {S : SEnv} {Γ : TCtx} (d : TokData) (lo hi : Int) (ks : List Ast) (ts : List Ty) (hlen : ks.length = ts.length)
    (h : ∀ q ∈ ks.zip ts, ValTy S Γ q.1 q.2) : ValTy S Γ (.node .NT_TUPLE d lo hi ks) (.tuple ts) := by
  intro f ρ v he hv
  cases f with
  | zero => rw [denote_zero] at hv; cases hv
  | succ f =>
    rw [denote_tuple] at hv
    cases hm : ks.mapM (fun k => dVal (denote S f ρ k)) with
    | none => rw [hm] at hv; simp at hv
    | some vs =>
      rw [hm] at hv
      have hvs : v = .t vs := by
        rcases vs with _ | ⟨c, _ | ⟨d', r⟩⟩ <;> simp at hv
        exact hv.symm
      subst hvs
      have hf2 := mapM_forall₂ _ _ _ hm
      show hasTyList vs ts = true
      exact hasTyList_of_forall₂ (forall₂_of_zip _ _ ks ts vs hlen hf2
        (fun q hq w hw => h q hq f ρ w he (dVal_some hw)))

/-! ## `denote` at binders over an arbitrary declaration -/

/-- continue in the environment after binding the declaration `p` to `v` -/
def bindK {β} (p : Ast) (ρ : LEnv) (k : LEnv → Option β) (v : Val) : Option β :=
  match bindPat p v ρ with
  | none => none
  | some ρ' => k ρ'

theorem denote_quantP {t : Tok} (ht : isQuant t) (env : SEnv) (fuel : Nat) (ρ : LEnv) (p dom body : Ast) (d : TokData)
    (lo hi : Int) (hp : (p.id == Tok.NT_ENUM_DECL) = false) :
    denote env (fuel + 1) ρ (.node t d lo hi [p, dom, body]) =
      match dSet (denote env fuel ρ dom) with
      | none => none
      | some vs =>
        (let rs := vs.map (bindK p ρ fun ρ' => dBool (denote env fuel ρ' body))
         if t == .FORALL then kAll rs else kAny rs).map SemVal.bool := by
  cases p with
  | node pt pd plo phi pks =>
    simp only [Ast.id] at hp
    rcases ht with rfl | rfl <;>
    · simp only [denote, Ast.id, Ast.kids, List.getElem?_cons_zero, List.getElem?_cons_succ, Option.getD_some]
      simp only [hp, Bool.false_eq_true, if_false, quantSem]
      rfl

theorem denote_declP (env : SEnv) (fuel : Nat) (ρ : LEnv) (p dom body : Ast) (d : TokData) (lo hi : Int) :
    denote env (fuel + 1) ρ (.node .NT_DECLARATIVE_EXPR d lo hi [p, dom, body]) =
      match dSet (denote env fuel ρ dom) with
      | none => none
      | some vs =>
        ((vs.mapM fun v => bindK p ρ (fun ρ' => (dBool (denote env fuel ρ' body)).map fun b => (v, b)) v).map keep).map
          SemVal.val := by
  simp only [denote, Ast.id, Ast.kids, List.getElem?_cons_zero, List.getElem?_cons_succ, Option.getD_some]
  rfl

theorem denote_recShortP (env : SEnv) (fuel : Nat) (ρ : LEnv) (p init body : Ast) (d : TokData) (lo hi : Int) :
    denote env (fuel + 1) ρ (.node .NT_RECURSIVE_SHORT d lo hi [p, init, body]) =
      match dVal (denote env fuel ρ init) with
      | none => none
      | some i =>
        (recSem (fun _ => some true) (fun cur => (bindPat p cur ρ).bind fun ρ' => dVal (denote env fuel ρ' body))
          REC_BOUND i).map SemVal.val := by
  simp only [denote, Ast.id, Ast.kids, List.getElem?_cons_zero, List.getElem?_cons_succ, Option.getD_some]
  rfl

theorem denote_recFullP (env : SEnv) (fuel : Nat) (ρ : LEnv) (p init cond body : Ast) (d : TokData) (lo hi : Int) :
    denote env (fuel + 1) ρ (.node .NT_RECURSIVE_FULL d lo hi [p, init, cond, body]) =
      match dVal (denote env fuel ρ init) with
      | none => none
      | some i =>
        (recSem (fun cur => (bindPat p cur ρ).bind fun ρ' => dBool (denote env fuel ρ' cond))
          (fun cur => (bindPat p cur ρ).bind fun ρ' => dVal (denote env fuel ρ' body)) REC_BOUND i).map SemVal.val := by
  simp only [denote, Ast.id, Ast.kids, List.getElem?_cons_zero, List.getElem?_cons_succ, Option.getD_some]
  rfl

/-! ## the loops -/

/-- the iteration of `R{}`: pointwise refinement of condition and step on the values of the type of the variable, the
step preserving the type -/
theorem recSem_mono (τ : Ty) (cs ce : Val → Option Bool) (bs be : Val → Option Val)
    (hc : ∀ cur, hasTy cur τ = true → OLe (cs cur) (ce cur))
    (hb : ∀ cur, hasTy cur τ = true → OLe (bs cur) (be cur))
    (ht : ∀ cur nxt, hasTy cur τ = true → bs cur = some nxt → hasTy nxt τ = true) :
    ∀ (n : Nat) (i : Val), hasTy i τ = true → OLe (recSem cs bs n i) (recSem ce be n i)
  | 0, _, _ => by intro v hv; simp [recSem] at hv
  | n + 1, i, hi => by
    intro v hv
    unfold recSem at hv ⊢
    cases h1 : cs i with
    | none => rw [h1] at hv; cases hv
    | some c =>
      rw [h1] at hv
      rw [hc i hi c h1]
      cases c with
      | false => exact hv
      | true =>
        simp only at hv ⊢
        cases h2 : bs i with
        | none => rw [h2] at hv; cases hv
        | some nxt =>
          rw [h2] at hv
          rw [hb i hi nxt h2]
          simp only at hv ⊢
          by_cases e : nxt = i
          · simpa [e] using hv
          · simp only [e, if_false] at hv ⊢
            exact recSem_mono τ cs ce bs be hc hb ht n nxt (ht i nxt hi h2) v hv

/-- the declarations of an enumerated declaration with the plain variables that carry them -/
abbrev DeclList := List (Ast × EDecl)

def declsDelta : DeclList → NCtx → NCtx
  | [], Δ => Δ
  | q :: r, Δ => declsDelta r (leafDelta q.1 q.2.1 ++ Δ)
def declsGamma (τ : Ty) : DeclList → TCtx → TCtx
  | [], Γ => Γ
  | q :: r, Γ => declsGamma τ r ((q.2.1, τ) :: Γ)
def DeclsOK (τ : Ty) : DeclList → NCtx → Prop
  | [], _ => True
  | q :: r, Δ => DeclOK Δ q.1 q.2.1 τ ∧ DeclsOK τ r (leafDelta q.1 q.2.1 ++ Δ)

/-- **the combinations of an enumerated declaration**: declarations (plain or patterns) on the source side, the plain
variables that carry them on the other -/
theorem quantSem_rel (univ : Bool) (xs : List Val) (τ : Ty) (hxs : ∀ x ∈ xs, hasTy x τ = true)
    (bodyS bodyE : LEnv → Option Bool) :
    ∀ (dl : DeclList) (Γ : TCtx) (Δ : NCtx) (ρ ρs : LEnv), URel Δ ρ ρs → EnvTy Γ ρs → DeclsOK τ dl Δ →
      (∀ ρ' ρs', URel (declsDelta dl Δ) ρ' ρs' → EnvTy (declsGamma τ dl Γ) ρs' → OLe (bodyS ρs') (bodyE ρ')) →
      OLe (quantSem univ xs bodyS (dl.map fun q => declNode q.2) ρs) (quantSem univ xs bodyE (dl.map (·.1)) ρ)
  | [], Γ, Δ, ρ, ρs, hr, he, _, hb => by
    simp only [List.map_nil, quantSem]
    exact hb ρ ρs hr he
  | q :: dl, Γ, Δ, ρ, ρs, hr, he, hok, hb => by
    obtain ⟨hq, hrest⟩ := hok
    simp only [List.map_cons]
    rw [quantSem_cons]
    simp only [quantSem]
    have hp : ∀ x ∈ xs, OLe (quantSem univ xs bodyS (dl.map fun q => declNode q.2) (.val q.2.1 x ρs))
        (match bindPat q.1 x ρ with
          | none => none
          | some ρ' => quantSem univ xs bodyE (dl.map (·.1)) ρ') := by
      intro x hx
      obtain ⟨ρ', b1, b2, b3⟩ := bind_relW hr he hq x (hxs x hx)
      simp only [b1]
      exact quantSem_rel univ xs τ hxs bodyS bodyE dl _ _ _ _ b2 b3 hrest hb
    cases univ with
    | true => simp only [if_true]; exact kAll_mono xs _ _ hp
    | false => simp only [Bool.false_eq_true, if_false]; exact kAny_mono xs _ _ hp

/-! ## the blocks of `I{}` -/

/-- the members of `I{value | blocks}` in block order (before the set is formed) -/
def impList (S : SEnv) (f : Nat) (value : Ast) (blocks : List Ast) (ρ : LEnv) : Option (List Val) :=
  impSem (fun ρ' => dVal (denote S f ρ' value)) (fun ρ' x => dVal (denote S f ρ' x))
    (fun ρ' x => dBool (denote S f ρ' x)) blocks ρ

theorem denote_impL (S : SEnv) (fuel : Nat) (ρ : LEnv) (value : Ast) (blocks : List Ast) (d : TokData) (lo hi : Int) :
    denote S (fuel + 1) ρ (.node .NT_IMPERATIVE_EXPR d lo hi (value :: blocks)) =
      ((impList S fuel value blocks ρ).map setOf).map SemVal.val := denote_imp S fuel ρ value blocks d lo hi

theorem impList_nil (S : SEnv) (f : Nat) (value : Ast) (ρ : LEnv) :
    impList S f value [] ρ = (dVal (denote S f ρ value)).map ([·]) := by
  simp only [impList, impSem]

theorem impList_iter (S : SEnv) (f : Nat) (value : Ast) (ρ : LEnv) (d : TokData) (lo hi : Int) (p dom : Ast) (bs : List Ast) :
    impList S f value (.node .ITERATE d lo hi [p, dom] :: bs) ρ =
      match dVal (denote S f ρ dom) with
      | some (.s xs) =>
        (xs.mapM fun x =>
          match bindPat p x ρ with
          | none => none
          | some ρ' => impList S f value bs ρ').map List.flatten
      | _ => none := by
  simp only [impList, impSem, Ast.id, Ast.kids]
  simp only [show (Tok.ITERATE == Tok.ITERATE) = true by decide, if_true]
  rfl

theorem impList_assign (S : SEnv) (f : Nat) (value : Ast) (ρ : LEnv) (d : TokData) (lo hi : Int) (p e : Ast) (bs : List Ast) :
    impList S f value (.node .ASSIGN d lo hi [p, e] :: bs) ρ =
      match dVal (denote S f ρ e) with
      | none => none
      | some v =>
        match bindPat p v ρ with
        | none => none
        | some ρ' => impList S f value bs ρ' := by
  simp only [impList, impSem, Ast.id, Ast.kids]
  simp only [show (Tok.ASSIGN == Tok.ITERATE) = false by decide, show (Tok.ASSIGN == Tok.ASSIGN) = true by decide,
    Bool.false_eq_true, if_false, if_true]
  rfl

theorem impList_cond (S : SEnv) (f : Nat) (value : Ast) (ρ : LEnv) (b : Ast) (bs : List Ast)
    (h1 : (b.id == Tok.ITERATE) = false) (h2 : (b.id == Tok.ASSIGN) = false) :
    impList S f value (b :: bs) ρ =
      match dBool (denote S f ρ b) with
      | some true => impList S f value bs ρ
      | some false => some []
      | none => none := by
  simp only [impList, impSem, h1, h2, Bool.false_eq_true, if_false]
  rfl

/-- node data and range -/
structure NMeta where
  d : TokData := .none
  lo : Int := 0
  hi : Int := 0

/-- one block of `I{}` on both sides: `p :∈ dom` ↦ `w :∈ doms`, `p := e` ↦ `w := es`, condition `b` ↦ `bs` -/
inductive BSpec where
  | iter (p : Ast) (w : EDecl) (τ : Ty) (dom doms : Ast) (m ms : NMeta)
  | assign (p : Ast) (w : EDecl) (τ : Ty) (ex exs : Ast) (m ms : NMeta)
  | cond (b bs : Ast)

def BSpec.src : BSpec → Ast
  | .iter p _ _ dom _ m _ => .node .ITERATE m.d m.lo m.hi [p, dom]
  | .assign p _ _ ex _ m _ => .node .ASSIGN m.d m.lo m.hi [p, ex]
  | .cond b _ => b
def BSpec.flat : BSpec → Ast
  | .iter _ w _ _ doms _ ms => .node .ITERATE ms.d ms.lo ms.hi [declNode w, doms]
  | .assign _ w _ _ exs _ ms => .node .ASSIGN ms.d ms.lo ms.hi [declNode w, exs]
  | .cond _ bs => bs

/-- the pairs of sub-expressions of the blocks and of the value, each with the scope it stands in (a block binds for
the FOLLOWING blocks and the value) -/
def impObl : List BSpec → TCtx → NCtx → Ast → Ast → List (TCtx × NCtx × Ast × Ast)
  | [], Γ, Δ, v, vs => [(Γ, Δ, v, vs)]
  | .iter p w τ dom doms _ _ :: r, Γ, Δ, v, vs => (Γ, Δ, dom, doms) :: impObl r ((w.1, τ) :: Γ) (leafDelta p w.1 ++ Δ) v vs
  | .assign p w τ ex exs _ _ :: r, Γ, Δ, v, vs => (Γ, Δ, ex, exs) :: impObl r ((w.1, τ) :: Γ) (leafDelta p w.1 ++ Δ) v vs
  | .cond b bs :: r, Γ, Δ, v, vs => (Γ, Δ, b, bs) :: impObl r Γ Δ v vs

/-- the side conditions of the blocks -/
def impSide (S : SEnv) : List BSpec → TCtx → NCtx → Prop
  | [], _, _ => True
  | .iter p w τ _ doms _ _ :: r, Γ, Δ =>
    DomTy S Γ doms τ ∧ DeclOK Δ p w.1 τ ∧ impSide S r ((w.1, τ) :: Γ) (leafDelta p w.1 ++ Δ)
  | .assign p w τ _ exs _ _ :: r, Γ, Δ =>
    ValTy S Γ exs τ ∧ DeclOK Δ p w.1 τ ∧ impSide S r ((w.1, τ) :: Γ) (leafDelta p w.1 ++ Δ)
  | .cond b bs :: r, Γ, Δ =>
    (b.id == Tok.ITERATE) = false ∧ (b.id == Tok.ASSIGN) = false ∧ (bs.id == Tok.ITERATE) = false ∧
      (bs.id == Tok.ASSIGN) = false ∧ impSide S r Γ Δ

theorem bindPat_declNode (w : EDecl) (v : Val) (ρ : LEnv) : bindPat (declNode w) v ρ = some (.val w.1 v ρ) := by
  simp only [declNode, bindPat_local]

/-- **the nested comprehension of the blocks**: patterns on the left of `:∈` / `:=` on the source side, the plain
variables that carry them on the other (the pattern case of the block loop of stage 4, reference side) -/
theorem impList_rel (S : SEnv) (value values : Ast) {f g : Nat} (hg : f ≤ g) :
    ∀ (bl : List BSpec) (Γ : TCtx) (Δ : NCtx) (ρ ρs : LEnv), URel Δ ρ ρs → EnvTy Γ ρs → impSide S bl Γ Δ →
      (∀ q ∈ impObl bl Γ Δ value values, ∀ ρ ρs, URel q.2.1 ρ ρs → EnvTy q.1 ρs → Sim S 0 ρ q.2.2.1 ρs q.2.2.2) →
      OLe (impList S f values (bl.map BSpec.flat) ρs) (impList S g value (bl.map BSpec.src) ρ)
  | [], Γ, Δ, ρ, ρs, hr, he, _, hq => by
    simp only [List.map_nil, impList_nil]
    have k := (hq (Γ, Δ, value, values) (by simp [impObl]) ρ ρs hr he).ole (f := f) (g := g) (by omega)
    exact OLe.strict1 (fun r => (dVal r).map ([·])) rfl k
  | .iter p w τ dom doms m ms :: r, Γ, Δ, ρ, ρs, hr, he, hs, hq => by
    obtain ⟨hty, hd, hrest⟩ := hs
    have kd := (hq (Γ, Δ, dom, doms) (by simp [impObl]) ρ ρs hr he).ole (f := f) (g := g) (by omega)
    simp only [List.map_cons, BSpec.flat, BSpec.src, impList_iter]
    intro l hl
    cases hrd : denote S f ρs doms with
    | none => rw [hrd] at hl; simp [dVal] at hl
    | some wd =>
      rw [kd wd hrd]; rw [hrd] at hl
      rcases wd with (wv | b)
      · cases wv with
        | e n => simp [dVal] at hl
        | t cs => simp [dVal] at hl
        | s xs =>
          simp only [dVal] at hl ⊢
          have hp : ∀ x ∈ xs, OLe (match bindPat (declNode w) x ρs with
                | none => none
                | some ρ' => impList S f values (r.map BSpec.flat) ρ')
              (match bindPat p x ρ with
                | none => none
                | some ρ' => impList S g value (r.map BSpec.src) ρ') := by
            intro x hx
            obtain ⟨ρ', b1, b2, b3⟩ := bind_relW hr he hd x (hty f ρs xs he hrd x hx)
            simp only [b1, bindPat_declNode]
            exact impList_rel S value values hg r _ _ _ _ b2 b3 hrest
              (fun q hm => hq q (by simp [impObl, hm]))
          have hm := mapM_val_mono xs _ _ hp
          cases hk : xs.mapM (fun x => match bindPat (declNode w) x ρs with
                | none => none
                | some ρ' => impList S f values (r.map BSpec.flat) ρ') with
          | none => rw [hk] at hl; cases hl
          | some rr => rw [hm rr hk]; rw [hk] at hl; exact hl
      · simp [dVal] at hl
  | .assign p w τ ex exs m ms :: r, Γ, Δ, ρ, ρs, hr, he, hs, hq => by
    obtain ⟨hty, hd, hrest⟩ := hs
    have kd := (hq (Γ, Δ, ex, exs) (by simp [impObl]) ρ ρs hr he).ole (f := f) (g := g) (by omega)
    simp only [List.map_cons, BSpec.flat, BSpec.src, impList_assign]
    intro l hl
    cases hrd : denote S f ρs exs with
    | none => rw [hrd] at hl; simp [dVal] at hl
    | some wd =>
      rw [kd wd hrd]; rw [hrd] at hl
      rcases wd with (wv | b)
      · simp only [dVal] at hl ⊢
        obtain ⟨ρ', b1, b2, b3⟩ := bind_relW hr he hd wv (hty f ρs wv he hrd)
        simp only [b1, bindPat_declNode] at hl ⊢
        exact impList_rel S value values hg r _ _ _ _ b2 b3 hrest
          (fun q hm => hq q (by simp [impObl, hm])) l hl
      · simp [dVal] at hl
  | .cond b bs :: r, Γ, Δ, ρ, ρs, hr, he, hs, hq => by
    obtain ⟨h1, h2, h3, h4, hrest⟩ := hs
    have kd := dBool_mono ((hq (Γ, Δ, b, bs) (by simp [impObl]) ρ ρs hr he).ole (f := f) (g := g) (by omega))
    simp only [List.map_cons, BSpec.flat, BSpec.src]
    rw [impList_cond S f values ρs bs _ h3 h4, impList_cond S g value ρ b _ h1 h2]
    intro l hl
    cases hb : dBool (denote S f ρs bs) with
    | none => rw [hb] at hl; cases hl
    | some c =>
      rw [kd c hb]; rw [hb] at hl
      cases c with
      | false => exact hl
      | true =>
        exact impList_rel S value values hg r _ _ _ _ hr he hrest (fun q hm => hq q (by simp [impObl, hm])) l hl

end CCVerif.Eval
