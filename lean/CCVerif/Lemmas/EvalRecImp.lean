import CCVerif.Lemmas.EvalFrag
import CCVerif.Lemmas.EvalUnfold4
/-! The loops of the recursive constructor (`recLoop`, the `do … while` of `ViRecursion`) and of the
imperative constructor (`impLoop`, the block machine of `ImpEvaluator`) against the reference
semantics (`recSem`, `impSem`).

Budgets.  The evaluator has ONE counter for the whole evaluation (`iterationCounter`): every round of
every loop advances it and the evaluation stops with `iterationsLimit` when it would exceed
`MAX_ITERATIONS = 100000`.  The reference semantics bounds each `R{…}` separately by
`REC_BOUND = MAX_ITERATIONS + 1` rounds and does not bound `I{…}` (its comprehension is structural).
Since the counter never decreases, a successful evaluation ran at most `MAX_ITERATIONS` rounds of any
one recursion, so the reference bound is not reached: whenever the evaluator returns a value, the
reference has that value (`recLoop_sim`).  The converse fails by design: the reference may have a value
where the evaluator stops with the documented `iterationsLimit`. -/
namespace CCVerif.Eval
open CCVerif.Syntax CCVerif.Spec CCVerif.Norm
open Val Ty

theorem rec_bound_eq : REC_BOUND = MAX_ITERATIONS + 1 := rfl

/-- the condition of a round (`true` for the short form) -/
def recCond (cond : Option (St → R V)) (st1 : St) : R Bool :=
  match cond with
  | none => .ok true st1
  | some c =>
    match c st1 with
    | .fail f k => .fail f k
    | .ok (.val _) st2 => .fail (.stuck "ViRecursion get<bool>") st2.iters
    | .ok (.bool b) st2 => .ok b st2

/-- the step of a round and the loop test -/
def recStep (again : Val → St → R V) (body : St → R V) (var : Nat) (st2 : St) : R V :=
  match body st2 with
  | .fail f k => .fail f k
  | .ok (.bool _) st3 => .fail (.stuck "ViRecursion get<StructuredData>") st3.iters
  | .ok (.val next) st3 =>
    match st3.data[var]? with
    | none => .fail (.stuck "ViRecursion idsData[varID]") st3.iters
    | some old => if Val.cmp old next != .eq then again next st3 else .ok (.val next) st3

theorem recLoop_succ (cond : Option (St → R V)) (body : St → R V) (var : Nat) (pos : Int) (fuel : Nat) (cur : Val) (st : St) :
    recLoop cond body var pos (fuel + 1) cur st =
      if st.iters + 1 > MAX_ITERATIONS then .fail (.err EID.iterationsLimit pos) (st.iters + 1) else
      match recCond cond { data := st.data.set var cur, iters := st.iters + 1 } with
      | .fail f k => .fail f k
      | .ok false st2 => .ok (.val cur) st2
      | .ok true st2 => recStep (recLoop cond body var pos fuel) body var st2 := by
  cases cond <;> rfl

/-- `ViRecursion`.  `P` holds between the rounds, `P' cur` inside a round (the variable is bound to `cur`). -/
theorem recLoop_sim {ι : Type} (P : St → Prop) (P' : Val → St → Prop) (cond : Option (St → R V)) (body : St → R V)
    (condD : ι → Val → Option Bool) (bodyD : ι → Val → Option Val) (var : Nat) (pos : Int) (τ : Ty)
    (hbind : ∀ cur st n, WF cur τ → P st → P' cur { data := st.data.set var cur, iters := n })
    (hunbind : ∀ cur st, P' cur st → P st)
    (hslot : ∀ cur st, P' cur st → st.data[var]? = some cur)
    (hcond : ∀ c, cond = some c → ∀ cur st, WF cur τ → P' cur st →
      (∃ b st', c st = .ok (.bool b) st' ∧ P' cur st' ∧ st.iters ≤ st'.iters ∧ ∀ i, condD i cur = some b) ∨ Bad (c st))
    (hcondNone : cond = none → ∀ i cur, condD i cur = some true)
    (hbody : ∀ cur st, WF cur τ → P' cur st →
      (∃ nxt st', body st = .ok (.val nxt) st' ∧ P' cur st' ∧ st.iters ≤ st'.iters ∧ WF nxt τ ∧
        ∀ i, bodyD i cur = some nxt) ∨ Bad (body st)) :
    ∀ (fuel n : Nat) (cur : Val) (st : St), WF cur τ → P st → MAX_ITERATIONS + 1 ≤ n + st.iters →
      (∃ r st', recLoop cond body var pos fuel cur st = .ok (.val r) st' ∧ P st' ∧ st.iters ≤ st'.iters ∧ WF r τ ∧
        ∀ i, recSem (condD i) (bodyD i) n cur = some r) ∨
      Bad (recLoop cond body var pos fuel cur st)
  | 0, _, _, st, _, _, _ => Or.inr (by simp only [recLoop]; exact bad_outOfFuel _)
  | fuel + 1, n, cur, st, hw, hp, hn => by
    rw [recLoop_succ]
    by_cases hlim : st.iters + 1 > MAX_ITERATIONS
    · simp only [hlim, if_true]
      exact Or.inr (bad_err _ _ _ (Or.inr (Or.inr (Or.inr (Or.inl rfl)))))
    · simp only [hlim, if_false]
      obtain ⟨m, rfl⟩ : ∃ m, n = m + 1 := ⟨n - 1, by omega⟩
      have hp1 : P' cur { data := st.data.set var cur, iters := st.iters + 1 } := hbind cur st _ hw hp
      -- the condition
      have hc : (∃ b st2, recCond cond { data := st.data.set var cur, iters := st.iters + 1 } = .ok b st2 ∧
            P' cur st2 ∧ st.iters + 1 ≤ st2.iters ∧ ∀ i, condD i cur = some b) ∨
          ∃ f k, recCond cond { data := st.data.set var cur, iters := st.iters + 1 } = .fail f k ∧ BadF f := by
        cases hcd : cond with
        | none => exact Or.inl ⟨true, _, rfl, hp1, Nat.le_refl _, fun i => hcondNone hcd i cur⟩
        | some c =>
          rcases hcond c hcd cur _ hw hp1 with ⟨b, st2, h2, p2, m2, d2⟩ | ⟨f, k, h2, hf⟩
          · left; exact ⟨b, st2, by simp only [recCond, h2], p2, m2, d2⟩
          · right; exact ⟨f, k, by simp only [recCond, h2], hf⟩
      rcases hc with ⟨b, st2, h2, p2, m2, d2⟩ | ⟨f, k, h2, hf⟩
      · rw [h2]
        cases b with
        | false =>
          left
          refine ⟨cur, st2, rfl, hunbind cur st2 p2, by omega, hw, ?_⟩
          intro i; simp [recSem, d2 i]
        | true =>
          simp only [recStep]
          rcases hbody cur st2 hw p2 with ⟨nxt, st3, h3, p3, m3, w3, d3⟩ | ⟨f, k, h3, hf⟩
          · simp only [h3, hslot cur st3 p3]
            by_cases he : nxt = cur
            · subst he
              have : (Val.cmp nxt nxt != .eq) = false := by simp [bne, cmp_beq_eq]
              simp only [this, Bool.false_eq_true, if_false]
              left
              refine ⟨nxt, st3, rfl, hunbind nxt st3 p3, by omega, w3, ?_⟩
              intro i; simp [recSem, d2 i, d3 i]
            · have : (Val.cmp cur nxt != .eq) = true := by
                simp only [bne, cmp_beq_eq]; simp [Ne.symm he]
              simp only [this, if_true]
              rcases recLoop_sim P P' cond body condD bodyD var pos τ hbind hunbind hslot hcond hcondNone hbody
                  fuel m nxt st3 w3 (hunbind cur st3 p3) (by omega) with ⟨r, st4, h4, p4, m4, w4, d4⟩ | hbad
              · left
                refine ⟨r, st4, h4, p4, by omega, w4, ?_⟩
                intro i; simp [recSem, d2 i, d3 i, he, d4 i]
              · exact Or.inr hbad
          · simp only [h3]
            exact Or.inr ⟨f, k, rfl, hf⟩
      · rw [h2]
        exact Or.inr ⟨f, k, rfl, hf⟩

/-! ## the block machine of `I{…}` -/

/-- `SaveElement` / `ProcessBlock`: (`incrementIter`, stack, result set) and the state -/
def impStep (nKids : Nat) (metas : List BlockMeta) (evalKid domKid : Nat → St → R V) (current : Nat)
    (stack : List (Nat × List Val)) (acc : List Val) (st : St) : R (Bool × List (Nat × List Val) × List Val) :=
  if current + 1 ≥ nKids then
    match evalKid 0 st with
    | .fail f k => .fail f k
    | .ok (.bool _) st' => .fail (.stuck "SaveElement get<StructuredData>") st'.iters
    | .ok (.val v) st' => .ok (true, stack, Val.insert v acc) st'
  else
    match metas[current]? with
    | none => .fail (.stuck "metaData.at(current)") st.iters
    | some m =>
      if m.rootID == .ITERATE then
        match domKid (current + 1) st with
        | .fail f k => .fail f k
        | .ok (.bool _) st' => .fail (.stuck "ExtractDomain get<StructuredData>") st'.iters
        | .ok (.val (.s [])) st' => .ok (true, stack, acc) st'
        | .ok (.val (.s (x :: xs))) st' =>
          .ok (false, (current, xs) :: stack, acc) { st' with data := st'.data.set m.arg x }
        | .ok (.val _) st' => .fail (.stuck "ITERATE domain->B()") st'.iters
      else if m.rootID == .ASSIGN then
        match domKid (current + 1) st with
        | .fail f k => .fail f k
        | .ok (.bool _) st' => .fail (.stuck "ExtractDomain get<StructuredData>") st'.iters
        | .ok (.val v) st' => .ok (false, stack, acc) { st' with data := st'.data.set m.arg v }
      else
        match evalKid (current + 1) st with
        | .fail f k => .fail f k
        | .ok (.val _) st' => .fail .quiet st'.iters
        | .ok (.bool b) st' => .ok (!b, stack, acc) st'

/-- `PrepareNextIteration` when `incrementIter` is set -/
def impNext (metas : List BlockMeta) (incr : Bool) (current : Nat) (stack1 : List (Nat × List Val)) (st1 : St) :
    Option (Nat × List (Nat × List Val) × St) :=
  if incr then
    match prepareNext metas stack1 st1.data with
    | none => none
    | some (blk, stack2, data2) => some (blk, stack2, { st1 with data := data2 })
  else some (current, stack1, st1)

/-- what follows a step: finish, or count the round and go on -/
def impCont (again : Nat → List (Nat × List Val) → List Val → St → R V) (pos : Int) (acc1 : List Val) (st1 : St) :
    Option (Nat × List (Nat × List Val) × St) → R V
  | none => .ok (.val (.s acc1)) st1
  | some (cur2, stack2, st2) =>
    if st2.iters + 1 > MAX_ITERATIONS then .fail (.err EID.iterationsLimit pos) (st2.iters + 1)
    else again (cur2 + 1) stack2 acc1 { st2 with iters := st2.iters + 1 }

theorem impLoop_succ (nKids : Nat) (metas : List BlockMeta) (evalKid domKid : Nat → St → R V) (pos : Int) (fuel : Nat)
    (current : Nat) (stack : List (Nat × List Val)) (acc : List Val) (st : St) :
    impLoop nKids metas evalKid domKid pos (fuel + 1) current stack acc st =
      match impStep nKids metas evalKid domKid current stack acc st with
      | .fail f k => .fail f k
      | .ok (incr, stack1, acc1) st1 =>
        impCont (impLoop nKids metas evalKid domKid pos fuel) pos acc1 st1 (impNext metas incr current stack1 st1) := by
  rfl

/-! ### the reference comprehension on block lists -/

section Sem
variable (V : LEnv → Option Val) (DV : LEnv → Ast → Option Val) (DB : LEnv → Ast → Option Bool)

/-- `impSem` on the source trees of a block list -/
def impSemB (bs : List Blk) (ρ : LEnv) : Option (List Val) := impSem V DV DB (bs.map Blk.src) ρ

theorem impSemB_nil (ρ : LEnv) : impSemB V DV DB [] ρ = (V ρ).map ([·]) := by
  simp [impSemB, impSem]

theorem impSemB_iter (x : String) (dom dom' : Ast) (σ : Ty) (d : TokData) (lo hi dlo dhi : Int) (rest : List Blk) (ρ : LEnv) :
    impSemB V DV DB (.iter x dom dom' σ d lo hi dlo dhi :: rest) ρ =
      match DV ρ dom with
      | some (.s xs) => (xs.mapM fun x' => impSemB V DV DB rest (.val x x' ρ)).map List.flatten
      | _ => none := by
  simp only [impSemB, List.map_cons, Blk.src, impSem, Ast.id, Ast.kids, bindPat_local]
  rfl

theorem impSemB_asg (x : String) (ex ex' : Ast) (σ : Ty) (d : TokData) (lo hi dlo dhi : Int) (rest : List Blk) (ρ : LEnv) :
    impSemB V DV DB (.asg x ex ex' σ d lo hi dlo dhi :: rest) ρ =
      match DV ρ ex with
      | none => none
      | some v => impSemB V DV DB rest (.val x v ρ) := by
  simp only [impSemB, List.map_cons, Blk.src, impSem, Ast.id, Ast.kids, bindPat_local]
  rfl

theorem impSemB_guard (g g' : Ast) (h1 : g.id ≠ .ITERATE) (h2 : g.id ≠ .ASSIGN) (rest : List Blk) (ρ : LEnv) :
    impSemB V DV DB (.guard g g' :: rest) ρ =
      match DB ρ g with
      | some true => impSemB V DV DB rest ρ
      | some false => some []
      | none => none := by
  have e1 : (g.id == Tok.ITERATE) = false := by simpa [tok_beq] using h1
  have e2 : (g.id == Tok.ASSIGN) = false := by simpa [tok_beq] using h2
  simp only [impSemB, List.map_cons, Blk.src, impSem, e1, e2]
  rfl

/-- ghost frame of the block stack: block index, elements still to come, the variable, the scope before the
block, the blocks after it -/
structure GFrame where
  blk : Nat
  xs : List Val
  x : String
  Γ : TCtx
  ρ : LEnv
  post : List Blk

def frameSem (fr : GFrame) : Option (List Val) :=
  (fr.xs.mapM fun x' => impSemB V DV DB fr.post (.val fr.x x' fr.ρ)).map List.flatten

def framesSem : List GFrame → Option (List Val)
  | [] => some []
  | fr :: rest => (frameSem V DV DB fr).bind fun a => (framesSem rest).map (a ++ ·)

/-- what the machine still has to produce: the blocks from here on, then the pending iterations -/
def remSem (post : List Blk) (ρ : LEnv) (frames : List GFrame) : Option (List Val) :=
  (impSemB V DV DB post ρ).bind fun a => (framesSem V DV DB frames).map (a ++ ·)

theorem frameSem_nil (fr : GFrame) (h : fr.xs = []) : frameSem V DV DB fr = some [] := by
  simp [frameSem, h]

theorem framesSem_dead (fr : GFrame) (rest : List GFrame) (h : fr.xs = []) :
    framesSem V DV DB (fr :: rest) = framesSem V DV DB rest := by
  simp only [framesSem, frameSem_nil V DV DB fr h, Option.bind_some]
  cases framesSem V DV DB rest <;> simp

/-- advancing the innermost live iterator: its next element is bound and the blocks after it run -/
theorem framesSem_live (fr : GFrame) (rest : List GFrame) (x' : Val) (xs' : List Val) (h : fr.xs = x' :: xs') :
    framesSem V DV DB (fr :: rest) =
      remSem V DV DB fr.post (.val fr.x x' fr.ρ) ({ fr with xs := xs' } :: rest) := by
  simp only [framesSem, frameSem, remSem, h, List.mapM_cons, Option.pure_def, Option.bind_eq_bind]
  cases impSemB V DV DB fr.post (.val fr.x x' fr.ρ) with
  | none => simp
  | some a =>
    cases List.mapM (fun x' => impSemB V DV DB fr.post (.val fr.x x' fr.ρ)) xs' with
    | none => simp
    | some bsl =>
      cases framesSem V DV DB rest with
      | none => simp
      | some r => simp [List.append_assoc]

end Sem

/-! ### the simulation of the machine -/

/-- scope `B` extends scope `A`: what the evaluator state guarantees for `B` it guarantees for `A` -/
def Ext (env : Env) (c : Ctx) (rz : Rz) (A B : TCtx × LEnv) : Prop :=
  ∀ st, Inv env c rz B.1 B.2 st → Inv env c rz A.1 A.2 st

theorem Ext.refl (env : Env) (c : Ctx) (rz : Rz) (A : TCtx × LEnv) : Ext env c rz A A := fun _ h => h
theorem Ext.trans {env : Env} {c : Ctx} {rz : Rz} {A B C : TCtx × LEnv} (h1 : Ext env c rz A B) (h2 : Ext env c rz B C) :
    Ext env c rz A C :=
  fun st h => h1 st (h2 st h)
theorem Ext.bind {env : Env} {c : Ctx} {rz : Rz} {Γ : TCtx} {ρ : LEnv} {x : String} {τ : Ty} {v : Val} (hx : lookup x Γ = none)
    (hxσ : lookup x rz = none) :
    Ext env c rz (Γ, ρ) ((x, τ) :: Γ, .val x v ρ) := fun _ h => h.unbind hx hxσ

/-- the scopes of the pending iterations, innermost first, down to the scope of the whole `I{…}` -/
def Chain (env : Env) (c : Ctx) (rz : Rz) (base : TCtx × LEnv) : TCtx × LEnv → List GFrame → Prop
  | cur, [] => Ext env c rz base cur
  | cur, fr :: rest => Ext env c rz (fr.Γ, fr.ρ) cur ∧ Chain env c rz base (fr.Γ, fr.ρ) rest

theorem Chain.mono {env : Env} {c : Ctx} {rz : Rz} {base cur cur' : TCtx × LEnv} (he : Ext env c rz cur cur') :
    ∀ {frames : List GFrame}, Chain env c rz base cur frames → Chain env c rz base cur' frames
  | [], h => Ext.trans h he
  | _ :: _, h => ⟨Ext.trans h.1 he, h.2⟩

/-- the destructors of the slot guards -/
def restoreAll (saved : List (Nat × Val)) (d : List Val) : List Val := saved.foldl (fun d p => d.set p.1 p.2) d

theorem restoreAll_set : ∀ (saved : List (Nat × Val)) (d : List Val) (j : Nat) (v : Val), j ∈ saved.map (·.1) →
    restoreAll saved (d.set j v) = restoreAll saved d
  | [], _, _, _, h => by simp at h
  | (k, w) :: rest, d, j, v, h => by
    simp only [restoreAll, List.foldl_cons]
    by_cases e : j = k
    · subst e; rw [List.set_set]
    · have hj : j ∈ rest.map (·.1) := by
        simp only [List.map_cons, List.mem_cons] at h
        rcases h with h | h
        · exact absurd h e
        · exact h
      rw [List.set_comm _ _ e]
      exact restoreAll_set rest (d.set k w) j v hj

theorem restoreAll_self : ∀ (saved : List (Nat × Val)) (d : List Val), (∀ p ∈ saved, d[p.1]? = some p.2) →
    restoreAll saved d = d
  | [], _, _ => rfl
  | (k, w) :: rest, d, h => by
    simp only [restoreAll, List.foldl_cons]
    rw [set_self d k w (h (k, w) (by simp))]
    exact restoreAll_self rest d (fun p hp => h p (by simp [hp]))

section Machine
variable {ι : Type} (env : Env) (c : Ctx) (rz : Rz) (Γ0 : TCtx) (bs : List Blk) (τ : Ty) (metas : List BlockMeta)
  (saved : List (Nat × Val)) (data0 : List Val)
  (evalKid domKid : Nat → St → R V)
  (VD : ι → LEnv → Option Val) (DV : ι → LEnv → Ast → Option Val) (DB : ι → LEnv → Ast → Option Bool)

/-- what is known about the evaluation of the blocks and of the value (from the simulation of their expressions) -/
structure ImpHyp : Prop where
  iter : ∀ pre x dom dom' σ d lo hi dlo dhi post, bs = pre ++ .iter x dom dom' σ d lo hi dlo dhi :: post →
    lookup x (ctxAfter Γ0 pre) = none ∧ lookup x env.globals = none ∧ (∀ r ∈ rz, r.2.1 ≠ x) ∧
    ∃ var, lookup x c.ids = some var ∧ metas[pre.length]? = some ⟨.ITERATE, var⟩ ∧ var ∈ saved.map (·.1) ∧
    ∀ ρ st, Inv env c rz (ctxAfter Γ0 pre) ρ st →
      (∃ xs st', domKid (pre.length + 1) st = .ok (.val (.s xs)) st' ∧ st'.data = st.data ∧
        st.iters ≤ st'.iters ∧ WF (.s xs) (.coll σ) ∧ noAny σ = true ∧ ∀ i, DV i ρ dom = some (.s xs)) ∨
      Bad (domKid (pre.length + 1) st)
  asg : ∀ pre x ex ex' σ d lo hi dlo dhi post, bs = pre ++ .asg x ex ex' σ d lo hi dlo dhi :: post →
    lookup x (ctxAfter Γ0 pre) = none ∧ lookup x env.globals = none ∧ (∀ r ∈ rz, r.2.1 ≠ x) ∧
    ∃ var, lookup x c.ids = some var ∧ metas[pre.length]? = some ⟨.ASSIGN, var⟩ ∧ var ∈ saved.map (·.1) ∧
    ∀ ρ st, Inv env c rz (ctxAfter Γ0 pre) ρ st →
      (∃ v st', domKid (pre.length + 1) st = .ok (.val v) st' ∧ st'.data = st.data ∧
        st.iters ≤ st'.iters ∧ WF v σ ∧ noAny σ = true ∧ ∀ i, DV i ρ ex = some v) ∨
      Bad (domKid (pre.length + 1) st)
  guard : ∀ pre g g' post, bs = pre ++ .guard g g' :: post →
    g.id ≠ .ITERATE ∧ g.id ≠ .ASSIGN ∧
    (∃ m, metas[pre.length]? = some m ∧ m.rootID ≠ .ITERATE ∧ m.rootID ≠ .ASSIGN) ∧
    ∀ ρ st, Inv env c rz (ctxAfter Γ0 pre) ρ st →
      (∃ b st', evalKid (pre.length + 1) st = .ok (.bool b) st' ∧ st'.data = st.data ∧
        st.iters ≤ st'.iters ∧ ∀ i, DB i ρ g = some b) ∨
      Bad (evalKid (pre.length + 1) st)
  value : ∀ ρ st, Inv env c rz (ctxAfter Γ0 bs) ρ st →
    (∃ v st', evalKid 0 st = .ok (.val v) st' ∧ st'.data = st.data ∧ st.iters ≤ st'.iters ∧ WF v τ ∧
      ∀ i, VD i ρ = some v) ∨
    Bad (evalKid 0 st)

/-- a ghost frame belongs to an `ITERATE` block of the list -/
def FrameOK (fr : GFrame) : Prop :=
  ∃ pre dom dom' σ d lo hi dlo dhi var, bs = pre ++ .iter fr.x dom dom' σ d lo hi dlo dhi :: fr.post ∧
    pre.length = fr.blk ∧ fr.Γ = ctxAfter Γ0 pre ∧ (∀ v ∈ fr.xs, WF v σ) ∧ noAny σ = true ∧
    lookup fr.x fr.Γ = none ∧ lookup fr.x env.globals = none ∧ (∀ r ∈ rz, r.2.1 ≠ fr.x) ∧
    lookup fr.x c.ids = some var ∧ metas[fr.blk]? = some ⟨.ITERATE, var⟩ ∧ var ∈ saved.map (·.1)

/-- the machine's stack is the ghost stack without the ghost parts -/
def stackOf (frames : List GFrame) : List (Nat × List Val) := frames.map fun fr => (fr.blk, fr.xs)

/-- outcome of a run of the machine from a state whose pending work is `rem` -/
def ImpGood (ρ0 : LEnv) (acc : List Val) (n0 : Nat) (rem : ι → Option (List Val)) (r : R V) : Prop :=
  (∃ L st', r = .ok (.val (.s (insertAll acc L))) st' ∧ Inv env c rz Γ0 ρ0 st' ∧ restoreAll saved st'.data = data0 ∧
    n0 ≤ st'.iters ∧ WF (.s (insertAll acc L)) (.coll τ) ∧ ∀ i, rem i = some L) ∨ Bad r

/-- the main statement at one machine fuel -/
def ImpAt (ρ0 : LEnv) (pos : Int) (fuel : Nat) : Prop :=
  ∀ (pre post : List Blk) (ρ : LEnv) (frames : List GFrame) (acc : List Val) (st : St),
    bs = pre ++ post → Inv env c rz (ctxAfter Γ0 pre) ρ st →
    restoreAll saved st.data = data0 →
    Chain env c rz (Γ0, ρ0) (ctxAfter Γ0 pre, ρ) frames → (∀ fr ∈ frames, FrameOK env c rz Γ0 bs metas saved fr) →
    WF (.s acc) (.coll τ) →
    ImpGood env c rz Γ0 τ saved data0 ρ0 acc st.iters (fun i => remSem (VD i) (DV i) (DB i) post ρ frames)
      (impLoop (bs.length + 1) metas evalKid domKid pos fuel pre.length (stackOf frames) acc st)

/-- `PrepareNextIteration` and what follows it, after a step that asked for the next element -/
theorem imp_backtrack (ρ0 : LEnv) (pos : Int) (fuel : Nat)
    (ih : ImpAt env c rz Γ0 bs τ metas saved data0 evalKid domKid VD DV DB ρ0 pos fuel) (current : Nat) (acc1 : List Val)
    (hacc : WF (.s acc1) (.coll τ)) :
    ∀ (frames : List GFrame) (cur : TCtx × LEnv) (st1 : St), Inv env c rz cur.1 cur.2 st1 →
      restoreAll saved st1.data = data0 →
      Chain env c rz (Γ0, ρ0) cur frames → (∀ fr ∈ frames, FrameOK env c rz Γ0 bs metas saved fr) →
      ImpGood env c rz Γ0 τ saved data0 ρ0 acc1 st1.iters (fun i => framesSem (VD i) (DV i) (DB i) frames)
        (impCont (impLoop (bs.length + 1) metas evalKid domKid pos fuel) pos acc1 st1
          (impNext metas true current (stackOf frames) st1))
  | [], cur, st1, hinv, hq, hch, _ => by
    left
    refine ⟨[], st1, by simp [impNext, stackOf, prepareNext, impCont, insertAll], hch st1 hinv, hq, Nat.le_refl _,
      by simpa [insertAll] using hacc, fun i => rfl⟩
  | fr :: rest, cur, st1, hinv, hq, hch, hok => by
    cases hxs : fr.xs with
    | nil =>
      have hstep : impNext metas true current (stackOf (fr :: rest)) st1 = impNext metas true current (stackOf rest) st1 := by
        simp [impNext, stackOf, prepareNext, hxs]
      rw [hstep]
      have := imp_backtrack ρ0 pos fuel ih current acc1 hacc rest (fr.Γ, fr.ρ) st1 (hch.1 st1 hinv) hq hch.2
        (fun f hf => hok f (by simp [hf]))
      simpa only [framesSem_dead _ _ _ fr rest hxs] using this
    | cons x' xs' =>
      obtain ⟨pre, dom, dom', σ, d, lo, hi, dlo, dhi, var, hbs, hlen, hΓ, hws, hn, hxΓ, hxg, hxz, hvar, hmeta, hsv⟩ := hok fr (by simp)
      have hstep : impNext metas true current (stackOf (fr :: rest)) st1 =
          some (fr.blk, (fr.blk, xs') :: stackOf rest, { st1 with data := st1.data.set var x' }) := by
        simp [impNext, stackOf, prepareNext, hxs, hmeta]
      rw [hstep]
      simp only [impCont]
      by_cases hlim : st1.iters + 1 > MAX_ITERATIONS
      · simp only [hlim, if_true]
        exact Or.inr (bad_err _ _ _ (Or.inr (Or.inr (Or.inr (Or.inl rfl)))))
      · simp only [hlim, if_false]
        have hinvf : Inv env c rz fr.Γ fr.ρ st1 := hch.1 st1 hinv
        have hw' : WF x' σ := hws x' (by simp [hxs])
        have hinv' : Inv env c rz (ctxAfter Γ0 (pre ++ [.iter fr.x dom dom' σ d lo hi dlo dhi])) (.val fr.x x' fr.ρ)
            { data := st1.data.set var x', iters := st1.iters + 1 } := by
          rw [ctxAfter_snoc, ← hΓ]
          exact hinvf.bind (st1.iters + 1) hxΓ hxg hxz hvar hn hw'
        have hfr' : FrameOK env c rz Γ0 bs metas saved { fr with xs := xs' } :=
          ⟨pre, dom, dom', σ, d, lo, hi, dlo, dhi, var, hbs, hlen, hΓ, fun v hv => hws v (by simp [hxs, hv]), hn, hxΓ, hxg, hxz,
            hvar, hmeta, hsv⟩
        have hch' : Chain env c rz (Γ0, ρ0) (ctxAfter Γ0 (pre ++ [.iter fr.x dom dom' σ d lo hi dlo dhi]), .val fr.x x' fr.ρ)
            ({ fr with xs := xs' } :: rest) := by
          refine ⟨?_, hch.2⟩
          rw [ctxAfter_snoc, ← hΓ]
          exact Ext.bind hxΓ (hinvf.sigma_none hxΓ)
        have := ih (pre ++ [.iter fr.x dom dom' σ d lo hi dlo dhi]) fr.post (.val fr.x x' fr.ρ) ({ fr with xs := xs' } :: rest)
          acc1 { data := st1.data.set var x', iters := st1.iters + 1 } (by simp [hbs]) hinv'
          (by simp only; rw [restoreAll_set saved _ _ _ hsv]; exact hq) hch'
          (fun f hf => by
            rcases List.mem_cons.mp hf with rfl | hf
            · exact hfr'
            · exact hok f (by simp [hf])) hacc
        have hl : (pre ++ [Blk.iter fr.x dom dom' σ d lo hi dlo dhi]).length = fr.blk + 1 := by simp [hlen]
        rw [hl] at this
        rcases this with ⟨L, st', h1, h2, hq', h3, h4, h5⟩ | hbad
        · left
          refine ⟨L, st', h1, h2, hq', by simp at h3; omega, h4, ?_⟩
          intro i
          show framesSem (VD i) (DV i) (DB i) (fr :: rest) = some L
          rw [framesSem_live _ _ _ fr rest x' xs' hxs]
          exact h5 i
        · exact Or.inr hbad

/-- **the block machine enumerates the nested comprehension**: from a state whose ghost stack matches the
machine's, the machine returns the set collected so far extended (by ordered insertion) with the members the
reference comprehension still lists - or fails in an allowed way -/
theorem impLoop_sim (H : ImpHyp env c rz Γ0 bs τ metas saved evalKid domKid VD DV DB) (ρ0 : LEnv) (pos : Int) :
    ∀ fuel, ImpAt env c rz Γ0 bs τ metas saved data0 evalKid domKid VD DV DB ρ0 pos fuel
  | 0 => by
    intro pre post ρ frames acc st _ _ _ _ _ _
    exact Or.inr (by simp only [impLoop]; exact bad_outOfFuel _)
  | fuel + 1 => by
    have ih := impLoop_sim H ρ0 pos fuel
    intro pre post ρ frames acc st hbs hinv hq hch hok hacc
    rw [impLoop_succ]
    cases post with
    | nil =>
      -- `SaveElement`
      have hpre : pre = bs := by simp [hbs]
      subst hpre
      have hend : pre.length + 1 ≥ pre.length + 1 := Nat.le_refl _
      rcases H.value ρ st hinv with ⟨v, st1, h1, q1, m1, w1, d1⟩ | ⟨f, k, h1, hf⟩
      · have p1 := hinv.of_data q1
        simp only [impStep, hend, if_true, h1]
        rcases imp_backtrack env c rz Γ0 pre τ metas saved data0 evalKid domKid VD DV DB ρ0 pos fuel ih pre.length
            (Val.insert v acc) (insert_WF w1 hacc) frames (ctxAfter Γ0 pre, ρ) st1 p1 (by rw [q1]; exact hq) hch hok with
          ⟨L, st', e1, e2, eq', e3, e4, e5⟩ | hbad
        · left
          refine ⟨v :: L, st', by simpa [insertAll] using e1, e2, eq', by omega, by simpa [insertAll] using e4, ?_⟩
          intro i
          simp [remSem, impSemB_nil, d1 i, e5 i]
        · exact Or.inr hbad
      · simp only [impStep, hend, if_true, h1]
        exact Or.inr ⟨f, k, rfl, hf⟩
    | cons b post' =>
      have hlt : ¬ (pre.length + 1 ≥ bs.length + 1) := by rw [hbs]; simp
      cases b with
      | iter x dom dom' σ d lo hi dlo dhi =>
        obtain ⟨hxΓ, hxg, hxz, var, hvar, hmeta, hsv, hev⟩ := H.iter pre x dom dom' σ d lo hi dlo dhi post' hbs
        have hii : (Tok.ITERATE == Tok.ITERATE) = true := rfl
        rcases hev ρ st hinv with ⟨xs, st1, h1, q1, m1, w1, n1, d1⟩ | ⟨f, k, h1, hf⟩
        · have p1 := hinv.of_data q1
          have hq1 : restoreAll saved st1.data = data0 := by rw [q1]; exact hq
          cases xs with
          | nil =>
            simp only [impStep, hlt, if_false, hmeta, hii, if_true, h1]
            rcases imp_backtrack env c rz Γ0 bs τ metas saved data0 evalKid domKid VD DV DB ρ0 pos fuel ih pre.length acc hacc
                frames (ctxAfter Γ0 pre, ρ) st1 p1 hq1 hch hok with ⟨L, st', e1, e2, eq', e3, e4, e5⟩ | hbad
            · left
              refine ⟨L, st', e1, e2, eq', by omega, e4, ?_⟩
              intro i
              simp [remSem, impSemB_iter, d1 i, e5 i]
            · exact Or.inr hbad
          | cons x' xs' =>
            simp only [impStep, hlt, if_false, hmeta, hii, if_true, h1, impNext, Bool.false_eq_true, impCont]
            by_cases hlim : st1.iters + 1 > MAX_ITERATIONS
            · simp only [hlim, if_true]
              exact Or.inr (bad_err _ _ _ (Or.inr (Or.inr (Or.inr (Or.inl rfl)))))
            · simp only [hlim, if_false]
              have hw' : WF x' σ := w1.mem (by simp)
              have hinv' : Inv env c rz (ctxAfter Γ0 (pre ++ [.iter x dom dom' σ d lo hi dlo dhi])) (.val x x' ρ)
                  { data := st1.data.set var x', iters := st1.iters + 1 } := by
                rw [ctxAfter_snoc]
                exact p1.bind (st1.iters + 1) hxΓ hxg hxz hvar n1 hw'
              let fr : GFrame := { blk := pre.length, xs := xs', x := x, Γ := ctxAfter Γ0 pre, ρ := ρ, post := post' }
              have hfr : FrameOK env c rz Γ0 bs metas saved fr :=
                ⟨pre, dom, dom', σ, d, lo, hi, dlo, dhi, var, hbs, rfl, rfl, fun v hv => w1.mem (by simp [fr] at hv; simp [hv]),
                  n1, hxΓ, hxg, hxz, hvar, hmeta, hsv⟩
              have hch' : Chain env c rz (Γ0, ρ0) (ctxAfter Γ0 (pre ++ [.iter x dom dom' σ d lo hi dlo dhi]), .val x x' ρ)
                  (fr :: frames) := by
                refine ⟨?_, hch⟩
                rw [ctxAfter_snoc]
                exact Ext.bind hxΓ (hinv.sigma_none hxΓ)
              have := ih (pre ++ [.iter x dom dom' σ d lo hi dlo dhi]) post' (.val x x' ρ) (fr :: frames) acc
                { data := st1.data.set var x', iters := st1.iters + 1 } (by simp [hbs]) hinv'
                (by simp only; rw [restoreAll_set saved _ _ _ hsv]; exact hq1) hch'
                (fun f hf => by
                  rcases List.mem_cons.mp hf with rfl | hf
                  · exact hfr
                  · exact hok f hf) hacc
              have hl : (pre ++ [Blk.iter x dom dom' σ d lo hi dlo dhi]).length = pre.length + 1 := by simp
              rw [hl] at this
              rcases this with ⟨L, st', e1, e2, eq', e3, e4, e5⟩ | hbad
              · left
                refine ⟨L, st', e1, e2, eq', by simp at e3; omega, e4, ?_⟩
                intro i
                have := e5 i
                simp only [remSem, impSemB_iter, d1 i, framesSem, frameSem, fr, List.mapM_cons, Option.pure_def,
                  Option.bind_eq_bind] at this ⊢
                revert this
                cases impSemB (VD i) (DV i) (DB i) post' (.val x x' ρ) with
                | none => simp
                | some a =>
                  cases List.mapM (fun x' => impSemB (VD i) (DV i) (DB i) post' (.val x x' ρ)) xs' with
                  | none => simp
                  | some bl =>
                    cases framesSem (VD i) (DV i) (DB i) frames with
                    | none => simp
                    | some r => simp [List.append_assoc]
              · exact Or.inr hbad
        · simp only [impStep, hlt, if_false, hmeta, hii, if_true, h1]
          exact Or.inr ⟨f, k, rfl, hf⟩
      | asg x ex ex' σ d lo hi dlo dhi =>
        obtain ⟨hxΓ, hxg, hxz, var, hvar, hmeta, hsv, hev⟩ := H.asg pre x ex ex' σ d lo hi dlo dhi post' hbs
        have hni : (Tok.ASSIGN == Tok.ITERATE) = false := rfl
        have haa : (Tok.ASSIGN == Tok.ASSIGN) = true := rfl
        rcases hev ρ st hinv with ⟨v, st1, h1, q1, m1, w1, n1, d1⟩ | ⟨f, k, h1, hf⟩
        · have p1 := hinv.of_data q1
          have hq1 : restoreAll saved st1.data = data0 := by rw [q1]; exact hq
          simp only [impStep, hlt, if_false, hmeta, hni, Bool.false_eq_true, haa, if_true, h1, impNext, impCont]
          by_cases hlim : st1.iters + 1 > MAX_ITERATIONS
          · simp only [hlim, if_true]
            exact Or.inr (bad_err _ _ _ (Or.inr (Or.inr (Or.inr (Or.inl rfl)))))
          · simp only [hlim, if_false]
            have hinv' : Inv env c rz (ctxAfter Γ0 (pre ++ [.asg x ex ex' σ d lo hi dlo dhi])) (.val x v ρ)
                { data := st1.data.set var v, iters := st1.iters + 1 } := by
              rw [ctxAfter_snoc]
              exact p1.bind (st1.iters + 1) hxΓ hxg hxz hvar n1 w1
            have hch' : Chain env c rz (Γ0, ρ0) (ctxAfter Γ0 (pre ++ [.asg x ex ex' σ d lo hi dlo dhi]), .val x v ρ) frames := by
              refine Chain.mono ?_ hch
              rw [ctxAfter_snoc]
              exact Ext.bind hxΓ (hinv.sigma_none hxΓ)
            have := ih (pre ++ [.asg x ex ex' σ d lo hi dlo dhi]) post' (.val x v ρ) frames acc
              { data := st1.data.set var v, iters := st1.iters + 1 } (by simp [hbs]) hinv'
              (by simp only; rw [restoreAll_set saved _ _ _ hsv]; exact hq1) hch' hok hacc
            have hl : (pre ++ [Blk.asg x ex ex' σ d lo hi dlo dhi]).length = pre.length + 1 := by simp
            rw [hl] at this
            rcases this with ⟨L, st', e1, e2, eq', e3, e4, e5⟩ | hbad
            · left
              refine ⟨L, st', e1, e2, eq', by simp at e3; omega, e4, ?_⟩
              intro i
              have := e5 i
              simpa only [remSem, impSemB_asg, d1 i] using this
            · exact Or.inr hbad
        · simp only [impStep, hlt, if_false, hmeta, hni, Bool.false_eq_true, haa, if_true, h1]
          exact Or.inr ⟨f, k, rfl, hf⟩
      | guard g g' =>
        obtain ⟨hg1, hg2, ⟨m, hmeta, hm1, hm2⟩, hev⟩ := H.guard pre g g' post' hbs
        have e1 : (m.rootID == Tok.ITERATE) = false := by simpa [tok_beq] using hm1
        have e2 : (m.rootID == Tok.ASSIGN) = false := by simpa [tok_beq] using hm2
        rcases hev ρ st hinv with ⟨b, st1, h1, q1, m1, d1⟩ | ⟨f, k, h1, hf⟩
        · have p1 := hinv.of_data q1
          have hq1 : restoreAll saved st1.data = data0 := by rw [q1]; exact hq
          cases b with
          | true =>
            simp only [impStep, hlt, if_false, hmeta, e1, e2, Bool.false_eq_true, h1, Bool.not_true, impNext, impCont]
            by_cases hlim : st1.iters + 1 > MAX_ITERATIONS
            · simp only [hlim, if_true]
              exact Or.inr (bad_err _ _ _ (Or.inr (Or.inr (Or.inr (Or.inl rfl)))))
            · simp only [hlim, if_false]
              have hctx : ctxAfter Γ0 (pre ++ [.guard g g']) = ctxAfter Γ0 pre := by rw [ctxAfter_snoc]; rfl
              have := ih (pre ++ [.guard g g']) post' ρ frames acc { st1 with iters := st1.iters + 1 } (by simp [hbs])
                (by rw [hctx]; exact p1.iters _) hq1 (by rw [hctx]; exact hch) hok hacc
              have hl : (pre ++ [Blk.guard g g']).length = pre.length + 1 := by simp
              rw [hl] at this
              rcases this with ⟨L, st', e1', e2', eq', e3', e4', e5'⟩ | hbad
              · left
                refine ⟨L, st', e1', e2', eq', by simp at e3'; omega, e4', ?_⟩
                intro i
                have := e5' i
                simpa only [remSem, impSemB_guard _ _ _ g g' hg1 hg2, d1 i] using this
              · exact Or.inr hbad
          | false =>
            simp only [impStep, hlt, if_false, hmeta, e1, e2, Bool.false_eq_true, h1, Bool.not_false]
            rcases imp_backtrack env c rz Γ0 bs τ metas saved data0 evalKid domKid VD DV DB ρ0 pos fuel ih pre.length acc hacc
                frames (ctxAfter Γ0 pre, ρ) st1 p1 hq1 hch hok with ⟨L, st', e1', e2', eq', e3', e4', e5'⟩ | hbad
            · left
              refine ⟨L, st', e1', e2', eq', by omega, e4', ?_⟩
              intro i
              simp [remSem, impSemB_guard _ _ _ g g' hg1 hg2, d1 i, e5' i]
            · exact Or.inr hbad
        · simp only [impStep, hlt, if_false, hmeta, e1, e2, Bool.false_eq_true, h1]
          exact Or.inr ⟨f, k, rfl, hf⟩

end Machine

end CCVerif.Eval
