import CCVerif.Lemmas.SchemaGenFrag
import CCVerif.Lemmas.Schema
/-!
The fragment machine of `Model/Schema.lean` (repaired algorithm, `pinned = false`) IS the instance
`fragA` of the generic machine of `Model/SchemaGen.lean`: a state translation `toG` that commutes
with every function of the model, hence with `step`, `run`, `scratch`, and that preserves the
observables (`report`, `depEdges`) and admissibility of histories.  As a consequence the old C07
theorem (incremental = from scratch) is re-proved THROUGH the generic invariant.
-/
namespace CCVerif.SchemaGen
open CCVerif

def cG (c : Schema.Cst) : Cst Schema.Def := ⟨c.uid, c.alias, c.kind, c.defn⟩

def toG (st : Schema.St) : St Schema.Def Schema.Info :=
  ⟨st.store.map cG, st.info, st.graph, st.invalid⟩

def opG : Schema.Op → Op Schema.Def
  | .insert c => .insert (cG c)
  | .load c => .load (cG c)
  | .updateState => .updateState
  | .erase u => .erase u
  | .setDef u d => .setDef u d
  | .setAlias u a s => .setAlias u a s
  | .substitute m => .substitute m

/-! ## fields -/

@[simp] theorem cG_uid (c : Schema.Cst) : (cG c).uid = c.uid := rfl
@[simp] theorem cG_alias (c : Schema.Cst) : (cG c).alias = c.alias := rfl
@[simp] theorem cG_kind (c : Schema.Cst) : (cG c).kind = c.kind := rfl
@[simp] theorem cG_defn (c : Schema.Cst) : (cG c).defn = c.defn := rfl

@[simp] theorem toG_store (st : Schema.St) : (toG st).store = st.store.map cG := rfl
@[simp] theorem toG_info (st : Schema.St) : (toG st).info = st.info := rfl
@[simp] theorem toG_graph (st : Schema.St) : (toG st).graph = st.graph := rfl
@[simp] theorem toG_invalid (st : Schema.St) : (toG st).invalid = st.invalid := rfl

/-- a generic state whose store is the image of a fragment store is the image of a fragment state -/
theorem mk_eq_toG {sG : List (Cst Schema.Def)} {s : List Schema.Cst} (h : sG = s.map cG)
    (inf : List (Nat × Schema.Info)) (gr : Graph.G) (inv : Bool) :
    (⟨sG, inf, gr, inv⟩ : St Schema.Def Schema.Info) = toG ⟨s, inf, gr, inv⟩ := by
  subst h; rfl

/-- maps that commute with `cG` pointwise commute on stores -/
theorem map_cG_comm {g : Cst Schema.Def → Cst Schema.Def} {f : Schema.Cst → Schema.Cst}
    (h : ∀ x, g (cG x) = cG (f x)) (l : List Schema.Cst) : (l.map cG).map g = (l.map f).map cG := by
  rw [List.map_map, List.map_map]
  apply List.map_congr_left
  intro x _
  exact h x

theorem filter_cG (p : Nat → Bool) (l : List Schema.Cst) :
    (l.map cG).filter (fun c => p c.uid) = (l.filter (fun c => p c.uid)).map cG := by
  rw [List.filter_map]
  rfl

theorem insertCst_cG (c : Schema.Cst) (s : List Schema.Cst) :
    (Schema.insertCst c s).map cG = insertCst (cG c) (s.map cG) := by
  induction s with
  | nil => rfl
  | cons d ds ih =>
    simp only [Schema.insertCst, List.map_cons, insertCst, cG_uid]
    by_cases h1 : c.uid < d.uid
    · simp only [h1, ↓reduceIte, List.map_cons]
    · simp only [h1, ↓reduceIte]
      by_cases h2 : c.uid = d.uid
      · simp only [h2, ↓reduceIte, List.map_cons]
      · simp only [h2, ↓reduceIte, List.map_cons, ih]

/-! ## look-ups -/

theorem at_toG (st : Schema.St) (u : Nat) : (toG st).at u = (st.at u).map cG := by
  unfold St.at Schema.St.at
  rw [toG_store, List.find?_map]
  rfl

theorem contains_toG (st : Schema.St) (u : Nat) : (toG st).contains u = st.contains u := by
  unfold St.contains Schema.St.contains
  rw [at_toG, Option.isSome_map]

theorem hasInfo_toG (st : Schema.St) (u : Nat) : (toG st).hasInfo u = st.hasInfo u := rfl

theorem toG_setInfo (st : Schema.St) (u : Nat) (i : Schema.Info) :
    toG (st.setInfo u i) = (toG st).setInfo u i := rfl

theorem findAlias_toG (st : Schema.St) (a : String) : (toG st).findAlias a = st.findAlias a := by
  unfold St.findAlias Schema.St.findAlias
  rw [toG_store, List.find?_map, Option.map_map]
  rfl

theorem findAlias_toG' (st : Schema.St) : (toG st).findAlias = st.findAlias :=
  funext (findAlias_toG st)

theorem infoFor_toG (st : Schema.St) (u : Nat) : (toG st).infoFor fragA u = st.infoFor u := rfl

theorem tyOf_ctx_toG (st : Schema.St) (m : String) : tyOf ((toG st).ctx fragA m) = st.typeFor m := by
  unfold St.ctx Schema.St.typeFor
  rw [findAlias_toG]
  cases st.findAlias m <;> rfl

theorem fragType_toG (st : Schema.St) (c : Schema.Cst) :
    fragType ((toG st).ctx fragA) (cG c) = Schema.analyse st c := by
  obtain ⟨u, a, k, d⟩ := c
  cases k <;> cases d with
  | empty => rfl
  | bad => rfl
  | union l =>
    cases l with
    | nil => rfl
    | cons n ns =>
      first
      | rfl
      | (simp only [fragType, Schema.analyse, cG, tyOf_ctx_toG]
         cases st.typeFor n <;> rfl)

theorem inputsOf_toG (st : Schema.St) (c : Schema.Cst) :
    (toG st).inputsOf fragA (cG c) = st.inputsOf c := by
  unfold St.inputsOf Schema.St.inputsOf
  rw [findAlias_toG']
  rfl

/-! ## the graph -/

theorem toG_graphUpdateFor (st : Schema.St) (u : Nat) :
    toG (st.graphUpdateFor u) = (toG st).graphUpdateFor fragA u := by
  unfold St.graphUpdateFor Schema.St.graphUpdateFor
  rw [toG_invalid, at_toG]
  split
  · rfl
  · cases h : st.at u with
    | none => rfl
    | some c =>
      simp only [Option.map_some]
      rw [inputsOf_toG]
      rfl

theorem toG_foldl_graphUpdateFor (l : List Schema.Cst) : ∀ s : Schema.St,
    (l.map cG).foldl (fun s c => s.graphUpdateFor fragA c.uid) (toG s)
      = toG (l.foldl (fun s c => s.graphUpdateFor c.uid) s) := by
  induction l with
  | nil => intro s; rfl
  | cons c cs ih =>
    intro s
    rw [List.map_cons, List.foldl_cons, List.foldl_cons, cG_uid, ← toG_graphUpdateFor, ih]

theorem toG_ensureGraph (st : Schema.St) : toG st.ensureGraph = (toG st).ensureGraph fragA := by
  unfold St.ensureGraph Schema.St.ensureGraph
  rw [toG_invalid]
  split
  · rw [← toG_foldl_graphUpdateFor]
    rfl
  · rfl

/-! ## `ParseCst`, `UpdateState`, `TriggerParse` -/

theorem toG_parseCst (st : Schema.St) (u : Nat) : toG (st.parseCst u) = (toG st).parseCst fragA u := by
  cases h : st.at u with
  | none =>
    have hG : (toG st).at u = none := by rw [at_toG, h]; rfl
    rw [Schema.parseCst_of_none h, parseCst_of_none (A := fragA) hG]
  | some c =>
    have hG : (toG st).at u = some (cG c) := by rw [at_toG, h]; rfl
    rw [Schema.parseCst_of_at h, parseCst_of_at (A := fragA) hG, toG_setInfo]
    show _ = (toG st).setInfo u (Schema.resultInfo (fragType ((toG st).ctx fragA) (cG c)))
    rw [fragType_toG]

theorem toG_foldl_parseCst (l : List Nat) : ∀ st : Schema.St,
    toG (l.foldl Schema.St.parseCst st) = l.foldl (St.parseCst fragA) (toG st) := by
  induction l with
  | nil => intro st; rfl
  | cons u us ih =>
    intro st
    rw [List.foldl_cons, List.foldl_cons, ih, toG_parseCst]

theorem toG_resetInfo (st : Schema.St) : toG st.resetInfo = (toG st).resetInfo fragA := rfl

theorem toG_updateState (st : Schema.St) : toG st.updateState = (toG st).updateState fragA := by
  unfold St.updateState Schema.St.updateState
  simp only
  rw [toG_foldl_parseCst, ← toG_resetInfo, ← toG_ensureGraph, toG_graph]

theorem toG_foldl_reset (l : List Nat) : ∀ st : Schema.St,
    toG (l.foldl (fun s u => if s.hasInfo u then s.setInfo u {} else s) st)
      = l.foldl (fun s u => if s.hasInfo u then s.setInfo u fragA.reset else s) (toG st) := by
  induction l with
  | nil => intro st; rfl
  | cons u us ih =>
    intro st
    rw [List.foldl_cons, List.foldl_cons, ih]
    congr 1
    rw [hasInfo_toG]
    split <;> rfl

theorem toG_triggerParse (st : Schema.St) (u : Nat) :
    toG (st.triggerParse u) = (toG st).triggerParse fragA u := by
  unfold St.triggerParse Schema.St.triggerParse
  simp only
  rw [toG_foldl_parseCst, toG_parseCst, toG_foldl_reset, ← toG_ensureGraph, toG_graph,
    ← toG_foldl_reset, ← toG_parseCst, toG_graph]

/-! ## `TranslateAll` -/

theorem renameAt_cG (f : String → Option String) (u : Nat) (x : Schema.Cst) :
    (if (cG x).uid == u then { cG x with defn := fragA.rename f (cG x).defn } else cG x)
      = cG (if x.uid == u then { x with defn := Schema.renameDef f x.defn } else x) := by
  rw [cG_uid]
  split <;> rfl

theorem toG_renameStore (f : String → Option String) (u : Nat) (s : Schema.St) :
    ({ toG s with store := (toG s).store.map (fun (x : Cst Schema.Def) =>
        if x.uid == u then { x with defn := fragA.rename f x.defn } else x) } : St Schema.Def Schema.Info)
      = toG { s with store := s.store.map (fun (x : Schema.Cst) =>
        if x.uid == u then { x with defn := Schema.renameDef f x.defn } else x) } :=
  mk_eq_toG (map_cG_comm (renameAt_cG f u) s.store) _ _ _

theorem toG_translate_fold (f : String → Option String) (l : List Schema.Cst) : ∀ s : Schema.St,
    (l.map cG).foldl (fun s c =>
        St.graphUpdateFor fragA
          { s with store := s.store.map (fun (x : Cst Schema.Def) =>
              if x.uid == c.uid then { x with defn := fragA.rename f x.defn } else x) } c.uid) (toG s)
      = toG (l.foldl (fun s c =>
        Schema.St.graphUpdateFor
          { s with store := s.store.map (fun (x : Schema.Cst) =>
              if x.uid == c.uid then { x with defn := Schema.renameDef f x.defn } else x) } c.uid) s) := by
  induction l with
  | nil => intro s; rfl
  | cons c cs ih =>
    intro s
    rw [List.map_cons, List.foldl_cons, List.foldl_cons, ← ih, toG_graphUpdateFor, ← toG_renameStore]
    rfl

theorem toG_translateAll (st : Schema.St) (f : String → Option String) :
    toG (st.translateAll f) = (toG st).translateAll fragA f := by
  unfold St.translateAll Schema.St.translateAll
  simp only
  rw [toG_updateState, toG_store, toG_translate_fold]

/-! ## `step`, `run`, `scratch` -/

theorem toG_setDefStore (u : Nat) (d : Schema.Def) (st : Schema.St) :
    ({ toG st with store := (toG st).store.map (fun (x : Cst Schema.Def) =>
        if x.uid == u then { x with defn := d } else x) } : St Schema.Def Schema.Info)
      = toG { st with store := st.store.map (fun (x : Schema.Cst) =>
        if x.uid == u then { x with defn := d } else x) } := by
  refine mk_eq_toG (map_cG_comm ?_ st.store) _ _ _
  intro x
  rw [cG_uid]
  split <;> rfl

theorem toG_setAliasStore (u : Nat) (a : String) (st : Schema.St) :
    ({ toG st with invalid := true, store := (toG st).store.map (fun (x : Cst Schema.Def) =>
        if x.uid == u then { x with alias := a } else x) } : St Schema.Def Schema.Info)
      = toG { st with invalid := true, store := st.store.map (fun (x : Schema.Cst) =>
        if x.uid == u then { x with alias := a } else x) } := by
  refine mk_eq_toG (map_cG_comm ?_ st.store) _ _ _
  intro x
  rw [cG_uid]
  split <;> rfl

theorem toG_substStore (m : List (String × String)) (st : Schema.St) :
    ({ toG st with invalid := true, store := (toG st).store.map (fun (x : Cst Schema.Def) =>
        { x with alias := (Schema.lookup m x.alias).getD x.alias }) } : St Schema.Def Schema.Info)
      = toG { st with invalid := true, store := st.store.map (fun (x : Schema.Cst) =>
        { x with alias := (Schema.lookup m x.alias).getD x.alias }) } :=
  mk_eq_toG (map_cG_comm (fun _ => rfl) st.store) _ _ _

theorem findDefn_toG (st : Schema.St) (d : Schema.Def) :
    ((toG st).store.find? (·.defn == d)).map (·.uid) = (st.store.find? (·.defn == d)).map (·.uid) := by
  rw [toG_store, List.find?_map, Option.map_map]
  rfl

theorem toG_step_insert (st : Schema.St) (c : Schema.Cst) :
    toG (Schema.step false st (.insert c)) = step fragA (toG st) (.insert (cG c)) := by
  simp only [Schema.step, step, hasInfo_toG, cG_uid]
  by_cases h : st.hasInfo c.uid = true
  · simp only [h, ↓reduceIte]
  · simp only [h, Bool.false_eq_true, ↓reduceIte]
    rw [toG_updateState]
    congr 1
    exact (mk_eq_toG (insertCst_cG c st.store).symm _ _ _).symm

theorem toG_step_load (st : Schema.St) (c : Schema.Cst) :
    toG (Schema.step false st (.load c)) = step fragA (toG st) (.load (cG c)) := by
  simp only [Schema.step, step, hasInfo_toG, cG_uid]
  rw [toG_resetInfo]
  congr 1
  refine (mk_eq_toG ?_ _ _ _).symm
  rw [insertCst_cG, toG_store, filter_cG (fun v => v != c.uid)]

theorem toG_step_erase (st : Schema.St) (u : Nat) :
    toG (Schema.step false st (.erase u)) = step fragA (toG st) (.erase u) := by
  simp only [Schema.step, step, contains_toG]
  by_cases h : (!st.contains u) = true
  · simp only [h, ↓reduceIte]
  · simp only [h, Bool.false_eq_true, ↓reduceIte]
    rw [toG_updateState, ← toG_ensureGraph, toG_graph, ← toG_foldl_reset]
    congr 1
    refine (mk_eq_toG ?_ _ _ _).symm
    rw [toG_store, filter_cG (fun v => v != u)]

theorem toG_step_setDef (st : Schema.St) (u : Nat) (d : Schema.Def) :
    toG (Schema.step false st (.setDef u d)) = step fragA (toG st) (.setDef u d) := by
  simp only [Schema.step, step]
  rw [at_toG]
  cases h : st.at u with
  | none => rfl
  | some c =>
    simp only [Option.map_some, cG_defn]
    by_cases h1 : d = c.defn
    · simp only [h1, ↓reduceIte]
    · simp only [h1, ↓reduceIte, Bool.false_eq_true]
      rw [findDefn_toG, toG_setDefStore]
      split
      · rw [toG_triggerParse, toG_graphUpdateFor]
      · rfl

theorem toG_step_setAlias (st : Schema.St) (u : Nat) (a : String) (sb : Bool) :
    toG (Schema.step false st (.setAlias u a sb)) = step fragA (toG st) (.setAlias u a sb) := by
  simp only [Schema.step, step]
  rw [at_toG]
  cases h : st.at u with
  | none => rfl
  | some c =>
    simp only [Option.map_some, cG_alias]
    by_cases h1 : c.alias = a
    · simp only [h1, ↓reduceIte]
    · simp only [h1, ↓reduceIte]
      rw [toG_setAliasStore]
      cases sb with
      | true => simp only [if_true]; rw [toG_translateAll]; rfl
      | false => simp only [Bool.false_eq_true, if_false]; rw [toG_updateState]

theorem toG_step_substitute (st : Schema.St) (m : List (String × String)) :
    toG (Schema.step false st (.substitute m)) = step fragA (toG st) (.substitute m) := by
  simp only [Schema.step, step]
  rw [toG_substStore, toG_translateAll]

theorem toG_step (st : Schema.St) (op : Schema.Op) :
    toG (Schema.step false st op) = step fragA (toG st) (opG op) := by
  cases op with
  | insert c => exact toG_step_insert st c
  | load c => exact toG_step_load st c
  | updateState => exact toG_updateState st
  | erase u => exact toG_step_erase st u
  | setDef u d => exact toG_step_setDef st u d
  | setAlias u a sb => exact toG_step_setAlias st u a sb
  | substitute m => exact toG_step_substitute st m

theorem toG_foldl_step (ops : List Schema.Op) : ∀ st : Schema.St,
    toG (ops.foldl (Schema.step false) st) = (ops.map opG).foldl (step fragA) (toG st) := by
  induction ops with
  | nil => intro st; rfl
  | cons op ops ih =>
    intro st
    rw [List.map_cons, List.foldl_cons, List.foldl_cons, ih, toG_step]

theorem toG_run (ops : List Schema.Op) : toG (Schema.run false ops) = run fragA (ops.map opG) :=
  toG_foldl_step ops {}

theorem toG_scratch (st : Schema.St) : toG st.scratch = (toG st).scratch fragA := by
  unfold St.scratch Schema.St.scratch
  rw [toG_updateState]
  rfl

/-! ## observables -/

theorem report_toG (st : Schema.St) :
    st.report = ((toG st).report fragA).map (fun p => (p.1, p.2.status, p.2.ty)) := by
  unfold St.report Schema.St.report
  rw [toG_store, List.map_map, List.map_map]
  rfl

theorem depEdges_toG (st : Schema.St) : st.depEdges = (toG st).depEdges fragA := by
  unfold St.depEdges Schema.St.depEdges
  simp only
  rw [← toG_ensureGraph, toG_store, toG_graph, List.flatMap_map]
  rfl

/-! ## admissible histories -/

theorem eraseOk_toG {s : List Schema.Cst} {u : Nat} (h : Schema.EraseOk s u) : EraseOk (s.map cG) u := by
  intro c hc hcu d hd hda
  obtain ⟨c', hc', rfl⟩ := List.mem_map.1 hc
  obtain ⟨d', hd', rfl⟩ := List.mem_map.1 hd
  exact h c' hc' hcu d' hd' hda

theorem admissible_toG {st : Schema.St} {op : Schema.Op} (h : Schema.Admissible st op) :
    Admissible (toG st) (opG op) := by
  cases op with
  | load c => exact h.elim
  | erase u => exact eraseOk_toG h
  | insert c => trivial
  | updateState => trivial
  | setDef u d => trivial
  | setAlias u a sb => trivial
  | substitute m => trivial

theorem admissibleFrom_toG (ops : List Schema.Op) : ∀ (st : Schema.St),
    Schema.AdmissibleFrom st ops → AdmissibleFrom fragA (toG st) (ops.map opG) := by
  induction ops with
  | nil => intro _ _; trivial
  | cons op ops ih =>
    intro st h
    refine ⟨admissible_toG h.1, ?_⟩
    rw [← toG_step]
    exact ih _ h.2

/-- the old C07 theorem re-proved THROUGH the generic one -/
theorem incremental_eq_scratch_via_generic (ops : List Schema.Op) (ha : Schema.AdmissibleFrom {} ops) :
    (Schema.run false ops).report = (Schema.run false ops).scratch.report ∧
    (Schema.run false ops).depEdges = (Schema.run false ops).scratch.depEdges := by
  have hwf : WF fragA (run fragA (ops.map opG)) :=
    WF.run fragA_lawful (admissibleFrom_toG ops {} ha)
  obtain ⟨h1, h2⟩ := WF.observables fragA_lawful hwf
  rw [← toG_run, ← toG_scratch] at h1 h2
  exact ⟨by rw [report_toG, h1, ← report_toG], by rw [depEdges_toG, h2, ← depEdges_toG]⟩

/-- non-vacuity: a concrete admissible history with an insert, a `setDef` and an erase -/
example : AdmissibleFrom fragA {}
    ([Schema.Op.insert ⟨1, "X1", .base, .empty⟩,
      Schema.Op.insert ⟨2, "D1", .term, .union ["X1"]⟩,
      Schema.Op.insert ⟨3, "D2", .term, .union ["D1"]⟩,
      Schema.Op.setDef 3 (.union ["X1", "D1"]),
      Schema.Op.erase 2].map opG) := by decide

example : Schema.AdmissibleFrom {}
    [Schema.Op.insert ⟨1, "X1", .base, .empty⟩,
     Schema.Op.insert ⟨2, "D1", .term, .union ["X1"]⟩,
     Schema.Op.insert ⟨3, "D2", .term, .union ["D1"]⟩,
     Schema.Op.setDef 3 (.union ["X1", "D1"]),
     Schema.Op.erase 2] := by decide

end CCVerif.SchemaGen
