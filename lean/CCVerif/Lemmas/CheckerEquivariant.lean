import CCVerif.Model.Checker
import CCVerif.Lemmas.CheckerEqvTypes
/-!
EQUIVARIANCE of the type checker (`Model/Checker.lean`) under a renaming of global names (C08):

  `check (renCtx r Γ) (renAst r.ρ.f e) = renCheckRes r (check Γ e)`

for a renaming `r : CRen` — a bijection `ρ` of the global identifiers (applied to the payload of the
ID_GLOBAL / ID_FUNCTION / ID_PREDICATE tokens of the tree, which is what `TranslateRS` with
`FilterGlobals` rewrites, and to the keys of the type context) together with an admissible renaming
`τ` of the base names of typifications (`Lemmas/CheckerEqvTypes.lean`: fixes `Z`, `R0`, keeps
radicals) — and every tree `e` with `TreeOK r e`, the side conditions the proof forces, per node:

* an ID_RADICAL token's text is fixed by `τ` (`ViRadical` makes it a base name);
* the name `fn` of a called function is a global token and `τ (id ++ fn) = τ id ++ ρ fn` for every
  radical `id` (`MangleRadicals` appends the function name to the radicals of the declared types);
* the declared name `n` of a one-child declaration `X1:==` is a global token and `τ n = ρ n`
  (`ViGlobalDeclaration` makes it a base name);
* the declared variable of an argument declaration is not a global token (`ViArgument` records its
  text as the argument name).

The result: same outcome up to `τ` in the type, the same error log (codes and positions: the
renamed tree keeps the ranges), the same declared arguments up to `τ` in their types, the same
ghost flag. Local variables, radicals, literals, index tuples are untouched.
-/
namespace CCVerif.Checker
open CCVerif CCVerif.Syntax CCVerif.Types

/-! ## the renaming -/

/-- a renaming for the checker -/
structure CRen where
  /-- on global identifiers (tree payloads, context keys) -/
  ρ : Bij
  /-- on the base names of typifications -/
  τ : TRen

def CRen.inv (r : CRen) : CRen := ⟨r.ρ.inv, r.τ.inv⟩

/-- the token kinds `TranslateRS` with `FilterGlobals` rewrites (= those dispatched to `viGlobal`) -/
def isGlob (t : Tok) : Bool := t == .ID_GLOBAL || t == .ID_FUNCTION || t == .ID_PREDICATE

def renData (g : String → String) (id : Tok) (d : TokData) : TokData :=
  if isGlob id then (match d with | .text s => .text (g s) | d => d) else d

mutual
/-- the tree with the global identifier tokens renamed (ranges kept) -/
def renAst (g : String → String) : Ast → Ast
  | .node id d lo hi ks => .node id (renData g id d) lo hi (renAstL g ks)
def renAstL (g : String → String) : List Ast → List Ast
  | [] => []
  | k :: ks => renAst g k :: renAstL g ks
end

theorem renAstL_eq_map (g : String → String) : ∀ ks : List Ast, renAstL g ks = ks.map (renAst g)
  | [] => rfl
  | k :: ks => by rw [renAstL, List.map_cons, renAstL_eq_map g ks]

section ast
variable (g : String → String)
@[simp] theorem renAst_id (a : Ast) : (renAst g a).id = a.id := by cases a; rfl
@[simp] theorem renAst_lo (a : Ast) : (renAst g a).lo = a.lo := by cases a; rfl
@[simp] theorem renAst_hi (a : Ast) : (renAst g a).hi = a.hi := by cases a; rfl
theorem renAst_data (a : Ast) : (renAst g a).data = renData g a.id a.data := by cases a; rfl
theorem renAst_kids (a : Ast) : (renAst g a).kids = a.kids.map (renAst g) := by
  cases a; simp only [renAst, Ast.kids]; exact renAstL_eq_map g _
@[simp] theorem renAst_kids_length (a : Ast) : (renAst g a).kids.length = a.kids.length := by
  rw [renAst_kids, List.length_map]
theorem renAst_kid (a : Ast) (i : Nat) : (renAst g a).kid i = (a.kid i).map (renAst g) := by
  unfold Ast.kid; rw [renAst_kids, List.getElem?_map]
end ast

def renDecl (r : CRen) (d : List (String × Ty)) : List (String × Ty) := d.map fun p => (p.1, R r.τ p.2)

/-- the context: keys renamed by `ρ`, types by `τ`, trait keys by `τ` -/
def renCtx (r : CRen) (Γ : Ctx) : Ctx :=
  { Γ with
    types := Γ.types.map fun p => (r.ρ.f p.1, RE r.τ p.2),
    funcs := Γ.funcs.map fun p => (r.ρ.f p.1, renDecl r p.2),
    traits := renTE r.τ Γ.traits }

def renLocal (r : CRen) (v : LocalData) : LocalData := { v with type := R r.τ v.type }

def renSt (r : CRen) (s : St) : St :=
  { s with cur := RE r.τ s.cur, locals := s.locals.map (renLocal r), args := renDecl r s.args }

def mapRes {α : Type} (φ : α → α) : Res α → Res α
  | .ok a => .ok (φ a)
  | .fail => .fail
  | .stuck x => .stuck x

/-- `m'` run from the renamed state does what `m` does, renamed (`φ` on the returned value) -/
def Eqv {α : Type} (r : CRen) (φ : α → α) (m' m : M α) : Prop :=
  ∀ s, m' (renSt r s) = (mapRes φ (m s).1, renSt r (m s).2)

variable {r : CRen}

/-! ## the monad -/

theorem bind_pure_left' {α β} (x : α) (f : α → M β) : M.bind (M.pure x) f = f x := rfl

theorem eqv_pure {α} {φ : α → α} {a' a : α} (h : a' = φ a) : Eqv r φ (M.pure a') (M.pure a) := by
  intro s; subst h; rfl

theorem eqv_bind {α β} {φ : α → α} {ψ : β → β} {m' m : M α} {f' f : α → M β}
    (hm : Eqv r φ m' m) (hf : ∀ a, Eqv r ψ (f' (φ a)) (f a)) : Eqv r ψ (M.bind m' f') (M.bind m f) := by
  intro s
  unfold M.bind
  rw [hm s]
  cases hms : m s with
  | mk res s1 =>
    cases res with
    | ok a => exact hf a s1
    | fail => rfl
    | stuck x => rfl

theorem eqv_errFail {α} {φ : α → α} (eid : Nat) (pos : Int) : Eqv r φ (errFail eid pos) (errFail eid pos) :=
  fun _ => rfl
theorem eqv_failSilent {α} {φ : α → α} : Eqv r φ (failSilent : M α) failSilent := fun _ => rfl
theorem eqv_stuck {α} {φ : α → α} (x : String) : Eqv r φ (stuckM x : M α) (stuckM x) := fun _ => rfl
theorem eqv_getSt : Eqv r (renSt r) getSt getSt := fun _ => rfl
theorem eqv_setCur {t' t : ExprTy} (h : t' = RE r.τ t) : Eqv r id (setCur t') (setCur t) := by
  intro s; subst h; rfl
theorem eqv_modify {f' f : St → St} (h : ∀ s, f' (renSt r s) = renSt r (f s)) :
    Eqv r id (modifySt f') (modifySt f) := by
  intro s
  show (Res.ok (), f' (renSt r s)) = _
  rw [h]; rfl

theorem renData_text (g : String → String) (id : Tok) (s : String) :
    renData g id (.text s) = .text (if isGlob id then g s else s) := by
  unfold renData; split <;> rfl

theorem renData_not_text (g : String → String) (id : Tok) {d : TokData} (h : ∀ s, d ≠ .text s) :
    renData g id d = d := by
  unfold renData
  split
  · cases d with
    | text s => exact absurd rfl (h s)
    | _ => rfl
  · rfl

theorem eqv_errFailTok {α} {φ : α → α} (g : String → String) (a : Ast) (eid : Nat) (pos : Int) :
    Eqv r φ (errFailTok (renAst g a) eid pos) (errFailTok a eid pos) := by
  unfold errFailTok
  rw [renAst_data]
  cases hd : a.data with
  | text s => rw [renData_text]; exact eqv_errFail _ _
  | tuple l =>
    rw [renData_not_text g _ (by intro s h; cases h)]
    cases l with
    | nil => exact eqv_stuck _
    | cons _ _ => exact eqv_errFail _ _
  | none => rw [renData_not_text g _ (by intro s h; cases h)]; exact eqv_errFail _ _
  | int _ => rw [renData_not_text g _ (by intro s h; cases h)]; exact eqv_errFail _ _

/-! ## moving in the tree -/

/-- the renamed visitor does on the renamed children of `a` what the visitor does on the children -/
def VE (r : CRen) (v' v : Visitor) (a : Ast) : Prop :=
  ∀ k ∈ a.kids, ∀ p, Eqv r id (v' p (renAst r.ρ.f k)) (v p k)

theorem kid_mem' {a k : Ast} {i : Nat} (h : a.kid i = some k) : k ∈ a.kids := by
  unfold Ast.kid at h; exact List.mem_of_getElem? h

section tree
variable {v' v : Visitor} {a : Ast}

theorem eqv_kidM (i : Nat) : Eqv r (renAst r.ρ.f) (kidM (renAst r.ρ.f a) i) (kidM a i) := by
  unfold kidM
  rw [renAst_kid]
  cases a.kid i with
  | none => exact eqv_stuck _
  | some k => exact eqv_pure rfl

theorem eqv_visitChild (hv : VE r v' v a) (i : Nat) :
    Eqv r id (visitChild v' (renAst r.ρ.f a) i) (visitChild v a i) := by
  unfold visitChild kidM
  rw [renAst_kid, renAst_id]
  cases hk : a.kid i with
  | none => exact eqv_stuck _
  | some k => exact hv k (kid_mem' hk) _

theorem eqv_visitAll (p : Tok) : ∀ ks : List Ast, (∀ k ∈ ks, ∀ q, Eqv r id (v' q (renAst r.ρ.f k)) (v q k)) →
    Eqv r id (visitAll v' p (ks.map (renAst r.ρ.f))) (visitAll v p ks)
  | [], _ => eqv_pure rfl
  | k :: ks, h => by
    rw [List.map_cons]
    unfold visitAll
    exact eqv_bind (h k (List.mem_cons_self ..) _)
      (fun _ => eqv_visitAll p ks (fun k' hk' => h k' (List.mem_cons_of_mem _ hk')))

theorem eqv_childType (hv : VE r v' v a) (i : Nat) :
    Eqv r (RE r.τ) (childType v' (renAst r.ρ.f a) i) (childType v a i) := by
  unfold childType kidM
  rw [renAst_kid, renAst_id]
  cases hk : a.kid i with
  | none => exact eqv_stuck _
  | some k =>
    intro s
    simp only [Option.map_some, bind_pure_left']
    have := hv k (kid_mem' hk) (some a.id) s
    rw [this]
    cases hvs : v (some a.id) k s with
    | mk res s1 =>
      cases res with
      | ok _ => rfl
      | fail => rfl
      | stuck _ => rfl

theorem eqv_expectTy (site : String) : ∀ t : ExprTy,
    Eqv r (R r.τ) (expectTy site (RE r.τ t)) (expectTy site t)
  | .ty _ => eqv_pure rfl
  | .logic => eqv_stuck _

theorem eqv_childTypeDebool (hv : VE r v' v a) (i eid : Nat) (b : Bool) :
    Eqv r (R r.τ) (childTypeDebool v' (renAst r.ρ.f a) i eid b) (childTypeDebool v a i eid b) := by
  unfold childTypeDebool
  refine eqv_bind (eqv_childType hv i) (fun x => ?_)
  cases x with
  | logic => exact eqv_failSilent
  | ty t =>
    simp only [renE]
    rw [isAny_R]
    split
    · exact eqv_pure rfl
    · cases t with
      | coll b => exact eqv_pure rfl
      | base _ =>
        simp only [renTy]
        refine eqv_bind (eqv_kidM i) (fun k => ?_)
        rw [renAst_lo]
        split
        · exact eqv_errFailTok _ _ _ _
        · exact eqv_errFail _ _
      | tuple _ =>
        simp only [renTy]
        refine eqv_bind (eqv_kidM i) (fun k => ?_)
        rw [renAst_lo]
        split
        · exact eqv_errFailTok _ _ _ _
        · exact eqv_errFail _ _

/-! ## scopes and local variables -/

theorem eqv_startScope : Eqv r id startScope startScope := by
  unfold startScope
  refine eqv_modify (fun s => ?_)
  simp only [renSt, List.map_map]
  rfl

theorem endScopeGo_ren (noWarn : Bool) (pos : Int) : ∀ ls : List LocalData,
    endScopeGo noWarn pos (ls.map (renLocal r)) =
      ((endScopeGo noWarn pos ls).1.map (renLocal r), (endScopeGo noWarn pos ls).2)
  | [] => rfl
  | x :: xs => by
    have ih := endScopeGo_ren noWarn pos xs
    obtain ⟨nm, ty, lvl, uc, en⟩ := x
    show endScopeGo noWarn pos (⟨nm, R r.τ ty, lvl, uc, en⟩ :: xs.map (renLocal r)) = _
    unfold endScopeGo
    rw [ih]
    dsimp only
    split
    · split <;> rfl
    · rfl

theorem eqv_endScope (pos : Int) : Eqv r id (endScope pos) (endScope pos) := by
  unfold endScope
  refine eqv_modify (fun s => ?_)
  simp only [renSt]
  rw [endScopeGo_ren]
  rfl

theorem findLocal_ren (name : String) : ∀ ls : List LocalData,
    findLocal name (ls.map (renLocal r)) = (findLocal name ls).map (fun p => (p.1, renLocal r p.2))
  | [] => rfl
  | x :: xs => by
    have ih := findLocal_ren name xs
    obtain ⟨nm, ty, lvl, uc, en⟩ := x
    show findLocal name (⟨nm, R r.τ ty, lvl, uc, en⟩ :: xs.map (renLocal r)) = _
    unfold findLocal
    rw [ih]
    dsimp only
    split
    · rfl
    · cases findLocal name xs <;> rfl

theorem set_map {α β : Type} (f : α → β) (l : List α) (i : Nat) (x : α) :
    (l.map f).set i (f x) = (l.set i x).map f := by
  rw [List.map_set]

theorem eqv_addLocal (name : String) (t : Ty) (pos : Int) :
    Eqv r id (addLocal name (R r.τ t) pos) (addLocal name t pos) := by
  intro s
  unfold addLocal
  simp only [renSt]
  rw [findLocal_ren]
  cases hf : findLocal name s.locals with
  | none =>
    simp only [Option.map_none, mapRes, id, List.map_append, List.map_cons, List.map_nil, renLocal]
  | some p =>
    obtain ⟨i, w⟩ := p
    simp only [Option.map_some, renLocal]
    split
    · rfl
    · simp only [mapRes, id]
      rw [List.map_set]
      rfl

theorem eqv_getLocal (name : String) (pos : Int) :
    Eqv r (R r.τ) (getLocal name pos) (getLocal name pos) := by
  intro s
  unfold getLocal
  simp only [renSt]
  rw [findLocal_ren]
  cases hf : findLocal name s.locals with
  | none =>
    simp only [Option.map_none]
    by_cases h : s.argDecl > 0
    · simp only [h, ↓reduceIte]; rfl
    · simp only [h, ↓reduceIte]; rfl
  | some p =>
    obtain ⟨i, w⟩ := p
    simp only [Option.map_some, renLocal]
    cases hen : w.enabled
    · rfl
    · simp only [mapRes, Bool.not_true, Bool.false_eq_true, ↓reduceIte]
      rw [List.map_set]
      rfl

theorem eqv_clearLocals : Eqv r id clearLocals clearLocals := by
  unfold clearLocals
  refine eqv_modify (fun s => ?_)
  simp only [renSt]
  rw [List.filter_map]
  rfl

theorem eqv_visitChildDecl (hv : VE r v' v a) (i : Nat) (d : Ty) :
    Eqv r id (visitChildDecl v' (renAst r.ρ.f a) i (R r.τ d)) (visitChildDecl v a i d) := by
  unfold visitChildDecl
  refine eqv_bind (eqv_setCur rfl) (fun _ => ?_)
  refine eqv_bind (eqv_modify (fun s => rfl)) (fun _ => ?_)
  refine eqv_bind (eqv_visitChild hv i) (fun _ => ?_)
  refine eqv_bind (eqv_modify (fun s => rfl)) (fun _ => ?_)
  exact eqv_setCur rfl

theorem eqv_tupleOfData : Eqv r id (tupleOfData (renAst r.ρ.f a)) (tupleOfData a) := by
  unfold tupleOfData
  rw [renAst_data]
  cases hd : a.data with
  | text s => rw [renData_text]; exact eqv_stuck _
  | tuple l => rw [renData_not_text _ _ (by intro s h; cases h)]; exact eqv_pure rfl
  | none => rw [renData_not_text _ _ (by intro s h; cases h)]; exact eqv_stuck _
  | int _ => rw [renData_not_text _ _ (by intro s h; cases h)]; exact eqv_stuck _

theorem eqv_mkTuple (site : String) (cs : List Ty) :
    Eqv r (R r.τ) (mkTuple site (RL r.τ cs)) (mkTuple site cs) := by
  unfold mkTuple
  rw [isEmpty_RL]
  split
  · exact eqv_stuck _
  · exact eqv_pure (tupleOf_RL r.τ cs).symm

end tree

/-! ## the context -/

theorem lookup_map_key {α β : Type} (b : Bij) (φ : α → β) (k : String) : ∀ l : List (String × α),
    lookup (l.map fun p => (b.f p.1, φ p.2)) (b.f k) = (lookup l k).map φ
  | [] => rfl
  | (k', x) :: rest => by
    show (if b.f k' == b.f k then some (φ x) else lookup (rest.map fun p => (b.f p.1, φ p.2)) (b.f k)) = _
    rw [b.beq, lookup_map_key b φ k rest]
    show _ = Option.map φ (if k' == k then some x else lookup rest k)
    split <;> rfl

theorem lookup_types_ren (Γ : Ctx) (k : String) :
    lookup (renCtx r Γ).types (r.ρ.f k) = (lookup Γ.types k).map (RE r.τ) :=
  lookup_map_key r.ρ (RE r.τ) k Γ.types

theorem lookup_funcs_ren (Γ : Ctx) (k : String) :
    lookup (renCtx r Γ).funcs (r.ρ.f k) = (lookup Γ.funcs k).map (renDecl r) :=
  lookup_map_key r.ρ (renDecl r) k Γ.funcs

theorem renData_nonglob (g : String → String) {id : Tok} (h : isGlob id = false) (d : TokData) :
    renData g id d = d := by
  unfold renData; rw [h]; rfl

theorem isLogicTy_RE (t : ExprTy) : isLogicTy (RE r.τ t) = isLogicTy t := by cases t <;> rfl

/-! ## the rules -/

section rules
variable {Γ : Ctx} {v' v : Visitor} {a : Ast}

theorem eqv_viGlobal (hg : isGlob a.id = true) (parent : Option Tok) :
    Eqv r id (viGlobal (renCtx r Γ) parent (renAst r.ρ.f a)) (viGlobal Γ parent a) := by
  unfold viGlobal textOf
  rw [renAst_data, renAst_lo]
  cases hd : a.data with
  | text s =>
    rw [renData_text, if_pos hg]
    simp only [bind_pure_left']
    rw [lookup_funcs_ren, lookup_types_ren]
    have : ((lookup Γ.funcs s).map (renDecl r)).isSome = (lookup Γ.funcs s).isSome := by
      cases lookup Γ.funcs s <;> rfl
    rw [this]
    split
    · exact eqv_errFail _ _
    · cases lookup Γ.types s with
      | none => exact eqv_errFail _ _
      | some t =>
        simp only [Option.map_some]
        rw [isLogicTy_RE]
        split
        · exact eqv_errFail _ _
        · exact eqv_setCur rfl
  | tuple l => rw [renData_not_text _ _ (by intro s h; cases h)]; exact eqv_stuck _
  | none => rw [renData_not_text _ _ (by intro s h; cases h)]; exact eqv_stuck _
  | int _ => rw [renData_not_text _ _ (by intro s h; cases h)]; exact eqv_stuck _

theorem eqv_viRadical (hid : a.id = .ID_RADICAL) (hfix : ∀ s, a.data = .text s → r.τ.β.f s = s) :
    Eqv r id (viRadical (renCtx r Γ) (renAst r.ρ.f a)) (viRadical Γ a) := by
  unfold viRadical textOf
  rw [renAst_data, renAst_lo, renData_nonglob _ (by rw [hid]; rfl)]
  cases hd : a.data with
  | text s =>
    simp only [bind_pure_left']
    refine eqv_bind eqv_getSt (fun st => ?_)
    show Eqv r id (if st.funcDecl == 0 && !Γ.isTypification then _ else _) _
    split
    · exact eqv_errFail _ _
    · refine eqv_setCur ?_
      show _ = ExprTy.ty (Ty.coll (Ty.base (r.τ.β.f s)))
      rw [hfix s hd]
  | tuple l => exact eqv_stuck _
  | none => exact eqv_stuck _
  | int _ => exact eqv_stuck _

theorem eqv_viLocal (hid : a.id = .ID_LOCAL) :
    Eqv r id (viLocal (renAst r.ρ.f a)) (viLocal a) := by
  unfold viLocal textOf
  rw [renAst_data, renAst_lo, renData_nonglob _ (by rw [hid]; rfl)]
  cases hd : a.data with
  | text s =>
    simp only [bind_pure_left']
    refine eqv_bind eqv_getSt (fun st => ?_)
    show Eqv r id (if st.localDecl > 0 || st.argDecl > 0 then
      M.bind (expectTy "ViLocal" (RE r.τ st.cur)) fun t => addLocal s t a.lo else _) _
    split
    · exact eqv_bind (eqv_expectTy _ _) (fun t => eqv_addLocal _ _ _)
    · exact eqv_bind (eqv_getLocal _ _) (fun t => eqv_setCur rfl)
  | tuple l => exact eqv_stuck _
  | none => exact eqv_stuck _
  | int _ => exact eqv_stuck _

theorem eqv_viEmptySet (parent : Option Tok) :
    Eqv r id (viEmptySet parent (renAst r.ρ.f a)) (viEmptySet parent a) := by
  unfold viEmptySet
  rw [renAst_lo]
  split
  · exact eqv_errFail _ _
  · exact eqv_setCur (by show _ = ExprTy.ty (R r.τ Ty.emptySet); rw [R_emptySet])

theorem eqv_viFunctionDefinition (hv : VE r v' v a) :
    Eqv r id (viFunctionDefinition v' (renAst r.ρ.f a)) (viFunctionDefinition v a) := by
  unfold viFunctionDefinition
  rw [renAst_lo]
  refine eqv_bind eqv_startScope (fun _ => ?_)
  refine eqv_bind (eqv_modify (fun s => rfl)) (fun _ => ?_)
  refine eqv_bind (eqv_visitChild hv 0) (fun _ => ?_)
  refine eqv_bind (eqv_modify (fun s => rfl)) (fun _ => ?_)
  refine eqv_bind (eqv_childType hv 1) (fun t => ?_)
  refine eqv_bind (eqv_endScope _) (fun _ => ?_)
  exact eqv_setCur rfl

theorem eqv_viAllLogic (hv : VE r v' v a) :
    Eqv r id (viAllLogic v' (renAst r.ρ.f a)) (viAllLogic v a) := by
  unfold viAllLogic
  rw [renAst_id, renAst_kids]
  exact eqv_bind (eqv_visitAll _ _ hv) (fun _ => eqv_setCur rfl)

theorem eqv_viCard (hv : VE r v' v a) : Eqv r id (viCard v' (renAst r.ρ.f a)) (viCard v a) := by
  unfold viCard
  exact eqv_bind (eqv_childTypeDebool hv _ _ _) (fun _ => eqv_setCur (by show _ = ExprTy.ty (R r.τ Ty.Z); rw [R_Z]))

theorem eqv_viQuantifier (hv : VE r v' v a) :
    Eqv r id (viQuantifier v' (renAst r.ρ.f a)) (viQuantifier v a) := by
  unfold viQuantifier
  rw [renAst_lo]
  refine eqv_bind eqv_startScope (fun _ => ?_)
  refine eqv_bind (eqv_childTypeDebool hv _ _ _) (fun d => ?_)
  refine eqv_bind (eqv_visitChildDecl hv 0 d) (fun _ => ?_)
  refine eqv_bind (eqv_visitChild hv 2) (fun _ => ?_)
  refine eqv_bind (eqv_endScope _) (fun _ => ?_)
  exact eqv_setCur rfl

theorem eqv_viDeclarative (hv : VE r v' v a) :
    Eqv r id (viDeclarative v' (renAst r.ρ.f a)) (viDeclarative v a) := by
  unfold viDeclarative
  rw [renAst_lo]
  refine eqv_bind eqv_startScope (fun _ => ?_)
  refine eqv_bind (eqv_childTypeDebool hv _ _ _) (fun d => ?_)
  refine eqv_bind (eqv_visitChildDecl hv 0 d) (fun _ => ?_)
  refine eqv_bind (eqv_visitChild hv 2) (fun _ => ?_)
  refine eqv_bind (eqv_endScope _) (fun _ => ?_)
  exact eqv_setCur rfl

theorem eqv_viImperative (hv : VE r v' v a) :
    Eqv r id (viImperative v' (renAst r.ρ.f a)) (viImperative v a) := by
  unfold viImperative visitFrom
  rw [renAst_lo, renAst_id, renAst_kids, ← List.map_drop]
  refine eqv_bind eqv_startScope (fun _ => ?_)
  refine eqv_bind (eqv_visitAll _ _ (fun k hk => hv k (List.mem_of_mem_drop hk))) (fun _ => ?_)
  refine eqv_bind (eqv_childType hv 0) (fun t => ?_)
  refine eqv_bind (eqv_endScope _) (fun _ => ?_)
  refine eqv_bind (eqv_expectTy _ t) (fun t' => ?_)
  exact eqv_setCur rfl

theorem eqv_viIterate (hv : VE r v' v a) : Eqv r id (viIterate v' (renAst r.ρ.f a)) (viIterate v a) := by
  unfold viIterate
  exact eqv_bind (eqv_childTypeDebool hv _ _ _) (fun d => eqv_visitChildDecl hv 0 d)

theorem eqv_viAssign (hv : VE r v' v a) : Eqv r id (viAssign v' (renAst r.ρ.f a)) (viAssign v a) := by
  unfold viAssign
  refine eqv_bind (eqv_childType hv 1) (fun t => ?_)
  exact eqv_bind (eqv_expectTy _ t) (fun d => eqv_visitChildDecl hv 0 d)

theorem eqv_viBoolean (hv : VE r v' v a) : Eqv r id (viBoolean v' (renAst r.ρ.f a)) (viBoolean v a) := by
  unfold viBoolean
  exact eqv_bind (eqv_childTypeDebool hv _ _ _) (fun _ => eqv_setCur rfl)

theorem eqv_viDebool (hv : VE r v' v a) : Eqv r id (viDebool v' (renAst r.ρ.f a)) (viDebool v a) := by
  unfold viDebool
  exact eqv_bind (eqv_childTypeDebool hv _ _ _) (fun _ => eqv_setCur rfl)

end rules

/-! ## binding a child / a payload with knowledge of where it comes from -/

section rules2
variable {Γ : Ctx} {v' v : Visitor} {a : Ast}

theorem eqv_bind_kidM {β} {ψ : β → β} {f' f : Ast → M β} (i : Nat)
    (hf : ∀ k, a.kid i = some k → Eqv r ψ (f' (renAst r.ρ.f k)) (f k)) :
    Eqv r ψ (M.bind (kidM (renAst r.ρ.f a) i) f') (M.bind (kidM a i) f) := by
  unfold kidM
  rw [renAst_kid]
  cases hk : a.kid i with
  | none => exact eqv_stuck _
  | some k => exact hf k hk

theorem eqv_bind_textOf {β} {ψ : β → β} {k : Ast} {f' f : String → M β}
    (hf : ∀ s, k.data = .text s → Eqv r ψ (f' (if isGlob k.id then r.ρ.f s else s)) (f s)) :
    Eqv r ψ (M.bind (textOf (renAst r.ρ.f k)) f') (M.bind (textOf k) f) := by
  unfold textOf
  rw [renAst_data]
  cases hd : k.data with
  | text s => rw [renData_text]; exact hf s hd
  | tuple l => rw [renData_not_text _ _ (by intro s h; cases h)]; exact eqv_stuck _
  | none => rw [renData_not_text _ _ (by intro s h; cases h)]; exact eqv_stuck _
  | int _ => rw [renData_not_text _ _ (by intro s h; cases h)]; exact eqv_stuck _

theorem eqv_kid_errFail {β} {ψ : β → β} (i eid : Nat) :
    Eqv r ψ (M.bind (kidM (renAst r.ρ.f a) i) fun k => errFail eid k.lo)
      (M.bind (kidM a i) fun k => errFail eid k.lo : M β) :=
  eqv_bind_kidM i (fun k _ => by rw [renAst_lo]; exact eqv_errFail _ _)

theorem eqv_kid_errFail_hi {β} {ψ : β → β} (i eid : Nat) :
    Eqv r ψ (M.bind (kidM (renAst r.ρ.f a) i) fun k => errFail eid k.hi)
      (M.bind (kidM a i) fun k => errFail eid k.hi : M β) :=
  eqv_bind_kidM i (fun k _ => by rw [renAst_hi]; exact eqv_errFail _ _)

theorem eqv_kid_errFailTok {β} {ψ : β → β} (i eid : Nat) :
    Eqv r ψ (M.bind (kidM (renAst r.ρ.f a) i) fun k => errFailTok (renAst r.ρ.f a) eid k.lo)
      (M.bind (kidM a i) fun k => errFailTok a eid k.lo : M β) :=
  eqv_bind_kidM i (fun k _ => by rw [renAst_lo]; exact eqv_errFailTok _ _ _ _)

theorem renCtx_traits (Γ : Ctx) : (renCtx r Γ).traits = renTE r.τ Γ.traits := rfl

/-! ## structure domains -/

mutual
theorem depth_ren (g : String → String) : ∀ a : Ast, Ast.depth (renAst g a) = Ast.depth a
  | .node _ _ _ _ ks => by simp only [renAst, Ast.depth]; rw [depthList_ren g ks]
theorem depthList_ren (g : String → String) : ∀ ks : List Ast,
    Ast.depth.depthList (renAstL g ks) = Ast.depth.depthList ks
  | [] => rfl
  | k :: ks => by simp only [renAstL, Ast.depth.depthList]; rw [depth_ren g k, depthList_ren g ks]
end

theorem all_map_congr' {α β : Type} (f : α → β) (p : β → Bool) (q : α → Bool) : ∀ (l : List α),
    (∀ m ∈ l, p (f m) = q m) → (l.map f).all p = l.all q
  | [], _ => rfl
  | x :: xs, h => by
    rw [List.map_cons, List.all_cons, List.all_cons, h x (List.mem_cons_self ..),
      all_map_congr' f p q xs (fun m hm => h m (List.mem_cons_of_mem _ hm))]

theorem isStructureDomain_ren (g : String → String) : ∀ (n : Nat) (a : Ast),
    isStructureDomain n (renAst g a) = isStructureDomain n a
  | 0, _ => rfl
  | n+1, a => by
    simp only [isStructureDomain]
    rw [renAst_id, renAst_kids, all_map_congr' _ _ _ _ (fun k _ => isStructureDomain_ren g n k)]

theorem structOk_ren (g : String → String) (a : Ast) : structOk (renAst g a) = structOk a := by
  unfold structOk
  rw [renAst_kids_length, renAst_kid]
  cases a.kid 1 with
  | none => rfl
  | some k => simp only [Option.map_some]; rw [depth_ren, isStructureDomain_ren]

theorem eqv_viGlobalDeclaration (hv : VE r v' v a)
    (hdecl : a.kids.length = 1 → ∀ k0, a.kid 0 = some k0 → ∀ n, k0.data = .text n →
      r.τ.β.f n = if isGlob k0.id then r.ρ.f n else n) :
    Eqv r id (viGlobalDeclaration v' (renAst r.ρ.f a)) (viGlobalDeclaration v a) := by
  unfold viGlobalDeclaration
  rw [renAst_id, structOk_ren, renAst_kids_length]
  split
  · split
    · exact eqv_kid_errFail_hi 0 _
    · refine eqv_bind (eqv_childType hv 1) (fun mt => ?_)
      refine eqv_bind (eqv_expectTy _ mt) (fun t => ?_)
      cases t with
      | coll b => exact eqv_setCur rfl
      | base _ => exact eqv_kid_errFail_hi 0 _
      | tuple _ => exact eqv_kid_errFail_hi 0 _
  · split
    · rename_i hlen
      refine eqv_bind_kidM 0 (fun k0 hk0 => ?_)
      refine eqv_bind_textOf (fun n hn => ?_)
      refine eqv_setCur ?_
      show _ = ExprTy.ty (Ty.coll (Ty.base (r.τ.β.f n)))
      rw [hdecl (by simpa using hlen) k0 hk0 n hn]
    · exact eqv_bind (eqv_childType hv 1) (fun t => eqv_setCur rfl)

theorem eqv_viArgument (hv : VE r v' v a)
    (harg : ∀ k0, a.kid 0 = some k0 → ∀ n, k0.data = .text n → isGlob k0.id = true → r.ρ.f n = n) :
    Eqv r id (viArgument v' (renAst r.ρ.f a)) (viArgument v a) := by
  unfold viArgument
  refine eqv_bind (eqv_childTypeDebool hv _ _ _) (fun d => ?_)
  refine eqv_bind (eqv_modify (fun s => rfl)) (fun _ => ?_)
  refine eqv_bind (eqv_visitChild hv 0) (fun _ => ?_)
  refine eqv_bind_kidM 0 (fun k0 hk0 => ?_)
  refine eqv_bind_textOf (fun n hn => ?_)
  have hname : (if isGlob k0.id then r.ρ.f n else n) = n := by
    split
    · rename_i h; exact harg k0 hk0 n hn h
    · rfl
  rw [hname]
  refine eqv_bind (eqv_modify (fun s => ?_)) (fun _ => ?_)
  · simp only [renSt, renDecl, List.map_append, List.map_cons, List.map_nil]
  refine eqv_bind (eqv_modify (fun s => rfl)) (fun _ => ?_)
  exact eqv_setCur rfl

theorem eqv_viArithmetic (hv : VE r v' v a) :
    Eqv r id (viArithmetic (renCtx r Γ) v' (renAst r.ρ.f a)) (viArithmetic Γ v a) := by
  unfold viArithmetic
  rw [renCtx_traits]
  refine eqv_bind (eqv_childType hv 0) (fun r1 => ?_)
  refine eqv_bind (eqv_expectTy _ r1) (fun t1 => ?_)
  rw [isArithmetic_R]
  split
  · exact eqv_kid_errFail 0 _
  · refine eqv_bind (eqv_childType hv 1) (fun r2 => ?_)
    refine eqv_bind (eqv_expectTy _ r2) (fun t2 => ?_)
    rw [isArithmetic_R]
    split
    · exact eqv_kid_errFail 1 _
    · rw [merge_R]
      cases merge Γ.traits t1 t2 with
      | none => exact eqv_kid_errFail 1 _
      | some t => exact eqv_setCur rfl

theorem eqv_viIntegerPredicate (hv : VE r v' v a) :
    Eqv r id (viIntegerPredicate (renCtx r Γ) v' (renAst r.ρ.f a)) (viIntegerPredicate Γ v a) := by
  unfold viIntegerPredicate
  rw [renCtx_traits]
  refine eqv_bind (eqv_childType hv 0) (fun r1 => ?_)
  refine eqv_bind (eqv_expectTy _ r1) (fun t1 => ?_)
  rw [isOrdered_R]
  split
  · exact eqv_kid_errFail 0 _
  · refine eqv_bind (eqv_childType hv 1) (fun r2 => ?_)
    refine eqv_bind (eqv_expectTy _ r2) (fun t2 => ?_)
    rw [isOrdered_R]
    split
    · exact eqv_kid_errFail 1 _
    · rw [compat_R]
      split
      · exact eqv_kid_errFail 1 _
      · exact eqv_setCur rfl

theorem eqv_viEquals (hv : VE r v' v a) :
    Eqv r id (viEquals (renCtx r Γ) v' (renAst r.ρ.f a)) (viEquals Γ v a) := by
  unfold viEquals
  rw [renCtx_traits]
  refine eqv_bind (eqv_childType hv 0) (fun r1 => ?_)
  refine eqv_bind (eqv_expectTy _ r1) (fun t1 => ?_)
  refine eqv_bind (eqv_childType hv 1) (fun r2 => ?_)
  refine eqv_bind (eqv_expectTy _ r2) (fun t2 => ?_)
  rw [compat_R]
  split
  · exact eqv_kid_errFail 1 _
  · exact eqv_setCur rfl

theorem eqv_viSetexprPredicate (hv : VE r v' v a) :
    Eqv r id (viSetexprPredicate (renCtx r Γ) v' (renAst r.ρ.f a)) (viSetexprPredicate Γ v a) := by
  unfold viSetexprPredicate
  rw [renCtx_traits, renAst_id]
  refine eqv_bind (eqv_childTypeDebool hv _ _ _) (fun d2 => ?_)
  refine eqv_bind (eqv_childType hv 0) (fun r1 => ?_)
  have ht : ExprTy.ty (if isSubsetTok a.id = true then Ty.coll (R r.τ d2) else R r.τ d2) =
      RE r.τ (.ty (if isSubsetTok a.id = true then Ty.coll d2 else d2)) := by
    split <;> rfl
  show Eqv r id (match compatE (renTE r.τ Γ.traits) (RE r.τ r1)
      (ExprTy.ty (if isSubsetTok a.id = true then Ty.coll (R r.τ d2) else R r.τ d2)) with
    | none => stuckM "bad_variant_access:AreCompatible"
    | some true => setCur .logic
    | some false => _) _
  rw [ht, compatE_R]
  cases compatE Γ.traits r1 (.ty (if isSubsetTok a.id = true then Ty.coll d2 else d2)) with
  | none => exact eqv_stuck _
  | some b =>
    cases b with
    | true => exact eqv_setCur rfl
    | false => exact eqv_kid_errFail 1 _

theorem eqv_viSetexprBinary (hv : VE r v' v a) :
    Eqv r id (viSetexprBinary (renCtx r Γ) v' (renAst r.ρ.f a)) (viSetexprBinary Γ v a) := by
  unfold viSetexprBinary
  rw [renCtx_traits]
  refine eqv_bind (eqv_childTypeDebool hv _ _ _) (fun t1 => ?_)
  refine eqv_bind (eqv_childTypeDebool hv _ _ _) (fun t2 => ?_)
  rw [merge_R]
  cases merge Γ.traits t1 t2 with
  | none => exact eqv_kid_errFail 1 _
  | some t => exact eqv_setCur rfl

theorem eqv_viReduce (hv : VE r v' v a) : Eqv r id (viReduce v' (renAst r.ρ.f a)) (viReduce v a) := by
  unfold viReduce
  refine eqv_bind (eqv_childType hv 0) (fun r1 => ?_)
  refine eqv_bind (eqv_expectTy _ r1) (fun arg => ?_)
  have hany : anyOrEmptySet (R r.τ arg) = anyOrEmptySet arg := by
    unfold anyOrEmptySet
    rw [isAny_R]
    cases arg with
    | coll b => simp only [renTy]; rw [isAny_R]
    | base _ => rfl
    | tuple _ => rfl
  rw [hany]
  split
  · exact eqv_setCur (by show _ = ExprTy.ty (R r.τ Ty.emptySet); rw [R_emptySet])
  · cases arg with
    | coll b =>
      cases b with
      | coll c => exact eqv_setCur rfl
      | base _ => exact eqv_bind_kidM 0 (fun k _ => by rw [renAst_lo]; exact eqv_errFail _ _)
      | tuple _ => exact eqv_bind_kidM 0 (fun k _ => by rw [renAst_lo]; exact eqv_errFail _ _)
    | base _ => exact eqv_bind_kidM 0 (fun k _ => by rw [renAst_lo]; exact eqv_errFail _ _)
    | tuple _ => exact eqv_bind_kidM 0 (fun k _ => by rw [renAst_lo]; exact eqv_errFail _ _)

end rules2

/-! ## the rules with loops -/

section rules3
variable {Γ : Ctx} {v' v : Visitor} {a : Ast}

theorem eqv_tupleDeclGo (p : Tok) : ∀ (ks : List Ast) (cs : List Ty),
    (∀ k ∈ ks, ∀ q, Eqv r id (v' q (renAst r.ρ.f k)) (v q k)) →
    Eqv r id (tupleDeclGo v' p (ks.map (renAst r.ρ.f)) (RL r.τ cs)) (tupleDeclGo v p ks cs)
  | [], _, _ => eqv_pure rfl
  | _ :: _, [], _ => eqv_stuck _
  | k :: ks, c :: cs, h => by
    rw [List.map_cons]
    show Eqv r id (tupleDeclGo v' p (renAst r.ρ.f k :: ks.map (renAst r.ρ.f)) (R r.τ c :: RL r.τ cs)) _
    unfold tupleDeclGo
    refine eqv_bind (eqv_setCur rfl) (fun _ => ?_)
    refine eqv_bind (h k (List.mem_cons_self ..) _) (fun _ => ?_)
    exact eqv_tupleDeclGo p ks cs (fun k' hk' => h k' (List.mem_cons_of_mem _ hk'))

theorem eqv_viTupleDeclaration (hv : VE r v' v a) :
    Eqv r id (viTupleDeclaration v' (renAst r.ρ.f a)) (viTupleDeclaration v a) := by
  unfold viTupleDeclaration
  refine eqv_bind eqv_getSt (fun st => ?_)
  show Eqv r id (M.bind (expectTy "ViTupleDeclaration" (RE r.τ st.cur)) _) _
  refine eqv_bind (eqv_expectTy _ _) (fun t => ?_)
  cases t with
  | tuple cs =>
    simp only [renTy]
    rw [renAst_kids_length, length_RL, renAst_id, renAst_kids]
    split
    · exact eqv_kid_errFail 0 _
    · exact eqv_bind (eqv_tupleDeclGo _ _ _ hv) (fun _ => eqv_setCur rfl)
  | base _ => exact eqv_kid_errFail 0 _
  | coll _ => exact eqv_kid_errFail 0 _

theorem eqv_deboolAll (hv : VE r v' v a) (eid : Nat) : ∀ (n i : Nat),
    Eqv r (RL r.τ) (deboolAll v' (renAst r.ρ.f a) eid n i) (deboolAll v a eid n i)
  | 0, _ => eqv_pure rfl
  | n+1, i => by
    unfold deboolAll
    refine eqv_bind (eqv_childTypeDebool hv _ _ _) (fun t => ?_)
    refine eqv_bind (eqv_deboolAll hv eid n (i + 1)) (fun ts => ?_)
    exact eqv_pure rfl

theorem eqv_viDecart (hv : VE r v' v a) : Eqv r id (viDecart v' (renAst r.ρ.f a)) (viDecart v a) := by
  unfold viDecart
  rw [renAst_kids_length]
  refine eqv_bind (eqv_deboolAll hv _ _ _) (fun fs => ?_)
  exact eqv_bind (eqv_mkTuple _ fs) (fun t => eqv_setCur rfl)

theorem eqv_typesAll (hv : VE r v' v a) (site : String) : ∀ (n i : Nat),
    Eqv r (RL r.τ) (typesAll v' (renAst r.ρ.f a) site n i) (typesAll v a site n i)
  | 0, _ => eqv_pure rfl
  | n+1, i => by
    unfold typesAll
    refine eqv_bind (eqv_childType hv _) (fun r1 => ?_)
    refine eqv_bind (eqv_expectTy _ r1) (fun t => ?_)
    refine eqv_bind (eqv_typesAll hv site n (i + 1)) (fun ts => ?_)
    exact eqv_pure rfl

theorem eqv_viTuple (hv : VE r v' v a) : Eqv r id (viTuple v' (renAst r.ρ.f a)) (viTuple v a) := by
  unfold viTuple
  rw [renAst_kids_length]
  refine eqv_bind (eqv_typesAll hv _ _ _) (fun cs => ?_)
  exact eqv_bind (eqv_mkTuple _ cs) (fun t => eqv_setCur rfl)

theorem eqv_enumGo (hv : VE r v' v a) : ∀ (n child : Nat) (t : Ty),
    Eqv r (R r.τ) (enumGo (renCtx r Γ) v' (renAst r.ρ.f a) n child (R r.τ t)) (enumGo Γ v a n child t)
  | 0, _, _ => eqv_pure rfl
  | n+1, child, t => by
    unfold enumGo
    rw [renCtx_traits]
    refine eqv_bind (eqv_childType hv _) (fun r1 => ?_)
    refine eqv_bind (eqv_expectTy _ r1) (fun ct => ?_)
    rw [merge_R]
    cases merge Γ.traits t ct with
    | none => exact eqv_bind_kidM child (fun k _ => by rw [renAst_lo]; exact eqv_errFail _ _)
    | some m => exact eqv_enumGo hv n (child + 1) m

theorem eqv_viEnumeration (hv : VE r v' v a) :
    Eqv r id (viEnumeration (renCtx r Γ) v' (renAst r.ρ.f a)) (viEnumeration Γ v a) := by
  unfold viEnumeration
  rw [renAst_kids_length]
  refine eqv_bind (eqv_childType hv _) (fun r1 => ?_)
  refine eqv_bind (eqv_expectTy _ r1) (fun t0 => ?_)
  exact eqv_bind (eqv_enumGo hv _ _ t0) (fun t => eqv_setCur rfl)

theorem pickComponents_RL (cs : List Ty) : ∀ idx : List Int,
    pickComponents (RL r.τ cs) idx = (pickComponents cs idx).map (RL r.τ)
  | [] => rfl
  | i :: is => by
    unfold pickComponents
    rw [testIndex_RL, component_RL, pickComponents_RL cs is]
    split
    · cases Ty.component? cs i with
      | none => rfl
      | some c => cases pickComponents cs is <;> rfl
    · rfl

theorem anyOrEmptySet_R (arg : Ty) : anyOrEmptySet (R r.τ arg) = anyOrEmptySet arg := by
  unfold anyOrEmptySet
  rw [isAny_R]
  cases arg with
  | coll b => simp only [renTy]; rw [isAny_R]
  | base _ => rfl
  | tuple _ => rfl

theorem eqv_viProjectSet (hv : VE r v' v a) :
    Eqv r id (viProjectSet v' (renAst r.ρ.f a)) (viProjectSet v a) := by
  unfold viProjectSet
  refine eqv_bind (eqv_childTypeDebool hv _ _ _) (fun arg => ?_)
  rw [isAny_R]
  split
  · exact eqv_setCur (by show _ = ExprTy.ty (R r.τ Ty.emptySet); rw [R_emptySet])
  · cases arg with
    | tuple cs =>
      simp only [renTy]
      refine eqv_bind eqv_tupleOfData (fun idx => ?_)
      simp only [id]
      rw [pickComponents_RL]
      cases pickComponents cs idx with
      | none => exact eqv_kid_errFailTok 0 _
      | some comps => exact eqv_bind (eqv_mkTuple _ comps) (fun t => eqv_setCur rfl)
    | base _ => exact eqv_kid_errFailTok 0 _
    | coll _ => exact eqv_kid_errFailTok 0 _

theorem eqv_viProjectTuple (hv : VE r v' v a) :
    Eqv r id (viProjectTuple v' (renAst r.ρ.f a)) (viProjectTuple v a) := by
  unfold viProjectTuple
  refine eqv_bind (eqv_childType hv _) (fun r1 => ?_)
  refine eqv_bind (eqv_expectTy _ r1) (fun arg => ?_)
  rw [isAny_R]
  split
  · exact eqv_setCur rfl
  · cases arg with
    | tuple cs =>
      simp only [renTy]
      refine eqv_bind eqv_tupleOfData (fun idx => ?_)
      simp only [id]
      rw [pickComponents_RL]
      cases pickComponents cs idx with
      | none => exact eqv_kid_errFailTok 0 _
      | some comps => exact eqv_bind (eqv_mkTuple _ comps) (fun t => eqv_setCur rfl)
    | base _ => exact eqv_kid_errFailTok 0 _
    | coll _ => exact eqv_kid_errFailTok 0 _

theorem eqv_filterParamsGo (hv : VE r v' v a) : ∀ (n child : Nat) (bases : List Ty),
    Eqv r id (filterParamsGo (renCtx r Γ) v' (renAst r.ρ.f a) n child (RL r.τ bases))
      (filterParamsGo Γ v a n child bases)
  | 0, _, _ => eqv_pure rfl
  | n+1, child, bases => by
    unfold filterParamsGo
    rw [renCtx_traits]
    refine eqv_bind (eqv_childType hv _) (fun r1 => ?_)
    refine eqv_bind (eqv_expectTy _ r1) (fun pt => ?_)
    cases bases with
    | nil => exact eqv_stuck _
    | cons b rest =>
      simp only [renTyL]
      cases pt with
      | coll pb =>
        simp only [renTy]
        rw [compat_R]
        split
        · exact eqv_filterParamsGo hv n (child + 1) rest
        · exact eqv_kid_errFail child _
      | base _ => exact eqv_kid_errFail child _
      | tuple _ => exact eqv_kid_errFail child _

theorem eqv_visitParamsGo (hv : VE r v' v a) : ∀ (n child : Nat),
    Eqv r id (visitParamsGo v' (renAst r.ρ.f a) n child) (visitParamsGo v a n child)
  | 0, _ => eqv_pure rfl
  | n+1, child => by
    unfold visitParamsGo
    exact eqv_bind (eqv_childType hv _) (fun _ => eqv_visitParamsGo hv n (child + 1))

theorem eqv_viFilter (hv : VE r v' v a) :
    Eqv r id (viFilter (renCtx r Γ) v' (renAst r.ρ.f a)) (viFilter Γ v a) := by
  unfold viFilter
  rw [renCtx_traits, renAst_kids_length, renAst_lo]
  refine eqv_bind eqv_tupleOfData (fun idx => ?_)
  simp only [id]
  split
  · exact eqv_errFail _ _
  · refine eqv_bind (eqv_childType hv _) (fun r1 => ?_)
    refine eqv_bind (eqv_expectTy _ r1) (fun arg => ?_)
    rw [anyOrEmptySet_R]
    split
    · exact eqv_bind (eqv_visitParamsGo hv _ _)
        (fun _ => eqv_setCur (by show _ = ExprTy.ty (R r.τ Ty.emptySet); rw [R_emptySet]))
    · cases arg with
      | coll b =>
        cases b with
        | tuple cs =>
          simp only [renTy]
          rw [pickComponents_RL]
          cases pickComponents cs idx with
          | none => exact eqv_kid_errFailTok _ _
          | some bases =>
            simp only [Option.map_some]
            split
            · exact eqv_bind (eqv_filterParamsGo hv _ _ bases) (fun _ => eqv_setCur rfl)
            · refine eqv_bind (eqv_childType hv 0) (fun pr => ?_)
              refine eqv_bind (eqv_expectTy _ pr) (fun pt => ?_)
              refine eqv_bind (eqv_mkTuple _ bases) (fun et => ?_)
              have hc : compat (renTE r.τ Γ.traits) (Ty.coll (R r.τ et)) (R r.τ pt) =
                  compat Γ.traits (Ty.coll et) pt := compat_R r.τ Γ.traits (Ty.coll et) pt
              rw [isColl_R, hc]
              split
              · exact eqv_setCur rfl
              · exact eqv_kid_errFail 0 _
        | base _ => exact eqv_kid_errFailTok _ _
        | coll _ => exact eqv_kid_errFailTok _ _
      | base _ => exact eqv_kid_errFailTok _ _
      | tuple _ => exact eqv_kid_errFailTok _ _

end rules3

/-! ## recursion, function calls -/

section rules4
variable {Γ : Ctx} {v' v : Visitor} {a : Ast}

theorem eqv_recursionRounds (te : TraitEnv) (hv : VE r v' v a) (idx : Nat) : ∀ (n : Nat) (it : Ty),
    Eqv r (Option.map (R r.τ)) (recursionRounds (renTE r.τ te) v' (renAst r.ρ.f a) idx n (R r.τ it))
      (recursionRounds te v a idx n it)
  | 0, _ => eqv_pure rfl
  | n+1, it => by
    unfold recursionRounds
    refine eqv_bind eqv_clearLocals (fun _ => ?_)
    refine eqv_bind (eqv_visitChildDecl hv 0 it) (fun _ => ?_)
    refine eqv_bind (eqv_childType hv idx) (fun r1 => ?_)
    refine eqv_bind (eqv_expectTy _ r1) (fun nt => ?_)
    rw [merge_R]
    cases merge te nt it with
    | none => exact eqv_pure rfl
    | some nv =>
      simp only [Option.map_some]
      rw [beq_R']
      split
      · exact eqv_pure rfl
      · exact eqv_recursionRounds te hv idx n nv

theorem eqv_viRecursion (hv : VE r v' v a) :
    Eqv r id (viRecursion (renCtx r Γ) v' (renAst r.ρ.f a)) (viRecursion Γ v a) := by
  unfold viRecursion
  rw [renCtx_traits, renAst_id, renAst_lo]
  refine eqv_bind eqv_startScope (fun _ => ?_)
  refine eqv_bind (eqv_childType hv 1) (fun initR => ?_)
  refine eqv_bind (eqv_expectTy _ initR) (fun initT => ?_)
  refine eqv_bind (eqv_visitChildDecl hv 0 initT) (fun _ => ?_)
  dsimp only
  refine eqv_bind (eqv_childType hv _) (fun itR => ?_)
  rw [compatE_R]
  cases compatE Γ.traits itR initR with
  | none => exact eqv_stuck _
  | some b =>
    cases b with
    | false => exact eqv_kid_errFail _ _
    | true =>
      dsimp only
      refine eqv_bind (eqv_expectTy _ itR) (fun it0 => ?_)
      rw [merge_R]
      cases merge Γ.traits it0 initT with
      | none => exact eqv_kid_errFail _ _
      | some vt0 =>
        simp only [Option.map_some]
        refine eqv_bind (eqv_modify (fun s => rfl)) (fun _ => ?_)
        refine eqv_bind (eqv_recursionRounds _ hv _ _ vt0) (fun stable => ?_)
        refine eqv_bind (eqv_modify (fun s => rfl)) (fun _ => ?_)
        cases stable with
        | none => exact eqv_kid_errFail _ _
        | some it =>
          simp only [Option.map_some]
          refine eqv_bind (φ := id) ?_ (fun _ => ?_)
          · split
            · exact eqv_visitChild hv 2
            · exact eqv_pure rfl
          refine eqv_bind (eqv_endScope _) (fun _ => ?_)
          exact eqv_setCur rfl

theorem length_renDecl (d : List (String × Ty)) : (renDecl r d).length = d.length := by
  unfold renDecl; rw [List.length_map]

theorem eqv_checkArgsGo (hv : VE r v' v a) {fn : String}
    (hfn : ∀ id, isRadical id = true → r.τ.β.f (id ++ fn) = r.τ.β.f id ++ r.ρ.f fn) :
    ∀ (n : Nat) (decl : List (String × Ty)) (child : Nat) (subs : Subst),
    Eqv r (renS r.τ) (checkArgsGo (renCtx r Γ) v' (renAst r.ρ.f a) (r.ρ.f fn) n (renDecl r decl) child (renS r.τ subs))
      (checkArgsGo Γ v a fn n decl child subs)
  | 0, _, _, _ => eqv_pure rfl
  | n+1, decl, child, subs => by
    unfold checkArgsGo
    rw [renCtx_traits]
    refine eqv_bind (eqv_childType hv child) (fun ct => ?_)
    cases ct with
    | logic => exact eqv_failSilent
    | ty vt =>
      simp only [renE]
      cases decl with
      | nil => exact eqv_stuck _
      | cons p rest =>
        obtain ⟨nm, dt⟩ := p
        simp only [renDecl, List.map_cons]
        rw [mangle_R r.τ hfn dt, compareTemplated_R]
        cases hc : compareTemplated Γ.traits subs (mangle fn dt) vt with
        | mk ok subs' =>
          cases ok with
          | false => exact eqv_kid_errFail child _
          | true => exact eqv_checkArgsGo hv hfn n rest (child + 1) subs'

theorem eqv_checkFuncArguments (hv : VE r v' v a) {fn : String}
    (hfn : ∀ id, isRadical id = true → r.τ.β.f (id ++ fn) = r.τ.β.f id ++ r.ρ.f fn) :
    Eqv r (renS r.τ) (checkFuncArguments (renCtx r Γ) v' (renAst r.ρ.f a) (r.ρ.f fn))
      (checkFuncArguments Γ v a fn) := by
  unfold checkFuncArguments
  rw [lookup_funcs_ren, renAst_kids_length]
  cases lookup Γ.funcs fn with
  | none => exact eqv_kid_errFail 0 _
  | some decl =>
    simp only [Option.map_some]
    rw [length_renDecl]
    split
    · exact eqv_kid_errFail 1 _
    · exact eqv_checkArgsGo hv hfn _ decl 1 []

theorem eqv_viFunctionCall (hv : VE r v' v a)
    (hcall : ∀ k0, a.kid 0 = some k0 → ∀ fn, k0.data = .text fn →
      (isGlob k0.id = false → r.ρ.f fn = fn) ∧
      ∀ id, isRadical id = true → r.τ.β.f (id ++ fn) = r.τ.β.f id ++ r.ρ.f fn) :
    Eqv r id (viFunctionCall (renCtx r Γ) v' (renAst r.ρ.f a)) (viFunctionCall Γ v a) := by
  unfold viFunctionCall
  rw [renAst_lo]
  refine eqv_bind_kidM 0 (fun k0 hk0 => ?_)
  refine eqv_bind_textOf (fun fn hfn => ?_)
  obtain ⟨h1, h2⟩ := hcall k0 hk0 fn hfn
  have hname : (if isGlob k0.id then r.ρ.f fn else fn) = r.ρ.f fn := by
    cases hg : isGlob k0.id with
    | true => rfl
    | false => simp only [Bool.false_eq_true, if_false]; exact (h1 hg).symm
  rw [hname, lookup_types_ren]
  cases lookup Γ.types fn with
  | none => exact eqv_errFail _ _
  | some ft =>
    simp only [Option.map_some]
    refine eqv_bind (eqv_checkFuncArguments hv h2) (fun subs => ?_)
    cases ft with
    | logic => exact eqv_setCur rfl
    | ty t =>
      simp only [renE]
      refine eqv_setCur ?_
      rw [isEmpty_renS, mangle_R r.τ h2 t, substBase_R]
      simp only [renE]
      split <;> rfl

end rules4

/-! ## the side conditions, the dispatcher, the visitor -/

/-- the token kinds `dispatch` sends to `viGlobalDeclaration` (everything without a rule of its own) -/
def isDeclTok : Tok → Bool
  | .ID_GLOBAL | .ID_FUNCTION | .ID_PREDICATE | .ID_LOCAL | .ID_RADICAL | .NT_FUNC_DEFINITION
  | .NT_FUNC_CALL | .LIT_INTSET | .LIT_INTEGER | .LIT_EMPTYSET | .NT_TUPLE_DECL | .NT_ENUM_DECL
  | .NT_ARGUMENTS | .NOT | .AND | .OR | .IMPLICATION | .EQUIVALENT | .NT_ARG_DECL | .PLUS | .MINUS
  | .MULTIPLY | .CARD | .FORALL | .EXISTS | .EQUAL | .NOTEQUAL | .GREATER | .LESSER | .GREATER_OR_EQ
  | .LESSER_OR_EQ | .IN | .NOTIN | .SUBSET | .SUBSET_OR_EQ | .NOTSUBSET | .ITERATE | .ASSIGN
  | .NT_DECLARATIVE_EXPR | .NT_IMPERATIVE_EXPR | .DECART | .BOOLEAN | .NT_RECURSIVE_FULL
  | .NT_RECURSIVE_SHORT | .NT_TUPLE | .NT_ENUMERATION | .BOOL | .DEBOOL | .UNION | .INTERSECTION
  | .SET_MINUS | .SYMMINUS | .BIGPR | .SMALLPR | .FILTER | .REDUCE => false
  | _ => true

/-- what the renaming must satisfy at one node -/
structure NodeOK (r : CRen) (a : Ast) : Prop where
  /-- the text of a radical token is a base name that `τ` fixes -/
  radical : a.id = .ID_RADICAL → ∀ s, a.data = .text s → r.τ.β.f s = s
  /-- the name of a called function: renamed by `ρ` as a token, and `τ` renames the mangled radicals
  `R1fn` accordingly -/
  call : a.id = .NT_FUNC_CALL → ∀ k0, a.kid 0 = some k0 → ∀ fn, k0.data = .text fn →
    (isGlob k0.id = false → r.ρ.f fn = fn) ∧
    ∀ id, isRadical id = true → r.τ.β.f (id ++ fn) = r.τ.β.f id ++ r.ρ.f fn
  /-- the declared name of `X1:==` becomes a base name: `τ` and `ρ` agree on it -/
  decl : isDeclTok a.id = true → a.kids.length = 1 → ∀ k0, a.kid 0 = some k0 → ∀ n, k0.data = .text n →
    r.τ.β.f n = if isGlob k0.id then r.ρ.f n else n
  /-- the declared variable of an argument declaration keeps its name -/
  arg : a.id = .NT_ARG_DECL → ∀ k0, a.kid 0 = some k0 → ∀ n, k0.data = .text n →
    isGlob k0.id = true → r.ρ.f n = n

/-- the side conditions at every node of the tree -/
inductive TreeOK (r : CRen) : Ast → Prop where
  | mk {a : Ast} : NodeOK r a → (∀ k ∈ a.kids, TreeOK r k) → TreeOK r a

theorem TreeOK.node {a : Ast} (h : TreeOK r a) : NodeOK r a := by cases h with | mk h _ => exact h
theorem TreeOK.kids {a : Ast} (h : TreeOK r a) : ∀ k ∈ a.kids, TreeOK r k := by cases h with | mk _ h => exact h

section
attribute [local irreducible] viGlobal viLocal viRadical viFunctionDefinition viFunctionCall viEmptySet
  viTupleDeclaration viAllLogic viArgument viArithmetic viCard viQuantifier viEquals
  viIntegerPredicate viSetexprPredicate viIterate viAssign viDeclarative viImperative viDecart
  viBoolean viRecursion viTuple viEnumeration viDebool viSetexprBinary viProjectSet viProjectTuple
  viFilter viReduce viGlobalDeclaration

theorem eqv_dispatch {Γ : Ctx} {v' v : Visitor} {a : Ast} (hv : VE r v' v a) (hn : NodeOK r a)
    (parent : Option Tok) :
    Eqv r id (dispatch (renCtx r Γ) v' parent (renAst r.ρ.f a)) (dispatch Γ v parent a) := by
  unfold dispatch
  rw [renAst_id]
  generalize hid : a.id = t
  cases t
  all_goals (dsimp only; first
    | exact eqv_viGlobal (by rw [hid]; rfl) parent
    | exact eqv_viLocal hid
    | exact eqv_viRadical hid (hn.radical hid)
    | exact eqv_viFunctionDefinition hv
    | exact eqv_viFunctionCall hv (hn.call hid)
    | exact eqv_setCur (by show _ = ExprTy.ty (Ty.coll (R r.τ Ty.Z)); rw [R_Z])
    | exact eqv_setCur (by show _ = ExprTy.ty (R r.τ Ty.Z); rw [R_Z])
    | exact eqv_viEmptySet parent
    | exact eqv_viTupleDeclaration hv
    | exact eqv_viAllLogic hv
    | exact eqv_viArgument hv (hn.arg hid)
    | exact eqv_viArithmetic hv
    | exact eqv_viCard hv
    | exact eqv_viQuantifier hv
    | exact eqv_viEquals hv
    | exact eqv_viIntegerPredicate hv
    | exact eqv_viSetexprPredicate hv
    | exact eqv_viIterate hv
    | exact eqv_viAssign hv
    | exact eqv_viDeclarative hv
    | exact eqv_viImperative hv
    | exact eqv_viDecart hv
    | exact eqv_viBoolean hv
    | exact eqv_viRecursion hv
    | exact eqv_viTuple hv
    | exact eqv_viEnumeration hv
    | exact eqv_viDebool hv
    | exact eqv_viSetexprBinary hv
    | exact eqv_viProjectSet hv
    | exact eqv_viProjectTuple hv
    | exact eqv_viFilter hv
    | exact eqv_viReduce hv
    | exact eqv_viGlobalDeclaration hv (hn.decl (by rw [hid]; rfl)))
end

/-- **equivariance of the visitor** -/
theorem eqv_visit (Γ : Ctx) : ∀ (fuel : Nat) (parent : Option Tok) (a : Ast), TreeOK r a →
    Eqv r id (visit (renCtx r Γ) fuel parent (renAst r.ρ.f a)) (visit Γ fuel parent a)
  | 0, _, _, _ => eqv_stuck _
  | n+1, parent, a, h => by
    show Eqv r id (dispatch (renCtx r Γ) (visit (renCtx r Γ) n) parent (renAst r.ρ.f a))
      (dispatch Γ (visit Γ n) parent a)
    exact eqv_dispatch (fun k hk p => eqv_visit Γ n p k (h.kids k hk)) h.node parent

/-! ## `CheckType` -/

/-- the result of `CheckType` with the types renamed (outcome, declared arguments); log and ghost
flag as they are -/
def renCheckRes (r : CRen) (c : CheckRes) : CheckRes :=
  ⟨match c.out with | .ok t => .ok (RE r.τ t) | o => o, c.errs, renDecl r c.args, c.silent⟩

theorem checkWithFuel_ren (Γ : Ctx) (fuel : Nat) {e : Ast} (h : TreeOK r e) :
    checkWithFuel (renCtx r Γ) fuel (renAst r.ρ.f e) = renCheckRes r (checkWithFuel Γ fuel e) := by
  unfold checkWithFuel
  have h0 : renSt r {} = {} := rfl
  have := eqv_visit Γ fuel none e h {}
  rw [h0] at this
  rw [this]
  cases hv : visit Γ fuel none e {} with
  | mk res s =>
    cases res with
    | ok _ => rfl
    | fail => rfl
    | stuck _ => rfl

/-- **equivariance of the type checker.** For a renaming `r` (a bijection `ρ` of the global
identifiers and an admissible renaming `τ` of the base names of types) and a tree satisfying the
side conditions `TreeOK r e`: checking the renamed tree in the renamed context gives the renamed
result — same outcome with the typification renamed, same log, same declared arguments with
their types renamed. -/
theorem check_ren (Γ : Ctx) {e : Ast} (h : TreeOK r e) :
    check (renCtx r Γ) (renAst r.ρ.f e) = renCheckRes r (check Γ e) := by
  unfold check
  rw [depth_ren]
  exact checkWithFuel_ren Γ _ h

end CCVerif.Checker
