import CCVerif.Model.Eval
/-!
FRAME + monotonicity of the evaluator model `Model/Eval.lean` in the data context.

`Interpreter::Evaluate` reads the `DataContext` in ONE place: `NameCollector::ViGlobal`
(`collect`, the first pass) looks every global name of the normalised tree up once and copies the
value into a slot; `ASTInterpreter` (`ev`) works on the slots only. Hence:

* `collect_mono` — if the first pass succeeds against `env`, it gives the same slots against every
  `env'` that shows at least the values `env` shows (induction over the fuel of `collect`; the loops
  `MergeChildren` and the block loop of `ViImperative` by `foldl_CLe`);
* `evaluate_mono` — the same for `Interpreter::Evaluate` (`evaluate`), provided the two environments
  offer the same `SyntaxTreeContext`.

The evaluator is strict in the global names the collector reaches (a missing value is
`globalMissingValue` in the first pass, whatever `&`, `∨`, `⇒` or empty domains would skip later),
so monotonicity holds without any side condition on the tree.
-/
namespace CCVerif.Eval
open CCVerif.Syntax CCVerif.Norm

/-- `r` failed, or `r'` is the same outcome -/
def CLe (r r' : CRes) : Prop := (∃ f, r = .fail f) ∨ r' = r

theorem CLe.rfl' (r : CRes) : CLe r r := Or.inr rfl
theorem CLe.fail (f : Fail) (r' : CRes) : CLe (.fail f) r' := Or.inl ⟨f, rfl⟩

/-- a continuation that keeps failures maps related outcomes to related outcomes -/
theorem CLe.app {r r' : CRes} (h : CLe r r') (g : CRes → CRes) (hg : ∀ f, ∃ f', g (.fail f) = .fail f') :
    CLe (g r) (g r') := by
  rcases h with ⟨f, rfl⟩ | rfl
  · obtain ⟨f', hf'⟩ := hg f
    exact Or.inl ⟨f', hf'⟩
  · exact Or.inr rfl

/-- the same with two continuations that are related on successful outcomes -/
theorem CLe.app2 {r r' : CRes} (h : CLe r r') (g g' : CRes → CRes) (hg : ∀ f, ∃ f', g (.fail f) = .fail f')
    (hgg : ∀ vs al nc, CLe (g (.ok vs al nc)) (g' (.ok vs al nc))) : CLe (g r) (g' r') := by
  rcases h with ⟨f, rfl⟩ | rfl
  · obtain ⟨f', hf'⟩ := hg f
    exact Or.inl ⟨f', hf'⟩
  · cases r' with
    | fail f =>
      obtain ⟨f', hf'⟩ := hg f
      exact Or.inl ⟨f', hf'⟩
    | ok vs al nc => exact hgg vs al nc

/-- a loop whose step keeps failures and is related on successful accumulators -/
theorem foldl_CLe {step step' : CRes → Ast → CRes} (hf : ∀ f k, step (.fail f) k = .fail f) :
    ∀ (ks : List Ast), (∀ k ∈ ks, ∀ vs al nc, CLe (step (.ok vs al nc) k) (step' (.ok vs al nc) k)) →
    ∀ acc acc', CLe acc acc' → CLe (ks.foldl step acc) (ks.foldl step' acc')
  | [], _, _, _, h => h
  | k :: ks, hs, acc, acc', h => by
    simp only [List.foldl_cons]
    apply foldl_CLe hf ks (fun k' hk' => hs k' (List.mem_cons_of_mem _ hk'))
    rcases h with ⟨f, rfl⟩ | rfl
    · rw [hf]; exact CLe.fail _ _
    · cases acc' with
      | fail f => rw [hf]; exact CLe.fail _ _
      | ok vs al nc => exact hs k (List.mem_cons_self ..) vs al nc

/-- `env'` shows at least the values `env` shows -/
def GlobalsLe (env env' : Env) : Prop := ∀ n v, lookup n env.globals = some v → lookup n env'.globals = some v

/-- **monotonicity of the first pass**: a successful `NameCollector` run is not changed by more
values in the data context -/
theorem collect_mono {env env' : Env} (h : GlobalsLe env env') :
    ∀ (fuel : Nat) (a : Ast) (nc : NC), CLe (collect env fuel a nc) (collect env' fuel a nc) := by
  intro fuel
  induction fuel with
  | zero => intro a nc; simp only [collect]; exact CLe.fail _ _
  | succ fuel ih =>
    intro a nc
    -- the loop `MergeChildren`
    have hmerge : ∀ (ks : List Ast) (acc : CRes),
        CLe (ks.foldl (fun acc k =>
            match acc with
            | .fail f => .fail f
            | .ok vars _ nc =>
              match collect env fuel k nc with
              | .fail f => .fail f
              | .ok vs _ nc' => .ok (vars ++ vs) (!(vars ++ vs).isEmpty) nc') acc)
          (ks.foldl (fun acc k =>
            match acc with
            | .fail f => .fail f
            | .ok vars _ nc =>
              match collect env' fuel k nc with
              | .fail f => .fail f
              | .ok vs _ nc' => .ok (vars ++ vs) (!(vars ++ vs).isEmpty) nc') acc) := by
      intro ks acc
      refine foldl_CLe (fun f k => rfl) ks ?_ acc acc (CLe.rfl' _)
      intro k _ vs al nc1
      exact (ih k nc1).app (fun r => match r with
        | .fail f => .fail f
        | .ok vs' _ nc' => .ok (vs ++ vs') (!(vs ++ vs').isEmpty) nc') (fun f => ⟨f, rfl⟩)
    simp only [collect]
    split
    · -- `ViGlobalDeclaration`
      split
      · exact CLe.rfl' _
      · split
        · exact CLe.rfl' _
        · split
          · split
            · rename_i k1 _
              exact (ih k1 nc).app (fun r => match r with
                | .fail f => .fail f
                | .ok _ _ nc' => .ok [] false nc') (fun f => ⟨f, rfl⟩)
            · exact CLe.rfl' _
          · exact CLe.rfl' _
    · split
      · -- `ViGlobal`
        split
        · exact CLe.rfl' _
        · cases hl : lookup (textOf a) env.globals with
          | none => exact CLe.fail _ _
          | some v => rw [h _ _ hl]; exact CLe.rfl' _
      · split
        · exact CLe.rfl' _
        · split
          · -- binders
            refine (hmerge a.kids (.ok [] false nc)).app2
              (fun r => match r with
                | .fail f => .fail f
                | .ok vars alloc nc' =>
                  match a.kids.head? with
                  | none => .fail (.stuck "NameCollector::ViQuantifier Child(0)")
                  | some k0 =>
                    match collect env fuel k0 nc' with
                    | .ok (v :: _) _ _ => .ok (eraseAll v vars) alloc nc'
                    | .ok [] true _ => .ok vars alloc nc'
                    | .ok [] false _ => .fail (.stuck "NameCollector::ViQuantifier *begin(empty)")
                    | .fail f => .fail f)
              (fun r => match r with
                | .fail f => .fail f
                | .ok vars alloc nc' =>
                  match a.kids.head? with
                  | none => .fail (.stuck "NameCollector::ViQuantifier Child(0)")
                  | some k0 =>
                    match collect env' fuel k0 nc' with
                    | .ok (v :: _) _ _ => .ok (eraseAll v vars) alloc nc'
                    | .ok [] true _ => .ok vars alloc nc'
                    | .ok [] false _ => .fail (.stuck "NameCollector::ViQuantifier *begin(empty)")
                    | .fail f => .fail f)
              (fun f => ⟨f, rfl⟩) ?_
            intro vars alloc nc'
            simp only
            cases a.kids.head? with
            | none => exact CLe.rfl' _
            | some k0 =>
              exact (ih k0 nc').app (fun r => match r with
                | .ok (v :: _) _ _ => .ok (eraseAll v vars) alloc nc'
                | .ok [] true _ => .ok vars alloc nc'
                | .ok [] false _ => .fail (.stuck "NameCollector::ViQuantifier *begin(empty)")
                | .fail f => .fail f) (fun f => ⟨f, rfl⟩)
          · split
            · -- `ViImperative`
              refine (hmerge a.kids (.ok [] false nc)).app2
                (fun r => match r with
                  | .fail f => .fail f
                  | .ok vars alloc nc' =>
                    match a.kids with
                    | [] => .fail (.stuck "NameCollector::ViImperative MoveToChild(1)")
                    | [_] => .fail (.stuck "NameCollector::ViImperative MoveToChild(1)")
                    | _ :: blocks =>
                      blocks.foldl (fun (acc : CRes) b =>
                        match acc with
                        | .fail f => .fail f
                        | .ok vs al nc2 =>
                          if b.id == .ITERATE || b.id == .ASSIGN then
                            match b.kids.head? with
                            | none => .fail (.stuck "NameCollector::ViImperative Child(0)")
                            | some d =>
                              match collect env fuel d nc2 with
                              | .ok (v :: _) _ _ => .ok (eraseAll v vs) al nc2
                              | .ok [] _ _ => .fail (.stuck "NameCollector::ViImperative *begin(empty)")
                              | .fail f => .fail f
                          else .ok vs al nc2) (.ok vars alloc nc'))
                (fun r => match r with
                  | .fail f => .fail f
                  | .ok vars alloc nc' =>
                    match a.kids with
                    | [] => .fail (.stuck "NameCollector::ViImperative MoveToChild(1)")
                    | [_] => .fail (.stuck "NameCollector::ViImperative MoveToChild(1)")
                    | _ :: blocks =>
                      blocks.foldl (fun (acc : CRes) b =>
                        match acc with
                        | .fail f => .fail f
                        | .ok vs al nc2 =>
                          if b.id == .ITERATE || b.id == .ASSIGN then
                            match b.kids.head? with
                            | none => .fail (.stuck "NameCollector::ViImperative Child(0)")
                            | some d =>
                              match collect env' fuel d nc2 with
                              | .ok (v :: _) _ _ => .ok (eraseAll v vs) al nc2
                              | .ok [] _ _ => .fail (.stuck "NameCollector::ViImperative *begin(empty)")
                              | .fail f => .fail f
                          else .ok vs al nc2) (.ok vars alloc nc'))
                (fun f => ⟨f, rfl⟩) ?_
              intro vars alloc nc'
              simp only
              split
              · exact CLe.rfl' _
              · exact CLe.rfl' _
              · rename_i blocks _
                refine foldl_CLe (step := fun (acc : CRes) b =>
                        match acc with
                        | .fail f => .fail f
                        | .ok vs al nc2 =>
                          if b.id == .ITERATE || b.id == .ASSIGN then
                            match b.kids.head? with
                            | none => .fail (.stuck "NameCollector::ViImperative Child(0)")
                            | some d =>
                              match collect env fuel d nc2 with
                              | .ok (v :: _) _ _ => .ok (eraseAll v vs) al nc2
                              | .ok [] _ _ => .fail (.stuck "NameCollector::ViImperative *begin(empty)")
                              | .fail f => .fail f
                          else .ok vs al nc2) (fun f k => rfl) _ ?_ _ _ (CLe.rfl' _)
                intro b _ vs al nc2
                simp only
                split
                · cases b.kids.head? with
                  | none => exact CLe.rfl' _
                  | some d =>
                    exact (ih d nc2).app (fun r => match r with
                      | .ok (v :: _) _ _ => .ok (eraseAll v vs) al nc2
                      | .ok [] _ _ => .fail (.stuck "NameCollector::ViImperative *begin(empty)")
                      | .fail f => .fail f) (fun f => ⟨f, rfl⟩)
                · exact CLe.rfl' _
            · exact hmerge a.kids (.ok [] false nc)

/-- `Interpreter::Evaluate`: a value obtained against `env` is obtained against every `env'` with the
same `SyntaxTreeContext` that shows at least the values `env` shows -/
theorem evaluate_mono {env env' : Env} (hf : env'.funcs = env.funcs) (h : GlobalsLe env env')
    (fuel : Nat) (tree : Ast) (v : Val) (n : Nat) (he : evaluate fuel env tree = (.ok v, n)) :
    evaluate fuel env' tree = (.ok v, n) := by
  unfold evaluate at he ⊢
  rw [hf]
  cases hn : normalizeTree env.funcs fuel tree with
  | none => rw [hn] at he; cases he
  | some nt =>
    rw [hn] at he
    simp only at he ⊢
    unfold evalNorm at he ⊢
    rcases collect_mono h fuel nt {} with ⟨f, hfail⟩ | heq
    · rw [hfail] at he
      cases f <;> cases he
    · rw [heq]
      cases hc : collect env fuel nt {} with
      | fail f => rw [hc] at he; cases f <;> cases he
      | ok vs al nc => rw [hc] at he; exact he

end CCVerif.Eval
