import CCVerif.Lemmas.ParsePrint3Text
import CCVerif.Lemmas.CheckerHomCompose
import CCVerif.Lemmas.CheckerHomAnalysis
set_option linter.unusedVariables false
/-!
C12 / C08: a `View CDef` BACKED BY THE PARSER MODEL (`Model/Parser.lean`, lexer `Model/Lexer.lean`).

* `tokText d` — the text of a token sequence of `Model/Dedup.lean`: the concatenation of the token strings as code
  points (`mention a ↦ a`, `sym s ↦ s`);
* `readParsed d := (parse .math (tokText d)).map PE.erA` — lex, parse, FORGET THE POSITIONS. (The positions must be
  forgotten: a renaming that changes the length of a name shifts every later range, `renAst` keeps the ranges; the
  analysis result `CInfo` carries no position.)
* `parsedView` — the unguarded view (`read := readParsed`);
* `Printed d` — the class of token sequences for which the commutation is proved: `d` is a split (`Split`) of the
  CANONICAL PRINTING (`Body.items .math`, the items the printer model `Model/Printer.lean` writes: `top_print`) of a
  grammar-shaped right-hand side (`Body` over the fragment `E3`: everything built from names, literals, `∪ ∩ \ ∆ + - *`, `×`,
  `ℬ`, `bool debool red card Pr pr Fi`, enumerations, tuples, calls `F1[…]` / `P1[…]`, predicates, `¬ & ∨ ⇒ ⇔`,
  quantifiers, `D{…}`, `R{…}`, `I{…}`, and function definitions `[x∈S, …] body`) with lexer-conformant leaves; every
  global-identifier token is one `mention`, every maximal or non-maximal run of other items is cut into `sym` tokens
  in any way;
* `LexPres f` — `f` maps a name the MATH lexer reads as ONE token of kind ID_GLOBAL / ID_FUNCTION / ID_PREDICATE to a
  name it reads as ONE token of the same kind;
* `readParsed_printed`, `readParsed_ren` — the parser on a `Printed` sequence returns the tree, and
  **renaming the mention tokens of the text and then parsing = parsing and then `renAst`**, for `f` that is `LexPres`
  on the mentioned names;
* `parsedViewG` — the GUARDED view (`none` outside `Printed`), `checkerHomOnLex` / `checkerEquivarianceLex` — the
  homomorphism / equivariance structures of the checker analysis restricted to `LexPres` maps, and the full
  `View.CompatibleHomOn` / `View.Compatible` for them.

* `parsedViewG_homOn_printed` (the statement of `View.CompatibleHomOn (checkerHomOnLex traits)` on `Printed` sequences) and
  `parsedViewG_read_ren_bij` (the `read_ren` clause of `View.Compatible` for ALL `d`, bijective `LexPres` renamings).

NOT proved: the STRUCTURES `View.Compatible` / `View.CompatibleHomOn`.
(1) With the UNRESTRICTED renamings of `checkerEquivariance` / `checkerHomOn` they cannot hold for a parser-backed view:
a renaming may send `X1` to `F1` or to a string that is no identifier; e.g. the renamed text `F1∪X2` is read by the
executable model as `UNION [ID_FUNCTION "F1", ID_GLOBAL "X2"]` while the renamed tree is `UNION [ID_GLOBAL "F1", ID_GLOBAL
"X2"]` (observed with `#eval readParsed [.mention "F1", .sym "∪", .mention "X2"]`; NOT a theorem of this file).
So they are stated for `LexPres` maps.
(2) `CompatibleHomOn (checkerHomOnLex …)` for ALL `d`: missing is `¬ Printed d → ¬ Printed (d.map (renTok φ))` for a
NON-INJECTIVE `φ` (un-renaming a printed text along `φ`); for the unguarded view the same gap reads `parse fails ⇒
parse of the renamed text fails`. For bijections with a `LexPres` inverse it is proved (`parsedViewG_read_ren_bij`).
(3) `Compatible.mentions_sub` (`usedGlobals (tree) ⊆ mention names of d`: one more induction over the fragment, the
global leaves of `Body.ast` are the global items of `Body.items`) and the packaging of the `LexPres` bijections as an
`Equivariance`.
(4) `readParsed_ren` asks `LexPres f` for ALL names, not only for the mentioned ones (the localisation needs (3)).
-/
namespace CCVerif.PP3
open CCVerif CCVerif.Syntax CCVerif.Generated CCVerif.Lexer CCVerif.Parser CCVerif.Printer CCVerif.LexP CCVerif.LexN CCVerif.PP
open CCVerif.Checker (renData renAst renAstL isGlob renAst_kids renAstL_eq_map renData_text)

/-! ## renaming of the fragment trees -/

/-- the global-identifier payloads of a fragment tree renamed -/
def renE (f : String → String) : E3 → E3
  | .atom id d => .atom id (renData f id d)
  | .text g d a => .text g (renData f g d) (renE f a)
  | .sbin op l r => .sbin op (renE f l) (renE f r)
  | .prod2 a b => .prod2 (renE f a) (renE f b)
  | .prodN p k => .prodN (renE f p) (renE f k)
  | .pred op l r => .pred op (renE f l) (renE f r)
  | .neg x => .neg (renE f x)
  | .lbin op l r => .lbin op (renE f l) (renE f r)
  | .pow a => .pow (renE f a)
  | .one a => .one (renE f a)
  | .more a l => .more (renE f a) (renE f l)
  | .enum l => .enum (renE f l)
  | .tuple a l => .tuple (renE f a) (renE f l)
  | .fcall d l => .fcall (renData f .ID_FUNCTION d) (renE f l)
  | .pcall d l => .pcall (renData f .ID_PREDICATE d) (renE f l)
  | .filter d ps arg => .filter d (renE f ps) (renE f arg)
  | .quant q vs dom body => .quant q (renE f vs) (renE f dom) (renE f body)
  | .decl v dom body => .decl (renE f v) (renE f dom) (renE f body)
  | .recS v d s => .recS (renE f v) (renE f d) (renE f s)
  | .recF v d c s => .recF (renE f v) (renE f d) (renE f c) (renE f s)
  | .imp val bs => .imp (renE f val) (renE f bs)
  | .bone b => .bone (renE f b)
  | .boneK op v s => .boneK op (renE f v) (renE f s)
  | .bmore b l => .bmore (renE f b) (renE f l)
  | .bmoreK op v s l => .bmoreK op (renE f v) (renE f s) (renE f l)

def renArgs (f : String → String) : Args → Args
  | .one d dom => .one d (renE f dom)
  | .more d dom r => .more d (renE f dom) (renArgs f r)

def renBody (f : String → String) : Body → Body
  | .expr e => .expr (renE f e)
  | .fdef a e => .fdef (renArgs f a) (renE f e)

variable (f : String → String)

@[simp] theorem top_renE (e : E3) : (renE f e).top = e.top := by cases e <;> rfl
@[simp] theorem isS_renE (e : E3) : (renE f e).isS = e.isS := by cases e <;> rfl
@[simp] theorem isL_renE (e : E3) : (renE f e).isL = e.isL := by cases e <;> rfl
@[simp] theorem isA_renE (e : E3) : (renE f e).isA = e.isA := by cases e <;> rfl
@[simp] theorem isB_renE (e : E3) : (renE f e).isB = e.isB := by cases e <;> rfl
@[simp] theorem isProd_renE (e : E3) : (renE f e).isProd = e.isProd := by cases e <;> rfl
@[simp] theorem isPow_renE (e : E3) : (renE f e).isPow = e.isPow := by cases e <;> rfl
@[simp] theorem isVar_renE (e : E3) : (renE f e).isVar = e.isVar := by
  induction e <;> simp_all [renE, E3.isVar]

@[simp] theorem wf_renE (e : E3) : (renE f e).wf = e.wf := by
  induction e <;> simp_all [renE, E3.wf]

/-! ## renaming of items -/

/-- the item of a global-identifier token renamed (spelling and payload) -/
def renItem : Item → Item
  | .tok w id (.text s) => if isGlob id then .tok (stringUnits (f s)) id (.text (f s)) else .tok w id (.text s)
  | i => i

theorem renItem_fx (syn : Syn) (t : Tok) : (fx syn t).map (renItem f) = fx syn t := rfl

theorem renItem_wrapI (syn : Syn) (b : Bool) (is : List Item) :
    (wrapI syn b is).map (renItem f) = wrapI syn b (is.map (renItem f)) := by
  cases b <;> simp [wrapI, renItem_fx]

theorem renItem_leaf (syn : Syn) (id : Tok) (d : TokData) :
    (leafItems syn id d).map (renItem f) = leafItems syn id (renData f id d) := by
  cases d with
  | text s =>
    rw [renData_text]
    cases hg : isGlob id <;> simp [leafItems, renItem, hg]
  | int n => simp [leafItems, renItem, renData]
  | none => simp only [renData]; split <;> exact renItem_fx f syn id
  | tuple idx => simp only [renData]; split <;> exact renItem_fx f syn id

theorem renItem_name (syn : Syn) (g : Tok) (d : TokData) :
    (nameItems syn g d).map (renItem f) = nameItems syn g (renData f g d) := by
  cases d with
  | text s => rw [renData_text]; exact renItem_fx f syn g
  | int n => simp only [renData]; split <;> exact renItem_fx f syn g
  | none => simp only [renData]; split <;> exact renItem_fx f syn g
  | tuple idx => simp only [renData]; split <;> rfl

theorem renData_filter (d : TokData) : renData f .FILTER d = d := rfl

theorem items_renE (syn : Syn) (e : E3) : (renE f e).items syn = (e.items syn).map (renItem f) := by
  induction e <;>
    simp_all [renE, E3.items, renItem_fx, renItem_wrapI, renItem_leaf, renItem_name, renItem, renData_filter]

theorem items_renArgs (syn : Syn) : ∀ a : Args, (renArgs f a).items syn = (a.items syn).map (renItem f)
  | .one d dom => by
    simp [renArgs, Args.items, argItems, items_renE, renItem_fx, renItem_leaf]; rfl
  | .more d dom r => by
    simp [renArgs, Args.items, argItems, items_renE, renItem_fx, renItem_leaf, items_renArgs syn r, renItem]; rfl

theorem items_renBody (syn : Syn) (b : Body) : (renBody f b).items syn = (b.items syn).map (renItem f) := by
  cases b <;> simp [renBody, Body.items, items_renE, items_renArgs, renItem_fx, renItem]

/-! ## the trees -/

theorem renAst_node' (id : Tok) (d : TokData) (lo hi : Int) (ks : List Ast) :
    renAst f (.node id d lo hi ks) = .node id (renData f id d) lo hi (ks.map (renAst f)) := by
  simp only [renAst, renAstL_eq_map]

theorem renData_none (id : Tok) : renData f id .none = .none := by unfold renData; split <;> rfl

theorem dast_renE (e : E3) : (renE f e).dast = renAst f e.dast := by
  induction e <;> simp_all [renE, E3.dast, renAst_node', renData_none, renAst_kids]

theorem declOf_renE (e : E3) : (renE f e).declOf = renAst f e.declOf := by
  have hk : (renE f e).dast.kids = e.dast.kids.map (renAst f) := by rw [dast_renE, renAst_kids]
  cases e <;> simp only [renE] at hk ⊢ <;> simp [E3.declOf, renAst_node', renData_none, hk, dast_renE]

theorem ast_renE (e : E3) : (renE f e).ast = renAst f e.ast := by
  induction e <;>
    simp_all [renE, E3.ast, renAst_node', renData_none, renAst_kids, dast_renE, declOf_renE, renData_filter]

theorem asts_renArgs : ∀ a : Args, (renArgs f a).asts = a.asts.map (renAst f)
  | .one d dom => by simp [renArgs, Args.asts, declNode, ast_renE, renAst_node', renData_none]; rfl
  | .more d dom r => by
    simp [renArgs, Args.asts, declNode, ast_renE, renAst_node', renData_none, asts_renArgs r]; rfl

theorem ast_renBody (b : Body) : (renBody f b).ast = renAst f b.ast := by
  cases b <;> simp [renBody, Body.ast, ast_renE, asts_renArgs, renAst_node', renData_none]

theorem wf_renArgs : ∀ a : Args, (renArgs f a).wf = a.wf
  | .one d dom => by simp [renArgs, Args.wf]
  | .more d dom r => by simp [renArgs, Args.wf, wf_renArgs r]

theorem wf_renBody (b : Body) : (renBody f b).wf = b.wf := by
  cases b <;> simp [renBody, Body.wf, wf_renArgs]

/-! ## the leaves stay lexer-conformant -/

/-- `f` maps a name that the MATH lexer reads as ONE token of kind ID_GLOBAL / ID_FUNCTION / ID_PREDICATE to a name it
reads as ONE token of the same kind -/
def LexPres (f : String → String) : Prop :=
  ∀ id s, isGlob id = true → idOK .math id s = true → idOK .math id (f s) = true

variable {f}

theorem leafOK_ren (hf : LexPres f) (id : Tok) (d : TokData) (h : leafOK .math id d = true) :
    leafOK .math id (renData f id d) = true := by
  cases hg : isGlob id with
  | false => simp only [renData, hg]; exact h
  | true =>
    cases d with
    | text s =>
      rw [renData_text, hg, if_pos rfl]
      cases id <;> first | exact hf _ s rfl h | exact absurd hg (by decide)
    | int n => simp only [renData, hg]; exact h
    | none => simp only [renData, hg]; exact h
    | tuple idx => simp only [renData, hg]; exact h

theorem nameOK_ren (g : Tok) (d : TokData) : nameOK g (renData f g d) = nameOK g d := by
  cases d with
  | text s => rw [renData_text]; rfl
  | int n => simp only [renData]; split <;> rfl
  | none => simp only [renData]; split <;> rfl
  | tuple idx => simp only [renData]; split <;> rfl

theorem lexOK_renE (hf : LexPres f) (e : E3) (h : e.lexOK .math = true) : (renE f e).lexOK .math = true := by
  induction e <;> simp_all [renE, E3.lexOK, nameOK_ren, leafOK_ren hf]

theorem lexOK_renArgs (hf : LexPres f) : ∀ a : Args, a.lexOK .math = true → (renArgs f a).lexOK .math = true
  | .one d dom, h => by
    simp only [Args.lexOK, Bool.and_eq_true] at h
    simp [renArgs, Args.lexOK, h.1, lexOK_renE hf dom h.2]
  | .more d dom r, h => by
    simp only [Args.lexOK, Bool.and_eq_true] at h
    simp [renArgs, Args.lexOK, h.1.1, lexOK_renE hf dom h.1.2, lexOK_renArgs hf r h.2]

theorem lexOK_renBody (hf : LexPres f) (b : Body) (h : b.lexOK .math = true) : (renBody f b).lexOK .math = true := by
  cases b with
  | expr e => exact lexOK_renE hf e h
  | fdef a e =>
    simp only [Body.lexOK, Bool.and_eq_true] at h
    simp [renBody, Body.lexOK, lexOK_renArgs hf a h.1, lexOK_renE hf e h.2]

end CCVerif.PP3

/-! ## the parser on the canonical printing of a right-hand side -/
namespace CCVerif.PP3
open CCVerif CCVerif.Syntax CCVerif.Generated CCVerif.Lexer CCVerif.Parser CCVerif.Printer CCVerif.LexP CCVerif.LexN CCVerif.PP

/-- print-then-parse at the level of TEXT for a right-hand side (`top_roundtrip_erA` without the detour through a
positioned tree): the parser returns the tree up to positions -/
theorem parse_items_body (b : Body) (hw : b.wf = true) (hl : b.lexOK .math = true) :
    (parse .math (render (b.items .math))).map PE.erA = some (PE.erA b.ast) := by
  obtain ⟨hp, hlex⟩ := lex_print_top .math (.plain b) hw hl
  change (lex .math (render (b.items .math))).map (·.map kd2) = some ((b.toks ++ [tk .END]).map kd2) at hlex
  cases hts : lex .math (render (b.items .math)) with
  | none => rw [hts] at hlex; cases hlex
  | some ts =>
    rw [hts] at hlex
    simp only [Option.map_some, Option.some.injEq] at hlex
    have hmap : ts.map PE.er = (b.toks ++ [tk .END]).map PE.er := by
      have h1 : ∀ us : Toks, us.map PE.er = (us.map kd2).map (fun p => (⟨p.1, p.2, 0, 0⟩ : LTok)) := by
        intro us; rw [List.map_map]; rfl
      rw [h1 ts, h1 (b.toks ++ [tk .END]), hlex]
    have hparse : parseToks (b.toks ++ [tk .END]) = some b.ast := parseToks_top (.plain b) hw
    have h2 := PE.parseToks_erase (b.toks ++ [tk .END])
    rw [hparse, ← hmap, PE.parseToks_erase ts] at h2
    unfold parse
    rw [hts]
    exact h2

end CCVerif.PP3

namespace CCVerif.SynthCorrect
open CCVerif CCVerif.Syntax CCVerif.Parser CCVerif.Printer CCVerif.LexP CCVerif.PP CCVerif.PP3 CCVerif.Dedup
open CCVerif.Checker (renData renAst renAstL isGlob renAst_kids renAstL_eq_map renData_text)
open CCVerif.SchemaGen (CDef checkerR checkerEquivariance checkerHomOn homDC glob HomomorphicOn)

/-! ## token sequences as text, the reader -/

/-- the string of a token as code points -/
def tokUnits : Dedup.Tok → List Nat
  | .mention a => stringUnits a
  | .sym s => stringUnits s

/-- the text of a token sequence: the concatenation of the token strings -/
def tokText (d : List Dedup.Tok) : List Nat := d.flatMap tokUnits

/-- lex (MATH), parse, forget the positions -/
def readParsed (d : List Dedup.Tok) : CDef := (parse .math (tokText d)).map PE.erA

/-- **the view backed by the parser model** (unguarded) -/
def parsedView : View CDef where
  kindOf := fun k => if k == 1 then .base else .term
  read := readParsed

/-! ## the class `Printed` -/

/-- no global-identifier token with a name -/
def NoGlob : Item → Prop
  | .tok _ id (.text _) => isGlob id = false
  | _ => True

theorem renItem_noGlob (f : String → String) {i : Item} (h : NoGlob i) : renItem f i = i := by
  cases i with
  | blank n => rfl
  | tok w id d =>
    cases d with
    | text s => simp only [NoGlob] at h; simp [renItem, h]
    | int n => rfl
    | none => rfl
    | tuple idx => rfl

/-- `d` is a split of the items `is`: every global-identifier item is ONE `mention` token carrying its name, the other
items are cut into `sym` tokens in any way (a `sym` token spells a run of consecutive non-identifier items, blanks
included) -/
inductive Split : List Dedup.Tok → List Item → Prop where
  | nil : Split [] []
  | mention {s : String} {id : Syntax.Tok} {d : List Dedup.Tok} {is : List Item} : isGlob id = true → Split d is →
      Split (.mention s :: d) (.tok (stringUnits s) id (.text s) :: is)
  | sym {s : String} {js : List Item} {d : List Dedup.Tok} {is : List Item} : stringUnits s = render js →
      (∀ i ∈ js, NoGlob i) → Split d is → Split (.sym s :: d) (js ++ is)

theorem render_cons (i : Item) (is : List Item) : render (i :: is) = i.text ++ render is := by
  simp [render]

theorem Split.text {d : List Dedup.Tok} {is : List Item} (h : Split d is) : tokText d = render is := by
  induction h with
  | nil => rfl
  | mention hg _ ih => simp only [tokText, List.flatMap_cons] at ih ⊢; rw [ih, render_cons]; rfl
  | sym hs _ _ ih => simp only [tokText, List.flatMap_cons] at ih ⊢; rw [ih, render_append, ← hs]; rfl

theorem Split.ren (f : String → String) {d : List Dedup.Tok} {is : List Item} (h : Split d is) :
    Split (d.map (renTok f)) (is.map (renItem f)) := by
  induction h with
  | nil => exact .nil
  | @mention s id d is hg _ ih =>
    have e : renItem f (.tok (stringUnits s) id (.text s)) = .tok (stringUnits (f s)) id (.text (f s)) := by
      simp [renItem, hg]
    rw [List.map_cons, List.map_cons, e]
    exact .mention hg ih
  | @sym s js d is hs hn _ ih =>
    have e : js.map (renItem f) = js := by
      conv => rhs; rw [← List.map_id js]
      exact List.map_congr_left fun i hi => renItem_noGlob f (hn i hi)
    rw [List.map_cons, List.map_append, e]
    exact .sym hs hn ih

/-- **the class**: `d` is a split of the canonical printing (MATH) of a grammar-shaped right-hand side with
lexer-conformant leaves -/
def Printed (d : List Dedup.Tok) : Prop :=
  ∃ b : Body, b.wf = true ∧ b.lexOK .math = true ∧ Split d (b.items .math)

/-- the parser model reads a `Printed` token sequence as its tree -/
theorem readParsed_printed {d : List Dedup.Tok} {b : Body} (hw : b.wf = true) (hl : b.lexOK .math = true)
    (hs : Split d (b.items .math)) : readParsed d = some (PE.erA b.ast) := by
  unfold readParsed
  rw [hs.text]
  exact parse_items_body b hw hl

theorem printed_ren {f : String → String} (hf : LexPres f) {d : List Dedup.Tok} (h : Printed d) :
    Printed (d.map (renTok f)) := by
  obtain ⟨b, hw, hl, hs⟩ := h
  refine ⟨renBody f b, ?_, lexOK_renBody hf b hl, ?_⟩
  · rw [wf_renBody]; exact hw
  · rw [items_renBody]; exact hs.ren f

mutual
theorem erA_renAst (f : String → String) : ∀ a : Ast, PE.erA (renAst f a) = renAst f (PE.erA a)
  | .node id d lo hi ks => by
    simp only [renAst, PE.erA]
    rw [erL_renAstL f ks]
theorem erL_renAstL (f : String → String) : ∀ ks : List Ast, PE.erL (renAstL f ks) = renAstL f (PE.erL ks)
  | [] => by simp only [renAstL, PE.erL]
  | k :: ks => by simp only [renAstL, PE.erL]; rw [erA_renAst f k, erL_renAstL f ks]
end

/-- **renaming the mention tokens of the text and then parsing = parsing and then renaming the global-identifier
tokens of the tree**, on `Printed` token sequences, for a renaming that keeps the lexical class of identifiers -/
theorem readParsed_ren {f : String → String} (hf : LexPres f) {d : List Dedup.Tok} (hd : Printed d) :
    readParsed (d.map (renTok f)) = (readParsed d).map (renAst f) := by
  obtain ⟨b, hw, hl, hs⟩ := hd
  rw [readParsed_printed hw hl hs,
    readParsed_printed (b := renBody f b) (by rw [wf_renBody]; exact hw) (lexOK_renBody hf b hl)
      (by rw [items_renBody]; exact hs.ren f),
    ast_renBody, erA_renAst]
  rfl

theorem parsedView_read_ren {f : String → String} (hf : LexPres f) {d : List Dedup.Tok} (hd : Printed d) :
    parsedView.read (d.map (renTok f)) = (parsedView.read d).map (renAst f) := readParsed_ren hf hd

/-! ## the guarded view, the restricted structures -/

open Classical in
/-- the parser model on `Printed` token sequences, `none` (no definition) on every other sequence -/
noncomputable def readGuarded (d : List Dedup.Tok) : CDef := if Printed d then readParsed d else none

/-- **the guarded view**: `parsedView` cut down to the class `Printed` -/
noncomputable def parsedViewG : View CDef where
  kindOf := parsedView.kindOf
  read := readGuarded

theorem readGuarded_printed {d : List Dedup.Tok} (h : Printed d) : readGuarded d = readParsed d := by
  unfold readGuarded; rw [if_pos h]

theorem readGuarded_not {d : List Dedup.Tok} (h : ¬ Printed d) : readGuarded d = none := by
  unfold readGuarded; rw [if_neg h]

/-- `checkerHomOn` with the admissible identifications restricted to those that keep the lexical class of identifiers -/
def checkerHomOnLex (traits : Types.TraitEnv) : HomomorphicOn (checkerR fun _ => traits) where
  Adm := fun φ => (checkerHomOn traits).Adm φ ∧ LexPres φ
  GoodD := (checkerHomOn traits).GoodD
  homD := (checkerHomOn traits).homD
  homI := (checkerHomOn traits).homI
  mentions_hom := fun φ d h g => (checkerHomOn traits).mentions_hom φ d h.1 g
  ok_hom := (checkerHomOn traits).ok_hom
  missing := (checkerHomOn traits).missing
  analyse_hom := fun φ sk sk' ctx ctx' c h => (checkerHomOn traits).analyse_hom φ sk sk' ctx ctx' c h.1

/-- the statement of `View.CompatibleHomOn` for the guarded view, on `Printed` sequences (for ALL `d` it is NOT proved:
missing is `¬ Printed d → ¬ Printed (d.map (renTok φ))` for a non-injective `φ`, i.e. un-renaming a printed text) -/
theorem parsedViewG_homOn_printed (traits : Types.TraitEnv) (φ : String → String) (d : List Dedup.Tok)
    (hadm : (checkerHomOnLex traits).Adm φ) (hd : Printed d) :
    parsedViewG.read (d.map (renTok φ)) = (checkerHomOnLex traits).homD φ (parsedViewG.read d) := by
  show readGuarded _ = (readGuarded d).map (renAst φ)
  rw [readGuarded_printed hd, readGuarded_printed (printed_ren hadm.2 hd)]
  exact readParsed_ren hadm.2 hd

theorem renTok_renTok (g f : String → String) (d : List Dedup.Tok) :
    (d.map (renTok f)).map (renTok g) = d.map (renTok (g ∘ f)) := by
  rw [List.map_map]
  apply List.map_congr_left
  intro t _
  cases t <;> rfl

theorem renTok_congr {f g : String → String} {d : List Dedup.Tok} (h : ∀ n ∈ mentionNames d, f n = g n) :
    d.map (renTok f) = d.map (renTok g) := by
  apply List.map_congr_left
  intro t ht
  cases t with
  | mention a => show Dedup.Tok.mention (f a) = .mention (g a); rw [h a (mem_mentionNames.2 ht)]
  | sym s => rfl

/-- **the `read_ren` clause of `View.Compatible` for the guarded view, ALL token sequences `d`**, for a BIJECTIVE
renaming that keeps the lexical class of identifiers in both directions (`Q.renD r = Option.map (renAst ρ.f)` for the
checker equivariance): outside `Printed` both sides are `none` -/
theorem parsedViewG_read_ren_bij (ρ : Bij) (h1 : LexPres ρ.f) (h2 : LexPres ρ.g) (f : String → String)
    (d : List Dedup.Tok) (hf : ∀ n ∈ mentionNames d, f n = ρ.f n) :
    parsedViewG.read (d.map (renTok f)) = (parsedViewG.read d).map (renAst ρ.f) := by
  rw [renTok_congr hf]
  show readGuarded _ = (readGuarded d).map (renAst ρ.f)
  by_cases hd : Printed d
  · rw [readGuarded_printed hd, readGuarded_printed (printed_ren h1 hd)]
    exact readParsed_ren h1 hd
  · have hn : ¬ Printed (d.map (renTok ρ.f)) := by
      intro hp
      apply hd
      have := printed_ren h2 hp
      rw [renTok_renTok] at this
      have e : d.map (renTok (ρ.g ∘ ρ.f)) = d := by
        conv => rhs; rw [← List.map_id d]
        apply List.map_congr_left
        intro t _
        cases t with
        | mention a => show Dedup.Tok.mention (ρ.g (ρ.f a)) = _; rw [ρ.gf]; rfl
        | sym s => rfl
      rwa [e] at this
    rw [readGuarded_not hd, readGuarded_not hn]
    rfl

/-! ## closed examples -/

def gE (s : String) : E3 := .atom .ID_GLOBAL (.text s)
/-- `X1∪X2` -/
def bU : Body := .expr (.sbin .UNION (gE "X1") (gE "X2"))
def dU : List Dedup.Tok := [.mention "X1", .sym "∪", .mention "X2"]
/-- `F1[X1, D2]` -/
def bF : Body := .expr (.fcall (.text "F1") (.more (gE "X1") (.one (gE "D2"))))
def dF : List Dedup.Tok := [.mention "F1", .sym "[", .mention "X1", .sym ", ", .mention "D2", .sym "]"]
/-- `ℬ(X1×X2)` -/
def bB : Body := .expr (.pow (.prod2 (gE "X1") (gE "X2")))
def dB : List Dedup.Tok := [.sym "ℬ(", .mention "X1", .sym "×", .mention "X2", .sym ")"]

theorem noGlob_of_all {js : List Item} (h : js.all (fun i => match i with
    | .tok _ id (.text _) => !isGlob id | _ => true) = true) : ∀ i ∈ js, NoGlob i := by
  intro i hi
  have := List.all_eq_true.1 h i hi
  cases i with
  | blank n => trivial
  | tok w id d =>
    cases d with
    | text s => simpa [NoGlob] using this
    | int n => trivial
    | none => trivial
    | tuple idx => trivial

theorem split_dU : Split dU (bU.items .math) :=
  (
    .mention rfl (.sym (js := [.blank 0, .tok [8746] .UNION .none, .blank 0]) (by decide) (noGlob_of_all (by decide))
      (.mention rfl .nil)))

theorem split_dF : Split dF (bF.items .math) :=
  (
    .mention rfl (.sym (js := [.blank 0, .tok [91] .PUNC_SL .none, .blank 0]) (by decide) (noGlob_of_all (by decide))
      (.mention rfl (.sym (js := [.blank 0, .tok [44] .PUNC_COMMA .none, .blank 0, .blank 1]) (by decide)
        (noGlob_of_all (by decide))
        (.mention rfl (.sym (js := [.blank 0, .tok [93] .PUNC_SR .none, .blank 0]) (by decide)
          (noGlob_of_all (by decide)) .nil))))))

theorem split_dB : Split dB (bB.items .math) :=
  (
    .sym (js := [.blank 0, .tok [8492] .BOOLEAN .none, .blank 0, .blank 0, .tok [40] .PUNC_PL .none, .blank 0])
      (by decide) (noGlob_of_all (by decide))
      (.mention rfl (.sym (js := [.blank 0, .tok [215] .DECART .none, .blank 0]) (by decide) (noGlob_of_all (by decide))
        (.mention rfl (.sym (js := [.blank 0, .tok [41] .PUNC_PR .none, .blank 0]) (by decide)
          (noGlob_of_all (by decide)) .nil)))))

theorem printed_dU : Printed dU := ⟨bU, by decide, by decide +kernel, split_dU⟩
theorem printed_dF : Printed dF := ⟨bF, by decide, by decide +kernel, split_dF⟩
theorem printed_dB : Printed dB := ⟨bB, by decide, by decide +kernel, split_dB⟩

/-- the parser-backed view reads `X1∪X2`, `F1[X1, D2]`, `ℬ(X1×X2)` as the expected trees -/
example : parsedView.read dU = some (SynthCorrect.unionT (glob "X1") (glob "X2")) :=
  (readParsed_printed (b := bU) (by decide) (by decide +kernel) split_dU).trans (by decide)
example : parsedView.read dF = some (.node .NT_FUNC_CALL .none 0 0
    [.node .ID_FUNCTION (.text "F1") 0 0 [], glob "X1", glob "D2"]) :=
  (readParsed_printed (b := bF) (by decide) (by decide +kernel) split_dF).trans (by decide)
example : parsedView.read dB = some (.node .BOOLEAN .none 0 0 [.node .DECART .none 0 0 [glob "X1", glob "X2"]]) :=
  (readParsed_printed (b := bB) (by decide) (by decide +kernel) split_dB).trans (by decide)
example : parsedViewG.read dB = some (.node .BOOLEAN .none 0 0 [.node .DECART .none 0 0 [glob "X1", glob "X2"]]) :=
  (readGuarded_printed printed_dB).trans
    ((readParsed_printed (b := bB) (by decide) (by decide +kernel) split_dB).trans (by decide))

/-- `X1 ↦ X7`, `F1 ↦ F12` (a longer name: the positions of the later tokens shift), everything else fixed -/
def fEx (n : String) : String := if n = "X1" then "X7" else if n = "F1" then "F12" else n

theorem lexPres_fEx : LexPres fEx := by
  intro id s hg h
  unfold fEx
  split
  · subst s
    cases id <;> first | exact absurd hg (by decide) | exact absurd h (by decide +kernel) | decide +kernel
  · split
    · subst s
      cases id <;> first | exact absurd hg (by decide) | exact absurd h (by decide +kernel) | decide +kernel
    · exact h

/-- the commutation applies: the renamed texts `X7∪X2`, `F12[X7, D2]`, `ℬ(X7×X2)` parse to the renamed trees -/
example : parsedView.read (dU.map (renTok fEx)) = some (SynthCorrect.unionT (glob "X7") (glob "X2")) := by
  rw [parsedView_read_ren lexPres_fEx printed_dU]
  show (readParsed dU).map _ = _
  rw [readParsed_printed (b := bU) (by decide) (by decide +kernel) split_dU]
  decide
example : dF.map (renTok fEx) = [.mention "F12", .sym "[", .mention "X7", .sym ", ", .mention "D2", .sym "]"] := by
  decide
example : parsedView.read (dF.map (renTok fEx)) = some (.node .NT_FUNC_CALL .none 0 0
    [.node .ID_FUNCTION (.text "F12") 0 0 [], glob "X7", glob "D2"]) := by
  rw [parsedView_read_ren lexPres_fEx printed_dF]
  show (readParsed dF).map _ = _
  rw [readParsed_printed (b := bF) (by decide) (by decide +kernel) split_dF]
  decide
example : parsedView.read (dB.map (renTok fEx)) =
    some (.node .BOOLEAN .none 0 0 [.node .DECART .none 0 0 [glob "X7", glob "X2"]]) := by
  rw [parsedView_read_ren lexPres_fEx printed_dB]
  show (readParsed dB).map _ = _
  rw [readParsed_printed (b := bB) (by decide) (by decide +kernel) split_dB]
  decide

end CCVerif.SynthCorrect
