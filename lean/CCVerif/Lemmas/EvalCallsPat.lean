import CCVerif.Lemmas.EvalBlocksPatFilterTop
/-! Stage 12, reference side: β-reduction of calls through binders with tuple patterns, `R{}`, filters (`Beta2`).

`Beta2` has the rules of `Beta` (`EvalCalls.lean`) with the two binder rules (`∀ ∃ D{}` over ONE plain variable) replaced
by rules over an arbitrary declaration (a plain variable or a tuple pattern of any depth, every leaf renamed to a name
that is new on the reduct side: `PRens`), and congruence rules for `R{p := init | body}`, `R{p := init | cond | body}`,
enumerated declarations `Q p₁,…,pₙ∈dom`, the blocks of `I{}` (`p :∈ dom`, `p := e`, conditions), and the two filter forms.  A call may stand anywhere under these binders, and
the binders may stand in the body of a called definition (the `call` rule reduces the body by `Beta2`).
`Beta2.sound`: like `Beta.sound`, a value of the reduct at fuel `f` is the value of the expression with calls at every
fuel `≥ f + K`; the new cases are monotonicity of `⟦·⟧` in the values of the sub-terms. -/
namespace CCVerif.Eval
open CCVerif.Syntax CCVerif.Spec CCVerif.Norm
open Val Ty

/-! ## renaming the leaves of a declaration -/

/-- `PRens Δ ps ps' Δ'`: the declarations `ps'` are the declarations `ps` with every leaf renamed to a name that is not in
use on the reduct side; `Δ'` is `Δ` extended by the renamings, in binding order -/
inductive PRens : BCtx → List Ast → List Ast → BCtx → Prop where
  | nil {Δ : BCtx} : PRens Δ [] [] Δ
  | var {Δ Δ' : BCtx} {ps ps' : List Ast} (x x' : String) (lo hi lo' hi' : Int) (ks ks' : List Ast) : x' ∉ avoid Δ →
      PRens ((x, .ren x') :: Δ) ps ps' Δ' →
      PRens Δ (.node .ID_LOCAL (.text x) lo hi ks :: ps) (.node .ID_LOCAL (.text x') lo' hi' ks' :: ps') Δ'
  | tup {Δ Δ1 Δ' : BCtx} {ks ks' ps ps' : List Ast} (d d' : TokData) (lo hi lo' hi' : Int) : PRens Δ ks ks' Δ1 →
      PRens Δ1 ps ps' Δ' →
      PRens Δ (.node .NT_TUPLE_DECL d lo hi ks :: ps) (.node .NT_TUPLE_DECL d' lo' hi' ks' :: ps') Δ'

/-- one declaration -/
abbrev PRen (Δ : BCtx) (p p' : Ast) (Δ' : BCtx) : Prop := PRens Δ [p] [p'] Δ'

theorem bindPats_cons (p : Ast) (ps : List Ast) (v : Val) (vs : List Val) (ρ : LEnv) :
    bindPats (p :: ps) (v :: vs) ρ = (bindPat p v ρ).bind fun ρ' => bindPats ps vs ρ' := by
  rw [bindPats]
  cases bindPat p v ρ <;> rfl

theorem bindPat_tup (d : TokData) (lo hi : Int) (ks : List Ast) (v : Val) (ρ : LEnv) :
    bindPat (.node .NT_TUPLE_DECL d lo hi ks) v ρ = match v with | .t cs => bindPats ks cs ρ | _ => none := by
  simp only [bindPat]
  simp [tok_beq]
  cases v <;> rfl

theorem PRens.sound {S : SEnv} {Δ Δ' : BCtx} {ps ps' : List Ast} (h : PRens Δ ps ps' Δ') :
    ∀ (cs : List Val) (ρ ρs ρs' : LEnv), ERel S Δ ρ ρs → bindPats ps' cs ρs = some ρs' →
      ∃ ρ', bindPats ps cs ρ = some ρ' ∧ ERel S Δ' ρ' ρs' := by
  induction h with
  | nil =>
    intro cs ρ ρs ρs' hr hb
    cases cs with
    | nil => simp only [bindPats] at hb; injection hb with hb; subst hb; exact ⟨ρ, by simp [bindPats], hr⟩
    | cons c cs => simp [bindPats] at hb
  | var x x' lo hi lo' hi' ks ks' hx' _ ih =>
    intro cs ρ ρs ρs' hr hb
    cases cs with
    | nil => simp [bindPats] at hb
    | cons c cs =>
      rw [bindPats_cons, bindPat_local] at hb
      simp only [Option.bind_some] at hb
      obtain ⟨ρ', b1, b2⟩ := ih cs _ _ ρs' (hr.bind x x' c hx') hb
      exact ⟨ρ', by rw [bindPats_cons, bindPat_local]; exact b1, b2⟩
  | tup d d' lo hi lo' hi' _ _ ih1 ih2 =>
    intro cs ρ ρs ρs' hr hb
    cases cs with
    | nil => simp [bindPats] at hb
    | cons c cs =>
      rw [bindPats_cons, bindPat_tup] at hb
      cases c with
      | t cc =>
        simp only at hb
        cases h1 : bindPats _ cc ρs with
        | none => rw [h1] at hb; simp at hb
        | some ρ1 =>
          rw [h1] at hb
          simp only [Option.bind_some] at hb
          obtain ⟨ρ1', b1, b2⟩ := ih1 cc ρ ρs ρ1 hr h1
          obtain ⟨ρ', c1, c2⟩ := ih2 cs ρ1' ρ1 ρs' b2 hb
          refine ⟨ρ', ?_, c2⟩
          rw [bindPats_cons, bindPat_tup]
          simp only [b1, Option.bind_some]
          exact c1
      | e n => simp at hb
      | s xs => simp at hb

theorem bindPats_single (p : Ast) (v : Val) (ρ : LEnv) : bindPats [p] [v] ρ = bindPat p v ρ := by
  rw [bindPats_cons]
  cases bindPat p v ρ <;> simp [bindPats]

theorem PRen.sound1 {S : SEnv} {Δ Δ' : BCtx} {p p' : Ast} (h : PRen Δ p p' Δ') {v : Val} {ρ ρs ρs' : LEnv}
    (hr : ERel S Δ ρ ρs) (hb : bindPat p' v ρs = some ρs') : ∃ ρ', bindPat p v ρ = some ρ' ∧ ERel S Δ' ρ' ρs' := by
  obtain ⟨ρ', b1, b2⟩ := PRens.sound h [v] ρ ρs ρs' hr (by rw [bindPats_single]; exact hb)
  exact ⟨ρ', by rw [bindPats_single] at b1; exact b1, b2⟩

theorem PRen.notEnum {Δ Δ' : BCtx} {p p' : Ast} (h : PRen Δ p p' Δ') :
    (p.id == Tok.NT_ENUM_DECL) = false ∧ (p'.id == Tok.NT_ENUM_DECL) = false := by
  cases h <;> exact ⟨rfl, rfl⟩

/-- binding through the declaration and through its renamed copy, then a continuation that is related on related
environments -/
theorem bindK_ole {S : SEnv} {β} {Δ Δ' : BCtx} {p p' : Ast} (h : PRen Δ p p' Δ') {ρ ρs : LEnv} (hr : ERel S Δ ρ ρs)
    (ks k : LEnv → Option β) (hk : ∀ ρ' ρs', ERel S Δ' ρ' ρs' → OLe (ks ρs') (k ρ')) (v : Val) :
    OLe (bindK p' ρs ks v) (bindK p ρ k v) := by
  intro b hb
  unfold bindK at hb ⊢
  cases hbp : bindPat p' v ρs with
  | none => rw [hbp] at hb; cases hb
  | some ρs' =>
    rw [hbp] at hb
    obtain ⟨ρ', b1, b2⟩ := h.sound1 hr hbp
    rw [b1]; exact hk _ _ b2 b hb

theorem bindBind_ole {S : SEnv} {β} {Δ Δ' : BCtx} {p p' : Ast} (h : PRen Δ p p' Δ') {ρ ρs : LEnv} (hr : ERel S Δ ρ ρs)
    (ks k : LEnv → Option β) (hk : ∀ ρ' ρs', ERel S Δ' ρ' ρs' → OLe (ks ρs') (k ρ')) (v : Val) :
    OLe ((bindPat p' v ρs).bind ks) ((bindPat p v ρ).bind k) := by
  intro b hb
  cases hbp : bindPat p' v ρs with
  | none => rw [hbp] at hb; cases hb
  | some ρs' =>
    rw [hbp] at hb
    obtain ⟨ρ', b1, b2⟩ := h.sound1 hr hbp
    rw [b1]; exact hk _ _ b2 b hb

/-- the iteration of `R{}` is monotone in the definedness of condition and step -/
theorem recSem_ole (cs ce : Val → Option Bool) (bs be : Val → Option Val) (hc : ∀ cur, OLe (cs cur) (ce cur))
    (hb : ∀ cur, OLe (bs cur) (be cur)) : ∀ (n : Nat) (i : Val), OLe (recSem cs bs n i) (recSem ce be n i)
  | 0, _ => by intro v hv; simp [recSem] at hv
  | n + 1, i => by
    intro v hv
    rw [recSem] at hv ⊢
    cases hcs : cs i with
    | none => rw [hcs] at hv; cases hv
    | some b =>
      rw [hcs] at hv; rw [hc i b hcs]
      cases b with
      | false => exact hv
      | true =>
        simp only at hv ⊢
        cases hbs : bs i with
        | none => rw [hbs] at hv; cases hv
        | some nxt =>
          rw [hbs] at hv; rw [hb i nxt hbs]
          simp only at hv ⊢
          by_cases e : nxt = i
          · rw [if_pos e] at hv ⊢; exact hv
          · rw [if_neg e] at hv ⊢; exact recSem_ole cs ce bs be hc hb n nxt v hv

/-- a sequence of declarations of an enumerated declaration, each bound in the scope of the ones before it -/
inductive PSeq : BCtx → List Ast → List Ast → BCtx → Prop where
  | nil {Δ : BCtx} : PSeq Δ [] [] Δ
  | cons {Δ Δ1 Δ' : BCtx} {p p' : Ast} {ps ps' : List Ast} : PRen Δ p p' Δ1 → PSeq Δ1 ps ps' Δ' →
      PSeq Δ (p :: ps) (p' :: ps') Δ'

theorem quantSem_ole {S : SEnv} (univ : Bool) (xs : List Val) (ks k : LEnv → Option Bool) {Δ Δ' : BCtx} {ds ds' : List Ast}
    (h : PSeq Δ ds ds' Δ') (hk : ∀ ρ' ρs', ERel S Δ' ρ' ρs' → OLe (ks ρs') (k ρ')) :
    ∀ ρ ρs, ERel S Δ ρ ρs → OLe (quantSem univ xs ks ds' ρs) (quantSem univ xs k ds ρ) := by
  induction h with
  | nil => intro ρ ρs hr; simp only [quantSem]; exact hk ρ ρs hr
  | @cons Δ Δ1 Δ' p p' ps ps' hp _ ih =>
    intro ρ ρs hr
    simp only [quantSem]
    cases univ with
    | true =>
      simp only [if_true]
      exact kAll_mono xs _ _ (fun x _ => bindK_ole hp hr _ _ (fun ρ' ρs' h' => ih hk ρ' ρs' h') x)
    | false =>
      simp only [Bool.false_eq_true, if_false]
      exact kAny_mono xs _ _ (fun x _ => bindK_ole hp hr _ _ (fun ρ' ρs' h' => ih hk ρ' ρs' h') x)

/-! ## the blocks of `I{}` -/

/-- one block of `I{}` on both sides: `p :∈ dom` ↦ `p' :∈ doms`, `p := e` ↦ `p' := es` (`Δ'`: the scope after the block),
condition `b` ↦ `bs` -/
inductive B2 where
  | iter (p p' dom doms : Ast) (Δ' : BCtx) (m ms : NMeta)
  | assign (p p' ex exs : Ast) (Δ' : BCtx) (m ms : NMeta)
  | cond (b bs : Ast)

def B2.src : B2 → Ast
  | .iter p _ dom _ _ m _ => .node .ITERATE m.d m.lo m.hi [p, dom]
  | .assign p _ ex _ _ m _ => .node .ASSIGN m.d m.lo m.hi [p, ex]
  | .cond b _ => b
def B2.red : B2 → Ast
  | .iter _ p' _ doms _ _ ms => .node .ITERATE ms.d ms.lo ms.hi [p', doms]
  | .assign _ p' _ exs _ _ ms => .node .ASSIGN ms.d ms.lo ms.hi [p', exs]
  | .cond _ bs => bs

/-- the pairs of sub-expressions of the blocks and of the value, each with the scope it stands in -/
def imp2Obl : List B2 → BCtx → Ast → Ast → List (BCtx × Ast × Ast)
  | [], Δ, v, vs => [(Δ, v, vs)]
  | .iter _ _ dom doms Δ' _ _ :: r, Δ, v, vs => (Δ, dom, doms) :: imp2Obl r Δ' v vs
  | .assign _ _ ex exs Δ' _ _ :: r, Δ, v, vs => (Δ, ex, exs) :: imp2Obl r Δ' v vs
  | .cond b bs :: r, Δ, v, vs => (Δ, b, bs) :: imp2Obl r Δ v vs

/-- the side conditions of the blocks: the declarations are renamed copies; a condition is not a block node -/
def imp2Side : List B2 → BCtx → Prop
  | [], _ => True
  | .iter p p' _ _ Δ' _ _ :: r, Δ => PRen Δ p p' Δ' ∧ imp2Side r Δ'
  | .assign p p' _ _ Δ' _ _ :: r, Δ => PRen Δ p p' Δ' ∧ imp2Side r Δ'
  | .cond b bs :: r, Δ =>
    (b.id == Tok.ITERATE) = false ∧ (b.id == Tok.ASSIGN) = false ∧ (bs.id == Tok.ITERATE) = false ∧
      (bs.id == Tok.ASSIGN) = false ∧ imp2Side r Δ

theorem impList_ole (S : SEnv) (value values : Ast) {f g K : Nat} (hg : f + K ≤ g) :
    ∀ (bl : List B2) (Δ : BCtx) (ρ ρs : LEnv), ERel S Δ ρ ρs → imp2Side bl Δ →
      (∀ q ∈ imp2Obl bl Δ value values, ∀ ρ ρs, ERel S q.1 ρ ρs → Sim S K ρ q.2.1 ρs q.2.2) →
      OLe (impList S f values (bl.map B2.red) ρs) (impList S g value (bl.map B2.src) ρ)
  | [], Δ, ρ, ρs, hr, _, hq => by
    simp only [List.map_nil, impList_nil]
    have k := (hq (Δ, value, values) (by simp [imp2Obl]) ρ ρs hr).ole hg
    exact OLe.strict1 (fun r => (dVal r).map ([·])) rfl k
  | .iter p p' dom doms Δ' m ms :: r, Δ, ρ, ρs, hr, hs, hq => by
    obtain ⟨hp, hrest⟩ := hs
    have kd := (hq (Δ, dom, doms) (by simp [imp2Obl]) ρ ρs hr).ole hg
    simp only [List.map_cons, B2.red, B2.src, impList_iter]
    intro l hl
    cases hrd : denote S f ρs doms with
    | none => rw [hrd] at hl; simp [dVal] at hl
    | some wd =>
      rw [kd wd hrd]; rw [hrd] at hl
      rcases wd with (wv | b)
      · cases wv with
        | e n => simp [dVal] at hl
        | t cs => simp [dVal] at hl
        | s xs =>
          simp only [dVal] at hl ⊢
          exact OLe.strict1 (Option.map List.flatten) rfl (mapM_val_mono xs _ _
            (fun x _ => bindK_ole hp hr _ _ (fun ρ' ρs' h' => impList_ole S value values hg r _ ρ' ρs' h' hrest
              (fun q hm => hq q (by simp [imp2Obl, hm]))) x)) l hl
      · simp [dVal] at hl
  | .assign p p' ex exs Δ' m ms :: r, Δ, ρ, ρs, hr, hs, hq => by
    obtain ⟨hp, hrest⟩ := hs
    have kd := (hq (Δ, ex, exs) (by simp [imp2Obl]) ρ ρs hr).ole hg
    simp only [List.map_cons, B2.red, B2.src, impList_assign]
    intro l hl
    cases hrd : denote S f ρs exs with
    | none => rw [hrd] at hl; simp [dVal] at hl
    | some wd =>
      rw [kd wd hrd]; rw [hrd] at hl
      rcases wd with (wv | b)
      · simp only [dVal] at hl ⊢
        exact bindK_ole hp hr _ _ (fun ρ' ρs' h' => impList_ole S value values hg r _ ρ' ρs' h' hrest
          (fun q hm => hq q (by simp [imp2Obl, hm]))) wv l hl
      · simp [dVal] at hl
  | .cond b bs :: r, Δ, ρ, ρs, hr, hs, hq => by
    obtain ⟨h1, h2, h3, h4, hrest⟩ := hs
    have kd := dBool_mono ((hq (Δ, b, bs) (by simp [imp2Obl]) ρ ρs hr).ole hg)
    simp only [List.map_cons, B2.red, B2.src]
    rw [impList_cond S f values ρs bs _ h3 h4, impList_cond S g value ρ b _ h1 h2]
    intro l hl
    cases hb : dBool (denote S f ρs bs) with
    | none => rw [hb] at hl; cases hl
    | some c =>
      rw [kd c hb]; rw [hb] at hl
      cases c with
      | false => exact hl
      | true =>
        exact impList_ole S value values hg r _ ρ ρs hr hrest (fun q hm => hq q (by simp [imp2Obl, hm])) l hl

/-! ## β-reduction through every binder form -/

/-- `Beta2 fs K Δ e es`: `Beta` with binders over arbitrary declarations, `R{}`, enumerated declarations and filters -/
inductive Beta2 (fs : Funcs) : Nat → BCtx → Ast → Ast → Prop where
  | mono {K K' : Nat} {Δ : BCtx} {e es : Ast} : K ≤ K' → Beta2 fs K Δ e es → Beta2 fs K' Δ e es
  | lit {Δ : BCtx} (n lo hi lo' hi' : Int) :
      Beta2 fs 0 Δ (.node .LIT_INTEGER (.int n) lo hi []) (.node .LIT_INTEGER (.int n) lo' hi' [])
  | empty {Δ : BCtx} (d : TokData) (lo hi lo' hi' : Int) :
      Beta2 fs 0 Δ (.node .LIT_EMPTYSET d lo hi []) (.node .LIT_EMPTYSET d lo' hi' [])
  | glob {Δ : BCtx} (g : String) (lo hi lo' hi' : Int) :
      Beta2 fs 0 Δ (.node .ID_GLOBAL (.text g) lo hi []) (.node .ID_GLOBAL (.text g) lo' hi' [])
  | loc {Δ : BCtx} (x x' : String) (lo hi lo' hi' : Int) : lookup x Δ = some (.ren x') →
      Beta2 fs 0 Δ (.node .ID_LOCAL (.text x) lo hi []) (.node .ID_LOCAL (.text x') lo' hi' [])
  | par {Δ : BCtx} (p : String) (as : Ast) (N : List String) (Kp : Nat) (lo hi : Int) : lookup p Δ = some (.par as N Kp) →
      Beta2 fs (Kp + 1) Δ (.node .ID_LOCAL (.text p) lo hi []) as
  | un {K : Nat} {Δ : BCtx} {t : Tok} {a as : Ast} (d : TokData) (lo hi lo' hi' : Int) : isUn t → Beta2 fs K Δ a as →
      Beta2 fs K Δ (.node t d lo hi [a]) (.node t d lo' hi' [as])
  | pr {K : Nat} {Δ : BCtx} {t : Tok} {a as : Ast} (idx : List Int) (lo hi lo' hi' : Int) : t = .SMALLPR ∨ t = .BIGPR →
      Beta2 fs K Δ a as → Beta2 fs K Δ (.node t (.tuple idx) lo hi [a]) (.node t (.tuple idx) lo' hi' [as])
  | bin {K : Nat} {Δ : BCtx} {t : Tok} {a b as bs : Ast} (d : TokData) (lo hi lo' hi' : Int) : isBin7 t →
      Beta2 fs K Δ a as → Beta2 fs K Δ b bs → Beta2 fs K Δ (.node t d lo hi [a, b]) (.node t d lo' hi' [as, bs])
  | mem {K : Nat} {Δ : BCtx} {t : Tok} {a b as bs : Ast} (d : TokData) (lo hi lo' hi' : Int) : isMemTok t →
      b.id ≠ .BOOLEAN → bs.id ≠ .BOOLEAN →
      Beta2 fs K Δ a as → Beta2 fs K Δ b bs → Beta2 fs K Δ (.node t d lo hi [a, b]) (.node t d lo' hi' [as, bs])
  | memPow {K : Nat} {Δ : BCtx} {t : Tok} {a b as bs : Ast} (d d' : TokData) (lo hi lo' hi' lo2 hi2 lo2' hi2' : Int) :
      isMemTok t → Beta2 fs K Δ a as → Beta2 fs K Δ b bs →
      Beta2 fs K Δ (.node t d lo hi [a, .node .BOOLEAN d' lo2 hi2 [b]]) (.node t d lo' hi' [as, .node .BOOLEAN d' lo2' hi2' [bs]])
  | nary {K : Nat} {Δ : BCtx} {t : Tok} (d : TokData) (lo hi lo' hi' : Int) (ks kss : List Ast) : isNary t →
      ks.length = kss.length → (∀ q ∈ ks.zip kss, Beta2 fs K Δ q.1 q.2) →
      Beta2 fs K Δ (.node t d lo hi ks) (.node t d lo' hi' kss)
  /-- `Q p∈dom . body`, `p` a plain variable or a tuple pattern: every leaf renamed -/
  | quantP {K : Nat} {Δ Δ' : BCtx} {t : Tok} {p p' dom body doms bodys : Ast} (d : TokData) (lo hi lo' hi' : Int) :
      isQuant t → PRen Δ p p' Δ' → Beta2 fs K Δ dom doms → Beta2 fs K Δ' body bodys →
      Beta2 fs K Δ (.node t d lo hi [p, dom, body]) (.node t d lo' hi' [p', doms, bodys])
  /-- `D{p∈dom | body}` -/
  | declP {K : Nat} {Δ Δ' : BCtx} {p p' dom body doms bodys : Ast} (d : TokData) (lo hi lo' hi' : Int) :
      PRen Δ p p' Δ' → Beta2 fs K Δ dom doms → Beta2 fs K Δ' body bodys →
      Beta2 fs K Δ (.node .NT_DECLARATIVE_EXPR d lo hi [p, dom, body]) (.node .NT_DECLARATIVE_EXPR d lo' hi' [p', doms, bodys])
  /-- `Q p₁,…,pₙ∈dom . body` -/
  | quantE {K : Nat} {Δ Δ' : BCtx} {t : Tok} {dom body doms bodys : Ast} (d : TokData) (lo hi lo' hi' : Int)
      (ed ed' : NMeta) (ds ds' : List Ast) : isQuant t → PSeq Δ ds ds' Δ' → Beta2 fs K Δ dom doms → Beta2 fs K Δ' body bodys →
      Beta2 fs K Δ (.node t d lo hi [.node .NT_ENUM_DECL ed.d ed.lo ed.hi ds, dom, body])
        (.node t d lo' hi' [.node .NT_ENUM_DECL ed'.d ed'.lo ed'.hi ds', doms, bodys])
  /-- `R{p := init | body}` -/
  | recShort {K : Nat} {Δ Δ' : BCtx} {p p' init body inits bodys : Ast} (d : TokData) (lo hi lo' hi' : Int) :
      PRen Δ p p' Δ' → Beta2 fs K Δ init inits → Beta2 fs K Δ' body bodys →
      Beta2 fs K Δ (.node .NT_RECURSIVE_SHORT d lo hi [p, init, body]) (.node .NT_RECURSIVE_SHORT d lo' hi' [p', inits, bodys])
  /-- `R{p := init | cond | body}` -/
  | recFull {K : Nat} {Δ Δ' : BCtx} {p p' init cond body inits conds bodys : Ast} (d : TokData) (lo hi lo' hi' : Int) :
      PRen Δ p p' Δ' → Beta2 fs K Δ init inits → Beta2 fs K Δ' cond conds → Beta2 fs K Δ' body bodys →
      Beta2 fs K Δ (.node .NT_RECURSIVE_FULL d lo hi [p, init, cond, body])
        (.node .NT_RECURSIVE_FULL d lo' hi' [p', inits, conds, bodys])
  /-- `I{value | blocks}`: every block and the value in the scope of the blocks before it -/
  | imp {K : Nat} {Δ : BCtx} (d d' : TokData) (lo hi lo' hi' : Int) (value values : Ast) (bl : List B2) :
      imp2Side bl Δ → (∀ q ∈ imp2Obl bl Δ value values, Beta2 fs K q.1 q.2.1 q.2.2) →
      Beta2 fs K Δ (.node .NT_IMPERATIVE_EXPR d lo hi (value :: bl.map B2.src))
        (.node .NT_IMPERATIVE_EXPR d' lo' hi' (values :: bl.map B2.red))
  /-- `Fi_idx[P₁,…,Pₖ](S)` -/
  | filterT {K : Nat} {Δ : BCtx} (idx : List Int) (lo hi lo' hi' : Int) (ps pss : List Ast) (arg args : Ast) :
      idx.length = ps.length → ps.length = pss.length → (∀ q ∈ ps.zip pss, Beta2 fs K Δ q.1 q.2) → Beta2 fs K Δ arg args →
      Beta2 fs K Δ (.node .FILTER (.tuple idx) lo hi (ps ++ [arg])) (.node .FILTER (.tuple idx) lo' hi' (pss ++ [args]))
  /-- `Fi_idx[P](S)`, one parameter for `k ≠ 1` indices -/
  | filterC {K : Nat} {Δ : BCtx} {par arg pars args : Ast} (idx : List Int) (lo hi lo' hi' : Int) :
      idx.length ≠ 1 → Beta2 fs K Δ par pars → Beta2 fs K Δ arg args →
      Beta2 fs K Δ (.node .FILTER (.tuple idx) lo hi [par, arg]) (.node .FILTER (.tuple idx) lo' hi' [pars, args])
  | call {Ka Kb : Nat} {Δ : BCtx} {es body hd : Ast} (d : TokData) (lo hi : Int) (ft : Tok) (f : String) (flo fhi : Int)
      (fks : List Ast) (tt : Tok) (td : TokData) (tlo thi : Int) (fd : TokData) (dlo dhi : Int) (at' : Tok) (ad : TokData)
      (alo ahi : Int) (adecls args argss : List Ast) :
      lookup f fs = some (.node tt td tlo thi [hd, .node .NT_FUNC_DEFINITION fd dlo dhi [.node at' ad alo ahi adecls, body]]) →
      adecls.length = args.length → args.length = argss.length →
      (∀ q ∈ args.zip argss, Beta2 fs Ka Δ q.1 q.2) →
      Beta2 fs Kb (parCtx (avoid Δ) Ka ((paramNames adecls).zip argss)) body es →
      Beta2 fs (Kb + 1) Δ (.node .NT_FUNC_CALL d lo hi (.node ft (.text f) flo fhi fks :: args)) es

/-! ## soundness -/

/-- **soundness of β-reduction through every binder form**: a value of the reduct is the value of the expression with
calls, at every fuel of the reference semantics that is larger by at least `K` -/
theorem Beta2.sound {S : SEnv} {K : Nat} {Δ : BCtx} {e es : Ast} (h : Beta2 S.funcs K Δ e es) :
    ∀ ρ ρs, ERel S Δ ρ ρs → Sim S K ρ e ρs es := by
  induction h with
  | mono hk _ ih => intro ρ ρs hr; exact (ih ρ ρs hr).mono hk
  | lit n lo hi lo' hi' =>
    intro ρ ρs _
    exact Sim.node (fun f g _ v hv => by rw [denote_lit] at hv ⊢; exact hv)
  | empty d lo hi lo' hi' =>
    intro ρ ρs _
    exact Sim.node (fun f g _ v hv => by rw [denote_empty] at hv ⊢; exact hv)
  | glob g lo hi lo' hi' =>
    intro ρ ρs _
    exact Sim.node (fun f g _ v hv => by rw [denote_global] at hv ⊢; exact hv)
  | loc x x' lo hi lo' hi' hl =>
    intro ρ ρs hr
    obtain ⟨v, h1, h2⟩ := hr x _ hl
    refine Sim.node (fun f g _ w hw => ?_)
    rw [denote_local, h2] at hw
    rw [denote_local, h1]; exact hw
  | par p as N Kp lo hi hl =>
    intro ρ ρs hr
    obtain ⟨arg, cl, h1, h2⟩ := hr p _ hl
    intro f v hv f' hf'
    obtain ⟨g, rfl⟩ : ∃ g, f' = g + 1 := ⟨f' - 1, by omega⟩
    rw [denote_local, h1]
    exact h2 ρs .refl f v hv g (by omega)
  | @un K Δ t a as d lo hi lo' hi' ht _ ih =>
    intro ρ ρs hr
    refine Sim.node (fun f g hg => ?_)
    have key := (ih ρ ρs hr).ole hg
    intro v hv
    rcases ht with rfl | rfl | rfl | rfl | rfl | rfl
    · rw [denote_card] at hv ⊢; strict1_case f ρs as key hv
    · rw [denote_bool] at hv ⊢; strict1_case f ρs as key hv
    · rw [denote_debool] at hv ⊢; strict1_case f ρs as key hv
    · rw [denote_reduce] at hv ⊢; strict1_case f ρs as key hv
    · rw [denote_not] at hv ⊢; strict1_case f ρs as key hv
    · rw [denote_boolean] at hv ⊢; strict1_case f ρs as key hv
  | @pr K Δ t a as idx lo hi lo' hi' ht _ ih =>
    intro ρ ρs hr
    refine Sim.node (fun f g hg => ?_)
    have key := (ih ρ ρs hr).ole hg
    intro v hv
    rcases ht with rfl | rfl
    · rw [denote_smallpr] at hv ⊢; strict1_case f ρs as key hv
    · rw [denote_bigpr] at hv ⊢; strict1_case f ρs as key hv
  | @bin K Δ t a b as bs d lo hi lo' hi' ht _ _ iha ihb =>
    intro ρ ρs hr
    refine Sim.node (fun f g hg => ?_)
    have ka := (iha ρ ρs hr).ole hg
    have kb := (ihb ρ ρs hr).ole hg
    intro v hv
    rcases ht with ht | ht | ht | ht | ht | ht
    · rw [denote_arith ht] at hv ⊢
      exact OLe.strict2 (fun ra rb => (dInt ra).bind fun x => (dInt rb).map fun y => SemVal.val (.e (arithOp t x y)))
        (fun _ => rfl) (fun x => by simp [dInt]) ka kb v hv
    · rw [denote_intCmp ht] at hv ⊢
      exact OLe.strict2 (fun ra rb => (dInt ra).bind fun x => (dInt rb).map fun y => SemVal.bool (intCmpOp t x y))
        (fun _ => rfl) (fun x => by simp [dInt]) ka kb v hv
    · rw [denote_eq ht] at hv ⊢
      exact OLe.strict2 (fun ra rb => (dVal ra).bind fun x => (dVal rb).map fun y =>
          SemVal.bool (decide (x = y) != (t == .NOTEQUAL)))
        (fun _ => rfl) (fun x => by simp [dVal]) ka kb v hv
    · rw [denote_sub ht] at hv ⊢
      exact OLe.strict2 (fun ra rb => ((dSet ra).bind fun xs => (dSet rb).map fun ys => subSpec t xs ys).map SemVal.bool)
        (fun _ => rfl) (fun x => by simp [dSet, dVal]) ka kb v hv
    · rw [denote_setOp ht] at hv ⊢
      exact OLe.strict2 (fun ra rb => ((dSet ra).bind fun xs => (dSet rb).map fun ys => setOpSpec t xs ys).map SemVal.val)
        (fun _ => rfl) (fun x => by simp [dSet, dVal]) ka kb v hv
    · rw [denote_conn ht] at hv ⊢
      have hm := kConn_mono ht (dBool_mono ka) (dBool_mono kb)
      cases hk : kConn t (dBool (denote S f ρs as)) (dBool (denote S f ρs bs)) with
      | none => rw [hk] at hv; cases hv
      | some r => rw [hm r hk]; rw [hk] at hv; exact hv
  | @mem K Δ t a b as bs d lo hi lo' hi' ht hb hbs _ _ iha ihb =>
    intro ρ ρs hr
    refine Sim.node (fun f g hg => ?_)
    have ka := (iha ρ ρs hr).ole hg
    have kb := (ihb ρ ρs hr).ole hg
    intro v hv
    rw [denote_mem ht _ _ _ _ _ _ _ _ hbs] at hv
    rw [denote_mem ht _ _ _ _ _ _ _ _ hb]
    exact OLe.strict2 (fun ra rb => (((dVal ra).bind fun x => (dSet rb).map fun ys => isMember x ys).map
        fun r => r != (t == .NOTIN)).map SemVal.bool)
      (fun _ => rfl) (fun x => by simp [dSet, dVal]) ka kb v hv
  | @memPow K Δ t a b as bs d d' lo hi lo' hi' lo2 hi2 lo2' hi2' ht _ _ iha ihb =>
    intro ρ ρs hr
    refine Sim.node (fun f g hg => ?_)
    have ka := (iha ρ ρs hr).ole hg
    have kb := (ihb ρ ρs hr).ole hg
    intro v hv
    rw [denote_memPow ht] at hv ⊢
    exact OLe.strict2 (fun ra rb => (((dSet ra).bind fun xs => (dSet rb).map fun ys => isSubset xs ys).map
        fun r => r != (t == .NOTIN)).map SemVal.bool)
      (fun _ => rfl) (fun x => by simp [dSet, dVal]) ka kb v hv
  | @nary K Δ t d lo hi lo' hi' ks kss ht hlen _ ih =>
    intro ρ ρs hr
    refine Sim.node (fun f g hg => ?_)
    have hq : ∀ q ∈ ks.zip kss, OLe (denote S f ρs q.2) (denote S g ρ q.1) := fun q hq => (ih q hq ρ ρs hr).ole hg
    intro v hv
    rcases ht with rfl | rfl | rfl
    · rw [denote_enum] at hv ⊢
      have hm := mapM_mono dVal rfl (denote S g ρ) (denote S f ρs) ks kss hlen hq
      cases hk : kss.mapM (fun k => dVal (denote S f ρs k)) with
      | none => rw [hk] at hv; cases hv
      | some vs => rw [hm vs hk]; rw [hk] at hv; exact hv
    · rw [denote_tuple] at hv ⊢
      have hm := mapM_mono dVal rfl (denote S g ρ) (denote S f ρs) ks kss hlen hq
      cases hk : kss.mapM (fun k => dVal (denote S f ρs k)) with
      | none => rw [hk] at hv; cases hv
      | some vs => rw [hm vs hk]; rw [hk] at hv; exact hv
    · rw [denote_decart] at hv ⊢
      have hm := mapM_mono dSet rfl (denote S g ρ) (denote S f ρs) ks kss hlen hq
      cases hk : kss.mapM (fun k => dSet (denote S f ρs k)) with
      | none => rw [hk] at hv; cases hv
      | some vs => rw [hm vs hk]; rw [hk] at hv; exact hv
  | @quantP K Δ Δ' t p p' dom body doms bodys d lo hi lo' hi' ht hp _ _ ihd ihb =>
    intro ρ ρs hr
    refine Sim.node (fun f g hg => ?_)
    have kd := (ihd ρ ρs hr).ole hg
    intro v hv
    rw [denote_quantP ht _ _ _ _ _ _ _ _ _ hp.notEnum.2] at hv
    rw [denote_quantP ht _ _ _ _ _ _ _ _ _ hp.notEnum.1]
    cases hrd : denote S f ρs doms with
    | none => rw [hrd] at hv; simp [dSet, dVal] at hv
    | some wd =>
      rw [kd wd hrd]; rw [hrd] at hv
      cases hs : dSet (some wd) with
      | none => rw [hs] at hv; simp at hv
      | some xs =>
        rw [hs] at hv
        have hb : ∀ x ∈ xs, OLe (bindK p' ρs (fun ρ' => dBool (denote S f ρ' bodys)) x)
            (bindK p ρ (fun ρ' => dBool (denote S g ρ' body)) x) :=
          fun x _ => bindK_ole hp hr _ _ (fun ρ' ρs' h' => dBool_mono ((ihb ρ' ρs' h').ole hg)) x
        have hall := kAll_mono xs _ _ hb
        have hany := kAny_mono xs _ _ hb
        simp only at hv ⊢
        by_cases hu : (t == Tok.FORALL) = true
        · simp only [hu, if_true] at hv ⊢
          cases hk : kAll (xs.map (bindK p' ρs fun ρ' => dBool (denote S f ρ' bodys))) with
          | none => rw [hk] at hv; cases hv
          | some r => rw [hall r hk]; rw [hk] at hv; exact hv
        · simp only [hu] at hv ⊢
          cases hk : kAny (xs.map (bindK p' ρs fun ρ' => dBool (denote S f ρ' bodys))) with
          | none => rw [hk] at hv; cases hv
          | some r => rw [hany r hk]; rw [hk] at hv; exact hv
  | @declP K Δ Δ' p p' dom body doms bodys d lo hi lo' hi' hp _ _ ihd ihb =>
    intro ρ ρs hr
    refine Sim.node (fun f g hg => ?_)
    have kd := (ihd ρ ρs hr).ole hg
    intro v hv
    rw [denote_declP] at hv ⊢
    cases hrd : denote S f ρs doms with
    | none => rw [hrd] at hv; simp [dSet, dVal] at hv
    | some wd =>
      rw [kd wd hrd]; rw [hrd] at hv
      cases hs : dSet (some wd) with
      | none => rw [hs] at hv; simp at hv
      | some xs =>
        rw [hs] at hv
        have hb : ∀ x ∈ xs, OLe (bindK p' ρs (fun ρ' => (dBool (denote S f ρ' bodys)).map fun b => (x, b)) x)
            (bindK p ρ (fun ρ' => (dBool (denote S g ρ' body)).map fun b => (x, b)) x) :=
          fun x _ => bindK_ole hp hr _ _
            (fun ρ' ρs' h' => OLe.strict1 (fun r => (dBool r).map fun b => (x, b)) rfl ((ihb ρ' ρs' h').ole hg)) x
        have hm := mapM_val_mono xs _ _ hb
        simp only at hv ⊢
        cases hk : xs.mapM (fun x => bindK p' ρs (fun ρ' => (dBool (denote S f ρ' bodys)).map fun b => (x, b)) x) with
        | none => rw [hk] at hv; cases hv
        | some r => rw [hm r hk]; rw [hk] at hv; exact hv
  | @quantE K Δ Δ' t dom body doms bodys d lo hi lo' hi' ed ed' ds ds' ht hp _ _ ihd ihb =>
    intro ρ ρs hr
    refine Sim.node (fun f g hg => ?_)
    have kd := (ihd ρ ρs hr).ole hg
    intro v hv
    rw [denote_quantEnum ht] at hv ⊢
    cases hrd : denote S f ρs doms with
    | none => rw [hrd] at hv; simp [dSet, dVal] at hv
    | some wd =>
      rw [kd wd hrd]; rw [hrd] at hv
      cases hs : dSet (some wd) with
      | none => rw [hs] at hv; simp at hv
      | some xs =>
        rw [hs] at hv
        have hq := quantSem_ole (S := S) (t == .FORALL) xs (fun ρ' => dBool (denote S f ρ' bodys))
          (fun ρ' => dBool (denote S g ρ' body)) hp (fun ρ' ρs' h' => dBool_mono ((ihb ρ' ρs' h').ole hg)) ρ ρs hr
        simp only at hv ⊢
        cases hk : quantSem (t == .FORALL) xs (fun ρ' => dBool (denote S f ρ' bodys)) ds' ρs with
        | none => rw [hk] at hv; cases hv
        | some r => rw [hq r hk]; rw [hk] at hv; exact hv
  | @recShort K Δ Δ' p p' init body inits bodys d lo hi lo' hi' hp _ _ ihi ihb =>
    intro ρ ρs hr
    refine Sim.node (fun f g hg => ?_)
    have ki := (ihi ρ ρs hr).ole hg
    intro v hv
    rw [denote_recShortP] at hv ⊢
    cases hri : denote S f ρs inits with
    | none => rw [hri] at hv; simp [dVal] at hv
    | some wi =>
      rw [ki wi hri]; rw [hri] at hv
      cases hvv : dVal (some wi) with
      | none => rw [hvv] at hv; simp at hv
      | some i =>
        rw [hvv] at hv
        have hm := recSem_ole (fun _ => some true) (fun _ => some true)
          (fun cur => (bindPat p' cur ρs).bind fun ρ' => dVal (denote S f ρ' bodys))
          (fun cur => (bindPat p cur ρ).bind fun ρ' => dVal (denote S g ρ' body))
          (fun _ c hc => hc)
          (fun cur => bindBind_ole hp hr _ _ (fun ρ' ρs' h' => OLe.strict1 dVal rfl ((ihb ρ' ρs' h').ole hg)) cur)
          REC_BOUND i
        simp only at hv ⊢
        cases hk : recSem (fun _ => some true) (fun cur => (bindPat p' cur ρs).bind fun ρ' => dVal (denote S f ρ' bodys))
            REC_BOUND i with
        | none => rw [hk] at hv; cases hv
        | some r => rw [hm r hk]; rw [hk] at hv; exact hv
  | @recFull K Δ Δ' p p' init cond body inits conds bodys d lo hi lo' hi' hp _ _ _ ihi ihc ihb =>
    intro ρ ρs hr
    refine Sim.node (fun f g hg => ?_)
    have ki := (ihi ρ ρs hr).ole hg
    intro v hv
    rw [denote_recFullP] at hv ⊢
    cases hri : denote S f ρs inits with
    | none => rw [hri] at hv; simp [dVal] at hv
    | some wi =>
      rw [ki wi hri]; rw [hri] at hv
      cases hvv : dVal (some wi) with
      | none => rw [hvv] at hv; simp at hv
      | some i =>
        rw [hvv] at hv
        have hm := recSem_ole
          (fun cur => (bindPat p' cur ρs).bind fun ρ' => dBool (denote S f ρ' conds))
          (fun cur => (bindPat p cur ρ).bind fun ρ' => dBool (denote S g ρ' cond))
          (fun cur => (bindPat p' cur ρs).bind fun ρ' => dVal (denote S f ρ' bodys))
          (fun cur => (bindPat p cur ρ).bind fun ρ' => dVal (denote S g ρ' body))
          (fun cur => bindBind_ole hp hr _ _ (fun ρ' ρs' h' => dBool_mono ((ihc ρ' ρs' h').ole hg)) cur)
          (fun cur => bindBind_ole hp hr _ _ (fun ρ' ρs' h' => OLe.strict1 dVal rfl ((ihb ρ' ρs' h').ole hg)) cur)
          REC_BOUND i
        simp only at hv ⊢
        cases hk : recSem (fun cur => (bindPat p' cur ρs).bind fun ρ' => dBool (denote S f ρ' conds))
            (fun cur => (bindPat p' cur ρs).bind fun ρ' => dVal (denote S f ρ' bodys)) REC_BOUND i with
        | none => rw [hk] at hv; cases hv
        | some r => rw [hm r hk]; rw [hk] at hv; exact hv
  | @imp K Δ d d' lo hi lo' hi' value values bl hside _ ih =>
    intro ρ ρs hr
    refine Sim.node (fun f g hg => ?_)
    intro v hv
    rw [denote_impL] at hv ⊢
    have hm := impList_ole S value values hg bl Δ ρ ρs hr hside (fun q hq ρ ρs h1 => ih q hq ρ ρs h1)
    cases hk : impList S f values (bl.map B2.red) ρs with
    | none => rw [hk] at hv; cases hv
    | some l => rw [hm l hk]; rw [hk] at hv; exact hv
  | @filterT K Δ idx lo hi lo' hi' ps pss arg args hlen hlen2 _ _ ihp iha =>
    intro ρ ρs hr
    refine Sim.node (fun f g hg => ?_)
    have ka := (iha ρ ρs hr).ole hg
    have hq : ∀ q ∈ ps.zip pss, OLe (denote S f ρs q.2) (denote S g ρ q.1) := fun q hq => (ihp q hq ρ ρs hr).ole hg
    have hL := forall₂_ole dSet rfl (denote S g ρ) (denote S f ρs) ps pss hlen2 hq
    intro v hv
    rw [denote_filterT' _ _ _ _ _ _ _ _ (hlen.trans hlen2)] at hv
    rw [denote_filterT' _ _ _ _ _ _ _ _ hlen]
    cases hra : denote S f ρs args with
    | none => rw [hra] at hv; simp [dSet, dVal] at hv
    | some wa =>
      rw [ka wa hra]; rw [hra] at hv
      cases hs : dSet (some wa) with
      | none => rw [hs] at hv; simp at hv
      | some argv =>
        rw [hs] at hv
        simp only at hv ⊢
        by_cases hem : argv.isEmpty = true
        · rw [if_pos hem] at hv ⊢; exact hv
        · rw [if_neg hem] at hv ⊢
          exact filterTVal_mono idx argv hL v hv
  | @filterC K Δ par arg pars args idx lo hi lo' hi' hlen _ _ ihp iha =>
    intro ρ ρs hr
    refine Sim.node (fun f g hg => ?_)
    have ka := (iha ρ ρs hr).ole hg
    have kp := (ihp ρ ρs hr).ole hg
    intro v hv
    rw [denote_filterC _ _ _ _ _ _ _ _ hlen] at hv ⊢
    cases hra : denote S f ρs args with
    | none => rw [hra] at hv; simp [dSet, dVal] at hv
    | some wa =>
      rw [ka wa hra]; rw [hra] at hv
      cases hs : dSet (some wa) with
      | none => rw [hs] at hv; simp at hv
      | some argv =>
        rw [hs] at hv
        simp only at hv ⊢
        by_cases hem : argv.isEmpty = true
        · rw [if_pos hem] at hv ⊢; exact hv
        · rw [if_neg hem] at hv ⊢
          cases hrp : denote S f ρs pars with
          | none => rw [hrp] at hv; simp [dSet, dVal] at hv
          | some wp => rw [kp wp hrp]; rw [hrp] at hv; exact hv
  | @call Ka Kb Δ es body hd d lo hi ft fn flo fhi fks tt td tlo thi fd dlo dhi at' ad alo ahi adecls args argss hf hl1 hl2
      _ _ iha ihb =>
    intro ρ ρs hr
    intro f0 v hv f' hf'
    obtain ⟨g, rfl⟩ : ∃ g, f' = g + 1 := ⟨f' - 1, by omega⟩
    rw [denote_call S g ρ d lo hi ft fn flo fhi fks tt td tlo thi fd dlo dhi at' ad alo ahi adecls args hd body hf hl1]
    have hrel := parCtx_rel S (avoid Δ) Ka ρ ρs (paramNames adecls) args argss [] .nil hl2
      (fun q hq ρs' he => iha q hq ρ ρs' (hr.ext he)) (ERel.nil S _ _)
    exact ihb _ ρs hrel f0 v hv g (by omega)


/-- `Beta2` extends `Beta` -/
theorem Beta.toBeta2 {fs : Funcs} {K : Nat} {Δ : BCtx} {e es : Ast} (h : Beta fs K Δ e es) : Beta2 fs K Δ e es := by
  induction h with
  | mono hk _ ih => exact .mono hk ih
  | lit n lo hi lo' hi' => exact .lit n lo hi lo' hi'
  | empty d lo hi lo' hi' => exact .empty d lo hi lo' hi'
  | glob g lo hi lo' hi' => exact .glob g lo hi lo' hi'
  | loc x x' lo hi lo' hi' hl => exact .loc x x' lo hi lo' hi' hl
  | par p as N Kp lo hi hl => exact .par p as N Kp lo hi hl
  | un d lo hi lo' hi' ht _ ih => exact .un d lo hi lo' hi' ht ih
  | pr idx lo hi lo' hi' ht _ ih => exact .pr idx lo hi lo' hi' ht ih
  | bin d lo hi lo' hi' ht _ _ iha ihb => exact .bin d lo hi lo' hi' ht iha ihb
  | mem d lo hi lo' hi' ht hb hbs _ _ iha ihb => exact .mem d lo hi lo' hi' ht hb hbs iha ihb
  | memPow d d' lo hi lo' hi' lo2 hi2 lo2' hi2' ht _ _ iha ihb => exact .memPow d d' lo hi lo' hi' lo2 hi2 lo2' hi2' ht iha ihb
  | nary d lo hi lo' hi' ks kss ht hlen _ ih => exact .nary d lo hi lo' hi' ks kss ht hlen ih
  | quant d lo hi lo' hi' x x' dlo dhi dlo' dhi' ht hx' _ _ ihd ihb =>
    exact .quantP d lo hi lo' hi' ht (.var x x' dlo dhi dlo' dhi' [] [] hx' .nil) ihd ihb
  | decl d lo hi lo' hi' x x' dlo dhi dlo' dhi' hx' _ _ ihd ihb =>
    exact .declP d lo hi lo' hi' (.var x x' dlo dhi dlo' dhi' [] [] hx' .nil) ihd ihb
  | call d lo hi ft f flo fhi fks tt td tlo thi fd dlo dhi at' ad alo ahi adecls args argss hf hl1 hl2 _ _ iha ihb =>
    exact .call d lo hi ft f flo fhi fks tt td tlo thi fd dlo dhi at' ad alo ahi adecls args argss hf hl1 hl2 iha ihb

/-! ## the two reductions composed, at the top level -/

/-- **evaluation of a closed expression with calls AND patterns / `R{}` / `I{}` / filters**: `e` β-reduces (`Beta2`, calls
unfolded through every binder form) to the call-free `e1`, `e1` goes by pattern elimination with the filter rules (`PE2`)
to the expression `es` over plain variables, `es` lies in the typed fragment of stage 8 with normal form `n`, and `n` is
what the normaliser returns for `e`.  The answer of `Interpreter::Evaluate` is the value the reference semantics assigns
to `e` ITSELF at every fuel `≥ fuel + K`, or the model's `outOfFuel`, or a documented error - never `stuck`, never
`unknownError` -/
theorem evaluate_callsPat {env : Env} {G : TCtx} {lvl : Nat} (hG : GlobalsOK env G) {e e1 es n : Ast} {τ : ExprTy} {K f0 : Nat}
    (h : FragF env G lvl [] [] es n τ) (hb : Beta2 env.funcs K [] e e1) (hu : PE2 (senvOf env) [] [] e1 es)
    (hn0 : normalizeTree env.funcs f0 e = some n) (fuel : Nat) :
    TopGood env (fuel + K) e τ (evaluate fuel env e).1 ∨ (evaluate fuel env e).1 = .outOfFuel ∨
    ∃ eid pos, (evaluate fuel env e).1 = .err eid pos ∧ DocErr eid := by
  have hs := h.shape_closed
  have hun : ∀ v, (∀ f', fuel ≤ f' → denote (senvOf env) f' .nil es = some v) →
      ∀ f', fuel + K ≤ f' → denote (senvOf env) f' .nil e = some v := fun v hd f' hf' =>
    Beta2.sound (S := senvOf env) hb .nil .nil (ERel.nil _ _ _) fuel v
      (hu.sound .nil .nil (URel.nil _ _) (EnvTy.nil _) fuel v (hd fuel (Nat.le_refl _)) fuel (by omega)) f' hf'
  unfold evaluate
  rcases normalizeTree_stable hn0 fuel with hn | hn
  · right; left; simp [hn]
  · simp only [hn]
    unfold evalNorm
    rcases collect_shape8 hs fuel {} (NCInv.empty env) with hc | ⟨pos, hc⟩ | ⟨vars, al, nc, hc, hi, _, hcov⟩
    · right; left; simp [hc]
    · right; right; exact ⟨_, pos, by simp [hc], Or.inr (Or.inr (Or.inl rfl))⟩
    · simp only [hc]
      have hinv : Inv env { ids := nc.ids } [] [] .nil { data := nc.data, iters := 0 } :=
        ⟨hi.range, hi.inj, hi.glob, by intro x σ hx; simp [lookup] at hx, by intro x r hx; simp [lookup] at hx⟩
      have hsim := simF hG { ids := nc.ids } h fuel none { data := nc.data, iters := 0 } .nil hinv hcov
      cases τ with
      | ty ty =>
        rcases hsim with ⟨v, st', hr, _, hw, hn', hd⟩ | ⟨fl, k, hr, hf⟩
        · left; exact ⟨v, by simp [hr], hw, hn', hun _ hd⟩
        · rcases hf with rfl | ⟨eid, pos, rfl, hdoc⟩
          · right; left; simp [hr]
          · right; right; exact ⟨eid, pos, by simp [hr], hdoc⟩
      | logic =>
        rcases hsim with ⟨b, st', hr, _, hd⟩ | ⟨fl, k, hr, hf⟩
        · left; exact ⟨b, by simp [hr], hun _ hd⟩
        · rcases hf with rfl | ⟨eid, pos, rfl, hdoc⟩
          · right; left; simp [hr]
          · right; right; exact ⟨eid, pos, by simp [hr], hdoc⟩

end CCVerif.Eval
