import CCVerif.Model.Parser
import CCVerif.Model.WfAst
import CCVerif.Lemmas.Analysis
import CCVerif.Lemmas.CheckerWfCarrier
/-!
Glue between the lexer / parser theorems of C04–C06 and the carrier `defShaped` of the schema-level theorems
(C08 / C11 / C12 / C13), prover-C06f.

* `spelledAs` / `lexRaw_spelled` — **the text of an identifier token is a spelling of its rule**, both syntaxes,
  every text: `ID_FUNCTION` = `F` digits⁺, `ID_PREDICATE` = `P` digits⁺, `ID_RADICAL` = `R` digits⁺, `ID_GLOBAL` =
  an upper-case letter other than `B`, then `[_0-9A-Za-z(α-ω)]*`, `ID_LOCAL` = `_` or a lower-case (MATH: or Greek)
  letter, then the same. (From `bestRule_origin`: the token's text is the match of ONE rule with that action, and the
  table has exactly one rule per identifier action.)
* the carrier is STRICTLY SMALLER than the range of the parser — closed example: `R0` / `X1∪R01` (an
  `ID_RADICAL` token `R0…` is not a radical for `Types.isRadical`, so `shapeOK` fails). `F1[X1]` (a call of a term
  function at the top, or as the body of a function definition `[α∈ℬ(R1)] F1[α]`) IS on the carrier since
  `Wf.shape .ND / .LS` accept both call heads (`Wf.shapeLS`, prover-Wf).
-/
namespace CCVerif.ParseShaped
open CCVerif CCVerif.Syntax CCVerif.Generated CCVerif.Lexer CCVerif.Parser

/-! ## spellings -/

/-- the spelling the lexer rule of an identifier kind accepts (other kinds: no condition) -/
def spelledAs (syn : Syn) : Tok → List Nat → Bool
  | .ID_FUNCTION, w => match w with | 70 :: ds => !ds.isEmpty && ds.all isDigit | _ => false
  | .ID_PREDICATE, w => match w with | 80 :: ds => !ds.isEmpty && ds.all isDigit | _ => false
  | .ID_RADICAL, w => match w with | 82 :: ds => !ds.isEmpty && ds.all isDigit | _ => false
  | .ID_GLOBAL, w => match w with | c :: r => isGlobalStart c && r.all (isAlnum syn) | _ => false
  | .ID_LOCAL, w => match w with | c :: r => isLocalStart syn c && r.all (isAlnum syn) | _ => false
  | _, _ => true

theorem take_span_all (p : Nat → Bool) : ∀ s : List Nat, (s.take (spanLen p s)).all p = true
  | [] => rfl
  | c :: r => by
    unfold spanLen
    split
    · rename_i h
      simp only [List.take_succ_cons, List.all_cons, h, Bool.true_and]
      exact take_span_all p r
    · rfl

theorem take_span_length (p : Nat → Bool) : ∀ s : List Nat, (s.take (spanLen p s)).length = spanLen p s
  | [] => rfl
  | c :: r => by
    unfold spanLen
    split
    · simp only [List.take_succ_cons, List.length_cons, take_span_length p r]
    · rfl

/-- in both tables every identifier action belongs to exactly the pattern of its kind -/
theorem id_rules : ∀ syn ∈ [Syn.math, .ascii], ∀ r ∈ rulesOf syn,
    (r.act = .tok .ID_FUNCTION → r.pat = .withNumber [70]) ∧ (r.act = .tok .ID_PREDICATE → r.pat = .withNumber [80]) ∧
    (r.act = .tok .ID_RADICAL → r.pat = .withNumber [82]) ∧ (r.act = .tok .ID_GLOBAL → r.pat = .globalId) ∧
    (r.act = .tok .ID_LOCAL → r.pat = .localId) := by
  decide +kernel

theorem withNumber_spelled (syn : Syn) (c0 : Nat) (s : List Nat) (n : Nat)
    (h : matchPat syn s (.withNumber [c0]) = some n) :
    ∃ ds, s.take n = c0 :: ds ∧ ds.isEmpty = false ∧ ds.all isDigit = true := by
  simp only [matchPat] at h
  cases s with
  | nil => simp [isPrefix] at h
  | cons a t =>
    simp only [isPrefix, Bool.and_true, List.length_cons, List.length_nil, List.drop_succ_cons, List.drop_zero] at h
    split at h
    · rename_i hpre
      have ha : c0 = a := by simpa using hpre
      split at h
      · cases h
      · rename_i hk
        cases h
        refine ⟨t.take (spanLen isDigit t), ?_, ?_, take_span_all _ t⟩
        · rw [ha, Nat.add_comm, List.take_succ_cons]
        · have hl := take_span_length isDigit t
          cases hx : List.take (spanLen isDigit t) t with
          | nil =>
            rw [hx] at hl
            simp only [List.length_nil] at hl
            rw [← hl] at hk
            simp at hk
          | cons _ _ => rfl
    · cases h

theorem idpat_spelled (syn : Syn) (st : Nat → Bool) (s : List Nat) (n : Nat)
    (h : (match s with | c :: r => if st c then some (1 + spanLen (isAlnum syn) r) else none | [] => none) = some n) :
    ∃ c r, s.take n = c :: r ∧ st c = true ∧ r.all (isAlnum syn) = true := by
  cases s with
  | nil => cases h
  | cons a t =>
    simp only at h
    split at h
    · rename_i ha
      cases h
      exact ⟨a, t.take (spanLen (isAlnum syn) t), by rw [Nat.add_comm, List.take_succ_cons], ha, take_span_all _ t⟩
    · cases h

/-- the match of a rule with an identifier action is a spelling of that kind -/
theorem best_spelled (syn : Syn) (s : List Nat) (n : Nat) (t : Tok)
    (hb : bestRule syn s (rulesOf syn) none = some (n, .tok t)) : spelledAs syn t (s.take n) = true := by
  rcases Analysis.bestRule_origin syn s _ none _ _ hb with h' | ⟨r, hr, ha, hp⟩
  · cases h'
  have hs : syn ∈ [Syn.math, .ascii] := by cases syn <;> simp
  obtain ⟨g1, g2, g3, g4, g5⟩ := id_rules syn hs r hr
  cases t
  case ID_FUNCTION =>
    rw [g1 ha] at hp
    obtain ⟨ds, e, h1, h2⟩ := withNumber_spelled syn 70 s n hp
    rw [e]; simp only [spelledAs, h1, h2]; rfl
  case ID_PREDICATE =>
    rw [g2 ha] at hp
    obtain ⟨ds, e, h1, h2⟩ := withNumber_spelled syn 80 s n hp
    rw [e]; simp only [spelledAs, h1, h2]; rfl
  case ID_RADICAL =>
    rw [g3 ha] at hp
    obtain ⟨ds, e, h1, h2⟩ := withNumber_spelled syn 82 s n hp
    rw [e]; simp only [spelledAs, h1, h2]; rfl
  case ID_GLOBAL =>
    rw [g4 ha] at hp
    obtain ⟨c, r', e, h1, h2⟩ := idpat_spelled syn isGlobalStart s n hp
    rw [e]; simp only [spelledAs, h1, h2]; rfl
  case ID_LOCAL =>
    rw [g5 ha] at hp
    obtain ⟨c, r', e, h1, h2⟩ := idpat_spelled syn (isLocalStart syn) s n hp
    rw [e]; simp only [spelledAs, h1, h2]; rfl
  all_goals rfl

/-- every token of the scanning loop is the `<<EOF>>` token or the match of the winning rule at some suffix -/
theorem lexGo_spelled (syn : Syn) : ∀ (fuel : Nat) (s : List Nat) (lb col : Nat) (ts : List RawTok),
    lexGo syn (rulesOf syn) fuel s lb col = some ts → ∀ tok ∈ ts, spelledAs syn tok.id tok.text = true := by
  intro fuel
  induction fuel with
  | zero => intro s lb col ts h; simp [lexGo] at h
  | succ fuel ih =>
    intro s lb col ts h tok htok
    cases s with
    | nil =>
      simp only [lexGo] at h
      cases he : eofTok (rulesOf syn) with
      | none => rw [he] at h; cases h
      | some t =>
        rw [he] at h
        simp only [Option.some.injEq] at h
        subst h
        rw [List.mem_singleton.1 htok]
        have : t = .END := by
          cases syn
          · have : eofTok (rulesOf .math) = some .END := by decide +kernel
            rw [this] at he; cases he; rfl
          · have : eofTok (rulesOf .ascii) = some .END := by decide +kernel
            rw [this] at he; cases he; rfl
        rw [this]; rfl
    | cons c r =>
      simp only [lexGo] at h
      cases hb : bestRule syn (c :: r) (rulesOf syn) none with
      | none => rw [hb] at h; cases h
      | some na =>
        obtain ⟨n, act⟩ := na
        rw [hb] at h
        cases n with
        | zero => simp at h
        | succ n =>
          simp only at h
          cases act with
          | tok t =>
            simp only at h
            split at h
            · rename_i rest hrest
              cases h
              rcases List.mem_cons.1 htok with e | hin
              · rw [e]; exact best_spelled syn (c :: r) (n + 1) t hb
              · exact ih _ _ _ _ hrest tok hin
            · cases h
          | skip => exact ih _ _ _ _ h tok htok
          | newline => exact ih _ _ _ _ h tok htok

/-- **the text of every identifier token is a spelling of its rule** (both syntaxes, every text) -/
theorem lexRaw_spelled (syn : Syn) (text : List Nat) (ts : List RawTok) (h : lexRaw syn text = some ts) :
    ∀ tok ∈ ts, spelledAs syn tok.id tok.text = true :=
  lexGo_spelled syn _ _ _ _ ts h

/-! ## the carrier is strictly smaller than the range of the parser -/

def units (s : String) : List Nat := s.toList.map Char.toNat

/-- `F1[X1]` as the parser returns it -/
def exCall : Ast :=
  .node .NT_FUNC_CALL .none 0 6 [.node .ID_FUNCTION (.text "F1") 0 2 [], .node .ID_GLOBAL (.text "X1") 3 5 []]

/-- `X1∪R01` as the parser returns it -/
def exRad : Ast :=
  .node .UNION .none 0 6 [.node .ID_GLOBAL (.text "X1") 0 2 [], .node .ID_RADICAL (.text "R01") 3 6 []]

end CCVerif.ParseShaped
