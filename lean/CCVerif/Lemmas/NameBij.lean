/-!
Bijections of names with an explicit inverse, and the transposition of two names (C08: the
admissible renamings of the equivariance laws).
-/
namespace CCVerif

/-- a bijection of names with its inverse -/
structure Bij where
  f : String → String
  g : String → String
  gf : ∀ n, g (f n) = n
  fg : ∀ n, f (g n) = n

def Bij.inv (b : Bij) : Bij := ⟨b.g, b.f, b.fg, b.gf⟩

def Bij.id : Bij := ⟨fun n => n, fun n => n, fun _ => rfl, fun _ => rfl⟩

theorem Bij.inj (b : Bij) {x y : String} (h : b.f x = b.f y) : x = y := by
  rw [← b.gf x, ← b.gf y, h]

theorem Bij.f_eq_iff (b : Bij) {x y : String} : b.f x = b.f y ↔ x = y :=
  ⟨b.inj, fun h => h ▸ rfl⟩

theorem Bij.beq (b : Bij) (x y : String) : (b.f x == b.f y) = (x == y) := by
  by_cases h : x = y
  · subst h; rw [beq_self_eq_true, beq_self_eq_true]
  · have : b.f x ≠ b.f y := fun e => h (b.inj e)
    rw [beq_eq_false_iff_ne.2 this, beq_eq_false_iff_ne.2 h]

/-- the transposition of two names -/
def swapName (a b n : String) : String := if n = a then b else if n = b then a else n

theorem swapName_invol (a b n : String) : swapName a b (swapName a b n) = n := by
  unfold swapName
  by_cases h1 : n = a
  · by_cases h2 : b = a
    · simp [h1, h2]
    · simp [h1, h2]
  · by_cases h2 : n = b
    · simp [h2]
    · simp [h1, h2]

def Bij.swap (a b : String) : Bij := ⟨swapName a b, swapName a b, swapName_invol a b, swapName_invol a b⟩

theorem swapName_left (a b : String) : swapName a b a = b := by simp [swapName]
theorem swapName_other {a b n : String} (h1 : n ≠ a) (h2 : n ≠ b) : swapName a b n = n := by
  simp [swapName, h1, h2]

end CCVerif
