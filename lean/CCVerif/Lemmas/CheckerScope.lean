import CCVerif.Model.Checker
import CCVerif.Spec.Typing
import CCVerif.Lemmas.CheckerSound
import CCVerif.Lemmas.CleanTypes
/-!
Scope bookkeeping of the checker (`StartScope` / `EndScope` / `AddLocalVariable` /
`GetLocalTypification`) seen through `view`: the enabled variable a name resolves to, with its
type and scope level. The lexical environment `Env` of the declarative system is related to the
visitor state by `Rel`; `Same` / `Ext` say how a visit changes the view.
(Helper lemmas for C03 `check_sound_partial1`.)
-/
namespace CCVerif.Checker
open CCVerif.Syntax CCVerif.Types CCVerif.Spec

/-! ## `findLocal` under the list operations of the scope functions -/

theorem findLocal_map (f : LocalData → LocalData) (hf : ∀ v, (f v).name = v.name) (x : String) :
    ∀ L : List LocalData, findLocal x (L.map f) = (findLocal x L).map (fun p => (p.1, f p.2))
  | [] => rfl
  | v :: vs => by
    simp only [List.map, findLocal, hf]
    by_cases h : (v.name == x) = true
    · simp [h]
    · simp only [h, Bool.false_eq_true, if_false]
      rw [findLocal_map f hf x vs]
      cases findLocal x vs with
      | none => rfl
      | some p => rfl

theorem findLocal_name {x : String} : ∀ {L : List LocalData} {i : Nat} {v : LocalData},
    findLocal x L = some (i, v) → v.name = x
  | [], _, _, h => by simp [findLocal] at h
  | u :: us, i, v, h => by
    simp only [findLocal] at h
    by_cases hu : (u.name == x) = true
    · simp only [hu, if_true, Option.some.injEq, Prod.mk.injEq] at h
      rw [← h.2]; simpa using hu
    · simp only [hu, Bool.false_eq_true, if_false] at h
      cases hr : findLocal x us with
      | none => simp [hr] at h
      | some p =>
        obtain ⟨j, v'⟩ := p
        simp only [hr, Option.some.injEq, Prod.mk.injEq] at h
        obtain ⟨_, rfl⟩ := h
        exact findLocal_name hr

theorem findLocal_set {x : String} {w : LocalData} (hw : w.name = x) :
    ∀ {L : List LocalData} {i : Nat} {v : LocalData}, findLocal x L = some (i, v) →
    ∀ y, findLocal y (L.set i w) = if y = x then some (i, w) else findLocal y L
  | [], _, _, h, _ => by simp [findLocal] at h
  | u :: us, i, v, h, y => by
    simp only [findLocal] at h
    by_cases hu : (u.name == x) = true
    · simp only [hu, if_true, Option.some.injEq, Prod.mk.injEq] at h
      obtain ⟨rfl, rfl⟩ := h
      have hux : u.name = x := by simpa using hu
      simp only [List.set, findLocal]
      by_cases hy : y = x
      · subst hy; simp [hw]
      · have h1 : (w.name == y) = false := by
          rw [hw]; simp; exact fun e => hy e.symm
        have h2 : (u.name == y) = false := by
          rw [hux]; simp; exact fun e => hy e.symm
        simp [h1, h2, hy]
    · simp only [hu, Bool.false_eq_true, if_false] at h
      cases hr : findLocal x us with
      | none => simp [hr] at h
      | some p =>
        obtain ⟨j, v'⟩ := p
        simp only [hr, Option.some.injEq, Prod.mk.injEq] at h
        obtain ⟨rfl, rfl⟩ := h
        have ih := findLocal_set hw hr y
        simp only [List.set, findLocal]
        by_cases hy : y = x
        · subst hy
          simp only [hu, Bool.false_eq_true, if_false, ih, if_true]
        · simp only [ih, hy, if_false]

theorem findLocal_append (w : LocalData) (y : String) : ∀ L : List LocalData,
    findLocal y (L ++ [w]) =
      match findLocal y L with
      | some r => some r
      | none => if (w.name == y) = true then some (L.length, w) else none
  | [] => by simp [findLocal]
  | u :: us => by
    simp only [List.cons_append, findLocal]
    by_cases hu : (u.name == y) = true
    · simp [hu]
    · simp only [hu, Bool.false_eq_true, if_false]
      rw [findLocal_append w y us]
      cases findLocal y us with
      | some r => rfl
      | none =>
        by_cases hwy : (w.name == y) = true
        · simp [hwy]
        · simp [hwy]

/-! ## the view of the local variables -/

/-- the enabled variable the name resolves to: its type and scope level -/
def view (L : List LocalData) (x : String) : Option (Ty × Int) :=
  match findLocal x L with
  | some (_, v) => if v.enabled then some (v.type, v.level) else none
  | none => none

theorem view_startScope (L : List LocalData) (x : String) :
    view (L.map fun v => { v with level := v.level + 1 }) x = (view L x).map (fun p => (p.1, p.2 + 1)) := by
  unfold view
  rw [findLocal_map (fun v : LocalData => { v with level := v.level + 1 }) (fun _ => rfl)]
  cases findLocal x L with
  | none => rfl
  | some p =>
    simp only [Option.map]
    by_cases he : p.2.enabled = true
    · simp [he]
    · simp [he]

/-- one element of the loop of `EndScope` -/
def endF (v : LocalData) : LocalData :=
  if v.level - 1 < 0 && v.enabled then { v with level := v.level - 1, enabled := false }
  else { v with level := v.level - 1 }

theorem endScopeGo_fst (nw : Bool) (pos : Int) : ∀ L : List LocalData, (endScopeGo nw pos L).1 = L.map endF
  | [] => rfl
  | v :: vs => by
    have ih := endScopeGo_fst nw pos vs
    simp only [endScopeGo, List.map]
    generalize endScopeGo nw pos vs = r at ih
    obtain ⟨rest, es⟩ := r
    simp only at ih
    subst ih
    simp only [endF]
    by_cases h1 : (decide (v.level - 1 < 0) && v.enabled) = true
    · simp only [h1, if_true]
      by_cases h2 : (v.useCount == 0 && !nw) = true
      · simp [h2]
      · simp [h2]
    · simp [h1]

theorem view_endScope (nw : Bool) (pos : Int) (L : List LocalData) (x : String) :
    view (endScopeGo nw pos L).1 x =
      (view L x).bind (fun p => if p.2 - 1 < 0 then none else some (p.1, p.2 - 1)) := by
  rw [endScopeGo_fst]
  unfold view
  rw [findLocal_map endF (fun v => by unfold endF; split <;> rfl)]
  cases findLocal x L with
  | none => rfl
  | some p =>
    simp only [Option.map, endF]
    by_cases he : p.2.enabled = true
    · by_cases hl : p.2.level - 1 < 0
      · simp [he, hl]
      · simp [he, hl]
    · by_cases hl : p.2.level - 1 < 0
      · simp [he, hl]
      · simp [he, hl]

theorem view_set {x : String} {w : LocalData} (hw : w.name = x) {L : List LocalData} {i : Nat} {v : LocalData}
    (h : findLocal x L = some (i, v)) (y : String) :
    view (L.set i w) y =
      if y = x then (if w.enabled then some (w.type, w.level) else none) else view L y := by
  unfold view
  rw [findLocal_set hw h y]
  by_cases hy : y = x
  · simp [hy]
  · simp [hy]

theorem view_append {x : String} {w : LocalData} (hw : w.name = x) {L : List LocalData}
    (h : findLocal x L = none) (y : String) :
    view (L ++ [w]) y =
      if y = x then (if w.enabled then some (w.type, w.level) else none) else view L y := by
  unfold view
  rw [findLocal_append]
  by_cases hy : y = x
  · subst hy; simp [h, hw]
  · have : (w.name == y) = false := by rw [hw]; simp; exact fun e => hy e.symm
    simp only [hy, if_false, this, Bool.false_eq_true]
    cases findLocal y L with
    | none => rfl
    | some r => rfl

/-! ## names of the local variables are unique -/

def names (L : List LocalData) : List String := L.map (·.name)

/-- no two entries of `localVars` have the same name -/
def Uniq (L : List LocalData) : Prop := (names L).Nodup

theorem names_map (f : LocalData → LocalData) (hf : ∀ v, (f v).name = v.name) (L : List LocalData) :
    names (L.map f) = names L := by
  unfold names; rw [List.map_map]; congr 1; funext v; exact hf v

theorem names_set {x : String} {w : LocalData} : ∀ {L : List LocalData} {i : Nat} {v : LocalData},
    findLocal x L = some (i, v) → w.name = v.name → names (L.set i w) = names L
  | [], _, _, h, _ => by simp [findLocal] at h
  | u :: us, i, v, h, hw => by
    simp only [findLocal] at h
    by_cases hu : (u.name == x) = true
    · simp only [hu, if_true, Option.some.injEq, Prod.mk.injEq] at h
      obtain ⟨rfl, rfl⟩ := h
      simp [names, hw]
    · simp only [hu, Bool.false_eq_true, if_false] at h
      cases hr : findLocal x us with
      | none => simp [hr] at h
      | some p =>
        obtain ⟨j, v'⟩ := p
        simp only [hr, Option.some.injEq, Prod.mk.injEq] at h
        obtain ⟨rfl, rfl⟩ := h
        have ih := names_set (w := w) hr hw
        simp only [names, List.set, List.map_cons] at ih ⊢
        rw [ih]

theorem findLocal_none_iff {x : String} : ∀ {L : List LocalData}, findLocal x L = none ↔ x ∉ names L
  | [] => by simp [findLocal, names]
  | u :: us => by
    have ih := findLocal_none_iff (x := x) (L := us)
    by_cases hu : (u.name == x) = true
    · have hx : u.name = x := by simpa using hu
      simp [findLocal, hu, names, hx]
    · have hne : ¬ x = u.name := fun e => hu (by simp [e])
      have hmem : x ∈ names (u :: us) ↔ x ∈ names us := by simp [names, hne]
      rw [hmem, ← ih]
      simp only [findLocal, hu, Bool.false_eq_true, if_false]
      cases findLocal x us with
      | none => simp
      | some p => simp

theorem uniq_append {x : String} {w : LocalData} {L : List LocalData} (hw : w.name = x)
    (h : findLocal x L = none) (hu : Uniq L) : Uniq (L ++ [w]) := by
  unfold Uniq names at *
  rw [List.map_append, List.nodup_append]
  refine ⟨hu, by simp, fun a ha b hb => ?_⟩
  simp only [List.map_cons, List.map_nil, List.mem_singleton] at hb
  subst hb
  intro e; subst e
  have := (findLocal_none_iff (x := x) (L := L)).mp h
  rw [← hw] at this
  exact this ha

theorem findLocal_filter (p : LocalData → Bool) (x : String) : ∀ {L : List LocalData}, Uniq L →
    (findLocal x (L.filter p)).map (·.2) = ((findLocal x L).map (·.2)).bind (fun v => if p v then some v else none)
  | [], _ => rfl
  | u :: us, hu => by
    have hu' : u.name ∉ names us ∧ Uniq us := by
      unfold Uniq names at hu ⊢; simpa [List.nodup_cons] using hu
    have ih := findLocal_filter p x hu'.2
    by_cases hux : (u.name == x) = true
    · have hx : u.name = x := by simpa using hux
      by_cases hp : p u = true
      · simp [List.filter, hp, findLocal, hux]
      · have hnone : findLocal x (us.filter p) = none := by
          rw [findLocal_none_iff]
          intro hm
          have : x ∈ names us := by
            unfold names at hm ⊢
            exact (List.Sublist.map _ List.filter_sublist).subset hm
          exact hu'.1 (hx ▸ this)
        simp [List.filter, hp, findLocal, hux, hnone]
    · by_cases hp : p u = true
      · simp only [List.filter, hp, findLocal, hux, Bool.false_eq_true, if_false]
        cases h1 : findLocal x (us.filter p) with
        | none =>
          rw [h1] at ih
          cases h2 : findLocal x us with
          | none => rfl
          | some q => rw [h2] at ih; simpa using ih
        | some q =>
          rw [h1] at ih
          cases h2 : findLocal x us with
          | none => rw [h2] at ih; simp at ih
          | some q' => rw [h2] at ih; simpa using ih
      · simp only [List.filter, hp, findLocal, hux, Bool.false_eq_true, if_false]
        cases h1 : findLocal x (us.filter p) with
        | none =>
          rw [h1] at ih
          cases h2 : findLocal x us with
          | none => rfl
          | some q => rw [h2] at ih; simpa using ih
        | some q =>
          rw [h1] at ih
          cases h2 : findLocal x us with
          | none => rw [h2] at ih; simp at ih
          | some q' => rw [h2] at ih; simpa using ih

/-- `ClearLocalVariables` through the view: variables of level ≤ 0 disappear -/
theorem view_clear {L : List LocalData} (hu : Uniq L) (x : String) :
    view (L.filter fun v => v.level > 0) x = (view L x).bind (fun p => if p.2 > 0 then some p else none) := by
  have h := findLocal_filter (fun v => decide (v.level > 0)) x hu
  unfold view
  cases h1 : findLocal x (L.filter fun v => decide (v.level > 0)) with
  | none =>
    rw [h1] at h
    cases h2 : findLocal x L with
    | none => rfl
    | some q =>
      rw [h2] at h
      simp only [Option.map, Option.bind] at h
      by_cases hl : q.2.level > 0
      · simp [hl] at h
      · by_cases he : q.2.enabled = true
        · simp [he, hl]
        · simp [he]
  | some q =>
    rw [h1] at h
    cases h2 : findLocal x L with
    | none => rw [h2] at h; simp at h
    | some q' =>
      rw [h2] at h
      obtain ⟨i, v⟩ := q
      obtain ⟨j, v'⟩ := q'
      simp only [Option.map, Option.bind] at h
      by_cases hl : v'.level > 0
      · simp only [hl, decide_true, if_true, Option.some.injEq] at h
        subst h
        by_cases he : v.enabled = true
        · simp [he, hl]
        · simp [he]
      · simp [hl] at h

/-! ## relations between visitor states -/

/-- the guard counters are unchanged -/
structure SameF (s s' : St) : Prop where
  localDecl : s'.localDecl = s.localDecl
  argDecl : s'.argDecl = s.argDecl
  funcDecl : s'.funcDecl = s.funcDecl
  args : s'.args = s.args
  uniq : Uniq s.locals → Uniq s'.locals

/-- same visible variables (types and levels) and same guard counters -/
def Same (s s' : St) : Prop := (∀ x, view s'.locals x = view s.locals x) ∧ SameF s s'

/-- `s'` sees what `s` sees plus variables declared at the current level -/
def Ext (s s' : St) : Prop :=
  (∀ x, view s'.locals x = view s.locals x ∨ (view s.locals x = none ∧ ∃ t, view s'.locals x = some (t, 0))) ∧
  SameF s s'

/-- all visible variables have a non-negative level -/
def Lv (s : St) : Prop := ∀ x t l, view s.locals x = some (t, l) → 0 ≤ l

/-- state in which an expression (not a declaration) is visited -/
def GoodSt (s : St) : Prop := s.localDecl = 0 ∧ s.argDecl = 0 ∧ Lv s ∧ Uniq s.locals

/-- the lexical environment of the typing relation describes the visitor state (and, when the
context is well formed in the sense of `CtxOk`, binds no type with a mangled template parameter) -/
structure Rel (Γ : Ctx) (s : St) (Δ : Env) : Prop where
  vars : ∀ x, Δ.get? x = (view s.locals x).map (·.1)
  fd : s.funcDecl ≠ 0 → Δ.fd = true
  clean : CtxOk Γ → CleanEnv Γ Δ

theorem SameF.refl (s : St) : SameF s s := ⟨rfl, rfl, rfl, rfl, id⟩
theorem SameF.trans {a b c : St} (h1 : SameF a b) (h2 : SameF b c) : SameF a c :=
  ⟨h2.1.trans h1.1, h2.2.trans h1.2, h2.3.trans h1.3, h2.4.trans h1.4, fun h => h2.5 (h1.5 h)⟩

theorem Same.refl (s : St) : Same s s := ⟨fun _ => rfl, SameF.refl s⟩
theorem Same.trans {a b c : St} (h1 : Same a b) (h2 : Same b c) : Same a c :=
  ⟨fun x => (h2.1 x).trans (h1.1 x), h1.2.trans h2.2⟩
theorem Same.of_locals {s s' : St} (h : s'.locals = s.locals) (hf : SameF s s') : Same s s' :=
  ⟨fun x => by rw [h], hf⟩

theorem Same.ext {s s' : St} (h : Same s s') : Ext s s' := ⟨fun x => Or.inl (h.1 x), h.2⟩
theorem Ext.refl (s : St) : Ext s s := (Same.refl s).ext
theorem Ext.trans {a b c : St} (h1 : Ext a b) (h2 : Ext b c) : Ext a c := by
  refine ⟨fun x => ?_, h1.2.trans h2.2⟩
  rcases h2.1 x with e2 | ⟨n2, t, e2⟩
  · rcases h1.1 x with e1 | ⟨n1, t, e1⟩
    · exact Or.inl (e2.trans e1)
    · exact Or.inr ⟨n1, t, e2.trans e1⟩
  · rcases h1.1 x with e1 | ⟨n1, t', e1⟩
    · exact Or.inr ⟨by rw [← e1]; exact n2, t, e2⟩
    · rw [e1] at n2; cases n2

theorem GoodSt.of_same {s s' : St} (hg : GoodSt s) (h : Same s s') : GoodSt s' :=
  ⟨h.2.localDecl.trans hg.1, h.2.argDecl.trans hg.2.1, fun x t l hv => hg.2.2.1 x t l (by rw [← h.1 x]; exact hv),
    h.2.uniq hg.2.2.2⟩
theorem Rel.of_same {Γ : Ctx} {s s' : St} {Δ : Env} (hr : Rel Γ s Δ) (h : Same s s') : Rel Γ s' Δ :=
  ⟨fun x => by rw [h.1 x]; exact hr.vars x, fun hne => hr.fd (by rw [← h.2.funcDecl]; exact hne), hr.clean⟩

/-! ## the environment of the typing relation -/

theorem Env.has_eq (Δ : Env) (x : String) : Δ.has x = (Δ.get? x).isSome := by
  unfold Env.has Env.get?
  induction Δ.vars with
  | nil => rfl
  | cons p ps ih =>
    simp only [List.any_cons, List.find?_cons]
    by_cases hp : (p.1 == x) = true
    · simp [hp]
    · simp only [hp, Bool.false_or]
      rw [ih]

theorem Env.get?_add (Δ : Env) (x : String) (t : Ty) (h : Δ.has x = false) (y : String) :
    (Δ.add x t).get? y = if y = x then some t else Δ.get? y := by
  have hn : Δ.get? x = none := by
    have := Env.has_eq Δ x; rw [h] at this
    cases hg : Δ.get? x with
    | none => rfl
    | some v => rw [hg] at this; cases this
  unfold Env.get? at hn ⊢
  unfold Env.add
  simp only [List.find?_append]
  by_cases hy : y = x
  · subst hy
    simp only [if_true]
    cases hf : List.find? (fun p => p.1 == y) Δ.vars with
    | none => simp
    | some v => rw [hf] at hn; cases hn
  · have : (x == y) = false := by simp; exact fun e => hy e.symm
    simp only [hy, if_false]
    cases hf : List.find? (fun p => p.1 == y) Δ.vars with
    | none => simp [this]
    | some v => simp

theorem cleanEnv_add {Γ : Ctx} {Δ : Env} {x : String} {t : Ty} (h : CleanEnv Γ Δ) (ht : CleanTy Γ t)
    (hx : Δ.has x = false) : CleanEnv Γ (Δ.add x t) := by
  intro y u hy
  rw [Env.get?_add _ _ _ hx] at hy
  by_cases e : y = x
  · simp [e] at hy; subst hy; exact ht
  · simp [e] at hy; exact h y u hy

/-! ## the scope functions on successful runs -/

theorem modifySt_ok {f : St → St} {s s' : St} (h : modifySt f s = (.ok (), s')) : s' = f s := by
  simp [modifySt] at h; exact h.symm

theorem startScope_ok {s s' : St} (h : startScope s = (.ok (), s')) :
    (∀ x, view s'.locals x = (view s.locals x).map (fun p => (p.1, p.2 + 1))) ∧ SameF s s' ∧ s'.cur = s.cur := by
  have := modifySt_ok h; subst this
  exact ⟨fun x => view_startScope s.locals x,
    ⟨rfl, rfl, rfl, rfl, fun h => by
      unfold Uniq at h ⊢
      show (names (s.locals.map fun v => { v with level := v.level + 1 })).Nodup
      rw [names_map (fun v : LocalData => { v with level := v.level + 1 }) (fun _ => rfl)]; exact h⟩, rfl⟩

theorem endScope_ok {pos : Int} {s s' : St} (h : endScope pos s = (.ok (), s')) :
    (∀ x, view s'.locals x = (view s.locals x).bind (fun p => if p.2 - 1 < 0 then none else some (p.1, p.2 - 1))) ∧
    SameF s s' ∧ s'.cur = s.cur := by
  have := modifySt_ok h; subst this
  exact ⟨fun x => view_endScope _ pos s.locals x,
    ⟨rfl, rfl, rfl, rfl, fun h => by
      unfold Uniq at h ⊢
      show (names (endScopeGo _ pos s.locals).1).Nodup
      rw [endScopeGo_fst, names_map endF (fun v => by unfold endF; split <;> rfl)]; exact h⟩, rfl⟩

theorem addLocal_ok {x : String} {t : Ty} {pos : Int} {s s' : St} (h : addLocal x t pos s = (.ok (), s')) :
    view s.locals x = none ∧ (∀ y, view s'.locals y = if y = x then some (t, 0) else view s.locals y) ∧
    SameF s s' ∧ s'.cur = s.cur := by
  unfold addLocal at h
  cases hf : findLocal x s.locals with
  | none =>
    simp only [hf, Prod.mk.injEq, true_and] at h
    subst h
    refine ⟨by simp [view, hf], fun y => ?_, ⟨rfl, rfl, rfl, rfl, fun h => uniq_append rfl hf h⟩, rfl⟩
    simp only []
    rw [view_append (w := { name := x, type := t, level := 0, useCount := 0, enabled := true }) rfl hf y]
    simp
  | some p =>
    obtain ⟨i, v⟩ := p
    simp only [hf] at h
    by_cases he : v.enabled = true
    · simp [he] at h
    · simp only [he, Bool.false_eq_true, if_false, Prod.mk.injEq, true_and] at h
      subst h
      refine ⟨by simp [view, hf, he], fun y => ?_, ⟨rfl, rfl, rfl, rfl, fun h => by
        unfold Uniq at h ⊢
        have hn := names_set (w := { v with type := t, enabled := true, level := 0 }) hf rfl
        show (names (s.locals.set i _)).Nodup
        rw [hn]; exact h⟩, rfl⟩
      simp only []
      rw [view_set (w := { v with type := t, enabled := true, level := 0 })
        (show ({ v with type := t, enabled := true, level := 0 } : LocalData).name = x from
          (findLocal_name hf : v.name = x)) hf y]
      simp

theorem getLocal_ok {x : String} {t : Ty} {pos : Int} {s s' : St} (h : getLocal x pos s = (.ok t, s')) :
    (∃ l, view s.locals x = some (t, l)) ∧ Same s s' ∧ s'.cur = s.cur := by
  unfold getLocal at h
  cases hf : findLocal x s.locals with
  | none =>
    simp only [hf] at h
    split at h <;> simp at h
  | some p =>
    obtain ⟨i, v⟩ := p
    simp only [hf] at h
    by_cases he : v.enabled = true
    · simp only [he, Bool.not_true, Bool.false_eq_true, if_false, Prod.mk.injEq, Res.ok.injEq] at h
      obtain ⟨rfl, rfl⟩ := h
      refine ⟨⟨v.level, by simp [view, hf, he]⟩, ⟨fun y => ?_, ⟨rfl, rfl, rfl, rfl, fun h => by
        unfold Uniq at h ⊢
        have hn := names_set (w := { v with useCount := v.useCount + 1 }) hf rfl
        simp only [he] at hn
        show (names (s.locals.set i _)).Nodup
        rw [hn]; exact h⟩⟩, rfl⟩
      have hv := view_set (w := { v with useCount := v.useCount + 1 })
        (show ({ v with useCount := v.useCount + 1 } : LocalData).name = x from
          (findLocal_name hf : v.name = x)) hf y
      simp only [he] at hv
      simp only []
      rw [hv]
      by_cases hy : y = x
      · subst hy; simp [view, hf, he]
      · simp [hy]
    · simp [he] at h

end CCVerif.Checker
