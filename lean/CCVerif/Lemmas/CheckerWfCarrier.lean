import CCVerif.Lemmas.CheckerRenameNames
import CCVerif.Lemmas.ExtractGenFrag
/-!
The type-checker instance on the carrier of GRAMMAR-SHAPED definitions.

The machine only ever stores what the parser returned. On such trees the side conditions of the C08
equivariance (`GoodC`, `TreeOK`) do not depend on the renaming any more:

* `nodeShape` / `shapeOK` — the token-level facts the checker's equivariance needs, INDEPENDENT of the renaming:
  the text of a radical token is one block and a radical; the name of a called function is a global token whose
  text is a name; a one-child declaration node declares a global token whose text is one block; the variable of
  an argument declaration is not a global token. (All true of lexed + parsed trees; decidable.)
* `defShaped d` — the carrier: the body is a phrase of the grammar (`Wf.wf .ND`, the predicate of C06
  `parse_gives_WfParsed` below the declaration) and `shapeOK`.
* `namesOK_of_shape` — on a shaped tree every bijection that fixes the radicals satisfies `namesOK`;
* `NameBij.ofMap_fix` — the bijection of a simultaneous map fixes what is neither a key nor a value;
* `goodC_of_shaped` — `GoodC (CRen.ofNameBij n) c` for a shaped constituent whose alias is one block;
* `constRen` — `CRenFor (fun _ => traits)` from a `NameBij` that fixes the trait keys;
* `checker_admits` — **admissibility**: a simultaneous map that is injective on the names of a list of shaped
  constituents, maps good names to good names and stays away from the trait keys IS (on those names) an
  admissible renaming of `checkerEquivariance (fun _ => traits)` that is good for every constituent of the list;
* `checker_skelLocal` — with constant traits the checker does not read the skeleton.
-/
namespace CCVerif.Checker
open CCVerif CCVerif.Syntax CCVerif.Types CCVerif.Blocks

/-! ## the renaming-independent token conditions -/

/-- the token-level facts at one node, independent of any renaming -/
def nodeShape (a : Ast) : Bool :=
  (!decide (a.id = .ID_RADICAL) || textIs a.data fun s => isBlock s.toList && isRadical s) &&
  (!decide (a.id = .NT_FUNC_CALL) || kid0Ok a fun k0 => textIs k0.data fun fn => isName fn && isGlob k0.id) &&
  (!(isDeclTok a.id && a.kids.length == 1) || kid0Ok a fun k0 => textIs k0.data fun n =>
    isBlock n.toList && isGlob k0.id) &&
  (!decide (a.id = .NT_ARG_DECL) || kid0Ok a fun k0 => !isGlob k0.id)

mutual
def shapeOK : Ast → Bool
  | .node id d lo hi ks => nodeShape (.node id d lo hi ks) && shapeOKL ks
def shapeOKL : List Ast → Bool
  | [] => true
  | k :: ks => shapeOK k && shapeOKL ks
end

theorem textIs_mono {d : TokData} {p q : String → Bool} (h : ∀ s, p s = true → q s = true)
    (hp : textIs d p = true) : textIs d q = true := by
  cases d with
  | text s => exact h s hp
  | none => rfl
  | int _ => rfl
  | tuple _ => rfl

theorem kid0Ok_mono {a : Ast} {p q : Ast → Bool} (h : ∀ k, p k = true → q k = true)
    (hp : kid0Ok a p = true) : kid0Ok a q = true := by
  unfold kid0Ok at hp ⊢
  cases hk : a.kid 0 with
  | none => rfl
  | some k0 => rw [hk] at hp; exact h k0 hp

theorem or_mono {a b c : Bool} (h : b = true → c = true) (hab : (a || b) = true) : (a || c) = true := by
  cases a with
  | true => rfl
  | false => exact h hab

/-- on a shaped node every map that fixes the radicals satisfies the C08 side condition -/
theorem nodeNames_of_shape {g : String → String} (hg : ∀ s, isRadical s = true → g s = s) {a : Ast}
    (h : nodeShape a = true) : nodeNames g a = true := by
  unfold nodeShape at h
  unfold nodeNames
  simp only [Bool.and_eq_true] at h ⊢
  obtain ⟨⟨⟨h1, h2⟩, h3⟩, h4⟩ := h
  refine ⟨⟨⟨?_, ?_⟩, ?_⟩, ?_⟩
  · refine or_mono (textIs_mono fun s hs => ?_) h1
    simp only [Bool.and_eq_true] at hs ⊢
    refine ⟨hs.1, ?_⟩
    unfold fixedBy
    rw [hg s hs.2]
    exact beq_self_eq_true _
  · refine or_mono (kid0Ok_mono fun k0 hk => textIs_mono (fun s hs => ?_) hk) h2
    simp only [Bool.and_eq_true, Bool.or_eq_true] at hs ⊢
    exact ⟨hs.1, Or.inl hs.2⟩
  · refine or_mono (kid0Ok_mono fun k0 hk => textIs_mono (fun s hs => ?_) hk) h3
    simp only [Bool.and_eq_true, Bool.or_eq_true] at hs ⊢
    exact ⟨hs.1, Or.inl hs.2⟩
  · refine or_mono (kid0Ok_mono fun k0 hk => ?_) h4
    simp only [Bool.or_eq_true]
    exact Or.inl hk

mutual
theorem namesOK_of_shape {g : String → String} (hg : ∀ s, isRadical s = true → g s = s) :
    ∀ a : Ast, shapeOK a = true → namesOK g a = true
  | .node id d lo hi ks, h => by
    simp only [shapeOK, Bool.and_eq_true] at h
    simp only [namesOK, Bool.and_eq_true]
    exact ⟨nodeNames_of_shape hg h.1, namesOKL_of_shape hg ks h.2⟩
theorem namesOKL_of_shape {g : String → String} (hg : ∀ s, isRadical s = true → g s = s) :
    ∀ ks : List Ast, shapeOKL ks = true → namesOKL g ks = true
  | [], _ => rfl
  | k :: ks, h => by
    simp only [shapeOKL, Bool.and_eq_true] at h
    simp only [namesOKL, Bool.and_eq_true]
    exact ⟨namesOK_of_shape hg k h.1, namesOKL_of_shape hg ks h.2⟩
end

theorem renData_ident (id : Tok) (d : TokData) : renData (fun n => n) id d = d := by
  cases d with
  | text s => rw [renData_text]; split <;> rfl
  | none => exact renData_not_text _ _ (by intro s h; cases h)
  | int _ => exact renData_not_text _ _ (by intro s h; cases h)
  | tuple _ => exact renData_not_text _ _ (by intro s h; cases h)

mutual
theorem renAst_ident : ∀ a : Ast, renAst (fun n => n) a = a
  | .node id d lo hi ks => by
    simp only [renAst]
    rw [renData_ident, renAstL_ident ks]
theorem renAstL_ident : ∀ ks : List Ast, renAstL (fun n => n) ks = ks
  | [] => rfl
  | k :: ks => by simp only [renAstL]; rw [renAst_ident k, renAstL_ident ks]
end

/-! ## the bijection of a simultaneous map fixes what is neither key nor value -/

theorem NameBij.ofMap_fix (names : List String) (m : String → String)
    (hgood : ∀ n ∈ names, GoodName n ∧ GoodName (m n))
    (hinj : ∀ a ∈ names, ∀ b ∈ names, m a = m b → a = b) (x : String) (hx : x ∉ names)
    (hx' : x ∉ names.map m) : (NameBij.ofMap names m).b.f x = x := by
  have hk : (((uniq names).map fun n => (n, m n)).map (·.1)).Nodup := by
    rw [List.map_map]
    have : ((fun p : String × String => p.1) ∘ fun n => (n, m n)) = fun n => n := rfl
    rw [this, List.map_id']
    exact nodup_uniq names
  have hv : (((uniq names).map fun n => (n, m n)).map (·.2)).Nodup := by
    rw [List.map_map]
    exact nodup_map_of_inj (nodup_uniq names)
      (fun a ha b hb => hinj a (mem_uniq.1 ha) b (mem_uniq.1 hb))
  have hg : ∀ p ∈ (uniq names).map (fun n => (n, m n)), GoodName p.1 ∧ GoodName p.2 := by
    intro p hp
    obtain ⟨y, hy, rfl⟩ := List.mem_map.1 hp
    exact hgood y (mem_uniq.1 hy)
  refine (NameBij.extend_spec _ NameBij.id hk hv hg).2 x ?_ ?_
  · intro h
    rw [List.map_map] at h
    obtain ⟨y, hy, e⟩ := List.mem_map.1 h
    exact hx (e ▸ mem_uniq.1 hy)
  · intro h
    rw [List.map_map] at h
    obtain ⟨y, hy, e⟩ := List.mem_map.1 h
    exact hx' (List.mem_map.2 ⟨y, mem_uniq.1 hy, e⟩)

/-- such a bijection fixes every radical -/
theorem NameBij.ofMap_radical (names : List String) (m : String → String)
    (hgood : ∀ n ∈ names, GoodName n ∧ GoodName (m n))
    (hinj : ∀ a ∈ names, ∀ b ∈ names, m a = m b → a = b) (s : String) (hs : isRadical s = true) :
    (NameBij.ofMap names m).b.f s = s := by
  apply NameBij.ofMap_fix names m hgood hinj
  · intro h
    have := (hgood s h).1.rad
    rw [hs] at this
    cases this
  · intro h
    obtain ⟨y, hy, e⟩ := List.mem_map.1 h
    have := (hgood y hy).2.rad
    rw [e, hs] at this
    cases this

end CCVerif.Checker

namespace CCVerif.SchemaGen
open CCVerif CCVerif.Syntax CCVerif.Types CCVerif.Checker CCVerif.Blocks
open CCVerif.Schema (Kind Status)

/-! ## the carrier -/

/-- a GRAMMAR-SHAPED definition: empty, or a phrase of the grammar (`no_declaration`: an expression or a
function definition) whose tokens carry the texts the lexer gives them, as far as the checker looks -/
def defShaped : CDef → Bool
  | none => true
  | some body => Wf.wf .ND body && shapeOK body

/-- on the carrier the mentions are ALL global names of the body -/
theorem mentions_shaped {body : Ast} (h : defShaped (some body) = true) (n : String) :
    n ∈ mentionsOf (some body) ↔ n ∈ globalsOf body := by
  simp only [defShaped, Bool.and_eq_true] at h
  exact mem_mentionsOf_iff_globalsOf h.1 n

/-- **`rename_id` on the carrier**: a renaming that does not touch the mentioned names leaves a
grammar-shaped definition alone (false on `Option Ast`: `equivariant_checker_counterexample`, C11) -/
theorem renameC_id_shaped (f : String → Option String) {d : CDef} (hs : defShaped d = true)
    (h : ∀ m ∈ mentionsOf d, (f m).getD m = m) : renameC f d = d := by
  cases d with
  | none => rfl
  | some body =>
    show some (renAst _ body) = some body
    have e : renAst (fun n => (f n).getD n) body = renAst (fun n => n) body :=
      renAst_congr body (fun n hn => h n ((mentions_shaped hs n).2 hn))
    rw [e, renAst_ident]

/-- the side condition of the C08 equivariance holds for every `NameBij` that fixes the radicals -/
theorem goodC_of_shaped (n : NameBij) (hrad : ∀ s, isRadical s = true → n.b.f s = s) {c : Cst CDef}
    (ha : isBlock c.alias.toList = true) (hs : defShaped c.defn = true) : GoodC (CRen.ofNameBij n) c := by
  refine ⟨?_, ?_, ?_⟩
  · show mapBlocks n.b.f c.alias = n.b.f c.alias
    exact mapBlocks_single _ ha
  · intro body hb
    rw [hb] at hs
    simp only [defShaped, Bool.and_eq_true] at hs
    exact treeOK_names n body (namesOK_of_shape hrad body hs.2)
  · intro body hb nm hn
    rw [hb] at hs
    exact (mentions_shaped hs nm).2 hn

/-! ## constant traits -/

/-- the renaming for the checker instance over CONSTANT traits whose keys the bijection fixes block-wise -/
def constRen (traits : TraitEnv) (n : NameBij) (h : ∀ p ∈ traits, mapBlocks n.b.f p.1 = p.1) :
    CRenFor (fun _ => traits) where
  r := CRen.ofNameBij n
  traits := by
    intro _
    show traits = renTE (CRen.ofNameBij n).τ traits
    unfold renTE
    conv => lhs; rw [← List.map_id traits]
    apply List.map_congr_left
    intro p hp
    show p = (mapBlocks n.b.f p.1, p.2)
    rw [h p hp]

/-- with constant traits the checker does not read the skeleton -/
theorem checker_skelLocal (traits : TraitEnv) (s s' : List (Cst CDef)) :
    ExtractGen.SkelLocalOn (checkerR fun _ => traits) s s' := fun _ _ _ _ => rfl

/-- **admissibility.** `cs` grammar-shaped constituents; `m` a simultaneous map that is injective on their names
(aliases and mentions), maps them — good names — to good names, and neither moves nor hits a trait key (keys
are single blocks). Then `m` is, on those names, an admissible renaming of the checker's equivariance, good for
every constituent of the list. -/
theorem checker_admits (traits : TraitEnv) (cs : List (Cst CDef)) (m : String → String)
    (hshape : ∀ c ∈ cs, defShaped c.defn = true)
    (hgood : ∀ n ∈ namesOfG (checkerR fun _ => traits) cs, GoodName n ∧ GoodName (m n))
    (htr : ∀ p ∈ traits, isBlock p.1.toList = true ∧ p.1 ∉ namesOfG (checkerR fun _ => traits) cs ∧
      p.1 ∉ (namesOfG (checkerR fun _ => traits) cs).map m)
    (hinj : ∀ a ∈ namesOfG (checkerR fun _ => traits) cs, ∀ b ∈ namesOfG (checkerR fun _ => traits) cs,
      m a = m b → a = b) :
    ∃ (n : NameBij) (h : ∀ p ∈ traits, mapBlocks n.b.f p.1 = p.1),
      (∀ c ∈ cs, GoodC (constRen traits n h).r c) ∧
      ∀ x ∈ namesOfG (checkerR fun _ => traits) cs, n.b.f x = m x := by
  let names := namesOfG (checkerR fun _ => traits) cs
  let n := NameBij.ofMap names m
  have hrad := NameBij.ofMap_radical names m hgood hinj
  have hT : ∀ p ∈ traits, mapBlocks n.b.f p.1 = p.1 := by
    intro p hp
    obtain ⟨h1, h2, h3⟩ := htr p hp
    rw [mapBlocks_single _ h1]
    exact NameBij.ofMap_fix names m hgood hinj p.1 h2 h3
  refine ⟨n, hT, ?_, NameBij.ofMap_spec names m hgood hinj⟩
  intro c hc
  refine goodC_of_shaped n hrad ?_ (hshape c hc)
  exact isNameL_block (hgood c.alias (alias_mem_namesOfG hc)).1.name

end CCVerif.SchemaGen
