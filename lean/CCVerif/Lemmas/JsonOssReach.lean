import CCVerif.Lemmas.JsonOssGraph
import CCVerif.Properties.C19
/-!
The OSS document of a schema whose key tables satisfy the structural invariant of C19 (`StructInv`), loaded
with its `items` and `connections` arrays rearranged: the loaded content has the same pictograms, the same
parents per pictogram (operand order), its graph facet is the C19 machine's `LoadParent` run
(`Graph.loadParents`) and its key tables (`toStruct`) satisfy `StructInv`.
-/
namespace CCVerif.JsonOss
open CCVerif.Json
open CCVerif.Oss (Pid Graph Struct StructInv KeysInv ParentsInv Grid)

/-- `c` is what the writer (`to_json(JSON&, const OSSchema&)`) reads from a schema whose five key tables
are `s`: the stored pictograms in SOME order (`storage` is a hash container), for each its grid cell,
whether `Src()(uid)` / `Ops()(uid)` are non-null, and the graph facet in index order with `Index2PIDs`
of every row. Titles, links, handle values, stored equations and translations are not constrained. -/
structure Represents (s : Struct) (c : Oss) : Prop where
  items : (c.items.map (·.uid)).Perm s.storage
  cell : ∀ p ∈ c.items, s.grid.posOf p.uid = some p.pos
  src : ∀ p ∈ c.items, p.src.isSome = s.srcKeys.contains p.uid
  op : ∀ p ∈ c.items, p.op.isSome = s.isOperable p.uid
  rows : c.rows = rowsOf s.graph

theorem nodup_reverse' {α} {l : List α} : l.reverse.Nodup ↔ l.Nodup := (List.reverse_perm l).nodup_iff

theorem Represents.rowOf {s : Struct} {c : Oss} (h : StructInv s) (r : Represents s c) (q : Pid) :
    rowOf c.rows q = s.graph.parentsOf q := by
  rw [r.rows]; exact rowOf_rowsOf h.keys.graphWf q

theorem parents_nodup {s : Struct} (h : StructInv s) (q : Pid) : (s.graph.parentsOf q).Nodup := by
  by_cases hq : q ∈ s.opKeys
  · obtain ⟨a, b, h1, h2, _, _⟩ := h.parents.opParents q hq
    rw [h1]; simp [h2]
  · rw [h.parents.baseNoParents q hq]; exact List.nodup_nil

theorem load_rearranged {s : Struct} {c : Oss} (h : StructInv s) (r : Represents s c)
    (hop : ∀ p ∈ c.items, ∀ x, p.op = some x → OpWf x)
    (env : Env) (items' : List Pict) (hperm : items'.Perm c.items) (layout : Json) (es : List (Pid × Pid))
    (hfib : ∀ q, (es.filter (·.1 == q)).map (·.2) = rowOf c.rows q) :
    ∃ c', ossFromJson env (ossDoc c.title c.comment c.domain items' layout es) = .ok c' ∧
      c'.title = c.title ∧ c'.comment = c.comment ∧ c'.domain = c.domain ∧ c'.items = items' ∧
      (∀ q, rowOf c'.rows q = rowOf c.rows q) ∧ (edgeList c'.rows).Perm (edgeList c.rows) ∧
      toGraph c'.rows = ({} : Graph).loadParents es ∧ StructInv (toStruct c') := by
  have w := h.keys.graphWf
  have hrow : ∀ q, rowOf c.rows q = s.graph.parentsOf q := r.rowOf h
  have hrinv : RInv c.rows := by rw [r.rows]; exact rinv_rowsOf w
  obtain ⟨rank, hr⟩ := h.parents.acyclic
  have parNodup := parents_nodup h
  -- the pictograms
  have hpermU : (items'.map (·.uid)).Perm s.storage := (hperm.map _).trans r.items
  have hu : (items'.map (·.uid)).Nodup := hpermU.nodup_iff.2 h.keys.storageNodup
  have hmemI : ∀ p, p ∈ items' ↔ p ∈ c.items := fun p => hperm.mem_iff
  have hstor : ∀ u, u ∈ items'.map (·.uid) ↔ u ∈ s.storage := fun u => hpermU.mem_iff
  have hgridmem : ∀ p ∈ items', (p.pos, p.uid) ∈ s.grid := by
    intro p hp
    have hcell := r.cell p ((hmemI p).1 hp)
    unfold Grid.posOf at hcell
    cases hf : s.grid.find? (·.2 == p.uid) with
    | none => rw [hf] at hcell; cases hcell
    | some x =>
      rw [hf] at hcell
      have hx := List.mem_of_find?_eq_some hf
      have hx2 : x.2 = p.uid := by simpa using List.find?_some hf
      have hx1 : x.1 = p.pos := by simpa using hcell
      have : x = (p.pos, p.uid) := Prod.ext hx1 hx2
      exact this ▸ hx
  have hc : (items'.map (·.pos)).Nodup := by
    have hu' := hu
    rw [List.nodup_iff_pairwise_ne, List.pairwise_map] at hu' ⊢
    refine hu'.imp_of_mem ?_
    intro a b ha hb hne hpos
    apply hne
    have := CCVerif.Oss.injOn_of_nodup_map' h.keys.gridWf.keys _ (hgridmem a ha) _ (hgridmem b hb) hpos
    exact congrArg Prod.snd this
  have hpw : ∀ p ∈ items', PictWf p := by
    intro p hp
    have hpc := (hmemI p).1 hp
    refine ⟨?_, hop p hpc⟩
    rw [r.src p hpc]
    have : p.uid ∈ s.storage := (hstor p.uid).1 (List.mem_map.2 ⟨p, hp, rfl⟩)
    simpa using (h.keys.srcEq p.uid).2 this
  have hload := ossFromJson_doc env c.title c.comment c.domain items' layout es hu hc hpw
  obtain ⟨hproj, hrl⟩ := toGraph_loadEdges_nil es
  -- the connections
  have hmemE : ∀ a b, (a, b) ∈ es ↔ b ∈ s.graph.parentsOf a := by
    intro a b; rw [← mem_fibre, hfib a, hrow a]
  have hnd : ([] ++ es).Nodup := by
    rw [List.nil_append]
    apply CCVerif.Oss.nodup_of_fibres
    intro q; rw [hfib q, hrow q]; exact parNodup q
  have hne : ∀ e ∈ [] ++ es, e.1 ≠ e.2 := by
    intro e he heq
    rw [List.nil_append] at he
    have := hr _ _ ((hmemE e.1 e.2).1 he)
    rw [heq] at this; exact Nat.lt_irrefl _ this
  have hrev : ∀ e ∈ [] ++ es, (e.2, e.1) ∉ [] ++ es := by
    intro e he he2
    rw [List.nil_append] at he he2
    have h1 := hr _ _ ((hmemE e.1 e.2).1 he)
    have h2 := hr _ _ ((hmemE e.2 e.1).1 he2)
    omega
  obtain ⟨wg, hpar, hitm⟩ := Graph.loadParents_spec es [] {} ⟨List.nodup_nil, rfl, by intro l hl; cases hl⟩
    (by intro q; simp [Graph.parentsOf, Graph.findItemIndex]) hnd hne hrev
  simp only [List.nil_append] at hpar
  have hparEq : ∀ q, (({} : Graph).loadParents es).parentsOf q = s.graph.parentsOf q := by
    intro q; rw [hpar q, hfib q, hrow q]
  have hrowL : ∀ q, rowOf (loadEdges [] es) q = rowOf c.rows q := by
    intro q; rw [← parentsOf_toGraph hrl q, hproj, hparEq q, hrow q]
  have hpermE : (edgeList (loadEdges [] es)).Perm (edgeList c.rows) := by
    rw [List.perm_ext_iff_of_nodup (edgeList_nodup hrl.1 (fun q => by rw [hrowL q, hrow q]; exact parNodup q))
        (edgeList_nodup hrinv.1 (fun q => by rw [hrow q]; exact parNodup q))]
    rintro ⟨a, b⟩
    rw [mem_edgeList hrl.1, mem_edgeList hrinv.1, hrowL a]
  refine ⟨_, hload, rfl, rfl, rfl, rfl, hrowL, hpermE, hproj, ?_⟩
  have hsrcall : items'.filter (·.src.isSome) = items' := List.filter_eq_self.2 (fun p hp => (hpw p hp).1)
  have hopmem : ∀ u, u ∈ (items'.filter (·.op.isSome)).map (·.uid) ↔ u ∈ s.opKeys := by
    intro u
    simp only [List.mem_map, List.mem_filter]
    constructor
    · rintro ⟨p, ⟨hp, ho⟩, rfl⟩
      rw [r.op p ((hmemI p).1 hp)] at ho
      simpa [Struct.isOperable] using ho
    · intro hu
      have : u ∈ items'.map (·.uid) := (hstor u).2 (h.keys.opSub u hu)
      obtain ⟨p, hp, rfl⟩ := List.mem_map.1 this
      refine ⟨p, ⟨hp, ?_⟩, rfl⟩
      rw [r.op p ((hmemI p).1 hp)]; simpa [Struct.isOperable] using hu
  constructor
  · refine { storageNodup := ?_, idsEq := ?_, graphWf := ?_, itemsSub := ?_, gridWf := ?_, gridVals := ?_,
             srcNodup := ?_, srcEq := ?_, opNodup := ?_, opSub := ?_ }
    · show ((items'.map (·.uid)).reverse).Nodup
      exact nodup_reverse'.2 hu
    · intro p; exact Iff.rfl
    · show (toGraph (loadEdges [] es)).Wf
      rw [hproj]; exact wg
    · intro q hq
      show q ∈ (items'.map (·.uid)).reverse
      rw [List.mem_reverse, hstor]
      have hq' : q ∈ (({} : Graph).loadParents es).items := by rw [← hproj]; exact hq
      rcases (hitm q).1 hq' with h1 | ⟨e, he, h1⟩
      · cases h1
      · have hpe : e.2 ∈ s.graph.parentsOf e.1 := (hmemE e.1 e.2).1 he
        obtain ⟨i, k, hi, hk, _⟩ := (Graph.mem_parentsOf w).1 hpe
        rcases h1 with rfl | rfl
        · exact h.keys.itemsSub _ (List.mem_of_getElem? hi)
        · exact h.keys.itemsSub _ (List.mem_of_getElem? hk)
    · constructor
      · show (((gridOf items').reverse).map (·.1)).Nodup
        rw [List.map_reverse, nodup_reverse']
        simpa [gridOf, Function.comp_def] using hc
      · show (((gridOf items').reverse).map (·.2)).Nodup
        rw [List.map_reverse, nodup_reverse']
        simpa [gridOf, Function.comp_def] using hu
    · intro p
      show p ∈ ((gridOf items').reverse).map (·.2) ↔ p ∈ (items'.map (·.uid)).reverse
      simp [gridOf]
    · show (((items'.filter (·.src.isSome)).map (·.uid)).reverse).Nodup
      rw [hsrcall]; exact nodup_reverse'.2 hu
    · intro p
      show p ∈ ((items'.filter (·.src.isSome)).map (·.uid)).reverse ↔ p ∈ (items'.map (·.uid)).reverse
      rw [hsrcall]
    · show (((items'.filter (·.op.isSome)).map (·.uid)).reverse).Nodup
      rw [nodup_reverse']
      exact List.Nodup.sublist (List.filter_sublist.map _) hu
    · intro p hp
      show p ∈ (items'.map (·.uid)).reverse
      rw [List.mem_reverse, hstor]
      exact h.keys.opSub p ((hopmem p).1 (List.mem_reverse.1 hp))
  · refine ⟨?_, ?_, ⟨rank, ?_⟩⟩
    · intro p hp
      have hp' : p ∈ s.opKeys := (hopmem p).1 (List.mem_reverse.1 hp)
      obtain ⟨a, b, h1, h2, h3, h4⟩ := h.parents.opParents p hp'
      refine ⟨a, b, ?_, h2, ?_, ?_⟩
      · show (toGraph (loadEdges [] es)).parentsOf p = [a, b]
        rw [hproj, hparEq p]; exact h1
      · show a ∈ (items'.map (·.uid)).reverse
        rw [List.mem_reverse, hstor]; exact h3
      · show b ∈ (items'.map (·.uid)).reverse
        rw [List.mem_reverse, hstor]; exact h4
    · intro p hp
      show (toGraph (loadEdges [] es)).parentsOf p = []
      rw [hproj, hparEq p]
      apply h.parents.baseNoParents
      intro hh; exact hp (List.mem_reverse.2 ((hopmem p).2 hh))
    · intro c0 p hcp
      have : p ∈ (toGraph (loadEdges [] es)).parentsOf c0 := hcp
      rw [hproj, hparEq c0] at this
      exact hr c0 p this

end CCVerif.JsonOss
