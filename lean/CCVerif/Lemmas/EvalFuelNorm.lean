import CCVerif.Lemmas.EvalFuelTop
import CCVerif.Lemmas.EvalTop
/-!
Fuel of the evaluator model, part 5: the normaliser on the trees of `Shape` (stages 1-4: operators, identifiers, binders
over one plain variable, `R{}`, `I{}`): it answers the tree itself from the fuel `evDepth a` on.
-/
namespace CCVerif.Eval
open CCVerif.Syntax CCVerif.Spec CCVerif.Norm

theorem nfold_some (fs : Funcs) (fuel : Nat) : ∀ (ks done : List Ast) (b : NState),
    (∀ k ∈ ks, ∀ b, normalize fs fuel k b = some (k, b)) →
    ks.foldl (nstep fs fuel) (some (done, b)) = some (done ++ ks, b)
  | [], done, b, _ => by simp
  | k :: ks, done, b, h => by
    simp only [List.foldl_cons]
    simp only [nstep, h k (by simp) b]
    have := nfold_some fs fuel ks (done ++ [k]) b (fun k' hk' => h k' (by simp [hk']))
    simpa using this

theorem evDepth_node (t : Tok) (d : TokData) (lo hi : Int) (ks : List Ast) :
    evDepth (.node t d lo hi ks) = evDepthKids ks + 1 := by simp [evDepth]

theorem normalize_shape_some (fs : Funcs) {env : Env} {a : Ast} (h : Shape env a) : ∀ fuel b, evDepth a ≤ fuel →
    normalize fs fuel a b = some (a, b) := by
  induction h with
  | @plain t d lo hi ks ht _ ih =>
    intro fuel b hf
    rw [evDepth_node] at hf
    cases fuel with
    | zero => omega
    | succ f =>
      rw [normalize_plain (Or.inl ht)]
      rw [nfold_some fs f ks [] b (fun k hk b => ih k hk f b (by have := evDepth_mem hk; omega))]
      simp
  | glob s lo hi =>
    intro fuel b hf
    rw [evDepth_node] at hf
    cases fuel with
    | zero => omega
    | succ f => rw [normalize_plain (Or.inr (Or.inl rfl))]; simp
  | loc s lo hi _ =>
    intro fuel b hf
    rw [evDepth_node] at hf
    cases fuel with
    | zero => omega
    | succ f => rw [normalize_plain (Or.inr (Or.inr rfl))]; simp
  | @binder t d lo hi x dlo dhi dom body ht _ _ _ ihd ihb =>
    intro fuel b hf
    rw [evDepth_node] at hf
    simp only [evDepthKids, evDepth_node] at hf
    cases fuel with
    | zero => omega
    | succ f =>
      rw [normalize_binder ht]
      have hl : ∀ b, normalize fs f (.node .ID_LOCAL (.text x) dlo dhi []) b = some (.node .ID_LOCAL (.text x) dlo dhi [], b) := by
        intro b
        cases f with
        | zero => simp at hf
        | succ g => rw [normalize_plain (Or.inr (Or.inr rfl))]; simp
      rw [nfold_some fs f [.node .ID_LOCAL (.text x) dlo dhi [], dom, body] [] b (fun k hk b => by
        simp only [List.mem_cons, List.not_mem_nil, or_false] at hk
        rcases hk with rfl | rfl | rfl
        · exact hl b
        · exact ihd f b (by omega)
        · exact ihb f b (by omega))]
      simp
  | @recur t d lo hi x dlo dhi rest ht _ _ ih =>
    intro fuel b hf
    rw [evDepth_node] at hf
    simp only [evDepthKids, evDepth_node] at hf
    cases fuel with
    | zero => omega
    | succ f =>
      rw [normalize_rec (by rcases ht with ⟨h, _⟩ | ⟨h, _⟩ <;> simp [h]) fs f d lo hi x dlo dhi rest b
        (by rcases ht with ⟨_, h⟩ | ⟨_, h⟩ <;> simp [h])]
      have hl : ∀ b, normalize fs f (.node .ID_LOCAL (.text x) dlo dhi []) b = some (.node .ID_LOCAL (.text x) dlo dhi [], b) := by
        intro b
        cases f with
        | zero => simp at hf
        | succ g => rw [normalize_plain (Or.inr (Or.inr rfl))]; simp
      rw [nfold_some fs f (.node .ID_LOCAL (.text x) dlo dhi [] :: rest) [] b (fun k hk b => by
        rcases List.mem_cons.mp hk with rfl | hk
        · exact hl b
        · exact ih k hk f b (by have := evDepth_mem hk; omega))]
      simp
  | @blk t d lo hi x dlo dhi e ht _ _ ih =>
    intro fuel b hf
    rw [evDepth_node] at hf
    simp only [evDepthKids, evDepth_node] at hf
    cases fuel with
    | zero => omega
    | succ f =>
      rw [normalize_blk ht]
      have hl : ∀ b, normalize fs f (.node .ID_LOCAL (.text x) dlo dhi []) b = some (.node .ID_LOCAL (.text x) dlo dhi [], b) := by
        intro b
        cases f with
        | zero => simp at hf
        | succ g => rw [normalize_plain (Or.inr (Or.inr rfl))]; simp
      rw [nfold_some fs f [.node .ID_LOCAL (.text x) dlo dhi [], e] [] b (fun k hk b => by
        simp only [List.mem_cons, List.not_mem_nil, or_false] at hk
        rcases hk with rfl | rfl
        · exact hl b
        · exact ih f b (by omega))]
      simp
  | imp d lo hi value blocks hne hv hbs ihv ihb =>
    intro fuel b hf
    rw [evDepth_node] at hf
    simp only [evDepthKids] at hf
    cases fuel with
    | zero => omega
    | succ f =>
      have hp : PlainBlocks (.node .NT_IMPERATIVE_EXPR d lo hi (value :: blocks)) := by
        intro k hk hid
        have hsk : Shape env k := by
          rcases List.mem_cons.mp hk with rfl | hk
          · exact hv
          · exact hbs k hk
        obtain ⟨x, dlo, dhi, e, h1⟩ := hsk.blk_inv hid
        exact ⟨_, _, h1, by simp [Ast.id]⟩
      rw [normalize_imp fs f d lo hi _ b hp]
      rw [nfold_some fs f (value :: blocks) [] b (fun k hk b => by
        rcases List.mem_cons.mp hk with rfl | hk
        · exact ihv f b (by omega)
        · exact ihb k hk f b (by have := evDepth_mem hk; omega))]
      simp

/-- on the fragments up to stage 4 the normaliser answers the expression itself from the fuel `evDepth e` on -/
theorem FragR.normalizesTree_some {env : Env} {G : TCtx} {lvl : Nat} {e : Ast} {τ : ExprTy} (h : FragR env G lvl [] [] e e τ)
    (fuel : Nat) (hf : evDepth e ≤ fuel) : normalizeTree env.funcs fuel e = some e := by
  unfold Norm.normalizeTree
  rw [normalize_shape_some env.funcs h.shape_closed fuel _ hf]
  rfl

end CCVerif.Eval
