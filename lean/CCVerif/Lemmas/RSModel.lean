import CCVerif.Model.RSModel
import CCVerif.Lemmas.Schema
/-!
Lemmas for C11 (a model never shows a calculated value that is stale).

* §1 look-ups in the value storage, `resetFor`, `resetItems`
* §2 the intended value `TV` (typed value: least solution of the typing + evaluation rules), its
  frame / transfer property
* §3 resolution of names under pairwise distinct aliases
* §4 the invariant `Inv` (every value stored for a term is its intended value), monotonicity
* §5 `calculateInternal`, `recalculateAll` preserve `Inv`
* §6 `resetDependants` after a change at one constituent
* §7 the editing steps preserve `Inv` (insert, erase, setDef, setAlias, substitute, data edits)
* §8 `recomputed` computes `TV` (fold along the topological order); `Inv → fresh`
* §9 admissible histories
-/
namespace CCVerif.RSModel
open CCVerif CCVerif.Schema CCVerif.Graph

/-! ## §1 value storage -/

theorem find_filter_ne {α : Type} (l : List (Nat × α)) {u w : Nat} (h : w ≠ u) :
    (l.filter (·.1 != u)).find? (·.1 == w) = l.find? (·.1 == w) := by
  apply find_filter_of_imp
  intro y _ hy
  have : y.1 = w := by simpa using hy
  simpa [this] using h

theorem find_filter_self {α : Type} (l : List (Nat × α)) (u : Nat) :
    (l.filter (·.1 != u)).find? (·.1 == u) = none := by
  apply List.find?_eq_none.2
  intro y hy
  have := (List.mem_filter.1 hy).2
  simpa using this

theorem dataFor_setData_self (st : St) (u : Nat) (d : Data) : (st.setData u d).dataFor u = some d := by
  simp [St.dataFor, St.setData]

theorem dataFor_setData_ne (st : St) {u w : Nat} (d : Data) (h : w ≠ u) :
    (st.setData u d).dataFor w = st.dataFor w := by
  unfold St.dataFor St.setData
  simp only
  have : ((u, d).1 == w) = false := by simpa using fun e => h e.symm
  rw [List.find?_cons, this, find_filter_ne _ h]

theorem dataFor_eraseData_self (st : St) (u : Nat) : (st.eraseData u).dataFor u = none := by
  unfold St.dataFor St.eraseData
  simp only
  rw [find_filter_self]
  rfl

theorem dataFor_eraseData_ne (st : St) {u w : Nat} (h : w ≠ u) :
    (st.eraseData u).dataFor w = st.dataFor w := by
  unfold St.dataFor St.eraseData
  simp only
  rw [find_filter_ne _ h]

theorem kindOf_congr {st st' : St} (h : st'.sch.store = st.sch.store) (u : Nat) :
    st'.kindOf u = st.kindOf u := by
  unfold St.kindOf St.at
  rw [h]

theorem resetFor_sch (st : St) (u : Nat) : (st.resetFor u).sch = st.sch := by
  unfold St.resetFor
  simp only
  split <;> rfl

theorem dataFor_resetFor_ne (st : St) {u w : Nat} (h : w ≠ u) :
    (st.resetFor u).dataFor w = st.dataFor w := by
  unfold St.resetFor
  simp only
  split
  · show (St.setData (st.eraseData u) u []).dataFor w = _
    rw [dataFor_setData_ne _ _ h, dataFor_eraseData_ne _ h]
  · exact dataFor_eraseData_ne _ h

theorem dataFor_resetFor_term (st : St) {u : Nat} (h : st.kindOf u = some .term) :
    (st.resetFor u).dataFor u = none := by
  unfold St.resetFor
  simp only
  have : (st.eraseData u).kindOf u = some .term := h
  rw [this]
  exact dataFor_eraseData_self st u

theorem resetBoth_sch (st : St) (u : Nat) : (st.resetBoth u).sch = st.sch := resetFor_sch st u

theorem dataFor_resetBoth (st : St) (u w : Nat) : (st.resetBoth u).dataFor w = (st.resetFor u).dataFor w := rfl

/-- `ResetItems`: the values of the listed terms (other than the target) are dropped, every other
value is kept, the schema is untouched -/
theorem resetItems_spec (items : List Nat) (target : Nat) : ∀ st : St,
    (st.resetItems items target).sch = st.sch ∧
    ∀ w, ((w ∈ items ∧ w ≠ target ∧ st.kindOf w = some .term) → (st.resetItems items target).dataFor w = none) ∧
      (¬ (w ∈ items ∧ w ≠ target ∧ st.kindOf w = some .term) →
        (st.resetItems items target).dataFor w = st.dataFor w) := by
  induction items with
  | nil =>
    intro st
    refine ⟨rfl, fun w => ⟨?_, fun _ => rfl⟩⟩
    rintro ⟨h, _⟩
    cases h
  | cons d ds ih =>
    intro st
    unfold St.resetItems
    rw [List.foldl_cons]
    generalize hs1 : (if (d != target && st.kindOf d == some Kind.term) = true then st.resetBoth d else st) = s1
    have hsch : s1.sch = st.sch := by
      rw [← hs1]; split
      · exact resetBoth_sch st d
      · rfl
    have hk : ∀ w, s1.kindOf w = st.kindOf w := fun w => kindOf_congr (by rw [hsch]) w
    obtain ⟨r1, r2⟩ := ih s1
    unfold St.resetItems at r1 r2
    refine ⟨r1.trans hsch, fun w => ⟨?_, ?_⟩⟩
    · rintro ⟨hw, hne, hkw⟩
      by_cases hin : w ∈ ds
      · exact (r2 w).1 ⟨hin, hne, by rw [hk]; exact hkw⟩
      · rw [(r2 w).2 (fun h => hin h.1)]
        have hwd : w = d := by
          rcases List.mem_cons.1 hw with h | h
          · exact h
          · exact absurd h hin
        subst hwd
        rw [← hs1]
        have : (w != target && st.kindOf w == some Kind.term) = true := by simp [hne, hkw]
        rw [if_pos this, dataFor_resetBoth]
        exact dataFor_resetFor_term st hkw
    · intro hnot
      by_cases hin : w ∈ ds ∧ w ≠ target ∧ s1.kindOf w = some .term
      · exact absurd ⟨List.mem_cons_of_mem _ hin.1, hin.2.1, by rw [← hk]; exact hin.2.2⟩ hnot
      · rw [(r2 w).2 hin, ← hs1]
        split
        · next hc =>
          have hwd : w ≠ d := by
            intro e
            subst e
            apply hnot
            simp only [Bool.and_eq_true, bne_iff_ne, ne_eq, beq_iff_eq] at hc
            exact ⟨by simp, hc.1, hc.2⟩
          rw [dataFor_resetBoth, dataFor_resetFor_ne _ hwd]
        · rfl

/-! ## §2 the intended value -/

def evalU (f : Nat → Data) (l : List Nat) : Data := l.foldl (fun acc w => unionData acc (f w)) []

/-- `TV s dat u t v`: constituent `u` of the store `s` is well typed with type ℬ(`t`) and its
definition evaluates to `v`, the base sets being interpreted by `dat`. Least solution of the typing
and evaluation rules; depends on the store and on `dat` at base sets only. -/
inductive TV (s : List Cst) (dat : Nat → Option Data) : Nat → String → Data → Prop
  | base {c : Cst} {v : Data} : c ∈ s → c.kind = .base → c.defn = .empty → dat c.uid = some v →
      TV s dat c.uid c.alias v
  | union {c : Cst} {n : String} {ns : List String} {t : String} (f : Nat → Data) :
      c ∈ s → c.kind = .term → c.defn = .union (n :: ns) →
      (∀ m ∈ n :: ns, (findAliasL s m).isSome) →
      (∀ m ∈ n :: ns, ∀ w, findAliasL s m = some w → TV s dat w t (f w)) →
      TV s dat c.uid t (evalU f ((n :: ns).filterMap (findAliasL s)))

theorem TV.typed {s : List Cst} {dat : Nat → Option Data} {u : Nat} {t : String} {v : Data}
    (h : TV s dat u t v) : Typed s u t := by
  induction h with
  | base hc hk hd _ => exact Typed.base hc hk hd
  | union f hc hk hd hs _ ih => exact Typed.union hc hk hd hs ih

theorem TV.inv {s : List Cst} {dat : Nat → Option Data} (hn : (uids s).Nodup) {c : Cst} (hc : c ∈ s)
    {t : String} {v : Data} (h : TV s dat c.uid t v) :
    (c.kind = .base ∧ c.defn = .empty ∧ t = c.alias ∧ dat c.uid = some v) ∨
    (c.kind = .term ∧ ∃ n ns f, c.defn = .union (n :: ns) ∧
      (∀ m ∈ n :: ns, ∃ w, findAliasL s m = some w ∧ TV s dat w t (f w)) ∧
      v = evalU f ((n :: ns).filterMap (findAliasL s))) := by
  generalize hu : c.uid = u at h
  cases h with
  | base h1 h2 h3 h4 =>
    have := eq_of_uid_eq hn hc h1 hu
    subst this
    exact Or.inl ⟨h2, h3, rfl, h4⟩
  | @union _ n ns _ f h1 h2 h3 h4 h5 =>
    have := eq_of_uid_eq hn hc h1 hu
    subst this
    refine Or.inr ⟨h2, n, ns, f, h3, fun m hm => ?_, rfl⟩
    obtain ⟨w, hw⟩ := Option.isSome_iff_exists.1 (h4 m hm)
    exact ⟨w, hw, h5 m hm w hw⟩

theorem filterMap_congr' {α β : Type} {l : List α} {f g : α → Option β} (h : ∀ x ∈ l, f x = g x) :
    l.filterMap f = l.filterMap g := by
  induction l with
  | nil => rfl
  | cons x xs ih =>
    rw [List.filterMap_cons, List.filterMap_cons, h x (by simp),
      ih (fun y hy => h y (List.mem_cons_of_mem _ hy))]

/-- FRAME / transfer: the value of `u` only depends on the constituents `u` reaches backwards
(a set `Q` closed under resolved mentions), up to a renaming `g` of aliases and mentions that keeps
the resolution of the mentions -/
theorem TV.transfer {s s' : List Cst} {dat dat' : Nat → Option Data} (g : String → String)
    (Q : Nat → Prop)
    (hmem : ∀ c ∈ s, Q c.uid → ∃ c' ∈ s', c'.uid = c.uid ∧ c'.kind = c.kind ∧ c'.alias = g c.alias ∧
      (c.defn = .empty → c'.defn = .empty) ∧ (∀ l, c.defn = .union l → c'.defn = .union (l.map g)))
    (hfa : ∀ c ∈ s, Q c.uid → ∀ m ∈ c.defn.mentions, ∀ w, findAliasL s m = some w →
      findAliasL s' (g m) = some w ∧ Q w)
    (hdat : ∀ c ∈ s, Q c.uid → c.kind = .base → dat' c.uid = dat c.uid)
    {u : Nat} {t : String} {v : Data} (h : TV s dat u t v) : Q u → TV s' dat' u (g t) v := by
  induction h with
  | @base c v hc hk hd hv =>
    intro hq
    obtain ⟨c', hc', e1, e2, e3, e4, _⟩ := hmem c hc hq
    have := TV.base (dat := dat') (v := v) hc' (e2.trans hk) (e4 hd)
      (by rw [e1, hdat c hc hq hk]; exact hv)
    rw [e1, e3] at this
    exact this
  | @union c n ns t f hc hk hd hs hall ih =>
    intro hq
    obtain ⟨c', hc', e1, e2, _, _, e5⟩ := hmem c hc hq
    have hres : ∀ m ∈ n :: ns, ∃ w, findAliasL s m = some w ∧ findAliasL s' (g m) = some w ∧ Q w := by
      intro m hm
      obtain ⟨w, hw⟩ := Option.isSome_iff_exists.1 (hs m hm)
      exact ⟨w, hw, hfa c hc hq m (by rw [hd]; exact hm) w hw⟩
    have hfm : ((g n :: ns.map g)).filterMap (findAliasL s') = (n :: ns).filterMap (findAliasL s) := by
      rw [← List.map_cons (f := g), List.filterMap_map]
      apply filterMap_congr'
      intro m hm
      obtain ⟨w, h1, h2, _⟩ := hres m hm
      simp only [Function.comp]
      rw [h1, h2]
    have := TV.union (s := s') (dat := dat') (c := c') (n := g n) (ns := ns.map g) (t := g t) f hc'
      (e2.trans hk) (by rw [e5 _ hd]; rfl)
      (by
        intro m' hm'
        rw [← List.map_cons (f := g)] at hm'
        obtain ⟨m, hm, rfl⟩ := List.mem_map.1 hm'
        obtain ⟨w, _, h2, _⟩ := hres m hm
        rw [h2]; rfl)
      (by
        intro m' hm' w hw
        rw [← List.map_cons (f := g)] at hm'
        obtain ⟨m, hm, rfl⟩ := List.mem_map.1 hm'
        obtain ⟨w0, h1, h2, h3⟩ := hres m hm
        rw [h2] at hw
        have e : w0 = w := Option.some.inj hw
        rw [← e]
        exact ih m hm w0 h1 h3)
    rw [hfm, e1] at this
    exact this

/-- the same without renaming -/
theorem TV.transfer_id {s s' : List Cst} {dat dat' : Nat → Option Data} (Q : Nat → Prop)
    (hmem : ∀ c ∈ s, Q c.uid → c ∈ s')
    (hfa : ∀ c ∈ s, Q c.uid → ∀ m ∈ c.defn.mentions, ∀ w, findAliasL s m = some w →
      findAliasL s' m = some w ∧ Q w)
    (hdat : ∀ c ∈ s, Q c.uid → c.kind = .base → dat' c.uid = dat c.uid)
    {u : Nat} {t : String} {v : Data} (h : TV s dat u t v) (hq : Q u) : TV s' dat' u t v := by
  refine TV.transfer (fun x => x) Q ?_ hfa hdat h hq
  intro c hc hq
  exact ⟨c, hmem c hc hq, rfl, rfl, rfl, fun h => h, fun l h => by rw [h, List.map_id']⟩

/-- the value does not depend on the values stored for terms -/
theorem TV.congr_dat {s : List Cst} {dat dat' : Nat → Option Data}
    (hdat : ∀ c ∈ s, c.kind = .base → dat' c.uid = dat c.uid)
    {u : Nat} {t : String} {v : Data} (h : TV s dat u t v) : TV s dat' u t v :=
  TV.transfer_id (fun _ => True) (fun _ hc _ => hc) (fun _ _ _ _ _ _ hw => ⟨hw, trivial⟩)
    (fun c hc _ hk => hdat c hc hk) h trivial

/-! ## §3 pairwise distinct aliases -/

theorem findAliasL_of_distinct {s : List Cst} (hd : (s.map (·.alias)).Nodup) {c : Cst} (hc : c ∈ s) :
    findAliasL s c.alias = some c.uid := by
  unfold findAliasL
  cases hf : s.find? (·.alias == c.alias) with
  | none =>
    have := List.find?_eq_none.1 hf c hc
    simp at this
  | some d =>
    have hd' := List.mem_of_find?_eq_some hf
    have ha : d.alias = c.alias := by simpa using List.find?_some hf
    rw [eq_of_alias_eq hd hd' hc ha]
    rfl

theorem eraseOk_of_distinct {s : List Cst} (hd : (s.map (·.alias)).Nodup) (u : Nat) : EraseOk s u := by
  intro c hc hcu d hd' hal
  rw [eq_of_alias_eq hd hd' hc hal]
  exact hcu

/-! ## §4 the invariant -/

/-- invariant of the reachable states: the schema layer is well formed (C07), aliases are pairwise
distinct, and every value stored for a term is the intended value of that term w.r.t. the current
definitions and the current base data -/
structure Inv (st : St) : Prop where
  wf : Schema.WF st.sch
  dist : AliasesDistinct st.sch
  val : ∀ u v, st.kindOf u = some .term → st.dataFor u = some v →
    ∃ t, TV st.sch.store st.dataFor u t v

theorem kindOf_of_mem {st : St} (hn : (uids st.sch.store).Nodup) {c : Cst} (hc : c ∈ st.sch.store) :
    st.kindOf c.uid = some c.kind := by
  unfold St.kindOf
  rw [at_of_mem hn hc]
  rfl

theorem kindOf_eq_some {st : St} {u : Nat} {k : Kind} (h : st.kindOf u = some k) :
    ∃ c, st.sch.at u = some c ∧ c ∈ st.sch.store ∧ c.uid = u ∧ c.kind = k := by
  unfold St.kindOf at h
  cases hat : st.sch.at u with
  | none => rw [hat] at h; cases h
  | some c =>
    rw [hat] at h
    obtain ⟨h1, h2⟩ := mem_of_at hat
    exact ⟨c, rfl, h1, h2, by simpa using h⟩

theorem ne_of_kinds {st : St} (hn : (uids st.sch.store).Nodup) {c : Cst} (hc : c ∈ st.sch.store)
    (hk : c.kind = .base) {u : Nat} (hu : st.kindOf u = some .term) : c.uid ≠ u := by
  intro e
  rw [← e, kindOf_of_mem hn hc, hk] at hu
  cases hu

/-- values of terms may be dropped, values of base sets must stay -/
theorem Inv.mono {st st' : St} (h : Inv st) (hs : st'.sch = st.sch)
    (hb : ∀ c ∈ st.sch.store, c.kind = .base → st'.dataFor c.uid = st.dataFor c.uid)
    (ht : ∀ u v, st.kindOf u = some .term → st'.dataFor u = some v → st.dataFor u = some v) :
    Inv st' := by
  refine ⟨by rw [hs]; exact h.wf, by rw [hs]; exact h.dist, ?_⟩
  intro u v hk hv
  have hk' : st.kindOf u = some .term := by rw [← kindOf_congr (st := st) (st' := st') (by rw [hs])]; exact hk
  obtain ⟨t, ht'⟩ := h.val u v hk' (ht u v hk' hv)
  rw [hs]
  exact ⟨t, ht'.congr_dat hb⟩

theorem foldl_inv {α σ : Type} (P : σ → Prop) (F : σ → α → σ) (l : List α)
    (hF : ∀ s, ∀ x ∈ l, P s → P (F s x)) : ∀ s, P s → P (l.foldl F s) := by
  induction l with
  | nil => intro s h; exact h
  | cons x xs ih =>
    intro s h
    rw [List.foldl_cons]
    exact ih (fun s y hy => hF s y (List.mem_cons_of_mem _ hy)) _ (hF s x (by simp) h)

/-! ## §5 `calculateInternal`, `recalculateAll` -/

theorem fold_vals (r : String → Option Nat) (dat : Nat → Option Data) (l : List String) :
    ∀ acc : Data, (∀ m ∈ l, (r m).isSome) →
    (l.map (fun n => (r n).bind dat)).foldl (fun acc v => unionData acc (v.getD [])) acc =
      (l.filterMap r).foldl (fun acc w => unionData acc ((dat w).getD [])) acc := by
  induction l with
  | nil => intro _ _; rfl
  | cons m ms ih =>
    intro acc h
    obtain ⟨w, hw⟩ := Option.isSome_iff_exists.1 (h m (by simp))
    rw [List.map_cons, List.foldl_cons, List.filterMap_cons, hw]
    simp only [Option.bind_some, List.foldl_cons]
    exact ih _ (fun m' hm' => h m' (List.mem_cons_of_mem _ hm'))

theorem verified_typed {sch : Schema.St} (h : Schema.WF sch) {u : Nat} (hu : u ∈ uids sch.store)
    (hv : (sch.infoFor u).status = .verified) : ∃ t, Typed sch.store u t := by
  have hs := h.sync.status u hu
  unfold StatusOk at hs
  cases hty : (sch.infoFor u).ty with
  | none =>
    rw [hty] at hs
    rw [hv] at hs
    cases hs
  | some t => exact ⟨t, h.sync.sound u t hty⟩

theorem typed_verified {sch : Schema.St} (h : Schema.WF sch) {u : Nat} {t : String}
    (ht : Typed sch.store u t) : (sch.infoFor u).status = .verified := by
  have hs := h.sync.status u ht.mem
  unfold StatusOk at hs
  rw [h.sync.complete u t trivial ht] at hs
  exact hs

/-- the value `CalculateCstInternal` stores is the intended one -/
theorem calc_value {st : St} (h : Inv st) {c : Cst} (hc : c ∈ st.sch.store) (hk : c.kind = .term)
    (hv : (st.sch.infoFor c.uid).status = .verified)
    (hall : (c.defn.mentions.map (fun n => (st.sch.findAlias n).bind st.dataFor)).all Option.isSome = true) :
    ∃ t, TV st.sch.store st.dataFor c.uid t
      ((c.defn.mentions.map (fun n => (st.sch.findAlias n).bind st.dataFor)).foldl
        (fun acc v => unionData acc (v.getD [])) []) := by
  have hn := h.wf.base.nodup
  obtain ⟨t, ht⟩ := verified_typed h.wf (mem_uids.2 ⟨c, hc, rfl⟩) hv
  refine ⟨t, ?_⟩
  rcases Typed.inv hn hc ht with ⟨hk', _⟩ | ⟨_, n, ns, hd, hm⟩
  · rw [hk] at hk'; cases hk'
  · have hment : c.defn.mentions = n :: ns := by rw [hd]; rfl
    rw [hment] at hall ⊢
    have hs : ∀ m ∈ n :: ns, (findAliasL st.sch.store m).isSome := by
      intro m hm'
      obtain ⟨w, hw, _⟩ := hm m hm'
      rw [hw]; rfl
    have hval := fold_vals st.sch.findAlias st.dataFor (n :: ns) [] hs
    rw [hval]
    refine TV.union (fun w => (st.dataFor w).getD []) hc hk hd hs ?_
    intro m hm' w hw
    obtain ⟨w', hw', htw⟩ := hm m hm'
    rw [hw] at hw'
    have e : w = w' := Option.some.inj hw'
    subst e
    have hdw : ((st.sch.findAlias m).bind st.dataFor).isSome = true := by
      have := List.all_eq_true.1 hall _ (List.mem_map.2 ⟨m, hm', rfl⟩)
      exact this
    rw [findAlias_eq, hw, Option.bind_some] at hdw
    obtain ⟨d, hd'⟩ := Option.isSome_iff_exists.1 hdw
    rw [hd']
    simp only [Option.getD_some]
    obtain ⟨cw, hcw, hcwu⟩ := mem_uids.1 htw.mem
    subst hcwu
    rcases Typed.inv hn hcw htw with ⟨k1, k2, k3⟩ | ⟨k1, _⟩
    · rw [k3]
      exact TV.base hcw k1 k2 hd'
    · obtain ⟨t', ht'⟩ := h.val cw.uid d (by rw [kindOf_of_mem hn hcw, k1]) hd'
      rw [Typed.unique hn htw ht'.typed]
      exact ht'

def markCalc (st : St) (u : Nat) : St :=
  { st with calcd := if st.calcd.contains u then st.calcd else u :: st.calcd }
def valsOf (st : St) (c : Cst) : List (Option Data) :=
  c.defn.mentions.map (fun n => (st.sch.findAlias n).bind st.dataFor)
def valOf (st : St) (c : Cst) : Data :=
  (valsOf st c).foldl (fun acc v => unionData acc (v.getD [])) []

theorem calculateInternal_eq {st : St} {u : Nat} {c : Cst} (hat : st.sch.at u = some c) :
    st.calculateInternal u =
      if (st.sch.infoFor u).status != .verified then (st, false)
      else if (valsOf st c).all Option.isSome then ((markCalc st u).setData u (valOf st c), true)
      else (markCalc st u, false) := by
  unfold St.calculateInternal
  rw [hat]
  rfl

theorem calculateInternal_none {st : St} {u : Nat} (hat : st.sch.at u = none) :
    st.calculateInternal u = (st, false) := by
  unfold St.calculateInternal
  rw [hat]

theorem calculateInternal_sch (st : St) (u : Nat) : (st.calculateInternal u).1.sch = st.sch := by
  cases hat : st.sch.at u with
  | none => rw [calculateInternal_none hat]
  | some c =>
    rw [calculateInternal_eq hat]
    split
    · rfl
    · split <;> rfl

/-- `CalculateCstInternal` changes at most the value of its target -/
theorem calculateInternal_ne (st : St) {u w : Nat} (h : w ≠ u) :
    (st.calculateInternal u).1.dataFor w = st.dataFor w := by
  cases hat : st.sch.at u with
  | none => rw [calculateInternal_none hat]
  | some c =>
    rw [calculateInternal_eq hat]
    split
    · rfl
    · split
      · exact dataFor_setData_ne _ _ h
      · rfl

theorem Inv.calculateInternal {st : St} (h : Inv st) {u : Nat} (hk : st.kindOf u = some .term) :
    Inv (st.calculateInternal u).1 := by
  obtain ⟨c, hat, hc, hcu, hck⟩ := kindOf_eq_some hk
  subst hcu
  have hn := h.wf.base.nodup
  rw [calculateInternal_eq hat]
  split
  · exact h
  · next hver =>
    have hver' : (st.sch.infoFor c.uid).status = .verified := by simpa using hver
    have h1 : Inv (markCalc st c.uid) := h.mono rfl (fun _ _ _ => rfl) (fun _ _ _ hv => hv)
    split
    · next hall =>
      obtain ⟨t, ht⟩ := calc_value h hc hck hver' hall
      refine ⟨h.wf, h.dist, ?_⟩
      intro w v hkw hvw
      have hbase : ∀ c' ∈ st.sch.store, c'.kind = .base →
          ((markCalc st c.uid).setData c.uid (valOf st c)).dataFor c'.uid = st.dataFor c'.uid := by
        intro c' hc' hk'
        exact dataFor_setData_ne _ _ (ne_of_kinds hn hc' hk' hk)
      by_cases hwu : w = c.uid
      · subst hwu
        have hvw' : ((markCalc st c.uid).setData c.uid (valOf st c)).dataFor c.uid = some v := hvw
        rw [dataFor_setData_self] at hvw'
        have e := Option.some.inj hvw'
        rw [← e]
        exact ⟨t, ht.congr_dat hbase⟩
      · have hvw' : ((markCalc st c.uid).setData c.uid (valOf st c)).dataFor w = some v := hvw
        rw [dataFor_setData_ne _ _ hwu] at hvw'
        obtain ⟨t', ht'⟩ := h.val w v hkw hvw'
        exact ⟨t', ht'.congr_dat hbase⟩
    · exact h1

theorem Inv.resetFor_term {st : St} (h : Inv st) {u : Nat} (hk : st.kindOf u = some .term) :
    Inv (st.resetFor u) := by
  have hn := h.wf.base.nodup
  refine h.mono (resetFor_sch st u) ?_ ?_
  · intro c hc hkb
    exact dataFor_resetFor_ne st (ne_of_kinds hn hc hkb hk)
  · intro w v _ hv
    by_cases hwu : w = u
    · subst hwu
      rw [dataFor_resetFor_term st hk] at hv
      cases hv
    · rw [dataFor_resetFor_ne st hwu] at hv
      exact hv

theorem Inv.recalculateAll {st : St} (h : Inv st) : Inv st.recalculateAll := by
  unfold St.recalculateAll
  simp only
  rw [ensureGraph_valid h.wf.valid]
  have h1 : Inv ({ st with sch := st.sch, calcd := [] } : St) :=
    h.mono rfl (fun _ _ _ => rfl) (fun _ _ _ hv => hv)
  have h2 := foldl_inv (fun s : St => Inv s ∧ s.sch = st.sch)
    (fun s c => if c.kind == .term then s.resetFor c.uid else s) st.sch.store
    (by
      intro s c hc ⟨hi, hs⟩
      split
      · next hk =>
        have hk' : s.kindOf c.uid = some .term := by
          rw [kindOf_of_mem (by rw [hs]; exact h.wf.base.nodup) (by rw [hs]; exact hc)]
          simpa using hk
        exact ⟨hi.resetFor_term hk', (resetFor_sch s c.uid).trans hs⟩
      · exact ⟨hi, hs⟩) _ ⟨h1, rfl⟩
  exact foldl_inv Inv (fun s u => if s.kindOf u == some .term then (s.calculateInternal u).1 else s)
    _ (by
      intro s u _ hi
      split
      · next hk => exact hi.calculateInternal (by simpa using hk)
      · exact hi) _ h2.1

/-! ## §6 `ResetDependants` -/

/-- `ResetDependants(u)` drops exactly the values of the terms that depend on `u` -/
theorem resetDependants_spec {st : St} (hwf : Schema.WF st.sch) {u : Nat} (hu : u ∈ uids st.sch.store) :
    (st.resetDependants u).sch = st.sch ∧
    ∀ w, ((Reach (Graph.edges st.sch.graph) u w ∧ w ≠ u ∧ st.kindOf w = some .term) →
        (st.resetDependants u).dataFor w = none) ∧
      (¬ (Reach (Graph.edges st.sch.graph) u w ∧ w ≠ u ∧ st.kindOf w = some .term) →
        (st.resetDependants u).dataFor w = st.dataFor w) := by
  unfold St.resetDependants
  simp only
  rw [ensureGraph_valid hwf.valid]
  obtain ⟨r1, r2⟩ := resetItems_spec (Graph.expandOutputs st.sch.graph [u]) u { st with sch := st.sch }
  refine ⟨r1, fun w => ?_⟩
  have := r2 w
  rw [mem_expansion hwf.cur hu w] at this
  exact this

/-- what does not depend on `u` does not mention anything that depends on `u` -/
theorem notReach_closed {sch : Schema.St} (hwf : Schema.WF sch) {u : Nat} {c : Cst} (hc : c ∈ sch.store)
    (hnr : ¬ Reach (Graph.edges sch.graph) u c.uid) {m : String} (hm : m ∈ c.defn.mentions) {w : Nat}
    (hw : findAliasL sch.store m = some w) : ¬ Reach (Graph.edges sch.graph) u w := by
  intro hr
  exact hnr (hr.tail ((hwf.cur.edges w c.uid).2 ⟨c, hc, rfl, mem_inputsOfL.2 ⟨m, hm, hw⟩⟩))

/-- the value of a base set `u` changes, then `ResetDependants(u)` -/
theorem Inv.baseChange {st st1 : St} (h : Inv st) (hs : st1.sch = st.sch) {u : Nat}
    (hk : st.kindOf u = some .base) (hd : ∀ w, w ≠ u → st1.dataFor w = st.dataFor w) :
    Inv (st1.resetDependants u) := by
  have hn := h.wf.base.nodup
  have hwf1 : Schema.WF st1.sch := by rw [hs]; exact h.wf
  obtain ⟨cu, _, hcu, hcuu, _⟩ := kindOf_eq_some hk
  have hu : u ∈ uids st1.sch.store := by rw [hs]; exact mem_uids.2 ⟨cu, hcu, hcuu⟩
  obtain ⟨r1, r2⟩ := resetDependants_spec hwf1 hu
  have hsch : (st1.resetDependants u).sch = st.sch := r1.trans hs
  have hkind : ∀ w, st1.kindOf w = st.kindOf w := fun w => kindOf_congr (by rw [hs]) w
  refine ⟨by rw [hsch]; exact h.wf, by rw [hsch]; exact h.dist, ?_⟩
  intro w v hkw hvw
  have hkw' : st.kindOf w = some .term := by
    rw [← kindOf_congr (st := st) (st' := st1.resetDependants u) (by rw [hsch])]; exact hkw
  have hwu : w ≠ u := by
    intro e
    rw [e, hk] at hkw'
    cases hkw'
  by_cases hr : Reach (Graph.edges st1.sch.graph) u w
  · rw [(r2 w).1 ⟨hr, hwu, by rw [hkind]; exact hkw'⟩] at hvw
    cases hvw
  · rw [(r2 w).2 (fun h' => hr h'.1), hd w hwu] at hvw
    obtain ⟨t, ht⟩ := h.val w v hkw' hvw
    rw [hsch]
    refine ⟨t, TV.transfer_id (fun x => ¬ Reach (Graph.edges st1.sch.graph) u x) (fun _ hc _ => hc)
      ?_ ?_ ht hr⟩
    · intro c hc hq m hm w' hw'
      refine ⟨hw', ?_⟩
      exact notReach_closed hwf1 (by rw [hs]; exact hc) hq hm (by rw [hs]; exact hw')
    · intro c hc hq hkb
      have hne : c.uid ≠ u := fun e => hq (e ▸ Reach.refl _)
      rw [(r2 c.uid).2 ?_, hd _ hne]
      rintro ⟨_, _, hk3⟩
      rw [hkind, kindOf_of_mem hn hc, hkb] at hk3
      cases hk3

theorem Inv.resetDependants {st : St} (h : Inv st) {u : Nat} (hu : u ∈ uids st.sch.store) :
    Inv (st.resetDependants u) := by
  obtain ⟨r1, r2⟩ := resetDependants_spec h.wf hu
  refine h.mono r1 ?_ ?_
  · intro c hc hk
    apply (r2 c.uid).2
    rintro ⟨_, _, hk3⟩
    rw [kindOf_of_mem h.wf.base.nodup hc, hk] at hk3
    cases hk3
  · intro w v _ hv
    by_cases hr : Reach (Graph.edges st.sch.graph) u w ∧ w ≠ u ∧ st.kindOf w = some .term
    · rw [(r2 w).1 hr] at hv
      cases hv
    · rw [(r2 w).2 hr] at hv
      exact hv

/-! ## §7 the editing steps -/

theorem Inv.addElem {st : St} (h : Inv st) (u : Nat) : Inv (step false st (.addElem u)) := by
  unfold step
  simp only
  split
  · exact h
  · next hk =>
    have hk' : st.kindOf u = some .base := by simpa using hk
    refine h.baseChange ?_ hk' ?_
    · rfl
    · intro w hw
      exact dataFor_setData_ne _ _ hw

theorem Inv.setText {st : St} (h : Inv st) (u : Nat) (keys : List Int) :
    Inv (step false st (.setText u keys)) := by
  unfold step
  simp only
  split
  · exact h
  · next hk =>
    have hk' : st.kindOf u = some .base := by simpa using hk
    split
    · exact h
    · simp only [Bool.false_eq_true, if_false, if_true]
      refine h.baseChange ?_ hk' ?_
      · rfl
      · intro w hw
        exact dataFor_setData_ne _ _ hw

theorem Inv.resetData {st : St} (h : Inv st) (u : Nat) : Inv (step false st (.resetData u)) := by
  unfold step
  simp only
  split
  · exact h
  · next hk =>
    have hk' : st.kindOf u = some .base := by simpa using hk
    exact h.baseChange (resetFor_sch st u) hk' (fun w hw => dataFor_resetFor_ne st hw)

theorem Inv.calculate {st : St} (h : Inv st) (u : Nat) : Inv (step false st (.calculate u)) := by
  unfold step
  simp only
  split
  · exact h
  · next hk =>
    have hk' : st.kindOf u = some .term := by simpa using hk
    obtain ⟨c, _, hc, hcu, _⟩ := kindOf_eq_some hk'
    apply (h.calculateInternal hk').resetDependants
    rw [calculateInternal_sch]
    exact mem_uids.2 ⟨c, hc, hcu⟩

/-- a schema-level step that keeps the store -/
theorem Inv.schOnly {st : St} (h : Inv st) {sch' : Schema.St} (hwf : Schema.WF sch')
    (hs : sch'.store = st.sch.store) : Inv { st with sch := sch' } := by
  refine ⟨hwf, ?_, ?_⟩
  · show (sch'.store.map (·.alias)).Nodup
    rw [hs]; exact h.dist
  · intro u v hk hv
    have hk' : st.kindOf u = some .term := by
      rw [← kindOf_congr (st := st) (st' := { st with sch := sch' }) hs]; exact hk
    obtain ⟨t, ht⟩ := h.val u v hk' hv
    show ∃ t, TV sch'.store st.dataFor u t v
    rw [hs]
    exact ⟨t, ht⟩

theorem Inv.updateState {st : St} (h : Inv st) : Inv (step false st (.schema .updateState)) := by
  unfold step
  exact h.schOnly h.wf.updateState (updateState_spec h.wf.base (Or.inr ⟨h.wf.valid, h.wf.cur⟩)).2

/-! ### `insert` -/

theorem mem_insertCst_of_mem {c x : Cst} {s : List Cst} (h : x ∈ s) : x ∈ insertCst c s := by
  induction s with
  | nil => cases h
  | cons d ds ih =>
    unfold insertCst
    split
    · exact List.mem_cons_of_mem _ h
    · split
      · exact h
      · rcases List.mem_cons.1 h with e | h'
        · rw [e]; simp
        · exact List.mem_cons_of_mem _ (ih h')

theorem mem_insertCst_self {c : Cst} {s : List Cst} (h : c.uid ∉ uids s) : c ∈ insertCst c s := by
  induction s with
  | nil => simp [insertCst]
  | cons d ds ih =>
    unfold insertCst
    split
    · simp
    · split
      · next h2 => exact absurd (by simp [uids, h2]) h
      · exact List.mem_cons_of_mem _ (ih (fun hh => h (by
          simp only [uids, List.map_cons]; exact List.mem_cons_of_mem _ hh)))

theorem mem_insertCst {c x : Cst} {s : List Cst} (h : x ∈ insertCst c s) : x = c ∨ x ∈ s := by
  induction s with
  | nil =>
    simp only [insertCst, List.mem_singleton] at h
    exact Or.inl h
  | cons d ds ih =>
    unfold insertCst at h
    split at h
    · rcases List.mem_cons.1 h with e | h'
      · exact Or.inl e
      · exact Or.inr h'
    · split at h
      · exact Or.inr h
      · rcases List.mem_cons.1 h with e | h'
        · exact Or.inr (by rw [e]; simp)
        · rcases ih h' with e | h''
          · exact Or.inl e
          · exact Or.inr (List.mem_cons_of_mem _ h'')

theorem insert_spec {sch : Schema.St} (h : Schema.WF sch) (c : Cst) (hh : ¬ sch.hasInfo c.uid = true) :
    (Schema.step false sch (.insert c)).store = insertCst c sch.store ∧ c.uid ∉ uids sch.store := by
  have hnot : c.uid ∉ uids sch.store := fun hu => hh ((h.base.keys c.uid).2 hu)
  refine ⟨?_, hnot⟩
  unfold Schema.step
  simp only
  rw [if_neg hh]
  have hp := uids_insertCst hnot
  refine (updateState_spec ⟨?_, ?_⟩ (Or.inl rfl)).2
  · show (uids (insertCst c sch.store)).Nodup
    rw [hp.nodup_iff]
    exact List.nodup_cons.2 ⟨hnot, h.base.nodup⟩
  · intro u
    show ({ sch with info := sch.info ++ [(c.uid, {})] } : Schema.St).hasInfo u = true ↔
      u ∈ uids (insertCst c sch.store)
    rw [hasInfo_append, hp.mem_iff, Bool.or_eq_true, h.base.keys u, List.mem_cons]
    constructor
    · rintro (h1 | h1)
      · exact Or.inr h1
      · exact Or.inl (Eq.symm (by simpa using h1))
    · rintro (h1 | h1)
      · exact Or.inr (by simpa using h1.symm)
      · exact Or.inl h1

theorem Inv.insert {st : St} (h : Inv st) (c : Cst)
    (hd : AliasesDistinct (step false st (.schema (.insert c))).sch) :
    Inv (step false st (.schema (.insert c))) := by
  by_cases hh : st.sch.hasInfo c.uid = true
  · have e : step false st (.schema (.insert c)) = st := by
      unfold step; simp only; rw [if_pos hh]
    rw [e]; exact h
  · have e : step false st (.schema (.insert c)) =
        St.resetBoth { st with sch := Schema.step false st.sch (.insert c) } c.uid := by
      unfold step; simp only; rw [if_neg hh]
    rw [e] at hd ⊢
    have hwf' : Schema.WF (Schema.step false st.sch (.insert c)) := h.wf.insert c
    obtain ⟨hst, hnot⟩ := insert_spec h.wf c hh
    generalize Schema.step false st.sch (.insert c) = sch' at hd hwf' hst ⊢
    have hn' := hwf'.base.nodup
    have hcmem : c ∈ sch'.store := by rw [hst]; exact mem_insertCst_self hnot
    have hsch2 : (St.resetBoth { st with sch := sch' } c.uid).sch = sch' := resetBoth_sch _ _
    have hd' : ((insertCst c st.sch.store).map (·.alias)).Nodup := by
      rw [hsch2] at hd
      unfold AliasesDistinct at hd
      rw [hst] at hd
      exact hd
    refine ⟨by rw [hsch2]; exact hwf', hd, ?_⟩
    intro w v hkw hvw
    have hkw1 : ({ st with sch := sch' } : St).kindOf w = some .term := by
      rw [← kindOf_congr (st := { st with sch := sch' }) (st' := St.resetBoth { st with sch := sch' } c.uid)
        (by rw [hsch2])]
      exact hkw
    by_cases hwc : w = c.uid
    · subst hwc
      rw [dataFor_resetBoth, dataFor_resetFor_term _ hkw1] at hvw
      cases hvw
    · rw [dataFor_resetBoth, dataFor_resetFor_ne _ hwc] at hvw
      have hvw' : st.dataFor w = some v := hvw
      obtain ⟨c1, _, hc1, hc1u, hc1k⟩ := kindOf_eq_some hkw1
      have hc1' : c1 ∈ st.sch.store := by
        have : c1 ∈ insertCst c st.sch.store := by rw [← hst]; exact hc1
        rcases mem_insertCst this with e1 | h1
        · exact absurd (by rw [← hc1u, e1]) hwc
        · exact h1
      have hkw0 : st.kindOf w = some .term := by
        rw [← hc1u, kindOf_of_mem h.wf.base.nodup hc1', hc1k]
      obtain ⟨t, ht⟩ := h.val w v hkw0 hvw'
      rw [hsch2, hst]
      refine ⟨t, TV.transfer_id (fun _ => True) (fun _ hc _ => mem_insertCst_of_mem hc) ?_ ?_ ht trivial⟩
      · intro c2 _ _ m _ w' hw'
        obtain ⟨c3, hc3, hc3u, hc3a⟩ := findAliasL_mem hw'
        have := findAliasL_of_distinct hd' (mem_insertCst_of_mem (c := c) hc3)
        rw [hc3a, hc3u] at this
        exact ⟨this, trivial⟩
      · intro c2 hc2 _ _
        have hne : c2.uid ≠ c.uid := fun e2 => hnot (mem_uids.2 ⟨c2, hc2, e2⟩)
        rw [dataFor_resetBoth, dataFor_resetFor_ne _ hne]
        rfl

/-! ### `erase` -/

theorem erase_core' {st : Schema.St} (hb : Base st) (hv : st.invalid = false)
    (hg : GraphCur st.store st.graph) {u : Nat} (hok : EraseOk st.store u) :
    (eraseSt st u).updateState.store = st.store.filter (·.uid != u) := by
  refine (updateState_spec (st := eraseSt st u) ⟨?_, ?_⟩ (Or.inr ⟨hv, ?_⟩)).2
  · show (uids (st.store.filter (·.uid != u))).Nodup
    exact hb.nodup.sublist (List.Sublist.map _ List.filter_sublist)
  · intro v
    show ({ st with info := st.info.filter (·.1 != u) } : Schema.St).hasInfo v = true ↔
      v ∈ uids (st.store.filter (·.uid != u))
    rw [hasInfo_filter, mem_uids_filter, hb.keys]
  · show GraphCur (st.store.filter (·.uid != u)) (if st.invalid then st.graph else eraseItem st.graph u)
    rw [hv]
    exact graphCur_erase hg hok

theorem erase_spec {sch : Schema.St} (h : Schema.WF sch) {u : Nat} (hc : ¬ (!sch.contains u) = true)
    (hok : EraseOk sch.store u) :
    (Schema.step false sch (.erase u)).store = sch.store.filter (·.uid != u) := by
  unfold Schema.step
  simp only
  rw [if_neg hc, ensureGraph_valid h.valid]
  obtain ⟨q1, q2, q3, q4, _, _⟩ := reset_fold (expandOutputs sch.graph [u]) sch
  have hb : Base ((expandOutputs sch.graph [u]).foldl resetStep sch) :=
    ⟨by rw [q1]; exact h.base.nodup, fun v => by rw [q1, q4]; exact h.base.keys v⟩
  have := erase_core' hb (q3.trans h.valid) (by rw [q1, q2]; exact h.cur) (u := u) (by rw [q1]; exact hok)
  rw [q1] at this
  exact this

theorem Inv.erase {st : St} (h : Inv st) (u : Nat) : Inv (step false st (.schema (.erase u))) := by
  by_cases hh : (!st.sch.contains u) = true
  · have e : step false st (.schema (.erase u)) = st := by
      unfold step; simp only; rw [if_pos hh]
    rw [e]; exact h
  · have e : step false st (.schema (.erase u)) =
        St.resetItems { (St.eraseData { st with sch := Schema.step false st.sch (.erase u) } u) with
            calcd := st.calcd.filter (· != u) } (Graph.expandOutputs st.sch.graph [u]) u := by
      unfold step; simp only; rw [if_neg hh, ensureGraph_valid h.wf.valid]
      rfl
    rw [e]
    have hok := eraseOk_of_distinct h.dist u
    have hwf' : Schema.WF (Schema.step false st.sch (.erase u)) := h.wf.erase u hok
    have hst := erase_spec h.wf hh hok
    have hu : u ∈ uids st.sch.store := contains_iff.1 (by simpa using hh)
    have hXm := mem_expansion h.wf.cur hu
    generalize Schema.step false st.sch (.erase u) = sch' at hwf' hst ⊢
    generalize hst1 : ({ (St.eraseData { st with sch := sch' } u) with
            calcd := st.calcd.filter (· != u) } : St) = st1
    have hs1 : st1.sch = sch' := by rw [← hst1]; rfl
    have hd1 : ∀ w, w ≠ u → st1.dataFor w = st.dataFor w := by
      intro w hw
      rw [← hst1]
      exact dataFor_eraseData_ne _ hw
    obtain ⟨r1, r2⟩ := resetItems_spec (Graph.expandOutputs st.sch.graph [u]) u st1
    have hsch : (st1.resetItems (Graph.expandOutputs st.sch.graph [u]) u).sch = sch' := r1.trans hs1
    have hk1 : ∀ w, (st1.resetItems (Graph.expandOutputs st.sch.graph [u]) u).kindOf w = st1.kindOf w :=
      fun w => kindOf_congr (by rw [r1]) w
    have hn' : (uids st1.sch.store).Nodup := by rw [hs1]; exact hwf'.base.nodup
    have hmem1 : ∀ c, c ∈ st1.sch.store ↔ c ∈ st.sch.store ∧ c.uid ≠ u := by
      intro c
      rw [hs1, hst, List.mem_filter]
      simp
    refine ⟨by rw [hsch]; exact hwf', ?_, ?_⟩
    · rw [hsch]
      show (sch'.store.map (·.alias)).Nodup
      rw [hst]
      exact h.dist.sublist (List.Sublist.map _ List.filter_sublist)
    · intro w v hkw hvw
      rw [hk1] at hkw
      obtain ⟨c1, _, hc1, hc1u, hc1k⟩ := kindOf_eq_some hkw
      obtain ⟨hc1', hc1ne⟩ := (hmem1 c1).1 hc1
      have hwu : w ≠ u := by rw [← hc1u]; exact hc1ne
      have hkw0 : st.kindOf w = some .term := by
        rw [← hc1u, kindOf_of_mem h.wf.base.nodup hc1', hc1k]
      by_cases hX : w ∈ Graph.expandOutputs st.sch.graph [u]
      · rw [(r2 w).1 ⟨hX, hwu, hkw⟩] at hvw
        cases hvw
      · rw [(r2 w).2 (fun h' => hX h'.1), hd1 w hwu] at hvw
        obtain ⟨t, ht⟩ := h.val w v hkw0 hvw
        rw [hsch, hst]
        refine ⟨t, TV.transfer_id (fun x => x ∉ Graph.expandOutputs st.sch.graph [u]) ?_ ?_ ?_ ht hX⟩
        · intro c2 hc2 hq
          refine List.mem_filter.2 ⟨hc2, ?_⟩
          have : c2.uid ≠ u := fun e2 => hq (by rw [e2]; exact (hXm u).2 (Reach.refl _))
          simpa using this
        · intro c2 hc2 hq m hm w' hw'
          have hq' : w' ∉ Graph.expandOutputs st.sch.graph [u] := by
            intro hw'X
            exact notReach_closed h.wf hc2 (fun hr => hq ((hXm _).2 hr)) hm hw' ((hXm _).1 hw'X)
          have hne : w' ≠ u := fun e2 => hq' (by rw [e2]; exact (hXm u).2 (Reach.refl _))
          exact ⟨(findAliasL_erase hok m w').2 ⟨hw', hne⟩, hq'⟩
        · intro c2 hc2 hq _
          have hne : c2.uid ≠ u := fun e2 => hq (by rw [e2]; exact (hXm u).2 (Reach.refl _))
          rw [(r2 c2.uid).2 (fun h' => hq h'.1), hd1 _ hne]

/-! ### `setDef` -/

theorem foldl_parseCst_store (L : List Nat) : ∀ st : Schema.St, (L.foldl St.parseCst st).store = st.store := by
  induction L with
  | nil => intro _; rfl
  | cons b q ih =>
    intro st
    rw [List.foldl_cons, ih, parseCst_store]

theorem triggerParse_store {st : Schema.St} (hv : st.invalid = false) (u : Nat) :
    (st.triggerParse u).store = st.store := by
  rw [triggerParse_eq hv, foldl_parseCst_store]
  exact (reset_fold _ st).1

theorem graphUpdateFor_store (st : Schema.St) (u : Nat) : (st.graphUpdateFor u).store = st.store := by
  unfold St.graphUpdateFor
  split
  · rfl
  · split <;> rfl

theorem graphUpdateFor_invalid' (st : Schema.St) (u : Nat) : (st.graphUpdateFor u).invalid = st.invalid := by
  unfold St.graphUpdateFor
  split
  · rfl
  · split <;> rfl

theorem setDef_spec {sch : Schema.St} (h : Schema.WF sch) {u : Nat} {d : Def} {c : Cst}
    (hat : sch.at u = some c) (hne : ¬ d = c.defn) :
    (Schema.step false sch (.setDef u d)).store = setDefL sch.store u d := by
  obtain ⟨hc, hcu⟩ := mem_of_at hat
  subst hcu
  unfold Schema.step
  simp only
  rw [hat]
  simp only
  rw [if_neg hne, if_pos (realChange_true h.base.nodup hc hne)]
  simp only [Bool.false_eq_true, if_false]
  rw [triggerParse_store (by rw [graphUpdateFor_invalid']; exact h.valid), graphUpdateFor_store]
  rfl

theorem aliases_setDefL (s : List Cst) (u : Nat) (d : Def) :
    (setDefL s u d).map (·.alias) = s.map (·.alias) := by
  unfold setDefL
  rw [List.map_map]
  apply List.map_congr_left
  intro x _
  simp only [Function.comp]
  split <;> rfl

theorem Inv.setDef {st : St} (h : Inv st) (u : Nat) (d : Def) :
    Inv (step false st (.schema (.setDef u d))) := by
  cases hat : st.sch.at u with
  | none =>
    have e : step false st (.schema (.setDef u d)) = st := by
      unfold step; simp only; rw [hat]
    rw [e]; exact h
  | some c =>
    by_cases hne : d = c.defn
    · have e : step false st (.schema (.setDef u d)) = st := by
        unfold step; simp only; rw [hat]; simp only; rw [if_pos hne]
      rw [e]; exact h
    · obtain ⟨hc, hcu⟩ := mem_of_at hat
      have hn := h.wf.base.nodup
      have e : step false st (.schema (.setDef u d)) =
          St.resetDependants (St.resetBoth { st with sch := Schema.step false st.sch (.setDef u d) } u) u := by
        unfold step; simp only; rw [hat]; simp only
        rw [if_neg hne, ← hcu, if_pos (realChange_true hn hc hne)]
        simp only [Bool.false_eq_true, if_false]
      rw [e]
      have hwf' : Schema.WF (Schema.step false st.sch (.setDef u d)) := h.wf.setDef u d
      have hst := setDef_spec h.wf hat hne
      generalize Schema.step false st.sch (.setDef u d) = sch' at hwf' hst ⊢
      generalize hst2 : St.resetBoth { st with sch := sch' } u = st2
      have hs2 : st2.sch = sch' := by rw [← hst2]; exact resetBoth_sch _ _
      have hwf2 : Schema.WF st2.sch := by rw [hs2]; exact hwf'
      have hn' : (uids sch'.store).Nodup := hwf'.base.nodup
      have hu' : u ∈ uids st2.sch.store := by
        rw [hs2, hst, uids_setDefL]; exact mem_uids.2 ⟨c, hc, hcu⟩
      have hk1 : ∀ w, st2.kindOf w = ({ st with sch := sch' } : St).kindOf w :=
        fun w => kindOf_congr (by rw [hs2]) w
      have hd2ne : ∀ w, w ≠ u → st2.dataFor w = st.dataFor w := by
        intro w hw
        rw [← hst2, dataFor_resetBoth, dataFor_resetFor_ne _ hw]
        rfl
      obtain ⟨r1, r2⟩ := resetDependants_spec hwf2 hu'
      have hsch : (st2.resetDependants u).sch = sch' := r1.trans hs2
      refine ⟨by rw [hsch]; exact hwf', ?_, ?_⟩
      · rw [hsch]
        show (sch'.store.map (·.alias)).Nodup
        rw [hst, aliases_setDefL]
        exact h.dist
      · intro w v hkw hvw
        have hkw2 : st2.kindOf w = some .term := by
          rw [← kindOf_congr (st := st2) (st' := st2.resetDependants u) (by rw [r1])]; exact hkw
        by_cases hwu : w = u
        · subst hwu
          have : st2.dataFor w = none := by
            rw [← hst2, dataFor_resetBoth]
            exact dataFor_resetFor_term _ (by rw [← hk1]; exact hkw2)
          rw [(r2 w).2 (fun h' => h'.2.1 rfl), this] at hvw
          cases hvw
        · by_cases hr : Reach (Graph.edges st2.sch.graph) u w
          · rw [(r2 w).1 ⟨hr, hwu, hkw2⟩] at hvw
            cases hvw
          · rw [(r2 w).2 (fun h' => hr h'.1), hd2ne w hwu] at hvw
            obtain ⟨c1, _, hc1, hc1u, hc1k⟩ := kindOf_eq_some hkw2
            rw [hs2, hst] at hc1
            have hc1' : c1 ∈ st.sch.store := mem_of_mem_setDefL hc1 (by rw [hc1u]; exact hwu)
            have hkw0 : st.kindOf w = some .term := by
              rw [← hc1u, kindOf_of_mem hn hc1', hc1k]
            obtain ⟨t, ht⟩ := h.val w v hkw0 hvw
            rw [hsch, hst]
            have hself : Reach (Graph.edges st2.sch.graph) u u := Reach.refl _
            refine ⟨t, TV.transfer_id (fun x => ¬ Reach (Graph.edges st2.sch.graph) u x) ?_ ?_ ?_ ht hr⟩
            · intro c2 hc2 hq
              exact mem_setDefL_of_ne hc2 (fun e2 => hq (e2 ▸ hself))
            · intro c2 hc2 hq m hm w' hw'
              have hc2' : c2 ∈ st2.sch.store := by
                rw [hs2, hst]; exact mem_setDefL_of_ne hc2 (fun e2 => hq (e2 ▸ hself))
              have hw2 : findAliasL st2.sch.store m = some w' := by
                rw [hs2, hst, findAliasL_setDefL]; exact hw'
              refine ⟨by rw [findAliasL_setDefL]; exact hw', notReach_closed hwf2 hc2' hq hm hw2⟩
            · intro c2 hc2 hq hkb
              have hne2 : c2.uid ≠ u := fun e2 => hq (e2 ▸ hself)
              have hc2' : c2 ∈ st2.sch.store := by
                rw [hs2, hst]; exact mem_setDefL_of_ne hc2 hne2
              rw [(r2 c2.uid).2 ?_, hd2ne _ hne2]
              rintro ⟨_, _, hk3⟩
              rw [kindOf_of_mem (by rw [hs2]; exact hn') hc2', hkb] at hk3
              cases hk3

/-! ### `setAlias`, `substitute` -/

def renCst (f : String → Option String) (x : Cst) : Cst := { x with defn := renameDef f x.defn }

theorem translate_fold_store (f : String → Option String) (l : List Cst) : ∀ s0 : Schema.St,
    s0.invalid = true → (uids l).Nodup →
    (l.foldl (fun (s : Schema.St) (c : Cst) =>
        St.graphUpdateFor { s with store := s.store.map (fun (x : Cst) =>
          if x.uid == c.uid then { x with defn := renameDef f x.defn } else x) } c.uid) s0).store =
      s0.store.map (fun x => if x.uid ∈ uids l then renCst f x else x) := by
  induction l with
  | nil =>
    intro s0 _ _
    simp [uids]
  | cons c l ih =>
    intro s0 hv hn
    simp only [uids, List.map_cons, List.nodup_cons] at hn
    rw [List.foldl_cons, graphUpdateFor_invalid (by exact hv)]
    rw [ih _ (by exact hv) hn.2]
    simp only
    rw [List.map_map]
    apply List.map_congr_left
    intro x _
    simp only [Function.comp]
    by_cases hx : x.uid = c.uid
    · have h1 : (x.uid == c.uid) = true := by simpa using hx
      simp only [h1, if_true]
      have h2 : x.uid ∉ uids l := by rw [hx]; exact hn.1
      have h3 : x.uid ∈ uids (c :: l) := by simp [uids, hx]
      rw [if_neg h2, if_pos h3]
      rfl
    · have h1 : (x.uid == c.uid) = false := by simpa using hx
      simp only [h1, Bool.false_eq_true, if_false]
      by_cases h2 : x.uid ∈ uids l
      · rw [if_pos h2, if_pos (by simp only [uids, List.map_cons]; exact List.mem_cons_of_mem _ h2)]
      · rw [if_neg h2, if_neg]
        simp only [uids, List.map_cons, List.mem_cons, not_or]
        exact ⟨hx, h2⟩

theorem translateAll_store {st : Schema.St} (hb : Base st) (hv : st.invalid = true)
    (f : String → Option String) : (st.translateAll f).store = st.store.map (renCst f) := by
  unfold St.translateAll
  simp only
  have := fold_preserve (fun (s : Schema.St) (c : Cst) =>
      St.graphUpdateFor { s with store := s.store.map (fun (x : Cst) =>
        if x.uid == c.uid then { x with defn := renameDef f x.defn } else x) } c.uid)
    (by
      intro s c hs
      rw [graphUpdateFor_invalid (by exact hs)]
      refine ⟨uids_map_pres _ (fun x => ?_) _, rfl, hs⟩
      split <;> rfl) st.store st hv
  obtain ⟨r1, r2, r3⟩ := this
  rw [(updateState_spec (hb.of_eq r1 r2) (Or.inl r3)).2, translate_fold_store f st.store st hv hb.nodup]
  apply List.map_congr_left
  intro x hx
  rw [if_pos (mem_uids.2 ⟨x, hx, rfl⟩)]

/-- a schema-level step that renames aliases and mentions by `g`, keeping the resolution of the
mentions (aliases are pairwise distinct afterwards) -/
theorem Inv.rename {st : St} (h : Inv st) {sch' : Schema.St} (hwf : Schema.WF sch')
    (hd : AliasesDistinct sch') (g : String → String) (A : Cst → Cst)
    (hstore : sch'.store = st.sch.store.map A)
    (hA : ∀ c ∈ st.sch.store, (A c).uid = c.uid ∧ (A c).kind = c.kind ∧ (A c).alias = g c.alias ∧
      (c.defn = .empty → (A c).defn = .empty) ∧ (∀ l, c.defn = .union l → (A c).defn = .union (l.map g))) :
    Inv { st with sch := sch' } := by
  refine ⟨hwf, hd, ?_⟩
  intro w v hkw hvw
  obtain ⟨c', _, hc', hc'u, hc'k⟩ := kindOf_eq_some hkw
  have hc'' : c' ∈ st.sch.store.map A := by rw [← hstore]; exact hc'
  obtain ⟨c, hc, hAc⟩ := List.mem_map.1 hc''
  obtain ⟨a1, a2, _, _, _⟩ := hA c hc
  have hkw0 : st.kindOf w = some .term := by
    rw [← hc'u, ← hAc, a1, kindOf_of_mem h.wf.base.nodup hc, ← a2, hAc, hc'k]
  obtain ⟨t, ht⟩ := h.val w v hkw0 hvw
  refine ⟨g t, TV.transfer g (fun _ => True) ?_ ?_ (fun _ _ _ _ => rfl) ht trivial⟩
  · intro c1 hc1 _
    exact ⟨A c1, by rw [show ({ st with sch := sch' } : St).sch.store = sch'.store from rfl, hstore];
                    exact List.mem_map.2 ⟨c1, hc1, rfl⟩, hA c1 hc1⟩
  · intro c1 _ _ m _ w' hw'
    obtain ⟨c3, hc3, hc3u, hc3a⟩ := findAliasL_mem hw'
    obtain ⟨b1, _, b3, _, _⟩ := hA c3 hc3
    have hmem3 : A c3 ∈ sch'.store := by rw [hstore]; exact List.mem_map.2 ⟨c3, hc3, rfl⟩
    have := findAliasL_of_distinct hd hmem3
    rw [b3, b1, hc3a, hc3u] at this
    exact ⟨this, trivial⟩

theorem step_schema_setAlias_true (st : St) (u : Nat) (a : String) :
    step false st (.schema (.setAlias u a true)) =
      { st with sch := Schema.step false st.sch (.setAlias u a true) } := rfl

theorem step_schema_substitute (st : St) (m : List (String × String)) :
    step false st (.schema (.substitute m)) =
      { st with sch := Schema.step false st.sch (.substitute m) } := rfl

def setAl (u : Nat) (a : String) (x : Cst) : Cst := if x.uid == u then { x with alias := a } else x

theorem setAlias_spec {sch : Schema.St} (h : Schema.WF sch) {u : Nat} {a : String} (sb : Bool) {c : Cst}
    (hat : sch.at u = some c) (hne : ¬ c.alias = a) :
    (Schema.step false sch (.setAlias u a sb)).store =
      if sb then (sch.store.map (setAl u a)).map (renCst (fun n => if n == c.alias then some a else none))
      else sch.store.map (setAl u a) := by
  have hb : Base ({ sch with invalid := true, store := sch.store.map (fun (x : Cst) =>
      if x.uid == u then { x with alias := a } else x) } : Schema.St) :=
    h.base.of_eq (uids_map_pres _ (fun x => by split <;> rfl) _) rfl
  unfold Schema.step
  simp only
  rw [hat]
  simp only
  rw [if_neg hne]
  cases sb with
  | true =>
    simp only [if_true]
    rw [translateAll_store hb rfl]
    rfl
  | false =>
    simp only [Bool.false_eq_true, if_false]
    rw [(updateState_spec hb (Or.inl rfl)).2]
    rfl

theorem setAl_facts {s : List Cst} (hn : (uids s).Nodup) (hdist : (s.map (·.alias)).Nodup) {c : Cst}
    (hc : c ∈ s) {u : Nat} (hcu : c.uid = u) (a : String) :
    ∀ c1 ∈ s, (setAl u a c1).uid = c1.uid ∧ (setAl u a c1).kind = c1.kind ∧
      (setAl u a c1).defn = c1.defn ∧
      (setAl u a c1).alias = (fun n => if n == c.alias then a else n) c1.alias ∧
      (c1.uid ≠ u → setAl u a c1 = c1) := by
  intro c1 hc1
  unfold setAl
  by_cases h1 : c1.uid = u
  · have h1' : (c1.uid == u) = true := by simpa using h1
    have : c1 = c := eq_of_uid_eq hn hc1 hc (h1.trans hcu.symm)
    subst this
    rw [if_pos h1']
    simp [h1]
  · have h1' : (c1.uid == u) = false := by simpa using h1
    have hna : c1.alias ≠ c.alias := by
      intro e1
      exact h1 (by rw [eq_of_alias_eq hdist hc1 hc e1]; exact hcu)
    rw [if_neg (by simp [h1'])]
    simp [hna]

theorem Inv.setAliasTrue {st : St} (h : Inv st) (u : Nat) (a : String)
    (hd : AliasesDistinct (step false st (.schema (.setAlias u a true))).sch) :
    Inv (step false st (.schema (.setAlias u a true))) := by
  rw [step_schema_setAlias_true] at hd ⊢
  have hwf' : Schema.WF (Schema.step false st.sch (.setAlias u a true)) := h.wf.setAlias u a true
  cases hat : st.sch.at u with
  | none =>
    have e : Schema.step false st.sch (.setAlias u a true) = st.sch := by
      unfold Schema.step; simp only; rw [hat]
    rw [e]; exact h
  | some c =>
    by_cases hne : c.alias = a
    · have e : Schema.step false st.sch (.setAlias u a true) = st.sch := by
        unfold Schema.step; simp only; rw [hat]; simp only; rw [if_pos hne]
      rw [e]; exact h
    · have hst := setAlias_spec h.wf true hat hne
      obtain ⟨hc, hcu⟩ := mem_of_at hat
      have hn := h.wf.base.nodup
      generalize Schema.step false st.sch (.setAlias u a true) = sch' at hd hwf' hst ⊢
      have hd0 : AliasesDistinct sch' := hd
      have hal := setAl_facts hn h.dist hc hcu a
      simp only [if_true] at hst
      rw [List.map_map] at hst
      refine h.rename hwf' hd0 (fun n => if n == c.alias then a else n) _ hst ?_
      intro c1 hc1
      obtain ⟨b1, b2, b3, b4, _⟩ := hal c1 hc1
      refine ⟨b1, b2, b4, ?_, ?_⟩
      · intro he
        show renameDef _ (setAl u a c1).defn = _
        rw [b3, he]; rfl
      · intro l hl
        show renameDef _ (setAl u a c1).defn = _
        rw [b3, hl]
        show Def.union _ = _
        congr 1
        apply List.map_congr_left
        intro n _
        by_cases hn1 : n = c.alias <;> simp [hn1]

/-- `SetAliasFor(u, a, substitute = false)` as repaired: the dependants of `u`, collected before the
rename, are reset; what does not depend on `u` does not mention the old alias, and nothing that
has a value mentions the new one -/
theorem Inv.setAliasFalse {st : St} (h : Inv st) (u : Nat) (a : String)
    (hd : AliasesDistinct (step false st (.schema (.setAlias u a false))).sch) :
    Inv (step false st (.schema (.setAlias u a false))) := by
  have hwf' : Schema.WF (Schema.step false st.sch (.setAlias u a false)) := h.wf.setAlias u a false
  have hn := h.wf.base.nodup
  cases hat : st.sch.at u with
  | none =>
    have hcont : st.sch.contains u = false := by unfold Schema.St.contains; rw [hat]; rfl
    have e : step false st (.schema (.setAlias u a false)) = st := by
      unfold step
      simp only [hcont, Bool.false_or, Bool.not_false, if_true]
      have e' : Schema.step false st.sch (.setAlias u a false) = st.sch := by
        unfold Schema.step; simp only; rw [hat]
      rw [e']
    rw [e]; exact h
  | some c =>
    have hcont : st.sch.contains u = true := by unfold Schema.St.contains; rw [hat]; rfl
    obtain ⟨hc, hcu⟩ := mem_of_at hat
    have hu : u ∈ uids st.sch.store := mem_uids.2 ⟨c, hc, hcu⟩
    by_cases hne : c.alias = a
    · have e : step false st (.schema (.setAlias u a false)) = st := by
        unfold step
        simp only [hcont, Bool.false_or, Bool.not_true, Bool.false_eq_true, if_false]
        rw [ensureGraph_valid h.wf.valid, hat]
        have e' : Schema.step false st.sch (.setAlias u a false) = st.sch := by
          unfold Schema.step; simp only; rw [hat]; simp only; rw [if_pos hne]
        simp only [Option.map_some, hne, beq_self_eq_true, if_true]
        rw [e']
      rw [e]; exact h
    · have e : step false st (.schema (.setAlias u a false)) =
          St.resetItems { st with sch := Schema.step false st.sch (.setAlias u a false) }
            (Graph.expandOutputs st.sch.graph [u]) u := by
        unfold step
        simp only [hcont, Bool.false_or, Bool.not_true, Bool.false_eq_true, if_false]
        rw [ensureGraph_valid h.wf.valid, hat]
        have : ((some c).map (·.alias) == some a) = false := by simpa using hne
        rw [this]
        simp only [Bool.false_eq_true, if_false]
      rw [e] at hd ⊢
      have hst := setAlias_spec h.wf false hat hne
      simp only [Bool.false_eq_true, if_false] at hst
      have hXm := mem_expansion h.wf.cur hu
      generalize Schema.step false st.sch (.setAlias u a false) = sch' at hd hwf' hst ⊢
      obtain ⟨r1, r2⟩ := resetItems_spec (Graph.expandOutputs st.sch.graph [u]) u ({ st with sch := sch' } : St)
      have hsch : (St.resetItems { st with sch := sch' } (Graph.expandOutputs st.sch.graph [u]) u).sch = sch' := r1
      have hd0 : (sch'.store.map (·.alias)).Nodup := by rw [hsch] at hd; exact hd
      have hn' : (uids sch'.store).Nodup := hwf'.base.nodup
      have hal := setAl_facts hn h.dist hc hcu a
      have hmem' : ∀ c1 ∈ st.sch.store, setAl u a c1 ∈ sch'.store := by
        intro c1 hc1
        rw [hst]; exact List.mem_map.2 ⟨c1, hc1, rfl⟩
      have hk1 : ∀ c1 ∈ st.sch.store, ({ st with sch := sch' } : St).kindOf c1.uid = some c1.kind := by
        intro c1 hc1
        obtain ⟨b1, b2, _⟩ := hal c1 hc1
        rw [← b1, kindOf_of_mem (st := { st with sch := sch' }) hn' (hmem' c1 hc1), b2]
      have hold : findAliasL st.sch.store c.alias = some u := by
        rw [findAliasL_of_distinct h.dist hc, hcu]
      -- the constituents that do not depend on `u`
      have hedge : ∀ c1 ∈ st.sch.store, ∀ m ∈ c1.defn.mentions, ∀ w', findAliasL st.sch.store m = some w' →
          (w', c1.uid) ∈ Graph.edges st.sch.graph := fun c1 hc1 m hm w' hw' =>
        (h.wf.cur.edges w' c1.uid).2 ⟨c1, hc1, rfl, mem_inputsOfL.2 ⟨m, hm, hw'⟩⟩
      have hnotold : ∀ c1 ∈ st.sch.store, ¬ ReachPlus (Graph.edges st.sch.graph) u c1.uid →
          ∀ m ∈ c1.defn.mentions, m ≠ c.alias := by
        intro c1 hc1 hq m hm e1
        apply hq
        exact ⟨c1.uid, hedge c1 hc1 m hm u (by rw [e1]; exact hold), Reach.refl _⟩
      refine ⟨by rw [hsch]; exact hwf', hd, ?_⟩
      intro w v hkw hvw
      have hkw1 : ({ st with sch := sch' } : St).kindOf w = some .term := by
        rw [← kindOf_congr (st := { st with sch := sch' })
          (st' := St.resetItems { st with sch := sch' } (Graph.expandOutputs st.sch.graph [u]) u)
          (by rw [r1])]
        exact hkw
      obtain ⟨c', _, hc', hc'u, hc'k⟩ := kindOf_eq_some hkw1
      have hc'' : c' ∈ st.sch.store.map (setAl u a) := by rw [← hst]; exact hc'
      obtain ⟨c0, hc0, hAc⟩ := List.mem_map.1 hc''
      obtain ⟨a1, a2, _⟩ := hal c0 hc0
      have hkw0 : st.kindOf w = some .term := by
        rw [← hc'u, ← hAc, a1, kindOf_of_mem hn hc0, ← a2, hAc, hc'k]
      have hdata : st.dataFor w = some v := by
        by_cases hX : w ∈ Graph.expandOutputs st.sch.graph [u] ∧ w ≠ u
        · rw [(r2 w).1 ⟨hX.1, hX.2, hkw1⟩] at hvw
          cases hvw
        · rw [(r2 w).2 (fun h' => hX ⟨h'.1, h'.2.1⟩)] at hvw
          exact hvw
      obtain ⟨t, ht⟩ := h.val w v hkw0 hdata
      have hq : ¬ ReachPlus (Graph.edges st.sch.graph) u w := by
        by_cases hwu : w = u
        · rw [hwu]
          have := ht.typed
          rw [hwu] at this
          exact this.acyclic h.wf.cur hn u (Reach.refl _)
        · intro hp
          by_cases hX : w ∈ Graph.expandOutputs st.sch.graph [u]
          · rw [(r2 w).1 ⟨hX, hwu, hkw1⟩] at hvw
            cases hvw
          · exact hX ((hXm w).2 hp.reach)
      rw [hsch]
      refine ⟨(fun n => if n == c.alias then a else n) t,
        TV.transfer (fun n => if n == c.alias then a else n)
          (fun x => ¬ ReachPlus (Graph.edges st.sch.graph) u x) ?_ ?_ ?_ ht hq⟩
      · intro c1 hc1 hq1
        obtain ⟨b1, b2, b3, b4, _⟩ := hal c1 hc1
        refine ⟨setAl u a c1, hmem' c1 hc1, b1, b2, b4, fun he => by rw [b3, he], ?_⟩
        intro l hl
        rw [b3, hl]
        congr 1
        have : ∀ n ∈ l, (fun n => if n == c.alias then a else n) n = n := by
          intro n hn1
          have : n ≠ c.alias := hnotold c1 hc1 hq1 n (by rw [hl]; exact hn1)
          simp [this]
        rw [List.map_congr_left this, List.map_id']
      · intro c1 hc1 hq1 m hm w' hw'
        have he := hedge c1 hc1 m hm w' hw'
        have hmne : m ≠ c.alias := hnotold c1 hc1 hq1 m hm
        have hw'u : w' ≠ u := by
          intro e1
          apply hq1
          exact ⟨c1.uid, e1 ▸ he, Reach.refl _⟩
        obtain ⟨c3, hc3, hc3u, hc3a⟩ := findAliasL_mem hw'
        obtain ⟨_, _, _, _, b5⟩ := hal c3 hc3
        have hc3' : c3 ∈ sch'.store := by
          have := hmem' c3 hc3
          rw [b5 (by rw [hc3u]; exact hw'u)] at this
          exact this
        have hres := findAliasL_of_distinct hd0 hc3'
        rw [hc3a, hc3u] at hres
        refine ⟨by simp only [beq_iff_eq, hmne, if_false]; exact hres, ?_⟩
        rintro ⟨b, hb, hr⟩
        exact hq1 ⟨b, hb, hr.tail he⟩
      · intro c1 hc1 _ hkb
        have hnot : ¬ (c1.uid ∈ Graph.expandOutputs st.sch.graph [u] ∧ c1.uid ≠ u ∧
            ({ st with sch := sch' } : St).kindOf c1.uid = some .term) := by
          rintro ⟨_, _, hk3⟩
          rw [hk1 c1 hc1, hkb] at hk3
          cases hk3
        rw [(r2 c1.uid).2 hnot]
        rfl

theorem Inv.substitute {st : St} (h : Inv st) (m : List (String × String))
    (hd : AliasesDistinct (step false st (.schema (.substitute m))).sch) :
    Inv (step false st (.schema (.substitute m))) := by
  rw [step_schema_substitute] at hd ⊢
  have hwf' : Schema.WF (Schema.step false st.sch (.substitute m)) := h.wf.substitute m
  have hb : Base ({ st.sch with invalid := true, store := st.sch.store.map (fun (x : Cst) =>
      { x with alias := (lookup m x.alias).getD x.alias }) } : Schema.St) :=
    h.wf.base.of_eq (uids_map_pres (fun (x : Cst) =>
      { x with alias := (lookup m x.alias).getD x.alias }) (fun x => rfl) st.sch.store) rfl
  have hst : (Schema.step false st.sch (.substitute m)).store =
      (st.sch.store.map (fun (x : Cst) => { x with alias := (lookup m x.alias).getD x.alias })).map
        (renCst (lookup m)) := by
    unfold Schema.step
    simp only
    rw [translateAll_store hb rfl]
  generalize Schema.step false st.sch (.substitute m) = sch' at hd hwf' hst ⊢
  rw [List.map_map] at hst
  refine h.rename hwf' hd (fun n => (lookup m n).getD n) _ hst ?_
  intro c1 _
  refine ⟨rfl, rfl, rfl, ?_, ?_⟩
  · intro he
    show renameDef _ c1.defn = _
    rw [he]; rfl
  · intro l hl
    show renameDef _ c1.defn = _
    rw [hl]; rfl

/-! ## §8 `recomputed` computes the intended values -/

theorem foldl_union_congr (f g : Nat → Data) (l : List Nat) (h : ∀ w ∈ l, f w = g w) :
    ∀ acc : Data, l.foldl (fun acc w => unionData acc (f w)) acc =
      l.foldl (fun acc w => unionData acc (g w)) acc := by
  induction l with
  | nil => intro _; rfl
  | cons x xs ih =>
    intro acc
    rw [List.foldl_cons, List.foldl_cons, h x (by simp)]
    exact ih (fun w hw => h w (List.mem_cons_of_mem _ hw)) _

/-- one step of the loop of `RecalculateAll`: if the values of everything in `P` are the intended
ones and the typed dependencies of `b` are in `P`, then afterwards the same holds for `P ∪ {b}` -/
theorem calc_step {s : St} (hwf : Schema.WF s.sch) (dat0 : Nat → Option Data) (P : Nat → Prop) (b : Nat)
    (hB : ∀ c ∈ s.sch.store, c.kind = .base → s.dataFor c.uid = dat0 c.uid)
    (hJ : ∀ w t v, P w → TV s.sch.store dat0 w t v → s.dataFor w = some v)
    (hD : DepsIn s.sch.store P b) :
    (if s.kindOf b == some .term then (s.calculateInternal b).1 else s).sch = s.sch ∧
    (∀ c ∈ s.sch.store, c.kind = .base →
      (if s.kindOf b == some .term then (s.calculateInternal b).1 else s).dataFor c.uid = dat0 c.uid) ∧
    (∀ w t v, (P w ∨ w = b) → TV s.sch.store dat0 w t v →
      (if s.kindOf b == some .term then (s.calculateInternal b).1 else s).dataFor w = some v) := by
  have hn := hwf.base.nodup
  by_cases hk : s.kindOf b = some .term
  · have hk' : (s.kindOf b == some .term) = true := by simpa using hk
    simp only [hk', if_true]
    refine ⟨calculateInternal_sch s b, ?_, ?_⟩
    · intro c hc hkb
      rw [calculateInternal_ne s (ne_of_kinds hn hc hkb hk)]
      exact hB c hc hkb
    · intro w t v hw htv
      by_cases hwb : w = b
      · subst hwb
        obtain ⟨cb, hat, hcb, hcbu, hcbk⟩ := kindOf_eq_some hk
        subst hcbu
        rcases TV.inv hn hcb htv with ⟨hk1, _⟩ | ⟨_, n, ns, f, hd, hm, hv⟩
        · rw [hcbk] at hk1; cases hk1
        · have hment : cb.defn.mentions = n :: ns := by rw [hd]; rfl
          have hdata : ∀ m ∈ n :: ns, ∀ w', findAliasL s.sch.store m = some w' →
              s.dataFor w' = some (f w') := by
            intro m hm' w' hw'
            obtain ⟨w2, hw2, htw2⟩ := hm m hm'
            rw [hw'] at hw2
            have e : w' = w2 := Option.some.inj hw2
            subst e
            exact hJ w' t (f w') (hD cb hcb rfl m (by rw [hment]; exact hm') w' hw' ⟨t, htw2.typed⟩) htw2
          have hs : ∀ m ∈ n :: ns, (s.sch.findAlias m).isSome := by
            intro m hm'
            obtain ⟨w2, hw2, _⟩ := hm m hm'
            rw [findAlias_eq, hw2]; rfl
          have hall : (valsOf s cb).all Option.isSome = true := by
            unfold valsOf
            rw [hment]
            apply List.all_eq_true.2
            intro x hx
            obtain ⟨m, hm', rfl⟩ := List.mem_map.1 hx
            obtain ⟨w2, hw2, _⟩ := hm m hm'
            rw [findAlias_eq, hw2, Option.bind_some, hdata m hm' w2 hw2]
            rfl
          have hver : ((s.sch.infoFor cb.uid).status != .verified) = false := by
            rw [typed_verified hwf htv.typed]; rfl
          rw [calculateInternal_eq hat, hver]
          simp only [Bool.false_eq_true, if_false]
          rw [if_pos hall]
          show ((markCalc s cb.uid).setData cb.uid (valOf s cb)).dataFor cb.uid = some v
          rw [dataFor_setData_self, hv]
          congr 1
          unfold valOf valsOf
          rw [hment, fold_vals s.sch.findAlias s.dataFor (n :: ns) [] hs]
          unfold evalU
          apply foldl_union_congr
          intro w' hw'
          obtain ⟨m, hm', hmw⟩ := List.mem_filterMap.1 hw'
          rw [hdata m hm' w' hmw]
          rfl
      · rw [calculateInternal_ne s hwb]
        rcases hw with hw | hw
        · exact hJ w t v hw htv
        · exact absurd hw hwb
  · have hk' : (s.kindOf b == some .term) = false := by simpa using hk
    simp only [hk', Bool.false_eq_true, if_false]
    refine ⟨trivial, hB, ?_⟩
    intro w t v hw htv
    rcases hw with hw | hw
    · exact hJ w t v hw htv
    · subst hw
      obtain ⟨cb, hcb, hcbu⟩ := mem_uids.1 htv.typed.mem
      subst hcbu
      rcases TV.inv hn hcb htv with ⟨hk1, _, _, hdv⟩ | ⟨hk1, _⟩
      · rw [hB cb hcb hk1]; exact hdv
      · exact absurd (by rw [kindOf_of_mem hn hcb, hk1]) hk

theorem calc_fold {sch : Schema.St} (hwf : Schema.WF sch) (dat0 : Nat → Option Data) (L : List Nat) :
    ∀ (s : St) (P : Nat → Prop), s.sch = sch → OrderOk sch.store P L →
    (∀ c ∈ sch.store, c.kind = .base → s.dataFor c.uid = dat0 c.uid) →
    (∀ w t v, P w → TV sch.store dat0 w t v → s.dataFor w = some v) →
    ∀ w t v, (P w ∨ w ∈ L) → TV sch.store dat0 w t v →
      (L.foldl (fun s u => if s.kindOf u == some .term then (s.calculateInternal u).1 else s) s).dataFor w
        = some v := by
  induction L with
  | nil =>
    intro s P _ _ _ hJ w t v hw htv
    rcases hw with hw | hw
    · exact hJ w t v hw htv
    · cases hw
  | cons b q ih =>
    intro s P hs hO hB hJ w t v hw htv
    subst hs
    obtain ⟨hD, hO'⟩ := hO
    obtain ⟨s1, s2, s3⟩ := calc_step hwf dat0 P b hB hJ hD
    rw [List.foldl_cons]
    refine ih _ (fun x => P x ∨ x = b) s1 hO' s2 s3 w t v ?_ htv
    rcases hw with hw | hw
    · exact Or.inl (Or.inl hw)
    · rcases List.mem_cons.1 hw with hw | hw
      · exact Or.inl (Or.inr hw)
      · exact Or.inr hw

/-- `RecalculateAll` stores the intended value of every constituent that has one -/
theorem recalc_computes {st : St} (hwf : Schema.WF st.sch) {u : Nat} {t : String} {v : Data}
    (h : TV st.sch.store st.dataFor u t v) : st.recalculateAll.dataFor u = some v := by
  have hn := hwf.base.nodup
  unfold St.recalculateAll
  simp only
  rw [ensureGraph_valid hwf.valid]
  have h2 := foldl_inv (fun s : St => s.sch = st.sch ∧
      ∀ c ∈ st.sch.store, c.kind = .base → s.dataFor c.uid = st.dataFor c.uid)
    (fun s c => if c.kind == .term then s.resetFor c.uid else s) st.sch.store
    (by
      intro s c hc ⟨hs, hb⟩
      split
      · next hk =>
        refine ⟨(resetFor_sch s c.uid).trans hs, fun c' hc' hk' => ?_⟩
        have hne : c'.uid ≠ c.uid := by
          intro e
          rw [eq_of_uid_eq hn hc' hc e] at hk'
          rw [hk'] at hk
          cases hk
        rw [dataFor_resetFor_ne s hne]
        exact hb c' hc' hk'
      · exact ⟨hs, hb⟩) ({ st with sch := st.sch, calcd := [] } : St) ⟨rfl, fun _ _ _ => rfl⟩
  obtain ⟨hs2, hb2⟩ := h2
  refine calc_fold hwf st.dataFor (topologicalOrder st.sch.graph) _ (fun _ => False) hs2
    (orderOk_topo hn hwf.cur) hb2 (fun _ _ _ hf _ => hf.elim) u t v (Or.inr ?_) h
  exact (mem_topologicalOrder hwf.cur.inv u).2 ((hwf.cur.live u).2 h.typed.mem)

/-- every value stored for a term is the value a full recalculation assigns -/
theorem Inv.recomputed_eq {st : St} (h : Inv st) {u : Nat} {v : Data} (hk : st.kindOf u = some .term)
    (hv : st.dataFor u = some v) : st.recomputed.dataFor u = some v := by
  obtain ⟨t, ht⟩ := h.val u v hk hv
  obtain ⟨hwfs, hss⟩ := h.wf.scratch
  unfold St.recomputed
  apply recalc_computes (st := { st with sch := st.sch.scratch }) hwfs (t := t)
  show TV st.sch.scratch.store st.dataFor u t v
  rw [hss]
  exact ht

theorem Inv.fresh {st : St} (h : Inv st) : st.fresh = true := by
  unfold St.fresh
  apply List.all_eq_true.2
  intro c hc
  split
  · next hcond =>
    simp only [Bool.and_eq_true, beq_iff_eq] at hcond
    split
    · next v hv =>
      rw [h.recomputed_eq (by rw [kindOf_of_mem h.wf.base.nodup hc, hcond.1]) hv]
      simp
    · rfl
  · rfl

/-! ## §9 histories -/

/-- admissible operation in a state: no `load`; after `insert`, `setAlias`, `substitute` the aliases
are still pairwise distinct (the identity manager of `RSCore` issues unique aliases) -/
def Admissible (st : St) : Op → Prop
  | .schema (.load _) => False
  | .schema (.insert c) => AliasesDistinct (step false st (.schema (.insert c))).sch
  | .schema (.setAlias u a sb) => AliasesDistinct (step false st (.schema (.setAlias u a sb))).sch
  | .schema (.substitute m) => AliasesDistinct (step false st (.schema (.substitute m))).sch
  | _ => True

def AdmissibleFrom : St → List Op → Prop
  | _, [] => True
  | st, op :: ops => Admissible st op ∧ AdmissibleFrom (step false st op) ops

instance (st : St) (op : Op) : Decidable (Admissible st op) := by
  unfold Admissible
  split <;> infer_instance

instance : ∀ (ops : List Op) (st : St), Decidable (AdmissibleFrom st ops)
  | [], _ => isTrue trivial
  | op :: ops, st =>
    have := instDecidableAdmissibleFrom ops (step false st op)
    inferInstanceAs (Decidable (Admissible st op ∧ AdmissibleFrom (step false st op) ops))

theorem Inv.init : Inv ({} : St) := by
  refine ⟨WF_init, List.nodup_nil, ?_⟩
  intro u v hk _
  cases hk

theorem Inv.step {st : St} (h : Inv st) {op : Op} (ha : Admissible st op) : Inv (step false st op) := by
  cases op with
  | schema sop =>
    cases sop with
    | insert c => exact h.insert c ha
    | load c => exact ha.elim
    | updateState => exact h.updateState
    | erase u => exact h.erase u
    | setDef u d => exact h.setDef u d
    | setAlias u a sb =>
      cases sb with
      | true => exact h.setAliasTrue u a ha
      | false => exact h.setAliasFalse u a ha
    | substitute m => exact h.substitute m ha
  | addElem u => exact h.addElem u
  | setText u keys => exact h.setText u keys
  | resetData u => exact h.resetData u
  | calculate u => exact h.calculate u
  | recalculateAll => exact h.recalculateAll

theorem Inv.foldl (ops : List Op) : ∀ st : St, Inv st → AdmissibleFrom st ops →
    Inv (ops.foldl (RSModel.step false) st) := by
  induction ops with
  | nil => intro st h _; exact h
  | cons op ops ih =>
    intro st h ha
    rw [List.foldl_cons]
    exact ih _ (h.step ha.1) ha.2

theorem Inv.run {ops : List Op} (ha : AdmissibleFrom {} ops) : Inv (run false ops) :=
  Inv.foldl ops {} Inv.init ha

/-- histories without `load` along which aliases stay pairwise distinct (the discipline `RSCore`
enforces) are admissible -/
theorem admissibleFrom_of_distinct (ops : List Op) : ∀ st : St,
    (∀ op ∈ ops, ∀ c, op ≠ .schema (.load c)) →
    (∀ k, AliasesDistinct ((ops.take k).foldl (RSModel.step false) st).sch) → AdmissibleFrom st ops := by
  induction ops with
  | nil => intro _ _ _; trivial
  | cons op ops ih =>
    intro st hl hd
    have h1 : AliasesDistinct (RSModel.step false st op).sch := by
      have := hd 1
      rw [List.take_succ_cons, List.take_zero, List.foldl_cons, List.foldl_nil] at this
      exact this
    refine ⟨?_, ih _ (fun o ho => hl o (List.mem_cons_of_mem _ ho)) (fun k => ?_)⟩
    · cases op with
      | schema sop =>
        cases sop with
        | insert c => exact h1
        | load c => exact absurd rfl (hl _ (by simp) c)
        | updateState => trivial
        | erase u => trivial
        | setDef u d => trivial
        | setAlias u a sb => exact h1
        | substitute m => exact h1
      | addElem u => trivial
      | setText u keys => trivial
      | resetData u => trivial
      | calculate u => trivial
      | recalculateAll => trivial
    · have := hd (k + 1)
      rw [List.take_succ_cons, List.foldl_cons] at this
      exact this

end CCVerif.RSModel
