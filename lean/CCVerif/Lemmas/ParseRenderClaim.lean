import CCVerif.Lemmas.ParseRenderDef
/-!
Helper development for `parse_renders_parens` (C06), part A: the parser model maps the token sequence of every
well-formed rendering `R3` (`Lemmas/ParseRenderDef.lean`: the fragment `E3` with free redundant parentheses) back to its
raw tree (bracket nodes for required AND redundant pairs). The development of `Lemmas/ParsePrint3.lean` re-done over
`R3` (a new inductive type) with the one new case `par`; a parenthesised binary set phrase is one `primary` of kind
`setBin` (`PrimP` now speaks of the phrase's own kind), a parenthesised formula is a `logic_par` at the predicate level.
Result of this file: `claim` (all categories). Top level: `Lemmas/ParseRenderTop.lean`, against `E3`: `Lemmas/ParseRender.lean`.
-/
namespace CCVerif.PR
open CCVerif.Syntax CCVerif.Generated CCVerif.Lexer CCVerif.Parser CCVerif.Printer CCVerif.PP

/-! ## basic facts about `R3` -/

def R3.spine : R3 → Nat
  | .sbin op l _ => (if brSet op l.top .left then 1 else l.spine) + 1
  | .prod2 a _ => (if brProd true a.top then 1 else a.spine) + 1
  | .prodN p _ => p.spine + 1
  | .lbin op l _ => (if brLogic op l.top .left then 1 else l.spine) + 1
  | _ => 1

theorem spine_le_sz2 : ∀ e : R3, e.spine ≤ e.sz ∧ 4 ≤ e.sz
  | .atom .. => by simp only [R3.spine, R3.sz]; omega
  | .text _ _ a => by have := spine_le_sz2 a; simp only [R3.spine, R3.sz]; omega
  | .sbin op l r => by
    have := spine_le_sz2 l; have := spine_le_sz2 r
    simp only [R3.spine, R3.sz]; split <;> omega
  | .prod2 a b => by
    have := spine_le_sz2 a; have := spine_le_sz2 b
    simp only [R3.spine, R3.sz]; split <;> omega
  | .prodN p k => by
    have := spine_le_sz2 p; have := spine_le_sz2 k
    simp only [R3.spine, R3.sz]; omega
  | .pred _ l r => by have := spine_le_sz2 l; have := spine_le_sz2 r; simp only [R3.spine, R3.sz]; omega
  | .neg x => by have := spine_le_sz2 x; simp only [R3.spine, R3.sz]; omega
  | .lbin op l r => by
    have := spine_le_sz2 l; have := spine_le_sz2 r
    simp only [R3.spine, R3.sz]; split <;> omega
  | .pow a => by have := spine_le_sz2 a; simp only [R3.spine, R3.sz]; omega
  | .one a => by have := spine_le_sz2 a; simp only [R3.spine, R3.sz]; omega
  | .more a l => by have := spine_le_sz2 a; have := spine_le_sz2 l; simp only [R3.spine, R3.sz]; omega
  | .enum l => by have := spine_le_sz2 l; simp only [R3.spine, R3.sz]; omega
  | .tuple a l => by have := spine_le_sz2 a; have := spine_le_sz2 l; simp only [R3.spine, R3.sz]; omega
  | .fcall _ l => by have := spine_le_sz2 l; simp only [R3.spine, R3.sz]; omega
  | .pcall _ l => by have := spine_le_sz2 l; simp only [R3.spine, R3.sz]; omega
  | .filter _ ps a => by have := spine_le_sz2 ps; have := spine_le_sz2 a; simp only [R3.spine, R3.sz]; omega
  | .quant _ vs d b => by
    have := spine_le_sz2 vs; have := spine_le_sz2 d; have := spine_le_sz2 b; simp only [R3.spine, R3.sz]; omega
  | .decl v d b => by
    have := spine_le_sz2 v; have := spine_le_sz2 d; have := spine_le_sz2 b; simp only [R3.spine, R3.sz]; omega
  | .recS v d s => by
    have := spine_le_sz2 v; have := spine_le_sz2 d; have := spine_le_sz2 s; simp only [R3.spine, R3.sz]; omega
  | .recF v d c s => by
    have := spine_le_sz2 v; have := spine_le_sz2 d; have := spine_le_sz2 c; have := spine_le_sz2 s
    simp only [R3.spine, R3.sz]; omega
  | .imp v b => by have := spine_le_sz2 v; have := spine_le_sz2 b; simp only [R3.spine, R3.sz]; omega
  | .bone b => by have := spine_le_sz2 b; simp only [R3.spine, R3.sz]; omega
  | .boneK _ v s => by have := spine_le_sz2 v; have := spine_le_sz2 s; simp only [R3.spine, R3.sz]; omega
  | .bmore b l => by have := spine_le_sz2 b; have := spine_le_sz2 l; simp only [R3.spine, R3.sz]; omega
  | .bmoreK _ v s l => by
    have := spine_le_sz2 v; have := spine_le_sz2 s; have := spine_le_sz2 l; simp only [R3.spine, R3.sz]; omega
  | .par a => by have := spine_le_sz2 a; simp only [R3.spine, R3.sz]; omega

theorem raw_range2 (e : R3) : e.raw.lo = 0 ∧ e.raw.hi = 0 := by cases e <;> exact ⟨rfl, rfl⟩

theorem raw_id2 (e : R3) : e.raw.id = e.top := by cases e <;> rfl

theorem setRange_raw2 (e : R3) : setRange e.raw 0 0 = e.raw := by cases e <;> rfl

theorem raw_prod2 {p : R3} (h : p.isProd = true) : p.raw = .node .DECART .none 0 0 p.raw.kids := by
  cases p <;> simp [R3.isProd] at h <;> rfl

theorem ast_prod2 {p : R3} (h : p.isProd = true) : p.ast = .node .DECART .none 0 0 p.ast.kids := by
  cases p <;> simp [R3.isProd] at h <;> rfl

theorem kind_isSet2 {e : R3} (h : e.isS = true) : e.kind.isSet = true := by
  cases e <;> simp [R3.isS] at h <;> first | rfl | simp [R3.kind, h, K.isSet]

/-- no phrase is both a set expression and a formula -/
theorem isS_of_isL : ∀ {e : R3}, e.isL = true → e.isS = false
  | .par a, h => by simp only [R3.isL] at h; simp only [R3.isS]; exact isS_of_isL h
  | .atom .., h | .text .., h | .sbin .., h | .prod2 .., h | .prodN .., h | .pow _, h | .one _, h | .more .., h
  | .enum _, h | .tuple .., h | .fcall .., h | .filter .., h | .decl .., h | .recS .., h | .recF .., h | .imp .., h
  | .bone _, h | .boneK .., h | .bmore .., h | .bmoreK .., h => by simp [R3.isL] at h
  | .pred .., _ | .neg _, _ | .lbin .., _ | .pcall .., _ | .quant .., _ => rfl

theorem kind_par_S {a : R3} (h : a.isS = true) : (R3.par a).kind = .setBin := by simp [R3.kind, h]
theorem kind_par_L {a : R3} (h : a.isL = true) : (R3.par a).kind = .lpar := by simp [R3.kind, isS_of_isL h]

/-- a binary set phrase: its precedence, nonterminal and root -/
theorem bin_facts {c : R3} {cop : Tok} (h : c.binTop? = some cop) :
    c.low = prec cop ∧ c.kind = .setBin ∧ c.top = cop ∧ c.isS = true := by
  cases c <;> simp [R3.binTop?] at h <;> (subst h; exact ⟨rfl, rfl, rfl, rfl⟩)

/-- any other set phrase is a primary -/
theorem prim_facts {c : R3} (hS : c.isS = true) (h : c.binTop? = none) :
    c.low = 100 ∧ c.kind.isSet = true ∧ c.spine = 1 := by
  refine ⟨?_, kind_isSet2 hS, ?_⟩ <;> (cases c <;> simp [R3.binTop?] at h <;> simp [R3.isS] at hS <;> rfl)

theorem wrapRaw_range2 (b : Bool) (e : R3) : (wrapRaw b e.raw).lo = 0 ∧ (wrapRaw b e.raw).hi = 0 := by
  cases b
  · exact raw_range2 e
  · exact ⟨rfl, rfl⟩

theorem wrapKind_isSet2 (b : Bool) {c : R3} (hS : c.isS = true) (hb : b = true → c.kind = .setBin) :
    (wrapKind b c.kind).isSet = true := by
  cases b
  · exact kind_isSet2 hS
  · simp only [wrapKind, if_true]; rw [hb rfl]; rfl

/-! ## the claims -/

/-- the parse of a set phrase continues the precedence loop with the phrase as left operand -/
def SetContP2 (e : R3) : Prop :=
  ∀ (F m : Nat) (rest : Toks), 2 * e.sz ≤ F → m ≤ e.low → stopS (e.low + 1) rest →
    setE F m (e.toks ++ rest) = setLoop (F - e.spine) m e.kind e.raw rest

/-- a set phrase that is no binary operation is one `primary` -/
def PrimP (e : R3) : Prop :=
  ∀ (F : Nat) (rest : Toks), 2 * e.sz ≤ F + 1 → primary F (e.toks ++ rest) = some (e.kind, e.raw, rest)

/-- what may follow a list of phrases: no operator of `setexpr_binary`, no comma -/
def listStop (rest : Toks) : Prop :=
  ∀ t r, rest = t :: r → isSetOp t.id = false ∧ (t.id == .PUNC_COMMA) = false

/-- a list of set phrases is a `setexpr_enum`, and `, l` continues one -/
def ListP (l : R3) : Prop :=
  (∀ (F : Nat) (rest : Toks), 2 * l.sz + 4 ≤ F → listStop rest → enumE F (l.toks ++ rest) = some (l.raw.kids, rest)) ∧
  (∀ (F : Nat) (acc : List Ast) (rest : Toks), 2 * l.sz + 4 ≤ F → listStop rest →
    enumTail F acc (tk .PUNC_COMMA :: (l.toks ++ rest)) = some (acc ++ l.raw.kids, rest))

/-- a variable is a `variable` -/
def VarP (v : R3) : Prop :=
  ∀ (F : Nat) (rest : Toks), 2 * v.sz ≤ F → varE F (v.toks ++ rest) = some (v.dast, rest)

def noComma (rest : Toks) : Prop := ∀ t r, rest = t :: r → (t.id == .PUNC_COMMA) = false

/-- `, l` continues a `variable_pack` -/
def VTailP (l : R3) : Prop :=
  ∀ (F : Nat) (acc : List Ast) (rest : Toks), 2 * l.sz + 4 ≤ F → noComma rest →
    varPackTail F acc (tk .PUNC_COMMA :: (l.toks ++ rest)) = some (acc ++ l.dast.kids, rest)

/-- head and tail of a list of variables -/
def VListP : R3 → Prop
  | .one v => VarP v
  | .more v l => VarP v ∧ VTailP l
  | _ => True

/-- what may follow a formula of the fragment: nothing, `)`, `}` or a connective -/
def endOK2 (rest : Toks) : Prop :=
  ∀ t r, rest = t :: r → (t.id = .PUNC_PR ∨ t.id = .PUNC_CR ∨ t.id = .PUNC_BAR ∨ t.id = .PUNC_SEMICOLON ∨
    isLogicOp t.id = true)

/-- a formula that is not a binary connective, parsed at the predicate level -/
def NBP2 (x : R3) : Prop :=
  ∀ (F : Nat) (rest : Toks), 2 * x.sz ≤ F + 2 → endOK2 rest → predE F (x.toks ++ rest) = some (x.kind, x.raw, rest)

def LogContP2 (x : R3) : Prop :=
  ∀ (F m : Nat) (rest : Toks), 2 * x.sz ≤ F → m ≤ x.low → endOK2 rest → stopLg (x.low + 1) rest →
    logE F m (x.toks ++ rest) = logLoop (F - x.spine) m x.kind x.raw rest

/-! ## set level: generic steps -/

theorem setDone2 {e : R3} (h : SetContP2 e) (F m : Nat) (rest : Toks) (hF : 2 * e.sz ≤ F) (hm : m ≤ e.low)
    (hs : stopS m rest) : setE F m (e.toks ++ rest) = some (e.kind, e.raw, rest) := by
  rw [h F m rest hF hm (stopS_mono hs (by omega))]
  have := spine_le_sz2 e
  obtain ⟨g, hg⟩ : ∃ g, F - e.spine = g + 1 := ⟨F - e.spine - 1, by omega⟩
  rw [hg, setLoop_stop g m _ _ _ hs]

theorem setCont_of_prim {e : R3} (hS : e.isS = true) (hb : e.binTop? = none) (h : PrimP e) : SetContP2 e := by
  intro F m rest hF _ _
  obtain ⟨_, _, hsp⟩ := prim_facts hS hb
  have := spine_le_sz2 e
  obtain ⟨g, hg⟩ : ∃ g, F = g + 1 := ⟨F - 1, by omega⟩
  subst hg
  rw [setE_succ, h g rest (by omega), hsp]
  rfl

/-- a token that ends a set phrase and is no predicate, connective or assignment -/
def passTok (t : Tok) : Bool :=
  !isSetOp t && !isPredOp t && !(t == .ITERATE || t == .ASSIGN) && !isLogicOp t

theorem stopS_pass (m : Nat) (t : LTok) (rest : Toks) (h : passTok t.id = true) : stopS m (t :: rest) := by
  intro t' r e hs; cases e
  simp [passTok] at h; simp [h.1.1.1] at hs

/-- a set phrase followed by such a token passes unchanged through the predicate and the logic level -/
theorem logPassS2 {e : R3} (h : SetContP2 e) (t : LTok) (ht : passTok t.id = true) (F : Nat) (rest : Toks)
    (hF : 2 * e.sz + 4 ≤ F) :
    logE F 0 (e.toks ++ t :: rest) = some (e.kind, e.raw, t :: rest) := by
  obtain ⟨g, hg⟩ : ∃ g, F = g + 1 + 1 := ⟨F - 2, by omega⟩
  subst hg
  have h1 := setDone2 h g 0 (t :: rest) (by omega) (Nat.zero_le _) (stopS_pass 0 t rest ht)
  simp [passTok] at ht
  rw [logE_succ, predE_pass g _ _ _ _ _ h1 ht.1.1.2 (by simpa using ht.1.2)]
  exact logLoop_pass g 0 _ _ _ _ ht.2

/-- `( e )` around a binary set phrase is one primary -/
theorem primary_bracketS2 {e : R3} (h : SetContP2 e) (hk : e.kind = .setBin) (F : Nat) (rest : Toks)
    (hF : 2 * e.sz + 6 ≤ F) :
    primary F (tk .PUNC_PL :: (e.toks ++ [tk .PUNC_PR]) ++ rest) = some (.setBin, wrapRaw true e.raw, rest) := by
  obtain ⟨g, hg⟩ : ∃ g, F = g + 1 := ⟨F - 1, by omega⟩
  subst hg
  have : tk .PUNC_PL :: (e.toks ++ [tk .PUNC_PR]) ++ rest = tk .PUNC_PL :: (e.toks ++ tk .PUNC_PR :: rest) := by simp
  rw [this, primary_lp, logPassS2 h (tk .PUNC_PR) rfl g rest (by omega), hk]
  have e1 : (Tok.PUNC_PR == Tok.PUNC_PR) = true := rfl
  simp [tk, removeBrackets, wrapRaw, setRange_raw2, e1]

/-- an operand printed with or without brackets, parsed to the end as RIGHT operand at level `m'` -/
theorem wrapDone2 {c : R3} (hc : SetContP2 c) (b : Bool) (hb : b = true → c.kind = .setBin) (m' : Nat)
    (hlow : b = false → m' ≤ c.low) (G : Nat) (rest : Toks) (hG : 2 * c.sz + 8 ≤ G) (hs : stopS m' rest) :
    setE G m' (wrap b c.toks ++ rest) = some (wrapKind b c.kind, wrapRaw b c.raw, rest) := by
  cases b with
  | true =>
    have hk := hb rfl
    obtain ⟨g, hg⟩ : ∃ g, G = g + 1 + 1 := ⟨G - 2, by omega⟩
    subst hg
    simp only [wrap, if_true]
    rw [setE_succ, primary_bracketS2 hc hk (g + 1) rest (by omega)]
    show setLoop (g + 1) m' K.setBin (wrapRaw true c.raw) rest = _
    rw [setLoop_stop g _ _ _ _ hs, hk]
    rfl
  | false =>
    simp only [wrap, wrapKind, wrapRaw, Bool.false_eq_true, if_false]
    exact setDone2 hc G m' rest (by omega) (hlow rfl) hs

/-- the same as LEFT operand: the loop goes on -/
theorem wrapCont2 {c : R3} (hc : SetContP2 c) (b : Bool) (hb : b = true → c.kind = .setBin) (F m : Nat) (rest : Toks)
    (hF : 2 * c.sz + 8 ≤ F) (hlow : b = false → m ≤ c.low ∧ stopS (c.low + 1) rest) :
    setE F m (wrap b c.toks ++ rest) =
      setLoop (F - (if b then 1 else c.spine)) m (wrapKind b c.kind) (wrapRaw b c.raw) rest := by
  cases b with
  | true =>
    have hk := hb rfl
    obtain ⟨g, hg⟩ : ∃ g, F = g + 1 := ⟨F - 1, by omega⟩
    subst hg
    simp only [wrap, if_true]
    rw [setE_succ, primary_bracketS2 hc hk g rest (by omega), hk]
    rfl
  | false =>
    simp only [wrap, wrapKind, wrapRaw, Bool.false_eq_true, if_false]
    exact hc F m rest (by omega) (hlow rfl).1 (hlow rfl).2

/-- an unbracketed binary operand binds as tightly as the grammar needs -/
theorem low_of_okChildS2 {p : Tok} {c : R3} {side : Side} (hS : c.isS = true) (hp : prec p ≤ 10)
    (hok : okChildS2 p c side = true) (hb : brSet p c.top side = false) :
    (match side with | .left => prec p ≤ c.low | .right => prec p + 1 ≤ c.low) := by
  cases hbt : c.binTop? with
  | some cop =>
    obtain ⟨hl, _, ht, _⟩ := bin_facts hbt
    simp only [okChildS2, hbt] at hok
    rw [ht] at hb; rw [hb] at hok
    cases side <;> simp [condOK, hl] at hok ⊢ <;> omega
  | none =>
    have := (prim_facts hS hbt).1
    cases side <;> simp only [this] <;> omega

theorem kind_of_okChildS2 {p : Tok} {c : R3} {side : Side}
    (hok : okChildS2 p c side = true) (hb : brSet p c.top side = true) : c.kind = .setBin := by
  cases hbt : c.binTop? with
  | some cop => exact (bin_facts hbt).2.1
  | none => simp only [okChildS2, hbt, hb] at hok; cases hok

theorem low_of_okFactor2 {first : Bool} {c : R3} (hS : c.isS = true)
    (hok : okFactor2 first c = true) (hb : brProd first c.top = false) :
    (if first then prec .DECART ≤ c.low else prec .DECART + 1 ≤ c.low) := by
  have h10 := precOf_decart.2.1
  cases hbt : c.binTop? with
  | some cop =>
    obtain ⟨hl, _, ht, _⟩ := bin_facts hbt
    simp only [okFactor2, hbt] at hok
    rw [ht] at hb; rw [hb] at hok
    cases first <;> simp [condOK, hl] at hok ⊢ <;> omega
  | none =>
    have := (prim_facts hS hbt).1
    cases first <;> simp [this] <;> omega

theorem kind_of_okFactor2 {first : Bool} {c : R3}
    (hok : okFactor2 first c = true) (hb : brProd first c.top = true) : c.kind = .setBin := by
  cases hbt : c.binTop? with
  | some cop => exact (bin_facts hbt).2.1
  | none => simp only [okFactor2, hbt, hb] at hok; cases hok

/-! ## set level: the constructors of `E` -/

theorem prim_atom (id : Tok) (d : TokData) (hw : isAtomId id = true) : PrimP (.atom id d) := by
  intro F rest hF
  simp only [R3.sz] at hF
  obtain ⟨g, hg⟩ : ∃ g, F = g + 1 := ⟨F - 1, by omega⟩
  subst hg
  exact primary_atom g id d rest hw

theorem prim_text (f : Tok) (d : TokData) (a : R3) (hf : isTextFn f = true) (haS : a.isS = true)
    (iha : SetContP2 a) : PrimP (.text f d a) := by
  intro F rest hF
  simp only [R3.sz] at hF
  obtain ⟨g, hg⟩ : ∃ g, F = g + 1 := ⟨F - 1, by omega⟩
  subst hg
  have : (R3.text f d a).toks ++ rest = tk f d :: tk .PUNC_PL :: (a.toks ++ tk .PUNC_PR :: rest) := by
    simp [R3.toks]
  rw [this, primary_text g f d _ hf, setDone2 iha g 0 _ (by omega) (Nat.zero_le _) (stopS_rp 0 rest)]
  have e1 : (Tok.PUNC_PR == Tok.PUNC_PR) = true := rfl
  have hk := kind_isSet2 haS
  simp only [hk, tk, e1, Bool.and_self, if_true, textOperator]
  rfl

theorem set_sbin (op : Tok) (l r : R3) (hop : isSetOp7 op = true) (hlS : l.isS = true) (hrS : r.isS = true)
    (hokl : okChildS2 op l .left = true) (hokr : okChildS2 op r .right = true)
    (ihl : SetContP2 l) (ihr : SetContP2 r) : SetContP2 (.sbin op l r) := by
  intro F m rest hF hm hs
  obtain ⟨_, hisop, hnd, hp10⟩ := precOf_set7 op hop
  have szl := spine_le_sz2 l; have szr := spine_le_sz2 r
  simp only [R3.sz] at hF; simp only [R3.low] at hm hs
  have hbl : brSet op l.top .left = true → l.kind = .setBin := kind_of_okChildS2 hokl
  have hbr : brSet op r.top .right = true → r.kind = .setBin := kind_of_okChildS2 hokr
  have htoks : (R3.sbin op l r).toks ++ rest =
      wrap (brSet op l.top .left) l.toks ++ tk op :: (wrap (brSet op r.top .right) r.toks ++ rest) := by
    simp [R3.toks]
  rw [htoks, wrapCont2 ihl _ hbl F m _ (by omega) (fun hb => by
    have hl := low_of_okChildS2 hlS hp10 hokl hb
    refine ⟨by omega, ?_⟩
    intro t r' e _; cases e; show prec op < l.low + 1; omega)]
  have hsp : (if brSet op l.top .left then 1 else l.spine) ≤ l.sz := by split <;> omega
  obtain ⟨g, hg⟩ : ∃ g, F - (if brSet op l.top .left then 1 else l.spine) = g + 1 :=
    ⟨F - (if brSet op l.top .left then 1 else l.spine) - 1, by omega⟩
  rw [hg, setStep op hisop g m _ _ _ rest _ _ (wrapKind_isSet2 _ hlS hbl) hm
    (wrapDone2 ihr _ hbr (prec op + 1) (fun hb => low_of_okChildS2 hrS hp10 hokr hb) g rest (by omega) hs)
    (wrapKind_isSet2 _ hrS hbr)]
  have hlo := (wrapRaw_range2 (brSet op l.top .left) l).1
  have hhi := (wrapRaw_range2 (brSet op r.top .right) r).2
  have hg' : F - (R3.sbin op l r).spine = g := by simp only [R3.spine]; omega
  rw [hg']
  simp only [hnd, Bool.false_eq_true, if_false, binaryOperation, hlo, hhi]
  rfl

theorem set_prod2 (a b : R3) (haS : a.isS = true) (hbS : b.isS = true)
    (hoka : okFactor2 true a = true) (hokb : okFactor2 false b = true)
    (iha : SetContP2 a) (ihb : SetContP2 b) : SetContP2 (.prod2 a b) := by
  intro F m rest hF hm hs
  obtain ⟨hisop, hp10, hdd⟩ := precOf_decart
  have sza := spine_le_sz2 a; have szb := spine_le_sz2 b
  simp only [R3.sz] at hF; simp only [R3.low] at hm hs
  have hba : brProd true a.top = true → a.kind = .setBin := kind_of_okFactor2 hoka
  have hbb : brProd false b.top = true → b.kind = .setBin := kind_of_okFactor2 hokb
  have htoks : (R3.prod2 a b).toks ++ rest =
      wrap (brProd true a.top) a.toks ++ tk .DECART :: (wrap (brProd false b.top) b.toks ++ rest) := by
    simp [R3.toks]
  rw [htoks, wrapCont2 iha _ hba F m _ (by omega) (fun hb => by
    have hl := low_of_okFactor2 haS hoka hb
    simp only [if_true] at hl
    refine ⟨by omega, ?_⟩
    intro t r' e _; cases e; show prec .DECART < a.low + 1; omega)]
  have hsp : (if brProd true a.top then 1 else a.spine) ≤ a.sz := by split <;> omega
  obtain ⟨g, hg⟩ : ∃ g, F - (if brProd true a.top then 1 else a.spine) = g + 1 :=
    ⟨F - (if brProd true a.top then 1 else a.spine) - 1, by omega⟩
  rw [hg, setStep .DECART hisop g m _ _ _ rest _ _ (wrapKind_isSet2 _ haS hba) hm
    (wrapDone2 ihb _ hbb (prec .DECART + 1) (fun hb => by
      have hl := low_of_okFactor2 hbS hokb hb
      simpa using hl) g rest (by omega) hs)
    (wrapKind_isSet2 _ hbS hbb)]
  have hlo := (wrapRaw_range2 (brProd true a.top) a).1
  have hhi := (wrapRaw_range2 (brProd false b.top) b).2
  have hg' : F - (R3.prod2 a b).spine = g := by simp only [R3.spine]; omega
  -- the left operand is not a raw product node: a product factor is always bracketed
  have hid : ((wrapRaw (brProd true a.top) a.raw).id == .DECART) = false := by
    cases hb : brProd true a.top with
    | true => rfl
    | false =>
      simp only [wrapRaw, Bool.false_eq_true, if_false, raw_id2]
      cases ht : a.top <;> first | rfl | (rw [ht, brProd_decart] at hb; cases hb)
  rw [hg']
  simp only [hdd, if_true, decartian, hid, Bool.false_eq_true, if_false, binaryOperation, hlo, hhi]
  rfl

theorem set_prodN (p k : R3) (hpP : p.isProd = true) (hkS : k.isS = true)
    (hokk : okFactor2 false k = true) (ihp : SetContP2 p) (ihk : SetContP2 k) : SetContP2 (.prodN p k) := by
  intro F m rest hF hm hs
  obtain ⟨hisop, hp10, hdd⟩ := precOf_decart
  have szp := spine_le_sz2 p; have szk := spine_le_sz2 k
  simp only [R3.sz] at hF; simp only [R3.low] at hm hs
  have hplow : p.low = prec .DECART := by cases p <;> simp [R3.isProd] at hpP <;> rfl
  have hpk : p.kind = .setBin := by cases p <;> simp [R3.isProd] at hpP <;> rfl
  have hbk : brProd false k.top = true → k.kind = .setBin := kind_of_okFactor2 hokk
  have htoks : (R3.prodN p k).toks ++ rest =
      p.toks ++ tk .DECART :: (wrap (brProd false k.top) k.toks ++ rest) := by
    simp [R3.toks]
  rw [htoks, ihp F m _ (by omega) (by omega) (by
    intro t r' e _; cases e; show prec .DECART < p.low + 1; omega)]
  obtain ⟨g, hg⟩ : ∃ g, F - p.spine = g + 1 := ⟨F - p.spine - 1, by omega⟩
  rw [hg, setStep .DECART hisop g m _ _ _ rest _ _ (by rw [hpk]; rfl) hm
    (wrapDone2 ihk _ hbk (prec .DECART + 1) (fun hb => by
      have hl := low_of_okFactor2 hkS hokk hb
      simpa using hl) g rest (by omega) hs)
    (wrapKind_isSet2 _ hkS hbk)]
  have hhi := (wrapRaw_range2 (brProd false k.top) k).2
  have hg' : F - (R3.prodN p k).spine = g := by simp only [R3.spine]; omega
  rw [hg', raw_prod2 hpP]
  simp only [hdd, if_true, decartian, Ast.id, Ast.data, Ast.lo, Ast.kids, hhi]
  rfl

/-! ## how a phrase starts -/

/-- tokens that can start a phrase of the fragment -/
def startTok (t : Tok) : Bool :=
  isAtomId t || isTextFn t || t == .PUNC_PL || t == .BOOLEAN || t == .PUNC_CL || t == .ID_FUNCTION || t == .ID_PREDICATE ||
    t == .FILTER || t == .DECLARATIVE || t == .NOT || t == .FORALL || t == .EXISTS || t == .RECURSIVE || t == .IMPERATIVE

theorem startTok_facts (t : Tok) (h : startTok t = true) :
    isSetOp t = false ∧ (t == .PUNC_SL) = false ∧ (t == .PUNC_COMMA) = false ∧ (t == .IN) = false := by
  cases t <;> first | exact ⟨rfl, rfl, rfl, rfl⟩ | (revert h; decide)

theorem wrap_head (b : Bool) (ts : Toks) (h : ∃ t r, ts = t :: r ∧ startTok t.id = true) :
    ∃ t r, wrap b ts = t :: r ∧ startTok t.id = true := by
  cases b
  · exact h
  · exact ⟨tk .PUNC_PL, ts ++ [tk .PUNC_PR], rfl, rfl⟩

theorem append_head {ts : Toks} (h : ∃ t r, ts = t :: r ∧ startTok t.id = true) (more : Toks) :
    ∃ t r, ts ++ more = t :: r ∧ startTok t.id = true := by
  obtain ⟨t, r, e, hs⟩ := h
  exact ⟨t, r ++ more, by rw [e]; rfl, hs⟩

/-- every well-formed phrase (or list) starts with such a token -/
theorem toks_head : ∀ e : R3, e.wf = true → ∃ t r, e.toks = t :: r ∧ startTok t.id = true
  | .atom id d, hw => by
    simp only [R3.wf] at hw
    exact ⟨tk id d, [], rfl, by simp [startTok, tk, hw]⟩
  | .text f d a, hw => by
    simp only [R3.wf, Bool.and_eq_true] at hw
    exact ⟨tk f d, _, rfl, by simp [startTok, tk, hw.1.1]⟩
  | .sbin op l r, hw => by
    simp only [R3.wf, Bool.and_eq_true] at hw
    exact append_head (wrap_head _ _ (toks_head l hw.1.2)) _
  | .prod2 a b, hw => by
    simp only [R3.wf, Bool.and_eq_true] at hw
    exact append_head (wrap_head _ _ (toks_head a hw.1.2)) _
  | .prodN p k, hw => by
    simp only [R3.wf, Bool.and_eq_true] at hw
    exact append_head (toks_head p hw.1.2) _
  | .pred op l r, hw => by
    simp only [R3.wf, Bool.and_eq_true] at hw
    exact append_head (toks_head l hw.1.2) _
  | .neg x, _ => ⟨tk .NOT, _, rfl, rfl⟩
  | .lbin op l r, hw => by
    simp only [R3.wf, Bool.and_eq_true] at hw
    exact append_head (wrap_head _ _ (toks_head l hw.1.2)) _
  | .pow a, _ => by
    simp only [R3.toks]
    split
    · exact ⟨tk .BOOLEAN, _, rfl, rfl⟩
    · exact ⟨tk .BOOLEAN, _, rfl, rfl⟩
  | .one a, hw => by
    simp only [R3.wf, Bool.and_eq_true] at hw
    exact toks_head a hw.2
  | .more a l, hw => by
    simp only [R3.wf, Bool.and_eq_true] at hw
    exact append_head (toks_head a hw.1.2) _
  | .enum l, _ => ⟨tk .PUNC_CL, _, rfl, rfl⟩
  | .tuple a l, _ => ⟨tk .PUNC_PL, _, rfl, rfl⟩
  | .fcall d l, _ => ⟨tk .ID_FUNCTION d, _, rfl, rfl⟩
  | .pcall d l, _ => ⟨tk .ID_PREDICATE d, _, rfl, rfl⟩
  | .filter d ps a, _ => ⟨tk .FILTER d, _, rfl, rfl⟩
  | .quant q vs dm b, hw => by
    simp only [R3.wf, Bool.and_eq_true] at hw
    refine ⟨tk q, _, rfl, ?_⟩
    have h := hw.1.1.1.1.1.1.1
    show startTok q = true
    cases q <;> first | rfl | (revert h; decide)
  | .decl v dm b, _ => ⟨tk .DECLARATIVE, _, rfl, rfl⟩
  | .recS .., _ => ⟨tk .RECURSIVE, _, rfl, rfl⟩
  | .recF .., _ => ⟨tk .RECURSIVE, _, rfl, rfl⟩
  | .imp .., _ => ⟨tk .IMPERATIVE, _, rfl, rfl⟩
  | .bone b, hw => by
    simp only [R3.wf, Bool.and_eq_true] at hw
    exact toks_head b hw.2
  | .boneK op v s, hw => by
    simp only [R3.wf, Bool.and_eq_true] at hw
    exact append_head (toks_head v hw.1.2) _
  | .bmore b l, hw => by
    simp only [R3.wf, Bool.and_eq_true] at hw
    exact append_head (toks_head b hw.1.2) _
  | .bmoreK op v s l, hw => by
    simp only [R3.wf, Bool.and_eq_true] at hw
    exact append_head (toks_head v hw.1.1.2) _
  | .par a, _ => ⟨tk .PUNC_PL, _, rfl, rfl⟩

theorem peek2_cons (a : LTok) (rest : Toks) : peek2 (a :: rest) = peek rest := by
  cases rest <;> rfl

theorem headNot (t : LTok) (ts : Toks) (h : (t.id == .ID_LOCAL) = false) :
    (peek (t :: ts) == .ID_LOCAL && peek2 (t :: ts) == .IN) = false := by
  simp [peek, h]

/-- a set phrase (or a list of set phrases) never starts like the declaration `x ∈` of a term declaration -/
theorem noDecl_head : ∀ e : R3, e.wf = true → (e.isS = true ∨ e.isA = true) → ∀ rest : Toks, (peek rest == .IN) = false →
    (peek (e.toks ++ rest) == .ID_LOCAL && peek2 (e.toks ++ rest) == .IN) = false
  | .atom id d, _, _, rest, hr => by
    show (peek (tk id d :: rest) == .ID_LOCAL && peek2 (tk id d :: rest) == .IN) = false
    rw [peek2_cons, hr]; simp
  | .text f d a, hw, _, rest, _ => by
    simp only [R3.wf, Bool.and_eq_true] at hw
    have : (f == Tok.ID_LOCAL) = false := by
      have := hw.1.1; cases f <;> first | rfl | (revert this; decide)
    exact headNot (tk f d) _ this
  | .sbin op l r, hw, _, rest, _ => by
    simp only [R3.wf, Bool.and_eq_true] at hw
    have hop : (op == Tok.IN) = false := by
      have := hw.1.1.1.1; cases op <;> first | rfl | (revert this; decide)
    cases hb : brSet op l.top .left with
    | true => simp only [R3.toks, hb, wrap, if_true, List.cons_append]; exact headNot (tk .PUNC_PL) _ rfl
    | false =>
      have := noDecl_head l hw.1.2 (Or.inl hw.1.1.1.2) (tk op :: (wrap (brSet op r.top .right) r.toks ++ rest))
        (by simpa [peek, tk] using hop)
      simpa [R3.toks, hb, wrap] using this
  | .prod2 a b, hw, _, rest, _ => by
    simp only [R3.wf, Bool.and_eq_true] at hw
    cases hb : brProd true a.top with
    | true => simp only [R3.toks, hb, wrap, if_true, List.cons_append]; exact headNot (tk .PUNC_PL) _ rfl
    | false =>
      have := noDecl_head a hw.1.2 (Or.inl hw.1.1.1) (tk .DECART :: (wrap (brProd false b.top) b.toks ++ rest)) rfl
      simpa [R3.toks, hb, wrap] using this
  | .prodN p k, hw, _, rest, _ => by
    simp only [R3.wf, Bool.and_eq_true] at hw
    have hpS : p.isS = true := by
      have := hw.1.1.1; cases p <;> simp [R3.isProd] at this <;> rfl
    have := noDecl_head p hw.1.2 (Or.inl hpS) (tk .DECART :: (wrap (brProd false k.top) k.toks ++ rest)) rfl
    simpa [R3.toks] using this
  | .pow a, _, _, rest, _ => by
    simp only [R3.toks]; split <;> exact headNot (tk .BOOLEAN) _ rfl
  | .one a, hw, _, rest, hr => by
    simp only [R3.wf, Bool.and_eq_true] at hw
    exact noDecl_head a hw.2 (Or.inl hw.1) rest hr
  | .more a l, hw, _, rest, _ => by
    simp only [R3.wf, Bool.and_eq_true] at hw
    have := noDecl_head a hw.1.2 (Or.inl hw.1.1.1) (tk .PUNC_COMMA :: (l.toks ++ rest)) rfl
    simpa [R3.toks] using this
  | .enum l, _, _, rest, _ => headNot (tk .PUNC_CL) _ rfl
  | .tuple a l, _, _, rest, _ => headNot (tk .PUNC_PL) _ rfl
  | .par a, _, _, rest, _ => headNot (tk .PUNC_PL) _ rfl
  | .fcall d l, _, _, rest, _ => headNot (tk .ID_FUNCTION d) _ rfl
  | .filter d ps a, _, _, rest, _ => headNot (tk .FILTER d) _ rfl
  | .decl v dm b, _, _, rest, _ => headNot (tk .DECLARATIVE) _ rfl
  | .recS .., _, _, rest, _ => headNot (tk .RECURSIVE) _ rfl
  | .recF .., _, _, rest, _ => headNot (tk .RECURSIVE) _ rfl
  | .imp .., _, _, rest, _ => headNot (tk .IMPERATIVE) _ rfl
  | .bone _, _, h, _, _ => by simp [R3.isS, R3.isA] at h
  | .boneK .., _, h, _, _ => by simp [R3.isS, R3.isA] at h
  | .bmore .., _, h, _, _ => by simp [R3.isS, R3.isA] at h
  | .bmoreK .., _, h, _, _ => by simp [R3.isS, R3.isA] at h
  | .pred .., _, h, _, _ => by simp [R3.isS, R3.isA] at h
  | .neg _, _, h, _, _ => by simp [R3.isS, R3.isA] at h
  | .lbin .., _, h, _, _ => by simp [R3.isS, R3.isA] at h
  | .pcall .., _, h, _, _ => by simp [R3.isS, R3.isA] at h
  | .quant .., _, h, _, _ => by simp [R3.isS, R3.isA] at h

/-! ## lists of set phrases -/

theorem listStop_stopS {rest : Toks} (h : listStop rest) (m : Nat) : stopS m rest := by
  intro t r e hs; rw [(h t r e).1] at hs; cases hs

theorem listStop_tok (t : Tok) (rest : Toks) (h : isSetOp t = false) (h2 : (t == .PUNC_COMMA) = false) :
    listStop (tk t :: rest) := by
  intro t' r e; cases e; exact ⟨h, h2⟩

theorem enumTail_stop (f : Nat) (acc : List Ast) (rest : Toks) (h : listStop rest) :
    enumTail (f + 1) acc rest = some (acc, rest) := by
  cases rest with
  | nil => exact enumTail_nil f acc
  | cons c r => rw [enumTail_cons]; simp [(h c r rfl).2]

theorem list_one (a : R3) (haS : a.isS = true) (iha : SetContP2 a) : ListP (.one a) := by
  have sza := spine_le_sz2 a
  have hk := kind_isSet2 haS
  refine ⟨?_, ?_⟩
  · intro F rest hF hs
    simp only [R3.sz] at hF
    obtain ⟨g, hg⟩ : ∃ g, F = g + 1 + 1 := ⟨F - 2, by omega⟩
    subst hg
    show enumE (g + 1 + 1) (a.toks ++ rest) = _
    rw [enumE_succ, setDone2 iha (g + 1) 0 rest (by omega) (Nat.zero_le _) (listStop_stopS hs 0)]
    simp only [hk, if_true]
    exact enumTail_stop g _ _ hs
  · intro F acc rest hF hs
    simp only [R3.sz] at hF
    obtain ⟨g, hg⟩ : ∃ g, F = g + 1 + 1 := ⟨F - 2, by omega⟩
    subst hg
    show enumTail (g + 1 + 1) acc (tk .PUNC_COMMA :: (a.toks ++ rest)) = _
    rw [enumTail_cons, setDone2 iha (g + 1) 0 rest (by omega) (Nat.zero_le _) (listStop_stopS hs 0)]
    have e1 : ((tk Tok.PUNC_COMMA).id == Tok.PUNC_COMMA) = true := rfl
    simp only [e1, hk, if_true]
    exact enumTail_stop g _ _ hs

theorem list_more (a l : R3) (haS : a.isS = true) (iha : SetContP2 a) (ihl : ListP l) : ListP (.more a l) := by
  have sza := spine_le_sz2 a
  have szl := spine_le_sz2 l
  have hk := kind_isSet2 haS
  have hts : ∀ rest, (R3.more a l).toks ++ rest = a.toks ++ tk .PUNC_COMMA :: (l.toks ++ rest) := by
    intro rest; simp [R3.toks]
  have hkids : ∀ acc : List Ast, (acc ++ [a.raw]) ++ l.raw.kids = acc ++ (R3.more a l).raw.kids := by
    intro acc; simp [R3.raw, Ast.kids]
  refine ⟨?_, ?_⟩
  · intro F rest hF hs
    simp only [R3.sz] at hF
    obtain ⟨g, hg⟩ : ∃ g, F = g + 1 := ⟨F - 1, by omega⟩
    subst hg
    rw [hts, enumE_succ, setDone2 iha g 0 _ (by omega) (Nat.zero_le _) (stopS_pass 0 (tk .PUNC_COMMA) _ rfl)]
    simp only [hk, if_true]
    rw [ihl.2 g [a.raw] rest (by omega) hs]
    exact congrArg (fun x => some (x, rest)) (hkids [])
  · intro F acc rest hF hs
    simp only [R3.sz] at hF
    obtain ⟨g, hg⟩ : ∃ g, F = g + 1 := ⟨F - 1, by omega⟩
    subst hg
    rw [hts, enumTail_cons, setDone2 iha g 0 _ (by omega) (Nat.zero_le _) (stopS_pass 0 (tk .PUNC_COMMA) _ rfl)]
    have e1 : ((tk Tok.PUNC_COMMA).id == Tok.PUNC_COMMA) = true := rfl
    simp only [e1, hk, if_true]
    rw [ihl.2 g (acc ++ [a.raw]) rest (by omega) hs, hkids]

/-! ## the new set constructs -/

theorem pow_toks_head {a : R3} (h : a.isPow = true) : ∃ ts, a.toks = tk .BOOLEAN :: ts := by
  cases a <;> simp [R3.isPow] at h
  simp only [R3.toks]; split
  · exact ⟨_, rfl⟩
  · exact ⟨_, rfl⟩

theorem prim_pow (a : R3) (haS : a.isS = true) (iha : SetContP2 a) (ipa : a.isPow = true → PrimP a) :
    PrimP (.pow a) := by
  intro F rest hF
  simp only [R3.sz] at hF
  have sza := spine_le_sz2 a
  obtain ⟨g, hg⟩ : ∃ g, F = g + 1 := ⟨F - 1, by omega⟩
  subst hg
  cases hp : a.isPow with
  | true =>
    obtain ⟨ts, hts⟩ := pow_toks_head hp
    have h1 := ipa hp g rest (by omega)
    have : (R3.pow a).toks ++ rest = tk .BOOLEAN :: tk .BOOLEAN :: (ts ++ rest) := by
      simp [R3.toks, hp, hts]
    rw [this, primary_boolean]
    have e1 : ((tk Tok.BOOLEAN).id == Tok.PUNC_PL) = false := rfl
    have e2 : ((tk Tok.BOOLEAN).id == Tok.BOOLEAN) = true := rfl
    have h2 : primary g (tk .BOOLEAN :: (ts ++ rest)) = some (a.kind, a.raw, rest) := by
      rw [← h1, hts]; rfl
    simp only [e1, e2, Bool.false_eq_true, if_false, if_true, h2, unaryOperation, (raw_range2 a).2]
    rfl
  | false =>
    have : (R3.pow a).toks ++ rest = tk .BOOLEAN :: tk .PUNC_PL :: (a.toks ++ tk .PUNC_PR :: rest) := by
      simp [R3.toks, hp]
    rw [this, primary_boolean, setDone2 iha g 0 _ (by omega) (Nat.zero_le _) (stopS_rp 0 rest)]
    have e1 : ((tk Tok.PUNC_PL).id == Tok.PUNC_PL) = true := rfl
    have e2 : (Tok.PUNC_PR == Tok.PUNC_PR) = true := rfl
    have hk := kind_isSet2 haS
    simp only [e1, if_true, hk, tk, e2, Bool.and_self, textOperator]
    rfl

theorem prim_enum (l : R3) (hlA : l.isA = true) (hw : l.wf = true) (ihl : ListP l) : PrimP (.enum l) := by
  intro F rest hF
  simp only [R3.sz] at hF
  obtain ⟨g, hg⟩ : ∃ g, F = g + 1 := ⟨F - 1, by omega⟩
  subst hg
  have : (R3.enum l).toks ++ rest = tk .PUNC_CL :: (l.toks ++ tk .PUNC_CR :: rest) := by simp [R3.toks]
  rw [this, primary_cl g _ (noDecl_head l hw (Or.inr hlA) _ rfl),
    ihl.1 g (tk .PUNC_CR :: rest) (by omega) (listStop_tok .PUNC_CR rest rfl rfl)]
  rfl

theorem prim_tuple (a l : R3) (haS : a.isS = true) (iha : SetContP2 a) (ihl : ListP l) : PrimP (.tuple a l) := by
  intro F rest hF
  simp only [R3.sz] at hF
  have sza := spine_le_sz2 a; have szl := spine_le_sz2 l
  obtain ⟨g, hg⟩ : ∃ g, F = g + 1 := ⟨F - 1, by omega⟩
  subst hg
  have : (R3.tuple a l).toks ++ rest =
      tk .PUNC_PL :: (a.toks ++ tk .PUNC_COMMA :: (l.toks ++ tk .PUNC_PR :: rest)) := by simp [R3.toks]
  rw [this, primary_lp, logPassS2 iha (tk .PUNC_COMMA) rfl g _ (by omega)]
  have e1 : ((tk Tok.PUNC_COMMA).id == Tok.PUNC_PR) = false := rfl
  have e2 : ((tk Tok.PUNC_COMMA).id == Tok.PUNC_COMMA) = true := rfl
  have hk := kind_isSet2 haS
  simp only [e1, e2, hk, Bool.false_eq_true, if_false, Bool.and_self, if_true]
  rw [ihl.2 g [a.raw] (tk .PUNC_PR :: rest) (by omega) (listStop_tok .PUNC_PR rest rfl rfl)]
  rfl

theorem prim_fcall (d : TokData) (l : R3) (ihl : ListP l) : PrimP (.fcall d l) := by
  intro F rest hF
  simp only [R3.sz] at hF
  obtain ⟨g, hg⟩ : ∃ g, F = g + 1 := ⟨F - 1, by omega⟩
  subst hg
  have : (R3.fcall d l).toks ++ rest = tk .ID_FUNCTION d :: tk .PUNC_SL :: (l.toks ++ tk .PUNC_SR :: rest) := by
    simp [R3.toks]
  rw [this, primary_call g _ d _ (Or.inl rfl),
    ihl.1 g (tk .PUNC_SR :: rest) (by omega) (listStop_tok .PUNC_SR rest rfl rfl)]
  rfl

theorem prim_filter (d : TokData) (ps arg : R3) (hargS : arg.isS = true) (ihps : ListP ps) (iharg : SetContP2 arg) :
    PrimP (.filter d ps arg) := by
  intro F rest hF
  simp only [R3.sz] at hF
  have := spine_le_sz2 ps; have := spine_le_sz2 arg
  obtain ⟨g, hg⟩ : ∃ g, F = g + 1 := ⟨F - 1, by omega⟩
  subst hg
  have : (R3.filter d ps arg).toks ++ rest =
      tk .FILTER d :: tk .PUNC_SL :: (ps.toks ++ tk .PUNC_SR :: tk .PUNC_PL :: (arg.toks ++ tk .PUNC_PR :: rest)) := by
    simp [R3.toks]
  rw [this, primary_filter, ihps.1 g _ (by omega) (listStop_tok .PUNC_SR _ rfl rfl)]
  have e1 : ((tk Tok.PUNC_SR).id == Tok.PUNC_SR && (tk Tok.PUNC_PL).id == Tok.PUNC_PL) = true := rfl
  simp only [e1, if_true]
  rw [setDone2 iharg g 0 _ (by omega) (Nat.zero_le _) (stopS_rp 0 rest)]
  have e2 : (Tok.PUNC_PR == Tok.PUNC_PR) = true := rfl
  have hk := kind_isSet2 hargS
  simp only [hk, tk, e2, Bool.and_self, if_true]
  rfl

/-! ## predicate and logic level: generic steps -/

theorem endOK2_stopS {rest : Toks} (h : endOK2 rest) (m : Nat) : stopS m rest := by
  intro t r e hs
  rcases h t r e with h1 | h1 | h1 | h1 | h1
  · rw [h1] at hs; simp [isSetOp] at hs
  · rw [h1] at hs; simp [isSetOp] at hs
  · rw [h1] at hs; simp [isSetOp] at hs
  · rw [h1] at hs; simp [isSetOp] at hs
  · rw [(logicOp_facts t.id h1).1] at hs; cases hs

theorem endOK2_rp (rest : Toks) : endOK2 (tk .PUNC_PR :: rest) := by
  intro t r e; cases e; exact Or.inl rfl

theorem endOK2_cr (rest : Toks) : endOK2 (tk .PUNC_CR :: rest) := by
  intro t r e; cases e; exact Or.inr (Or.inl rfl)

theorem endOK2_bar (rest : Toks) : endOK2 (tk .PUNC_BAR :: rest) := by
  intro t r e; cases e; exact Or.inr (Or.inr (Or.inl rfl))

theorem endOK2_semi (rest : Toks) : endOK2 (tk .PUNC_SEMICOLON :: rest) := by
  intro t r e; cases e; exact Or.inr (Or.inr (Or.inr (Or.inl rfl)))

theorem endOK2_op (op : Tok) (rest : Toks) (h : isLogicOp op = true) : endOK2 (tk op :: rest) := by
  intro t r e; cases e; exact Or.inr (Or.inr (Or.inr (Or.inr h)))

theorem endOK2_nil : endOK2 [] := fun _ _ e => by cases e

theorem stopLg_cr (m : Nat) (rest : Toks) : stopLg m (tk .PUNC_CR :: rest) := by
  intro t r e hs; cases e; simp [tk, isLogicOp] at hs

theorem stopLg_bar (m : Nat) (rest : Toks) : stopLg m (tk .PUNC_BAR :: rest) := by
  intro t r e hs; cases e; simp [tk, isLogicOp] at hs

theorem stopLg_semi (m : Nat) (rest : Toks) : stopLg m (tk .PUNC_SEMICOLON :: rest) := by
  intro t r e hs; cases e; simp [tk, isLogicOp] at hs

theorem logDone2 {x : R3} (h : LogContP2 x) (F m : Nat) (rest : Toks) (hF : 2 * x.sz ≤ F) (hm : m ≤ x.low)
    (he : endOK2 rest) (hs : stopLg m rest) : logE F m (x.toks ++ rest) = some (x.kind, x.raw, rest) := by
  rw [h F m rest hF hm he (stopLg_mono hs (by omega))]
  have := spine_le_sz2 x
  obtain ⟨g, hg⟩ : ∃ g, F - x.spine = g + 1 := ⟨F - x.spine - 1, by omega⟩
  rw [hg, logLoop_stop g m _ _ _ hs]

/-- `( x )` around a predicate or a binary connective, parsed at the predicate level -/
theorem predE_bracketL2 {x : R3} (h : LogContP2 x) (hk : x.kind = .lbin ∨ x.kind = .pred) (F : Nat) (rest : Toks)
    (hF : 2 * x.sz + 8 ≤ F) :
    predE F (tk .PUNC_PL :: (x.toks ++ [tk .PUNC_PR]) ++ rest) = some (.lpar, wrapRaw true x.raw, rest) := by
  obtain ⟨g, hg⟩ : ∃ g, F = g + 1 + 1 + 1 + 1 := ⟨F - 4, by omega⟩
  subst hg
  have hts : tk .PUNC_PL :: (x.toks ++ [tk .PUNC_PR]) ++ rest = tk .PUNC_PL :: (x.toks ++ tk .PUNC_PR :: rest) := by simp
  have hlog := logDone2 h (g + 1) 0 (tk .PUNC_PR :: rest) (by omega) (Nat.zero_le _) (endOK2_rp rest) (stopLg_rp 0 rest)
  have hprim : primary (g + 1 + 1) (tk .PUNC_PL :: (x.toks ++ tk .PUNC_PR :: rest)) =
      some (.lpar, wrapRaw true x.raw, rest) := by
    rw [primary_lp, hlog]
    have e1 : (Tok.PUNC_PR == Tok.PUNC_PR) = true := rfl
    have hx : setRange x.raw 0 0 = x.raw := setRange_raw2 x
    rcases hk with hk | hk <;> simp [hk, tk, removeBrackets, wrapRaw, hx, e1]
  have hset : setE (g + 1 + 1 + 1) 0 (tk .PUNC_PL :: (x.toks ++ tk .PUNC_PR :: rest)) =
      some (.lpar, wrapRaw true x.raw, rest) := by
    rw [setE_succ, hprim]
    exact setLoop_nonset (g + 1) 0 _ _ _ rfl
  rw [hts]
  exact predE_nonset _ _ _ _ _ hset rfl rfl

theorem kindL_logicAll2 {x : R3} (h : x.isL = true) :
    x.kind.isLogicAll = true ∧ x.kind.isSet = false ∧ (x.isPar = false → x.kind.isLogic = true) := by
  cases x <;> simp [R3.isL] at h <;> first | exact ⟨rfl, rfl, fun _ => rfl⟩ | skip
  rw [kind_par_L h]; exact ⟨rfl, rfl, fun hp => by simp [R3.isPar] at hp⟩

/-- a formula that is not a connective has a trivial spine -/
theorem nb_facts {x : R3} (h : x.isL = true) (hk : x.kind ≠ .lbin) :
    x.spine = 1 ∧ x.low = 100 ∧ x.kind.isNoBinary = true := by
  cases x <;> simp [R3.isL] at h <;> first | exact ⟨rfl, rfl, rfl⟩ | exact absurd rfl hk | skip
  exact ⟨rfl, rfl, by rw [kind_par_L h]; rfl⟩

/-- a phrase parsed at the predicate level continues the connective loop -/
theorem logCont_of_NB2 {x : R3} (h : NBP2 x) (hsp : x.spine = 1) : LogContP2 x := by
  intro F m rest hF _ he _
  have := spine_le_sz2 x
  obtain ⟨g, hg⟩ : ∃ g, F = g + 1 := ⟨F - 1, by omega⟩
  subst hg
  rw [logE_succ, h g rest (by omega) he, hsp]
  rfl

/-- what `okBody` says about the operand of a prefix operator -/
theorem body_kind {br : Tok → Bool} {y : R3} (hL : y.isL = true) (hok : okBody br y = true) :
    (br y.top = true → (y.kind = .lbin ∨ y.kind = .pred)) ∧ (br y.top = false → y.kind ≠ .lbin) := by
  cases y with
  | lbin cop a b =>
    refine ⟨fun _ => Or.inl rfl, fun hb => ?_⟩
    simp only [okBody, R3.top] at hok hb; rw [hb] at hok; cases hok
  | pred op a b => exact ⟨fun _ => Or.inr rfl, fun _ => by simp [R3.kind]⟩
  | neg x =>
    refine ⟨fun hb => ?_, fun _ => by simp [R3.kind]⟩
    simp only [okBody, R3.top] at hok hb; rw [hb] at hok; cases hok
  | pcall d l =>
    refine ⟨fun hb => ?_, fun _ => by simp [R3.kind]⟩
    simp only [okBody, R3.top] at hok hb; rw [hb] at hok; cases hok
  | quant q vs dm b =>
    refine ⟨fun hb => ?_, fun _ => by simp [R3.kind]⟩
    simp only [okBody, R3.top] at hok hb; rw [hb] at hok; cases hok
  | par a =>
    simp only [R3.isL] at hL
    refine ⟨fun hb => ?_, fun _ => by rw [kind_par_L hL]; simp⟩
    simp only [okBody, R3.top] at hok hb; rw [hb] at hok; cases hok
  | _ => simp [R3.isL] at hL

/-- the operand of `¬ ∀ ∃`, printed with or without brackets, is a `logic_no_binary` -/
theorem bodyNB {y : R3} (hL : y.isL = true) (cy : LogContP2 y) (nby : y.kind ≠ .lbin → NBP2 y) (b : Bool)
    (hb1 : b = true → (y.kind = .lbin ∨ y.kind = .pred)) (hb0 : b = false → y.kind ≠ .lbin)
    (g : Nat) (rest : Toks) (hg : 2 * y.sz + 8 ≤ g) (he : endOK2 rest) :
    predE g (wrap b y.toks ++ rest) = some (wrapKind b y.kind, wrapRaw b y.raw, rest) ∧
      (wrapKind b y.kind).isNoBinary = true := by
  cases b with
  | true =>
    have hk := hb1 rfl
    simp only [wrap, if_true]
    refine ⟨?_, ?_⟩
    · rw [predE_bracketL2 cy hk g rest hg]
      rcases hk with hk | hk <;> simp [wrapKind, hk]
    · rcases hk with hk | hk <;> simp [wrapKind, hk, K.isNoBinary]
  | false =>
    have hk := hb0 rfl
    simp only [wrap, wrapKind, wrapRaw, Bool.false_eq_true, if_false]
    exact ⟨nby hk g rest (by omega) he, (nb_facts hL hk).2.2⟩

/-- a formula that is one `primary` of nonterminal `logic_unary` -/
def UnaryPrimP (x : R3) : Prop :=
  ∀ (F : Nat) (rest : Toks), 2 * x.sz ≤ F + 4 → endOK2 rest → primary F (x.toks ++ rest) = some (.unary, x.raw, rest)

theorem nb_of_unaryPrim {x : R3} (h : UnaryPrimP x) (hk : x.kind = .unary)
    (hid : (x.raw.id == .ID_LOCAL || x.raw.id == .NT_TUPLE) = false) : NBP2 x := by
  intro F rest hF he
  have := spine_le_sz2 x
  obtain ⟨g, hg⟩ : ∃ g, F = g + 1 + 1 + 1 := ⟨F - 3, by omega⟩
  subst hg
  have hset : setE (g + 1 + 1) 0 (x.toks ++ rest) = some (.unary, x.raw, rest) := by
    rw [setE_succ, h (g + 1) rest (by omega) he]
    exact setLoop_nonset g 0 .unary x.raw rest rfl
  rw [hk]
  exact predE_nonset _ _ _ _ _ hset rfl hid

/-! ## formulas: the constructors -/

theorem nb_pred (op : Tok) (a b : R3) (hop : isPredOp op = true) (haS : a.isS = true) (hbS : b.isS = true)
    (ca : SetContP2 a) (cb : SetContP2 b) : NBP2 (.pred op a b) := by
  intro F rest hF he
  simp only [R3.sz] at hF
  have := spine_le_sz2 a; have := spine_le_sz2 b
  obtain ⟨g, hg⟩ : ∃ g, F = g + 1 := ⟨F - 1, by omega⟩
  subst hg
  have hts : (R3.pred op a b).toks ++ rest = a.toks ++ tk op :: (b.toks ++ rest) := by simp [R3.toks]
  have hsa : stopS 0 (tk op :: (b.toks ++ rest)) := by
    intro t r e hs; cases e
    have := predOp_not_setOp op hop
    simp [tk, this] at hs
  rw [hts, predE_succ, setDone2 ca g 0 _ (by omega) (Nat.zero_le _) hsa]
  have hka := kind_isSet2 haS
  have hkb := kind_isSet2 hbS
  simp only [tk, hop, hka, Bool.and_self, if_true]
  rw [setDone2 cb g 0 rest (by omega) (Nat.zero_le _) (endOK2_stopS he 0)]
  simp only [hkb, if_true, binaryOperation, (raw_range2 a).1, (raw_range2 b).2]
  rfl

theorem nb_neg (y : R3) (hyL : y.isL = true) (hoky : okNot2 y = true) (cy : LogContP2 y)
    (nby : y.kind ≠ .lbin → NBP2 y) : NBP2 (.neg y) := by
  intro F rest hF he
  simp only [R3.sz] at hF
  have := spine_le_sz2 y
  obtain ⟨g, hg⟩ : ∃ g, F = g + 1 + 1 + 1 := ⟨F - 3, by omega⟩
  subst hg
  have hbk := body_kind hyL hoky
  have hinner := bodyNB hyL cy nby (brNot y.top) hbk.1 hbk.2 g rest (by omega) he
  have hprim : primary (g + 1) (tk .NOT :: (wrap (brNot y.top) y.toks ++ rest)) =
      some (.unary, (R3.neg y).raw, rest) := by
    rw [primary_not, hinner.1]
    simp only [hinner.2, if_true, unaryOperation, tk]
    have hhi : (wrapRaw (brNot y.top) y.raw).hi = 0 := (wrapRaw_range2 _ y).2
    rw [hhi]; rfl
  have hset : setE (g + 1 + 1) 0 (tk .NOT :: (wrap (brNot y.top) y.toks ++ rest)) =
      some (.unary, (R3.neg y).raw, rest) := by
    rw [setE_succ, hprim]
    exact setLoop_nonset g 0 _ _ _ rfl
  have hts : (R3.neg y).toks ++ rest = tk .NOT :: (wrap (brNot y.top) y.toks ++ rest) := by simp [R3.toks]
  rw [hts]
  exact predE_nonset _ _ _ _ _ hset rfl rfl

/-- what `okChildL2` says about an operand of a connective -/
theorem childL_facts {p : Tok} {c : R3} {side : Side} (hL : c.isL = true) (hp : prec p ≤ 10)
    (hok : okChildL2 p c side = true) :
    (brLogic p c.top side = true → (c.kind = .lbin ∨ c.kind = .pred)) ∧
    (brLogic p c.top side = false → (match side with | .left => prec p ≤ c.low | .right => prec p + 1 ≤ c.low)) := by
  cases c with
  | lbin cop a b =>
    refine ⟨fun _ => Or.inl rfl, fun hb => ?_⟩
    simp only [okChildL2, R3.top] at hok hb
    rw [hb] at hok
    simp only [Bool.false_or, condOK] at hok
    cases side <;> simp only [decide_eq_true_eq] at hok <;> simp only [R3.low] <;> omega
  | pred op a b =>
    exact ⟨fun _ => Or.inr rfl, fun _ => by cases side <;> simp only [R3.low] <;> omega⟩
  | neg x =>
    refine ⟨fun hb => ?_, fun _ => by cases side <;> simp only [R3.low] <;> omega⟩
    simp only [okChildL2, R3.top] at hok hb; rw [hb] at hok; cases hok
  | pcall d l =>
    refine ⟨fun hb => ?_, fun _ => by cases side <;> simp only [R3.low] <;> omega⟩
    simp only [okChildL2, R3.top] at hok hb; rw [hb] at hok; cases hok
  | quant q vs dm b =>
    refine ⟨fun hb => ?_, fun _ => by cases side <;> simp only [R3.low] <;> omega⟩
    simp only [okChildL2, R3.top] at hok hb; rw [hb] at hok; cases hok
  | par a =>
    refine ⟨fun hb => ?_, fun _ => by cases side <;> simp only [R3.low] <;> omega⟩
    simp only [okChildL2, R3.top] at hok hb; rw [hb] at hok; cases hok
  | _ => simp [R3.isL] at hL

theorem log_lbin (op : Tok) (l r : R3) (hop : isLogicOp op = true) (hlL : l.isL = true) (hrL : r.isL = true)
    (hokl : okChildL2 op l .left = true) (hokr : okChildL2 op r .right = true)
    (cl : LogContP2 l) (cr : LogContP2 r) : LogContP2 (.lbin op l r) := by
  intro F m rest hF hm he hs
  obtain ⟨hprec, hp10⟩ := precOf_logic op hop
  have szl := spine_le_sz2 l; have szr := spine_le_sz2 r
  simp only [R3.sz] at hF; simp only [R3.low] at hm hs
  have fl := childL_facts hlL hp10 hokl
  have fr := childL_facts hrL hp10 hokr
  have hlkB := fl.1
  have hrkB := fr.1
  have hlowl : brLogic op l.top .left = false → prec op ≤ l.low := fl.2
  have hlowr : brLogic op r.top .right = false → prec op + 1 ≤ r.low := fr.2
  have hkl : (wrapKind (brLogic op l.top .left) l.kind).isLogicAll = true := by
    unfold wrapKind; split
    · rename_i hb; rcases hlkB hb with hk | hk <;> rw [hk] <;> rfl
    · exact (kindL_logicAll2 hlL).1
  have hkr : (wrapKind (brLogic op r.top .right) r.kind).isLogicAll = true := by
    unfold wrapKind; split
    · rename_i hb; rcases hrkB hb with hk | hk <;> rw [hk] <;> rfl
    · exact (kindL_logicAll2 hrL).1
  have hright : ∀ G, 2 * r.sz + 10 ≤ G →
      logE G (prec op + 1) (wrap (brLogic op r.top .right) r.toks ++ rest) =
        some (wrapKind (brLogic op r.top .right) r.kind, wrapRaw (brLogic op r.top .right) r.raw, rest) := by
    intro G hG
    cases hb : brLogic op r.top .right with
    | true =>
      obtain ⟨g, hg⟩ : ∃ g, G = g + 1 + 1 := ⟨G - 2, by omega⟩
      subst hg
      simp only [wrap, if_true]
      rw [logE_succ, predE_bracketL2 cr (hrkB hb) (g + 1) rest (by omega)]
      show logLoop (g + 1) (prec op + 1) K.lpar (wrapRaw true r.raw) rest = _
      rw [logLoop_stop g _ _ _ _ hs]
      rcases hrkB hb with hk | hk <;> simp [wrapKind, hk]
    | false =>
      simp only [wrap, wrapKind, wrapRaw, Bool.false_eq_true, if_false]
      exact logDone2 cr G (prec op + 1) rest (by omega) (hlowr hb) he hs
  have hleft : ∀ restR, logE F m (wrap (brLogic op l.top .left) l.toks ++ tk op :: restR) =
      logLoop (F - (if brLogic op l.top .left then 1 else l.spine)) m (wrapKind (brLogic op l.top .left) l.kind)
        (wrapRaw (brLogic op l.top .left) l.raw) (tk op :: restR) := by
    intro restR
    cases hb : brLogic op l.top .left with
    | true =>
      obtain ⟨g, hg⟩ : ∃ g, F = g + 1 := ⟨F - 1, by omega⟩
      subst hg
      simp only [wrap, if_true]
      rw [logE_succ]
      have := predE_bracketL2 cl (hlkB hb) g (tk op :: restR) (by omega)
      simp only [List.cons_append, List.append_assoc] at this ⊢
      rw [this]
      rcases hlkB hb with hk | hk <;> simp [wrapKind, hk]
    | false =>
      simp only [wrap, wrapKind, wrapRaw, Bool.false_eq_true, if_false]
      refine cl F m (tk op :: restR) (by omega) (by have := hlowl hb; omega) (endOK2_op op restR hop) ?_
      intro t r' e _
      cases e
      show prec op < l.low + 1
      have := hlowl hb; omega
  have htoks : (R3.lbin op l r).toks ++ rest =
      wrap (brLogic op l.top .left) l.toks ++ tk op :: (wrap (brLogic op r.top .right) r.toks ++ rest) := by
    simp [R3.toks]
  rw [htoks, hleft]
  have hsp : (if brLogic op l.top .left then 1 else l.spine) ≤ l.sz := by split <;> omega
  obtain ⟨g, hg⟩ : ∃ g, F - (if brLogic op l.top .left then 1 else l.spine) = g + 1 :=
    ⟨F - (if brLogic op l.top .left then 1 else l.spine) - 1, by omega⟩
  rw [hg, logLoop_cons]
  have hge : prec op ≥ m := hm
  have e1 : (Assoc.left == Assoc.left) = true := rfl
  simp only [tk, hop, hkl, Bool.and_self, if_true, hprec, hge, e1]
  rw [hright g (by omega)]
  simp only [hkr, if_true]
  have hlo := (wrapRaw_range2 (brLogic op l.top .left) l).1
  have hhi := (wrapRaw_range2 (brLogic op r.top .right) r).2
  have hg' : F - (R3.lbin op l r).spine = g := by simp only [R3.spine]; omega
  rw [hg']
  simp only [binaryOperation, hlo, hhi]
  rfl

theorem unary_pcall (d : TokData) (l : R3) (ihl : ListP l) : UnaryPrimP (.pcall d l) := by
  intro F rest hF _
  simp only [R3.sz] at hF
  obtain ⟨g, hg⟩ : ∃ g, F = g + 1 := ⟨F - 1, by omega⟩
  subst hg
  have : (R3.pcall d l).toks ++ rest = tk .ID_PREDICATE d :: tk .PUNC_SL :: (l.toks ++ tk .PUNC_SR :: rest) := by
    simp [R3.toks]
  rw [this, primary_call g _ d _ (Or.inr rfl),
    ihl.1 g (tk .PUNC_SR :: rest) (by omega) (listStop_tok .PUNC_SR rest rfl rfl)]
  rfl

/-! ## declared variables -/

theorem dast_range (e : R3) : e.dast.lo = 0 ∧ e.dast.hi = 0 := by cases e <;> exact ⟨rfl, rfl⟩

theorem dast_kids_range : ∀ e : R3, ∀ x ∈ e.dast.kids, x.lo = 0 ∧ x.hi = 0
  | .tuple a l, x, hx => by
    simp only [R3.dast, Ast.kids, List.mem_cons] at hx
    rcases hx with rfl | hx
    · exact dast_range a
    · exact dast_kids_range l x hx
  | .one a, x, hx => by
    simp only [R3.dast, Ast.kids, List.mem_cons, List.not_mem_nil, or_false] at hx
    subst hx; exact dast_range a
  | .more a l, x, hx => by
    simp only [R3.dast, Ast.kids, List.mem_cons] at hx
    rcases hx with rfl | hx
    · exact dast_range a
    · exact dast_kids_range l x hx
  | .atom .., x, hx | .text .., x, hx | .sbin .., x, hx | .prod2 .., x, hx | .prodN .., x, hx | .pred .., x, hx
  | .neg _, x, hx | .lbin .., x, hx | .pow _, x, hx | .enum _, x, hx | .fcall .., x, hx | .pcall .., x, hx
  | .filter .., x, hx | .quant .., x, hx | .decl .., x, hx | .recS .., x, hx | .recF .., x, hx | .imp .., x, hx
  | .bone _, x, hx | .boneK .., x, hx | .bmore .., x, hx | .bmoreK .., x, hx => by
    simp [R3.dast, Ast.kids] at hx

theorem list_dast_ne {l : R3} (h : l.isA = true) : ∃ x xs, l.dast.kids = x :: xs := by
  cases l <;> simp [R3.isA] at h
  · exact ⟨_, _, rfl⟩
  · exact ⟨_, _, rfl⟩

theorem getLastD_hi : ∀ (rest : List Ast) (first : Ast), (∀ x ∈ rest, x.hi = 0) → first.hi = 0 →
    (rest.getLast?.getD first).hi = 0
  | [], first, _, h => h
  | [x], first, hr, _ => hr x (by simp)
  | x :: y :: ys, first, hr, h => by
    rw [List.getLast?_cons_cons]
    exact getLastD_hi (y :: ys) first (fun z hz => hr z (List.mem_cons_of_mem _ hz)) h

/-- the parser's `TupleDeclaration` turns the raw tree of a variable into its declaration tree -/
theorem tupleDecl_var : ∀ e : R3, e.wf = true → e.isVar = true →
    (e.isS = true → tupleDecl e.raw = some e.dast) ∧ tupleDeclList e.raw.kids = some e.dast.kids
  | .atom id d, _, hv => by
    have hid : id = .ID_LOCAL := by
      simp only [R3.isVar] at hv; cases id <;> first | rfl | (revert hv; decide)
    subst hid
    refine ⟨fun _ => ?_, ?_⟩
    · simp only [R3.raw, R3.dast]; rw [tupleDecl, tupleDeclList]; rfl
    · simp only [R3.raw, R3.dast, Ast.kids]; rw [tupleDeclList]
  | .tuple a l, hw, hv => by
    simp only [R3.wf, Bool.and_eq_true] at hw
    simp only [R3.isVar, Bool.and_eq_true] at hv
    have ha := tupleDecl_var a hw.1.2 hv.1
    have hl := tupleDecl_var l hw.2 hv.2
    have hk : tupleDeclList (a.raw :: l.raw.kids) = some (a.dast :: l.dast.kids) := by
      rw [tupleDeclList, ha.1 hw.1.1.1, hl.2]
    refine ⟨fun _ => ?_, hk⟩
    show tupleDecl (.node .NT_TUPLE .none 0 0 (a.raw :: l.raw.kids)) = _
    rw [tupleDecl, hk]; rfl
  | .one a, hw, hv => by
    simp only [R3.wf, Bool.and_eq_true] at hw
    simp only [R3.isVar] at hv
    have ha := tupleDecl_var a hw.2 hv
    refine ⟨fun h => by simp [R3.isS] at h, ?_⟩
    show tupleDeclList [a.raw] = some [a.dast]
    rw [tupleDeclList, ha.1 hw.1, tupleDeclList]
  | .more a l, hw, hv => by
    simp only [R3.wf, Bool.and_eq_true] at hw
    simp only [R3.isVar, Bool.and_eq_true] at hv
    have ha := tupleDecl_var a hw.1.2 hv.1
    have hl := tupleDecl_var l hw.2 hv.2
    refine ⟨fun h => by simp [R3.isS] at h, ?_⟩
    show tupleDeclList (a.raw :: l.raw.kids) = some (a.dast :: l.dast.kids)
    rw [tupleDeclList, ha.1 hw.1.1.1, hl.2]
  | .text .., _, hv | .sbin .., _, hv | .prod2 .., _, hv | .prodN .., _, hv | .pred .., _, hv
  | .neg _, _, hv | .lbin .., _, hv | .pow _, _, hv | .enum _, _, hv | .fcall .., _, hv | .pcall .., _, hv
  | .filter .., _, hv | .quant .., _, hv | .decl .., _, hv | .recS .., _, hv | .recF .., _, hv | .imp .., _, hv
  | .bone _, _, hv | .boneK .., _, hv | .bmore .., _, hv | .bmoreK .., _, hv => by simp [R3.isVar] at hv

theorem var_atom (id : Tok) (d : TokData) (hv : (R3.atom id d).isVar = true) : VarP (.atom id d) := by
  intro F rest hF
  have hid : id = .ID_LOCAL := by
    simp only [R3.isVar] at hv; cases id <;> first | rfl | (revert hv; decide)
  subst hid
  simp only [R3.sz] at hF
  obtain ⟨g, hg⟩ : ∃ g, F = g + 1 := ⟨F - 1, by omega⟩
  subst hg
  exact varE_local g d rest

theorem var_tuple (a l : R3) (hw : (R3.tuple a l).wf = true) (hv : (R3.tuple a l).isVar = true)
    (hp : PrimP (.tuple a l)) : VarP (.tuple a l) := by
  intro F rest hF
  have := spine_le_sz2 (R3.tuple a l)
  obtain ⟨g, hg⟩ : ∃ g, F = g + 1 := ⟨F - 1, by omega⟩
  subst hg
  have hts : (R3.tuple a l).toks ++ rest =
      tk .PUNC_PL :: (a.toks ++ tk .PUNC_COMMA :: (l.toks ++ tk .PUNC_PR :: rest)) := by simp [R3.toks]
  have h1 := hp g rest (by omega)
  rw [hts] at h1
  rw [hts, varE_lp, h1]
  have e1 : ((R3.tuple a l).raw.id == Tok.NT_TUPLE) = true := rfl
  simp only [e1, if_true, (tupleDecl_var _ hw hv).1 rfl]

theorem varPackTail_stop (f : Nat) (acc : List Ast) (rest : Toks) (h : noComma rest) :
    varPackTail (f + 1) acc rest = some (acc, rest) := by
  cases rest with
  | nil => exact varPackTail_nil f acc
  | cons c r => rw [varPackTail_cons]; simp [h c r rfl]

theorem noComma_tok (t : Tok) (rest : Toks) (h : (t == .PUNC_COMMA) = false) : noComma (tk t :: rest) := by
  intro t' r e; cases e; exact h

theorem vtail_one (a : R3) (ha : VarP a) : VTailP (.one a) := by
  intro F acc rest hF hs
  simp only [R3.sz] at hF
  obtain ⟨g, hg⟩ : ∃ g, F = g + 1 + 1 := ⟨F - 2, by omega⟩
  subst hg
  show varPackTail (g + 1 + 1) acc (tk .PUNC_COMMA :: (a.toks ++ rest)) = _
  have e1 : ((tk Tok.PUNC_COMMA).id == Tok.PUNC_COMMA) = true := rfl
  have := spine_le_sz2 a
  rw [varPackTail_cons, ha (g + 1) rest (by omega)]
  simp only [e1, if_true]
  exact varPackTail_stop g _ _ hs

theorem vtail_more (a l : R3) (ha : VarP a) (hl : VTailP l) : VTailP (.more a l) := by
  intro F acc rest hF hs
  simp only [R3.sz] at hF
  obtain ⟨g, hg⟩ : ∃ g, F = g + 1 := ⟨F - 1, by omega⟩
  subst hg
  have hts : (R3.more a l).toks ++ rest = a.toks ++ tk .PUNC_COMMA :: (l.toks ++ rest) := by simp [R3.toks]
  have e1 : ((tk Tok.PUNC_COMMA).id == Tok.PUNC_COMMA) = true := rfl
  rw [hts, varPackTail_cons, ha g _ (by omega)]
  simp only [e1, if_true]
  rw [hl g _ rest (by omega) hs]
  simp [R3.dast, Ast.kids]

/-! ## quantifiers and the declarative construction -/

theorem stopS_start (m : Nat) (ts : Toks) (h : ∃ t r, ts = t :: r ∧ startTok t.id = true) : stopS m ts := by
  obtain ⟨t, r, e, hs⟩ := h
  intro t' r' e' hs'
  rw [e] at e'; cases e'
  rw [(startTok_facts _ hs).1] at hs'; cases hs'

theorem unary_quant (q : Tok) (vs dom body : R3) (hq : q = .FORALL ∨ q = .EXISTS) (hvA : vs.isA = true)
    (hvw : vs.wf = true) (hvl : VListP vs) (hdS : dom.isS = true) (hbL : body.isL = true) (hbw : body.wf = true)
    (hokb : okQ2 q body = true) (cd : SetContP2 dom) (cb : LogContP2 body) (nbb : body.kind ≠ .lbin → NBP2 body) :
    UnaryPrimP (.quant q vs dom body) := by
  intro F rest hF he
  simp only [R3.sz] at hF
  have := spine_le_sz2 vs; have := spine_le_sz2 dom; have := spine_le_sz2 body
  obtain ⟨g, hg⟩ : ∃ g, F = g + 1 + 1 := ⟨F - 2, by omega⟩
  subst hg
  have hbk := body_kind hbL hokb
  have hinner := bodyNB hbL cb nbb (brQ q body.top) hbk.1 hbk.2 (g + 1) rest (by omega) he
  have hstart : ∃ t r, wrap (brQ q body.top) body.toks ++ rest = t :: r ∧ startTok t.id = true :=
    append_head (wrap_head _ _ (toks_head body hbw)) _
  have hdom := setDone2 cd (g + 1) 0 (wrap (brQ q body.top) body.toks ++ rest) (by omega) (Nat.zero_le _)
    (stopS_start 0 _ hstart)
  have hkd := kind_isSet2 hdS
  have hphi : (wrapRaw (brQ q body.top) body.raw).hi = 0 := (wrapRaw_range2 _ body).2
  have e1 : ((tk Tok.IN).id == Tok.IN) = true := rfl
  have hts : (R3.quant q vs dom body).toks ++ rest =
      tk q :: (vs.toks ++ tk .IN :: (dom.toks ++ (wrap (brQ q body.top) body.toks ++ rest))) := by simp [R3.toks]
  rw [hts, primary_quant _ _ _ hq]
  cases vs with
  | one v =>
    have hv : VarP v := hvl
    simp only [R3.sz] at hF
    show (match varE (g + 1) (v.toks ++ tk .IN :: (dom.toks ++ (wrap (brQ q body.top) body.toks ++ rest))) with
      | some (v, r0) => _ | none => none) = _
    rw [hv (g + 1) _ (by omega)]
    simp only []
    rw [varPackTail_stop g _ _ (noComma_tok .IN _ rfl)]
    simp only [e1, if_true, hdom, hkd, hinner.1, hinner.2, hphi]
    rfl
  | more v l =>
    obtain ⟨hv, hl⟩ : VarP v ∧ VTailP l := hvl
    simp only [R3.sz] at hF
    have hts2 : (R3.more v l).toks ++ tk .IN :: (dom.toks ++ (wrap (brQ q body.top) body.toks ++ rest)) =
        v.toks ++ tk .PUNC_COMMA :: (l.toks ++ tk .IN :: (dom.toks ++ (wrap (brQ q body.top) body.toks ++ rest))) := by
      simp [R3.toks]
    rw [hts2, hv (g + 1) _ (by omega)]
    simp only []
    rw [hl (g + 1) [v.dast] _ (by omega) (noComma_tok .IN _ rfl)]
    simp only [R3.wf, Bool.and_eq_true] at hvw
    obtain ⟨x, xs, hx⟩ := list_dast_ne hvw.1.1.2
    have hsp : spanOf v.dast (x :: xs) = (0, 0) := by
      unfold spanOf
      rw [(dast_range v).1, getLastD_hi (x :: xs) v.dast
        (fun z hz => (dast_kids_range l z (by rw [hx]; exact hz)).2) (dast_range v).2]
    show _ = some (K.unary, Ast.node q .none 0 0 [.node .NT_ENUM_DECL .none 0 0 (v.dast :: l.dast.kids), dom.raw,
      wrapRaw (brQ q body.top) body.raw], rest)
    rw [hx]
    simp only [List.cons_append, List.nil_append, e1, if_true, List.drop, hsp, hdom, hkd, hinner.1, hinner.2, hphi]
  | _ => simp [R3.isA] at hvA

theorem prim_decl (v dom body : R3) (hvar : VarP v) (hdS : dom.isS = true) (hbL : body.isL = true)
    (hbP : body.isPar = false) (cd : SetContP2 dom) (cb : LogContP2 body) : PrimP (.decl v dom body) := by
  intro F rest hF
  simp only [R3.sz] at hF
  have := spine_le_sz2 v; have := spine_le_sz2 dom; have := spine_le_sz2 body
  obtain ⟨g, hg⟩ : ∃ g, F = g + 1 := ⟨F - 1, by omega⟩
  subst hg
  have hts : (R3.decl v dom body).toks ++ rest =
      tk .DECLARATIVE :: tk .PUNC_CL :: (v.toks ++ tk .IN :: (dom.toks ++ tk .PUNC_BAR :: (body.toks ++ tk .PUNC_CR :: rest))) := by
    simp [R3.toks]
  rw [hts, primary_declarative, hvar g _ (by omega)]
  have e1 : ((tk Tok.IN).id == Tok.IN) = true := rfl
  simp only [e1, if_true]
  rw [setDone2 cd g 0 _ (by omega) (Nat.zero_le _) (stopS_pass 0 (tk .PUNC_BAR) _ rfl)]
  have e2 : ((tk Tok.PUNC_BAR).id == Tok.PUNC_BAR) = true := rfl
  have hkd := kind_isSet2 hdS
  simp only [hkd, e2, Bool.and_self, if_true]
  rw [logDone2 cb g 0 _ (by omega) (Nat.zero_le _) (endOK2_cr rest) (stopLg_cr 0 rest)]
  have e3 : ((tk Tok.PUNC_CR).id == Tok.PUNC_CR) = true := rfl
  simp only [(kindL_logicAll2 hbL).2.2 hbP, e3, Bool.and_self, if_true]
  rfl

/-! ## recursive and imperative constructions -/

theorem primary_recursive (f : Nat) (rest : Toks) :
    primary (f + 1) (tk .RECURSIVE :: tk .PUNC_CL :: rest) =
      match varE f rest with
      | some (v, a :: r1) =>
        if a.id == .ASSIGN then
          match setE f 0 r1 with
          | some (k, d, bar :: r2) =>
            if (k.isSet && bar.id == .PUNC_BAR) = true then
              match logE f 0 r2 with
              | some (k2, c, nx :: r3) =>
                if (nx.id == .PUNC_BAR && k2.isLogic) = true then
                  match setE f 0 r3 with
                  | some (k3, s, rc :: r4) =>
                    if (k3.isSet && rc.id == .PUNC_CR) = true then
                      some (.set, .node .NT_RECURSIVE_FULL .none 0 rc.hi [v, d, c, s], r4)
                    else none
                  | _ => none
                else if (nx.id == .PUNC_CR && k2.isSet) = true then
                  some (.set, .node .NT_RECURSIVE_SHORT .none 0 nx.hi [v, d, c], r3)
                else none
              | _ => none
            else none
          | _ => none
        else none
      | _ => none := by
  rw [primary.eq_def]; simp only [tk]; rfl

theorem primary_imperative (f : Nat) (rest : Toks) :
    primary (f + 1) (tk .IMPERATIVE :: tk .PUNC_CL :: rest) =
      match setE f 0 rest with
      | some (k, v, bar :: r1) =>
        if (k.isSet && bar.id == .PUNC_BAR) = true then
          match blocks f [] r1 with
          | some (bs, rc :: r2) =>
            if rc.id == .PUNC_CR then
              some (.set, .node .NT_IMPERATIVE_EXPR .none 0 rc.hi (v :: bs), r2)
            else none
          | _ => none
        else none
      | _ => none := by
  rw [primary.eq_def]; simp only [tk]; rfl

theorem blocks_succ (f : Nat) (acc : List Ast) (toks : Toks) : blocks (f + 1) acc toks =
    match logE f 0 toks with
    | some (k, e, r) =>
      if k.isLogic then
        match r with
        | c :: r' => if c.id == .PUNC_SEMICOLON then blocks f (acc ++ [e]) r' else some (acc ++ [e], r)
        | [] => some (acc ++ [e], r)
      else none
    | none => none := by rw [blocks]; rfl

theorem prim_recS (v d s : R3) (hvar : VarP v) (hdS : d.isS = true) (hsS : s.isS = true)
    (cd : SetContP2 d) (cs : SetContP2 s) : PrimP (.recS v d s) := by
  intro F rest hF
  simp only [R3.sz] at hF
  have := spine_le_sz2 v; have := spine_le_sz2 d; have := spine_le_sz2 s
  obtain ⟨g, hg⟩ : ∃ g, F = g + 1 := ⟨F - 1, by omega⟩
  subst hg
  have hts : (R3.recS v d s).toks ++ rest =
      tk .RECURSIVE :: tk .PUNC_CL :: (v.toks ++ tk .ASSIGN :: (d.toks ++ tk .PUNC_BAR :: (s.toks ++ tk .PUNC_CR :: rest))) := by
    simp [R3.toks]
  rw [hts, primary_recursive, hvar g _ (by omega)]
  have e1 : ((tk Tok.ASSIGN).id == Tok.ASSIGN) = true := rfl
  simp only [e1, if_true]
  rw [setDone2 cd g 0 _ (by omega) (Nat.zero_le _) (stopS_pass 0 (tk .PUNC_BAR) _ rfl)]
  have e2 : ((tk Tok.PUNC_BAR).id == Tok.PUNC_BAR) = true := rfl
  have hkd := kind_isSet2 hdS
  simp only [hkd, e2, Bool.and_self, if_true]
  rw [logPassS2 cs (tk .PUNC_CR) rfl g rest (by omega)]
  have e3 : ((tk Tok.PUNC_CR).id == Tok.PUNC_BAR) = false := rfl
  have e4 : ((tk Tok.PUNC_CR).id == Tok.PUNC_CR) = true := rfl
  have hks := kind_isSet2 hsS
  simp only [e3, e4, hks, Bool.false_and, Bool.and_self, Bool.false_eq_true, if_false, if_true]
  rfl

theorem prim_recF (v d c s : R3) (hvar : VarP v) (hdS : d.isS = true) (hcL : c.isL = true) (hcP : c.isPar = false)
    (hsS : s.isS = true) (cd : SetContP2 d) (cc : LogContP2 c) (cs : SetContP2 s) : PrimP (.recF v d c s) := by
  intro F rest hF
  simp only [R3.sz] at hF
  have := spine_le_sz2 v; have := spine_le_sz2 d; have := spine_le_sz2 c; have := spine_le_sz2 s
  obtain ⟨g, hg⟩ : ∃ g, F = g + 1 := ⟨F - 1, by omega⟩
  subst hg
  have hts : (R3.recF v d c s).toks ++ rest =
      tk .RECURSIVE :: tk .PUNC_CL :: (v.toks ++ tk .ASSIGN :: (d.toks ++ tk .PUNC_BAR :: (c.toks ++ tk .PUNC_BAR ::
        (s.toks ++ tk .PUNC_CR :: rest)))) := by
    simp [R3.toks]
  rw [hts, primary_recursive, hvar g _ (by omega)]
  have e1 : ((tk Tok.ASSIGN).id == Tok.ASSIGN) = true := rfl
  simp only [e1, if_true]
  rw [setDone2 cd g 0 _ (by omega) (Nat.zero_le _) (stopS_pass 0 (tk .PUNC_BAR) _ rfl)]
  have e2 : ((tk Tok.PUNC_BAR).id == Tok.PUNC_BAR) = true := rfl
  have hkd := kind_isSet2 hdS
  simp only [hkd, e2, Bool.and_self, if_true]
  rw [logDone2 cc g 0 _ (by omega) (Nat.zero_le _) (endOK2_bar _) (stopLg_bar 0 _)]
  simp only [e2, (kindL_logicAll2 hcL).2.2 hcP, Bool.and_self, if_true]
  rw [setDone2 cs g 0 _ (by omega) (Nat.zero_le _) (stopS_pass 0 (tk .PUNC_CR) _ rfl)]
  have e4 : ((tk Tok.PUNC_CR).id == Tok.PUNC_CR) = true := rfl
  have hks := kind_isSet2 hsS
  simp only [e4, hks, Bool.and_self, if_true]
  rfl

/-- list of blocks: `imp_blocks` up to the closing brace -/
def BlocksP (l : R3) : Prop :=
  ∀ (F : Nat) (acc : List Ast) (rest : Toks), 2 * l.sz + 4 ≤ F →
    blocks F acc (l.toks ++ tk .PUNC_CR :: rest) = some (acc ++ l.raw.kids, tk .PUNC_CR :: rest)

theorem prim_imp (val bs : R3) (hvS : val.isS = true) (cv : SetContP2 val) (cb : BlocksP bs) : PrimP (.imp val bs) := by
  intro F rest hF
  simp only [R3.sz] at hF
  have := spine_le_sz2 val; have := spine_le_sz2 bs
  obtain ⟨g, hg⟩ : ∃ g, F = g + 1 := ⟨F - 1, by omega⟩
  subst hg
  have hts : (R3.imp val bs).toks ++ rest =
      tk .IMPERATIVE :: tk .PUNC_CL :: (val.toks ++ tk .PUNC_BAR :: (bs.toks ++ tk .PUNC_CR :: rest)) := by
    simp [R3.toks]
  rw [hts, primary_imperative, setDone2 cv g 0 _ (by omega) (Nat.zero_le _) (stopS_pass 0 (tk .PUNC_BAR) _ rfl)]
  have e2 : ((tk Tok.PUNC_BAR).id == Tok.PUNC_BAR) = true := rfl
  have hkv := kind_isSet2 hvS
  simp only [hkv, e2, Bool.and_self, if_true]
  rw [cb g [] rest (by omega)]
  have e4 : ((tk Tok.PUNC_CR).id == Tok.PUNC_CR) = true := rfl
  simp only [e4, if_true, List.nil_append]
  rfl

/-- the raw tree of a variable is what `predE` accepts on the left of `:∈` / `:=`, and `TupleDeclaration` gives its
declaration tree -/
theorem var_lhs (v : R3) (hS : v.isS = true) (hw : v.wf = true) (hV : v.isVar = true) :
    (v.raw.id == .ID_LOCAL || v.raw.id == .NT_TUPLE) = true ∧
    (if v.raw.id == .NT_TUPLE then tupleDecl v.raw else some v.raw) = some v.dast := by
  cases v with
  | atom id d =>
    have hid : id = .ID_LOCAL := by
      simp only [R3.isVar] at hV; cases id <;> first | rfl | (revert hV; decide)
    subst hid
    exact ⟨rfl, rfl⟩
  | tuple a l => exact ⟨rfl, (tupleDecl_var _ hw hV).1 rfl⟩
  | _ => first | (simp [R3.isVar] at hV; done) | (simp [R3.isS] at hS; done)

theorem blkOp_facts (op : Tok) (h : R3.isBlkOp op = true) :
    isSetOp op = false ∧ isPredOp op = false ∧ (op == .ITERATE || op == .ASSIGN) = true ∧ (op == .PUNC_PL) = false ∧
      fragTok2 op = true := by
  cases op <;> first | exact ⟨rfl, rfl, rfl, rfl, rfl⟩ | (revert h; decide)

/-- an assignment block `v :∈ s` / `v := s`, parsed at the logic level -/
theorem blkK (op : Tok) (v s : R3) (hop : R3.isBlkOp op = true) (hvS : v.isS = true) (hvw : v.wf = true)
    (hvV : v.isVar = true) (hsS : s.isS = true) (cv : SetContP2 v) (cs : SetContP2 s)
    (F : Nat) (rest : Toks) (hF : 2 * (v.sz + s.sz) + 4 ≤ F) (he : endOK2 rest) (hs : stopLg 0 rest) :
    logE F 0 (v.toks ++ tk op :: (s.toks ++ rest)) = some (.pred, .node op .none 0 0 [v.dast, s.raw], rest) := by
  obtain ⟨g, hg⟩ : ∃ g, F = g + 1 + 1 := ⟨F - 2, by omega⟩
  subst hg
  obtain ⟨hnso, hnpo, hko, _, _⟩ := blkOp_facts op hop
  have hsa : stopS 0 (tk op :: (s.toks ++ rest)) := by
    intro t r e hs'; cases e
    simp [tk, hnso] at hs'
  obtain ⟨hlhs, hdecl⟩ := var_lhs v hvS hvw hvV
  have hp : predE (g + 1) (v.toks ++ tk op :: (s.toks ++ rest)) =
      some (.pred, .node op .none 0 0 [v.dast, s.raw], rest) := by
    rw [predE_succ, setDone2 cv g 0 _ (by omega) (Nat.zero_le _) hsa]
    simp only [tk, hnpo, Bool.false_and, Bool.false_eq_true, if_false, hko, hlhs, Bool.and_self, if_true, hdecl]
    rw [setDone2 cs g 0 rest (by omega) (Nat.zero_le _) (endOK2_stopS he 0)]
    simp only [kind_isSet2 hsS, if_true, binaryOperation, (dast_range v).1, (raw_range2 s).2]
  rw [logE_succ, hp]
  exact logLoop_stop g 0 _ _ _ hs

theorem blocks_bone (b : R3) (hbL : b.isL = true) (hbP : b.isPar = false) (cb : LogContP2 b) : BlocksP (.bone b) := by
  intro F acc rest hF
  simp only [R3.sz] at hF
  have := spine_le_sz2 b
  obtain ⟨g, hg⟩ : ∃ g, F = g + 1 := ⟨F - 1, by omega⟩
  subst hg
  show blocks (g + 1) acc (b.toks ++ tk .PUNC_CR :: rest) = _
  rw [blocks_succ, logDone2 cb g 0 _ (by omega) (Nat.zero_le _) (endOK2_cr rest) (stopLg_cr 0 rest)]
  have e1 : ((tk Tok.PUNC_CR).id == Tok.PUNC_SEMICOLON) = false := rfl
  simp only [(kindL_logicAll2 hbL).2.2 hbP, if_true, e1, Bool.false_eq_true, if_false]
  rfl

theorem blocks_bmore (b l : R3) (hbL : b.isL = true) (hbP : b.isPar = false) (cb : LogContP2 b) (cl : BlocksP l) : BlocksP (.bmore b l) := by
  intro F acc rest hF
  simp only [R3.sz] at hF
  have := spine_le_sz2 b; have := spine_le_sz2 l
  obtain ⟨g, hg⟩ : ∃ g, F = g + 1 := ⟨F - 1, by omega⟩
  subst hg
  have hts : (R3.bmore b l).toks ++ tk .PUNC_CR :: rest = b.toks ++ tk .PUNC_SEMICOLON :: (l.toks ++ tk .PUNC_CR :: rest) := by
    simp [R3.toks]
  rw [hts, blocks_succ, logDone2 cb g 0 _ (by omega) (Nat.zero_le _) (endOK2_semi _) (stopLg_semi 0 _)]
  have e1 : ((tk Tok.PUNC_SEMICOLON).id == Tok.PUNC_SEMICOLON) = true := rfl
  simp only [(kindL_logicAll2 hbL).2.2 hbP, if_true, e1]
  rw [cl g _ rest (by omega)]
  simp [R3.raw, Ast.kids]

theorem blocks_boneK (op : Tok) (v s : R3) (hop : R3.isBlkOp op = true) (hvS : v.isS = true) (hvw : v.wf = true)
    (hvV : v.isVar = true) (hsS : s.isS = true) (cv : SetContP2 v) (cs : SetContP2 s) : BlocksP (.boneK op v s) := by
  intro F acc rest hF
  simp only [R3.sz] at hF
  obtain ⟨g, hg⟩ : ∃ g, F = g + 1 := ⟨F - 1, by omega⟩
  subst hg
  have hts : (R3.boneK op v s).toks ++ tk .PUNC_CR :: rest = v.toks ++ tk op :: (s.toks ++ tk .PUNC_CR :: rest) := by
    simp [R3.toks]
  rw [hts, blocks_succ, blkK op v s hop hvS hvw hvV hsS cv cs g _ (by omega) (endOK2_cr rest) (stopLg_cr 0 rest)]
  have e1 : ((tk Tok.PUNC_CR).id == Tok.PUNC_SEMICOLON) = false := rfl
  have e0 : K.pred.isLogic = true := rfl
  simp only [e0, if_true, e1, Bool.false_eq_true, if_false]
  rfl

theorem blocks_bmoreK (op : Tok) (v s l : R3) (hop : R3.isBlkOp op = true) (hvS : v.isS = true) (hvw : v.wf = true)
    (hvV : v.isVar = true) (hsS : s.isS = true) (cv : SetContP2 v) (cs : SetContP2 s) (cl : BlocksP l) :
    BlocksP (.bmoreK op v s l) := by
  intro F acc rest hF
  simp only [R3.sz] at hF
  have := spine_le_sz2 l
  obtain ⟨g, hg⟩ : ∃ g, F = g + 1 := ⟨F - 1, by omega⟩
  subst hg
  have hts : (R3.bmoreK op v s l).toks ++ tk .PUNC_CR :: rest =
      v.toks ++ tk op :: (s.toks ++ tk .PUNC_SEMICOLON :: (l.toks ++ tk .PUNC_CR :: rest)) := by
    simp [R3.toks]
  rw [hts, blocks_succ, blkK op v s hop hvS hvw hvV hsS cv cs g _ (by omega) (endOK2_semi _) (stopLg_semi 0 _)]
  have e1 : ((tk Tok.PUNC_SEMICOLON).id == Tok.PUNC_SEMICOLON) = true := rfl
  have e0 : K.pred.isLogic = true := rfl
  simp only [e0, if_true, e1]
  rw [cl g _ rest (by omega)]
  simp [R3.raw, Ast.kids]

/-! ## all categories together -/

/-- what is proved about a phrase, by category -/
structure Claim (e : R3) : Prop where
  set : e.isS = true → SetContP2 e
  prim : e.isS = true → e.binTop? = none → PrimP e
  log : e.isL = true → LogContP2 e
  nb : e.isL = true → e.kind ≠ .lbin → NBP2 e
  list : e.isA = true → ListP e
  var : e.isS = true → e.isVar = true → VarP e
  vtail : e.isA = true → e.isVar = true → VTailP e ∧ VListP e
  blocks : e.isB = true → BlocksP e

theorem ff {P : Prop} {b : Bool} (h0 : b = false) (h : b = true) : P := by rw [h0] at h; cases h

theorem notB_of_S {e : R3} (hS : e.isS = true) : e.isB = false := by
  cases e <;> simp [R3.isS] at hS <;> rfl

theorem Claim.ofPrim {e : R3} (hS : e.isS = true) (hb : e.binTop? = none) (hL : e.isL = false) (hA : e.isA = false)
    (p : PrimP e) (var : e.isVar = true → VarP e) : Claim e :=
  ⟨fun _ => setCont_of_prim hS hb p, fun _ _ => p, fun h => ff hL h, fun h => ff hL h,
    fun h => ff hA h, fun _ => var, fun h => ff hA h, fun h => ff (notB_of_S hS) h⟩

theorem Claim.ofBin {e : R3} {cop : Tok} (hb : e.binTop? = some cop) (hL : e.isL = false) (hA : e.isA = false)
    (hV : e.isVar = false) (c : SetContP2 e) : Claim e :=
  ⟨fun _ => c, (fun _ h => by rw [hb] at h; cases h), fun h => ff hL h, fun h => ff hL h,
    fun h => ff hA h, fun _ h => ff hV h, fun h => ff hA h,
    fun h => ff (by cases e <;> simp [R3.binTop?] at hb <;> rfl) h⟩

theorem Claim.ofLog {e : R3} (hS : e.isS = false) (hA : e.isA = false) (hB : e.isB = false) (c : LogContP2 e)
    (nb : e.kind ≠ .lbin → NBP2 e) : Claim e :=
  ⟨fun h => ff hS h, fun h => ff hS h, fun _ => c, fun _ => nb,
    fun h => ff hA h, fun h => ff hS h, fun h => ff hA h, fun h => ff hB h⟩

theorem Claim.ofList {e : R3} (hS : e.isS = false) (hL : e.isL = false) (hB : e.isB = false) (c : ListP e)
    (vt : e.isVar = true → VTailP e ∧ VListP e) : Claim e :=
  ⟨fun h => ff hS h, fun h => ff hS h, fun h => ff hL h,
    fun h => ff hL h, fun _ => c, fun h => ff hS h, fun _ => vt, fun h => ff hB h⟩

theorem Claim.ofBlocks {e : R3} (hS : e.isS = false) (hL : e.isL = false) (hA : e.isA = false) (c : BlocksP e) : Claim e :=
  ⟨fun h => ff hS h, fun h => ff hS h, fun h => ff hL h,
    fun h => ff hL h, fun h => ff hA h, fun h => ff hS h, fun h => ff hA h, fun _ => c⟩

theorem isS_of_isProd2 {p : R3} (h : p.isProd = true) : p.isS = true := by
  cases p <;> simp [R3.isProd] at h <;> rfl

theorem isS_of_isVar {v : R3} (hS : v.isS = true) : v.isA = false := by
  cases v <;> simp [R3.isS] at hS <;> rfl

/-- **every well-formed phrase whose bracket decisions satisfy the grammar's needs is parsed back** (all categories) -/
theorem claim : ∀ e : R3, e.wf = true → e.ok = true → Claim e
  | .atom id d, hw, _ => by
    simp only [R3.wf] at hw
    exact Claim.ofPrim rfl rfl rfl rfl (prim_atom id d hw) (var_atom id d)
  | .text f d a, hw, hok => by
    simp only [R3.wf, Bool.and_eq_true] at hw
    simp only [R3.ok] at hok
    have ca := claim a hw.2 hok
    exact Claim.ofPrim rfl rfl rfl rfl (prim_text f d a hw.1.1 hw.1.2 (ca.set hw.1.2)) (fun h => by simp [R3.isVar] at h)
  | .sbin op l r, hw, hok => by
    simp only [R3.wf, Bool.and_eq_true] at hw
    simp only [R3.ok, Bool.and_eq_true] at hok
    obtain ⟨⟨⟨⟨hop, hlS⟩, hrS⟩, hlw⟩, hrw⟩ := hw
    obtain ⟨⟨⟨hokl, hokr⟩, hlok⟩, hrok⟩ := hok
    exact Claim.ofBin (cop := op) rfl rfl rfl rfl
      (set_sbin op l r hop hlS hrS hokl hokr ((claim l hlw hlok).set hlS) ((claim r hrw hrok).set hrS))
  | .prod2 a b, hw, hok => by
    simp only [R3.wf, Bool.and_eq_true] at hw
    simp only [R3.ok, Bool.and_eq_true] at hok
    obtain ⟨⟨⟨haS, hbS⟩, haw⟩, hbw⟩ := hw
    obtain ⟨⟨⟨hoka, hokb⟩, haok⟩, hbok⟩ := hok
    exact Claim.ofBin (cop := .DECART) rfl rfl rfl rfl
      (set_prod2 a b haS hbS hoka hokb ((claim a haw haok).set haS) ((claim b hbw hbok).set hbS))
  | .prodN p k, hw, hok => by
    simp only [R3.wf, Bool.and_eq_true] at hw
    simp only [R3.ok, Bool.and_eq_true] at hok
    obtain ⟨⟨⟨hpP, hkS⟩, hpw⟩, hkw⟩ := hw
    obtain ⟨⟨hokk, hpok⟩, hkok⟩ := hok
    exact Claim.ofBin (cop := .DECART) rfl rfl rfl rfl
      (set_prodN p k hpP hkS hokk ((claim p hpw hpok).set (isS_of_isProd2 hpP)) ((claim k hkw hkok).set hkS))
  | .pred op a b, hw, hok => by
    simp only [R3.wf, Bool.and_eq_true] at hw
    simp only [R3.ok, Bool.and_eq_true] at hok
    obtain ⟨⟨⟨⟨hop, haS⟩, hbS⟩, haw⟩, hbw⟩ := hw
    have hnb := nb_pred op a b hop haS hbS ((claim a haw hok.1).set haS) ((claim b hbw hok.2).set hbS)
    exact Claim.ofLog rfl rfl rfl (logCont_of_NB2 hnb rfl) (fun _ => hnb)
  | .neg y, hw, hok => by
    simp only [R3.wf, Bool.and_eq_true] at hw
    simp only [R3.ok, Bool.and_eq_true] at hok
    have cy := claim y hw.2 hok.2
    have hnb := nb_neg y hw.1 hok.1 (cy.log hw.1) (cy.nb hw.1)
    exact Claim.ofLog rfl rfl rfl (logCont_of_NB2 hnb rfl) (fun _ => hnb)
  | .lbin op l r, hw, hok => by
    simp only [R3.wf, Bool.and_eq_true] at hw
    simp only [R3.ok, Bool.and_eq_true] at hok
    obtain ⟨⟨⟨⟨hop, hlL⟩, hrL⟩, hlw⟩, hrw⟩ := hw
    obtain ⟨⟨⟨hokl, hokr⟩, hlok⟩, hrok⟩ := hok
    exact Claim.ofLog rfl rfl rfl
      (log_lbin op l r hop hlL hrL hokl hokr ((claim l hlw hlok).log hlL) ((claim r hrw hrok).log hrL))
      (fun h => absurd rfl h)
  | .pow a, hw, hok => by
    simp only [R3.wf, Bool.and_eq_true] at hw
    simp only [R3.ok] at hok
    have ca := claim a hw.2 hok
    exact Claim.ofPrim rfl rfl rfl rfl
      (prim_pow a hw.1 (ca.set hw.1) (fun hp => ca.prim hw.1 (by cases a <;> simp [R3.isPow] at hp <;> rfl)))
      (fun h => by simp [R3.isVar] at h)
  | .one a, hw, hok => by
    simp only [R3.wf, Bool.and_eq_true] at hw
    simp only [R3.ok] at hok
    have ca := claim a hw.2 hok
    exact Claim.ofList rfl rfl rfl (list_one a hw.1 (ca.set hw.1))
      (fun hv => ⟨vtail_one a (ca.var hw.1 hv), ca.var hw.1 hv⟩)
  | .more a l, hw, hok => by
    simp only [R3.wf, Bool.and_eq_true] at hw
    simp only [R3.ok, Bool.and_eq_true] at hok
    obtain ⟨⟨⟨haS, hlA⟩, haw⟩, hlw⟩ := hw
    have ca := claim a haw hok.1
    have cl := claim l hlw hok.2
    refine Claim.ofList rfl rfl rfl (list_more a l haS (ca.set haS) (cl.list hlA)) (fun hv => ?_)
    simp only [R3.isVar, Bool.and_eq_true] at hv
    have hva := ca.var haS hv.1
    have hvl := (cl.vtail hlA hv.2).1
    exact ⟨vtail_more a l hva hvl, hva, hvl⟩
  | .enum l, hw, hok => by
    simp only [R3.wf, Bool.and_eq_true] at hw
    simp only [R3.ok] at hok
    exact Claim.ofPrim rfl rfl rfl rfl (prim_enum l hw.1 hw.2 ((claim l hw.2 hok).list hw.1))
      (fun h => by simp [R3.isVar] at h)
  | .tuple a l, hw, hok => by
    have hw0 := hw
    simp only [R3.wf, Bool.and_eq_true] at hw
    simp only [R3.ok, Bool.and_eq_true] at hok
    obtain ⟨⟨⟨haS, hlA⟩, haw⟩, hlw⟩ := hw
    have hp := prim_tuple a l haS ((claim a haw hok.1).set haS) ((claim l hlw hok.2).list hlA)
    exact Claim.ofPrim rfl rfl rfl rfl hp (fun hv => var_tuple a l hw0 hv hp)
  | .fcall d l, hw, hok => by
    simp only [R3.wf, Bool.and_eq_true] at hw
    simp only [R3.ok] at hok
    exact Claim.ofPrim rfl rfl rfl rfl (prim_fcall d l ((claim l hw.2 hok).list hw.1)) (fun h => by simp [R3.isVar] at h)
  | .pcall d l, hw, hok => by
    simp only [R3.wf, Bool.and_eq_true] at hw
    simp only [R3.ok] at hok
    have hnb := nb_of_unaryPrim (unary_pcall d l ((claim l hw.2 hok).list hw.1)) rfl rfl
    exact Claim.ofLog rfl rfl rfl (logCont_of_NB2 hnb rfl) (fun _ => hnb)
  | .filter d ps arg, hw, hok => by
    simp only [R3.wf, Bool.and_eq_true] at hw
    simp only [R3.ok, Bool.and_eq_true] at hok
    obtain ⟨⟨⟨hpA, haS⟩, hpw⟩, haw⟩ := hw
    exact Claim.ofPrim rfl rfl rfl rfl
      (prim_filter d ps arg haS ((claim ps hpw hok.1).list hpA) ((claim arg haw hok.2).set haS))
      (fun h => by simp [R3.isVar] at h)
  | .quant q vs dom body, hw, hok => by
    simp only [R3.wf, Bool.and_eq_true] at hw
    simp only [R3.ok, Bool.and_eq_true] at hok
    obtain ⟨⟨⟨⟨⟨⟨⟨hq, hvA⟩, hvV⟩, hdS⟩, hbL⟩, hvw⟩, hdw⟩, hbw⟩ := hw
    obtain ⟨⟨⟨hokb, hvok⟩, hdok⟩, hbok⟩ := hok
    have hq' : q = .FORALL ∨ q = .EXISTS := by
      cases q <;> first | exact Or.inl rfl | exact Or.inr rfl | (revert hq; decide)
    have cb := claim body hbw hbok
    have hu := unary_quant q vs dom body hq' hvA hvw ((claim vs hvw hvok).vtail hvA hvV).2 hdS hbL hbw hokb
      ((claim dom hdw hdok).set hdS) (cb.log hbL) (cb.nb hbL)
    have hid : ((R3.quant q vs dom body).raw.id == .ID_LOCAL || (R3.quant q vs dom body).raw.id == .NT_TUPLE) = false := by
      rcases hq' with rfl | rfl <;> rfl
    have hnb := nb_of_unaryPrim hu rfl hid
    exact Claim.ofLog rfl rfl rfl (logCont_of_NB2 hnb rfl) (fun _ => hnb)
  | .decl v dom body, hw, hok => by
    simp only [R3.wf, Bool.and_eq_true] at hw
    simp only [R3.ok, Bool.and_eq_true] at hok
    obtain ⟨⟨⟨⟨⟨⟨⟨hvS, hvV⟩, hdS⟩, hbL⟩, hbP⟩, hvw⟩, hdw⟩, hbw⟩ := hw
    obtain ⟨⟨hvok, hdok⟩, hbok⟩ := hok
    exact Claim.ofPrim rfl rfl rfl rfl
      (prim_decl v dom body ((claim v hvw hvok).var hvS hvV) hdS hbL (by simpa using hbP) ((claim dom hdw hdok).set hdS)
        ((claim body hbw hbok).log hbL))
      (fun h => by simp [R3.isVar] at h)
  | .recS v d s, hw, hok => by
    simp only [R3.wf, Bool.and_eq_true] at hw
    simp only [R3.ok, Bool.and_eq_true] at hok
    obtain ⟨⟨⟨⟨⟨⟨hvS, hvV⟩, hdS⟩, hsS⟩, hvw⟩, hdw⟩, hsw⟩ := hw
    obtain ⟨⟨hvok, hdok⟩, hsok⟩ := hok
    exact Claim.ofPrim rfl rfl rfl rfl
      (prim_recS v d s ((claim v hvw hvok).var hvS hvV) hdS hsS ((claim d hdw hdok).set hdS) ((claim s hsw hsok).set hsS))
      (fun h => by simp [R3.isVar] at h)
  | .recF v d c s, hw, hok => by
    simp only [R3.wf, Bool.and_eq_true] at hw
    simp only [R3.ok, Bool.and_eq_true] at hok
    obtain ⟨⟨⟨⟨⟨⟨⟨⟨⟨hvS, hvV⟩, hdS⟩, hcL⟩, hcP⟩, hsS⟩, hvw⟩, hdw⟩, hcw⟩, hsw⟩ := hw
    obtain ⟨⟨⟨hvok, hdok⟩, hcok⟩, hsok⟩ := hok
    exact Claim.ofPrim rfl rfl rfl rfl
      (prim_recF v d c s ((claim v hvw hvok).var hvS hvV) hdS hcL (by simpa using hcP) hsS ((claim d hdw hdok).set hdS)
        ((claim c hcw hcok).log hcL) ((claim s hsw hsok).set hsS))
      (fun h => by simp [R3.isVar] at h)
  | .imp val bs, hw, hok => by
    simp only [R3.wf, Bool.and_eq_true] at hw
    simp only [R3.ok, Bool.and_eq_true] at hok
    obtain ⟨⟨⟨hvS, hbB⟩, hvw⟩, hbw⟩ := hw
    exact Claim.ofPrim rfl rfl rfl rfl
      (prim_imp val bs hvS ((claim val hvw hok.1).set hvS) ((claim bs hbw hok.2).blocks hbB))
      (fun h => by simp [R3.isVar] at h)
  | .bone b, hw, hok => by
    simp only [R3.wf, Bool.and_eq_true] at hw
    simp only [R3.ok] at hok
    exact Claim.ofBlocks rfl rfl rfl (blocks_bone b hw.1.1 (by simpa using hw.1.2) ((claim b hw.2 hok).log hw.1.1))
  | .boneK op v s, hw, hok => by
    simp only [R3.wf, Bool.and_eq_true] at hw
    simp only [R3.ok, Bool.and_eq_true] at hok
    obtain ⟨⟨⟨⟨⟨hop, hvS⟩, hvV⟩, hsS⟩, hvw⟩, hsw⟩ := hw
    exact Claim.ofBlocks rfl rfl rfl
      (blocks_boneK op v s hop hvS hvw hvV hsS ((claim v hvw hok.1).set hvS) ((claim s hsw hok.2).set hsS))
  | .bmore b l, hw, hok => by
    simp only [R3.wf, Bool.and_eq_true] at hw
    simp only [R3.ok, Bool.and_eq_true] at hok
    obtain ⟨⟨⟨⟨hbL, hbP⟩, hlB⟩, hbw⟩, hlw⟩ := hw
    exact Claim.ofBlocks rfl rfl rfl
      (blocks_bmore b l hbL (by simpa using hbP) ((claim b hbw hok.1).log hbL) ((claim l hlw hok.2).blocks hlB))
  | .bmoreK op v s l, hw, hok => by
    simp only [R3.wf, Bool.and_eq_true] at hw
    simp only [R3.ok, Bool.and_eq_true] at hok
    obtain ⟨⟨⟨⟨⟨⟨⟨hop, hvS⟩, hvV⟩, hsS⟩, hlB⟩, hvw⟩, hsw⟩, hlw⟩ := hw
    obtain ⟨⟨hvok, hsok⟩, hlok⟩ := hok
    exact Claim.ofBlocks rfl rfl rfl
      (blocks_bmoreK op v s l hop hvS hvw hvV hsS ((claim v hvw hvok).set hvS) ((claim s hsw hsok).set hsS)
        ((claim l hlw hlok).blocks hlB))
  | .par a, hw, hok => by
    simp only [R3.wf, Bool.and_eq_true] at hw
    simp only [R3.ok] at hok
    have ca := claim a hw.2 hok
    have hpk : a.kind = .setBin ∨ a.kind = .lbin ∨ a.kind = .pred := by
      have := hw.1
      simp only [R3.parOK, Bool.or_eq_true, beq_iff_eq] at this
      rcases this with (h | h) | h
      · exact Or.inl h
      · exact Or.inr (Or.inl h)
      · exact Or.inr (Or.inr h)
    have hprim : (R3.par a).isS = true → PrimP (.par a) := by
      intro hS
      simp only [R3.isS] at hS
      have hk : a.kind = .setBin := by
        have := kind_isSet2 hS
        rcases hpk with h | h | h <;> first | exact h | (rw [h] at this; cases this)
      intro F rest hF
      simp only [R3.sz] at hF
      have := primary_bracketS2 (ca.set hS) hk F rest (by omega)
      rw [kind_par_S hS]
      exact this
    have hnb : (R3.par a).isL = true → NBP2 (.par a) := by
      intro hL
      simp only [R3.isL] at hL
      have hk : a.kind = .lbin ∨ a.kind = .pred := by
        have := (kindL_logicAll2 hL).2.1
        rcases hpk with h | h | h
        · rw [h] at this; cases this
        · exact Or.inl h
        · exact Or.inr h
      intro F rest hF he
      simp only [R3.sz] at hF
      rw [kind_par_L hL]
      exact predE_bracketL2 (ca.log hL) hk F rest (by omega)
    exact ⟨fun h => setCont_of_prim h rfl (hprim h), fun h _ => hprim h, fun h => logCont_of_NB2 (hnb h) rfl,
      fun h _ => hnb h, fun h => ff rfl h, fun _ h => ff rfl h, fun h => ff rfl h, fun h => ff rfl h⟩

end CCVerif.PR
