import CCVerif.Lemmas.EvalNested
/-! Stage 9, reference side: the un-nesting relation `Unn` and its soundness for `⟦·⟧` (`Unn.sound`). -/
namespace CCVerif.Eval
open CCVerif.Syntax CCVerif.Spec CCVerif.Norm
open Val Ty

/-- what a variable of the source stands for on the flat side: the chain of projections `path` of the variable `p`
(`(x, [])`: the variable itself) -/
abbrev NCtx := List (String × (String × List Int))

/-- the flat side's environment gives every variable in scope a value of its type -/
def EnvTy (Γ : TCtx) (ρs : LEnv) : Prop :=
  ∀ y ty, lookup y Γ = some ty → ∃ w, ρs.find y = some (.val w) ∧ hasTy w ty = true

/-- the members of the reference value of a domain have the type of the bound variable / pattern -/
def DomTy (S : SEnv) (Γ : TCtx) (dom : Ast) (τ : Ty) : Prop :=
  ∀ f ρs xs, EnvTy Γ ρs → denote S f ρs dom = some (.val (.s xs)) → ∀ x ∈ xs, hasTy x τ = true

/-- the two environments agree along `Δ` -/
def URel (Δ : NCtx) (ρ ρs : LEnv) : Prop :=
  ∀ x p path, lookup x Δ = some (p, path) →
    ∃ v w, ρ.find x = some (.val v) ∧ ρs.find p = some (.val w) ∧ projPath w path = some v

theorem URel.nil (ρ ρs : LEnv) : URel [] ρ ρs := by intro x p path h; simp [lookup] at h
theorem EnvTy.nil (ρs : LEnv) : EnvTy [] ρs := by intro y ty h; simp [lookup] at h

/-- the variable that stands for a component of a pattern: named by the concatenation of its leaves (a plain
variable: itself) - this makes the candidate name of the flat pattern that of the nested one -/
def patName (k : Ast) : String := String.join ((patLeaves k).map (·.1))

/-- the flat pattern of the top-level components -/
def flatDecls (ks : List Ast) : List EDecl := ks.map fun k => (patName k, k.lo, k.hi)

/-- a leaf of the `j`-th component is the chain along its path inside the component, of the component's variable -/
def patDelta : List Ast → NCtx
  | [] => []
  | k :: ks => (patLeaves k).map (fun en => (en.1, (patName k, en.2))) ++ patDelta ks

theorem lookup_map_snd {α β} (g : α → β) (x : String) : ∀ l : List (String × α),
    lookup x (l.map fun en => (en.1, g en.2)) = (lookup x l).map g
  | [] => rfl
  | (k, v) :: l => by
    simp only [List.map_cons, lookup]
    split
    · rfl
    · exact lookup_map_snd g x l

/-- the new entries and the paths of the leaves correspond -/
theorem lookup_patDelta (x : String) : ∀ (ks : List Ast) (i : Int),
    match lookup x (patDelta ks) with
    | some r => ∃ (j : Nat) (k : Ast), ks[j]? = some k ∧ r.1 = patName k ∧
        lookup x (patLeavesKids i ks) = some ((i + j) :: r.2)
    | none => lookup x (patLeavesKids i ks) = none
  | [], _ => by simp [patDelta, patLeavesKids, lookup]
  | k :: ks, i => by
    simp only [patDelta, patLeavesKids, lookup_append]
    rw [lookup_map_snd (fun p => (patName k, p)) x (patLeaves k), lookup_map_snd (fun p => i :: p) x (patLeaves k)]
    cases h0 : lookup x (patLeaves k) with
    | some p =>
      simp only [Option.map_some]
      exact ⟨0, k, rfl, rfl, by simp⟩
    | none =>
      simp only [Option.map_none]
      have ih := lookup_patDelta x ks (i + 1)
      cases h1 : lookup x (patDelta ks) with
      | some r =>
        rw [h1] at ih
        obtain ⟨j, k', a1, a2, a3⟩ := ih
        refine ⟨j + 1, k', by simpa using a1, a2, ?_⟩
        rw [a3]; congr 2; push_cast; omega
      | none => rw [h1] at ih; exact ih

theorem posOf_get : ∀ {xs : List EDecl} {j : Nat} {q : EDecl}, (xs.map (·.1)).Nodup → xs[j]? = some q → posOf q.1 xs = some j
  | [], _, _, _, h => by simp at h
  | q0 :: qs, 0, q, _, h => by simp at h; subst h; simp [posOf]
  | q0 :: qs, j + 1, q, hnd, h => by
    have h' : qs[j]? = some q := by simpa using h
    have hq : q0.1 ∉ qs.map (·.1) := (List.nodup_cons.mp hnd).1
    have hne : q0.1 ≠ q.1 := fun e => hq (e ▸ List.mem_map.mpr ⟨q, List.mem_of_getElem? h', rfl⟩)
    simp only [posOf, hne, if_false, posOf_get (List.nodup_cons.mp hnd).2 h', Option.map_some]

theorem hasTyList_get' : ∀ {cs : List Val} {ts : List Ty} {j : Nat} {τ : Ty}, hasTyList cs ts = true → ts[j]? = some τ →
    ∃ c, cs[j]? = some c ∧ hasTy c τ = true
  | [], [], _, _, _, h => by simp at h
  | [], _ :: _, _, _, h, _ => by simp [hasTyList] at h
  | _ :: _, [], _, _, h, _ => by simp [hasTyList] at h
  | c :: cs, ty :: ts, 0, τ, h, hj => by
    simp at hj; subst hj
    simp only [hasTyList, Bool.and_eq_true] at h
    exact ⟨c, rfl, h.1⟩
  | c :: cs, ty :: ts, j + 1, τ, h, hj => by
    simp only [hasTyList, Bool.and_eq_true] at h
    obtain ⟨c', h1, h2⟩ := hasTyList_get' (cs := cs) (ts := ts) (j := j) h.2 (by simpa using hj)
    exact ⟨c', by simpa using h1, h2⟩

theorem patOKs_length : ∀ {ks : List Ast} {ts : List Ty}, patOKs ks ts = true → ks.length = ts.length
  | [], [], _ => rfl
  | [], _ :: _, h => by simp [patOKs] at h
  | _ :: _, [], h => by simp [patOKs] at h
  | _ :: ks, _ :: ts, h => by
    simp only [patOKs, Bool.and_eq_true] at h
    simp [patOKs_length h.2]

/-- **binding through the nested pattern and through its flat pattern** on a member of the domain (which has the
type of the pattern): both are defined, and the resulting environments agree along the extended context -/
theorem bind_rel {Γ : TCtx} {Δ : NCtx} {ρ ρs : LEnv} (hr : URel Δ ρ ρs) (he : EnvTy Γ ρs) (ks : List Ast) (ts : List Ty)
    (pd pd' : TokData) (plo phi plo' phi' : Int) (v : Val) (hok : patOKs ks ts = true)
    (hndL : ((patLeavesKids 1 ks).map (·.1)).Nodup) (hndF : ((flatDecls ks).map (·.1)).Nodup)
    (hfree : ∀ r ∈ Δ, r.2.1 ∉ (flatDecls ks).map (·.1)) (hv : hasTy v (.tuple ts) = true) :
    ∃ ρ' ρs', bindPat (.node .NT_TUPLE_DECL pd plo phi ks) v ρ = some ρ' ∧
      bindPat (patNode pd' plo' phi' (flatDecls ks)) v ρs = some ρs' ∧
      URel (patDelta ks ++ Δ) ρ' ρs' ∧ EnvTy (patCtx Γ (flatDecls ks) ts) ρs' := by
  have hpk : patOK (.node .NT_TUPLE_DECL pd plo phi ks) (.tuple ts) = true := by
    unfold patOK; simpa [tok_beq] using hok
  have hleaves : patLeaves (.node .NT_TUPLE_DECL pd plo phi ks) = patLeavesKids 1 ks := by
    unfold patLeaves; simp [tok_beq]
  have h1 := bindPat_leaves _ _ v ρ hpk hv
  rw [hleaves] at h1
  obtain ⟨cs, rfl, hcs⟩ := hasTy_tuple_inv hv
  have hlen : (flatDecls ks).length = ts.length := by simp [flatDecls, patOKs_length hok]
  have hlenc : (flatDecls ks).length = cs.length := by rw [hlen, hasTyList_length hcs]
  obtain ⟨ρs', h2, hfind⟩ := bindPats_flat (flatDecls ks) cs ρs hlenc hndF
  refine ⟨_, ρs', h1, by rw [bindPat_patNode]; exact h2, ?_, ?_⟩
  · intro x p path hl
    rw [lookup_append] at hl
    have hpd := lookup_patDelta x ks 1
    cases hd : lookup x (patDelta ks) with
    | some r =>
      rw [hd] at hl hpd
      injection hl with hl; subst hl
      obtain ⟨j, k, a1, a2, a3⟩ := hpd
      simp only at a2 a3
      have hmem : (x, (1 + (j : Int)) :: path) ∈ patLeavesKids 1 ks := lookup_mem a3
      obtain ⟨u, hu⟩ := projPaths_defined ks ts cs 1 (.t cs) hok hcs (fun j => by
        have := nth_t_cast cs 1 j (by omega)
        simpa using this) _ hmem
      have hq : (flatDecls ks)[j]? = some (patName k, k.lo, k.hi) := by simp [flatDecls, a1]
      have hjc : j < cs.length := by
        rw [← hlenc]; exact (List.getElem?_eq_some_iff.mp hq).1
      have hnth : nth (.t cs) (1 + (j : Int)) = some cs[j] := by
        have := nth_t_cast cs 1 j (by omega)
        simp only [Int.sub_self, Int.toNat_zero, Nat.zero_add] at this
        rw [this]; exact List.getElem?_eq_getElem hjc
      refine ⟨u, cs[j], ?_, ?_, ?_⟩
      · rw [find_bindLeaves _ _ _ _ hndL, a3]; simp [hu]
      · rw [a2, hfind, posOf_get hndF hq]; simp [hjc]
      · simpa [projPath, hnth] using hu
    | none =>
      rw [hd] at hl hpd
      simp only at hl hpd
      obtain ⟨v0, w0, b1, b2, b3⟩ := hr x p path hl
      refine ⟨v0, w0, ?_, ?_, b3⟩
      · rw [find_bindLeaves _ _ _ _ hndL, hpd]; exact b1
      · rw [hfind, posOf_none.mpr (hfree _ (lookup_mem hl))]; exact b2
  · intro y ty hy
    rw [lookup_patCtx y _ ts Γ hlen hndF] at hy
    cases hp : posOf y (flatDecls ks) with
    | some j =>
      rw [hp] at hy
      obtain ⟨c, c1, c2⟩ := hasTyList_get' hcs hy
      exact ⟨c, by rw [hfind, hp]; simp [c1], c2⟩
    | none =>
      rw [hp] at hy
      obtain ⟨w, w1, w2⟩ := he y ty hy
      exact ⟨w, by rw [hfind, hp]; exact w1, w2⟩

/-- entering a binder over a plain variable, the same on both sides -/
theorem URel.bind1 {Δ : NCtx} {ρ ρs : LEnv} (h : URel Δ ρ ρs) (x : String) (v : Val) (hx : ∀ r ∈ Δ, r.2.1 ≠ x) :
    URel ((x, (x, [])) :: Δ) (.val x v ρ) (.val x v ρs) := by
  intro y p path hl
  by_cases e : y = x
  · subst e
    rw [lookup_cons_self] at hl
    injection hl with hl; injection hl with h1 h2; subst h1; subst h2
    exact ⟨v, v, find_val_self _ _ _, find_val_self _ _ _, rfl⟩
  · rw [lookup_cons_ne _ _ e] at hl
    obtain ⟨v0, w0, b1, b2, b3⟩ := h y p path hl
    have hp : p ≠ x := hx _ (lookup_mem hl)
    exact ⟨v0, w0, by rw [find_val_ne _ _ e]; exact b1, by rw [find_val_ne _ _ hp]; exact b2, b3⟩

theorem EnvTy.bind1 {Γ : TCtx} {ρs : LEnv} (h : EnvTy Γ ρs) (x : String) (v : Val) (τ : Ty) (hv : hasTy v τ = true) :
    EnvTy ((x, τ) :: Γ) (.val x v ρs) := by
  intro y ty hy
  by_cases e : y = x
  · subst e
    rw [lookup_cons_self] at hy; injection hy with hy; subst hy
    exact ⟨v, find_val_self _ _ _, hv⟩
  · rw [lookup_cons_ne _ _ e] at hy
    obtain ⟨w, w1, w2⟩ := h y ty hy
    exact ⟨w, by rw [find_val_ne _ _ e]; exact w1, w2⟩

/-! ## chains of projections -/

theorem select_single (v : Val) (i : Int) : select v [i] = nth v i := by
  unfold select
  cases h : nth v i <;> simp [List.mapM_cons, List.mapM_nil, h]

/-- the value of a chain of projections around `inner` -/
theorem denote_wrapPr (S : SEnv) (ρs : LEnv) (lo hi : Int) : ∀ (path : List Int) (inner : Ast) (o : Option Val),
    (∀ f r, denote S f ρs inner = some r → ∃ v, o = some v ∧ r = .val v) →
    ∀ f r, denote S f ρs (wrapPr path lo hi inner) = some r → ∃ v, (o.bind fun w => projPath w path) = some v ∧ r = .val v
  | [], inner, o, h, f, r, hr => by
    obtain ⟨v, rfl, rfl⟩ := h f r hr
    exact ⟨v, by simp [projPath], rfl⟩
  | i :: path, inner, o, h, f, r, hr => by
    have hstep : ∀ f r, denote S f ρs (.node .SMALLPR (.tuple [i]) lo hi [inner]) = some r →
        ∃ v, (o.bind fun w => nth w i) = some v ∧ r = .val v := by
      intro f r hr
      cases f with
      | zero => rw [denote_zero] at hr; cases hr
      | succ f =>
        rw [denote_smallpr] at hr
        cases hd : denote S f ρs inner with
        | none => rw [hd] at hr; simp [dVal] at hr
        | some r0 =>
          obtain ⟨v0, rfl, rfl⟩ := h f r0 hd
          rw [hd] at hr
          simp only [dVal, select_single] at hr
          cases hn : nth v0 i with
          | none => rw [hn] at hr; simp at hr
          | some u => rw [hn] at hr; simp at hr; exact ⟨u, by simp [hn], hr.symm⟩
    have := denote_wrapPr S ρs lo hi path _ _ hstep f r (by simpa [wrapPr] using hr)
    obtain ⟨v, hv, rfl⟩ := this
    refine ⟨v, ?_, rfl⟩
    cases o with
    | none => simp at hv
    | some w => simpa [projPath, Option.bind_assoc] using hv

/-! ## `denote` at binders over an arbitrary pattern -/

theorem denote_quantNest {t : Tok} (ht : isQuant t) (env : SEnv) (fuel : Nat) (ρ : LEnv) (pd : TokData) (plo phi : Int)
    (ks : List Ast) (dom body : Ast) (d : TokData) (lo hi : Int) :
    denote env (fuel + 1) ρ (.node t d lo hi [.node .NT_TUPLE_DECL pd plo phi ks, dom, body]) =
      match dSet (denote env fuel ρ dom) with
      | none => none
      | some vs =>
        (let rs := vs.map fun v =>
            match bindPat (.node .NT_TUPLE_DECL pd plo phi ks) v ρ with
            | none => none
            | some ρ' => dBool (denote env fuel ρ' body)
         if t == .FORALL then kAll rs else kAny rs).map SemVal.bool := by
  rcases ht with rfl | rfl <;>
  · simp only [denote, Ast.id, Ast.kids, List.getElem?_cons_zero, List.getElem?_cons_succ, Option.getD_some]
    simp only [show (Tok.NT_TUPLE_DECL == Tok.NT_ENUM_DECL) = false by decide]
    rfl

theorem denote_declNest (env : SEnv) (fuel : Nat) (ρ : LEnv) (pd : TokData) (plo phi : Int)
    (ks : List Ast) (dom body : Ast) (d : TokData) (lo hi : Int) :
    denote env (fuel + 1) ρ (.node .NT_DECLARATIVE_EXPR d lo hi [.node .NT_TUPLE_DECL pd plo phi ks, dom, body]) =
      match dSet (denote env fuel ρ dom) with
      | none => none
      | some vs =>
        ((vs.mapM fun v =>
            match bindPat (.node .NT_TUPLE_DECL pd plo phi ks) v ρ with
            | none => none
            | some ρ' => (dBool (denote env fuel ρ' body)).map fun b => (v, b)).map keep).map SemVal.val := by
  simp only [denote, Ast.id, Ast.kids, List.getElem?_cons_zero, List.getElem?_cons_succ, Option.getD_some]
  rfl

/-! ## the relation -/

/-- `Unn S Γ Δ e es`: `es` is `e` with every tuple pattern (nested or not) made flat; `Γ` types the variables of the
flat side, `Δ` says what a variable of the source stands for.  Node ranges of `es` are free. -/
inductive Unn (S : SEnv) : TCtx → NCtx → Ast → Ast → Prop where
  | lit {Γ : TCtx} {Δ : NCtx} (n lo hi lo' hi' : Int) :
      Unn S Γ Δ (.node .LIT_INTEGER (.int n) lo hi []) (.node .LIT_INTEGER (.int n) lo' hi' [])
  | empty {Γ : TCtx} {Δ : NCtx} (d : TokData) (lo hi lo' hi' : Int) :
      Unn S Γ Δ (.node .LIT_EMPTYSET d lo hi []) (.node .LIT_EMPTYSET d lo' hi' [])
  | glob {Γ : TCtx} {Δ : NCtx} (g : String) (lo hi lo' hi' : Int) :
      Unn S Γ Δ (.node .ID_GLOBAL (.text g) lo hi []) (.node .ID_GLOBAL (.text g) lo' hi' [])
  /-- a bound variable: itself, or the chain of projections of the variable of the component it is a leaf of -/
  | loc {Γ : TCtx} {Δ : NCtx} (x p : String) (path : List Int) (lo hi lo' hi' : Int) : lookup x Δ = some (p, path) →
      Unn S Γ Δ (.node .ID_LOCAL (.text x) lo hi []) (wrapPr path lo' hi' (.node .ID_LOCAL (.text p) lo' hi' []))
  | un {Γ : TCtx} {Δ : NCtx} {t : Tok} {a as : Ast} (d : TokData) (lo hi lo' hi' : Int) : isUn t → Unn S Γ Δ a as →
      Unn S Γ Δ (.node t d lo hi [a]) (.node t d lo' hi' [as])
  | pr {Γ : TCtx} {Δ : NCtx} {t : Tok} {a as : Ast} (idx : List Int) (lo hi lo' hi' : Int) : t = .SMALLPR ∨ t = .BIGPR →
      Unn S Γ Δ a as → Unn S Γ Δ (.node t (.tuple idx) lo hi [a]) (.node t (.tuple idx) lo' hi' [as])
  | bin {Γ : TCtx} {Δ : NCtx} {t : Tok} {a b as bs : Ast} (d : TokData) (lo hi lo' hi' : Int) : isBin7 t →
      Unn S Γ Δ a as → Unn S Γ Δ b bs → Unn S Γ Δ (.node t d lo hi [a, b]) (.node t d lo' hi' [as, bs])
  | mem {Γ : TCtx} {Δ : NCtx} {t : Tok} {a b as bs : Ast} (d : TokData) (lo hi lo' hi' : Int) : isMemTok t →
      b.id ≠ .BOOLEAN → bs.id ≠ .BOOLEAN →
      Unn S Γ Δ a as → Unn S Γ Δ b bs → Unn S Γ Δ (.node t d lo hi [a, b]) (.node t d lo' hi' [as, bs])
  | memPow {Γ : TCtx} {Δ : NCtx} {t : Tok} {a b as bs : Ast} (d d' : TokData) (lo hi lo' hi' lo2 hi2 lo2' hi2' : Int) :
      isMemTok t → Unn S Γ Δ a as → Unn S Γ Δ b bs →
      Unn S Γ Δ (.node t d lo hi [a, .node .BOOLEAN d' lo2 hi2 [b]]) (.node t d lo' hi' [as, .node .BOOLEAN d' lo2' hi2' [bs]])
  | nary {Γ : TCtx} {Δ : NCtx} {t : Tok} (d : TokData) (lo hi lo' hi' : Int) (ks kss : List Ast) : isNary t →
      ks.length = kss.length → (∀ q ∈ ks.zip kss, Unn S Γ Δ q.1 q.2) →
      Unn S Γ Δ (.node t d lo hi ks) (.node t d lo' hi' kss)
  /-- `Q x∈dom . body` over a plain variable -/
  | quant {Γ : TCtx} {Δ : NCtx} {t : Tok} {dom body doms bodys : Ast} {τ : Ty} (d : TokData) (lo hi lo' hi' : Int) (x : String)
      (dlo dhi dlo' dhi' : Int) : isQuant t → (∀ r ∈ Δ, r.2.1 ≠ x) → DomTy S Γ doms τ →
      Unn S Γ Δ dom doms → Unn S ((x, τ) :: Γ) ((x, (x, [])) :: Δ) body bodys →
      Unn S Γ Δ (.node t d lo hi [.node .ID_LOCAL (.text x) dlo dhi [], dom, body])
        (.node t d lo' hi' [.node .ID_LOCAL (.text x) dlo' dhi' [], doms, bodys])
  | decl {Γ : TCtx} {Δ : NCtx} {dom body doms bodys : Ast} {τ : Ty} (d : TokData) (lo hi lo' hi' : Int) (x : String)
      (dlo dhi dlo' dhi' : Int) : (∀ r ∈ Δ, r.2.1 ≠ x) → DomTy S Γ doms τ →
      Unn S Γ Δ dom doms → Unn S ((x, τ) :: Γ) ((x, (x, [])) :: Δ) body bodys →
      Unn S Γ Δ (.node .NT_DECLARATIVE_EXPR d lo hi [.node .ID_LOCAL (.text x) dlo dhi [], dom, body])
        (.node .NT_DECLARATIVE_EXPR d lo' hi' [.node .ID_LOCAL (.text x) dlo' dhi' [], doms, bodys])
  /-- `Q pat∈dom . body` over a tuple pattern of any nesting depth: the flat side binds the flat pattern of the
  top-level components (distinct leaves; the component variables distinct and not in use) -/
  | quantPat {Γ : TCtx} {Δ : NCtx} {t : Tok} {dom body doms bodys : Ast} {ts : List Ty} (d : TokData) (lo hi lo' hi' : Int)
      (pd pd' : TokData) (plo phi plo' phi' : Int) (ks : List Ast) :
      isQuant t → patOKs ks ts = true → ((patLeavesKids 1 ks).map (·.1)).Nodup → ((flatDecls ks).map (·.1)).Nodup →
      (∀ r ∈ Δ, r.2.1 ∉ (flatDecls ks).map (·.1)) → DomTy S Γ doms (.tuple ts) →
      Unn S Γ Δ dom doms → Unn S (patCtx Γ (flatDecls ks) ts) (patDelta ks ++ Δ) body bodys →
      Unn S Γ Δ (.node t d lo hi [.node .NT_TUPLE_DECL pd plo phi ks, dom, body])
        (.node t d lo' hi' [patNode pd' plo' phi' (flatDecls ks), doms, bodys])
  /-- `D{pat∈dom | body}` -/
  | declPat {Γ : TCtx} {Δ : NCtx} {dom body doms bodys : Ast} {ts : List Ty} (d : TokData) (lo hi lo' hi' : Int)
      (pd pd' : TokData) (plo phi plo' phi' : Int) (ks : List Ast) :
      patOKs ks ts = true → ((patLeavesKids 1 ks).map (·.1)).Nodup → ((flatDecls ks).map (·.1)).Nodup →
      (∀ r ∈ Δ, r.2.1 ∉ (flatDecls ks).map (·.1)) → DomTy S Γ doms (.tuple ts) →
      Unn S Γ Δ dom doms → Unn S (patCtx Γ (flatDecls ks) ts) (patDelta ks ++ Δ) body bodys →
      Unn S Γ Δ (.node .NT_DECLARATIVE_EXPR d lo hi [.node .NT_TUPLE_DECL pd plo phi ks, dom, body])
        (.node .NT_DECLARATIVE_EXPR d lo' hi' [patNode pd' plo' phi' (flatDecls ks), doms, bodys])

/-- **soundness of un-nesting**: a value of the flat expression (at fuel `f`) is the value of the expression with
nested patterns at every fuel `≥ f` -/
theorem Unn.sound {S : SEnv} {Γ : TCtx} {Δ : NCtx} {e es : Ast} (h : Unn S Γ Δ e es) :
    ∀ ρ ρs, URel Δ ρ ρs → EnvTy Γ ρs → Sim S 0 ρ e ρs es := by
  induction h with
  | lit n lo hi lo' hi' =>
    intro ρ ρs _ _
    exact Sim.node (fun f g _ v hv => by rw [denote_lit] at hv ⊢; exact hv)
  | empty d lo hi lo' hi' =>
    intro ρ ρs _ _
    exact Sim.node (fun f g _ v hv => by rw [denote_empty] at hv ⊢; exact hv)
  | glob g lo hi lo' hi' =>
    intro ρ ρs _ _
    exact Sim.node (fun f g _ v hv => by rw [denote_global] at hv ⊢; exact hv)
  | loc x p path lo hi lo' hi' hl =>
    intro ρ ρs hr _
    obtain ⟨v, w, h1, h2, h3⟩ := hr x p path hl
    intro f r hr' f' hf'
    have hinner : ∀ f r, denote S f ρs (.node .ID_LOCAL (.text p) lo' hi' []) = some r → ∃ v, some w = some v ∧ r = .val v := by
      intro f r hr
      cases f with
      | zero => rw [denote_zero] at hr; cases hr
      | succ f => rw [denote_local, h2] at hr; injection hr with hr; exact ⟨w, rfl, hr.symm⟩
    obtain ⟨u, hu, rfl⟩ := denote_wrapPr S ρs lo' hi' path _ (some w) hinner f r hr'
    simp only [Option.bind_some, h3] at hu
    injection hu with hu; subst hu
    cases f with
    | zero => rw [denote_zero] at hr'; cases hr'
    | succ f =>
      obtain ⟨g, rfl⟩ : ∃ g, f' = g + 1 := ⟨f' - 1, by omega⟩
      rw [denote_local, h1]
  | @un Γ Δ t a as d lo hi lo' hi' ht _ ih =>
    intro ρ ρs hr he
    refine Sim.node (fun f g hg => ?_)
    have key := (ih ρ ρs hr he).ole hg
    intro v hv
    rcases ht with rfl | rfl | rfl | rfl | rfl | rfl
    · rw [denote_card] at hv ⊢; strict1_case f ρs as key hv
    · rw [denote_bool] at hv ⊢; strict1_case f ρs as key hv
    · rw [denote_debool] at hv ⊢; strict1_case f ρs as key hv
    · rw [denote_reduce] at hv ⊢; strict1_case f ρs as key hv
    · rw [denote_not] at hv ⊢; strict1_case f ρs as key hv
    · rw [denote_boolean] at hv ⊢; strict1_case f ρs as key hv
  | @pr Γ Δ t a as idx lo hi lo' hi' ht _ ih =>
    intro ρ ρs hr he
    refine Sim.node (fun f g hg => ?_)
    have key := (ih ρ ρs hr he).ole hg
    intro v hv
    rcases ht with rfl | rfl
    · rw [denote_smallpr] at hv ⊢; strict1_case f ρs as key hv
    · rw [denote_bigpr] at hv ⊢; strict1_case f ρs as key hv
  | @bin Γ Δ t a b as bs d lo hi lo' hi' ht _ _ iha ihb =>
    intro ρ ρs hr he
    refine Sim.node (fun f g hg => ?_)
    have ka := (iha ρ ρs hr he).ole hg
    have kb := (ihb ρ ρs hr he).ole hg
    intro v hv
    rcases ht with ht | ht | ht | ht | ht | ht
    · rw [denote_arith ht] at hv ⊢
      exact OLe.strict2 (fun ra rb => (dInt ra).bind fun x => (dInt rb).map fun y => SemVal.val (.e (arithOp t x y)))
        (fun _ => rfl) (fun x => by simp [dInt]) ka kb v hv
    · rw [denote_intCmp ht] at hv ⊢
      exact OLe.strict2 (fun ra rb => (dInt ra).bind fun x => (dInt rb).map fun y => SemVal.bool (intCmpOp t x y))
        (fun _ => rfl) (fun x => by simp [dInt]) ka kb v hv
    · rw [denote_eq ht] at hv ⊢
      exact OLe.strict2 (fun ra rb => (dVal ra).bind fun x => (dVal rb).map fun y =>
          SemVal.bool (decide (x = y) != (t == .NOTEQUAL)))
        (fun _ => rfl) (fun x => by simp [dVal]) ka kb v hv
    · rw [denote_sub ht] at hv ⊢
      exact OLe.strict2 (fun ra rb => ((dSet ra).bind fun xs => (dSet rb).map fun ys => subSpec t xs ys).map SemVal.bool)
        (fun _ => rfl) (fun x => by simp [dSet, dVal]) ka kb v hv
    · rw [denote_setOp ht] at hv ⊢
      exact OLe.strict2 (fun ra rb => ((dSet ra).bind fun xs => (dSet rb).map fun ys => setOpSpec t xs ys).map SemVal.val)
        (fun _ => rfl) (fun x => by simp [dSet, dVal]) ka kb v hv
    · rw [denote_conn ht] at hv ⊢
      have hm := kConn_mono ht (dBool_mono ka) (dBool_mono kb)
      cases hk : kConn t (dBool (denote S f ρs as)) (dBool (denote S f ρs bs)) with
      | none => rw [hk] at hv; cases hv
      | some r => rw [hm r hk]; rw [hk] at hv; exact hv
  | @mem Γ Δ t a b as bs d lo hi lo' hi' ht hb hbs _ _ iha ihb =>
    intro ρ ρs hr he
    refine Sim.node (fun f g hg => ?_)
    have ka := (iha ρ ρs hr he).ole hg
    have kb := (ihb ρ ρs hr he).ole hg
    intro v hv
    rw [denote_mem ht _ _ _ _ _ _ _ _ hbs] at hv
    rw [denote_mem ht _ _ _ _ _ _ _ _ hb]
    exact OLe.strict2 (fun ra rb => (((dVal ra).bind fun x => (dSet rb).map fun ys => isMember x ys).map
        fun r => r != (t == .NOTIN)).map SemVal.bool)
      (fun _ => rfl) (fun x => by simp [dSet, dVal]) ka kb v hv
  | @memPow Γ Δ t a b as bs d d' lo hi lo' hi' lo2 hi2 lo2' hi2' ht _ _ iha ihb =>
    intro ρ ρs hr he
    refine Sim.node (fun f g hg => ?_)
    have ka := (iha ρ ρs hr he).ole hg
    have kb := (ihb ρ ρs hr he).ole hg
    intro v hv
    rw [denote_memPow ht] at hv ⊢
    exact OLe.strict2 (fun ra rb => (((dSet ra).bind fun xs => (dSet rb).map fun ys => isSubset xs ys).map
        fun r => r != (t == .NOTIN)).map SemVal.bool)
      (fun _ => rfl) (fun x => by simp [dSet, dVal]) ka kb v hv
  | @nary Γ Δ t d lo hi lo' hi' ks kss ht hlen _ ih =>
    intro ρ ρs hr he
    refine Sim.node (fun f g hg => ?_)
    have hq : ∀ q ∈ ks.zip kss, OLe (denote S f ρs q.2) (denote S g ρ q.1) := fun q hq => (ih q hq ρ ρs hr he).ole hg
    intro v hv
    rcases ht with rfl | rfl | rfl
    · rw [denote_enum] at hv ⊢
      have hm := mapM_mono dVal rfl (denote S g ρ) (denote S f ρs) ks kss hlen hq
      cases hk : kss.mapM (fun k => dVal (denote S f ρs k)) with
      | none => rw [hk] at hv; cases hv
      | some vs => rw [hm vs hk]; rw [hk] at hv; exact hv
    · rw [denote_tuple] at hv ⊢
      have hm := mapM_mono dVal rfl (denote S g ρ) (denote S f ρs) ks kss hlen hq
      cases hk : kss.mapM (fun k => dVal (denote S f ρs k)) with
      | none => rw [hk] at hv; cases hv
      | some vs => rw [hm vs hk]; rw [hk] at hv; exact hv
    · rw [denote_decart] at hv ⊢
      have hm := mapM_mono dSet rfl (denote S g ρ) (denote S f ρs) ks kss hlen hq
      cases hk : kss.mapM (fun k => dSet (denote S f ρs k)) with
      | none => rw [hk] at hv; cases hv
      | some vs => rw [hm vs hk]; rw [hk] at hv; exact hv
  | @quant Γ Δ t dom body doms bodys τ d lo hi lo' hi' x dlo dhi dlo' dhi' ht hx hty _ _ ihd ihb =>
    intro ρ ρs hr he
    refine Sim.node (fun f g hg => ?_)
    have kd := (ihd ρ ρs hr he).ole hg
    intro v hv
    rw [denote_quant ht] at hv ⊢
    cases hrd : denote S f ρs doms with
    | none => rw [hrd] at hv; simp [dSet, dVal] at hv
    | some wd =>
      rw [kd wd hrd]; rw [hrd] at hv
      cases hs : dSet (some wd) with
      | none => rw [hs] at hv; simp at hv
      | some xs =>
        rw [hs] at hv
        have hwd : wd = .val (.s xs) := by
          rcases wd with (w | b)
          · cases w <;> simp [dSet, dVal, members] at hs; subst hs; rfl
          · simp [dSet, dVal] at hs
        subst hwd
        have hb : ∀ w ∈ xs, OLe (dBool (denote S f (.val x w ρs) bodys)) (dBool (denote S g (.val x w ρ) body)) :=
          fun w hw => dBool_mono ((ihb _ _ (hr.bind1 x w hx) (he.bind1 x w τ (hty f ρs xs he hrd w hw))).ole hg)
        have hall := kAll_mono xs _ _ hb
        have hany := kAny_mono xs _ _ hb
        simp only at hv ⊢
        by_cases hu : (t == Tok.FORALL) = true
        · simp only [hu, if_true] at hv ⊢
          cases hk : kAll (xs.map fun w => dBool (denote S f (.val x w ρs) bodys)) with
          | none => rw [hk] at hv; cases hv
          | some r => rw [hall r hk]; rw [hk] at hv; exact hv
        · simp only [hu] at hv ⊢
          cases hk : kAny (xs.map fun w => dBool (denote S f (.val x w ρs) bodys)) with
          | none => rw [hk] at hv; cases hv
          | some r => rw [hany r hk]; rw [hk] at hv; exact hv
  | @decl Γ Δ dom body doms bodys τ d lo hi lo' hi' x dlo dhi dlo' dhi' hx hty _ _ ihd ihb =>
    intro ρ ρs hr he
    refine Sim.node (fun f g hg => ?_)
    have kd := (ihd ρ ρs hr he).ole hg
    intro v hv
    rw [denote_decl] at hv ⊢
    cases hrd : denote S f ρs doms with
    | none => rw [hrd] at hv; simp [dSet, dVal] at hv
    | some wd =>
      rw [kd wd hrd]; rw [hrd] at hv
      cases hs : dSet (some wd) with
      | none => rw [hs] at hv; simp at hv
      | some xs =>
        rw [hs] at hv
        have hwd : wd = .val (.s xs) := by
          rcases wd with (w | b)
          · cases w <;> simp [dSet, dVal, members] at hs; subst hs; rfl
          · simp [dSet, dVal] at hs
        subst hwd
        have hb : ∀ w ∈ xs, OLe ((dBool (denote S f (.val x w ρs) bodys)).map fun b => (w, b))
            ((dBool (denote S g (.val x w ρ) body)).map fun b => (w, b)) :=
          fun w hw => OLe.strict1 (fun r => (dBool r).map fun b => (w, b)) rfl
            ((ihb _ _ (hr.bind1 x w hx) (he.bind1 x w τ (hty f ρs xs he hrd w hw))).ole hg)
        have hm := mapM_val_mono xs _ _ hb
        simp only at hv ⊢
        cases hk : xs.mapM (fun w => (dBool (denote S f (.val x w ρs) bodys)).map fun b => (w, b)) with
        | none => rw [hk] at hv; cases hv
        | some r => rw [hm r hk]; rw [hk] at hv; exact hv
  | @quantPat Γ Δ t dom body doms bodys ts d lo hi lo' hi' pd pd' plo phi plo' phi' ks ht hok hndL hndF hfree hty _ _ ihd ihb =>
    intro ρ ρs hr he
    refine Sim.node (fun f g hg => ?_)
    have kd := (ihd ρ ρs hr he).ole hg
    intro v hv
    rw [denote_quantPat ht] at hv
    rw [denote_quantNest ht]
    cases hrd : denote S f ρs doms with
    | none => rw [hrd] at hv; simp [dSet, dVal] at hv
    | some wd =>
      rw [kd wd hrd]; rw [hrd] at hv
      cases hs : dSet (some wd) with
      | none => rw [hs] at hv; simp at hv
      | some xs =>
        rw [hs] at hv
        have hwd : wd = .val (.s xs) := by
          rcases wd with (w | b)
          · cases w <;> simp [dSet, dVal, members] at hs; subst hs; rfl
          · simp [dSet, dVal] at hs
        subst hwd
        have hb : ∀ w ∈ xs, OLe (patBody S f pd' plo' phi' (flatDecls ks) ρs bodys w)
            (match bindPat (.node .NT_TUPLE_DECL pd plo phi ks) w ρ with
              | none => none
              | some ρ' => dBool (denote S g ρ' body)) := by
          intro w hw
          obtain ⟨ρ', ρs', b1, b2, b3, b4⟩ := bind_rel hr he ks ts pd pd' plo phi plo' phi' w hok hndL hndF hfree
            (hty f ρs xs he hrd w hw)
          simp only [patBody, b1, b2]
          exact dBool_mono ((ihb _ _ b3 b4).ole hg)
        have hall := kAll_mono xs _ _ hb
        have hany := kAny_mono xs _ _ hb
        simp only at hv ⊢
        by_cases hu : (t == Tok.FORALL) = true
        · simp only [hu, if_true] at hv ⊢
          cases hk : kAll (xs.map (patBody S f pd' plo' phi' (flatDecls ks) ρs bodys)) with
          | none => rw [hk] at hv; cases hv
          | some r => rw [hall r hk]; rw [hk] at hv; exact hv
        · simp only [hu] at hv ⊢
          cases hk : kAny (xs.map (patBody S f pd' plo' phi' (flatDecls ks) ρs bodys)) with
          | none => rw [hk] at hv; cases hv
          | some r => rw [hany r hk]; rw [hk] at hv; exact hv
  | @declPat Γ Δ dom body doms bodys ts d lo hi lo' hi' pd pd' plo phi plo' phi' ks hok hndL hndF hfree hty _ _ ihd ihb =>
    intro ρ ρs hr he
    refine Sim.node (fun f g hg => ?_)
    have kd := (ihd ρ ρs hr he).ole hg
    intro v hv
    rw [denote_declPat] at hv
    rw [denote_declNest]
    cases hrd : denote S f ρs doms with
    | none => rw [hrd] at hv; simp [dSet, dVal] at hv
    | some wd =>
      rw [kd wd hrd]; rw [hrd] at hv
      cases hs : dSet (some wd) with
      | none => rw [hs] at hv; simp at hv
      | some xs =>
        rw [hs] at hv
        have hwd : wd = .val (.s xs) := by
          rcases wd with (w | b)
          · cases w <;> simp [dSet, dVal, members] at hs; subst hs; rfl
          · simp [dSet, dVal] at hs
        subst hwd
        have hb : ∀ w ∈ xs, OLe ((patBody S f pd' plo' phi' (flatDecls ks) ρs bodys w).map fun b => (w, b))
            (match bindPat (.node .NT_TUPLE_DECL pd plo phi ks) w ρ with
              | none => none
              | some ρ' => (dBool (denote S g ρ' body)).map fun b => (w, b)) := by
          intro w hw
          obtain ⟨ρ', ρs', b1, b2, b3, b4⟩ := bind_rel hr he ks ts pd pd' plo phi plo' phi' w hok hndL hndF hfree
            (hty f ρs xs he hrd w hw)
          simp only [patBody, b1, b2]
          exact OLe.strict1 (fun r => (dBool r).map fun b => (w, b)) rfl ((ihb _ _ b3 b4).ole hg)
        have hm := mapM_val_mono xs _ _ hb
        simp only at hv ⊢
        cases hk : xs.mapM (fun w => (patBody S f pd' plo' phi' (flatDecls ks) ρs bodys w).map fun b => (w, b)) with
        | none => rw [hk] at hv; cases hv
        | some r => rw [hm r hk]; rw [hk] at hv; exact hv

end CCVerif.Eval
