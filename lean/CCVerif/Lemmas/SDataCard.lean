import CCVerif.Spec.SDataCard
import CCVerif.Lemmas.SDataLazy
/-!
C15: what `Cardinality()` of a lazy set returns (`SDPowerSet::UpdateSize`, `SDDecartian::UpdateSize`),
against the set-theoretic cardinality `LSet.trueCard`.  Core Lean only.
-/
set_option linter.unusedSimpArgs false
set_option linter.unusedVariables false
namespace CCVerif.SData

theorem SET_INFINITY_val : SET_INFINITY = 268435455 := rfl
theorem BOOL_INFINITY_val : BOOL_INFINITY = 30 := rfl

/-! ## iteration yields `trueCard` elements -/

theorem allSome_length {α : Type} : ∀ (xs : List (Option α)) (ys : List α), allSome xs = some ys → ys.length = xs.length
  | [], ys, h => by simp only [allSome, Option.some.injEq] at h; subst h; rfl
  | none :: _, _, h => by simp [allSome] at h
  | some x :: r, ys, h => by
    simp only [allSome, Option.map_eq_some_iff] at h
    obtain ⟨ys', h1, rfl⟩ := h
    simp [allSome_length r ys' h1]

theorem powIter_length (base P : List Val) (h : powIter base = some P) : P.length = 2 ^ base.length := by
  rw [powIter_eq] at h
  cases h
  rw [List.length_map, length_allSubs]

theorem prodIter_length (facs : List (List Val)) (P : List Val) (h : prodIter facs = some P) :
    P.length = (facs.map List.length).foldr (· * ·) 1 := by
  rw [prodIter_eq] at h
  rw [allSome_length _ _ h, List.length_map, length_tuplesOf]

mutual
/-- whatever an implementation yields when iterated, it yields `trueCard` elements. -/
theorem LSet.iter_length : ∀ (l : LSet) (xs : List Val), l.iter = some xs → xs.length = l.trueCard
  | .enum ys, xs, h => by
    simp only [LSet.iter, Option.some.injEq] at h
    subst h; rfl
  | .pow b, xs, h => by
    simp only [LSet.iter, Option.bind_eq_some_iff] at h
    obtain ⟨base, hb, hp⟩ := h
    rw [powIter_length base xs hp, LSet.iter_length b base hb]
    rfl
  | .prod fs, xs, h => by
    simp only [LSet.iter, Option.bind_eq_some_iff] at h
    obtain ⟨xss, hb, hp⟩ := h
    rw [prodIter_length xss xs hp, LSet.iterList_length fs xss hb]
    rfl
theorem LSet.iterList_length : ∀ (fs : List LSet) (xss : List (List Val)), LSet.iterList fs = some xss →
    xss.map List.length = LSet.trueCards fs
  | [], xss, h => by
    simp only [LSet.iterList, Option.some.injEq] at h
    subst h; rfl
  | f :: fs, xss, h => by
    simp only [LSet.iterList] at h
    split at h
    · rename_i a r ha hr
      cases h
      simp only [List.map_cons, LSet.trueCards, LSet.iter_length f a ha, LSet.iterList_length fs r hr]
    · cases h
end

/-! ## `SDDecartian::UpdateSize` -/

theorem div_ge_self_imp_one (d : Nat) (hd : d ≠ 0) (h : SET_INFINITY / d ≥ SET_INFINITY) : d = 1 := by
  apply Classical.byContradiction
  intro hne
  have := Nat.div_lt_self (n := SET_INFINITY) (k := d) (by decide) (by omega)
  omega

/-- at `SET_INFINITY` a factor leaves the count where it is (a factor of size 1 passes the test and
multiplies by 1, any other saturates). -/
theorem prodCount_S_cons (d : Nat) (ds : List Nat) (hd : d ≠ 0) :
    prodCount (d :: ds) SET_INFINITY = prodCount ds SET_INFINITY := by
  simp only [prodCount, hd, if_false]
  split
  · rename_i h
    rw [div_ge_self_imp_one d hd h, Nat.mul_one]
  · rfl

/-- once saturated the count stays at `SET_INFINITY`. -/
theorem prodCount_sat : ∀ ds : List Nat, (∀ d ∈ ds, d ≠ 0) → prodCount ds SET_INFINITY = some SET_INFINITY
  | [], _ => rfl
  | d :: ds, h => by
    rw [prodCount_S_cons d ds (h d (by simp))]
    exact prodCount_sat ds (fun x hx => h x (by simp [hx]))

theorem prodCount_cons_step (d : Nat) (ds : List Nat) (c : Nat) (hd : d ≠ 0) (h : c * d ≤ SET_INFINITY) :
    prodCount (d :: ds) c = prodCount ds (c * d) := by
  have hgt : SET_INFINITY / d ≥ c := (Nat.le_div_iff_mul_le (by omega)).2 h
  simp only [prodCount, hd, if_false, hgt, if_true]

theorem prodCount_cons_sat (d : Nat) (ds : List Nat) (c : Nat) (hd : d ≠ 0) (h : ¬ c * d ≤ SET_INFINITY) :
    prodCount (d :: ds) c = prodCount ds SET_INFINITY := by
  have hgt : ¬ SET_INFINITY / d ≥ c := by
    intro hgt
    exact h ((Nat.le_div_iff_mul_le (by omega)).1 hgt)
  simp only [prodCount, hd, if_false, hgt]

/-- what `Cardinality()` reports (`c`) against the set-theoretic cardinality: the exact number on
`cardExact`, otherwise `SET_INFINITY` — and then the true cardinality is above `SET_INFINITY`. -/
def CardRel (l : LSet) (c : Nat) : Prop :=
  (l.cardExact = true → c = l.trueCard) ∧
  (l.cardExact = false → c = SET_INFINITY ∧ SET_INFINITY < l.trueCard)

/-- the loop of `SDDecartian::UpdateSize` over the reported factor sizes `cs`, started at any count. -/
def ProdRel (fs : List LSet) (cs : List Nat) : Prop :=
  prodCount cs SET_INFINITY = some SET_INFINITY ∧
  ∀ c, 1 ≤ c →
    (LSet.cardExactList fs = true → prodFits (LSet.trueCards fs) c = true →
      prodCount cs c = some (c * (LSet.trueCards fs).foldr (· * ·) 1)) ∧
    (¬ (LSet.cardExactList fs = true ∧ prodFits (LSet.trueCards fs) c = true) →
      prodCount cs c = some SET_INFINITY ∧ SET_INFINITY < c * (LSet.trueCards fs).foldr (· * ·) 1)

theorem ProdRel.nil : ProdRel [] [] := by
  refine ⟨rfl, fun c hc => ⟨fun _ _ => by simp [prodCount, LSet.trueCards], fun h => ?_⟩⟩
  exact absurd ⟨rfl, rfl⟩ h

theorem ProdRel.cons {f : LSet} {a : Nat} {fs : List LSet} {cs : List Nat} (hf : CardRel f a)
    (ht : f.trueCard ≠ 0) (hr : ProdRel fs cs) (hP : 0 < (LSet.trueCards fs).foldr (· * ·) 1) :
    ProdRel (f :: fs) (a :: cs) := by
  generalize hPd : (LSet.trueCards fs).foldr (· * ·) 1 = P at hr hP
  have hfold : (LSet.trueCards (f :: fs)).foldr (· * ·) 1 = f.trueCard * P := by
    simp only [LSet.trueCards, List.foldr_cons, hPd]
  have ha : a ≠ 0 := by
    cases hx : f.cardExact with
    | true => rw [hf.1 hx]; exact ht
    | false => rw [(hf.2 hx).1, SET_INFINITY_val]; omega
  refine ⟨?_, ?_⟩
  · rw [prodCount_S_cons a cs ha]
    exact hr.1
  intro c hc
  rw [hfold]
  have hbig : f.trueCard ≤ c * (f.trueCard * P) := by
    calc f.trueCard ≤ f.trueCard * P := Nat.le_mul_of_pos_right _ hP
      _ ≤ c * (f.trueCard * P) := Nat.le_mul_of_pos_left _ (by omega)
  cases hx : f.cardExact with
  | false =>
    obtain ⟨e, hb⟩ := hf.2 hx
    subst e
    have hstep : prodCount (SET_INFINITY :: cs) c = some SET_INFINITY := by
      by_cases h1 : c * SET_INFINITY ≤ SET_INFINITY
      · have hc1 : c = 1 := by
          apply Classical.byContradiction
          intro hne
          have : 2 * SET_INFINITY ≤ c * SET_INFINITY := Nat.mul_le_mul_right _ (by omega)
          rw [SET_INFINITY_val] at *
          omega
        rw [prodCount_cons_step _ cs c ha h1, hc1, Nat.one_mul]
        exact hr.1
      · rw [prodCount_cons_sat _ cs c ha h1]
        exact hr.1
    refine ⟨fun h => ?_, fun _ => ⟨hstep, by omega⟩⟩
    simp [LSet.cardExactList, hx] at h
  | true =>
    have e := hf.1 hx
    subst e
    by_cases hs : c * f.trueCard ≤ SET_INFINITY
    · rw [prodCount_cons_step f.trueCard cs c ht hs]
      have hc' : 1 ≤ c * f.trueCard := Nat.mul_pos (by omega) (by omega)
      obtain ⟨h1, h2⟩ := hr.2 (c * f.trueCard) hc'
      rw [hPd] at h1 h2
      have hfit : prodFits (LSet.trueCards (f :: fs)) c = prodFits (LSet.trueCards fs) (c * f.trueCard) := by
        simp only [LSet.trueCards, prodFits, hs, decide_true, Bool.true_and]
      have hex : LSet.cardExactList (f :: fs) = LSet.cardExactList fs := by
        simp only [LSet.cardExactList, hx, Bool.true_and]
      rw [hfit, hex, ← Nat.mul_assoc]
      exact ⟨h1, h2⟩
    · rw [prodCount_cons_sat f.trueCard cs c ht hs]
      have hfit : prodFits (LSet.trueCards (f :: fs)) c = false := by
        simp only [LSet.trueCards, prodFits, hs, decide_false, Bool.false_and]
      refine ⟨fun _ h => (by rw [hfit] at h; cases h), fun _ => ⟨hr.1, ?_⟩⟩
      have h2 : c * f.trueCard ≤ c * (f.trueCard * P) := Nat.mul_le_mul_left c (Nat.le_mul_of_pos_right _ hP)
      omega

theorem two_pow_ge_of_gt (n : Nat) (h : BOOL_INFINITY < n) : SET_INFINITY < 2 ^ n := by
  have : 2 ^ (BOOL_INFINITY + 1) ≤ 2 ^ n := Nat.pow_le_pow_right (by omega) h
  have e : 2 ^ (BOOL_INFINITY + 1) = 2147483648 := by decide
  rw [SET_INFINITY_val]; omega

mutual
/-- the complete characterisation of `Cardinality()` for every implementation without an empty
product factor. -/
theorem LSet.card_rel : ∀ l : LSet, l.factorsNonempty = true → ∃ c, l.card = some c ∧ CardRel l c
  | .enum xs, _ => ⟨xs.length, rfl, ⟨fun _ => rfl, fun h => by simp [LSet.cardExact] at h⟩⟩
  | .pow b, h => by
    simp only [LSet.factorsNonempty] at h
    obtain ⟨n, hn, hr⟩ := LSet.card_rel b h
    refine ⟨if n > BOOL_INFINITY then SET_INFINITY else 2 ^ n, by simp [LSet.card, hn], ?_⟩
    cases hx : b.cardExact with
    | true =>
      have e := hr.1 hx
      subst e
      by_cases hle : b.trueCard ≤ BOOL_INFINITY
      · have : ¬ b.trueCard > BOOL_INFINITY := by omega
        simp only [this, if_false]
        exact ⟨fun _ => rfl, fun h => by simp [LSet.cardExact, hx, hle] at h⟩
      · have hgt : b.trueCard > BOOL_INFINITY := by omega
        simp only [hgt, if_true]
        refine ⟨fun h => by simp [LSet.cardExact, hx, hle] at h, fun _ => ⟨rfl, ?_⟩⟩
        have := two_pow_ge_of_gt b.trueCard hgt
        simp only [LSet.trueCard]; exact this
    | false =>
      obtain ⟨e, hb⟩ := hr.2 hx
      subst e
      have hgt : SET_INFINITY > BOOL_INFINITY := by decide
      simp only [hgt, if_true]
      refine ⟨fun h => by simp [LSet.cardExact, hx] at h, fun _ => ⟨rfl, ?_⟩⟩
      have := two_pow_ge_of_gt b.trueCard (by rw [SET_INFINITY_val] at hb; rw [BOOL_INFINITY_val]; omega)
      simp only [LSet.trueCard]; exact this
  | .prod fs, h => by
    simp only [LSet.factorsNonempty] at h
    obtain ⟨cs, hcs, hr, _⟩ := LSet.cardList_rel fs h
    obtain ⟨h1, h2⟩ := hr.2 1 (Nat.le_refl 1)
    cases hx : (LSet.prod fs).cardExact with
    | true =>
      have hx' := hx
      simp only [LSet.cardExact, Bool.and_eq_true] at hx'
      refine ⟨_, by simp only [LSet.card, hcs, Option.bind_some]; exact h1 hx'.1 hx'.2,
        ⟨fun _ => ?_, fun h => by rw [hx] at h; cases h⟩⟩
      simp [LSet.trueCard]
    | false =>
      have hx' : ¬ (LSet.cardExactList fs = true ∧ prodFits (LSet.trueCards fs) 1 = true) := by
        intro hh
        simp [LSet.cardExact, hh.1, hh.2] at hx
      obtain ⟨h3, h4⟩ := h2 hx'
      refine ⟨_, by simp only [LSet.card, hcs, Option.bind_some]; exact h3,
        ⟨fun h => (by rw [hx] at h; cases h), fun _ => ⟨rfl, ?_⟩⟩⟩
      simpa [LSet.trueCard] using h4
theorem LSet.cardList_rel : ∀ fs : List LSet, LSet.factorsNonemptyList fs = true →
    ∃ cs, LSet.cardList fs = some cs ∧ ProdRel fs cs ∧ 0 < (LSet.trueCards fs).foldr (· * ·) 1
  | [], _ => ⟨[], rfl, ProdRel.nil, by simp [LSet.trueCards]⟩
  | f :: fs, h => by
    simp only [LSet.factorsNonemptyList, Bool.and_eq_true, decide_eq_true_eq] at h
    obtain ⟨a, ha, hf⟩ := LSet.card_rel f h.1.1
    obtain ⟨cs, hcs, hr, hP⟩ := LSet.cardList_rel fs h.2
    refine ⟨a :: cs, by simp [LSet.cardList, ha, hcs], ProdRel.cons hf h.1.2 hr hP, ?_⟩
    simp only [LSet.trueCards, List.foldr_cons]
    exact Nat.mul_pos (by omega) hP
end

/-! ## the specification function of the driver -/

mutual
theorem LSet.specCard_eq : ∀ l : LSet, l.specCard = if l.cardExact = true then some l.trueCard else none
  | .enum xs => rfl
  | .pow b => by
    simp only [LSet.specCard, LSet.specCard_eq b, LSet.cardExact, LSet.trueCard]
    by_cases hb : b.cardExact = true <;> simp [hb]
  | .prod fs => by
    simp only [LSet.specCard, LSet.specCards_eq fs, LSet.cardExact, LSet.trueCard]
    by_cases hb : LSet.cardExactList fs = true <;> simp [hb]
theorem LSet.specCards_eq : ∀ fs : List LSet,
    LSet.specCards fs = if LSet.cardExactList fs = true then some (LSet.trueCards fs) else none
  | [] => rfl
  | f :: fs => by
    simp only [LSet.specCards, LSet.specCard_eq f, LSet.specCards_eq fs, LSet.cardExactList, LSet.trueCards]
    by_cases hf : f.cardExact = true <;> by_cases hb : LSet.cardExactList fs = true <;> simp [hf, hb]
end

/-! ## consequences -/

/-- every set of at most `SET_INFINITY` members is in the exact range. -/
theorem LSet.cardExact_of_small (l : LSet) (h : l.factorsNonempty = true) (hs : l.trueCard ≤ SET_INFINITY) :
    l.cardExact = true := by
  obtain ⟨c, _, hr⟩ := LSet.card_rel l h
  cases hx : l.cardExact with
  | true => rfl
  | false => have := (hr.2 hx).2; omega

theorem LSet.card_zero_iff (l : LSet) (h : l.factorsNonempty = true) : l.card = some 0 ↔ l.trueCard = 0 := by
  obtain ⟨c, hc, hr⟩ := LSet.card_rel l h
  rw [hc]
  cases hx : l.cardExact with
  | true => rw [hr.1 hx]; simp
  | false =>
    obtain ⟨e, hb⟩ := hr.2 hx
    rw [e, SET_INFINITY_val] at *
    constructor
    · intro h0; cases h0
    · intro h0; omega

theorem LSet.factorsNonemptyList_iff : ∀ fs : List LSet,
    LSet.factorsNonemptyList fs = true ↔ ∀ f ∈ fs, f.factorsNonempty = true ∧ f.trueCard ≠ 0
  | [] => by simp [LSet.factorsNonemptyList]
  | f :: fs => by
    simp only [LSet.factorsNonemptyList, Bool.and_eq_true, decide_eq_true_eq, LSet.factorsNonemptyList_iff fs,
      List.forall_mem_cons]

theorem LSet.trueCards_prod_zero : ∀ (fs : List LSet) (f : LSet), f ∈ fs → f.trueCard = 0 →
    (LSet.trueCards fs).foldr (· * ·) 1 = 0
  | g :: fs, f, hm, h0 => by
    simp only [LSet.trueCards, List.foldr_cons]
    rcases List.mem_cons.mp hm with e | hm
    · subst e; rw [h0, Nat.zero_mul]
    · rw [LSet.trueCards_prod_zero fs f hm h0, Nat.mul_zero]

/-- for non-zero factor sizes the side condition of a product is order independent: it says that the
running count times the whole product is at most `SET_INFINITY`. -/
theorem prodFits_iff : ∀ (ds : List Nat) (c : Nat), (∀ d ∈ ds, d ≠ 0) → 1 ≤ c → c ≤ SET_INFINITY →
    (prodFits ds c = true ↔ c * ds.foldr (· * ·) 1 ≤ SET_INFINITY)
  | [], c, _, _, hc => by simp [prodFits, hc]
  | d :: ds, c, h, hc1, hc => by
    have hd : d ≠ 0 := h d (by simp)
    have hp : 0 < ds.foldr (· * ·) 1 := foldr_mul_pos ds (fun x hx => Nat.pos_of_ne_zero (h x (by simp [hx])))
    have hle : c * d ≤ c * (d * ds.foldr (· * ·) 1) := Nat.mul_le_mul_left c (Nat.le_mul_of_pos_right d hp)
    simp only [prodFits, List.foldr_cons, Bool.and_eq_true, decide_eq_true_eq]
    by_cases hs : c * d ≤ SET_INFINITY
    · rw [prodFits_iff ds (c * d) (fun x hx => h x (by simp [hx])) (Nat.mul_pos (by omega) (by omega)) hs,
        Nat.mul_assoc]
      exact ⟨fun h => h.2, fun h => ⟨hs, h⟩⟩
    · exact ⟨fun h => absurd h.1 hs, fun h => absurd (Nat.le_trans hle h) hs⟩

/-- `Factory::Decartian` never builds an `SDDecartian` with an empty factor, and denotes the
set-theoretic product (empty when a factor is). -/
theorem decartian_spec (fs : List LSet) (h : ∀ f ∈ fs, f.factorsNonempty = true) :
    (decartian fs).factorsNonempty = true ∧ (decartian fs).trueCard = (LSet.prod fs).trueCard := by
  unfold decartian
  split
  · rename_i hany
    obtain ⟨f, hf, hc⟩ := List.any_eq_true.mp hany
    have h0 : f.trueCard = 0 := (LSet.card_zero_iff f (h f hf)).1 (by simpa using hc)
    refine ⟨rfl, ?_⟩
    simp only [LSet.trueCard, List.length_nil]
    exact (LSet.trueCards_prod_zero fs f hf h0).symm
  · rename_i hany
    refine ⟨?_, rfl⟩
    simp only [LSet.factorsNonempty]
    rw [LSet.factorsNonemptyList_iff]
    intro f hf
    refine ⟨h f hf, fun h0 => hany ?_⟩
    exact List.any_eq_true.mpr ⟨f, hf, by simp [(LSet.card_zero_iff f (h f hf)).2 h0]⟩

/-- the set implementations the public API can build: `Factory::Set` / `EmptySet` / `AddElement`
(enumerations), `Factory::Boolean`, `Factory::Decartian`. -/
inductive Built : LSet → Prop
  | enum (xs : List Val) : Built (.enum xs)
  | boolean {b : LSet} : Built b → Built (boolean b)
  | decartian {fs : List LSet} : (∀ f ∈ fs, Built f) → Built (decartian fs)

theorem Built.factorsNonempty {l : LSet} (h : Built l) : l.factorsNonempty = true := by
  induction h with
  | enum xs => rfl
  | boolean _ ih => exact ih
  | decartian _ ih => exact (decartian_spec _ ih).1

/-- a well-formed implementation iterates `trueCard` pairwise different elements. -/
theorem LSet.iter_nodup_length (l : LSet) (τ : Ty) (h : l.wf τ = true) :
    ∃ xs, l.iter = some xs ∧ xs.Nodup ∧ xs.length = l.trueCard := by
  obtain ⟨xs, h1, h2⟩ := LSet.faithful l τ h
  exact ⟨xs, h1, sortedLt_nodup xs h2.sorted, LSet.iter_length l xs h1⟩

end CCVerif.SData
