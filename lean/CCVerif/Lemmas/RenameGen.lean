import CCVerif.Lemmas.SchemaGen
import CCVerif.Lemmas.RSModelGenRen
/-!
C08, schema level, GENERIC: a consistent renaming of the names of a store (aliases and the names
inside the definitions) is an isomorphism of the analysis, for ANY per-constituent analysis of the
generic machine `Model/SchemaGen.lean` that is lawful (`Lawful`, the frame laws of C07) and
EQUIVARIANT (`Equivariance`, below): same dependency edges, report = the old report with the
renaming applied to the entries.

* `Equivariance A` — the law: an abstract type of renamings `Ren` (so that an instance can carry more
  than a function on names: the type checker needs a second function on the base names of types),
  closed under inverse, acting on names (`app`), definitions (`renD`) and entries (`renI`); a side
  condition `Good r c` tying a renaming to a constituent (what the instance needs of the names in the
  definition); the analysis commutes with a renaming of skeleton, context and constituent
  (`analyse_ren`), the extracted mentions are renamed (`mentions_ren`), `TranslateRS` with a partial
  map that acts like `r` on the mentions IS `renD r` (`rename_eq`).
* `Val.ren`, `Final.ren` — the intended entries are transported by a renaming;
* `iso_of_renaming_gen` — two well-formed states whose stores differ by a renaming have the same
  dependency edges and reports that differ by `renI`;
* `setAlias_iso_gen`, `substitute_iso_gen` — `SetAliasFor(substitute = true)` and `SubstitueAliases`
  are such renamings.
-/
namespace CCVerif.SchemaGen
open CCVerif CCVerif.Graph
open CCVerif.Schema (Kind sortDedup lookup flatMap_congr' sortDedup_congr)

variable {D I : Type} {A : Analysis D I}

/-- the skeleton with the aliases renamed -/
def renSk (g : String → String) (sk : Skel) : Skel := sk.map fun p => (p.1, g p.2.1, p.2.2)

/-- the EQUIVARIANCE law of an analysis -/
structure Equivariance (A : Analysis D I) where
  /-- the admissible renamings -/
  Ren : Type
  /-- the action on global names -/
  app : Ren → String → String
  inv : Ren → Ren
  /-- the action on definitions (every global name of the definition is renamed) -/
  renD : Ren → D → D
  /-- the action on analysis entries (the names inside the typification are renamed) -/
  renI : Ren → I → I
  /-- what the renaming must satisfy relative to the names inside a constituent -/
  Good : Ren → Cst D → Prop
  app_inv : ∀ r n, app (inv r) (app r n) = n
  renD_inv : ∀ r c, Good r c → renD (inv r) (renD r c.defn) = c.defn
  good_inv : ∀ r c, Good r c → Good (inv r) { c with alias := app r c.alias, defn := renD r c.defn }
  mentions_ren : ∀ r c, Good r c → A.mentions (renD r c.defn) = (A.mentions c.defn).map (app r)
  /-- the status is kept -/
  ok_ren : ∀ r i, A.ok (renI r i) = A.ok i
  /-- `TranslateRS` with a partial map that acts like `r` on the mentioned names -/
  rename_eq : ∀ r (f : String → Option String) c, Good r c →
    (∀ n ∈ A.mentions c.defn, (f n).getD n = app r n) → A.rename f c.defn = renD r c.defn
  /-- the analysis commutes with a consistent renaming of skeleton, context and constituent -/
  analyse_ren : ∀ r (sk : Skel) (ctx ctx' : String → Option I) (c : Cst D), Good r c →
    (∀ m ∈ A.mentions c.defn, ctx' (app r m) = (ctx m).map (renI r)) →
    A.analyse (renSk (app r) sk) ctx' { c with alias := app r c.alias, defn := renD r c.defn } =
      renI r (A.analyse sk ctx c)

namespace Equivariance
variable (Q : Equivariance A)

/-- the renamed constituent -/
def renC (r : Q.Ren) (c : Cst D) : Cst D := { c with alias := Q.app r c.alias, defn := Q.renD r c.defn }

@[simp] theorem renC_uid (r : Q.Ren) (c : Cst D) : (Q.renC r c).uid = c.uid := rfl
@[simp] theorem renC_kind (r : Q.Ren) (c : Cst D) : (Q.renC r c).kind = c.kind := rfl
@[simp] theorem renC_alias (r : Q.Ren) (c : Cst D) : (Q.renC r c).alias = Q.app r c.alias := rfl
@[simp] theorem renC_defn (r : Q.Ren) (c : Cst D) : (Q.renC r c).defn = Q.renD r c.defn := rfl

theorem app_injective (r : Q.Ren) {a b : String} (h : Q.app r a = Q.app r b) : a = b := by
  rw [← Q.app_inv r a, ← Q.app_inv r b, h]

theorem renC_inv (r : Q.Ren) {c : Cst D} (hg : Q.Good r c) : Q.renC (Q.inv r) (Q.renC r c) = c := by
  unfold renC
  simp only [Q.app_inv, Q.renD_inv r c hg]

theorem map_renC_inv (r : Q.Ren) {s : List (Cst D)} (hg : ∀ c ∈ s, Q.Good r c) :
    (s.map (Q.renC r)).map (Q.renC (Q.inv r)) = s := by
  rw [List.map_map]
  conv => rhs; rw [← List.map_id s]
  apply List.map_congr_left
  intro c hc
  exact Q.renC_inv r (hg c hc)

theorem good_map (r : Q.Ren) {s : List (Cst D)} (hg : ∀ c ∈ s, Q.Good r c) :
    ∀ c' ∈ s.map (Q.renC r), Q.Good (Q.inv r) c' := by
  intro c' hc'
  obtain ⟨c, hc, rfl⟩ := List.mem_map.1 hc'
  exact Q.good_inv r c (hg c hc)

/-- resolution commutes with a renaming -/
theorem findAliasL_ren (r : Q.Ren) (m : String) : ∀ s : List (Cst D),
    findAliasL (s.map (Q.renC r)) (Q.app r m) = findAliasL s m
  | [] => rfl
  | c :: s => by
    have ih := findAliasL_ren r m s
    unfold findAliasL at ih ⊢
    rw [List.map_cons, List.find?_cons, List.find?_cons]
    by_cases hcm : c.alias = m
    · have e1 : ((Q.renC r c).alias == Q.app r m) = true := by simp [hcm]
      have e2 : (c.alias == m) = true := by simp [hcm]
      rw [e1, e2]
      rfl
    · have e1 : ((Q.renC r c).alias == Q.app r m) = false := by
        simp only [renC_alias, beq_eq_false_iff_ne, ne_eq]
        exact fun h => hcm (Q.app_injective r h)
      have e2 : (c.alias == m) = false := by simp [hcm]
      rw [e1, e2]
      exact ih

theorem skelOf_ren (r : Q.Ren) (s : List (Cst D)) :
    skelOf (s.map (Q.renC r)) = renSk (Q.app r) (skelOf s) := by
  unfold skelOf renSk
  rw [List.map_map, List.map_map]
  rfl

theorem uids_ren (r : Q.Ren) (s : List (Cst D)) : uids (s.map (Q.renC r)) = uids s := by
  unfold uids
  rw [List.map_map]
  rfl

theorem ctxOf_ren (r : Q.Ren) (s : List (Cst D)) (jf : Nat → I) (m : String) :
    ctxOf (s.map (Q.renC r)) (fun v => Q.renI r (jf v)) (Q.app r m) = (ctxOf s jf m).map (Q.renI r) := by
  unfold ctxOf
  rw [Q.findAliasL_ren]
  cases findAliasL s m <;> rfl

end Equivariance

/-! ## transport of the intended entries -/

/-- a successful entry is transported by a renaming -/
theorem Val.ren (Q : Equivariance A) (r : Q.Ren) {s : List (Cst D)} (hg : ∀ c ∈ s, Q.Good r c)
    {u : Nat} {i : I} (h : Val A s u i) : Val A (s.map (Q.renC r)) u (Q.renI r i) := by
  induction h with
  | @mk c jf hc hd hok ih =>
    have heq : A.analyse (skelOf (s.map (Q.renC r))) (ctxOf (s.map (Q.renC r)) (fun v => Q.renI r (jf v)))
        (Q.renC r c) = Q.renI r (A.analyse (skelOf s) (ctxOf s jf) c) := by
      rw [Q.skelOf_ren]
      exact Q.analyse_ren r _ _ _ c (hg c hc) (fun m _ => Q.ctxOf_ren r s jf m)
    have := Val.mk (A := A) (s := s.map (Q.renC r)) (c := Q.renC r c) (fun v => Q.renI r (jf v))
      (List.mem_map.2 ⟨c, hc, rfl⟩)
      (fun m' hm' v hv => by
        have hm'' : m' ∈ (A.mentions c.defn).map (Q.app r) := by
          rw [← Q.mentions_ren r c (hg c hc)]; exact hm'
        obtain ⟨m, hm, rfl⟩ := List.mem_map.1 hm''
        rw [Q.findAliasL_ren] at hv
        exact ih m hm v hv)
      (by rw [heq, Q.ok_ren]; exact hok)
    rw [heq] at this
    exact this

/-- … and back -/
theorem Val.ren_back (Q : Equivariance A) (r : Q.Ren) {s : List (Cst D)} (hg : ∀ c ∈ s, Q.Good r c)
    {u : Nat} {j : I} (h : Val A (s.map (Q.renC r)) u j) : Val A s u (Q.renI (Q.inv r) j) := by
  have := h.ren Q (Q.inv r) (Q.good_map r hg)
  rw [Q.map_renC_inv r hg] at this
  exact this

/-- the entry of a complete analysis is transported by a renaming -/
theorem Final.ren (Q : Equivariance A) (r : Q.Ren) {s : List (Cst D)} (hg : ∀ c ∈ s, Q.Good r c)
    {u : Nat} {i : I} (h : Final A s u i) : Final A (s.map (Q.renC r)) u (Q.renI r i) := by
  obtain ⟨c, hc, hu, jf, hd, rfl⟩ := h
  refine ⟨Q.renC r c, List.mem_map.2 ⟨c, hc, rfl⟩, hu, fun v => Q.renI r (jf v), ?_, ?_⟩
  · intro m' hm' v hv
    have hm'' : m' ∈ (A.mentions c.defn).map (Q.app r) := by
      rw [← Q.mentions_ren r c (hg c hc)]; exact hm'
    obtain ⟨m, hm, rfl⟩ := List.mem_map.1 hm''
    rw [Q.findAliasL_ren] at hv
    rcases hd m hm v hv with h1 | ⟨h1, h2⟩
    · exact Or.inl (h1.ren Q r hg)
    · exact Or.inr ⟨by rw [Q.ok_ren]; exact h1, fun j' hj' => h2 _ (hj'.ren_back Q r hg)⟩
  · rw [Q.skelOf_ren]
    exact (Q.analyse_ren r _ _ _ c (hg c hc) (fun m _ => Q.ctxOf_ren r s jf m)).symm

/-! ## renaming is an isomorphism of the analysis -/

theorem filterMap_congr'' {α β : Type} {f g : α → Option β} : ∀ {l : List α},
    (∀ x ∈ l, f x = g x) → l.filterMap f = l.filterMap g
  | [], _ => rfl
  | x :: xs, h => by
    simp only [List.filterMap_cons, h x (List.mem_cons_self ..),
      filterMap_congr'' (fun y hy => h y (List.mem_cons_of_mem _ hy))]

theorem flatMap_map'' {α β γ : Type} (f : α → β) (k : β → List γ) :
    ∀ l : List α, (l.map f).flatMap k = l.flatMap (fun x => k (f x))
  | [] => rfl
  | x :: xs => by rw [List.map_cons, List.flatMap_cons, List.flatMap_cons, flatMap_map'' f k xs]

/-- **renaming is an isomorphism of the analysis (generic).** `st` and `st'` are well-formed states
of the generic machine (the C07 invariant), the store of `st'` is the store of `st` renamed by `r`
(aliases and definitions), and `r` is good for every constituent. Then both states have the same
dependency edges, and the report of `st'` is the report of `st` with `r` applied to the entries. -/
theorem iso_of_renaming_gen (hA : Lawful A) (Q : Equivariance A) {st st' : St D I} (h : WF A st)
    (h' : WF A st') (r : Q.Ren) (hg : ∀ c ∈ st.store, Q.Good r c)
    (hstore : st'.store = st.store.map (Q.renC r)) :
    st'.depEdges A = st.depEdges A ∧
    st'.report A = (st.report A).map (fun p => (p.1, Q.renI r p.2)) := by
  have hn' : (uids st'.store).Nodup := h'.base.nodup
  have hinfo : ∀ u ∈ uids st.store, st'.infoFor A u = Q.renI r (st.infoFor A u) := by
    intro u hu
    have h1 := (h.sync u hu).ren Q r hg
    rw [← hstore] at h1
    have hu' : u ∈ uids st'.store := by rw [hstore, Q.uids_ren]; exact hu
    exact (h'.sync u hu').unique hA hn' h1
  refine ⟨?_, ?_⟩
  · rw [depEdges_eq_store h', depEdges_eq_store h, hstore, flatMap_map'']
    apply flatMap_congr'
    intro c hc
    show (inputsOfL A (st.store.map (Q.renC r)) (Q.renC r c)).map (·, c.uid) = _
    congr 1
    unfold inputsOfL
    rw [Q.renC_defn, Q.mentions_ren r c (hg c hc), List.filterMap_map]
    congr 1
    apply filterMap_congr''
    intro m _
    exact Q.findAliasL_ren r m st.store
  · unfold St.report
    rw [hstore, List.map_map, List.map_map]
    apply List.map_congr_left
    intro c hc
    simp only [Function.comp, Equivariance.renC_uid]
    rw [hinfo c.uid (mem_uids.2 ⟨c, hc, rfl⟩)]

/-! ## the renaming operations of the machine -/

section steps
variable [DecidableEq D]

/-- every name that occurs in a store: the aliases and the mentioned names -/
def namesOfG (A : Analysis D I) (s : List (Cst D)) : List String :=
  s.map (·.alias) ++ s.flatMap (fun c => A.mentions c.defn)

omit [DecidableEq D] in
theorem alias_mem_namesOfG {s : List (Cst D)} {c : Cst D} (hc : c ∈ s) : c.alias ∈ namesOfG A s :=
  List.mem_append_left _ (List.mem_map.2 ⟨c, hc, rfl⟩)

omit [DecidableEq D] in
theorem mention_mem_namesOfG {s : List (Cst D)} {c : Cst D} (hc : c ∈ s) {m : String}
    (hm : m ∈ A.mentions c.defn) : m ∈ namesOfG A s :=
  List.mem_append_right _ (List.mem_flatMap.2 ⟨c, hc, hm⟩)

omit [DecidableEq D] in
theorem cst_eta (x : Cst D) : (⟨x.uid, x.alias, x.kind, x.defn⟩ : Cst D) = x := by cases x; rfl

/-- `SetAliasFor(u, new, substitute = true)` renames the store by any admissible renaming that acts
like `old ↦ new` on the names that occur in the store -/
theorem setAlias_iso_gen (hA : Lawful A) (Q : Equivariance A) {st : St D I} (h : WF A st)
    (hd : AliasesDistinct st) {u : Nat} {c : Cst D} (hat : st.at u = some c) (new : String)
    (hne : c.alias ≠ new) (r : Q.Ren) (hg : ∀ x ∈ st.store, Q.Good r x)
    (hold : Q.app r c.alias = new)
    (hfix : ∀ n ∈ namesOfG A st.store, n ≠ c.alias → Q.app r n = n) :
    (step A st (.setAlias u new true)).depEdges A = st.depEdges A ∧
    (step A st (.setAlias u new true)).report A = (st.report A).map (fun p => (p.1, Q.renI r p.2)) := by
  obtain ⟨hc, hcu⟩ := mem_of_at hat
  have hst := RSModelGen.setAlias_spec hA h true hat hne
  simp only [if_true] at hst
  rw [List.map_map] at hst
  have hal := RSModelGen.setAl_facts h.base.nodup hd hc hcu new
  refine iso_of_renaming_gen hA Q h (h.setAlias hA u new true) r hg ?_
  rw [hst]
  apply List.map_congr_left
  intro c1 hc1
  obtain ⟨b1, b2, b3, b4, _⟩ := hal c1 hc1
  simp only [Function.comp]
  have e1 : (RSModelGen.setAl u new c1).alias = Q.app r c1.alias := by
    rw [b4]
    by_cases hx : c1.alias = c.alias
    · simp [hx, hold]
    · simp [hx, hfix _ (alias_mem_namesOfG hc1) hx]
  have e2 : A.rename (fun n => if n == c.alias then some new else none) c1.defn = Q.renD r c1.defn := by
    apply Q.rename_eq r _ c1 (hg c1 hc1)
    intro n hn
    by_cases hx : n = c.alias
    · simp [hx, hold]
    · simp [hx, hfix _ (mention_mem_namesOfG hc1 hn) hx]
  unfold RSModelGen.renDef Equivariance.renC
  rw [b3, e2]
  cases hx : RSModelGen.setAl u new c1 with
  | mk u' a' k' d' =>
    rw [hx] at b1 b2 e1
    simp only at b1 b2 e1
    subst b1; subst b2; subst e1
    rfl

/-- `SubstitueAliases(m)` renames the store by any admissible renaming that acts like `m` on the
names that occur in the store -/
theorem substitute_iso_gen (hA : Lawful A) (Q : Equivariance A) {st : St D I} (h : WF A st)
    (m : List (String × String)) (r : Q.Ren) (hg : ∀ x ∈ st.store, Q.Good r x)
    (hagree : ∀ n ∈ namesOfG A st.store, Q.app r n = (lookup m n).getD n) :
    (step A st (.substitute m)).depEdges A = st.depEdges A ∧
    (step A st (.substitute m)).report A = (st.report A).map (fun p => (p.1, Q.renI r p.2)) := by
  have hb : Base ({ st with invalid := true, store := st.store.map (fun (x : Cst D) =>
      { x with alias := (lookup m x.alias).getD x.alias }) } : St D I) :=
    h.base.of_eq (uids_map_pres (fun (x : Cst D) =>
      { x with alias := (lookup m x.alias).getD x.alias }) (fun x => rfl) st.store) rfl
  have hst : (step A st (.substitute m)).store =
      (st.store.map (fun (x : Cst D) => { x with alias := (lookup m x.alias).getD x.alias })).map
        (RSModelGen.renDef A (lookup m)) := by
    unfold step
    simp only
    rw [RSModelGen.translateAll_store hA hb rfl]
  rw [List.map_map] at hst
  refine iso_of_renaming_gen hA Q h (h.substitute hA m) r hg ?_
  rw [hst]
  apply List.map_congr_left
  intro c1 hc1
  simp only [Function.comp]
  unfold RSModelGen.renDef Equivariance.renC
  simp only
  rw [Q.rename_eq r (lookup m) c1 (hg c1 hc1) (fun n hn => (hagree n (mention_mem_namesOfG hc1 hn)).symm),
    hagree _ (alias_mem_namesOfG hc1)]

end steps

end CCVerif.SchemaGen
