import CCVerif.Lemmas.ParserShape
import CCVerif.Lemmas.TokBEq
set_option linter.unusedVariables false
set_option linter.unusedSectionVars false
/-!
Helper lemmas of C06 / C04, part 2 — the invariant of the twelve parser functions for the shape of the
raw trees: a phrase tagged with the nonterminal `k` is a raw tree of category `catK k`.
-/
namespace CCVerif.ParserShape
open CCVerif.Syntax CCVerif.Generated CCVerif.Lexer CCVerif.Parser CCVerif.Types CCVerif.Checker

variable {Γ : Ctx}

/-- the category of the checker's shape predicate that a nonterminal of the parser belongs to -/
def catK : K → Cat
  | .set | .setBin => .S
  | _ => .L

theorem catK_cases (k : K) : catK k = .S ∨ catK k = .L := by cases k <;> simp [catK]
theorem catK_isSet {k : K} (h : k.isSet = true) : catK k = .S := by cases k <;> simp_all [catK, K.isSet]
theorem catK_isLogic {k : K} (h : k.isLogic = true) : catK k = .L := by cases k <;> simp_all [catK, K.isLogic]
theorem catK_isLogicAll {k : K} (h : k.isLogicAll = true) : catK k = .L := by cases k <;> simp_all [catK, K.isLogicAll]
theorem catK_isNoBinary {k : K} (h : k.isNoBinary = true) : catK k = .L := by cases k <;> simp_all [catK, K.isNoBinary]

/-- argument declaration `x ∈ dom` (raw) -/
def RawArg (Γ : Ctx) (a : Ast) : Prop := ∃ t x, stripBrackets a = some t ∧ WfArg Γ x t
def AllRawArg (Γ : Ctx) (l : List Ast) : Prop := ∀ k, k ∈ l → RawArg Γ k

@[simp] theorem allRawArg_nil : AllRawArg Γ [] := by intro k h; cases h
theorem allRawArg_append (l₁ l₂ : List Ast) : AllRawArg Γ (l₁ ++ l₂) ↔ AllRawArg Γ l₁ ∧ AllRawArg Γ l₂ := by
  simp only [AllRawArg, List.mem_append]
  exact ⟨fun h => ⟨fun k hk => h k (Or.inl hk), fun k hk => h k (Or.inr hk)⟩, fun h k hk => hk.elim (h.1 k) (h.2 k)⟩
theorem allRawArg_single (a : Ast) : AllRawArg Γ [a] ↔ RawArg Γ a := by simp [AllRawArg]

theorem raw_argDecl {l : LTok} {e : Ast} {lo hi : Int} (hl : TokOK Γ l) (hid : l.id = .ID_LOCAL) (he : RawWf Γ .S e) :
    RawArg Γ (.node .NT_ARG_DECL .none lo hi [leaf l, e]) := by
  obtain ⟨e', se, we⟩ := he
  obtain ⟨x, hx⟩ := hl.text (by simp [hid])
  have sleaf : stripBrackets (leaf l) = some (.node .ID_LOCAL (.text x) l.lo l.hi []) := by
    unfold leaf; rw [hx, hid]
    rw [strip_node _ _ _ _ (by decide), strip_list_nil]; rfl
  exact ⟨_, x, by rw [strip_node _ _ _ _ (by decide), strip2 sleaf se]; rfl, .mk we⟩

theorem raw_call_S {t : LTok} {args : List Ast} {lo hi : Int} (ht : TokOK Γ t) (hid : t.id = .ID_FUNCTION)
    (ha : AllRaw Γ .S args) (hn : 1 ≤ args.length) : RawWf Γ .S (.node .NT_FUNC_CALL .none lo hi (leaf t :: args)) := by
  have := raw_call (lo := lo) (hi := hi) ht (Or.inl hid) ha hn
  rw [hid] at this
  exact this

theorem raw_call_L {t : LTok} {args : List Ast} {lo hi : Int} (ht : TokOK Γ t) (hid : t.id = .ID_PREDICATE)
    (ha : AllRaw Γ .S args) (hn : 1 ≤ args.length) : RawWf Γ .L (.node .NT_FUNC_CALL .none lo hi (leaf t :: args)) := by
  have := raw_call (lo := lo) (hi := hi) ht (Or.inr hid) ha hn
  rw [hid] at this
  exact this

/-! ## results -/

def ResT (Γ : Ctx) : Option (K × Ast × Toks) → Prop
  | some (k, e, r) => RawWf Γ (catK k) e ∧ AllOK Γ r
  | none => True
/-- `primary`: moreover a phrase that starts with `ℬ` is a set expression that is not a binary one -/
def ResP (Γ : Ctx) (toks : Toks) : Option (K × Ast × Toks) → Prop
  | some (k, e, r) => RawWf Γ (catK k) e ∧ AllOK Γ r ∧ (peek toks = .BOOLEAN → k = .set)
  | none => True
def ResV (Γ : Ctx) : Option (Ast × Toks) → Prop
  | some (e, r) => RawWf Γ .D e ∧ AllOK Γ r
  | none => True
/-- list loops: the new elements are raw trees of category `c`, at least `min` of them -/
def ResL (Γ : Ctx) (c : Cat) (min : Nat) (acc : List Ast) : Option (List Ast × Toks) → Prop
  | some (es, r) => (AllRaw Γ c acc → AllRaw Γ c es) ∧ acc.length + min ≤ es.length ∧ AllOK Γ r
  | none => True
def ResA (Γ : Ctx) (acc : List Ast) : Option (List Ast × Toks) → Prop
  | some (es, r) => (AllRawArg Γ acc → AllRawArg Γ es) ∧ AllOK Γ r
  | none => True

theorem resT_some {k : K} {e : Ast} {r : Toks} : ResT Γ (some (k, e, r)) ↔ RawWf Γ (catK k) e ∧ AllOK Γ r := Iff.rfl
theorem resP_some {toks : Toks} {k : K} {e : Ast} {r : Toks} :
    ResP Γ toks (some (k, e, r)) ↔ RawWf Γ (catK k) e ∧ AllOK Γ r ∧ (peek toks = .BOOLEAN → k = .set) := Iff.rfl
theorem resV_some {e : Ast} {r : Toks} : ResV Γ (some (e, r)) ↔ RawWf Γ .D e ∧ AllOK Γ r := Iff.rfl
theorem resL_some {c : Cat} {min : Nat} {acc es : List Ast} {r : Toks} :
    ResL Γ c min acc (some (es, r)) ↔ (AllRaw Γ c acc → AllRaw Γ c es) ∧ acc.length + min ≤ es.length ∧ AllOK Γ r := Iff.rfl
theorem resA_some {acc es : List Ast} {r : Toks} :
    ResA Γ acc (some (es, r)) ↔ (AllRawArg Γ acc → AllRawArg Γ es) ∧ AllOK Γ r := Iff.rfl
grind_pattern resT_some => ResT Γ (some (k, e, r))
grind_pattern resP_some => ResP Γ toks (some (k, e, r))
grind_pattern resV_some => ResV Γ (some (e, r))
grind_pattern resL_some => ResL Γ c min acc (some (es, r))
grind_pattern resA_some => ResA Γ acc (some (es, r))

theorem resT_intro {o : Option (K × Ast × Toks)}
    (h : ∀ k e r, o = some (k, e, r) → RawWf Γ (catK k) e ∧ AllOK Γ r) : ResT Γ o := by
  cases o with
  | none => trivial
  | some x => obtain ⟨k, e, r⟩ := x; exact h k e r rfl
theorem resP_intro {toks : Toks} {o : Option (K × Ast × Toks)}
    (h : ∀ k e r, o = some (k, e, r) → RawWf Γ (catK k) e ∧ AllOK Γ r ∧ (peek toks = .BOOLEAN → k = .set)) : ResP Γ toks o := by
  cases o with
  | none => trivial
  | some x => obtain ⟨k, e, r⟩ := x; exact h k e r rfl
theorem resV_intro {o : Option (Ast × Toks)} (h : ∀ e r, o = some (e, r) → RawWf Γ .D e ∧ AllOK Γ r) : ResV Γ o := by
  cases o with
  | none => trivial
  | some x => obtain ⟨e, r⟩ := x; exact h e r rfl
theorem resL_intro {c : Cat} {min : Nat} {acc : List Ast} {o : Option (List Ast × Toks)}
    (h : ∀ es r, o = some (es, r) → (AllRaw Γ c acc → AllRaw Γ c es) ∧ acc.length + min ≤ es.length ∧ AllOK Γ r) :
    ResL Γ c min acc o := by
  cases o with
  | none => trivial
  | some x => obtain ⟨es, r⟩ := x; exact h es r rfl
theorem resA_intro {acc : List Ast} {o : Option (List Ast × Toks)}
    (h : ∀ es r, o = some (es, r) → (AllRawArg Γ acc → AllRawArg Γ es) ∧ AllOK Γ r) : ResA Γ acc o := by
  cases o with
  | none => trivial
  | some x => obtain ⟨es, r⟩ := x; exact h es r rfl

/-- 1 when the next token is a comma (one more element is certain), else 0 -/
def commaMin (toks : Toks) : Nat := if peek toks = .PUNC_COMMA then 1 else 0

/-- what is proved of each parser function at one value of the fuel -/
structure ParserWf (Γ : Ctx) (f : Nat) : Prop where
  enumE : ∀ toks, AllOK Γ toks → ResL Γ .S 1 [] (enumE f toks)
  enumTail : ∀ acc toks, AllOK Γ toks → ResL Γ .S (commaMin toks) acc (enumTail f acc toks)
  varE : ∀ toks, AllOK Γ toks → ResV Γ (varE f toks)
  varPackTail : ∀ acc toks, AllOK Γ toks → ResL Γ .D 0 acc (varPackTail f acc toks)
  argDecls : ∀ acc toks, AllOK Γ toks → ResA Γ acc (argDecls f acc toks)
  blocks : ∀ acc toks, AllOK Γ toks → ResL Γ .L 0 acc (blocks f acc toks)
  primary : ∀ toks, AllOK Γ toks → ResP Γ toks (primary f toks)
  setE : ∀ m toks, AllOK Γ toks → ResT Γ (setE f m toks)
  setLoop : ∀ m k lhs toks, RawWf Γ (catK k) lhs → AllOK Γ toks → ResT Γ (setLoop f m k lhs toks)
  predE : ∀ toks, AllOK Γ toks → ResT Γ (predE f toks)
  logE : ∀ m toks, AllOK Γ toks → ResT Γ (logE f m toks)
  logLoop : ∀ m k lhs toks, RawWf Γ (catK k) lhs → AllOK Γ toks → ResT Γ (logLoop f m k lhs toks)

grind_pattern ParserWf.enumE => ParserWf Γ f, AllOK Γ toks, Parser.enumE f toks
grind_pattern ParserWf.enumTail => ParserWf Γ f, AllOK Γ toks, Parser.enumTail f acc toks
grind_pattern ParserWf.varE => ParserWf Γ f, AllOK Γ toks, Parser.varE f toks
grind_pattern ParserWf.varPackTail => ParserWf Γ f, AllOK Γ toks, Parser.varPackTail f acc toks
grind_pattern ParserWf.argDecls => ParserWf Γ f, AllOK Γ toks, Parser.argDecls f acc toks
grind_pattern ParserWf.blocks => ParserWf Γ f, AllOK Γ toks, Parser.blocks f acc toks
grind_pattern ParserWf.primary => ParserWf Γ f, AllOK Γ toks, Parser.primary f toks
grind_pattern ParserWf.setE => ParserWf Γ f, AllOK Γ toks, Parser.setE f m toks
grind_pattern ParserWf.setLoop => ParserWf Γ f, Parser.setLoop f m k lhs toks
grind_pattern ParserWf.predE => ParserWf Γ f, AllOK Γ toks, Parser.predE f toks
grind_pattern ParserWf.logE => ParserWf Γ f, AllOK Γ toks, Parser.logE f m toks
grind_pattern ParserWf.logLoop => ParserWf Γ f, Parser.logLoop f m k lhs toks

theorem parserWf_zero : ParserWf Γ 0 := by
  constructor <;> intros <;> simp [enumE, enumTail, varE, varPackTail, argDecls, blocks, primary, setE, setLoop, predE, logE, logLoop, ResT, ResP, ResV, ResL, ResA]

/-- case analysis of the function body held in `h` -/
macro "parser_cases" h:ident : tactic =>
  `(tactic| ((try simp only [] at $h:ident); repeat' (split at $h:ident)))

/-- token comparisons of the parser as equations -/
macro "tok_eqs" : tactic =>
  `(tactic| simp only [tok_beq_iff, Bool.and_eq_true, Bool.or_eq_true, Bool.not_eq_true, bne_iff_ne, ne_eq] at *)

grind_pattern allOK_drop => AllOK Γ ts, List.drop n ts

macro "shape_close" : tactic =>
  `(tactic| grind (gen := 20) (ematch := 20) [allOK_cons, allOK_nil, allRaw_cons, allRaw_nil, allRaw_append, catK,
      catK_isSet, catK_isLogic, catK_isLogicAll, catK_isNoBinary, catK_cases,
      raw_removeBrackets, raw_binary_set, raw_decartian, raw_binary_pred, raw_binary_logic, raw_binary_iter,
      raw_leaf, raw_leaf_decl, raw_textOperator, raw_unary_boolean, raw_unary_not, raw_filter,
      raw_declarative, raw_recursive_full, raw_recursive_short, raw_imperative, raw_enumeration, raw_tuple,
      raw_quant, raw_de_of_d, raw_enumDecl, raw_tupleDecl, raw_local_decl, raw_call_S, raw_call_L, leaf, peek, peek2, commaMin])

theorem step_setE (f : Nat) (ih : ParserWf Γ f) :
    ∀ m toks k e r, AllOK Γ toks → setE (f + 1) m toks = some (k, e, r) → RawWf Γ (catK k) e ∧ AllOK Γ r := by
  intro m toks k e r ht h
  rw [setE.eq_def] at h; parser_cases h
  all_goals try (cases h; done)
  all_goals shape_close

theorem step_setLoop (f : Nat) (ih : ParserWf Γ f) :
    ∀ m k lhs toks k' e r, RawWf Γ (catK k) lhs → AllOK Γ toks → setLoop (f + 1) m k lhs toks = some (k', e, r) →
    RawWf Γ (catK k') e ∧ AllOK Γ r := by
  intro m k lhs toks k' e r hl ht h
  rw [setLoop.eq_def] at h; parser_cases h
  all_goals try (cases h; done)
  all_goals try tok_eqs
  all_goals shape_close

theorem step_logE (f : Nat) (ih : ParserWf Γ f) :
    ∀ m toks k e r, AllOK Γ toks → logE (f + 1) m toks = some (k, e, r) → RawWf Γ (catK k) e ∧ AllOK Γ r := by
  intro m toks k e r ht h
  rw [logE.eq_def] at h; parser_cases h
  all_goals try (cases h; done)
  all_goals shape_close

theorem step_logLoop (f : Nat) (ih : ParserWf Γ f) :
    ∀ m k lhs toks k' e r, RawWf Γ (catK k) lhs → AllOK Γ toks → logLoop (f + 1) m k lhs toks = some (k', e, r) →
    RawWf Γ (catK k') e ∧ AllOK Γ r := by
  intro m k lhs toks k' e r hl ht h
  rw [logLoop.eq_def] at h; parser_cases h
  all_goals try (cases h; done)
  all_goals try tok_eqs
  all_goals shape_close

theorem step_predE (f : Nat) (ih : ParserWf Γ f) :
    ∀ toks k e r, AllOK Γ toks → predE (f + 1) toks = some (k, e, r) → RawWf Γ (catK k) e ∧ AllOK Γ r := by
  intro toks k e r ht h
  rw [predE.eq_def] at h; parser_cases h
  all_goals try (cases h; done)
  all_goals try tok_eqs
  all_goals shape_close

theorem step_varE (f : Nat) (ih : ParserWf Γ f) :
    ∀ toks v r, AllOK Γ toks → varE (f + 1) toks = some (v, r) → RawWf Γ .D v ∧ AllOK Γ r := by
  intro toks v r ht h
  rw [varE.eq_def] at h; parser_cases h
  all_goals try (cases h; done)
  all_goals try tok_eqs
  all_goals shape_close

theorem step_enumE (f : Nat) (ih : ParserWf Γ f) :
    ∀ toks es r, AllOK Γ toks → enumE (f + 1) toks = some (es, r) →
    (AllRaw Γ .S [] → AllRaw Γ .S es) ∧ ([] : List Ast).length + 1 ≤ es.length ∧ AllOK Γ r := by
  intro toks es r ht h
  rw [enumE.eq_def] at h; parser_cases h
  all_goals try (cases h; done)
  all_goals try tok_eqs
  all_goals shape_close

theorem step_enumTail (f : Nat) (ih : ParserWf Γ f) :
    ∀ acc toks es r, AllOK Γ toks → enumTail (f + 1) acc toks = some (es, r) →
    (AllRaw Γ .S acc → AllRaw Γ .S es) ∧ acc.length + commaMin toks ≤ es.length ∧ AllOK Γ r := by
  intro acc toks es r ht h
  rw [enumTail.eq_def] at h; parser_cases h
  all_goals try (cases h; done)
  all_goals try tok_eqs
  all_goals shape_close

theorem step_varPackTail (f : Nat) (ih : ParserWf Γ f) :
    ∀ acc toks es r, AllOK Γ toks → varPackTail (f + 1) acc toks = some (es, r) →
    (AllRaw Γ .D acc → AllRaw Γ .D es) ∧ acc.length + 0 ≤ es.length ∧ AllOK Γ r := by
  intro acc toks es r ht h
  rw [varPackTail.eq_def] at h; parser_cases h
  all_goals try (cases h; done)
  all_goals try tok_eqs
  all_goals shape_close

theorem step_blocks (f : Nat) (ih : ParserWf Γ f) :
    ∀ acc toks es r, AllOK Γ toks → blocks (f + 1) acc toks = some (es, r) →
    (AllRaw Γ .L acc → AllRaw Γ .L es) ∧ acc.length + 0 ≤ es.length ∧ AllOK Γ r := by
  intro acc toks es r ht h
  rw [blocks.eq_def] at h; parser_cases h
  all_goals try (cases h; done)
  all_goals try tok_eqs
  all_goals shape_close

theorem step_argDecls (f : Nat) (ih : ParserWf Γ f) :
    ∀ acc toks es r, AllOK Γ toks → argDecls (f + 1) acc toks = some (es, r) →
    (AllRawArg Γ acc → AllRawArg Γ es) ∧ AllOK Γ r := by
  intro acc toks es r ht h
  rw [argDecls.eq_def] at h; parser_cases h
  all_goals try (cases h; done)
  all_goals try tok_eqs
  all_goals grind (gen := 20) (ematch := 20) [allOK_cons, allOK_nil, allRawArg_append, allRawArg_single, raw_argDecl,
    catK_isSet]

end CCVerif.ParserShape
