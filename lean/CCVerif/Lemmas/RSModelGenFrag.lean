import CCVerif.Lemmas.RSModelGen
import CCVerif.Lemmas.RSModelGenRen
import CCVerif.Lemmas.SchemaGenFrag
/-!
Instances of the generic value bookkeeping (`Model/RSModelGen.lean`):

* `fragE` over `fragA` — the fragment of `Model/RSModel.lean` (the value of a term is the union of
  the values of the names it mentions; a missing value is an error), with the proof of the laws;
* `nameE` over `heightA` — an evaluation that looks at the NAMES in the definition: it satisfies the
  laws, and shows that the laws do not make values survive a renaming (`SubstitueAliases`): that
  needs equivariance of the evaluation, which is a further hypothesis.
-/
namespace CCVerif.RSModelGen
open CCVerif CCVerif.SchemaGen
open CCVerif.Schema (Kind Def Info Status resultInfo renameDef)
open CCVerif.RSModel (Data unionData)

/-! ## the fragment -/

def fragE : Eval Def Info Data where
  verified := fun i => i.status == .verified
  baseReset := []
  eval := fun ctx c =>
    let vals := c.defn.mentions.map ctx
    if vals.all Option.isSome then some (vals.foldl (fun acc v => unionData acc (v.getD [])) []) else none

theorem fragE_lawful : EvalLawful fragA fragE where
  skel_indep := fun _ _ _ _ => rfl
  missing := by
    intro sk ctx c m hm hc
    show (resultInfo (fragType ctx c)).ty.isSome = false
    cases hf : fragType ctx c with
    | none => rfl
    | some t =>
      exfalso
      have hm' : m ∈ c.defn.mentions := hm
      rcases fragType_eq_some.1 hf with ⟨_, hd, _⟩ | ⟨_, n, ns, hd, hall⟩
      · rw [hd] at hm'; cases hm'
      · rw [hd] at hm'
        have := hall m hm'
        rw [hc] at this
        cases this
  verified_ok := by
    intro sk ctx c h
    have h' : ((resultInfo (fragType ctx c)).status == .verified) = true := h
    show (resultInfo (fragType ctx c)).ty.isSome = true
    cases hf : fragType ctx c with
    | none => rw [hf] at h'; cases h'
    | some t => rfl
  mono := by
    intro ctx ctx' c v hle h
    have h' : (if (c.defn.mentions.map ctx).all Option.isSome then
        some ((c.defn.mentions.map ctx).foldl (fun acc v => unionData acc (v.getD [])) []) else none) = some v := h
    show (if (c.defn.mentions.map ctx').all Option.isSome then
        some ((c.defn.mentions.map ctx').foldl (fun acc v => unionData acc (v.getD [])) []) else none) = some v
    split at h'
    · next hall =>
      have e : c.defn.mentions.map ctx' = c.defn.mentions.map ctx := by
        apply List.map_congr_left
        intro m hm
        have hs := List.all_eq_true.1 hall (ctx m) (List.mem_map.2 ⟨m, hm, rfl⟩)
        obtain ⟨x, hx⟩ := Option.isSome_iff_exists.1 hs
        rw [hx, hle m hm x hx]
      rw [e, if_pos hall]
      exact h'
    · cases h'

theorem mentions_renameDef (f : String → Option String) (d : Def) :
    (renameDef f d).mentions = d.mentions.map (ren f) := by
  cases d <;> rfl

theorem tyOf_map_ren (g : String → String) (o : Option Info) (t : String) (h : tyOf o = some t) :
    tyOf (o.map (fun i => ({ i with ty := i.ty.map g } : Info))) = some (g t) := by
  cases o with
  | none => cases h
  | some i =>
    have h' : i.ty = some t := h
    show (i.ty.map g) = some (g t)
    rw [h']; rfl

/-- the fragment is equivariant: renaming changes the type (an alias) inside the entries and
nothing in the values -/
def fragEquivariant : Equivariant fragA fragE where
  renI := fun g i => { i with ty := i.ty.map g }
  ok_ren := by
    intro g i
    show (i.ty.map g).isSome = i.ty.isSome
    cases i.ty <;> rfl
  verified_ren := fun _ _ => rfl
  rename_id := by
    intro f d h
    cases d with
    | empty => rfl
    | bad => rfl
    | union l =>
      show Def.union (l.map fun n => (f n).getD n) = Def.union l
      congr 1
      have : ∀ n ∈ l, (fun n => (f n).getD n) n = n := fun n hn => h n hn
      rw [List.map_congr_left this, List.map_id']
  mentions_rename := mentions_renameDef
  analyse_ren := by
    intro f sk sk' ctx ctx' c hok hctx
    show resultInfo (fragType ctx' (renCst fragA f c)) =
      ({ (resultInfo (fragType ctx c)) with ty := (resultInfo (fragType ctx c)).ty.map (ren f) } : Info)
    cases hf : fragType ctx c with
    | none =>
      have : fragA.ok (resultInfo (fragType ctx c)) = true := hok
      rw [hf] at this
      cases this
    | some t =>
      have : fragType ctx' (renCst fragA f c) = some (ren f t) := by
        rcases fragType_eq_some.1 hf with ⟨hk, hd, ht⟩ | ⟨hk, n, ns, hd, hall⟩
        · refine fragType_eq_some.2 (Or.inl ⟨hk, ?_, ?_⟩)
          · show renameDef f c.defn = .empty
            rw [hd]; rfl
          · show ren f t = ren f c.alias
            rw [ht]
        · refine fragType_eq_some.2 (Or.inr ⟨hk, ren f n, ns.map (ren f), ?_, ?_⟩)
          · show renameDef f c.defn = _
            rw [hd]; rfl
          · intro m' hm'
            rw [← List.map_cons (f := ren f)] at hm'
            obtain ⟨m, hm, rfl⟩ := List.mem_map.1 hm'
            have hm2 : m ∈ fragA.mentions c.defn := by
              show m ∈ c.defn.mentions
              rw [hd]; exact hm
            rw [hctx m hm2]
            exact tyOf_map_ren (ren f) (ctx m) t (hall m hm)
      rw [this]
      rfl
  eval_ren := by
    intro f ctx ctx' c v hctx h
    have h' : (if (c.defn.mentions.map ctx).all Option.isSome then
        some ((c.defn.mentions.map ctx).foldl (fun acc v => unionData acc (v.getD [])) []) else none) = some v := h
    show (if ((renameDef f c.defn).mentions.map ctx').all Option.isSome then
        some (((renameDef f c.defn).mentions.map ctx').foldl (fun acc v => unionData acc (v.getD [])) [])
        else none) = some v
    split at h'
    · next hall =>
      have e : (renameDef f c.defn).mentions.map ctx' = c.defn.mentions.map ctx := by
        rw [mentions_renameDef, List.map_map]
        apply List.map_congr_left
        intro m hm
        have hs := List.all_eq_true.1 hall (ctx m) (List.mem_map.2 ⟨m, hm, rfl⟩)
        obtain ⟨x, hx⟩ := Option.isSome_iff_exists.1 hs
        simp only [Function.comp]
        rw [hx, hctx m hm x hx]
      rw [e, if_pos hall]
      exact h'
    · cases h'

/-! ## an evaluation that reads names -/

/-- the value of a term is 1 if its definition mentions the name `X1` literally, 0 otherwise -/
def nameE : Eval (List String) (Option Nat) Nat where
  verified := Option.isSome
  baseReset := 0
  eval := fun _ c => some (if c.defn.contains "X1" then 1 else 0)

theorem nameE_lawful : EvalLawful heightA nameE where
  skel_indep := fun _ _ _ _ => rfl
  missing := by
    intro sk ctx c m hm hc
    show ((heightOf ctx c.defn).map (· + 1)).isSome = false
    have : heightOf ctx c.defn = none := by
      have hm' : m ∈ c.defn := hm
      generalize c.defn = l at hm'
      induction l with
      | nil => cases hm'
      | cons x xs ih =>
        unfold heightOf
        rcases List.mem_cons.1 hm' with rfl | h
        · rw [hc]
        · rw [ih h]
          cases ctx x with
          | none => rfl
          | some o => cases o <;> rfl
    rw [this]; rfl
  verified_ok := fun _ _ _ h => h
  mono := fun _ _ _ _ _ h => h

end CCVerif.RSModelGen
