import CCVerif.Lemmas.EvalCallsTop
import CCVerif.Lemmas.EvalFiltersTop
/-! Stage 7 of C01 / C02, the normaliser side (`normalize_correct_partial7`): for expressions whose calls `F[args]`
have call-free, binder-free arguments and call-free, binder-free bodies, `Normalizer::Function` (inline the body,
arguments in place of the parameters, ranges overwritten with the range of the call; no `__var<n>` is generated because
the body binds nothing) ALWAYS returns a β-reduct in the sense of `Beta` (`Lemmas/EvalCalls.lean`).

* `Pl xs a`  - `a` is call-free and binder-free over the local names `xs`;
* `Sub nodes lo hi body es` - `es` is `body` with the parameters replaced by the argument trees `nodes` and every other
  node re-ranged to `lo hi` (what `SubstituteArgs` computes on a binder-free body all of whose locals are parameters);
* `CN fs xs e es` - `e` (stage-3 constructs over the bound variables `xs`, calls as above, anywhere - also under
  binders, with arguments that mention the bound variables) and its inlined form `es`.
`CN.beta`: `Beta fs 2 (ctxOf xs) e es` (bound variables keep their names).  `CN.normalize`: the normaliser returns `es`
from every state of its name tables and leaves the state alone. -/
namespace CCVerif.Eval
open CCVerif.Syntax CCVerif.Spec CCVerif.Norm

/-- call-free, binder-free expressions over the local names `xs` -/
inductive Pl (xs : List String) : Ast → Prop where
  | lit (n lo hi : Int) : Pl xs (.node .LIT_INTEGER (.int n) lo hi [])
  | empty (d : TokData) (lo hi : Int) : Pl xs (.node .LIT_EMPTYSET d lo hi [])
  | glob (g : String) (lo hi : Int) : Pl xs (.node .ID_GLOBAL (.text g) lo hi [])
  | loc (x : String) (lo hi : Int) : x ∈ xs → Pl xs (.node .ID_LOCAL (.text x) lo hi [])
  | un {t : Tok} {a : Ast} (d : TokData) (lo hi : Int) : isUn t → Pl xs a → Pl xs (.node t d lo hi [a])
  | pr {t : Tok} {a : Ast} (idx : List Int) (lo hi : Int) : t = .SMALLPR ∨ t = .BIGPR → Pl xs a →
      Pl xs (.node t (.tuple idx) lo hi [a])
  | bin {t : Tok} {a b : Ast} (d : TokData) (lo hi : Int) : isBin7 t → Pl xs a → Pl xs b → Pl xs (.node t d lo hi [a, b])
  | mem {t : Tok} {a b : Ast} (d : TokData) (lo hi : Int) : isMemTok t → b.id ≠ .BOOLEAN → Pl xs a → Pl xs b →
      Pl xs (.node t d lo hi [a, b])
  | memPow {t : Tok} {a b : Ast} (d d' : TokData) (lo hi lo2 hi2 : Int) : isMemTok t → Pl xs a → Pl xs b →
      Pl xs (.node t d lo hi [a, .node .BOOLEAN d' lo2 hi2 [b]])
  | nary {t : Tok} (d : TokData) (lo hi : Int) (ks : List Ast) : isNary t → (∀ k ∈ ks, Pl xs k) → Pl xs (.node t d lo hi ks)

/-- `SubstituteArgs` on a binder-free body whose locals are all parameters -/
inductive Sub (nodes : List (String × Ast)) (lo hi : Int) : Ast → Ast → Prop where
  | lit (n l h : Int) : Sub nodes lo hi (.node .LIT_INTEGER (.int n) l h []) (.node .LIT_INTEGER (.int n) lo hi [])
  | empty (d : TokData) (l h : Int) : Sub nodes lo hi (.node .LIT_EMPTYSET d l h []) (.node .LIT_EMPTYSET d lo hi [])
  | glob (g : String) (l h : Int) : Sub nodes lo hi (.node .ID_GLOBAL (.text g) l h []) (.node .ID_GLOBAL (.text g) lo hi [])
  | par (x : String) (l h : Int) (arg : Ast) : lookup x nodes = some arg → Sub nodes lo hi (.node .ID_LOCAL (.text x) l h []) arg
  | un {t : Tok} {a as : Ast} (d : TokData) (l h : Int) : isUn t → Sub nodes lo hi a as →
      Sub nodes lo hi (.node t d l h [a]) (.node t d lo hi [as])
  | pr {t : Tok} {a as : Ast} (idx : List Int) (l h : Int) : t = .SMALLPR ∨ t = .BIGPR → Sub nodes lo hi a as →
      Sub nodes lo hi (.node t (.tuple idx) l h [a]) (.node t (.tuple idx) lo hi [as])
  | bin {t : Tok} {a b as bs : Ast} (d : TokData) (l h : Int) : isBin7 t → Sub nodes lo hi a as → Sub nodes lo hi b bs →
      Sub nodes lo hi (.node t d l h [a, b]) (.node t d lo hi [as, bs])
  | mem {t : Tok} {a b as bs : Ast} (d : TokData) (l h : Int) : isMemTok t → b.id ≠ .BOOLEAN → bs.id ≠ .BOOLEAN →
      Sub nodes lo hi a as → Sub nodes lo hi b bs → Sub nodes lo hi (.node t d l h [a, b]) (.node t d lo hi [as, bs])
  | memPow {t : Tok} {a b as bs : Ast} (d d' : TokData) (l h l2 h2 : Int) : isMemTok t →
      Sub nodes lo hi a as → Sub nodes lo hi b bs →
      Sub nodes lo hi (.node t d l h [a, .node .BOOLEAN d' l2 h2 [b]]) (.node t d lo hi [as, .node .BOOLEAN d' lo hi [bs]])
  | nary {t : Tok} (d : TokData) (l h : Int) (ks kss : List Ast) : isNary t → ks.length = kss.length →
      (∀ q ∈ ks.zip kss, Sub nodes lo hi q.1 q.2) → Sub nodes lo hi (.node t d l h ks) (.node t d lo hi kss)

/-! ## tokens -/

theorem isUn_ne_local {t : Tok} (h : isUn t) : (t != .ID_LOCAL) = true := by
  rcases h with rfl | rfl | rfl | rfl | rfl | rfl <;> rfl
theorem isBin7_ne_local {t : Tok} (h : isBin7 t) : (t != .ID_LOCAL) = true := by
  rcases h with h | h | h | h | h | h
  · rcases h with rfl | rfl | rfl <;> rfl
  · rcases h with rfl | rfl | rfl | rfl <;> rfl
  · rcases h with rfl | rfl <;> rfl
  · rcases h with rfl | rfl | rfl <;> rfl
  · rcases h with rfl | rfl | rfl | rfl <;> rfl
  · rcases h with rfl | rfl | rfl | rfl <;> rfl
theorem isMemTok_ne_local {t : Tok} (h : isMemTok t) : (t != .ID_LOCAL) = true := by rcases h with rfl | rfl <;> rfl
theorem isNary_ne_local {t : Tok} (h : isNary t) : (t != .ID_LOCAL) = true := by rcases h with rfl | rfl | rfl <;> rfl

theorem plainTok_of_un {t : Tok} (h : isUn t) : plainTok t = true := by
  rcases h with rfl | rfl | rfl | rfl | rfl | rfl <;> rfl
theorem plainTok_of_bin7 {t : Tok} (h : isBin7 t) : plainTok t = true := by
  rcases h with h | h | h | h | h | h
  · exact plainTok_of_arith h
  · exact plainTok_of_intCmp h
  · exact plainTok_of_eq h
  · exact plainTok_of_sub h
  · exact plainTok_of_setOp h
  · exact plainTok_of_conn h
theorem plainTok_of_nary {t : Tok} (h : isNary t) : plainTok t = true := by rcases h with rfl | rfl | rfl <;> rfl
theorem plainTok_of_prTok {t : Tok} (h : t = .SMALLPR ∨ t = .BIGPR) : plainTok t = true := by rcases h with rfl | rfl <;> rfl

/-! ## `SubstituteArgs` -/

theorem substArgsKids_of (nodes : List (String × Ast)) (lo hi : Int) : ∀ (ks kss : List Ast), ks.length = kss.length →
    (∀ q ∈ ks.zip kss, ∀ st, substArgs nodes lo hi q.1 st = (q.2, st)) →
    ∀ st, substArgsKids nodes lo hi ks st = (kss, st)
  | [], [], _, _, st => by simp [substArgsKids]
  | k :: ks, k' :: kss, hl, h, st => by
    have h1 := h (k, k') (by simp) st
    have h2 := substArgsKids_of nodes lo hi ks kss (by simpa using hl) (fun q hq => h q (by simp [hq])) st
    simp only at h1
    simp only [substArgsKids, h1, h2]
  | [], _ :: _, hl, _, _ => by simp at hl
  | _ :: _, [], hl, _, _ => by simp at hl

theorem substArgsKids_one {nodes : List (String × Ast)} {lo hi : Int} {a as : Ast}
    (h : ∀ st, substArgs nodes lo hi a st = (as, st)) (st : SubSt) : substArgsKids nodes lo hi [a] st = ([as], st) := by
  simp only [substArgsKids, h]

theorem substArgsKids_two {nodes : List (String × Ast)} {lo hi : Int} {a as b bs : Ast}
    (ha : ∀ st, substArgs nodes lo hi a st = (as, st)) (hb : ∀ st, substArgs nodes lo hi b st = (bs, st)) (st : SubSt) :
    substArgsKids nodes lo hi [a, b] st = ([as, bs], st) := by
  simp only [substArgsKids, ha, hb]

theorem substArgs_node {nodes : List (String × Ast)} {lo hi : Int} {t : Tok} (ht : (t != .ID_LOCAL) = true)
    (d : TokData) (l h : Int) (ks kss : List Ast) (st : SubSt)
    (hk : substArgsKids nodes lo hi ks st = (kss, st)) :
    substArgs nodes lo hi (.node t d l h ks) st = (.node t d lo hi kss, st) := by
  simp only [substArgs, ht, if_true, hk]

theorem Sub.substArgs {nodes : List (String × Ast)} {lo hi : Int} {body es : Ast} (h : Sub nodes lo hi body es) :
    ∀ st, substArgs nodes lo hi body st = (es, st) := by
  induction h with
  | lit n l h => intro st; exact substArgs_node rfl _ l h [] [] st (by simp [substArgsKids])
  | empty d l h => intro st; exact substArgs_node rfl _ l h [] [] st (by simp [substArgsKids])
  | glob g l h => intro st; exact substArgs_node rfl _ l h [] [] st (by simp [substArgsKids])
  | par x l h arg hx =>
    intro st
    simp only [Norm.substArgs, show (Tok.ID_LOCAL != Tok.ID_LOCAL) = false from rfl, Bool.false_eq_true, if_false, hx]
  | un d l h ht _ ih =>
    intro st
    exact substArgs_node (isUn_ne_local ht) d l h _ _ st (substArgsKids_one ih st)
  | pr idx l h ht _ ih =>
    intro st
    exact substArgs_node (by rcases ht with rfl | rfl <;> rfl) _ l h _ _ st (substArgsKids_one ih st)
  | bin d l h ht _ _ iha ihb =>
    intro st
    exact substArgs_node (isBin7_ne_local ht) d l h _ _ st (substArgsKids_two iha ihb st)
  | mem d l h ht _ _ _ _ iha ihb =>
    intro st
    exact substArgs_node (isMemTok_ne_local ht) d l h _ _ st (substArgsKids_two iha ihb st)
  | @memPow t a b as bs d d' l h l2 h2 ht _ _ iha ihb =>
    intro st
    have hb : ∀ st, Norm.substArgs nodes lo hi (.node .BOOLEAN d' l2 h2 [b]) st = (.node .BOOLEAN d' lo hi [bs], st) := fun st =>
      substArgs_node rfl d' l2 h2 _ _ st (substArgsKids_one ihb st)
    exact substArgs_node (isMemTok_ne_local ht) d l h _ _ st (substArgsKids_two iha hb st)
  | nary d l h ks kss ht hlen _ ih =>
    intro st
    exact substArgs_node (isNary_ne_local ht) d l h _ _ st (substArgsKids_of _ _ _ ks kss hlen ih st)

/-! ## the normaliser is the identity on `Pl` -/

theorem Pl.normalize {xs : List String} {a : Ast} (h : Pl xs a) (fs : Funcs) :
    ∀ fuel st, normalize fs fuel a st = none ∨ normalize fs fuel a st = some (a, st) := by
  induction h with
  | lit n lo hi =>
    intro fuel b
    cases fuel with
    | zero => exact Or.inl (normalize_zero _ _ _)
    | succ f => rw [normalize_plain (Or.inl rfl)]; simp
  | empty d lo hi =>
    intro fuel b
    cases fuel with
    | zero => exact Or.inl (normalize_zero _ _ _)
    | succ f => rw [normalize_plain (Or.inl rfl)]; simp
  | glob g lo hi =>
    intro fuel b
    cases fuel with
    | zero => exact Or.inl (normalize_zero _ _ _)
    | succ f => rw [normalize_plain (Or.inr (Or.inl rfl))]; simp
  | loc x lo hi _ => intro fuel b; exact normalize_local fs fuel x lo hi b
  | un d lo hi ht _ ih => exact norm1F (plainTok_of_un ht) d lo hi ih
  | pr idx lo hi ht _ ih => exact norm1F (plainTok_of_prTok ht) _ lo hi ih
  | bin d lo hi ht _ _ iha ihb => exact norm2F (plainTok_of_bin7 ht) d lo hi iha ihb
  | mem d lo hi ht _ _ _ iha ihb => exact norm2F (plainTok_of_mem ht) d lo hi iha ihb
  | memPow d d' lo hi lo2 hi2 ht _ _ iha ihb => exact norm2F (plainTok_of_mem ht) d lo hi iha (norm1F rfl d' lo2 hi2 ihb)
  | nary d lo hi ks ht _ ih =>
    refine normNF (plainTok_of_nary ht) d lo hi ks ks rfl (fun q hq => ?_)
    obtain ⟨h1, h2⟩ := mem_zip_self hq
    obtain ⟨q1, q2⟩ := q
    simp only at h1; subst h1
    exact ih q1 h2

theorem Pl.mono {xs ys : List String} (hs : ∀ x ∈ xs, x ∈ ys) {a : Ast} (h : Pl xs a) : Pl ys a := by
  induction h with
  | lit n lo hi => exact .lit ..
  | empty d lo hi => exact .empty ..
  | glob g lo hi => exact .glob ..
  | loc x lo hi hx => exact .loc x lo hi (hs x hx)
  | un d lo hi ht _ ih => exact .un d lo hi ht ih
  | pr idx lo hi ht _ ih => exact .pr idx lo hi ht ih
  | bin d lo hi ht _ _ iha ihb => exact .bin d lo hi ht iha ihb
  | mem d lo hi ht hb _ _ iha ihb => exact .mem d lo hi ht hb iha ihb
  | memPow d d' lo hi lo2 hi2 ht _ _ iha ihb => exact .memPow d d' lo hi lo2 hi2 ht iha ihb
  | nary d lo hi ks ht _ ih => exact .nary d lo hi ks ht ih

/-- the inlined body is call-free and binder-free over the caller's variables -/
theorem Sub.pl {nodes : List (String × Ast)} {lo hi : Int} {body es : Ast} {xs : List String} (h : Sub nodes lo hi body es)
    (hn : ∀ x arg, lookup x nodes = some arg → Pl xs arg) : Pl xs es := by
  induction h with
  | lit n l h => exact .lit ..
  | empty d l h => exact .empty ..
  | glob g l h => exact .glob ..
  | par x l h arg hx => exact hn x arg hx
  | un d l h ht _ ih => exact .un d lo hi ht ih
  | pr idx l h ht _ ih => exact .pr idx lo hi ht ih
  | bin d l h ht _ _ iha ihb => exact .bin d lo hi ht iha ihb
  | mem d l h ht _ hbs _ _ iha ihb => exact .mem d lo hi ht hbs iha ihb
  | memPow d d' l h l2 h2 ht _ _ iha ihb => exact .memPow d d' lo hi lo hi ht iha ihb
  | nary d l h ks kss ht hlen _ ih =>
    refine .nary d lo hi kss ht (fun k' hk' => ?_)
    obtain ⟨k, hk⟩ := mem_zip_snd hlen hk'
    exact ih _ hk

/-! ## β-reduction -/

/-- the scope of the caller: bound variables keep their names -/
def ctxOf (xs : List String) : BCtx := xs.map fun x => (x, Ent.ren x)

theorem avoid_ctxOf : ∀ xs : List String, avoid (ctxOf xs) = xs
  | [] => rfl
  | x :: xs => by simp [ctxOf, avoid]; exact avoid_ctxOf xs

theorem lookup_ctxOf {x : String} : ∀ {xs : List String}, x ∈ xs → lookup x (ctxOf xs) = some (.ren x)
  | y :: xs, h => by
    by_cases e : x = y
    · subst e; simp [ctxOf, lookup]
    · have hx : x ∈ xs := by simpa [e] using h
      have := lookup_ctxOf hx
      simp only [ctxOf, List.map_cons, lookup]
      have hne : (x == y) = false := by simp [e]
      simp only [hne, Bool.false_eq_true, if_false]
      exact this

/-- a call-free, binder-free expression over the bound variables reduces to itself -/
theorem Pl.beta {xs : List String} {a : Ast} (h : Pl xs a) (fs : Funcs) (K : Nat) : Beta fs K (ctxOf xs) a a := by
  induction h with
  | lit n lo hi => exact .mono (Nat.zero_le _) (.lit n lo hi lo hi)
  | empty d lo hi => exact .mono (Nat.zero_le _) (.empty d lo hi lo hi)
  | glob g lo hi => exact .mono (Nat.zero_le _) (.glob g lo hi lo hi)
  | loc x lo hi hx => exact .mono (Nat.zero_le _) (.loc x x lo hi lo hi (lookup_ctxOf hx))
  | un d lo hi ht _ ih => exact .un d lo hi lo hi ht ih
  | pr idx lo hi ht _ ih => exact .pr idx lo hi lo hi ht ih
  | bin d lo hi ht _ _ iha ihb => exact .bin d lo hi lo hi ht iha ihb
  | mem d lo hi ht hb _ _ iha ihb => exact .mem d lo hi lo hi ht hb hb iha ihb
  | memPow d d' lo hi lo2 hi2 ht _ _ iha ihb => exact .memPow d d' lo hi lo hi lo2 hi2 lo2 hi2 ht iha ihb
  | nary d lo hi ks ht _ ih =>
    refine .nary d lo hi lo hi ks ks ht rfl (fun q hq => ?_)
    obtain ⟨h1, h2⟩ := mem_zip_self hq
    obtain ⟨q1, q2⟩ := q
    simp only at h1; subst h1
    exact ih q1 h2

/-- the body in the scope of its parameters reduces to the inlined body -/
theorem Sub.beta {nodes : List (String × Ast)} {lo hi : Int} {body es : Ast} (h : Sub nodes lo hi body es) (fs : Funcs)
    (Δ : BCtx) (N : List String) (hn : ∀ x arg, lookup x nodes = some arg → lookup x Δ = some (.par arg N 0)) :
    Beta fs 1 Δ body es := by
  induction h with
  | lit n l h => exact .mono (Nat.zero_le _) (.lit n l h lo hi)
  | empty d l h => exact .mono (Nat.zero_le _) (.empty d l h lo hi)
  | glob g l h => exact .mono (Nat.zero_le _) (.glob g l h lo hi)
  | par x l h arg hx => exact .par x arg N 0 l h (hn x arg hx)
  | un d l h ht _ ih => exact .un d l h lo hi ht ih
  | pr idx l h ht _ ih => exact .pr idx l h lo hi ht ih
  | bin d l h ht _ _ iha ihb => exact .bin d l h lo hi ht iha ihb
  | mem d l h ht hb hbs _ _ iha ihb => exact .mem d l h lo hi ht hb hbs iha ihb
  | memPow d d' l h l2 h2 ht _ _ iha ihb => exact .memPow d d' l h lo hi l2 h2 lo hi ht iha ihb
  | nary d l h ks kss ht hlen _ ih => exact .nary d l h lo hi ks kss ht hlen ih

/-! ## the scope of a body -/

theorem lookup_none_of_not_mem {α} {x : String} : ∀ {l : List (String × α)}, x ∉ l.map (·.1) → lookup x l = none
  | [], _ => rfl
  | (y, a) :: l, h => by
    have h1 : x ≠ y := by intro e; apply h; simp [e]
    have h2 : x ∉ l.map (·.1) := by intro hm; apply h; simp only [List.map_cons, List.mem_cons]; exact Or.inr hm
    have hne : (x == y) = false := by simp [h1]
    simp only [lookup, hne, Bool.false_eq_true, if_false]
    exact lookup_none_of_not_mem h2

theorem lookup_parFold (N : List String) (K : Nat) (x : String) : ∀ (l : List (String × Ast)) (acc : BCtx),
    (l.map (·.1)).Nodup →
    lookup x (l.foldl (fun acc (pa : String × Ast) => (pa.1, Ent.par pa.2 N K) :: acc) acc) =
      match lookup x l with
      | some arg => some (.par arg N K)
      | none => lookup x acc
  | [], acc, _ => rfl
  | (y, a) :: l, acc, hnd => by
    simp only [List.map_cons, List.nodup_cons] at hnd
    simp only [List.foldl_cons]
    rw [lookup_parFold N K x l _ hnd.2]
    by_cases e : x = y
    · subst e
      rw [lookup_none_of_not_mem hnd.1]
      simp [lookup]
    · have hne : (x == y) = false := by simp [e]
      simp only [lookup, hne, Bool.false_eq_true, if_false]

theorem lookup_parCtx {N : List String} {K : Nat} {l : List (String × Ast)} (hnd : (l.map (·.1)).Nodup) {x : String}
    {arg : Ast} (h : lookup x l = some arg) : lookup x (parCtx N K l) = some (.par arg N K) := by
  unfold parCtx
  rw [lookup_parFold N K x l [] hnd, h]

/-! ## the caller -/

/-- `e` (stage-3 constructs over the bound variables `xs`; calls with call-free, binder-free arguments of definitions
with call-free, binder-free bodies) and `es`, `e` with every call inlined -/
inductive CN (fs : Funcs) : List String → Ast → Ast → Prop where
  | lit {xs : List String} (n lo hi : Int) : CN fs xs (.node .LIT_INTEGER (.int n) lo hi []) (.node .LIT_INTEGER (.int n) lo hi [])
  | empty {xs : List String} (d : TokData) (lo hi : Int) : CN fs xs (.node .LIT_EMPTYSET d lo hi []) (.node .LIT_EMPTYSET d lo hi [])
  | glob {xs : List String} (g : String) (lo hi : Int) :
      CN fs xs (.node .ID_GLOBAL (.text g) lo hi []) (.node .ID_GLOBAL (.text g) lo hi [])
  | loc {xs : List String} (x : String) (lo hi : Int) : x ∈ xs →
      CN fs xs (.node .ID_LOCAL (.text x) lo hi []) (.node .ID_LOCAL (.text x) lo hi [])
  | un {xs : List String} {t : Tok} {a as : Ast} (d : TokData) (lo hi : Int) : isUn t → CN fs xs a as →
      CN fs xs (.node t d lo hi [a]) (.node t d lo hi [as])
  | pr {xs : List String} {t : Tok} {a as : Ast} (idx : List Int) (lo hi : Int) : t = .SMALLPR ∨ t = .BIGPR → CN fs xs a as →
      CN fs xs (.node t (.tuple idx) lo hi [a]) (.node t (.tuple idx) lo hi [as])
  | bin {xs : List String} {t : Tok} {a b as bs : Ast} (d : TokData) (lo hi : Int) : isBin7 t → CN fs xs a as → CN fs xs b bs →
      CN fs xs (.node t d lo hi [a, b]) (.node t d lo hi [as, bs])
  | mem {xs : List String} {t : Tok} {a b as bs : Ast} (d : TokData) (lo hi : Int) : isMemTok t → b.id ≠ .BOOLEAN →
      bs.id ≠ .BOOLEAN → CN fs xs a as → CN fs xs b bs → CN fs xs (.node t d lo hi [a, b]) (.node t d lo hi [as, bs])
  | memPow {xs : List String} {t : Tok} {a b as bs : Ast} (d d' : TokData) (lo hi lo2 hi2 : Int) : isMemTok t →
      CN fs xs a as → CN fs xs b bs →
      CN fs xs (.node t d lo hi [a, .node .BOOLEAN d' lo2 hi2 [b]]) (.node t d lo hi [as, .node .BOOLEAN d' lo2 hi2 [bs]])
  | nary {xs : List String} {t : Tok} (d : TokData) (lo hi : Int) (ks kss : List Ast) : isNary t → ks.length = kss.length →
      (∀ q ∈ ks.zip kss, CN fs xs q.1 q.2) → CN fs xs (.node t d lo hi ks) (.node t d lo hi kss)
  | quant {xs : List String} {t : Tok} {dom body doms bodys : Ast} (d : TokData) (lo hi : Int) (x : String) (dlo dhi : Int) :
      isQuant t → x ∉ xs → CN fs xs dom doms → CN fs (x :: xs) body bodys →
      CN fs xs (.node t d lo hi [.node .ID_LOCAL (.text x) dlo dhi [], dom, body])
        (.node t d lo hi [.node .ID_LOCAL (.text x) dlo dhi [], doms, bodys])
  | decl {xs : List String} {dom body doms bodys : Ast} (d : TokData) (lo hi : Int) (x : String) (dlo dhi : Int) :
      x ∉ xs → CN fs xs dom doms → CN fs (x :: xs) body bodys →
      CN fs xs (.node .NT_DECLARATIVE_EXPR d lo hi [.node .ID_LOCAL (.text x) dlo dhi [], dom, body])
        (.node .NT_DECLARATIVE_EXPR d lo hi [.node .ID_LOCAL (.text x) dlo dhi [], doms, bodys])
  /-- `F[args]`: the definition has one declaration node per parameter (its first child the parameter), distinct
  parameter names, as many as there are arguments -/
  | call {xs : List String} {es body hd : Ast} (d : TokData) (lo hi : Int) (ft : Tok) (f : String) (flo fhi : Int)
      (fks : List Ast) (tt : Tok) (td : TokData) (tlo thi : Int) (fd : TokData) (dlo dhi : Int) (at' : Tok) (ad : TokData)
      (alo ahi : Int) (adecls args : List Ast) :
      lookup f fs = some (.node tt td tlo thi [hd, .node .NT_FUNC_DEFINITION fd dlo dhi [.node at' ad alo ahi adecls, body]]) →
      adecls.length = args.length →
      (∀ dcl ∈ adecls, ∃ dt dd dl dh pn rest, dcl = .node dt dd dl dh (pn :: rest)) →
      (paramNames adecls).Nodup → (∀ a ∈ args, Pl xs a) →
      Sub ((paramNames adecls).zip args) lo hi body es →
      CN fs xs (.node .NT_FUNC_CALL d lo hi (.node ft (.text f) flo fhi fks :: args)) es

theorem zip_keys_nodup {names : List String} {args : List Ast} (hl : names.length = args.length) (hnd : names.Nodup) :
    ((names.zip args).map (·.1)).Nodup := by
  rw [List.map_fst_zip (by omega)]; exact hnd

/-- **the inlined form is a β-reduct** -/
theorem CN.beta {fs : Funcs} {xs : List String} {e es : Ast} (h : CN fs xs e es) : Beta fs 2 (ctxOf xs) e es := by
  induction h with
  | lit n lo hi => exact .mono (Nat.zero_le _) (.lit n lo hi lo hi)
  | empty d lo hi => exact .mono (Nat.zero_le _) (.empty d lo hi lo hi)
  | glob g lo hi => exact .mono (Nat.zero_le _) (.glob g lo hi lo hi)
  | loc x lo hi hx => exact .mono (Nat.zero_le _) (.loc x x lo hi lo hi (lookup_ctxOf hx))
  | un d lo hi ht _ ih => exact .un d lo hi lo hi ht ih
  | pr idx lo hi ht _ ih => exact .pr idx lo hi lo hi ht ih
  | bin d lo hi ht _ _ iha ihb => exact .bin d lo hi lo hi ht iha ihb
  | mem d lo hi ht hb hbs _ _ iha ihb => exact .mem d lo hi lo hi ht hb hbs iha ihb
  | memPow d d' lo hi lo2 hi2 ht _ _ iha ihb => exact .memPow d d' lo hi lo hi lo2 hi2 lo2 hi2 ht iha ihb
  | nary d lo hi ks kss ht hlen _ ih => exact .nary d lo hi lo hi ks kss ht hlen ih
  | @quant xs t dom body doms bodys d lo hi x dlo dhi ht hx _ _ ihd ihb =>
    exact .quant d lo hi lo hi x x dlo dhi dlo dhi ht (by rw [avoid_ctxOf]; exact hx) ihd ihb
  | @decl xs dom body doms bodys d lo hi x dlo dhi hx _ _ ihd ihb =>
    exact .decl d lo hi lo hi x x dlo dhi dlo dhi (by rw [avoid_ctxOf]; exact hx) ihd ihb
  | @call xs es body hd d lo hi ft f flo fhi fks tt td tlo thi fd dlo dhi at' ad alo ahi adecls args hf hlen _ hnd hargs hsub =>
    have hpl : (paramNames adecls).length = args.length := by simpa [paramNames] using hlen
    refine .call (Ka := 0) (Kb := 1) d lo hi ft f flo fhi fks tt td tlo thi fd dlo dhi at' ad alo ahi adecls args args hf hlen rfl
      (fun q hq => ?_) ?_
    · obtain ⟨h1, h2⟩ := mem_zip_self hq
      obtain ⟨q1, q2⟩ := q
      simp only at h1; subst h1
      exact (hargs q1 h2).beta fs 0
    · exact hsub.beta fs _ (avoid (ctxOf xs)) (fun x arg hx => lookup_parCtx (zip_keys_nodup hpl hnd) hx)

/-! ## the normaliser -/

theorem setKids_kids (a : Ast) : setKids a a.kids = a := by cases a; rfl

theorem Pl.kids {xs : List String} {a : Ast} (h : Pl xs a) : ∀ k ∈ a.kids, Pl xs k := by
  cases h with
  | lit n lo hi => intro k hk; simp [Ast.kids] at hk
  | empty d lo hi => intro k hk; simp [Ast.kids] at hk
  | glob g lo hi => intro k hk; simp [Ast.kids] at hk
  | loc x lo hi _ => intro k hk; simp [Ast.kids] at hk
  | un d lo hi _ ha => intro k hk; simp [Ast.kids] at hk; subst hk; exact ha
  | pr idx lo hi _ ha => intro k hk; simp [Ast.kids] at hk; subst hk; exact ha
  | bin d lo hi _ ha hb => intro k hk; simp [Ast.kids] at hk; rcases hk with rfl | rfl; exact ha; exact hb
  | mem d lo hi _ _ ha hb => intro k hk; simp [Ast.kids] at hk; rcases hk with rfl | rfl; exact ha; exact hb
  | memPow d d' lo hi lo2 hi2 _ ha hb =>
    intro k hk; simp [Ast.kids] at hk; rcases hk with rfl | rfl
    · exact ha
    · exact .un d' lo2 hi2 (Or.inr (Or.inr (Or.inr (Or.inr (Or.inr rfl))))) hb
  | nary d lo hi ks _ hk => intro k hk'; exact hk k hk'

theorem argNames_eq_paramNames (at' : Tok) (ad : TokData) (alo ahi : Int) (adecls : List Ast)
    (hwf : ∀ dcl ∈ adecls, ∃ dt dd dl dh pn rest, dcl = .node dt dd dl dh (pn :: rest)) :
    argNames (.node at' ad alo ahi adecls) = paramNames adecls := by
  unfold argNames paramNames
  simp only [Ast.kids]
  apply List.map_congr_left
  intro dcl hd
  obtain ⟨dt, dd, dl, dh, pn, rest, rfl⟩ := hwf dcl hd
  simp only [textOf, idNameOf, List.getElem?_cons_zero, Option.getD_some]
  cases pn.data <;> rfl

/-- `Normalizer::Function` up to the recursive `Normalize`: the inlined body, the name state untouched -/
theorem inlineCall_eq {fs : Funcs} {es body hd : Ast} (d : TokData) (lo hi : Int) (ft : Tok) (f : String) (flo fhi : Int)
    (fks : List Ast) (tt : Tok) (td : TokData) (tlo thi : Int) (fd : TokData) (dlo dhi : Int) (at' : Tok) (ad : TokData)
    (alo ahi : Int) (adecls args : List Ast)
    (hf : lookup f fs = some (.node tt td tlo thi [hd, .node .NT_FUNC_DEFINITION fd dlo dhi [.node at' ad alo ahi adecls, body]]))
    (hlen : adecls.length = args.length)
    (hwf : ∀ dcl ∈ adecls, ∃ dt dd dl dh pn rest, dcl = .node dt dd dl dh (pn :: rest))
    (hsub : Sub ((paramNames adecls).zip args) lo hi body es) (st : NState) :
    inlineCall fs (.node .NT_FUNC_CALL d lo hi (.node ft (.text f) flo fhi fks :: args)) st = some (es, st) := by
  have hpl : (paramNames adecls).length = args.length := by simpa [paramNames] using hlen
  simp only [inlineCall, Ast.kids, textOf, Ast.data, hf, argNames_eq_paramNames at' ad alo ahi adecls hwf, Ast.lo, Ast.hi,
    hsub.substArgs]
  have : ¬ (args.length > (paramNames adecls).length) := by omega
  simp [this]

/-- **the normaliser returns the inlined form**, from every state of its name tables, and leaves the state alone -/
theorem CN.normalize {fs : Funcs} {xs : List String} {e es : Ast} (h : CN fs xs e es) :
    ∀ fuel st, normalize fs fuel e st = none ∨ normalize fs fuel e st = some (es, st) := by
  induction h with
  | lit n lo hi =>
    intro fuel b
    cases fuel with
    | zero => exact Or.inl (normalize_zero _ _ _)
    | succ f => rw [normalize_plain (Or.inl rfl)]; simp
  | empty d lo hi =>
    intro fuel b
    cases fuel with
    | zero => exact Or.inl (normalize_zero _ _ _)
    | succ f => rw [normalize_plain (Or.inl rfl)]; simp
  | glob g lo hi =>
    intro fuel b
    cases fuel with
    | zero => exact Or.inl (normalize_zero _ _ _)
    | succ f => rw [normalize_plain (Or.inr (Or.inl rfl))]; simp
  | loc x lo hi _ => intro fuel b; exact normalize_local fs fuel x lo hi b
  | un d lo hi ht _ ih => exact norm1F (plainTok_of_un ht) d lo hi ih
  | pr idx lo hi ht _ ih => exact norm1F (plainTok_of_prTok ht) _ lo hi ih
  | bin d lo hi ht _ _ iha ihb => exact norm2F (plainTok_of_bin7 ht) d lo hi iha ihb
  | mem d lo hi ht _ _ _ _ iha ihb => exact norm2F (plainTok_of_mem ht) d lo hi iha ihb
  | memPow d d' lo hi lo2 hi2 ht _ _ iha ihb => exact norm2F (plainTok_of_mem ht) d lo hi iha (norm1F rfl d' lo2 hi2 ihb)
  | nary d lo hi ks kss ht hlen _ ih => exact normNF (plainTok_of_nary ht) d lo hi ks kss hlen ih
  | @quant xs t dom body doms bodys d lo hi x dlo dhi ht _ _ _ ihd ihb =>
    intro fuel b
    cases fuel with
    | zero => exact Or.inl (normalize_zero _ _ _)
    | succ f =>
      rw [normalize_binder (bindTok_of_quant ht)]
      rcases nfold_map fs f [(.node .ID_LOCAL (.text x) dlo dhi [], .node .ID_LOCAL (.text x) dlo dhi []), (dom, doms),
          (body, bodys)] [] b (fun q hq b => by
        simp at hq
        rcases hq with rfl | rfl | rfl
        · exact normalize_local fs f x dlo dhi b
        · exact ihd f b
        · exact ihb f b) with h1 | h1
      · left; simp at h1; simp [h1]
      · right; simp at h1; simp [h1]
  | @decl xs dom body doms bodys d lo hi x dlo dhi _ _ _ ihd ihb =>
    intro fuel b
    cases fuel with
    | zero => exact Or.inl (normalize_zero _ _ _)
    | succ f =>
      rw [normalize_binder rfl]
      rcases nfold_map fs f [(.node .ID_LOCAL (.text x) dlo dhi [], .node .ID_LOCAL (.text x) dlo dhi []), (dom, doms),
          (body, bodys)] [] b (fun q hq b => by
        simp at hq
        rcases hq with rfl | rfl | rfl
        · exact normalize_local fs f x dlo dhi b
        · exact ihd f b
        · exact ihb f b) with h1 | h1
      · left; simp at h1; simp [h1]
      · right; simp at h1; simp [h1]
  | @call xs es body hd d lo hi ft f flo fhi fks tt td tlo thi fd dlo dhi at' ad alo ahi adecls args hf hlen hwf hnd hargs hsub =>
    intro fuel b
    cases fuel with
    | zero => exact Or.inl (normalize_zero _ _ _)
    | succ g =>
      have hpl : Pl xs es := hsub.pl (fun x arg hx => by
        have := lookup_mem hx
        exact hargs arg (List.of_mem_zip this).2)
      rw [normalize_succ]
      simp only [normF, normStep, Ast.id, inlineCall_eq d lo hi ft f flo fhi fks tt td tlo thi fd dlo dhi at' ad alo ahi adecls args
        hf hlen hwf hsub b]
      rcases hpl.normalize fs g b with h1 | h1
      · left; simp only [h1]
      · simp only [h1]
        have hk : normKids (Norm.normalize fs g) es.kids (some ([], b)) = es.kids.foldl (nstep fs g) (some ([], b)) := rfl
        rw [hk]
        rcases nfold_id fs g es.kids [] b (fun k hk b => (hpl.kids k hk).normalize fs g b) with h2 | h2
        · left; simp only [h2]
        · right; simp only [h2, List.nil_append, setKids_kids]

/-- `SyntaxTree::Normalize` on a closed expression of the class -/
theorem CN.normalizesTree {fs : Funcs} {e es : Ast} (h : CN fs [] e es) (fuel : Nat) :
    normalizeTree fs fuel e = none ∨ normalizeTree fs fuel e = some es := by
  unfold Norm.normalizeTree
  rcases h.normalize fuel { userLocals := collectLocals e } with h1 | h1 <;> simp [h1]

/-! ## evaluation -/

/-- `evaluate_calls` with the normaliser's answer given at every fuel (instead of at one fuel) -/
theorem evaluate_calls' {env : Env} {G : TCtx} {lvl : Nat} (hG : GlobalsOK env G) {e es n : Ast} {τ : ExprTy} {K : Nat}
    (h : FragR env G lvl [] [] es n τ) (hb : Beta env.funcs K [] e es)
    (hn0 : ∀ fuel, normalizeTree env.funcs fuel e = none ∨ normalizeTree env.funcs fuel e = some n) (fuel : Nat) :
    TopGood env (fuel + K) e τ (evaluate fuel env e).1 ∨ (evaluate fuel env e).1 = .outOfFuel ∨
    ∃ eid pos, (evaluate fuel env e).1 = .err eid pos ∧ DocErr eid := by
  have hbeta : ∀ v, (∀ f', fuel ≤ f' → denote (senvOf env) f' .nil es = some v) →
      ∀ f', fuel + K ≤ f' → denote (senvOf env) f' .nil e = some v := fun v hd f' hf' =>
    Beta.sound (S := senvOf env) hb .nil .nil (ERel.nil _ _ _) fuel v (hd fuel (Nat.le_refl _)) f' hf'
  have he : evaluate fuel env e = (.outOfFuel, 0) ∨ evaluate fuel env e = evalNorm fuel env n := by
    unfold evaluate
    rcases hn0 fuel with hn | hn
    · left; simp [hn]
    · right; simp [hn]
  rcases he with he | he
  · right; left; rw [he]
  · rw [he]
    have hs := h.shape_closed
    unfold evalNorm
    rcases collect_shape hs fuel {} (NCInv.empty env) with hc | ⟨pos, hc⟩ | ⟨vars, al, nc, hc, hi, _, hcov⟩
    · right; left; simp [hc]
    · right; right; exact ⟨_, pos, by simp [hc], Or.inr (Or.inr (Or.inl rfl))⟩
    · simp only [hc]
      have hinv : Inv env { ids := nc.ids } [] [] .nil { data := nc.data, iters := 0 } :=
        ⟨hi.range, hi.inj, hi.glob, by intro x σ hx; simp [lookup] at hx, by intro x r hx; simp [lookup] at hx⟩
      have hsim := sim hG { ids := nc.ids } h fuel none { data := nc.data, iters := 0 } .nil hinv hcov
      cases τ with
      | ty ty =>
        rcases hsim with ⟨v, st', hr, _, hw, hn', hd⟩ | ⟨fl, k, hr, hf⟩
        · left; exact ⟨v, by simp [hr], hw, hn', hbeta _ hd⟩
        · rcases hf with rfl | ⟨eid, pos, rfl, hdoc⟩
          · right; left; simp [hr]
          · right; right; exact ⟨eid, pos, by simp [hr], hdoc⟩
      | logic =>
        rcases hsim with ⟨b, st', hr, _, hd⟩ | ⟨fl, k, hr, hf⟩
        · left; exact ⟨b, by simp [hr], hbeta _ hd⟩
        · rcases hf with rfl | ⟨eid, pos, rfl, hdoc⟩
          · right; left; simp [hr]
          · right; right; exact ⟨eid, pos, by simp [hr], hdoc⟩

end CCVerif.Eval
